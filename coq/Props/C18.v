(** C18 — extract emits complete, compilable, faithful wrappers.
    Only theorem statements, each closed by [exact] of a lemma of Extract/Proofs.v.
    Y = extract/extract.go (genContent, fixConst, genBuildTags) on the go/types view of a package;
    G = the contract (exported non-generic objects, variables by address, untyped constants
    exactly, one forwarding wrapper per exported ordinary interface). *)
From Verif Require Import Lib.Str Extract.Decimal Extract.Model Extract.Proofs.
Open Scope Z_scope.

(** The property at full strength (Extract/Model.v [c18_statement]; false of the faithful model
    today, see [C18_refuted] and the other [_refuted] theorems): for every package, every
    generated row denotes what the contract prescribes for its declaration, the same names are
    bound, every wrapper forwards, and the file compiles. *)
Definition C18_statement : Prop := c18_statement.

Theorem C18_refuted : ~ C18_statement.
Proof. exact statement_refuted. Qed.
Print Assumptions C18_refuted.

(** the evaluator applied to the observed outputs (Extract/Cases.v) is the model *)
Theorem C18_evaluator_full : forall p, y_emit_fast p = y_emit p.
Proof. exact y_emit_fast_eq. Qed.
Print Assumptions C18_evaluator_full.

(* ---------------- names and forms (all declaration lists) ---------------- *)

(** value bindings: exactly the exported constants, non-generic functions and variables, each under
    its own name, in order; variables by address and everything else by value *)
Theorem C18_names_full :
  forall p, map fst (y_vals p) = map fst (g_vals p).
Proof. exact val_names_full. Qed.
Print Assumptions C18_names_full.

Theorem C18_forms_full :
  forall p, map (fun kv => (fst kv, yclass (snd kv))) (y_vals p)
          = map (fun kv => (fst kv, gclass (snd kv))) (g_vals p).
Proof. exact val_forms_full. Qed.
Print Assumptions C18_forms_full.

(** type bindings and wrappers: the same names, provided no interface lies in the regions
    "constraint with methods" / "embeds only empty interfaces" *)
Theorem C18_type_names_partial :
  forall p, forallb iface_side (pk_decls p) = true ->
    map fst (y_typs p) = map fst (g_typs p) /\ map fst (y_wraps p) = map fst (g_wraps p).
Proof. exact typ_names_partial. Qed.
Print Assumptions C18_type_names_partial.

Theorem C18_type_names_refuted :
  (map fst (y_typs ex_constraint) = [s "Con"] /\ map fst (g_typs ex_constraint) = [] /\ y_compiles ex_constraint = false)
  /\ (map fst (y_typs ex_embedded_empty) = [s "Empty"] /\ map fst (g_typs ex_embedded_empty) = [s "Emb"; s "Empty"]).
Proof. exact type_names_refuted. Qed.
Print Assumptions C18_type_names_refuted.

(* ---------------- what the rows denote ---------------- *)

(** every generated row denotes exactly what the contract prescribes, for every package outside
    the known-finding regions (non-dyadic float constants, inexact complex constants, the
    restricted-by-package-name rule, irregular interfaces) *)
Theorem C18_binds_partial :
  forall p, pkg_side p = true -> forallb (decl_agreeb p) (pk_decls p) = true.
Proof. exact binds_partial. Qed.
Print Assumptions C18_binds_partial.

Theorem C18_side_condition_inhabited :
  pkg_side ex_good = true /\ wf_pkg ex_good = true /\ pkg_agreeb ex_good = true
  /\ map fst (y_vals ex_good) = [s "Anchor"; s "Big"; s "Half"; s "Name"; s "Typed"; s "V"]
  /\ map fst (y_wraps ex_good) = [s "P"].
Proof. exact side_inhabited. Qed.
Print Assumptions C18_side_condition_inhabited.

(** sealed interfaces (embedding an interface, only unexported methods) are inside the side
    conditions: bound and wrapped (with no method) by Y as the contract says *)
Theorem C18_sealed_interface_inhabited :
  pkg_side ex_sealed = true /\ pkg_agreeb ex_sealed = true
  /\ map fst (y_typs ex_sealed) = [s "Expr"; s "Stmt"] /\ map fst (g_typs ex_sealed) = [s "Expr"; s "Stmt"]
  /\ y_wraps ex_sealed = [(s "Expr", mkYW (s "_vt_k_Expr") []); (s "Stmt", mkYW (s "_vt_k_Stmt") [])].
Proof. exact sealed_bound. Qed.
Print Assumptions C18_sealed_interface_inhabited.

(* ---------------- constants ---------------- *)

(** integers of any magnitude: the printed digits read back as the value *)
Theorem C18_const_int_exact :
  forall z, parse_Z (print_Z z) = Some z.
Proof. exact parse_print_Z. Qed.
Print Assumptions C18_const_int_exact.

(** strings of any bytes and any length: the quoted literal reads back as the string *)
Theorem C18_const_string_exact :
  forall x, parse_str (print_str x) = Some x.
Proof. exact parse_print_str. Qed.
Print Assumptions C18_const_string_exact.

(** floats: a value a/2^k is bound exactly (whenever the model's exponent search answers) *)
Theorem C18_const_float_partial :
  forall a k r, 0 <= k -> fix_float a (2 ^ k) = Some r -> req r (a, 2 ^ k) = true.
Proof. exact fix_float_dyadic. Qed.
Print Assumptions C18_const_float_partial.

Theorem C18_const_float_inhabited :
  exists r, fix_float 5 (2 ^ 3) = Some r /\ req r (5, 8) = true.
Proof. exact float_dyadic_inhabited. Qed.
Print Assumptions C18_const_float_inhabited.

(** const F = 0.1 is bound to 0.1000000000000000000013552527156068805425093160010874271392822266 *)
Theorem C18_const_float_refuted :
  y_vals ex_float = [(s "Anchor", YIdent (s "k.Anchor"));
                     (s "F", YLit (LFloat 500000000000000000006776263578034402712546580005437135696411133
                                          5000000000000000000000000000000000000000000000000000000000000000))]
  /\ forallb (decl_agreeb ex_float) (pk_decls ex_float) = false
  /\ y_compiles ex_float = true.
Proof. exact float_refuted. Qed.
Print Assumptions C18_const_float_refuted.

(** math.Pi *)
Theorem C18_const_pi_refuted :
  forallb (decl_agreeb ex_pi) (pk_decls ex_pi) = false /\ y_compiles ex_pi = true.
Proof. exact pi_refuted. Qed.
Print Assumptions C18_const_pi_refuted.

Theorem C18_const_complex_refuted :
  y_vals ex_complex = [(s "Anchor", YIdent (s "k.Anchor")); (s "Z", YIdent (s "k.Z"))]
  /\ forallb (decl_agreeb ex_complex) (pk_decls ex_complex) = false.
Proof. exact complex_refuted. Qed.
Print Assumptions C18_const_complex_refuted.

(* ---------------- restricted symbols ---------------- *)

Theorem C18_restricted_refuted :
  y_vals ex_restricted = [(s "Anchor", YIdent (s "log.Anchor")); (s "Fatal", YIdent (s "logFatal"))]
  /\ g_vals ex_restricted = [(s "Anchor", GValue (s "Anchor")); (s "Fatal", GValue (s "Fatal"))]
  /\ forallb (decl_agreeb ex_restricted) (pk_decls ex_restricted) = false
  /\ y_compiles ex_restricted = false.
Proof. exact restricted_refuted. Qed.
Print Assumptions C18_restricted_refuted.

(* ---------------- interface wrappers ---------------- *)

(** every wrapper forwards exactly the exported methods of the method set: same parameter
    types (the variadic one written ...T), results, spread call, return iff results *)
Theorem C18_wrapper_full :
  forall prefix name i, wf_iface i = true -> forwards (y_wrap prefix name i) i.
Proof. exact wrap_forwards. Qed.
Print Assumptions C18_wrapper_full.

Theorem C18_wrapper_methods_full :
  forall prefix name i, map ym_name (yw_methods (y_wrap prefix name i)) = map gm_name (g_wrap i).
Proof. exact wrap_method_names. Qed.
Print Assumptions C18_wrapper_methods_full.

Theorem C18_wrapper_inhabited :
  wf_iface ex_good_iface = true
  /\ yw_methods (y_wrap (s "_vt_k_") (s "P") ex_good_iface) =
     [mkYM (s "Printf") [(s "format", s "string"); (s "args", s "...interface{}")] [(s "n", s "int"); (s "err", s "error")]
           [s "format"; s "args..."] true false;
      mkYM (s "String") [] [([], s "string")] [] true true].
Proof. exact wrapper_inhabited. Qed.
Print Assumptions C18_wrapper_inhabited.

(** ... but the forwarding text is not always valid Go: a blank parameter name, a String method of another shape *)
Theorem C18_wrapper_compile_refuted :
  (forallb (decl_agreeb ex_blank) (pk_decls ex_blank) = true /\ y_compiles ex_blank = false)
  /\ (forallb (decl_agreeb ex_string_shape) (pk_decls ex_string_shape) = true /\ y_compiles ex_string_shape = false).
Proof. exact wrapper_compile_refuted. Qed.
Print Assumptions C18_wrapper_compile_refuted.

(** a package of untyped constants only; a package named like one of the file's own imports *)
Theorem C18_imports_refuted :
  (forallb (decl_agreeb ex_consts_only) (pk_decls ex_consts_only) = true /\ y_compiles ex_consts_only = false)
  /\ (forallb (decl_agreeb ex_token) (pk_decls ex_token) = true /\ y_compiles ex_token = false).
Proof. exact imports_refuted. Qed.
Print Assumptions C18_imports_refuted.
