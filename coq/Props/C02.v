(** C02 — Operators and conversions compute Go's results for every numeric kind.
    Only theorem statements, each closed by [exact] of a lemma of Num/Proofs.v.

    Y = the closures of interp/op.go (regenerated into gen/OpTable_gen.v by `vh tr-ops` on every
        run) with the machine semantics of Num/OpDsl.v;  G = Num/GoInt.v.
    Scope of the proofs: the integer kinds (int8..int64, int, uint8..uint64, uint, uintptr),
    booleans and strings, for ALL operand values; float32 / float64 rows for ALL operand bit
    patterns (last section, Flocq).  Complex rows are tied structurally ([C02_table_tie]) and
    decided by the complete enumeration of harness/c02.go against compiled Go (validated, not
    proved). *)
From Coq Require Import ZArith List String Bool.
From Coq Require Import QArith.
From Verif Require Import Num.OpDsl Num.GoInt Num.Model Num.Proofs gen.OpTable_gen.
From Verif Require Num.ConstRound.
Import ListNotations.
Open Scope Z_scope.

(** The property at full strength on the integer fragment: every source form computes Go's result.
    False of the faithful model today (see the [_refuted] theorems): negative shift counts and
    ++ / -- on uintptr. *)
Definition C02_statement : Prop :=
  (forall o k f x y, is_int k = true -> arith o = true ->
      run_row (select_bin o k f) k (VInt k x) (VInt k y) = of_g k (go_arith o k x y))
  /\ (forall o k kc f x n, is_int k = true -> is_shift o = true -> in_range k x = true ->
        is_int kc = true -> in_range kc n = true ->
        run_row (select_bin o k f) k (VInt k x) (VInt kc n) = of_g k (go_shift o k x n))
  /\ (forall inc k x, is_int k = true ->
        run_row (select_incdec inc k) k (VInt k x) (VInt k x) = YVal (VInt k (if inc then go_inc k x else go_dec k x))).

(* ------------------------------------------------------------------ the tie to the source *)

(** The table regenerated from the source is the model table: per generator function, the same rows
    in the same order; no other rows; extractors of value.go and the closure of convert as modelled. *)
Theorem C02_table_tie :
  fns_tie = true /\ List.length op_table = List.length model_table /\ unexpected_rows = [] /\ missing_rows = [].
Proof. exact table_tie. Qed.
Print Assumptions C02_table_tie.

Theorem C02_extractors_tie : extr_table = model_extr_table.
Proof. exact extractors_tie. Qed.
Print Assumptions C02_extractors_tie.

Theorem C02_convert_tie :
  convert_closure = model_convert_closure /\ convert_do = true /\ convert_typ = model_convert_typ.
Proof. exact convert_tie. Qed.
Print Assumptions C02_convert_tie.

(** typecheck.convertConst materialises an untyped constant at float32 with constant.Float32Val and at
    float64 with constant.Float64Val: one rounding of the exact value (text of the cases regenerated
    from the source) *)
Theorem C02_convertconst_tie : convertconst_cases = model_convertconst_cases.
Proof. exact convertconst_tie. Qed.
Print Assumptions C02_convertconst_tie.

(** constant -> floating-point destination: the model rounds once, as the Go specification does ... *)
Theorem C02_const_float_full : forall b q, ConstRound.y_const_float b q = ConstRound.g_const_float b q.
Proof. exact ConstRound.const_float_full. Qed.
Print Assumptions C02_const_float_full.

(** ... and rounding twice (exact -> float64 -> float32) is a different function: 16777217.0000000001
    rounds to 16777218 once, to 16777216 through float64; 1 + 2^-24 + 2^-60 likewise *)
Theorem C02_double_rounding_refuted :
  ConstRound.optq_eqb (ConstRound.round32 ConstRound.q_witness) (Some (16777218 # 1)%Q) = true
  /\ ConstRound.optq_eqb (ConstRound.round64 ConstRound.q_witness) (Some (16777217 # 1)%Q) = true
  /\ ConstRound.optq_eqb (ConstRound.double32 ConstRound.q_witness) (Some (16777216 # 1)%Q) = true.
Proof. exact ConstRound.double_rounding_refuted. Qed.
Print Assumptions C02_double_rounding_refuted.

Theorem C02_double_rounding_refuted2 :
  ConstRound.optq_eqb (ConstRound.round32 ConstRound.q_witness2) (Some (8388609 # 8388608)%Q) = true
  /\ ConstRound.optq_eqb (ConstRound.double32 ConstRound.q_witness2) (Some (1 # 1)%Q) = true.
Proof. exact ConstRound.double_rounding_refuted2. Qed.
Print Assumptions C02_double_rounding_refuted2.

(** the two roundings agree on every value float64 represents exactly, and can only differ when the
    float64 rounding moved the value *)
Theorem C02_double_rounding_agrees_on_float64 :
  forall q, ConstRound.round64 q = Some q -> ConstRound.double32 q = ConstRound.round32 q.
Proof. exact ConstRound.double_agrees_on_float64. Qed.
Print Assumptions C02_double_rounding_agrees_on_float64.

Theorem C02_double_rounding_differs_only_off_float64 :
  forall q, ConstRound.double32 q <> ConstRound.round32 q -> ConstRound.round64 q <> Some q.
Proof. exact ConstRound.double_differs_only_off_float64. Qed.
Print Assumptions C02_double_rounding_differs_only_off_float64.

(** every row of an integer family of the regenerated table has the normal form of its family *)
Theorem C02_rows_ok : forallb row_ok op_table = true.
Proof. exact rows_ok. Qed.
Print Assumptions C02_rows_ok.

Theorem C02_families_inhabited : family_sizes = [88; 44; 22; 84; 4; 8]%nat.
Proof. exact family_sizes_val. Qed.
Print Assumptions C02_families_inhabited.

(* ------------------------------------------------------------------ every row of the source table *)

(** + - * / % & | ^ &^ : every integer row (signed / unsigned x two variables, constant left,
    constant right, interface destination), every kind of the row, all operand values:
    wrap-around, truncated division, x / -1 overflow, division by zero panics. *)
Theorem C02_int_full :
  forall r o c, In r op_table -> is_bin_fn r = Some (o, c) -> arith o = true ->
  forall k x y, In k (r_kinds r) ->
    denote r k (VInt k x) (VInt k y) = lift k (go_arith o k x y).
Proof. exact table_arith. Qed.
Print Assumptions C02_int_full.

(** << >> : all rows, all kinds, counts of every integer kind, under the side condition 0 <= n *)
Theorem C02_shift_partial :
  forall r o c, In r op_table -> is_bin_fn r = Some (o, c) -> is_shift o = true ->
  forall k kc x n, In k (r_kinds r) -> in_range k x = true -> is_int kc = true -> in_range kc n = true -> 0 <= n ->
    denote r k (VInt k x) (VInt kc n) = lift k (go_shift o k x n).
Proof. exact table_shift. Qed.
Print Assumptions C02_shift_partial.

Theorem C02_shift_side_condition_inhabited :
  run_row (select_bin Shl KInt8 FVar) KInt8 (VInt KInt8 3) (VInt KUint 6) = YVal (VInt KInt8 (-64))
  /\ of_g KInt8 (go_shift Shl KInt8 3 6) = YVal (VInt KInt8 (-64))
  /\ run_row (select_bin Shr KInt64 FC1) KInt64 (VInt KInt64 (-9223372036854775808)) (VInt KUint8 200) = YVal (VInt KInt64 (-1)).
Proof. exact shift_side_inhabited. Qed.
Print Assumptions C02_shift_side_condition_inhabited.

(** the complement of the side condition: with a negative count no shift row ever panics, Go does *)
Theorem C02_shift_negcount_never_panics :
  forall r o c, In r op_table -> is_bin_fn r = Some (o, c) -> is_shift o = true ->
  forall k kc x n, In k (r_kinds r) -> in_range k x = true -> signed kc = true -> in_range kc n = true -> n < 0 ->
    (exists z, denote r k (VInt k x) (VInt kc n) = Ok (VInt k z, NT)) /\ go_shift o k x n = Pan PNegShift.
Proof. exact table_shift_neg. Qed.
Print Assumptions C02_shift_negcount_never_panics.

Theorem C02_shift_negcount_refuted :
  In shl_int_var op_table /\ In shr_int_var op_table
  /\ denote shl_int_var KInt8 (VInt KInt8 5) (VInt KInt (-1)) = Ok (VInt KInt8 0, NT)
  /\ go_shift Shl KInt8 5 (-1) = Pan PNegShift
  /\ denote shr_int_var KInt8 (VInt KInt8 (-5)) (VInt KInt (-1)) = Ok (VInt KInt8 (-1), NT)
  /\ go_shift Shr KInt8 (-5) (-1) = Pan PNegShift.
Proof. exact shift_negcount_refuted. Qed.
Print Assumptions C02_shift_negcount_refuted.

(** op= *)
Theorem C02_assign_int_full :
  forall r o c, In r op_table -> is_asg_fn r = Some (o, c) -> arith o = true ->
  forall k x y, In k (r_kinds r) ->
    denote r k (VInt k x) (VInt k y) = lift k (go_arith o k x y).
Proof. exact table_assign. Qed.
Print Assumptions C02_assign_int_full.

Theorem C02_assign_shift_partial :
  forall r o c, In r op_table -> is_asg_fn r = Some (o, c) -> is_shift o = true ->
  forall k kc x n, In k (r_kinds r) -> in_range k x = true -> is_int kc = true -> in_range kc n = true -> 0 <= n ->
    denote r k (VInt k x) (VInt kc n) = lift k (go_shift o k x n).
Proof. exact table_assign_shift. Qed.
Print Assumptions C02_assign_shift_partial.

(** typed constant folding of two constant operands (addConst ...) *)
Theorem C02_fold_int_full :
  forall r o c, In r op_table -> is_fold_fn r = Some (o, c) -> arith o = true ->
  forall k x y, cls_has c k = true -> is_int k = true ->
    denote r k (VInt k x) (VInt k y) = lift k (go_arith o k x y).
Proof. exact table_fold. Qed.
Print Assumptions C02_fold_int_full.

(** == != < <= > >= : value-setting and branching closures, all forms *)
Theorem C02_cmp_full :
  forall r o c, In r op_table -> is_cmp_fn r = Some (o, c) ->
  forall k x y, cls_has c k = true ->
    denote r KBool (VInt k x) (VInt k y) = lift_bool (r_br r) (go_cmp o x y).
Proof. exact table_cmp. Qed.
Print Assumptions C02_cmp_full.

(** unary - and ^ *)
Theorem C02_unary_full :
  forall r o c, In r op_table -> is_un_fn r = Some (o, c) ->
  forall k x y, In k (r_kinds r) ->
    denote r k (VInt k x) y = lift k (go_unary o k x).
Proof. exact table_unary. Qed.
Print Assumptions C02_unary_full.

(** ++ -- : every row, every kind the row lists *)
Theorem C02_incdec_rows_full :
  forall r o c, In r op_table -> is_incdec_fn r = Some (o, c) ->
  forall k x, In k (r_kinds r) ->
    denote r k (VInt k x) (VInt k x) = Ok (VInt k (match o with Add => go_inc k x | _ => go_dec k x end), NT).
Proof. exact table_incdec. Qed.
Print Assumptions C02_incdec_rows_full.

(* ------------------------------------------------------------------ statement level (source forms) *)

Theorem C02_arith_full :
  forall o k f x y, is_int k = true -> arith o = true ->
    run_row (select_bin o k f) k (VInt k x) (VInt k y) = of_g k (go_arith o k x y).
Proof. exact sel_arith. Qed.
Print Assumptions C02_arith_full.

Theorem C02_shift_forms_partial :
  forall o k kc f x n, is_int k = true -> is_shift o = true -> in_range k x = true ->
    is_int kc = true -> in_range kc n = true -> 0 <= n ->
    run_row (select_bin o k f) k (VInt k x) (VInt kc n) = of_g k (go_shift o k x n).
Proof. exact sel_shift. Qed.
Print Assumptions C02_shift_forms_partial.

Theorem C02_shift_forms_refuted :
  forall o k kc f x n, is_int k = true -> is_shift o = true -> in_range k x = true ->
    signed kc = true -> in_range kc n = true -> n < 0 ->
    run_row (select_bin o k f) k (VInt k x) (VInt kc n) = YVal (VInt k (match o with Shl => 0 | _ => if x <? 0 then -1 else 0 end))
    /\ of_g k (go_shift o k x n) = YPanic PNegShift.
Proof. exact sel_shift_neg. Qed.
Print Assumptions C02_shift_forms_refuted.

Theorem C02_assign_forms_full :
  forall o k f x y, is_int k = true -> arith o = true ->
    run_row (select_asg o k f) k (VInt k x) (VInt k y) = of_g k (go_arith o k x y).
Proof. exact sel_assign. Qed.
Print Assumptions C02_assign_forms_full.

Theorem C02_assign_shift_forms_partial :
  forall o k kc f x n, is_int k = true -> is_shift o = true -> in_range k x = true ->
    is_int kc = true -> in_range kc n = true -> 0 <= n ->
    run_row (select_asg o k f) k (VInt k x) (VInt kc n) = of_g k (go_shift o k x n).
Proof. exact sel_assign_shift. Qed.
Print Assumptions C02_assign_shift_forms_partial.

Theorem C02_cmp_forms_full :
  forall o k f brn x y, is_int k = true -> cmpop o = true -> forms4b f = true -> (f = FIface -> brn = false) ->
    run_row (select_cmp o k f brn) KBool (VInt k x) (VInt k y) = of_gb (go_cmp o x y).
Proof. exact sel_cmp. Qed.
Print Assumptions C02_cmp_forms_full.

Theorem C02_unary_forms_full :
  forall o k f x y, is_int k = true -> (o = Neg \/ o = BitNot) -> (f = FIface \/ f = FVar) ->
    run_row (select_un o k f) k (VInt k x) y = of_g k (go_unary o k x).
Proof. exact sel_unary. Qed.
Print Assumptions C02_unary_forms_full.

(** ++ -- under the side condition k <> uintptr *)
Theorem C02_incdec_partial :
  forall inc k x, is_int k = true -> k <> KUintptr ->
    run_row (select_incdec inc k) k (VInt k x) (VInt k x) = YVal (VInt k (if inc then go_inc k x else go_dec k x)).
Proof. exact sel_incdec. Qed.
Print Assumptions C02_incdec_partial.

(** inc and dec have no case for uintptr: no closure is installed, the run loop stops *)
Theorem C02_incdec_uintptr_refuted :
  run_row (select_incdec true KUintptr) KUintptr (VInt KUintptr 5) (VInt KUintptr 5) = YStop
  /\ go_inc KUintptr 5 = 6 /\ in_range KUintptr 5 = true.
Proof. exact incdec_uintptr_refuted. Qed.
Print Assumptions C02_incdec_uintptr_refuted.

Theorem C02_incdec_uintptr_no_row :
  forall r, In r op_table -> (r_fn r = "inc" \/ r_fn r = "dec")%string -> ~ In KUintptr (r_kinds r).
Proof. exact no_uintptr_incdec. Qed.
Print Assumptions C02_incdec_uintptr_no_row.

(** integer <-> integer conversion: sign extension / truncation *)
Theorem C02_conv_int_full :
  forall kf kto x, is_int kf = true -> is_int kto = true -> y_convert kto (VInt kf x) = Ok (VInt kto (go_conv kto x)).
Proof. exact conv_int. Qed.
Print Assumptions C02_conv_int_full.

(** strings and booleans *)
Theorem C02_string_concat_full :
  forall f a b, forms4b f = true -> run_row (select_bin Add KString f) KString (VStr a) (VStr b) = YVal (VStr (go_concat a b)).
Proof. exact string_concat. Qed.
Print Assumptions C02_string_concat_full.

Theorem C02_string_cmp_full :
  forall o f brn a b, cmpop o = true -> forms4b f = true -> (f = FIface -> brn = false) ->
    run_row (select_cmp o KString f brn) KBool (VStr a) (VStr b) = of_gb (go_scmp o a b).
Proof. exact string_cmp. Qed.
Print Assumptions C02_string_cmp_full.

Theorem C02_bool_not_full :
  forall (brn : bool) b y, run_row (nth_error not_rows (if brn then 0%nat else 1%nat)) KBool (VBool b) y = YVal (VBool (go_not b)).
Proof. exact bool_not. Qed.
Print Assumptions C02_bool_not_full.

(** && and || (run.go land / lor, rows regenerated from the source): the value, and in branch context
    (condition of if / for / case, left operand of an enclosing && / ||) the result is stored in the
    frame slot on BOTH paths, so a later evaluation in the same activation cannot read a stale value *)
Theorem C02_logic_full :
  forall fn o r a b, (o = LAnd \/ o = LOr) -> In r (logic_rows fn o) ->
    denote r KBool (VBool a) (VBool b) = lift_bool (r_br r) (Ok (go_logic o a b)).
Proof. exact logic_rows_full. Qed.
Print Assumptions C02_logic_full.

Theorem C02_logic_rows_in_table :
  forallb (fun m => existsb (fun r => if row_eq_dec r m then true else false) op_table)
          (logic_rows "land" LAnd ++ logic_rows "lor" LOr) = true.
Proof. exact logic_rows_in_table. Qed.
Print Assumptions C02_logic_rows_in_table.

Theorem C02_logic_branch_stores_both_paths :
  forallb (fun r => negb ((String.eqb (r_fn r) "land" || String.eqb (r_fn r) "lor" || String.eqb (r_fn r) "not") && r_br r)
                    || (if setter_eq_dec (r_set r) (SBranch true NT false NF) then true else false)) op_table = true.
Proof. exact logic_branch_stores_both_paths. Qed.
Print Assumptions C02_logic_branch_stores_both_paths.

(** non-vacuity of the implications above: concrete evaluations through the selected rows *)
Theorem C02_arith_inhabited :
  run_row (select_bin Mul KInt8 FVar) KInt8 (VInt KInt8 100) (VInt KInt8 3) = YVal (VInt KInt8 44)
  /\ run_row (select_bin Quo KInt8 FC0) KInt8 (VInt KInt8 (-128)) (VInt KInt8 (-1)) = YVal (VInt KInt8 (-128))
  /\ run_row (select_bin Quo KUint16 FIface) KUint16 (VInt KUint16 7) (VInt KUint16 0) = YPanic PDivZero
  /\ run_row (select_bin AndNot KUint8 FC1) KUint8 (VInt KUint8 255) (VInt KUint8 15) = YVal (VInt KUint8 240)
  /\ run_row (select_un BitNot KUint8 FVar) KUint8 (VInt KUint8 200) (VInt KUint8 0) = YVal (VInt KUint8 55)
  /\ run_row (select_incdec true KUint8) KUint8 (VInt KUint8 255) (VInt KUint8 255) = YVal (VInt KUint8 0)
  /\ y_convert KInt8 (VInt KUint8 200) = Ok (VInt KInt8 (-56)).
Proof. exact arith_inhabited. Qed.
Print Assumptions C02_arith_inhabited.

(** validation of the reading of Go's shifts in G: the definition by cases is the mathematical shift *)
Theorem C02_go_shl_is_mathematical :
  forall k x s, is_int k = true -> 0 <= s -> go_shift Shl k x s = Ok (wrap k (x * 2 ^ s)).
Proof. exact go_shl_math. Qed.
Print Assumptions C02_go_shl_is_mathematical.

Theorem C02_go_shr_is_mathematical :
  forall k x s, is_int k = true -> in_range k x = true -> 0 <= s -> go_shift Shr k x s = Ok (x / 2 ^ s).
Proof. exact go_shr_math. Qed.
Print Assumptions C02_go_shr_is_mathematical.

(** r = x op y where r is an existing variable of interface type: + - * / & | ^ &^ reach their
    interface rows; %, <<, >>, unary - and ^ have no closure and stop the function *)
Theorem C02_iface_assign_partial :
  forall o k x y, is_int k = true -> arith o = true -> o <> Rem ->
    run_row (select_bin_ifa o k) k (VInt k x) (VInt k y) = of_g k (go_arith o k x y).
Proof. exact sel_arith_ifa. Qed.
Print Assumptions C02_iface_assign_partial.

Theorem C02_iface_assign_refuted :
  run_row (select_bin_ifa Rem KInt) KInt (VInt KInt 7) (VInt KInt 3) = YStop
  /\ of_g KInt (go_arith Rem KInt 7 3) = YVal (VInt KInt 1)
  /\ run_row (select_bin_ifa Shl KInt) KInt (VInt KInt 1) (VInt KUint 3) = YStop
  /\ of_g KInt (go_shift Shl KInt 1 3) = YVal (VInt KInt 8)
  /\ run_row (select_un_ifa Neg KInt8) KInt8 (VInt KInt8 5) (VInt KInt8 5) = YStop
  /\ of_g KInt8 (go_unary Neg KInt8 5) = YVal (VInt KInt8 (-5))
  /\ run_row (select_bin_ifa Add KInt8) KInt8 (VInt KInt8 100) (VInt KInt8 100) = YVal (VInt KInt8 (-56)).
Proof. exact iface_assign_refuted. Qed.
Print Assumptions C02_iface_assign_refuted.

(** passing a float result as an argument of an interpreted function: the copy is skipped for
    values reflect calls zero, negative zero included (the only float defect with a Coq model) *)
Theorem C02_pass_arg_partial : forall v, v <> FZero true -> y_pass_arg v = g_pass_arg v.
Proof. exact pass_arg_partial. Qed.
Print Assumptions C02_pass_arg_partial.

Theorem C02_negzero_arg_refuted : y_pass_arg (FZero true) = FZero false /\ g_pass_arg (FZero true) = FZero true.
Proof. exact negzero_arg_refuted. Qed.
Print Assumptions C02_negzero_arg_refuted.

(** the full statement is false of the faithful model *)
Theorem C02_statement_refuted : ~ C02_statement.
Proof. exact statement_refuted. Qed.
Print Assumptions C02_statement_refuted.

(* ================================================================== floating point (Flocq) *)

(** Values are bit patterns; NaN payloads are canonicalised.  G_float ([g_frow], [g_fbin], ...) is the
    IEEE-754 operation of the operand kind's own format (binary32 / binary64, round to nearest
    even, Flocq [BinarySingleNaN]); Y_float ([fdenote]) interprets the regenerated table row:
    operands extracted as float64, expression evaluated in float64, SetFloat / Convert round to
    the slot's format.  Num/FloatModel.v, FloatProofs.v, FloatDR.v. *)
From Flocq Require Import IEEE754.BinarySingleNaN.
From Verif Require Import Num.FloatBase Num.FloatModel Num.FloatCases Num.FloatProofs.
From Verif Require Num.FloatDR.

(** every float row of the table regenerated from the source has the normal form of the operator
    its generator function stands for (operator, float extractors, float / bool setter) *)
Theorem C02_float_rows_tie :
  bad_float_rows = [] /\ forallb frow_checked op_table = true /\ (70 <= float_row_count)%nat.
Proof. exact (conj eq_refl (conj frows_ok float_rows_present)). Qed.
Print Assumptions C02_float_rows_tie.

(** float64: every float row (+ - * /, op=, constant folds, ++ --, unary -, the six comparisons
    in value and branch form), ALL operand bit patterns: the closure stores Go's binary64 result
    and takes the successor Go's boolean selects. *)
Theorem C02_float64_full :
  forall r, In r op_table -> is_float_row r = true ->
  exists s, fn_sem (r_fn r) = Some s /\
    forall a b, fdenote r (fdest_kind r KFloat64) KFloat64 a b = fexpect r (g_frow s KFloat64 a b).
Proof. exact table_float64. Qed.
Print Assumptions C02_float64_full.

(** float32: the same statement at binary32.  The closure rounds twice (float64 result, then
    SetFloat to float32); Go rounds once.  Equal for ALL operand bit patterns. *)
Definition C02_float32_statement : Prop :=
  forall r, In r op_table -> is_float_row r = true ->
  exists s, fn_sem (r_fn r) = Some s /\
    forall a b, fdenote r (fdest_kind r KFloat32) KFloat32 a b = fexpect r (g_frow s KFloat32 a b).

Theorem C02_float32_full : C02_float32_statement.
Proof. exact table_float32_full. Qed.
Print Assumptions C02_float32_full.

(** the facts about binary32 inside binary64 it rests on (Flocq Binary-level operations, all values
    including signed zeros, subnormals, infinities, NaN, overflow of the second rounding) *)
Theorem C02_double_rounding_innocuous :
  (forall x y : f32, down (plus64 (up x) (up y)) = plus32 x y)
  /\ (forall x y : f32, down (minus64 (up x) (up y)) = minus32 x y)
  /\ (forall x y : f32, down (mult64 (up x) (up y)) = mult32 x y)
  /\ (forall x y : f32, down (div64 (up x) (up y)) = div32 x y)
  /\ (forall x y : f32, Bcompare (up x) (up y) = Bcompare x y)
  /\ (forall x : f32, down (Bopp (up x)) = Bopp x)
  /\ (forall x : f32, down (up x) = x).
Proof.
  exact (conj FloatDR.dr_plus (conj FloatDR.dr_minus (conj FloatDR.dr_mult (conj FloatDR.dr_div
        (conj FloatDR.cmp_up (conj FloatDR.opp_up FloatDR.down_up)))))).
Qed.
Print Assumptions C02_double_rounding_innocuous.

(** the conditional form: the float32 rows are correct given those facts (no real numbers) *)
Theorem C02_float32_from_double_rounding : dr_facts -> C02_float32_statement.
Proof. exact table_float32. Qed.
Print Assumptions C02_float32_from_double_rounding.

(** source forms: r = x op y in every operand form, both float kinds *)
Theorem C02_float_forms_full :
  forall o k f a b, is_float k = true -> is_arith o = true -> In f forms4 ->
  frun (select_bin o k f) k k a b = of_fres (g_fbin o k a b).
Proof. exact sel_float_arith. Qed.
Print Assumptions C02_float_forms_full.

(** the weaker statement that needs no double-rounding argument, with both sides of its side
    condition inhabited *)
Theorem C02_float32_exact_partial :
  forall o a b, is_arith o = true ->
  forall z, farith o (up (dec32 a)) (up (dec32 b)) = Some z -> exact32 z = true ->
  frun (select_bin o KFloat32 FVar) KFloat32 KFloat32 a b = of_fres (g_fbin o KFloat32 a b).
Proof. exact float32_exact_partial. Qed.
Print Assumptions C02_float32_exact_partial.

Theorem C02_float32_exact_inhabited :
  exact32 (plus64 (up (dec32 1065353216)) (up (dec32 1073741824))) = true
  /\ exact32 (plus64 (up (dec32 1065353216)) (up (dec32 864026624))) = false.
Proof. exact float32_exact_inhabited. Qed.
Print Assumptions C02_float32_exact_inhabited.

Theorem C02_float32_midpoint_example :
  frun (select_bin Add KFloat32 FVar) KFloat32 KFloat32 1065353216 864026624 = FO (FBits 1065353216)
  /\ g_fbin Add KFloat32 1065353216 864026624 = Ok (FBits 1065353216).
Proof. exact float32_midpoint_example. Qed.
Print Assumptions C02_float32_midpoint_example.

(** conversions (run.go convert = reflect.Value.Convert) *)
Theorem C02_conv_float_float_full :
  forall kf kt a, is_float kf = true -> is_float kt = true -> y_fconv kf kt a = g_fconv kf kt a.
Proof. exact conv_ff_full. Qed.
Print Assumptions C02_conv_float_float_full.

Theorem C02_conv_float_int_partial :
  forall kf kt a z, g_f2int kf kt a = Ok z -> y_f2int kf kt a = Ok z.
Proof. exact f2int_full. Qed.
Print Assumptions C02_conv_float_int_partial.

Theorem C02_int_to_float64_full : forall z, y_int2f KFloat64 z = g_int2f KFloat64 z.
Proof. exact int2f_64. Qed.
Print Assumptions C02_int_to_float64_full.

(** float32(x), x an integer variable: reflect converts through float64, Go rounds once *)
Definition C02_int_to_float32_statement : Prop := forall z, y_int2f KFloat32 z = g_int2f KFloat32 z.

Theorem C02_int_to_float32_refuted :
  let z := 1152921573326323713 in
  in_range KInt64 z = true
  /\ y_int2f KFloat32 z = Ok (FBits 1568669696)
  /\ g_int2f KFloat32 z = Ok (FBits 1568669697).
Proof. exact int2f_32_refuted. Qed.
Print Assumptions C02_int_to_float32_refuted.

Theorem C02_int_to_float32_inhabited :
  y_int2f KFloat32 16777217 = Ok (FBits 1266679808) /\ g_int2f KFloat32 16777217 = Ok (FBits 1266679808).
Proof. exact int2f_32_small_inhabited. Qed.
Print Assumptions C02_int_to_float32_inhabited.
