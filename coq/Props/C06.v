(** C06 — Panics, defers and recover follow Go semantics and never escape Eval.
    Only theorem statements, each closed by [exact] of a lemma of Defer/Proofs.v.
    Y = yaegi's mechanism (per-frame deferred list and recovered field, Go-level recover / re-panic in
    runCfg, _recover reading the parent frame, Execute), G = Go's rules; see Defer/Model.v. *)
From Verif Require Import Defer.Model Defer.Proofs.

(** The property at full strength: for every program and fuel, yaegi's mechanism yields the trace and
    the end that Go prescribes. False of the faithful model today (see the [_refuted] theorems). *)
Definition C06_statement : Prop := forall fuel p, fst (y_run fuel p) = g_run fuel p.

(** Partial: all programs (unbounded tables, call trees, defer stacks, recursion through the fuel) on
    which the run of Y raises none of the flags that delimit the known findings: a deferred call
    panics while others of its activation remain / a variable argument of a deferred call changes
    before the call / a re-panicked recovered value is displayed / a recover site runs twice after a
    recovery / a forward-declared function is
    deferred inside a literal.  Compared: output trace (prints, value seen by every recover, results
    returned by recovered functions) and the end (normal, or the panic value). *)
Theorem C06_partial :
  forall fuel p, c06_side fuel p = true -> fst (y_run fuel p) = g_run fuel p.
Proof. exact partial_agreement. Qed.
Print Assumptions C06_partial.

Theorem C06_side_condition_inhabited :
  c06_side 5 (prog_hosts [(1%N, 10%Z); (2%N, 20%Z); (3%N, 30%Z)] (EndPanic (BInt 7))) = true
  /\ c06_side 5 (prog_arg_fixed 4 4 1%N) = true
  /\ c06_side 5 (prog_recover_direct KLit (BFault FNilMap)) = true
  /\ c06_side 5 (prog_recover_helper (BStr 1)) = true
  /\ c06_side 5 (prog_named_result (BErr 2) 3 4) = true
  /\ fst (y_run 5 (prog_named_result (BErr 2) 3 4))
     = ([ERec (ShBase (BErr 2)); EPrint 3 (Some 3%Z); ERet 7 4%Z], FinOk).
Proof. exact side_condition_inhabited. Qed.
Print Assumptions C06_side_condition_inhabited.

(** a deferred call may panic when it is the last to run: the side condition is not "no deferred call panics" *)
Theorem C06_side_condition_inhabited_deferred_panic :
  c06_side 5 (prog_deferred_panic [] [(1%N, 1%Z); (2%N, 2%Z)] (BInt 9) (EndPanic (BInt 1))) = true
  /\ g_run 5 (prog_deferred_panic [] [(1%N, 1%Z); (2%N, 2%Z)] (BInt 9) (EndPanic (BInt 1)))
     = ([EHost 2 2%Z; EHost 1 1%Z], FinPanic (ShBase (BInt 9))).
Proof. exact side_condition_inhabited_last_deferred_panics. Qed.
Print Assumptions C06_side_condition_inhabited_deferred_panic.

(** Go's rules, for unbounded families, and their transport to yaegi's mechanism *)

(** deferred calls run last-in-first-out, each exactly once, on fall-through, return and panic *)
Theorem C06_defers_lifo_exactly_once :
  forall ts e fuel, g_run (S fuel) (prog_hosts ts e) = (map eh (rev ts), fin_of e).
Proof. exact g_defers_lifo. Qed.
Print Assumptions C06_defers_lifo_exactly_once.

Theorem C06_defers_lifo_exactly_once_yaegi :
  forall ts e fuel, c06_side (S fuel) (prog_hosts ts e) = true ->
                    fst (y_run (S fuel) (prog_hosts ts e)) = (map eh (rev ts), fin_of e).
Proof. exact y_defers_lifo. Qed.
Print Assumptions C06_defers_lifo_exactly_once_yaegi.

(** ... also after a deferred call itself panicked; the newest panic replaces the current one *)
Theorem C06_defers_run_after_deferred_panic :
  forall ts1 ts2 b' e fuel,
    g_run (S (S fuel)) (prog_deferred_panic ts1 ts2 b' e)
    = (map eh (rev ts2) ++ map eh (rev ts1), FinPanic (ShBase b')).
Proof. exact g_defers_run_after_deferred_panic. Qed.
Print Assumptions C06_defers_run_after_deferred_panic.

(** arguments are fixed at the defer statement *)
Theorem C06_args_fixed_at_defer :
  forall z0 z1 t fuel, g_run (S (S fuel)) (prog_arg_fixed z0 z1 t) = ([EPrint t (Some z0)], FinOk).
Proof. exact g_args_fixed_at_defer. Qed.
Print Assumptions C06_args_fixed_at_defer.

Theorem C06_args_fixed_at_defer_yaegi :
  forall z0 z1 t fuel, c06_side (S (S fuel)) (prog_arg_fixed z0 z1 t) = true ->
                       fst (y_run (S (S fuel)) (prog_arg_fixed z0 z1 t)) = ([EPrint t (Some z0)], FinOk).
Proof. exact y_args_fixed_at_defer. Qed.
Print Assumptions C06_args_fixed_at_defer_yaegi.

(** recover stops a panic, and returns its value, only when called directly by a deferred function *)
Theorem C06_recover_only_direct :
  forall b fuel,
    (forall k, g_run (S (S fuel)) (prog_recover_direct k b) = ([ERec (ShBase b)], FinOk))
    /\ g_run (S (S (S fuel))) (prog_recover_helper b) = ([ERec ShNil], FinPanic (ShBase b))
    /\ g_run (S (S (S fuel))) (prog_recover_nested_defer b) = ([ERec ShNil], FinPanic (ShBase b))
    /\ g_run (S (S fuel)) (prog_recover_body b) = ([ERec ShNil; EPrint 1 None], FinPanic (ShBase b)).
Proof.
  exact (fun b fuel => conj (fun k => g_recover_direct k b fuel)
                      (conj (g_recover_helper b fuel) (conj (g_recover_nested_defer b fuel) (g_recover_body b fuel)))).
Qed.
Print Assumptions C06_recover_only_direct.

Theorem C06_recover_only_direct_yaegi :
  forall b fuel,
  (forall k, c06_side (S (S (S fuel))) (prog_recover_direct k b) = true ->
             fst (y_run (S (S (S fuel))) (prog_recover_direct k b)) = ([ERec (ShBase b)], FinOk))
  /\ (c06_side (S (S (S fuel))) (prog_recover_helper b) = true ->
      fst (y_run (S (S (S fuel))) (prog_recover_helper b)) = ([ERec ShNil], FinPanic (ShBase b)))
  /\ (c06_side (S (S (S fuel))) (prog_recover_nested_defer b) = true ->
      fst (y_run (S (S (S fuel))) (prog_recover_nested_defer b)) = ([ERec ShNil], FinPanic (ShBase b)))
  /\ (c06_side (S (S (S fuel))) (prog_recover_body b) = true ->
      fst (y_run (S (S (S fuel))) (prog_recover_body b)) = ([ERec ShNil; EPrint 1 None], FinPanic (ShBase b))).
Proof. exact y_recover_only_direct. Qed.
Print Assumptions C06_recover_only_direct_yaegi.

(** a recovered function returns its named results, as altered by the deferred function *)
Theorem C06_named_results :
  forall b z z' fuel,
    g_run (S (S (S fuel))) (prog_named_result b z z') = ([ERec (ShBase b); EPrint 3 (Some z); ERet 7 z'], FinOk).
Proof. exact g_named_result. Qed.
Print Assumptions C06_named_results.

(** Eval: a panic that the script does not recover comes back as an error carrying the value *)
Theorem C06_toplevel :
  forall fuel p tr anc v fl,
    y_call p fuel 0%nat 0%Z root_frame = (tr, anc, OPanic v, fl) -> y_eval fuel p = (tr, EvErrPanic v, fl).
Proof. exact toplevel. Qed.
Print Assumptions C06_toplevel.

(** ... and under the side condition the value is the one the compiled program dies with *)
Theorem C06_toplevel_value :
  forall fuel p tr v,
    y_eval fuel p = (tr, EvErrPanic v, false) -> wrapped_visible (Some v) = false ->
    g_run fuel p = (tr, FinPanic (ShBase (pv v))).
Proof. exact toplevel_value. Qed.
Print Assumptions C06_toplevel_value.

(** Refutations of the full statement on the faithful model (each replayed on the implementation by
    the region streams of harness/c06.go, whose first case is the witness below). *)

Theorem C06_deferred_panic_refuted :
  g_run 5 w_deferred_panic = ([EPrint 2 None; EPrint 1 None], FinPanic (ShBase (BStr 2)))
  /\ fst (y_run 5 w_deferred_panic) = ([EPrint 2 None], FinPanic (ShBase (BStr 2)))
  /\ c06_side 5 w_deferred_panic = false.
Proof. exact deferred_panic_refuted. Qed.
Print Assumptions C06_deferred_panic_refuted.

(** for every defer stack: the entries registered before a panicking deferred call never run *)
Theorem C06_deferred_panic_refuted_general :
  forall ts1 ts2 b' e fuel,
    fst (fst (y_run (S (S fuel)) (prog_deferred_panic ts1 ts2 b' e))) = map eh (rev ts2).
Proof. exact deferred_panic_refuted_general. Qed.
Print Assumptions C06_deferred_panic_refuted_general.

Theorem C06_arg_alias_refuted :
  forall z0 z1 t fuel, z0 <> z1 ->
    fst (y_run (S (S fuel)) (prog_arg_fixed z0 z1 t)) = ([EPrint t (Some z1)], FinOk)
    /\ fst (y_run (S (S fuel)) (prog_arg_fixed z0 z1 t)) <> g_run (S (S fuel)) (prog_arg_fixed z0 z1 t).
Proof. exact arg_alias_refuted. Qed.
Print Assumptions C06_arg_alias_refuted.

Theorem C06_repanic_wrap_refuted :
  g_run 6 w_repanic_wrap = ([ERec (ShBase (BInt 5)); ERec (ShBase (BInt 5))], FinOk)
  /\ fst (y_run 6 w_repanic_wrap) = ([ERec (ShBase (BInt 5)); ERec ShIntValue], FinOk).
Proof. exact repanic_wrap_refuted. Qed.
Print Assumptions C06_repanic_wrap_refuted.

Theorem C06_recover_stale_refuted :
  g_run 5 w_recover_stale = ([ERec (ShBase (BInt 7)); ERec ShNil], FinOk)
  /\ fst (y_run 5 w_recover_stale) = ([ERec (ShBase (BInt 7)); ERec (ShBase (BInt 7))], FinOk).
Proof. exact recover_stale_refuted. Qed.
Print Assumptions C06_recover_stale_refuted.

(** regression (finding closure-lock, repaired in /repo by abe7a69): a closure of an activation
    called from its deferred calls returns; the former witness lies inside the side condition *)
Theorem C06_closure_lock_regression :
  g_run 5 w_closure_lock = ([EPrint 1 None; EClo 2; EPrint 3 None], FinOk)
  /\ fst (y_run 5 w_closure_lock) = ([EPrint 1 None; EClo 2; EPrint 3 None], FinOk)
  /\ c06_side 5 w_closure_lock = true.
Proof. exact closure_lock_regression. Qed.
Print Assumptions C06_closure_lock_regression.

Theorem C06_closure_call_never_hangs :
  forall p cy self t f anc, y_stmt p cy self (SCallClosure t) f anc = (f, anc, [EClo t], false, Fall).
Proof. exact closure_call_never_hangs. Qed.
Print Assumptions C06_closure_call_never_hangs.

Theorem C06_forward_lit_refuted :
  g_run 5 w_forward_lit = ([EPrint 2 (Some 4%Z); EPrint 1 None], FinOk)
  /\ fst (y_run 5 w_forward_lit) = ([EPrint 1 None], FinOk).
Proof. exact forward_lit_refuted. Qed.
Print Assumptions C06_forward_lit_refuted.

Theorem C06_statement_refuted : ~ C06_statement.
Proof. exact statement_refuted. Qed.
Print Assumptions C06_statement_refuted.
