(** C03 — Constant expressions follow Go's exact constant semantics.
    Only theorem statements, each closed by [exact] of a lemma of Const/Proofs.v.
    Y = Const/YaegiConst.v (yaegi's constant machinery), G = Const/ConstSem.v (the Go specification). *)
From Verif Require Import Const.Model Const.Proofs Const.FloatProofs.
Open Scope Z_scope.

(** The property at full strength (false of the faithful model today, see the [_refuted] theorems):
    every program of the modelled family — constant groups at package level or in a function, with
    iota and implicit repetition, typed and untyped, variable declarations initialised by constant
    expressions, printed constant expressions — prints the types and values the specification
    assigns, and is rejected with an error when the specification rejects it. *)
Definition C03_statement : Prop := forall p : program, y_run p = g_run p.

(** Untyped integer, rune, string and boolean expressions of any depth over literals of any
    magnitude (every arithmetic, bitwise and shift operator, unary operators, concatenation, !):
    one visit by yaegi yields exactly the kind and value of the specification, and rejects exactly
    when the specification rejects (division by zero, shift count out of range). *)
Theorem C03_untyped :
  forall e k iota, fr e = Some k ->
    y_eval iota e = match g_eval [] iota e with Some c => g_as_y c | None => Err end.
Proof. exact untyped_agree. Qed.
Print Assumptions C03_untyped.

Example C03_untyped_inhabited :
  fr (EBin BShr (EBin BShl (EInt 1) (EInt 200)) (EBin BSub (EInt 199) (ERune 1))) = Some UInt
  /\ g_eval [] 0 (EBin BShr (EBin BShl (EInt 1) (EInt 200)) (EBin BSub (EInt 199) (ERune 1))) = Some (GU UInt, GI 4).
Proof. exact untyped_inhabited. Qed.
Print Assumptions C03_untyped_inhabited.

(** ... and printed with fmt.Printf("%T|%v") such an expression shows the same type and value in
    both, or is rejected by both (runes outside the zone where representableConst is wrong for int32) *)
Theorem C03_untyped_expr_partial :
  forall e k, fr e = Some k -> expr_side e = true -> y_run (PExpr e) = g_run (PExpr e).
Proof. exact expr_agree. Qed.
Print Assumptions C03_untyped_expr_partial.

(** default types: int, int32 (rune), float64, string, bool *)
Theorem C03_default_type :
  forall u v, wf_untyped u v -> default_of (y_typ_of u) (Some (y_val_of v)) = typed (default_type u).
Proof. exact default_type_agree. Qed.
Print Assumptions C03_default_type.

(** Rejection where yaegi calls representableConst: for every integer and every integer type other
    than int8, int16, int32 the answer is the specification's *)
Theorem C03_reject_partial :
  forall z t, is_int t = true -> narrow_signed t = false ->
    y_representable (CInt z) t = Ok (match g_repr (GI z) t with Some _ => true | None => false end).
Proof. exact repr_int_agree. Qed.
Print Assumptions C03_reject_partial.

Example C03_reject_side_condition_inhabited :
  is_int TUint8 = true /\ narrow_signed TUint8 = false /\ g_repr (GI 256) TUint8 = None
  /\ y_representable (CInt 256) TUint8 = Ok false.
Proof. exact repr_int_inhabited. Qed.
Print Assumptions C03_reject_side_condition_inhabited.

Example C03_reject_programs_inhabited :
  (y_run (one_const true (Some TUint8) (EInt 256)) = Rejected /\ g_run (one_const true (Some TUint8) (EInt 256)) = Rejected)
  /\ (y_run (PVar (Some TInt8) (EInt 256)) = Rejected /\ g_run (PVar (Some TInt8) (EInt 256)) = Rejected)
  /\ (y_run (PExpr (EBin BQuo (EInt 1) (EInt 0))) = Rejected /\ g_run (PExpr (EBin BQuo (EInt 1) (EInt 0))) = Rejected)
  /\ (y_run (PExpr (EConv TInt (EFloat (3 # 2)))) = Rejected /\ g_run (PExpr (EConv TInt (EFloat (3 # 2)))) = Rejected)
  /\ (y_run (one_const false None (EBin BShl (EInt 1) (EInt 200))) = Rejected
      /\ g_run (one_const false None (EBin BShl (EInt 1) (EInt 200))) = Rejected).
Proof. exact reject_inhabited. Qed.
Print Assumptions C03_reject_programs_inhabited.

(** ... for int8, int16, int32 it accepts every integer of magnitude below 2^N (var b int8 = 200) *)
Theorem C03_signed_bitlen :
  forall z t, narrow_signed t = true -> y_representable (CInt z) t = Ok (Z.abs z <? 2 ^ bits t).
Proof. exact repr_narrow_signed. Qed.
Print Assumptions C03_signed_bitlen.

Theorem C03_signed_bitlen_refuted :
  y_run (PVar (Some TInt8) (EInt 200)) = Printed [(TInt8, OI (-56))]
  /\ g_run (PVar (Some TInt8) (EInt 200)) = Rejected.
Proof. exact signed_bitlen_refuted. Qed.
Print Assumptions C03_signed_bitlen_refuted.

(** Refutations of the full statement on the faithful model (each replayed on the implementation). *)
Theorem C03_typed_overflow_refuted :
  (y_run (one_const true None w_shift_overflow) = Printed [(TUint32, OI 0)]
   /\ g_run (one_const true None w_shift_overflow) = Rejected)
  /\ (y_run (one_const true None w_add_overflow) = Printed [(TInt8, OI (-56))]
      /\ g_run (one_const true None w_add_overflow) = Rejected)
  /\ (y_run (PExpr (EConv TUint8 (EConv TInt16 (EInt 300)))) = Printed [(TUint8, OI 44)]
      /\ g_run (PExpr (EConv TUint8 (EConv TInt16 (EInt 300)))) = Rejected)
  /\ (y_run (PExpr (EUn UNeg (EConv TUint8 (EInt 1)))) = Printed [(TUint8, OI 255)]
      /\ g_run (PExpr (EUn UNeg (EConv TUint8 (EInt 1)))) = Rejected).
Proof. exact typed_overflow_refuted. Qed.
Print Assumptions C03_typed_overflow_refuted.

Theorem C03_typed_divzero_refuted :
  y_run (one_const true None (EBin BQuo (EConv TInt8 (EInt 5)) (EConv TInt8 (EInt 0)))) = HostPanic
  /\ g_run (one_const true None (EBin BQuo (EConv TInt8 (EInt 5)) (EConv TInt8 (EInt 0)))) = Rejected.
Proof. exact typed_divzero_refuted. Qed.
Print Assumptions C03_typed_divzero_refuted.

Theorem C03_float_negzero_refuted :
  y_run (one_const true None (EUn UNeg (EConv TFloat64 (EInt 0)))) = Printed [(TFloat64, ONZ)]
  /\ g_run (one_const true None (EUn UNeg (EConv TFloat64 (EInt 0)))) = Printed [(TFloat64, OF (0 # 1))].
Proof. exact float_negzero_refuted. Qed.
Print Assumptions C03_float_negzero_refuted.

Theorem C03_const_compare_refuted :
  (y_run (one_const true None (EBin BLt (EInt 1) (EInt 2))) = Printed [(TBool, OB false)]
   /\ g_run (one_const true None (EBin BLt (EInt 1) (EInt 2))) = Printed [(TBool, OB true)])
  /\ (y_run (one_const false None (EBin BLand (EBool true) (EBool true))) = Printed [(TBool, OB false)]
      /\ g_run (one_const false None (EBin BLand (EBool true) (EBool true))) = Printed [(TBool, OB true)]).
Proof. exact const_compare_refuted. Qed.
Print Assumptions C03_const_compare_refuted.

Theorem C03_propagation_refuted :
  (y_run (one_const true None w_prop1) = Printed [(TFloat64, OF (3 # 1))]
   /\ g_run (one_const true None w_prop1) = Printed [(TFloat64, OF (5 # 2))])
  /\ (y_run (one_const true (Some TFloat64) w_prop2) = Printed [(TFloat64, OF (3 # 2))]
      /\ g_run (one_const true (Some TFloat64) w_prop2) = Printed [(TFloat64, OF (1 # 1))])
  /\ (y_run (one_const false None w_prop3) = Printed [(TInt8, OI 1)]
      /\ g_run (one_const false None w_prop3) = Printed [(TInt8, OI 4)])
  /\ (y_run (PExpr w_prop1) = g_run (PExpr w_prop1)).
Proof. exact propagation_refuted. Qed.
Print Assumptions C03_propagation_refuted.

Theorem C03_requantized_refuted :
  (y_run (one_const true None w_requant2) = Printed [(TFloat64, OF (0 # 1))]
   /\ g_run (one_const true None w_requant2) = Printed [(TFloat64, OF (7 # 4))])
  /\ (y_run (one_const true None w_requant3) = Printed [(TString, OS [byte 0])]
      /\ g_run (one_const true None w_requant3) = Printed [(TString, OS (s "ab"))])
  /\ (y_run (one_const true None w_requant1) = g_run (one_const true None w_requant1)).
Proof. exact requantized_refuted. Qed.
Print Assumptions C03_requantized_refuted.

Theorem C03_untyped_operands_refuted :
  (y_run (PExpr (EBin BQuo (ERune 97) (EInt 2))) = Printed [(TInt, OI 48)]
   /\ g_run (PExpr (EBin BQuo (ERune 97) (EInt 2))) = Printed [(TInt32, OI 48)])
  /\ (y_run (PExpr (EBin BQuo (EParen (EBin BShl (EFloat (1 # 1)) (EInt 3))) (EInt 3))) = Printed [(TFloat64, OF (6004799503160661 # 2251799813685248))]
      /\ g_run (PExpr (EBin BQuo (EParen (EBin BShl (EFloat (1 # 1)) (EInt 3))) (EInt 3))) = Printed [(TInt, OI 2)]).
Proof. exact untyped_operands_refuted. Qed.
Print Assumptions C03_untyped_operands_refuted.

Theorem C03_iota_multi_refuted :
  y_run w_iota_multi = Printed [(TInt, OI 2); (TInt, OI 20)]
  /\ g_run w_iota_multi = Printed [(TInt, OI 1); (TInt, OI 10)].
Proof. exact iota_multi_refuted. Qed.
Print Assumptions C03_iota_multi_refuted.

(** Constant declarations.  Groups of single-name untyped ConstSpecs over integer, string and
    boolean expressions of any depth and magnitude, with iota and implicit repetition, any number
    of groups, at package level (three visits of every spec: gta on the group, gta on the spec, cfg)
    or in a function (two visits): whenever the specification accepts the declarations, yaegi
    prints for the shown names exactly the types and values of the specification (iota is the
    index of the spec, a spec without expression repeats the previous one), or both reject the
    use of a constant that overflows its default type.  Induction on the list of groups, the list
    of specs and the expression trees; the side conditions are the negations of the regions
    iota-multi (several names), decl-type-propagation (explicit type), quo-no-unify (runes). *)
Theorem C03_iota_partial :
  forall global gs shown, groups_ok gs -> g_groups [] gs <> None ->
    y_run (PConst global gs shown) = g_run (PConst global gs shown).
Proof. exact const_groups_agree. Qed.
Print Assumptions C03_iota_partial.

Example C03_iota_side_condition_inhabited :
  groups_ok ex_block /\ g_groups [] ex_block <> None
  /\ g_run (PConst true ex_block [1%N; 3%N; 4%N; 5%N]) = Printed [(TInt, OI 4); (TString, OS (s "ab")); (TString, OS (s "ab")); (TBool, OB true)]
  /\ g_run (PConst true ex_block [2%N]) = Rejected.
Proof. exact const_groups_inhabited. Qed.
Print Assumptions C03_iota_side_condition_inhabited.

(** a visit of a tree of that fragment — fresh, or already visited any number of times, whatever
    type of the fragment the pre-order hands down — leaves every node with the kind of the tree and
    the value of its subexpression *)
Theorem C03_visits_stable :
  forall e k, fr1 e = Some k -> forall iota v, g_eval [] iota e = Some (GU k, v) ->
  forall cnt full cx pr x, tinv cnt full k iota x e -> (full = false -> cx_iota cx = iota) -> pr_pos cnt k pr ->
  exists x', y_pass cx pr x = (x', Ok tt) /\ tinv cnt true k iota x' e.
Proof. exact pass_inv. Qed.
Print Assumptions C03_visits_stable.

(** Constants meeting a floating-point destination (float32(c), float64(c), const x float32 = c,
    var x float32 = c, operands unified with a typed float): convertConst rounds the exact value
    once, to nearest even in the format of the destination — for every rational and every integer
    whose rounded value is finite and not zero it yields exactly the value of the specification. *)
Theorem C03_float_conv :
  forall q t r, is_float t = true -> round_t t q = Some r -> q_is_zero r = false ->
    convert_const (CRat q) t = Ok (VM t (MF (FQ r))) /\ g_repr (GQ q) t = Some (GQ r).
Proof. exact float_conv_single. Qed.
Print Assumptions C03_float_conv.

Theorem C03_float_conv_int :
  forall z t r, is_float t = true -> round_t t (qz z) = Some r -> q_is_zero r = false ->
    convert_const (CInt z) t = Ok (VM t (MF (FQ r))) /\ g_repr (GI z) t = Some (GQ r).
Proof. exact float_conv_single_int. Qed.
Print Assumptions C03_float_conv_int.

(** non-vacuity, and: rounding through float64 first is another function (1 + 2^-24 + 2^-60 goes to
    1.0000001 directly and to 1 through float64); the model, like the code, rounds once *)
Example C03_float_conv_inhabited :
  round_t TFloat32 q_mid = Some (8388609 # 8388608) /\ double32 q_mid = Some (1 # 1)
  /\ y_run (PExpr (EConv TFloat32 (EFloat q_mid))) = Printed [(TFloat32, OF (8388609 # 8388608))]
  /\ g_run (PExpr (EConv TFloat32 (EFloat q_mid))) = Printed [(TFloat32, OF (8388609 # 8388608))]
  /\ y_run (one_const true (Some TFloat32) (EFloat q_mid)) = Printed [(TFloat32, OF (8388609 # 8388608))]
  /\ y_run (PVar (Some TFloat32) (EFloat q_mid)) = Printed [(TFloat32, OF (8388609 # 8388608))].
Proof. exact double_rounding_differs. Qed.
Print Assumptions C03_float_conv_inhabited.

(** region decl-type-propagation: const c float32 = (1 + 2^-24) + 2^-60 is rounded twice *)
Theorem C03_decl_double_rounding_refuted :
  y_run (one_const true (Some TFloat32) w_decl_round) = Printed [(TFloat32, OF (1 # 1))]
  /\ g_run (one_const true (Some TFloat32) w_decl_round) = Printed [(TFloat32, OF (8388609 # 8388608))]
  /\ y_run (PExpr (EConv TFloat32 w_decl_round)) = g_run (PExpr (EConv TFloat32 w_decl_round)).
Proof. exact decl_double_rounding_refuted. Qed.
Print Assumptions C03_decl_double_rounding_refuted.

(** A binary expression under a typed declaration takes the declared type and keeps its go/constant
    value; the only check it gets is the one of convertConstantValue at its use: every integer
    outside the int64 range is refused there, for every node type. *)
Theorem C03_typed_use_outside_int64 :
  forall z t, in_range TInt64 z = false -> const_to_machine t (CInt z) = Err.
Proof. exact typed_use_outside_int64. Qed.
Print Assumptions C03_typed_use_outside_int64.

(** const c int64 = 1 << 63 is rejected by both; const c uint64 = 1 << 63 is rejected by yaegi only;
    const c int32 = 1 << 40 is accepted by yaegi only (0): region decl-type-propagation *)
Theorem C03_typed_use_boundary_refuted :
  y_run (one_const true (Some TInt64) (EBin BShl (EInt 1) (EInt 63))) = Rejected
  /\ g_run (one_const true (Some TInt64) (EBin BShl (EInt 1) (EInt 63))) = Rejected
  /\ y_run (one_const true (Some TUint64) (EBin BShl (EInt 1) (EInt 63))) = Rejected
  /\ g_run (one_const true (Some TUint64) (EBin BShl (EInt 1) (EInt 63))) = Printed [(TUint64, OI 9223372036854775808)]
  /\ y_run (one_const true (Some TInt32) (EBin BShl (EInt 1) (EInt 40))) = Printed [(TInt32, OI 0)]
  /\ g_run (one_const true (Some TInt32) (EBin BShl (EInt 1) (EInt 40))) = Rejected.
Proof. exact typed_use_boundary_witness. Qed.
Print Assumptions C03_typed_use_boundary_refuted.

(** ------------------------------------------------------------------
    The enlarged untyped fragment: floating-point constants (exact rationals: 1.5, 1e3, 0x1p-2)
    with + - * / and unary + -, mixed with integer and rune operands (the result takes the larger
    kind, int < rune < float; the quotient truncates only when both operands are of an integer kind,
    is exact otherwise; a zero divisor is rejected; % & | ^ &^ and unary ^ on a floating-point kind
    are rejected), together with everything of [C03_untyped].  For all trees, of any depth, over
    literals of any magnitude: one visit by yaegi yields exactly the kind and the exact value of
    the specification, and rejects exactly when the specification rejects. *)
Theorem C03_untyped_float :
  forall e k iota, frf e = Some k ->
    y_eval iota e = match g_eval [] iota e with Some c => g_as_y c | None => Err end.
Proof. exact untyped_float_agree. Qed.
Print Assumptions C03_untyped_float.

(** the fragment of [C03_untyped] is contained in it, with the same kinds *)
Theorem C03_untyped_float_extends : forall e k, fr e = Some k -> frf e = Some k.
Proof. exact frf_extends. Qed.
Print Assumptions C03_untyped_float_extends.

(** non-vacuity: (1.5 + 3/2) * 0x1p-2 / 'a' - 1e3 is in the new fragment only and is -775995/776;
    0.5 / (2 - 2.0) and 7.0 % 2 are in the fragment and rejected *)
Example C03_untyped_float_inhabited :
  frf ex_float = Some UFloat /\ fr ex_float = None
  /\ g_eval [] 0 ex_float = Some (GU UFloat, GQ (-775995 # 776))
  /\ frf (EBin BQuo (EFloat (1 # 2)) (EBin BSub (EInt 2) (EFloat (2 # 1)))) = Some UFloat
  /\ g_eval [] 0 (EBin BQuo (EFloat (1 # 2)) (EBin BSub (EInt 2) (EFloat (2 # 1)))) = None
  /\ frf (EBin BRem (EFloat (7 # 1)) (EInt 2)) = Some UFloat
  /\ g_eval [] 0 (EBin BRem (EFloat (7 # 1)) (EInt 2)) = None.
Proof. exact untyped_float_inhabited. Qed.
Print Assumptions C03_untyped_float_inhabited.

(** what the fragment leaves out is where one visit of yaegi differs from the specification:
    1.0 << 3 keeps the floating-point kind (region float-shift), 'a' / 2 takes the kind of the divisor
    (quo-no-unify), 1.5 < 2 is accepted but has no value (const-compare: const c = 1.5 < 2 is false) *)
Theorem C03_untyped_float_boundary_refuted :
  (frf (EBin BShl (EFloat (1 # 1)) (EInt 3)) = None
   /\ y_eval 0 (EBin BShl (EFloat (1 # 1)) (EInt 3)) = Ok (u_float, Some (VC (CInt 8)))
   /\ g_eval [] 0 (EBin BShl (EFloat (1 # 1)) (EInt 3)) = Some (GU UInt, GI 8))
  /\ (frf (EBin BQuo (ERune 97) (EInt 2)) = None
      /\ y_eval 0 (EBin BQuo (ERune 97) (EInt 2)) = Ok (u_int, Some (VC (CInt 48)))
      /\ g_eval [] 0 (EBin BQuo (ERune 97) (EInt 2)) = Some (GU URune, GI 48))
  /\ (frf (EBin BLt (EFloat (3 # 2)) (EInt 2)) = None
      /\ y_eval 0 (EBin BLt (EFloat (3 # 2)) (EInt 2)) = Ok (typed TBool, None)
      /\ g_eval [] 0 (EBin BLt (EFloat (3 # 2)) (EInt 2)) = Some (GU UBool, GB true)
      /\ y_run (one_const true None (EBin BLt (EFloat (3 # 2)) (EInt 2))) = Printed [(TBool, OB false)]
      /\ g_run (one_const true None (EBin BLt (EFloat (3 # 2)) (EInt 2))) = Printed [(TBool, OB true)]).
Proof. exact float_boundary_refuted. Qed.
Print Assumptions C03_untyped_float_boundary_refuted.

(** Constants of the enlarged fragment meeting a typed numeric destination (every integer type,
    float32, float64) through typecheck.assignment -> convertUntyped -> representableConst +
    convertConst (const c T = k, var v T = k, an untyped operand unified with a typed one).
    For all trees e of numeric kind and all numeric types t: after one visit of e, the assignment
    yields exactly the typed value of the specification — an integer destination accepts the
    value only when it is an integer ("constant truncated" otherwise) inside the range of t
    (overflow rejected), a floating-point destination gets the exact rational rounded once to
    nearest even in the format of t ([round_t] of Const/Base.v) or rejects an overflow — outside
    the regions signed-bitlen (t is int8, int16 or int32) and float-negzero (a non-zero constant
    that rounds to zero): [dest_ok]. *)
Theorem C03_typed_dest_float_partial :
  forall e k iota t, frf e = Some k -> numk k = true -> is_number t = true -> dest_ok iota e t = true ->
    y_eval_assign iota e t = g_eval_assign iota e t.
Proof. exact typed_dest_agree. Qed.
Print Assumptions C03_typed_dest_float_partial.

Example C03_typed_dest_float_inhabited :
  (dest_ok 0 (EBin BMul (EFloat (5 # 2)) (EInt 4)) TUint8 = true
   /\ g_eval_assign 0 (EBin BMul (EFloat (5 # 2)) (EInt 4)) TUint8 = Ok (typed TUint8, Some (VM TUint8 (MI 10))))
  /\ g_eval_assign 0 (EBin BAdd (EFloat (3 # 2)) (EBin BQuo (EInt 3) (EInt 2))) TInt64 = Err
  /\ g_eval_assign 0 (EFloat (1000 # 1)) TUint8 = Err
  /\ (dest_ok 0 (EBin BAdd (EFloat (16777217 # 16777216)) (EFloat (1 # 1152921504606846976))) TFloat32 = true
      /\ g_eval_assign 0 (EBin BAdd (EFloat (16777217 # 16777216)) (EFloat (1 # 1152921504606846976))) TFloat32
         = Ok (typed TFloat32, Some (VM TFloat32 (MF (FQ (8388609 # 8388608))))))
  /\ g_eval_assign 0 (EBin BMul (EFloat (1000000000000000000000 # 1)) (EFloat (1000000000000000000 # 1))) TFloat32 = Err.
Proof. exact typed_dest_inhabited. Qed.
Print Assumptions C03_typed_dest_float_inhabited.

(** the side conditions are the regions: int8(200.0)-like destinations take -56, a negative constant
    below the float64 denormals becomes -0 *)
Theorem C03_typed_dest_float_refuted :
  (frf (EFloat (200 # 1)) = Some UFloat /\ dest_ok 0 (EFloat (200 # 1)) TInt8 = false
   /\ y_eval_assign 0 (EFloat (200 # 1)) TInt8 = Ok (typed TInt8, Some (VM TInt8 (MI (-56))))
   /\ g_eval_assign 0 (EFloat (200 # 1)) TInt8 = Err)
  /\ (frf (EUn UNeg (EFloat (1 # Pos.pow 2 1100))) = Some UFloat
      /\ dest_ok 0 (EUn UNeg (EFloat (1 # Pos.pow 2 1100))) TFloat64 = false
      /\ y_eval_assign 0 (EUn UNeg (EFloat (1 # Pos.pow 2 1100))) TFloat64 = Ok (typed TFloat64, Some (VM TFloat64 (MF FNZ)))
      /\ g_eval_assign 0 (EUn UNeg (EFloat (1 # Pos.pow 2 1100))) TFloat64 = Ok (typed TFloat64, Some (VM TFloat64 (MF (FQ (0 # 1)))))).
Proof. exact typed_dest_refuted. Qed.
Print Assumptions C03_typed_dest_float_refuted.
