(** C15 — package initialisation order.  Executable definitions only (proofs: Init/Proofs.v).

    Two models of "in which order do the initialisers of a Go program run":

    - Y : what traefik/yaegi does.  [interp/cfg.go] genGlobalVars / getVars / genGlobalVarDecl /
          getVarDependencies (one node per valueSpec; dependencies = identifiers of the initialiser
          expression looked up by name in the package scope; scan for the first ready node, emit it,
          restart the scan),
          [interp/program.go] Execute and [interp/src.go] importSrc (globals, init functions in
          source order, main; imported packages loaded depth first in import order, memoised).
    - G : what Go prescribes (spec "Package initialization", as implemented by go/types initorder and
          the linker's inittask scheduling): repeatedly the earliest variable in declaration order
          that is ready, dependencies followed through function and method bodies; init functions
          in source order; main last; packages: repeatedly the first package, in import-path order,
          whose imports are all initialised.

    Identifiers (variables, functions, log marks, packages) are numbers.  Every initialiser
    expression carries a log mark [ilog]: evaluating it prints that mark, so a run of the program is
    observed as the list of marks in the order printed. *)
From Coq Require Import NArith List Bool Arith.
Import ListNotations.

Definition id := N.

Definition memb (x : id) (l : list id) : bool := existsb (N.eqb x) l.

(** * Declarations *)

(** An identifier occurrence inside an initialiser expression or a function body. *)
Inductive ref :=
| RV (v : id)   (* denotes package variable v (also inside a function literal)                        *)
| RF (f : id)   (* denotes package function or method f: call, function value, method value/expression *)
| RX (v : id).  (* is spelled like package variable v but denotes something else: a parameter or local
                   of a function literal, the key of a struct literal                                  *)

Record init := mkinit { ilog : id; irefs : list ref }.

(** One [valueSpec] of a package-level [var] declaration. *)
Inductive spec :=
| SNoInit (names : list id)            (* var x, y T            *)
| SPair (binds : list (id * init))     (* var x, y = e1, e2     (and the usual  var x = e)             *)
| SCall (names : list id) (i : init).  (* var x, y = f()        one initialiser for several variables  *)

Record fdecl := mkfun { fname : id; frefs : list ref }.

Record pkg := mkpkg { pspecs : list spec; pfuncs : list fdecl }.

Definition spec_names (s : spec) : list id :=
  match s with SNoInit ns => ns | SPair bs => map fst bs | SCall ns _ => ns end.

Definition spec_inits (s : spec) : list init :=
  match s with SNoInit _ => [] | SPair bs => map snd bs | SCall _ i => [i] end.

(** * Scheduling: the two algorithms, over a dependency graph given as a list of nodes *)

Record node := mknode { nid : id; ndeps : list id; nlogs : list id }.

(** [st] = identifiers of the nodes initialised so far. *)
Definition ready (st : list id) (n : node) : bool := forallb (fun d => memb d st) (ndeps n).

(** ** Y: genGlobalVarDecl (with the fix "restart the scan after each emitted variable")

    [[
      for {
        for i, n := range nodes {
          canInit := all deps[n] inited
          if !canInit { revisit = append(revisit, n); continue }
          varNode.child = append(varNode.child, n); inited[n] = true
          revisit = append(revisit, nodes[i+1:]...)
          break
        }
        if len(revisit) == 0 || equalNodes(nodes, revisit) { break }
        nodes = revisit; revisit = []*node{}
      }
      if len(revisit) > 0 { return error "variable definition loop" }
    ]] *)

(** one scan: the node emitted (if any) and [revisit] when the scan ends *)
Fixpoint y_pass (st : list id) (nodes : list node) : option node * list node :=
  match nodes with
  | [] => (None, [])
  | n :: rest =>
      if ready st n then (Some n, rest)
      else let '(e, r) := y_pass st rest in (e, n :: r)
  end.

Definition is_nil {A} (l : list A) : bool := match l with [] => true | _ => false end.

(** result: (nodes emitted in order, nodes left over = [revisit] at the break).
    Nothing emitted: [revisit] equals [nodes], the loop ends. *)
Fixpoint y_loop (fuel : nat) (st : list id) (nodes : list node) : list node * list node :=
  match fuel with
  | O => ([], nodes)
  | S k =>
      let '(e, r) := y_pass st nodes in
      match e with
      | None => ([], r)
      | Some n => if is_nil r then ([n], [])
                  else let '(e', r') := y_loop k (nid n :: st) r in (n :: e', r')
      end
  end.

Definition y_sched (nodes : list node) : list node * list node :=
  y_loop (S (length nodes)) [] nodes.

(** ** The loop as it was before the fix (kept only for the regression theorem
    [C15_direct_regression]): a pass emitted every ready node before going back to an earlier
    node that had become ready. *)
Fixpoint old_pass (st : list id) (nodes : list node) : list node * list node * list id :=
  match nodes with
  | [] => ([], [], st)
  | n :: rest =>
      if ready st n
      then let '(e, r, st') := old_pass (nid n :: st) rest in (n :: e, r, st')
      else let '(e, r, st') := old_pass st rest in (e, n :: r, st')
  end.

Fixpoint old_loop (fuel : nat) (st : list id) (nodes : list node) : list node * list node :=
  match fuel with
  | O => ([], nodes)
  | S k =>
      let '(e, r, st') := old_pass st nodes in
      if is_nil r || (length r =? length nodes)%nat then (e, r)
      else let '(e', r') := old_loop k st' r in (e ++ e', r')
  end.

Definition old_sched (nodes : list node) : list node * list node :=
  old_loop (S (length nodes)) [] nodes.

(** ** G: "repeatedly initializing the next package-level variable that is earliest in declaration
       order and ready for initialization" *)
Fixpoint g_pick (st : list id) (pending : list node) : option (node * list node) :=
  match pending with
  | [] => None
  | n :: rest =>
      if ready st n then Some (n, rest)
      else match g_pick st rest with
           | Some (m, rest') => Some (m, n :: rest')
           | None => None
           end
  end.

Fixpoint g_loop (fuel : nat) (st : list id) (pending : list node) : list node * list node :=
  match fuel with
  | O => ([], pending)
  | S k =>
      match g_pick st pending with
      | None => ([], pending)
      | Some (n, rest) => let '(e, r) := g_loop k (nid n :: st) rest in (n :: e, r)
      end
  end.

Definition g_sched (nodes : list node) : list node * list node :=
  g_loop (length nodes) [] nodes.

(** Every node is ready when its turn comes: the list is already in dependency order. *)
Fixpoint all_ready_in_order (st : list id) (nodes : list node) : bool :=
  match nodes with
  | [] => true
  | n :: r => ready st n && all_ready_in_order (nid n :: st) r
  end.

(** Observable result of a schedule: the marks printed, or [None] when nodes are left over
    (yaegi: "variable definition loop"; Go: "initialization cycle"). *)
Definition logs_of (res : list node * list node) : option (list id) :=
  match snd res with
  | [] => Some (flat_map nlogs (fst res))
  | _ => None
  end.

(** * Y: the dependency graph yaegi builds *)

(** Variables declared by [var x, y = f()] get a symbol without the [global] flag and without a
    declaring node (compDefineX); all others get [global: true, node: n] (gta). *)
Definition spec_global (s : spec) : bool := match s with SCall _ _ => false | _ => true end.

(** A node (pointer) is named by the first variable it declares; names are unique in a program that
    yaegi accepts. *)
Definition spec_first (s : spec) : id := hd 0%N (spec_names s).

(** Package scope: name -> (global flag, declaring node). *)
Fixpoint lookup (specs : list spec) (v : id) : option (bool * id) :=
  match specs with
  | [] => None
  | s :: r => if memb v (spec_names s) then Some (spec_global s, spec_first s) else lookup r v
  end.

(** getVarDependencies: every identifier of the node, looked up by name in the package scope,
    kept iff [sym.kind == varSym && sym.global && sym.node != nod].  Function bodies are never
    visited; what an identifier really denotes is not examined. *)
Definition y_ref_dep (specs : list spec) (self : id) (r : ref) : list id :=
  match r with
  | RV v | RX v =>
      match lookup specs v with
      | Some (true, n) => if N.eqb n self then [] else [n]
      | _ => []
      end
  | RF _ => []
  end.

Definition y_node (specs : list spec) (s : spec) : node :=
  mknode (spec_first s)
         (flat_map (fun i => flat_map (y_ref_dep specs (spec_first s)) (irefs i)) (spec_inits s))
         (map ilog (spec_inits s)).

Definition y_nodes (p : pkg) : list node := map (y_node (pspecs p)) (pspecs p).

Definition y_order (p : pkg) : option (list id) := logs_of (y_sched (y_nodes p)).

(** * G: the dependency graph of the Go specification *)

Fixpoint find_fun (fs : list fdecl) (f : id) : option fdecl :=
  match fs with
  | [] => None
  | d :: r => if N.eqb (fname d) f then Some d else find_fun r f
  end.

(** Variables referenced by a list of occurrences, references to functions followed into their
    bodies up to [fuel] levels (the number of functions of the package is enough). *)
Fixpoint vars_of (fuel : nat) (fs : list fdecl) (rs : list ref) {struct fuel} : list id :=
  flat_map (fun r =>
    match r with
    | RV v => [v]
    | RX _ => []
    | RF f =>
        match fuel with
        | O => []
        | S k => match find_fun fs f with Some d => vars_of k fs (frefs d) | None => [] end
        end
    end) rs.

Definition g_deps (p : pkg) (i : init) : list id := vars_of (length (pfuncs p)) (pfuncs p) (irefs i).

(** One node per variable.  The initialiser shared by [var x, y = f()] runs when [x] is
    initialised ([y] has the same dependencies and comes later). *)
Definition g_spec_nodes (p : pkg) (s : spec) : list node :=
  match s with
  | SNoInit ns => map (fun n => mknode n [] []) ns
  | SPair bs => map (fun b => mknode (fst b) (g_deps p (snd b)) [ilog (snd b)]) bs
  | SCall ns i =>
      match ns with
      | [] => []
      | n :: r => mknode n (g_deps p i) [ilog i] :: map (fun m => mknode m (g_deps p i) []) r
      end
  end.

Definition g_nodes (p : pkg) : list node := flat_map (g_spec_nodes p) (pspecs p).

Definition g_order (p : pkg) : option (list id) := logs_of (g_sched (g_nodes p)).

(** * Side conditions (decidable) under which the two orders are proved equal *)

(** (1) The declaration list is already sorted: every identifier mentioned by an initialiser
    (directly, or a variable reached through function bodies) is declared by an earlier spec. *)
Definition ref_names (r : ref) : list id := match r with RV v | RX v => [v] | RF _ => [] end.

Definition spec_mentions (p : pkg) (s : spec) : list id :=
  flat_map (fun i => flat_map ref_names (irefs i) ++ g_deps p i) (spec_inits s).

Fixpoint sorted_from (p : pkg) (seen : list id) (specs : list spec) : bool :=
  match specs with
  | [] => true
  | s :: r => forallb (fun v => memb v seen) (spec_mentions p s)
              && negb (is_nil (spec_names s))
              && sorted_from p (spec_names s ++ seen) r
  end.

Definition decl_sorted (p : pkg) : bool := sorted_from p [] (pspecs p).

(** (2) Plain declarations: one variable per spec, no [var x, y = f()], no misleading identifier,
    no function that reaches a variable, every referenced variable declared, no self reference
    (in any order of declaration). *)
Definition declared (p : pkg) (v : id) : bool := existsb (fun s => memb v (spec_names s)) (pspecs p).

Definition plain_ref (p : pkg) (self : id) (r : ref) : bool :=
  match r with
  | RV v => declared p v && negb (N.eqb v self)
  | RX _ => false
  | RF f => is_nil (vars_of (length (pfuncs p)) (pfuncs p) [RF f])
  end.

Definition plain_spec (p : pkg) (s : spec) : bool :=
  match s with
  | SNoInit [n] => true
  | SPair [(n, i)] => forallb (plain_ref p n) (irefs i)
  | _ => false
  end.

Definition plain (p : pkg) : bool := forallb (plain_spec p) (pspecs p).

(** * Whole programs: packages, imports, init functions, main *)

(** Function-like declarations around the special names [init] and [main], in source order (file
    order, then position; a function literal comes after the declaration that contains it).
    [sd_marks] = what is printed if the declaration's body is run once (its own mark, then the
    marks of the look-alikes it calls). *)
Inductive dkind :=
| DFunc      (* func name() { ... }                       a function declaration without receiver *)
| DMethod    (* func (r T) name() { ... } / (r *T)        a method                                  *)
| DLit       (* name := func() { ... }                    a function literal bound to a local      *)
| DVar.      (* var name = func() { ... }                 a package-level variable of func type    *)

Inductive dname := NInit | NMain | NOther.   (* init, main, anything else (Init, init2, ...) *)

Record sdecl := mksd { sd_kind : dkind; sd_name : dname; sd_marks : list id }.

Record package := mkpk {
  pk_id : id;                (* numbers ordered like the import paths *)
  pk_imports : list id;      (* in the order the import declarations are met: file order, then source order *)
  pk_body : pkg;
  pk_decls : list sdecl;     (* init functions, main, and their look-alikes, in source order *)
  pk_main : bool             (* the package clause is [package main] *)
}.

Record program := mkprog { packages : list package; entry : id }.

Fixpoint find_pk (ps : list package) (p : id) : option package :=
  match ps with
  | [] => None
  | pk :: r => if N.eqb (pk_id pk) p then Some pk else find_pk r p
  end.

(** ** Which functions run by themselves

    G: "all init functions [the functions declared [func init()], without receiver] in the order
    they appear in the source"; then, for package main only, the function main. *)
Definition g_is_init (d : sdecl) : bool :=
  match sd_kind d, sd_name d with DFunc, NInit => true | _, _ => false end.

Definition g_is_main (d : sdecl) : bool :=
  match sd_kind d, sd_name d with DFunc, NMain => true | _, _ => false end.

Definition g_special (is_main : bool) (ds : list sdecl) : list id :=
  flat_map sd_marks (filter g_is_init ds)
  ++ (if is_main then match find g_is_main ds with Some m => sd_marks m | None => [] end else []).

(** Y.  What [cfg] sees of a funcDecl / funcLit node: [n.child[1].ident] (empty for a literal) and
    the receiver field list [n.child[0]]; a package variable is not such a node.
    [[ if n.child[1].ident == "init" && len(n.child[0].child) == 0 { initNodes = append(initNodes, n) } ]] *)
Definition y_fn_ident (d : sdecl) : option dname :=
  match sd_kind d with
  | DFunc | DMethod => Some (sd_name d)
  | DLit => Some NOther
  | DVar => None
  end.

Definition y_recv_len (d : sdecl) : nat := match sd_kind d with DMethod => 1 | _ => 0 end.

Definition y_is_init (d : sdecl) : bool :=
  match y_fn_ident d with
  | Some NInit => (y_recv_len d =? 0)%nat
  | _ => false
  end.

(** [gs.sym[mainID]]: the package-scope symbol named main, declared by a function declaration
    without receiver (gta) or by a package variable; methods and locals are not in that scope.
    [[ if m := gs.sym[mainID]; pkgName == mainID && m != nil { initNodes = append(initNodes, m.node) } ]]
    (program.go CompileAST, and src.go importSrc with [&& skipTest]) *)
Definition y_is_main_sym (d : sdecl) : bool :=
  match sd_kind d, sd_name d with DFunc, NMain | DVar, NMain => true | _, _ => false end.

Definition y_special (is_main : bool) (ds : list sdecl) : list id :=
  flat_map sd_marks (filter y_is_init ds)
  ++ match find y_is_main_sym ds with
     | Some m => if is_main then sd_marks m else []
     | None => []
     end.

(** Go rejects a package-level variable named main in package main ("cannot declare main - must be
    func"): the declaration lists of valid programs satisfy [decls_wf]. *)
Definition decls_wf (is_main : bool) (ds : list sdecl) : bool :=
  if is_main
  then forallb (fun d => negb (match sd_kind d, sd_name d with DVar, NMain => true | _, _ => false end)) ds
  else true.

(** What one package prints while it is initialised (Execute / the tail of importSrc): globals,
    init functions in source order, main. *)
Definition pk_trace (order : pkg -> option (list id)) (special : bool -> list sdecl -> list id)
           (pk : package) : option (list id) :=
  match order (pk_body pk) with
  | Some l => Some (l ++ special (pk_main pk) (pk_decls pk))
  | None => None
  end.

Fixpoint concat_opt (l : list (option (list id))) : option (list id) :=
  match l with
  | [] => Some []
  | None :: _ => None
  | Some x :: r => match concat_opt r with Some y => Some (x ++ y) | None => None end
  end.

Definition trace_along (order : pkg -> option (list id)) (special : bool -> list sdecl -> list id)
           (ps : list package) (ids : list id) : option (list id) :=
  concat_opt (map (fun p => match find_pk ps p with Some pk => pk_trace order special pk | None => None end) ids).

(** ** Y: importSrc.  [if interp.srcPkg[importPath] != nil { return }]; gta of every file meets the
    import declarations in order and loads each imported package (recursively) before going on;
    then the package's own globals and init functions run. *)
Fixpoint y_load (fuel : nat) (ps : list package) (done : list id) (p : id) {struct fuel} : list id :=
  if memb p done then done
  else match fuel with
       | O => done
       | S k =>
           match find_pk ps p with
           | None => done
           | Some pk => fold_left (fun d q => y_load k ps d q) (pk_imports pk) done ++ [p]
           end
       end.

Definition y_pkg_order (g : program) : list id :=
  y_load (S (length (packages g))) (packages g) [] (entry g).

Definition y_trace (g : program) : option (list id) :=
  trace_along y_order y_special (packages g) (y_pkg_order g).

(** ** G: "Given the list of all packages, sorted by import path, in each step the first
    uninitialized package in the list for which all imported packages (if any) are already
    initialized is initialized." *)
Definition pk_node (pk : package) : node := mknode (pk_id pk) (pk_imports pk) [].

Fixpoint insert_pk (pk : package) (l : list package) : list package :=
  match l with
  | [] => [pk]
  | x :: r => if (pk_id pk <=? pk_id x)%N then pk :: l else x :: insert_pk pk r
  end.

Definition sort_pks (l : list package) : list package := fold_right insert_pk [] l.

Definition g_pkg_order (g : program) : list id :=
  map nid (fst (g_sched (map pk_node (sort_pks (packages g))))).

Definition g_trace (g : program) : option (list id) :=
  trace_along g_order g_special (packages g) (g_pkg_order g).

(** Side condition for the package level: the packages are listed in import-path order, every
    package after the packages it imports, and yaegi's depth-first loading order is that very list. *)
Fixpoint ascending (l : list id) : bool :=
  match l with
  | x :: ((y :: _) as r) => (x <? y)%N && ascending r
  | _ => true
  end.

Definition list_eqb (a b : list id) : bool :=
  (length a =? length b)%nat && forallb (fun xy => N.eqb (fst xy) (snd xy)) (combine a b).

Definition pkgs_in_path_order (g : program) : bool :=
  ascending (map pk_id (packages g))
  && all_ready_in_order [] (map pk_node (packages g))
  && list_eqb (y_pkg_order g) (map pk_id (packages g)).

(** An acyclic import graph, given by any listing in which every package comes after the packages
    it imports (and no package is listed twice). *)
Fixpoint topo_listed (seen : list id) (ps : list package) : bool :=
  match ps with
  | [] => true
  | pk :: r => negb (memb (pk_id pk) seen)
               && forallb (fun q => memb q seen) (pk_imports pk)
               && topo_listed (pk_id pk :: seen) r
  end.

(** Side condition for whole programs. *)
Definition pkg_side (p : pkg) : bool := decl_sorted p || plain p.

Definition program_side (g : program) : bool :=
  pkgs_in_path_order g
  && forallb (fun pk => pkg_side (pk_body pk) && decls_wf (pk_main pk) (pk_decls pk)) (packages g).
