(** C15 — proofs about the models of Init/Model.v.  Statements are collected in Props/C15.v. *)
From Coq Require Import NArith List Bool Arith Lia Permutation.
From Verif Require Import Init.Model.
Import ListNotations.

(** * Basics *)

Lemma memb_In x l : memb x l = true <-> In x l.
Proof.
  unfold memb. rewrite existsb_exists. split.
  - intros [y [Hy He]]. apply N.eqb_eq in He. subst. exact Hy.
  - intros H. exists x. split; [exact H|apply N.eqb_refl].
Qed.

Lemma memb_false x l : memb x l = false <-> ~ In x l.
Proof.
  rewrite <- memb_In. destruct (memb x l); split; congruence.
Qed.

Lemma ready_spec st n : ready st n = true <-> (forall d, In d (ndeps n) -> In d st).
Proof.
  unfold ready. rewrite forallb_forall. split; intros H d Hd.
  - apply memb_In. apply H. exact Hd.
  - apply memb_In. apply H. exact Hd.
Qed.

Lemma ready_mono st st' n : incl st st' -> ready st n = true -> ready st' n = true.
Proof.
  intros Hi H. apply ready_spec. intros d Hd. apply Hi. apply (proj1 (ready_spec st n) H). exact Hd.
Qed.

Lemma is_nil_true {A} (l : list A) : is_nil l = true <-> l = [].
Proof. destruct l; simpl; split; congruence. Qed.

(** * G: picking *)

Lemma g_pick_none st l : (forall n, In n l -> ready st n = false) -> g_pick st l = None.
Proof.
  induction l as [|n l IH]; intros H; simpl; [reflexivity|].
  rewrite (H n (or_introl eq_refl)). rewrite IH; [reflexivity|].
  intros m Hm. apply H. right. exact Hm.
Qed.

Lemma g_pick_none_inv st : forall l, g_pick st l = None -> forall n, In n l -> ready st n = false.
Proof.
  induction l as [|m l IH]; intros H n Hn; simpl in *; [destruct Hn|].
  destruct (ready st m) eqn:R; [discriminate|].
  destruct (g_pick st l) as [[x l']|] eqn:P; [discriminate|].
  destruct Hn as [Hn|Hn]; [subst; exact R|exact (IH eq_refl n Hn)].
Qed.

Lemma g_loop_nil fuel st : g_loop fuel st [] = ([], []).
Proof. destruct fuel; reflexivity. Qed.

Lemma g_pick_length st : forall nodes n rest, g_pick st nodes = Some (n, rest) -> length nodes = S (length rest).
Proof.
  induction nodes as [|m l IH]; intros n rest H; simpl in H; [discriminate|].
  destruct (ready st m).
  - inversion H; subst. reflexivity.
  - destruct (g_pick st l) as [[x l']|] eqn:P; [|discriminate]. inversion H; subst.
    simpl. f_equal. eapply IH. reflexivity.
Qed.

Lemma g_pick_ready st : forall pending n rest,
  g_pick st pending = Some (n, rest) -> ready st n = true.
Proof.
  induction pending as [|m l IH]; intros n rest H; simpl in H; [discriminate|].
  destruct (ready st m) eqn:R.
  - inversion H; subst. exact R.
  - destruct (g_pick st l) as [[x l']|] eqn:P; [|discriminate]. inversion H; subst.
    eapply IH. reflexivity.
Qed.

Lemma g_pick_perm st : forall pending n rest,
  g_pick st pending = Some (n, rest) -> Permutation (n :: rest) pending.
Proof.
  induction pending as [|m l IH]; intros n rest H; simpl in H; [discriminate|].
  destruct (ready st m).
  - inversion H; subst. apply Permutation_refl.
  - destruct (g_pick st l) as [[x l']|] eqn:P; [|discriminate]. inversion H; subst.
    eapply Permutation_trans; [apply perm_swap|]. constructor. apply IH. reflexivity.
Qed.

(** * yaegi's loop (scan for the first ready node, emit it, restart) schedules exactly like the
      specification, on every dependency graph: emitted nodes and left-over nodes *)

Lemma y_pass_pick st nodes :
  y_pass st nodes = match g_pick st nodes with Some (n, rest) => (Some n, rest) | None => (None, nodes) end.
Proof.
  induction nodes as [|n rest IH]; simpl; [reflexivity|].
  destruct (ready st n); [reflexivity|]. rewrite IH.
  destruct (g_pick st rest) as [[m rest']|]; reflexivity.
Qed.

Lemma y_loop_agree : forall fuel st nodes fg,
  length nodes < fuel -> length nodes <= fg -> y_loop fuel st nodes = g_loop fg st nodes.
Proof.
  induction fuel as [|k IH]; intros st nodes fg Hf Hg; [lia|].
  simpl. rewrite y_pass_pick. destruct (g_pick st nodes) as [[n rest]|] eqn:P.
  - pose proof (g_pick_length _ _ _ _ P) as Hl.
    destruct fg as [|fg']; [lia|]. simpl. rewrite P.
    destruct rest as [|x rest'] eqn:R.
    + simpl. rewrite g_loop_nil. reflexivity.
    + simpl is_nil. cbv iota. rewrite (IH (nid n :: st) (x :: rest') fg'); [reflexivity| |]; simpl in *; lia.
  - destruct fg; simpl; [reflexivity|]. rewrite P. reflexivity.
Qed.

Theorem sched_agree nodes : y_sched nodes = g_sched nodes.
Proof. unfold y_sched, g_sched. apply y_loop_agree; lia. Qed.

(** * Lists that are already in dependency order: both schedules are the identity *)

Lemma g_loop_all_ready nodes : forall fuel st,
  all_ready_in_order st nodes = true -> length nodes <= fuel -> g_loop fuel st nodes = (nodes, []).
Proof.
  induction nodes as [|n rest IH]; intros fuel st H Hf; simpl in *.
  - apply g_loop_nil.
  - destruct fuel; [lia|]. apply andb_true_iff in H. destruct H as [R H].
    simpl. rewrite R. rewrite (IH fuel _ H); [reflexivity|lia].
Qed.

Lemma g_sched_all_ready nodes : all_ready_in_order [] nodes = true -> g_sched nodes = (nodes, []).
Proof. intros H. apply g_loop_all_ready; [exact H|lia]. Qed.

Lemma all_ready_app a : forall st b,
  all_ready_in_order st (a ++ b) = all_ready_in_order st a && all_ready_in_order (rev (map nid a) ++ st) b.
Proof.
  induction a as [|n a IH]; intros st b; simpl; [reflexivity|].
  rewrite IH. rewrite <- app_assoc. simpl. rewrite andb_assoc. reflexivity.
Qed.

Lemma all_ready_incl l : forall st,
  (forall n, In n l -> forall d, In d (ndeps n) -> In d st) -> all_ready_in_order st l = true.
Proof.
  induction l as [|n l IH]; intros st H; simpl; [reflexivity|].
  apply andb_true_iff. split.
  - apply ready_spec. intros d Hd. exact (H n (or_introl eq_refl) d Hd).
  - apply IH. intros m Hm d Hd. right. exact (H m (or_intror Hm) d Hd).
Qed.


Lemma y_sched_all_ready nodes : all_ready_in_order [] nodes = true -> y_sched nodes = (nodes, []).
Proof. intros H. rewrite sched_agree. apply g_sched_all_ready. exact H. Qed.

(** * The dependency graphs of a package: names, marks *)

Lemma g_spec_nids p s : map nid (g_spec_nodes p s) = spec_names s.
Proof.
  destruct s as [ns|bs|ns i]; simpl.
  - induction ns as [|n ns IH]; simpl; [reflexivity|]. rewrite IH. reflexivity.
  - induction bs as [|b bs IH]; simpl; [reflexivity|]. rewrite IH. reflexivity.
  - destruct ns as [|n r]; simpl; [reflexivity|]. f_equal.
    induction r as [|m r IH]; simpl; [reflexivity|]. rewrite IH. reflexivity.
Qed.

Lemma g_spec_logs p s :
  is_nil (spec_names s) = false -> flat_map nlogs (g_spec_nodes p s) = map ilog (spec_inits s).
Proof.
  destruct s as [ns|bs|ns i]; simpl; intros H.
  - clear H. induction ns as [|n ns IH]; simpl; [reflexivity|exact IH].
  - clear H. induction bs as [|b bs IH]; simpl; [reflexivity|]. rewrite IH. reflexivity.
  - destruct ns as [|n r]; simpl in *; [discriminate|]. f_equal.
    clear H. induction r as [|m r IH]; simpl; [reflexivity|exact IH].
Qed.

Lemma g_spec_deps p s n d :
  In n (g_spec_nodes p s) -> In d (ndeps n) -> In d (spec_mentions p s).
Proof.
  unfold spec_mentions. destruct s as [ns|bs|ns i]; simpl; intros Hn Hd.
  - apply in_map_iff in Hn. destruct Hn as [x [Hx _]]. subst. destruct Hd.
  - apply in_map_iff in Hn. destruct Hn as [b [Hb Hin]]. subst. simpl in Hd.
    apply in_flat_map. exists (snd b). split; [apply in_map; exact Hin|].
    apply in_or_app. right. exact Hd.
  - rewrite app_nil_r. apply in_or_app. right.
    destruct ns as [|m r]; simpl in Hn; [destruct Hn|].
    destruct Hn as [Hn|Hn]; [subst; exact Hd|].
    apply in_map_iff in Hn. destruct Hn as [x [Hx _]]. subst. exact Hd.
Qed.

Lemma y_ref_dep_in all self r d :
  In d (y_ref_dep all self r) -> exists v, In v (ref_names r) /\ lookup all v = Some (true, d).
Proof.
  destruct r as [v|f|v]; simpl; intros H; try (destruct H; fail).
  - destruct (lookup all v) as [[g n]|] eqn:L; [|destruct H].
    destruct g; [|destruct H]. destruct (N.eqb n self); [destruct H|].
    destruct H as [H|[]]. subst. exists v. split; [left; reflexivity|exact L].
  - destruct (lookup all v) as [[g n]|] eqn:L; [|destruct H].
    destruct g; [|destruct H]. destruct (N.eqb n self); [destruct H|].
    destruct H as [H|[]]. subst. exists v. split; [left; reflexivity|exact L].
Qed.

Lemma y_node_deps p all s d :
  In d (ndeps (y_node all s)) ->
  exists v, In v (spec_mentions p s) /\ lookup all v = Some (true, d).
Proof.
  unfold y_node, spec_mentions. simpl. intros H.
  apply in_flat_map in H. destruct H as [i [Hi H]].
  apply in_flat_map in H. destruct H as [r [Hr H]].
  apply y_ref_dep_in in H. destruct H as [v [Hv L]].
  exists v. split; [|exact L].
  apply in_flat_map. exists i. split; [exact Hi|].
  apply in_or_app. left. apply in_flat_map. exists r. split; assumption.
Qed.

Lemma lookup_skip pre rest v :
  ~ In v (flat_map spec_names pre) -> lookup (pre ++ rest) v = lookup rest v.
Proof.
  induction pre as [|a pre IH]; intros H; simpl; [reflexivity|].
  simpl in H. destruct (memb v (spec_names a)) eqn:M.
  - exfalso. apply H. apply in_or_app. left. apply memb_In. exact M.
  - apply IH. intros Hc. apply H. apply in_or_app. right. exact Hc.
Qed.

Lemma y_nodes_logs specs l :
  flat_map nlogs (map (y_node specs) l) = flat_map (fun s => map ilog (spec_inits s)) l.
Proof.
  induction l as [|s l IH]; simpl; [reflexivity|]. rewrite IH. reflexivity.
Qed.

(** * Sorted declaration lists *)

Section Sorted.
Variable p : pkg.
Let all := pspecs p.

Lemma y_sorted_ready : forall post pre seen st,
  all = pre ++ post ->
  (forall v, In v (flat_map spec_names pre) -> memb v seen = true) ->
  (forall v, memb v seen = true -> forall g n, lookup all v = Some (g, n) -> In n st) ->
  sorted_from p seen post = true ->
  all_ready_in_order st (map (y_node all) post) = true.
Proof.
  induction post as [|s post IH]; intros pre seen st Hall Hpre Hinv Hs; simpl; [reflexivity|].
  simpl in Hs. apply andb_true_iff in Hs. destruct Hs as [Hs Hrest].
  apply andb_true_iff in Hs. destruct Hs as [Hm Hne].
  rewrite forallb_forall in Hm.
  apply andb_true_iff. split.
  - apply ready_spec. intros d Hd.
    destruct (y_node_deps p all s d Hd) as [v [Hv L]].
    exact (Hinv v (Hm v Hv) true d L).
  - apply (IH (pre ++ [s]) (spec_names s ++ seen)).
    + rewrite <- app_assoc. exact Hall.
    + intros v Hv. rewrite flat_map_app in Hv. simpl in Hv. rewrite app_nil_r in Hv.
      apply memb_In. apply in_or_app. apply in_app_or in Hv.
      destruct Hv as [Hv|Hv]; [right; apply memb_In; apply Hpre; exact Hv|left; exact Hv].
    + intros v Hv g n L. apply memb_In in Hv. 
      destruct (memb v seen) eqn:Ms.
      * right. exact (Hinv v Ms g n L).
      * apply in_app_or in Hv. destruct Hv as [Hv|Hv]; [|apply memb_In in Hv; congruence].
        assert (Hnp : ~ In v (flat_map spec_names pre)).
        { intros Hc. apply Hpre in Hc. congruence. }
        rewrite Hall in L. rewrite (lookup_skip pre (s :: post) v Hnp) in L.
        simpl in L. apply memb_In in Hv. rewrite Hv in L. inversion L. left. reflexivity.
    + exact Hrest.
Qed.

Lemma g_sorted_ready : forall post seen st,
  (forall v, memb v seen = true -> In v st) ->
  sorted_from p seen post = true ->
  all_ready_in_order st (flat_map (g_spec_nodes p) post) = true.
Proof.
  induction post as [|s post IH]; intros seen st Hinv Hs; simpl; [reflexivity|].
  simpl in Hs. apply andb_true_iff in Hs. destruct Hs as [Hs Hrest].
  apply andb_true_iff in Hs. destruct Hs as [Hm Hne].
  rewrite forallb_forall in Hm.
  rewrite all_ready_app. apply andb_true_iff. split.
  - apply all_ready_incl. intros n Hn d Hd.
    apply Hinv. apply Hm. exact (g_spec_deps p s n d Hn Hd).
  - apply (IH (spec_names s ++ seen)); [|exact Hrest].
    intros v Hv. apply memb_In in Hv. apply in_or_app. apply in_app_or in Hv.
    destruct Hv as [Hv|Hv].
    + left. apply in_rev. rewrite rev_involutive. rewrite g_spec_nids. exact Hv.
    + right. apply Hinv. apply memb_In. exact Hv.
Qed.

Lemma sorted_logs : forall post seen,
  sorted_from p seen post = true ->
  flat_map nlogs (flat_map (g_spec_nodes p) post) = flat_map nlogs (map (y_node all) post).
Proof.
  induction post as [|s post IH]; intros seen Hs; simpl; [reflexivity|].
  simpl in Hs. apply andb_true_iff in Hs. destruct Hs as [Hs Hrest].
  apply andb_true_iff in Hs. destruct Hs as [_ Hne]. apply negb_true_iff in Hne.
  rewrite flat_map_app. rewrite (g_spec_logs p s Hne). rewrite (IH _ Hrest). reflexivity.
Qed.

Theorem sorted_agree : decl_sorted p = true -> y_order p = g_order p.
Proof.
  unfold decl_sorted. intros H.
  unfold y_order, g_order, y_nodes, g_nodes. fold all.
  assert (HY : all_ready_in_order [] (map (y_node all) all) = true).
  { apply (y_sorted_ready all [] [] []); [reflexivity| | |exact H].
    - intros v [].
    - intros v Hv. discriminate. }
  assert (HG : all_ready_in_order [] (flat_map (g_spec_nodes p) all) = true).
  { apply (g_sorted_ready all [] []); [|exact H]. intros v Hv. discriminate. }
  rewrite (y_sched_all_ready _ HY). rewrite (g_sched_all_ready _ HG).
  unfold logs_of. simpl. rewrite (sorted_logs all [] H). reflexivity.
Qed.

(** what both print in that case: the marks in declaration order *)
Theorem sorted_order : decl_sorted p = true ->
  y_order p = Some (flat_map (fun s => map ilog (spec_inits s)) (pspecs p)).
Proof.
  unfold decl_sorted. intros H. unfold y_order, y_nodes. fold all.
  assert (HY : all_ready_in_order [] (map (y_node all) all) = true).
  { apply (y_sorted_ready all [] [] []); [reflexivity| | |exact H].
    - intros v [].
    - intros v Hv. discriminate. }
  rewrite (y_sched_all_ready _ HY). unfold logs_of. simpl. f_equal.
  apply y_nodes_logs.
Qed.

End Sorted.

(** * Plain declaration lists: the two dependency graphs coincide *)

Lemma vars_of_cons fuel fs r rs : vars_of fuel fs (r :: rs) = vars_of fuel fs [r] ++ vars_of fuel fs rs.
Proof. destruct fuel; simpl; rewrite app_nil_r; reflexivity. Qed.

Lemma vars_of_RV fuel fs v : vars_of fuel fs [RV v] = [v].
Proof. destruct fuel; reflexivity. Qed.

Lemma lookup_plain p l v :
  forallb (plain_spec p) l = true ->
  existsb (fun s => memb v (spec_names s)) l = true ->
  lookup l v = Some (true, v).
Proof.
  induction l as [|a l IH]; intros Hp Hd; simpl in *; [discriminate|].
  apply andb_true_iff in Hp. destruct Hp as [Ha Hp].
  destruct a as [ns|bs|ns i]; simpl in *.
  - destruct ns as [|n [|? ?]]; try discriminate. simpl in *.
    destruct (N.eqb v n) eqn:E; simpl in *.
    + apply N.eqb_eq in E. subst. reflexivity.
    + apply IH; assumption.
  - destruct bs as [|[n i] [|? ?]]; try discriminate. simpl in *.
    destruct (N.eqb v n) eqn:E; simpl in *.
    + apply N.eqb_eq in E. subst. reflexivity.
    + apply IH; assumption.
  - discriminate.
Qed.

Lemma plain_ref_deps p n refs :
  plain p = true -> forallb (plain_ref p n) refs = true ->
  flat_map (y_ref_dep (pspecs p) n) refs = vars_of (length (pfuncs p)) (pfuncs p) refs.
Proof.
  intros Hp. induction refs as [|r rs IH]; intros H.
  - destruct (length (pfuncs p)); reflexivity.
  - simpl in H. apply andb_true_iff in H. destruct H as [Hr H].
    rewrite vars_of_cons. simpl. rewrite (IH H). f_equal.
    destruct r as [v|f|v]; simpl in Hr.
    + apply andb_true_iff in Hr. destruct Hr as [Hd Hn]. apply negb_true_iff in Hn.
      rewrite vars_of_RV. simpl. unfold declared in Hd.
      rewrite (lookup_plain p (pspecs p) v Hp Hd). rewrite Hn. reflexivity.
    + apply is_nil_true in Hr. rewrite Hr. reflexivity.
    + discriminate.
Qed.

Lemma plain_nodes p : plain p = true -> g_nodes p = y_nodes p.
Proof.
  intros Hp. unfold g_nodes, y_nodes.
  assert (H : forall l, forallb (plain_spec p) l = true ->
                        flat_map (g_spec_nodes p) l = map (y_node (pspecs p)) l).
  { induction l as [|s l IH]; intros Hl; simpl; [reflexivity|].
    simpl in Hl. apply andb_true_iff in Hl. destruct Hl as [Hs Hl]. rewrite (IH Hl).
    destruct s as [ns|bs|ns i]; simpl in Hs.
    - destruct ns as [|n [|? ?]]; try discriminate. reflexivity.
    - destruct bs as [|[n i] [|? ?]]; try discriminate.
      simpl. f_equal. unfold y_node, spec_first. simpl. rewrite app_nil_r.
      rewrite (plain_ref_deps p n (irefs i) Hp Hs). reflexivity.
    - discriminate. }
  apply H. exact Hp.
Qed.

Theorem plain_agree p : plain p = true -> y_order p = g_order p.
Proof.
  intros Hp. unfold y_order, g_order. rewrite (plain_nodes p Hp).
  rewrite (sched_agree (y_nodes p)). reflexivity.
Qed.

Theorem pkg_side_agree p : pkg_side p = true -> y_order p = g_order p.
Proof.
  unfold pkg_side. intros H. apply orb_true_iff in H. destruct H as [H|H].
  - apply sorted_agree. exact H.
  - apply plain_agree. exact H.
Qed.

(** * What yaegi's schedule guarantees unconditionally *)

Fixpoint respects (st : list id) (e : list node) : Prop :=
  match e with
  | [] => True
  | n :: e' => (forall d, In d (ndeps n) -> In d st) /\ respects (nid n :: st) e'
  end.

Lemma respects_app a : forall st b,
  respects st (a ++ b) <-> respects st a /\ respects (rev (map nid a) ++ st) b.
Proof.
  induction a as [|n a IH]; intros st b; simpl.
  - tauto.
  - rewrite IH. rewrite <- app_assoc. simpl. tauto.
Qed.

Lemma respects_split : forall e st, respects st e ->
  forall e1 n e2, e = e1 ++ n :: e2 -> forall d, In d (ndeps n) -> In d st \/ In d (map nid e1).
Proof.
  intros e st H e1 n e2 He d Hd. subst e.
  apply respects_app in H. destruct H as [_ H]. simpl in H. destruct H as [H _].
  specialize (H d Hd). apply in_app_or in H. destruct H as [H|H].
  - right. apply in_rev. exact H.
  - left. exact H.
Qed.

Lemma g_loop_respects : forall fuel st nodes e r, g_loop fuel st nodes = (e, r) -> respects st e.
Proof.
  induction fuel as [|k IH]; intros st nodes e r H; simpl in H.
  - inversion H. exact I.
  - destruct (g_pick st nodes) as [[n rest]|] eqn:P.
    + destruct (g_loop k (nid n :: st) rest) as [e' r'] eqn:L. inversion H; subst.
      simpl. split; [apply ready_spec; eapply g_pick_ready; exact P|]. eapply IH. exact L.
    + inversion H. exact I.
Qed.

Theorem g_respects_deps nodes e r :
  g_sched nodes = (e, r) ->
  forall e1 n e2, e = e1 ++ n :: e2 -> forall d, In d (ndeps n) -> In d (map nid e1).
Proof.
  intros H e1 n e2 He d Hd. unfold g_sched in H. apply g_loop_respects in H.
  destruct (respects_split e [] H e1 n e2 He d Hd) as [[]|Hx]. exact Hx.
Qed.

(** every node emitted has all its (direct) dependencies emitted before it *)
Theorem y_respects_direct_deps nodes e r :
  y_sched nodes = (e, r) ->
  forall e1 n e2, e = e1 ++ n :: e2 -> forall d, In d (ndeps n) -> In d (map nid e1).
Proof. rewrite sched_agree. apply g_respects_deps. Qed.

(** every node is emitted exactly once or left over *)
Lemma g_loop_perm : forall fuel st nodes e r, g_loop fuel st nodes = (e, r) -> Permutation (e ++ r) nodes.
Proof.
  induction fuel as [|k IH]; intros st nodes e r H; simpl in H.
  - inversion H. apply Permutation_refl.
  - destruct (g_pick st nodes) as [[n rest]|] eqn:P.
    + destruct (g_loop k (nid n :: st) rest) as [e' r'] eqn:L. inversion H; subst.
      simpl. eapply Permutation_trans; [|exact (g_pick_perm _ _ _ _ P)].
      constructor. eapply IH. exact L.
    + inversion H. apply Permutation_refl.
Qed.

Theorem y_emits_once nodes e r : y_sched nodes = (e, r) -> Permutation (e ++ r) nodes.
Proof. rewrite sched_agree. apply g_loop_perm. Qed.

(** the loop ends with all nodes emitted iff no set of nodes blocks itself *)
Definition stuck_set (nodes S : list node) : Prop :=
  S <> [] /\ incl S nodes /\
  forall n, In n S -> exists d, In d (ndeps n) /\ forall m, In m nodes -> nid m = d -> In m S.

Lemma forallb_false {A} (f : A -> bool) l : forallb f l = false -> exists x, In x l /\ f x = false.
Proof.
  induction l as [|a l IH]; simpl; [discriminate|].
  destruct (f a) eqn:F; simpl.
  - intros H. destruct (IH H) as [x [Hx Hf]]. exists x. split; [right; exact Hx|exact Hf].
  - intros _. exists a. split; [left; reflexivity|exact F].
Qed.

Lemma g_loop_final : forall fuel st nodes e r,
  g_loop fuel st nodes = (e, r) -> length nodes <= fuel ->
  forall n, In n r -> ready (rev (map nid e) ++ st) n = false.
Proof.
  induction fuel as [|k IH]; intros st nodes e r H Hf; simpl in H.
  - inversion H; subst. destruct r; [intros n []|simpl in Hf; lia].
  - destruct (g_pick st nodes) as [[m rest]|] eqn:P.
    + destruct (g_loop k (nid m :: st) rest) as [e' r'] eqn:L. inversion H; subst.
      pose proof (g_pick_length _ _ _ _ P) as Hl.
      intros n Hn. simpl. rewrite <- app_assoc. simpl.
      eapply IH; [exact L|lia|exact Hn].
    + inversion H; subst. simpl. exact (g_pick_none_inv _ _ P).
Qed.

Section Avoid.
Variables (nodes S : list node).
Hypothesis HS : forall n, In n S -> exists d, In d (ndeps n) /\ forall m, In m nodes -> nid m = d -> In m S.

Let Inv (st : list id) : Prop := forall d, In d st -> exists m, In m nodes /\ nid m = d /\ ~ In m S.

Lemma g_loop_avoid : forall fuel st cur e r,
  g_loop fuel st cur = (e, r) -> incl cur nodes -> Inv st -> forall m, In m e -> ~ In m S.
Proof.
  induction fuel as [|k IH]; intros st cur e r H Hi Hinv; simpl in H.
  - inversion H. intros m [].
  - destruct (g_pick st cur) as [[n rest]|] eqn:P.
    + destruct (g_loop k (nid n :: st) rest) as [e' r'] eqn:L. inversion H; subst.
      pose proof (g_pick_ready _ _ _ _ P) as R.
      pose proof (g_pick_perm _ _ _ _ P) as Hp.
      assert (Hn : In n nodes) by (apply Hi; eapply Permutation_in; [exact Hp|left; reflexivity]).
      assert (Hrest : incl rest nodes).
      { intros x Hx. apply Hi. eapply Permutation_in; [exact Hp|right; exact Hx]. }
      assert (HnS : ~ In n S).
      { intros Hc. destruct (HS n Hc) as [d [Hd Hall]].
        pose proof (proj1 (ready_spec st n) R d Hd) as Hst.
        destruct (Hinv d Hst) as [m [Hm [Hid Hns]]]. apply Hns. apply Hall; assumption. }
      assert (Hinv' : Inv (nid n :: st)).
      { intros d [Hd|Hd]; [|exact (Hinv d Hd)].
        exists n. split; [exact Hn|]. split; [exact Hd|exact HnS]. }
      intros m [Hm|Hm]; [subst; exact HnS|exact (IH _ _ _ _ L Hrest Hinv' m Hm)].
    + inversion H. intros m [].
Qed.

End Avoid.

Theorem y_total_iff_no_stuck_set nodes e r :
  y_sched nodes = (e, r) -> (r <> [] <-> exists S, stuck_set nodes S).
Proof.
  rewrite sched_agree. intros H. unfold g_sched in H.
  pose proof (g_loop_perm _ _ _ _ _ H) as Hp.
  split.
  - intros Hr. exists r. split; [exact Hr|]. split.
    + intros x Hx. eapply Permutation_in; [exact Hp|]. apply in_or_app. right. exact Hx.
    + intros n Hn.
      pose proof (g_loop_final _ _ _ _ _ H (Nat.le_refl _) n Hn) as Hf.
      rewrite app_nil_r in Hf. unfold ready in Hf.
      destruct (forallb_false _ _ Hf) as [d [Hd Hm]]. apply memb_false in Hm.
      exists d. split; [exact Hd|]. intros m Hmn Hid.
      apply Permutation_sym in Hp. pose proof (Permutation_in _ Hp Hmn) as Hin.
      apply in_app_or in Hin. destruct Hin as [Hin|Hin]; [|exact Hin].
      exfalso. apply Hm. apply in_rev. rewrite rev_involutive. subst d. apply in_map. exact Hin.
  - intros [S [Hne [Hi HS]]] Hr. subst r. rewrite app_nil_r in Hp.
    destruct S as [|n S']; [apply Hne; reflexivity|].
    assert (Hn : In n nodes) by (apply Hi; left; reflexivity).
    apply Permutation_sym in Hp. pose proof (Permutation_in _ Hp Hn) as Hin.
    refine (g_loop_avoid nodes (n :: S') HS _ _ _ _ _ H _ _ n Hin _).
    + apply incl_refl.
    + intros d [].
    + left. reflexivity.
Qed.

(** * Packages: loading order *)

Lemma find_pk_In ps p pk : find_pk ps p = Some pk -> In pk ps /\ pk_id pk = p.
Proof.
  induction ps as [|x r IH]; simpl; [discriminate|].
  destruct (N.eqb (pk_id x) p) eqn:E.
  - intros H. inversion H; subst. apply N.eqb_eq in E. split; [left; reflexivity|exact E].
  - intros H. destruct (IH H) as [Hi He]. split; [right; exact Hi|exact He].
Qed.

Section Load.
Variable ps : list package.
Variable rank : id -> nat.
Hypothesis Hrank : forall p pk q, find_pk ps p = Some pk -> In q (pk_imports pk) ->
                                  rank q < rank p /\ find_pk ps q <> None.

(** on the reversed order (latest first): not loaded before, and all imports loaded before *)
Fixpoint goodr (rl : list id) : Prop :=
  match rl with
  | [] => True
  | p :: r => ~ In p r /\ (forall pk, find_pk ps p = Some pk -> incl (pk_imports pk) r) /\ goodr r
  end.

Definition good (l : list id) : Prop := goodr (rev l).

Lemma goodr_NoDup rl : goodr rl -> NoDup rl.
Proof.
  induction rl as [|p r IH]; simpl; intros H; [constructor|].
  destruct H as [H1 [_ H3]]. constructor; [exact H1|exact (IH H3)].
Qed.

Lemma goodr_app a b : goodr (a ++ b) -> goodr b.
Proof.
  induction a as [|x a IH]; simpl; intros H; [exact H|]. apply IH. tauto.
Qed.

Lemma y_load_good : forall fuel done p,
  good done -> rank p < fuel -> find_pk ps p <> None ->
  good (y_load fuel ps done p)
  /\ (exists ext, y_load fuel ps done p = done ++ ext /\ forall x, In x ext -> rank x <= rank p)
  /\ In p (y_load fuel ps done p).
Proof.
  induction fuel as [|k IH]; intros done p Hg Hf Hp; [lia|].
  simpl. destruct (memb p done) eqn:M.
  - split; [exact Hg|]. split; [exists []; split; [rewrite app_nil_r; reflexivity|intros x []]|].
    apply memb_In. exact M.
  - destruct (find_pk ps p) as [pk|] eqn:F; [|congruence].
    assert (Hfold : forall qs d, good d ->
              (forall q, In q qs -> rank q < k /\ find_pk ps q <> None /\ rank q < rank p) ->
              good (fold_left (fun d q => y_load k ps d q) qs d)
              /\ (exists ext, fold_left (fun d q => y_load k ps d q) qs d = d ++ ext
                              /\ forall x, In x ext -> rank x < rank p)
              /\ (forall q, In q qs -> In q (fold_left (fun d q => y_load k ps d q) qs d))).
    { induction qs as [|q qs IHq]; intros d Hd Hq; simpl.
      - split; [exact Hd|]. split; [exists []; split; [rewrite app_nil_r; reflexivity|intros x []]|intros q []].
      - destruct (Hq q (or_introl eq_refl)) as [Hq1 [Hq2 Hq3]].
        destruct (IH d q Hd Hq1 Hq2) as [G1 [[ext1 [E1 R1]] I1]].
        assert (Hq' : forall q0, In q0 qs -> rank q0 < k /\ find_pk ps q0 <> None /\ rank q0 < rank p)
          by (intros q0 H0; apply Hq; right; exact H0).
        destruct (IHq _ G1 Hq') as [G2 [[ext2 [E2 R2]] I2]].
        split; [exact G2|]. split.
        + exists (ext1 ++ ext2). split.
          * rewrite E2. rewrite E1. rewrite app_assoc. reflexivity.
          * intros x Hx. apply in_app_or in Hx. destruct Hx as [Hx|Hx]; [|exact (R2 x Hx)].
            specialize (R1 x Hx). lia.
        + intros q0 [H0|H0]; [|exact (I2 q0 H0)]. subst q0.
          rewrite E2. apply in_or_app. left. exact I1. }
    assert (Himp : forall q, In q (pk_imports pk) -> rank q < k /\ find_pk ps q <> None /\ rank q < rank p).
    { intros q Hq. destruct (Hrank p pk q F Hq) as [H1 H2]. split; [lia|]. split; [exact H2|exact H1]. }
    destruct (Hfold (pk_imports pk) done Hg Himp) as [G1 [[ext [E1 R1]] I1]].
    remember (fold_left (fun d q => y_load k ps d q) (pk_imports pk) done) as o'.
    split; [|split].
    + unfold good. rewrite rev_app_distr. simpl. split; [|split].
      * intros Hc. apply in_rev in Hc. rewrite E1 in Hc. apply in_app_or in Hc.
        destruct Hc as [Hc|Hc].
        -- apply memb_false in M. exact (M Hc).
        -- specialize (R1 p Hc). lia.
      * intros pk' F'. rewrite F in F'. inversion F'; subst pk'.
        intros q Hq. apply in_rev. rewrite rev_involutive. exact (I1 q Hq).
      * exact G1.
    + exists (ext ++ [p]). split; [rewrite E1; rewrite app_assoc; reflexivity|].
      intros x Hx. apply in_app_or in Hx. destruct Hx as [Hx|[Hx|[]]]; [specialize (R1 x Hx); lia|subst; lia].
    + apply in_or_app. right. left. reflexivity.
Qed.

End Load.

Fixpoint pos (ps : list package) (p : id) : nat :=
  match ps with
  | [] => 0
  | pk :: r => if N.eqb (pk_id pk) p then 0 else S (pos r p)
  end.

Lemma pos_lt ps p : find_pk ps p <> None -> pos ps p < length ps.
Proof.
  induction ps as [|x r IH]; simpl; [congruence|].
  destruct (N.eqb (pk_id x) p); intros H; [lia|]. specialize (IH H). lia.
Qed.

Lemma topo_rank : forall ps seen, topo_listed seen ps = true ->
  forall p pk q, find_pk ps p = Some pk -> In q (pk_imports pk) ->
  memb q seen = true \/ (pos ps q < pos ps p /\ find_pk ps q <> None).
Proof.
  induction ps as [|x r IH]; intros seen H p pk q F Hq; simpl in *; [discriminate|].
  apply andb_true_iff in H. destruct H as [H Hr]. apply andb_true_iff in H. destruct H as [Hx Himp].
  destruct (N.eqb (pk_id x) p) eqn:E.
  - inversion F; subst pk. left. rewrite forallb_forall in Himp. exact (Himp q Hq).
  - destruct (IH _ Hr p pk q F Hq) as [Hm|[Hlt Hf]].
    + simpl in Hm. apply orb_true_iff in Hm. destruct Hm as [Hm|Hm].
      * right. apply N.eqb_eq in Hm. subst q. rewrite N.eqb_refl. split; [lia|congruence].
      * left. exact Hm.
    + right. destruct (N.eqb (pk_id x) q); [split; [lia|congruence]|split; [lia|exact Hf]].
Qed.

(** With an acyclic import graph, yaegi initialises every package needed exactly once, and every
    package after all the packages it imports. *)
Theorem import_once g :
  topo_listed [] (packages g) = true -> find_pk (packages g) (entry g) <> None ->
  NoDup (y_pkg_order g)
  /\ In (entry g) (y_pkg_order g)
  /\ (forall l1 p l2 pk q, y_pkg_order g = l1 ++ p :: l2 -> find_pk (packages g) p = Some pk ->
                           In q (pk_imports pk) -> In q l1).
Proof.
  intros Ht He. unfold y_pkg_order.
  assert (Hrank : forall p pk q, find_pk (packages g) p = Some pk -> In q (pk_imports pk) ->
                    pos (packages g) q < pos (packages g) p /\ find_pk (packages g) q <> None).
  { intros p pk q F Hq. destruct (topo_rank _ _ Ht p pk q F Hq) as [Hm|H]; [discriminate|exact H]. }
  destruct (y_load_good (packages g) (pos (packages g)) Hrank (S (length (packages g))) [] (entry g))
    as [G [_ I]]; [exact I| |exact He|].
  { pose proof (pos_lt _ _ He). lia. }
  split; [|split].
  - unfold good in G. apply goodr_NoDup in G. apply NoDup_rev in G. rewrite rev_involutive in G. exact G.
  - exact I.
  - intros l1 p l2 pk q Ho F Hq. unfold good in G. rewrite Ho in G.
    rewrite rev_app_distr in G. simpl in G. rewrite <- app_assoc in G. apply goodr_app in G.
    simpl in G. destruct G as [_ [G _]]. apply in_rev. exact (G pk F q Hq).
Qed.

(** * Packages: agreement of the two orders when the packages are listed in path order *)

Lemma sort_pks_sorted ps : ascending (map pk_id ps) = true -> sort_pks ps = ps.
Proof.
  induction ps as [|x r IH]; intros H; [reflexivity|].
  simpl. destruct r as [|y r'].
  - reflexivity.
  - simpl in H. apply andb_true_iff in H. destruct H as [Hxy Hr].
    rewrite (IH Hr). simpl. apply N.ltb_lt in Hxy.
    destruct (N.leb_spec (pk_id x) (pk_id y)); [reflexivity|lia].
Qed.

Lemma list_eqb_eq : forall a b, list_eqb a b = true -> a = b.
Proof.
  unfold list_eqb. induction a as [|x a IH]; intros [|y b] H; simpl in *; try discriminate; [reflexivity|].
  apply andb_true_iff in H. destruct H as [Hl H]. apply andb_true_iff in H. destruct H as [Hx H].
  apply N.eqb_eq in Hx. subst. f_equal. apply IH. rewrite Hl. exact H.
Qed.

Theorem pkg_order_agree g : pkgs_in_path_order g = true -> g_pkg_order g = y_pkg_order g.
Proof.
  unfold pkgs_in_path_order. intros H.
  apply andb_true_iff in H. destruct H as [H He]. apply andb_true_iff in H. destruct H as [Ha Hr].
  apply list_eqb_eq in He. rewrite He. unfold g_pkg_order.
  rewrite (sort_pks_sorted _ Ha). rewrite (g_sched_all_ready _ Hr). simpl.
  rewrite map_map. reflexivity.
Qed.

(** * Which functions run by themselves: init functions and main, among look-alikes *)

Lemma is_init_agree d : y_is_init d = g_is_init d.
Proof. destruct d as [k n m]; destruct k; destruct n; reflexivity. Qed.

Lemma find_main_agree ds :
  decls_wf true ds = true -> find y_is_main_sym ds = find g_is_main ds.
Proof.
  simpl. induction ds as [|d ds IH]; intros H; simpl in *; [reflexivity|].
  apply andb_true_iff in H. destruct H as [Hd H].
  destruct d as [k n m]; destruct k; destruct n; simpl in *; try reflexivity; try (apply IH; exact H).
  discriminate.
Qed.

(** For ALL declaration lists (functions, methods, function literals and package variables named
    init, main or otherwise, in any number and order), the functions yaegi runs by itself, in
    order, are those Go runs: the receiver-less functions named init in source order, then main's
    main for package main only. *)
Theorem special_agree is_main ds :
  decls_wf is_main ds = true -> y_special is_main ds = g_special is_main ds.
Proof.
  intros H. unfold y_special, g_special.
  rewrite (filter_ext _ _ is_init_agree). f_equal.
  destruct is_main.
  - rewrite (find_main_agree ds H). reflexivity.
  - destruct (find y_is_main_sym ds); reflexivity.
Qed.

Theorem program_agree g : program_side g = true -> y_trace g = g_trace g.
Proof.
  unfold program_side. intros H. apply andb_true_iff in H. destruct H as [Ho Hb].
  unfold y_trace, g_trace, trace_along. rewrite (pkg_order_agree g Ho). f_equal.
  apply map_ext. intros p. destruct (find_pk (packages g) p) as [pk|] eqn:F; [|reflexivity].
  destruct (find_pk_In _ _ _ F) as [Hin _]. rewrite forallb_forall in Hb.
  specialize (Hb pk Hin). apply andb_true_iff in Hb. destruct Hb as [Hs Hw].
  unfold pk_trace. rewrite (pkg_side_agree _ Hs). rewrite (special_agree _ _ Hw). reflexivity.
Qed.

(** * Witnesses (each one is also a fixed case of the harness, replayed on yaegi and on compiled Go) *)

Local Open Scope N_scope.

(** [var vN = lg(N, refs...)]: the mark printed is the variable's number *)
Definition v (n : id) (refs : list ref) : spec := SPair [(n, mkinit n refs)].

(** [func init() { lg(m1); ... }] and [func main() { lg(0) }] *)
Definition ini (l : list id) : sdecl := mksd DFunc NInit l.
Definition fmain : sdecl := mksd DFunc NMain [0].

Definition single (p : pkg) : program := mkprog [mkpk 9 [] p [fmain] true] 9.

(** var a = lg(c); var b = lg(a); var c = lg(); var d = lg()              (a b c d = 1 2 3 4) *)
Definition w_direct : pkg := mkpkg [v 1 [RV 3]; v 2 [RV 1]; v 3 []; v 4 []] [].

(** Regression: with the repaired loop this former counterexample is initialised in Go's order
    c a b d; the loop as it was before the fix gave c d a b. *)
Lemma direct_regression :
  y_order w_direct = Some [3; 1; 2; 4]%N /\ g_order w_direct = Some [3; 1; 2; 4]%N
  /\ plain w_direct = true /\ decl_sorted w_direct = false
  /\ logs_of (old_sched (y_nodes w_direct)) = Some [3; 4; 1; 2]%N.
Proof. vm_compute. repeat split. Qed.

(** var a = lg(f()); var b = lg(); func f() int { return b }               (a b = 1 2, f = 10) *)
Definition w_func : pkg := mkpkg [v 1 [RF 10]; v 2 []] [mkfun 10 [RV 2]].

Lemma refuted_through_func :
  y_order w_func = Some [1; 2]%N /\ g_order w_func = Some [2; 1]%N
  /\ plain w_func = false /\ decl_sorted w_func = false.
Proof. vm_compute. repeat split. Qed.

(** var a = lg(x); var x, y = lg2(c); var c = lg()                         (a x y c = 1 2 3 4) *)
Definition w_multi_call : pkg := mkpkg [v 1 [RV 2]; SCall [2; 3]%N (mkinit 2 [RV 4]); v 4 []] [].

Lemma refuted_multi_call :
  y_order w_multi_call = Some [1; 4; 2]%N /\ g_order w_multi_call = Some [4; 2; 1]%N.
Proof. vm_compute. split; reflexivity. Qed.

(** var a, b = lg(c), lg(); var c = lg()                                   (a b c = 1 2 3) *)
Definition w_multi_unit : pkg := mkpkg [SPair [(1, mkinit 1 [RV 3]); (2, mkinit 2 [])]%N; v 3 []] [].

Lemma refuted_multi_unit :
  y_order w_multi_unit = Some [3; 1; 2]%N /\ g_order w_multi_unit = Some [2; 3; 1]%N.
Proof. vm_compute. split; reflexivity. Qed.

(** var a = lg(func(b int) int { return b }(0)); var b = lg()              (a b = 1 2) *)
Definition w_false_dep : pkg := mkpkg [v 1 [RX 2]; v 2 []] [].

Lemma refuted_false_dep :
  y_order w_false_dep = Some [2; 1]%N /\ g_order w_false_dep = Some [1; 2]%N.
Proof. vm_compute. split; reflexivity. Qed.

(** a misleading identifier can even make yaegi reject a valid program:
    var a = lg(func(b int) int { return b }(0)); var b = lg(a) *)
Definition w_false_loop : pkg := mkpkg [v 1 [RX 2]; v 2 [RV 1]] [].

Lemma refuted_false_loop : y_order w_false_loop = None /\ g_order w_false_loop = Some [1; 2]%N.
Proof. vm_compute. split; reflexivity. Qed.

(** package main imports p02 then p01, which do not import each other *)
Definition w_pkg_order : program :=
  mkprog [mkpk 1 [] (mkpkg [v 11 []] []) [ini [12]] false;
          mkpk 2 [] (mkpkg [v 21 []] []) [ini [22]] false;
          mkpk 9 [2; 1]%N (mkpkg [v 91 []] []) [fmain] true] 9.

Lemma refuted_pkg_order :
  y_trace w_pkg_order = Some [21; 22; 11; 12; 91; 0]%N /\ g_trace w_pkg_order = Some [11; 12; 21; 22; 91; 0]%N.
Proof. vm_compute. split; reflexivity. Qed.

Lemma statement_refuted : ~ (forall g, y_trace g = g_trace g).
Proof. intros H. specialize (H (single w_func)). vm_compute in H. discriminate. Qed.

(** corner cases of the specification model, validated against compiled Go by the harness:
    the variables of [var a, b = f()] are scheduled one by one, and a variable without initialiser
    is an ordinary node *)
Definition w_go_multi : pkg := mkpkg [v 1 [RV 4]; v 2 [RV 3]; SCall [3; 4]%N (mkinit 3 [])] [].
Definition w_go_noinit : pkg := mkpkg [v 1 [RV 3]; v 2 []; SNoInit [3]%N] [].

Lemma go_corner_cases :
  g_order w_go_multi = Some [3; 2; 1]%N /\ g_order w_go_noinit = Some [2; 1]%N /\ y_order w_go_noinit = Some [2; 1]%N.
Proof. vm_compute. repeat split. Qed.

(** non-vacuity of the side conditions *)

(** var a = lg(c); var b = lg(); var c = lg() : not sorted, plain *)
Definition w_plain : pkg := mkpkg [v 1 [RV 3]; v 2 []; v 3 []] [].

Lemma plain_inhabited :
  plain w_plain = true /\ decl_sorted w_plain = false
  /\ y_order w_plain = Some [2; 3; 1]%N.
Proof. vm_compute. repeat split. Qed.

(** sorted, with a function-mediated dependency, a multi-value declaration and a misleading identifier *)
Definition w_sorted : pkg :=
  mkpkg [v 1 []; SCall [2; 3]%N (mkinit 2 [RV 1]); v 4 [RF 10; RX 1]; SPair [(5, mkinit 5 [RV 3]); (6, mkinit 6 [RV 4])]%N]
        [mkfun 10 [RV 2; RF 11]; mkfun 11 [RV 1; RF 10]].

Lemma sorted_inhabited :
  decl_sorted w_sorted = true /\ plain w_sorted = false /\ y_order w_sorted = Some [1; 2; 4; 5; 6]%N.
Proof. vm_compute. repeat split. Qed.

Definition w_program : program :=
  mkprog [mkpk 1 [] w_plain [ini [7]] false; mkpk 2 [1]%N w_sorted [ini [8]] false;
          mkpk 9 [1; 2]%N w_plain [ini [9]; fmain] true] 9.

Lemma program_inhabited :
  program_side w_program = true
  /\ y_trace w_program = Some [2; 3; 1; 7; 1; 2; 4; 5; 6; 8; 2; 3; 1; 9; 0]%N.
Proof. vm_compute. split; reflexivity. Qed.

(** look-alikes of init and main.
    p01: func (k k21) init(); func init(); func main(); func init() { ...; main() }
    p02: var main = func() {...}; func init()
    main: methods init (value and pointer receiver), main, Init; func Init; var initFn = func;
          func init() calling the methods, a local [init := func() {...}] and Init; func init() calling initFn;
          func main() with a local [main := func() {...}], calling it and the method main *)
Definition w_special : program :=
  mkprog [mkpk 1 [] (mkpkg [] [])
               [mksd DMethod NInit [21]; ini [3]; mksd DFunc NMain [22]; ini [4; 22]] false;
          mkpk 2 [] (mkpkg [] []) [mksd DVar NMain [23]; ini [5]] false;
          mkpk 9 [1; 2] (mkpkg [] [])
               [mksd DMethod NInit [11]; mksd DMethod NInit [12]; mksd DMethod NMain [13]; mksd DMethod NOther [14];
                mksd DFunc NOther [15]; mksd DVar NOther [17];
                ini [1; 11; 12; 18; 15]; mksd DLit NInit [18]; ini [2; 17];
                mksd DFunc NMain [0; 19; 13]; mksd DLit NMain [19]] true] 9.

(** the two tests of the code, each dropped in turn (the seeded changes C15-init-method-runs and
    C15-imported-main-runs): what yaegi would print on [w_special] *)
Definition y_special_no_recv_test (is_main : bool) (ds : list sdecl) : list id :=
  flat_map sd_marks (filter (fun d => match sd_kind d, sd_name d with DFunc, NInit | DMethod, NInit => true | _, _ => false end) ds)
  ++ match find y_is_main_sym ds with Some m => if is_main then sd_marks m else [] | None => [] end.

Definition y_special_no_pkg_test (is_main : bool) (ds : list sdecl) : list id :=
  flat_map sd_marks (filter y_is_init ds)
  ++ match find g_is_main ds with Some m => sd_marks m | None => [] end.

Lemma special_inhabited :
  program_side w_special = true
  /\ y_trace w_special = Some [3; 4; 22; 5; 1; 11; 12; 18; 15; 2; 17; 0; 19; 13]
  /\ g_trace w_special = Some [3; 4; 22; 5; 1; 11; 12; 18; 15; 2; 17; 0; 19; 13]
  /\ trace_along y_order y_special_no_recv_test (packages w_special) (y_pkg_order w_special)
     = Some [21; 3; 4; 22; 5; 11; 12; 1; 11; 12; 18; 15; 2; 17; 0; 19; 13]
  /\ trace_along y_order y_special_no_pkg_test (packages w_special) (y_pkg_order w_special)
     = Some [3; 4; 22; 22; 5; 1; 11; 12; 18; 15; 2; 17; 0; 19; 13].
Proof. vm_compute. repeat split. Qed.

(** var _ = lg(); var _ int = lg(); var _ = lg()   (marks 1 2 3).  Every blank on the left of a
    declaration is an occurrence of the identifier [_]; yaegi's package scope has one symbol [_],
    owned by the last such declaration, so the others depend on it: an [RX] occurrence. *)
Definition w_blanks : pkg := mkpkg [v 1 [RX 3]; v 2 [RX 3]; v 3 []] [].

Lemma refuted_blank_shared :
  y_order w_blanks = Some [3; 1; 2] /\ g_order w_blanks = Some [1; 2; 3].
Proof. vm_compute. split; reflexivity. Qed.

(** a direct cycle is rejected by both *)
Definition w_cycle : pkg := mkpkg [v 1 [RV 2]; v 2 [RV 1]; v 3 []] [].

Lemma cycle_rejected : y_order w_cycle = None /\ g_order w_cycle = None.
Proof. vm_compute. split; reflexivity. Qed.

Lemma import_inhabited :
  topo_listed [] (packages w_program) = true /\ find_pk (packages w_program) (entry w_program) <> None
  /\ y_pkg_order w_program = [1; 2; 9]%N.
Proof. vm_compute. repeat split. discriminate. Qed.

