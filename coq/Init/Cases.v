(** Evaluation of the C15 models on the cases written by the harness (correspondence check).
    A case: (id, abstract program, marks printed under yaegi, marks printed by the compiled
    program, "the generator claims the case satisfies the side condition").
    [None] = rejected before running (yaegi: variable definition loop; Go: initialization cycle).
    [c15_mis_y]: ids where model Y differs from what yaegi printed, or where the generator's claim
                 about the side condition is not confirmed by [program_side];
    [c15_mis_g]: ids where model G differs from what the compiled program printed. *)
From Coq Require Import NArith List Bool.
From Verif Require Import Init.Model.
Import ListNotations.

Definition opt_list_eqb (a b : option (list id)) : bool :=
  match a, b with
  | Some x, Some y => list_eqb x y
  | None, None => true
  | _, _ => false
  end.

Definition case := (N * program * option (list id) * option (list id) * bool)%type.

Definition c15_mis_y (cs : list case) : list N :=
  flat_map (fun c => match c with (i, g, yi, _, m) =>
    if opt_list_eqb (y_trace g) yi && implb m (program_side g) then [] else [i] end) cs.

Definition c15_mis_g (cs : list case) : list N :=
  flat_map (fun c => match c with (i, g, _, gi, _) =>
    if opt_list_eqb (g_trace g) gi then [] else [i] end) cs.

(** constructors with short names, to keep the cases files small *)
Definition IN := mkinit.
Definition FN := mkfun.
Definition PK := mkpk.
Definition BD := mkpkg.
