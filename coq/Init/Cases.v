(** Evaluation of the C15 models on the cases written by the harness (correspondence check).
    A case: (id, abstract program, marks printed under yaegi, marks printed by the compiled
    program, "the generator claims the case satisfies the side condition").
    [None] = rejected before running (yaegi: variable definition loop; Go: initialization cycle).
    [c15_mis_y]: ids where model Y differs from what yaegi printed, or where the generator's claim
                 about the side condition is not confirmed by [program_side];
    [c15_mis_g]: ids where model G differs from what the compiled program printed. *)
From Coq Require Import NArith List Bool.
From Verif Require Import Init.Model Init.Proofs.
Import ListNotations.

Definition opt_list_eqb (a b : option (list id)) : bool :=
  match a, b with
  | Some x, Some y => list_eqb x y
  | None, None => true
  | _, _ => false
  end.

Definition case := (N * program * option (list id) * option (list id) * bool)%type.

(** The witnesses of the [_refuted] / [_inhabited] theorems are the first cases of every run
    (stream "witness"): case number k must carry exactly the k-th program of this list. *)
Definition witnesses : list program :=
  [single w_direct; single w_func; single w_multi_call; single w_multi_unit; single w_false_dep;
   single w_false_loop; w_pkg_order; single w_go_multi; single w_go_noinit; single w_plain;
   single w_sorted; w_program; single w_cycle; w_special; single w_blanks].

Fixpoint leqb {A} (e : A -> A -> bool) (a b : list A) : bool :=
  match a, b with
  | [], [] => true
  | x :: a', y :: b' => e x y && leqb e a' b'
  | _, _ => false
  end.

Definition ref_eqb (a b : ref) : bool :=
  match a, b with
  | RV x, RV y | RF x, RF y | RX x, RX y => N.eqb x y
  | _, _ => false
  end.

Definition init_eqb (a b : init) : bool := N.eqb (ilog a) (ilog b) && leqb ref_eqb (irefs a) (irefs b).

Definition spec_eqb (a b : spec) : bool :=
  match a, b with
  | SNoInit x, SNoInit y => leqb N.eqb x y
  | SPair x, SPair y => leqb (fun p q => N.eqb (fst p) (fst q) && init_eqb (snd p) (snd q)) x y
  | SCall x i, SCall y j => leqb N.eqb x y && init_eqb i j
  | _, _ => false
  end.

Definition pkg_eqb (a b : pkg) : bool :=
  leqb spec_eqb (pspecs a) (pspecs b)
  && leqb (fun f g => N.eqb (fname f) (fname g) && leqb ref_eqb (frefs f) (frefs g)) (pfuncs a) (pfuncs b).

Definition sdecl_eqb (a b : sdecl) : bool :=
  match sd_kind a, sd_kind b with
  | DFunc, DFunc | DMethod, DMethod | DLit, DLit | DVar, DVar => true
  | _, _ => false
  end
  && match sd_name a, sd_name b with
     | NInit, NInit | NMain, NMain | NOther, NOther => true
     | _, _ => false
     end
  && leqb N.eqb (sd_marks a) (sd_marks b).

Definition package_eqb (a b : package) : bool :=
  N.eqb (pk_id a) (pk_id b) && leqb N.eqb (pk_imports a) (pk_imports b) && pkg_eqb (pk_body a) (pk_body b)
  && leqb sdecl_eqb (pk_decls a) (pk_decls b) && Bool.eqb (pk_main a) (pk_main b).

Definition program_eqb (a b : program) : bool :=
  leqb package_eqb (packages a) (packages b) && N.eqb (entry a) (entry b).

Definition witness_ok (i : N) (g : program) : bool :=
  match nth_error witnesses (N.to_nat i - 1) with
  | Some w => program_eqb g w
  | None => true
  end.

Definition c15_mis_y (cs : list case) : list N :=
  flat_map (fun c => match c with (i, g, yi, _, m) =>
    if opt_list_eqb (y_trace g) yi && implb m (program_side g) && witness_ok i g then [] else [i] end) cs.

Definition c15_mis_g (cs : list case) : list N :=
  flat_map (fun c => match c with (i, g, _, gi, _) =>
    if opt_list_eqb (g_trace g) gi then [] else [i] end) cs.

(** constructors with short names, to keep the cases files small *)
Definition IN := mkinit.
Definition FN := mkfun.
Definition PK := mkpk.
Definition SD := mksd.
Definition BD := mkpkg.
