(** C03 — Y: how yaegi computes constant expressions (transcription of the mechanism, defects
    included).  Sources: interp/cfg.go (post-order cases basicLit/identExpr/parenExpr/unaryExpr/
    binaryExpr/landExpr/callExpr-conversion/callExpr-len/defineStmt, fixUntyped, constDecl
    pre-order), interp/op.go (*Const functions), interp/typecheck.go (binaryExpr, shift, comparison,
    unaryExpr, conversion, assignment, convertUntyped, representable, representableConst,
    convertConst, zeroConst), interp/type.go (nodeType binaryExpr, defaultType, untyped*),
    interp/gta.go (constDecl, defineStmt), interp/ast.go (implicit repetition), interp/value.go
    (vInt/vUint/vFloat/vString, genValue), interp/run.go (convertConstantValue, lenConst).

    The AST nodes of yaegi are mutable and are visited several times: a node keeps the type and
    the value ([n.typ], [n.rval]) an earlier visit or its parent gave it.  The model therefore
    works on decorated trees ([dx]) and a *pass* ([y_pass]) maps a decorated tree to a decorated
    tree; a package-level constant declaration is visited three times (gta on the group, gta on
    the spec, cfg on the file), a constant declaration in a function twice, other expressions
    once.  The pre-order part of cfg hands the declared type, or the type the previous visit found,
    down every chain of binaryExpr / unaryExpr / parenExpr nodes ([prop], [pre_typ]); a visit that
    ends with an error leaves the nodes visited so far decorated ([y_pass] returns the tree with its
    status).  After the visits the closures of the comparisons that were not folded are generated
    ([y_genrun]), and the printed operands are converted to their default type ([y_use]).
    Outside the model ([Unm]): floating-point infinities and NaN, complex constants.
    Definitions only. *)
From Verif Require Export Const.Base.
Open Scope Z_scope.

(* ------------------------------------------------------------------ *)
(** * Outcomes of a step *)

Inductive res (A : Type) :=
| Ok (a : A)
| Err          (* cfgError: the program is rejected *)
| Pan          (* a Go panic inside the interpreter (go/constant misuse, integer division by zero, reflect) *)
| Unm.         (* outside the modelled region (infinities, platform-dependent float->int) *)
Arguments Ok {A} a.
Arguments Err {A}.
Arguments Pan {A}.
Arguments Unm {A}.

Definition bind {A B} (r : res A) (f : A -> res B) : res B :=
  match r with Ok a => f a | Err => Err | Pan => Pan | Unm => Unm end.
Notation "x <- e ;; f" := (bind e (fun x => f)) (at level 61, e at next level, right associativity).
Notation "' p <- e ;; f" := (bind e (fun p => f)) (at level 61, p pattern, e at next level, right associativity).

Definition of_opt {A} (o : option A) : res A := match o with Some a => Ok a | None => Unm end.

(* ------------------------------------------------------------------ *)
(** * go/constant values (package go/constant, exact regime) *)

Inductive cval :=
| CInt (z : Z)        (* Kind Int   (int64Val / intVal) *)
| CRat (q : Q)        (* Kind Float (ratVal) — also when the value is integral *)
| CStr (x : str)
| CBool (b : bool)
| CUnk.               (* Kind Unknown *)

Definition c_is_int (c : cval) : bool := match c with CInt _ => true | _ => false end.

(** constant.ToInt / constant.ToFloat *)
Definition c_toint (c : cval) : cval :=
  match c with
  | CInt _ => c
  | CRat q => if q_is_int q then CInt (q_num q) else CUnk
  | _ => CUnk
  end.
Definition c_tofloat (c : cval) : cval :=
  match c with
  | CInt z => CRat (qz z)
  | CRat _ => c
  | _ => CUnk
  end.

(** constant.Int64Val / Uint64Val: the value and whether it is exact.  For values that do not fit,
    math/big returns the low 64 bits of the magnitude (with the sign applied for Int64). *)
Definition int64_of (z : Z) : Z :=
  if in_range TInt64 z then z
  else let v := wrap_s 64 (Z.abs z mod 2 ^ 64) in if z <? 0 then wrap_s 64 (- v) else v.
Definition uint64_of (z : Z) : Z :=
  if in_range TInt64 z then wrap_u 64 z else Z.abs z mod 2 ^ 64.

Definition c_int64val (c : cval) : res (Z * bool) :=
  match c with
  | CInt z => Ok (int64_of z, in_range TInt64 z)
  | CUnk => Ok (0, false)
  | _ => Pan
  end.
Definition c_uint64val (c : cval) : res (Z * bool) :=
  match c with
  | CInt z => Ok (uint64_of z, in_range TUint64 z)
  | CUnk => Ok (0, false)
  | _ => Pan
  end.

(** a float32/float64 value other than the infinities and NaN: a rational, or negative zero *)
Inductive fl := FQ (q : Q) | FNZ.
Definition fl_q (f : fl) : Q := match f with FQ q => q | FNZ => qz 0 end.
Definition fl_neg (f : fl) : bool := match f with FQ q => Qnum q <? 0 | FNZ => true end.
Definition fl_is_nz (f : fl) : bool := match f with FNZ => true | _ => false end.
Definition fl_is_pz (f : fl) : bool := match f with FQ q => q_is_zero q | FNZ => false end.

(** rounding of an exact result q to the format of t; [zs]: the sign given to an exact zero;
    a non-zero q that underflows keeps its sign; overflow (infinity) is outside the model *)
Definition fl_round (t : bt) (q : Q) (zs : bool) : res fl :=
  if q_is_zero q then Ok (if zs then FNZ else FQ (qz 0))
  else
    r <- of_opt (round_t t q) ;;
    Ok (if q_is_zero r then (if Qnum q <? 0 then FNZ else FQ (qz 0)) else FQ r).

(** constant.Float64Val / Float32Val of a numeric constant *)
Definition c_floatval (t : bt) (c : cval) : res fl :=
  match c with
  | CInt z => fl_round t (qz z) false
  | CRat q => fl_round t q false
  | CUnk => Ok (FQ (qz 0))
  | _ => Pan
  end.

Definition bitlen (z : Z) : Z := if z =? 0 then 0 else Z.log2 (Z.abs z) + 1.

Inductive ctok := KAdd | KSub | KMul | KQuo | KQuoAssign | KRem | KAnd | KOr | KXor | KAndNot.

(** constant.BinaryOp (after match: an Int operand meets a Float operand as a Float) *)
Definition c_binop (x : cval) (k : ctok) (y : cval) : res cval :=
  match x, y with
  | CUnk, _ | _, CUnk => Ok CUnk
  | CInt a, CInt b =>
      match k with
      | KAdd => Ok (CInt (a + b)) | KSub => Ok (CInt (a - b)) | KMul => Ok (CInt (a * b))
      | KQuo => if b =? 0 then Pan else Ok (CRat (Qred (a # 1) / (b # 1)))
      | KQuoAssign => if b =? 0 then Pan else Ok (CInt (Z.quot a b))
      | KRem => if b =? 0 then Pan else Ok (CInt (Z.rem a b))
      | KAnd => Ok (CInt (Z.land a b)) | KOr => Ok (CInt (Z.lor a b)) | KXor => Ok (CInt (Z.lxor a b))
      | KAndNot => Ok (CInt (Z.land a (Z.lnot b)))
      end
  | CInt _, CRat _ | CRat _, CInt _ | CRat _, CRat _ =>
      match c_tofloat x, c_tofloat y with
      | CRat a, CRat b =>
          match k with
          | KAdd => Ok (CRat (q_add a b)) | KSub => Ok (CRat (q_sub a b)) | KMul => Ok (CRat (q_mul a b))
          | KQuo => if q_is_zero b then Pan else Ok (CRat (q_div a b))
          | _ => Pan
          end
      | _, _ => Pan
      end
  | CStr a, CStr b => match k with KAdd => Ok (CStr (a ++ b)) | _ => Pan end
  | _, _ => Pan
  end.

(** constant.Shift *)
Definition c_shift (x : cval) (left : bool) (n : Z) : res cval :=
  match x with
  | CUnk => Ok CUnk
  | CInt z => Ok (CInt (if left then Z.shiftl z n else Z.shiftr z n))
  | _ => Pan
  end.

(** constant.UnaryOp with precision 0 *)
Definition c_unop (o : unop) (y : cval) : res cval :=
  match o, y with
  | _, CUnk => Ok CUnk
  | UPos, CInt _ | UPos, CRat _ => Ok y
  | UNeg, CInt z => Ok (CInt (- z))
  | UNeg, CRat q => Ok (CRat (q_neg q))
  | UXor, CInt z => Ok (CInt (Z.lnot z))
  | UNot, CBool b => Ok (CBool (negb b))
  | _, _ => Pan
  end.

(** constant.Sign *)
Definition c_sign (c : cval) : res Z :=
  match c with
  | CInt z => Ok (Z.sgn z)
  | CRat q => Ok (q_sign q)
  | CUnk => Ok 1
  | _ => Pan
  end.

(* ------------------------------------------------------------------ *)
(** * yaegi's types and values of constant nodes *)

(** [itype] of a basic or untyped type: base kind + the [untyped] flag.
    untyped int = (int, true), untyped rune = (int32, true), untyped float = (float64, true). *)
Record ytyp := { yb : bt; yu : bool }.
Definition typed (t : bt) : ytyp := {| yb := t; yu := false |}.
Definition u_int := {| yb := TInt; yu := true |}.
Definition u_rune := {| yb := TInt32; yu := true |}.
Definition u_float := {| yb := TFloat64; yu := true |}.
Definition u_string := {| yb := TString; yu := true |}.
Definition u_bool := {| yb := TBool; yu := true |}.
(** [t.id() == o.id()] *)
Definition ytyp_eqb (a b : ytyp) : bool := bt_eqb (yb a) (yb b) && Bool.eqb (yu a) (yu b).

(** machine values ([reflect.Value] of a basic kind) *)
Inductive mval := MI (z : Z) | MF (f : fl) | MS (x : str) | MB (b : bool).

(** [n.rval]: a go/constant value, or a value of a Go basic type *)
Inductive yval :=
| VC (c : cval)
| VM (t : bt) (m : mval).

Definition zero_of (t : bt) : yval :=
  if is_int t then VM t (MI 0) else if is_float t then VM t (MF (FQ (qz 0)))
  else if is_string t then VM t (MS []) else VM t (MB false).

(** float64 -> int64 / uint64 as the amd64 code of the Go compiler computes it (CVTTSD2SQ yields the
    "integer indefinite" value 0x8000000000000000 out of range; uint64 goes through x - 2^63 above 2^63).
    Out-of-range conversions are only reached inside defect regions (Go rejects those constants). *)
Definition f2i64 (q : Q) : Z := let z := q_trunc q in if in_range TInt64 z then z else - 2 ^ 63.
Definition f2u64 (q : Q) : Z :=
  if q_ltb q (qz (2 ^ 63)) then wrap_u 64 (f2i64 q)
  else Z.lor (wrap_u 64 (f2i64 (q_sub q (qz (2 ^ 63))))) (2 ^ 63).

(** value.go vInt / vUint / vFloat / vString *)
Definition v_int (v : yval) : res Z :=
  match v with
  | VC c => '(i, _) <- c_int64val (c_toint c) ;; Ok i
  | VM t (MI z) => Ok (if is_signed t then z else wrap_s 64 z)
  | VM _ (MF f) => Ok (f2i64 (fl_q f))
  | VM _ _ => Ok 0
  end.
Definition v_uint (v : yval) : res Z :=
  match v with
  | VC c => '(i, _) <- c_uint64val (c_toint c) ;; Ok i
  | VM t (MI z) => Ok (if is_signed t then wrap_u 64 z else z)
  | VM _ (MF f) => Ok (f2u64 (fl_q f))
  | VM _ _ => Ok 0
  end.
Definition v_float (v : yval) : res fl :=
  match v with
  | VC c => c_floatval TFloat64 (c_tofloat c)
  | VM _ (MI z) => fl_round TFloat64 (qz z) false
  | VM _ (MF f) => Ok f
  | VM _ _ => Ok (FQ (qz 0))
  end.
Definition v_string (v : yval) : res str :=
  match v with
  | VC (CStr x) => Ok x
  | VC CUnk => Ok []
  | VC _ => Pan
  | VM _ (MS x) => Ok x
  | VM _ _ => Unm
  end.

(** reflect.Value.SetInt / SetUint / SetFloat on a value of type t *)
Definition set_int (t : bt) (z : Z) : yval := VM t (MI (wrap_to t z)).
Definition set_float (t : bt) (f : fl) : res yval :=
  match f with
  | FNZ => Ok (VM t (MF FNZ))
  | FQ q => r <- fl_round t q false ;; Ok (VM t (MF r))
  end.

(** reflect.Value.Convert between basic kinds *)
Definition string_of_int (z : Z) : str := if in_range TInt32 z then utf8 z else replacement_char.

Definition m_convert (v : yval) (t : bt) : res yval :=
  match v with
  | VC _ => Pan
  | VM tv (MI z) =>
      if is_int t then Ok (set_int t z)
      else if is_float t then (r <- fl_round TFloat64 (qz z) false ;; set_float t r)
      else if is_string t then Ok (VM t (MS (string_of_int z)))
      else Pan
  | VM tv (MF f) =>
      if is_float t then set_float t f
      else if is_signed t then Ok (set_int t (f2i64 (fl_q f)))
      else if is_unsigned t then Ok (set_int t (f2u64 (fl_q f)))
      else Pan
  | VM tv (MS x) => if is_string t then Ok (VM t (MS x)) else Pan
  | VM tv (MB b) => if is_boolean t then Ok (VM t (MB b)) else Pan
  end.

(* ------------------------------------------------------------------ *)
(** * typecheck.go: representableConst, convertConst *)

Definition y_representable (c : cval) (t : bt) : res bool :=
  if is_int t then
    let x := c_toint c in
    if negb (c_is_int x) then Ok false
    else
      '(_, ok) <- (if is_signed t then c_int64val x else c_uint64val x) ;;
      if negb ok then Ok false
      else match x with CInt z => Ok (bitlen z <=? bits t) | _ => Ok false end
  else if is_float t then
    match c_tofloat c with
    | CRat q => Ok (match round_t t q with Some _ => true | None => false end)
    | _ => Ok false
    end
  else if is_string t then Ok (match c with CStr _ => true | _ => false end)
  else Ok (match c with CBool _ => true | _ => false end).

Definition convert_const (c : cval) (t : bt) : res yval :=
  if is_boolean t then
    match c with CBool b => Ok (VM TBool (MB b)) | CUnk => Ok (VM TBool (MB false)) | _ => Pan end
  else if is_string t then
    x <- v_string (VC c) ;; Ok (VM TString (MS x))
  else if is_signed t then
    '(i, _) <- c_int64val (c_toint c) ;; Ok (set_int t i)
  else if is_unsigned t then
    '(i, _) <- c_uint64val (c_toint c) ;; Ok (set_int t i)
  else
    r <- c_floatval t (c_tofloat c) ;; Ok (VM t (MF r)).

(* ------------------------------------------------------------------ *)
(** * Decorated trees *)

Record deco := { dty : option ytyp; dva : option yval; dres : bool (* an identifier already turned into a basicLit *) }.
Definition deco0 : deco := {| dty := None; dva := None; dres := false |}.
Definition mk (t : ytyp) (v : option yval) : deco := {| dty := Some t; dva := v; dres := true |}.

Inductive leaf :=
| LInt (z : Z) | LRune (z : Z) | LFloat (q : Q) | LStr (x : str)
| LBool (b : bool) | LIota | LRef (x : N).

Inductive dx :=
| DLeaf (l : leaf) (d : deco)
| DParen (c : dx) (d : deco)
| DUn (o : unop) (c : dx) (d : deco)
| DBin (o : binop) (a b : dx) (d : deco)
| DConv (t : bt) (c : dx) (d : deco)
| DLen (c : dx) (d : deco).

Fixpoint init (e : expr) : dx :=
  match e with
  | EInt z => DLeaf (LInt z) deco0
  | ERune z => DLeaf (LRune z) deco0
  | EFloat q => DLeaf (LFloat q) deco0
  | EStr x => DLeaf (LStr x) deco0
  | EBool b => DLeaf (LBool b) deco0
  | EIota => DLeaf LIota deco0
  | ERef x => DLeaf (LRef x) deco0
  | EParen e1 => DParen (init e1) deco0
  | EUn o e1 => DUn o (init e1) deco0
  | EBin o a b => DBin o (init a) (init b) deco0
  | EConv t e1 => DConv t (init e1) deco0
  | ELen e1 => DLen (init e1) deco0
  end.

Definition deco_of (x : dx) : deco :=
  match x with
  | DLeaf _ d | DParen _ d | DUn _ _ d | DBin _ _ _ d | DConv _ _ d | DLen _ d => d
  end.
Definition with_deco (x : dx) (d : deco) : dx :=
  match x with
  | DLeaf l _ => DLeaf l d
  | DParen c _ => DParen c d
  | DUn o c _ => DUn o c d
  | DBin o a b _ => DBin o a b d
  | DConv t c _ => DConv t c d
  | DLen c _ => DLen c d
  end.
Definition set_typ (d : deco) (t : ytyp) : deco := {| dty := Some t; dva := dva d; dres := dres d |}.
Definition set_val (d : deco) (v : option yval) : deco := {| dty := dty d; dva := v; dres := dres d |}.

(** a processed node always has a type *)
Definition typ_of (x : dx) : res ytyp := match dty (deco_of x) with Some t => Ok t | None => Pan end.

(* ------------------------------------------------------------------ *)
(** * typecheck.convertUntyped (on the decoration of the node it mutates) *)

Definition convert_untyped (n : deco) (typ : ytyp) : res deco :=
  match dty n with
  | None => Ok n
  | Some nt =>
      if negb (yu nt) then Ok n
      else if yu typ then
        if is_number (yb nt) && is_number (yb typ) then
          Ok (if bt_code (yb nt) <=? bt_code (yb typ) then set_typ n typ else n)
        else if bt_eqb (yb nt) (yb typ) then Ok n else Err
      else
        match dva n with
        | Some (VC c) =>
            ok <- y_representable c (yb typ) ;;
            if ok then (v <- convert_const c (yb typ) ;; Ok {| dty := Some typ; dva := Some v; dres := dres n |})
            else Err
        | _ => Ok (set_typ n typ)
        end
  end.

(** errors of the two conversions in check.binaryExpr are discarded *)
Definition convert_untyped_quiet (n : deco) (typ : ytyp) : res deco :=
  match convert_untyped n typ with
  | Err => Ok n
  | r => r
  end.

(** itype.assignableTo restricted to basic and untyped types *)
Definition assignable (t o : ytyp) : bool :=
  ytyp_eqb t o || bt_eqb (yb t) (yb o) || (yu t && is_number (yb t) && is_number (yb o)).

(** typecheck.assignment with a non-nil, non-interface target *)
Definition y_assignment (n : deco) (typ : ytyp) : res deco :=
  match dty n with
  | None => Err
  | Some nt =>
      n' <- (if yu nt then convert_untyped n typ else Ok n) ;;
      match dty n' with
      | Some nt' => if assignable nt' typ then Ok n' else Err
      | None => Err
      end
  end.

(* ------------------------------------------------------------------ *)
(** * op.go: the *Const functions *)

Definition tok_of (o : binop) (int_quo : bool) : ctok :=
  match o with
  | BAdd => KAdd | BSub => KSub | BMul => KMul
  | BQuo => if int_quo then KQuoAssign else KQuo
  | BRem => KRem | BAnd => KAnd | BOr => KOr | BXor => KXor | _ => KAndNot
  end.

(** operands that are not both go/constant values: machine arithmetic at the kind of n.typ *)
Definition m_arith (o : binop) (t : bt) (v0 v1 : yval) : res yval :=
  (* float64 arithmetic (IEEE, round to nearest even), then SetFloat at the width of t.
     [f a b] = the exact result and the sign an exact zero gets *)
  let on_float (f : fl -> fl -> res (Q * bool)) :=
    (a <- v_float v0 ;; b <- v_float v1 ;; '(q, zs) <- f a b ;; r <- fl_round TFloat64 q zs ;; set_float t r) in
  let on_uint (f : Z -> Z -> res Z) :=
    (a <- v_uint v0 ;; b <- v_uint v1 ;; z <- f a b ;; Ok (set_int t (wrap_u 64 z))) in
  let on_int (f : Z -> Z -> res Z) :=
    (a <- v_int v0 ;; b <- v_int v1 ;; z <- f a b ;; Ok (set_int t (wrap_s 64 z))) in
  let both (f : Z -> Z -> res Z) :=
    if is_unsigned t then on_uint f else if is_signed t then on_int f else Ok (zero_of t) in
  match o with
  | BAdd =>
      if is_string t then (a <- v_string v0 ;; b <- v_string v1 ;; Ok (VM t (MS (a ++ b))))
      else if is_float t then on_float (fun a b => Ok ((fl_q a + fl_q b)%Q, fl_is_nz a && fl_is_nz b))
      else both (fun a b => Ok (a + b))
  | BSub => if is_float t then on_float (fun a b => Ok ((fl_q a - fl_q b)%Q, fl_is_nz a && fl_is_pz b)) else both (fun a b => Ok (a - b))
  | BMul => if is_float t then on_float (fun a b => Ok ((fl_q a * fl_q b)%Q, xorb (fl_neg a) (fl_neg b))) else both (fun a b => Ok (a * b))
  | BQuo =>
      if is_float t then on_float (fun a b => if q_is_zero (fl_q b) then Unm else Ok ((fl_q a / fl_q b)%Q, xorb (fl_neg a) (fl_neg b)))
      else both (fun a b => if b =? 0 then Pan else Ok (Z.quot a b))
  | BRem => both (fun a b => if b =? 0 then Pan else Ok (Z.rem a b))
  | BAnd => both (fun a b => Ok (Z.land a b))
  | BOr => both (fun a b => Ok (Z.lor a b))
  | BXor => both (fun a b => Ok (Z.lxor a b))
  | _ => both (fun a b => Ok (Z.land a (Z.lnot b)))
  end.

(** addConst ... xorConst *)
Definition fold_arith (o : binop) (nt : ytyp) (v0 v1 : yval) : res yval :=
  match v0, v1 with
  | VC c0, VC c1 =>
      match o with
      | BRem | BAnd | BOr | BXor | BAndNot =>
          c <- c_binop (c_toint c0) (tok_of o false) (c_toint c1) ;; Ok (VC c)
      | _ => c <- c_binop c0 (tok_of o (yu nt && is_int (yb nt))) c1 ;; Ok (VC c)
      end
  | _, _ => m_arith o (yb nt) v0 v1
  end.

(** shlConst / shrConst *)
Definition fold_shift (o : binop) (nt : ytyp) (v0 v1 : yval) : res yval :=
  n <- v_uint v1 ;;
  let left := match o with BShl => true | _ => false end in
  match v0 with
  | VC c0 => c <- c_shift c0 left n ;; Ok (VC c)
  | _ =>
      let t := yb nt in
      if is_unsigned t then
        (a <- v_uint v0 ;; Ok (set_int t (if 64 <=? n then 0 else wrap_u 64 (if left then Z.shiftl a n else Z.shiftr a n))))
      else if is_signed t then
        (a <- v_int v0 ;;
         Ok (set_int t (if left then (if 64 <=? n then 0 else wrap_s 64 (Z.shiftl a n))
                        else Z.shiftr a (Z.min n 63))))
      else Ok (zero_of t)
  end.

(** negConst, posConst, bitNotConst, notConst *)
Definition fold_unary (o : unop) (nt : ytyp) (v0 : yval) : res yval :=
  match v0 with
  | VC c0 => c <- c_unop o c0 ;; Ok (VC c)
  | VM tv m =>
      let t := yb nt in
      match o with
      | UNot => match m with MB b => Ok (VM t (MB (negb b))) | _ => Pan end
      | UXor =>
          if is_int t then
            match m with
            | MI z => if is_unsigned tv || is_signed tv
                      then Ok (set_int t (if is_unsigned t then 2 ^ 64 - 1 - (if is_signed tv then wrap_u 64 z else z) else Z.lnot z))
                      else Pan
            | _ => Pan
            end
          else Ok (zero_of t)
      | UNeg | UPos =>
          let sg (z : Z) := match o with UNeg => - z | _ => z end in
          if is_int t then match m with MI z => Ok (set_int t (sg z)) | _ => Pan end
          else if is_float t then
            match m with
            | MF f =>
                set_float t (match o with
                             | UNeg => match f with
                                       | FNZ => FQ (qz 0)
                                       | FQ q => if q_is_zero q then FNZ else FQ (q_neg q)
                                       end
                             | _ => f
                             end)
            | _ => Pan
            end
          else Ok (zero_of t)
      end
  end.

(* ------------------------------------------------------------------ *)
(** * cfg.go post-order cases, one function per node kind *)

Record sym := { sy_typ : ytyp; sy_val : option yval }.

Record yctx := {
  cx_iota : Z;
  cx_env : list (N * sym);
  cx_const : bool    (* inside a constant declaration (isInConstOrTypeDecl) *)
}.

Definition y_leaf (cx : yctx) (l : leaf) (d : deco) : res dx :=
  match l with
  | LInt z => Ok (DLeaf l (match dty d with Some _ => d | None => mk u_int (Some (VC (CInt z))) end))
  | LRune z => Ok (DLeaf l (match dty d with Some _ => d | None => mk u_rune (Some (VC (CInt z))) end))
  | LFloat q => Ok (DLeaf l (match dty d with Some _ => d | None => mk u_float (Some (VC (CRat (Qred q)))) end))
  | LStr x => Ok (DLeaf l (match dty d with Some _ => d | None => mk u_string (Some (VC (CStr x))) end))
  | LBool b => Ok (DLeaf l (if dres d then d else mk u_bool (Some (VM TBool (MB b)))))
  | LIota => Ok (DLeaf l (if dres d then d else mk u_int (Some (VC (CInt (cx_iota cx))))))
  | LRef x =>
      if dres d then Ok (DLeaf l d)
      else match alookup x (cx_env cx) with
           | None => Err                                         (* undefined *)
           | Some sy =>
               match sy_val sy with
               | Some v => Ok (DLeaf l (mk (sy_typ sy) (Some v)))   (* constSym with a value: becomes a basicLit *)
               | None => Ok (DLeaf l {| dty := Some (sy_typ sy); dva := None; dres := false |})
               end
           end
  end.

(** fixUntyped: every binaryExpr / parenExpr below a typed binary expression that is still untyped gets its type *)
Fixpoint fix_untyped (t : ytyp) (x : dx) : dx :=
  let fixd (d : deco) : deco :=
    match dty d with
    | Some dt => if yu dt then set_typ d t else d
    | None => d
    end in
  match x with
  | DLeaf _ _ => x
  | DParen c d => DParen (fix_untyped t c) (fixd d)
  | DUn o c d => DUn o (fix_untyped t c) d
  | DBin o a b d =>
      if is_logic o then DBin o (fix_untyped t a) (fix_untyped t b) d
      else DBin o (fix_untyped t a) (fix_untyped t b) (fixd d)
  | DConv ty c d => DConv ty (fix_untyped t c) d
  | DLen c d => DLen (fix_untyped t c) d
  end.

Definition fix_children (t : ytyp) (x : dx) : dx :=
  match x with
  | DBin o a b d => DBin o (fix_untyped t a) (fix_untyped t b) d
  | _ => x
  end.

Definition unary_pred (o : unop) (t : bt) : bool :=
  match o with UPos | UNeg => is_number t | UXor => is_int t | UNot => is_boolean t end.

Definition y_unary (o : unop) (c : dx) (d : deco) : res dx :=
  t0 <- typ_of c ;;
  if negb (unary_pred o (yb t0)) then Err
  else
    match dva (deco_of c) with
    | Some v0 => v <- fold_unary o t0 v0 ;; Ok (DUn o c {| dty := Some t0; dva := Some v; dres := false |})
    | None => Ok (DUn o c {| dty := Some t0; dva := None; dres := false |})
    end.

Definition binary_pred (o : binop) (t : bt) : bool :=
  match o with
  | BAdd => is_number t || is_string t
  | BSub | BMul | BQuo => is_number t
  | _ => is_int t
  end.

(** zeroConst *)
Definition zero_const (d : deco) : res bool :=
  match dty d with
  | None => Pan
  | Some t =>
      if negb (yu t) then Ok false
      else match dva d with
           | Some (VC c) => sg <- c_sign c ;; Ok (sg =? 0)
           | _ => Pan
           end
  end.

(** nodeType of a binaryExpr whose type is not yet known *)
Definition node_type_bin (shift : bool) (t0 t1 : ytyp) : ytyp :=
  if yu t0 && negb shift
  then (if yu t1 && is_int (yb t1) && is_float (yb t0) then t0 else t1)
  else t0.

(** typecheck.comparison on basic types *)
Definition comparison_ok (o : binop) (t0 t1 : ytyp) : bool :=
  (assignable t0 t1 || assignable t1 t0)
  && negb (Bool.eqb (yu t0) (yu t1) && negb (ytyp_eqb t0 t1))
  && match o with
     | BEq | BNe => true
     | _ => negb (is_boolean (yb t0)) && negb (is_boolean (yb t1))
     end.

Definition y_binary (o : binop) (a b : dx) (d : deco) : res dx :=
  t0 <- typ_of a ;;
  t1 <- typ_of b ;;
  let da := deco_of a in
  let db := deco_of b in
  if is_logic o then
    (* landExpr / lorExpr: no check, no folding *)
    Ok (DBin o a b {| dty := Some t0; dva := None; dres := false |})
  else if is_shift o then
    (* check.shift *)
    da1 <- (if yu t0 then
              match dva da with
              | Some (VC c) => Ok (set_val da (Some (VC (c_toint c))))
              | Some (VM _ _) => Pan
              | None => Ok da
              end
            else Ok da) ;;
    let v0int := match dva da1 with Some (VC c) => yu t0 && c_is_int c | _ => false end in
    if negb (v0int || is_int (yb t0)) then Err
    else
      db1 <- (if yu t1 then convert_untyped db (typed TUint)
              else if is_int (yb t1) then Ok db else Err) ;;
      let nt := if yu t0 then (match dty d with Some t => t | None => node_type_bin true t0 t1 end) else t0 in
      let a1 := with_deco a da1 in
      let b1 := with_deco b db1 in
      match dva da1, dva db1 with
      | Some v0, Some v1 =>
          v <- fold_shift o nt v0 v1 ;;
          let x := DBin o a1 b1 {| dty := Some nt; dva := Some v; dres := false |} in
          Ok (if yu nt then x else fix_children nt x)
      | _, _ =>
          let x := DBin o a1 b1 {| dty := Some nt; dva := None; dres := false |} in
          Ok (if yu nt then x else fix_children nt x)
      end
  else
    (* check.binaryExpr *)
    pre <- (match o with
            | BAdd =>
                match dty d with
                | Some nt =>
                    let k := is_number (yb nt) in
                    if negb (Bool.eqb k (is_number (yb t0))) || negb (Bool.eqb k (is_number (yb t1))) then Err else Ok false
                | None => Ok false
                end
            | BRem => z <- zero_const db ;; if z then Err else Ok false
            | BQuo =>
                z <- zero_const db ;;
                if z then Err
                else Ok (match dva da, dva db with Some _, Some _ => true | _, _ => false end)
            | _ => Ok false
            end) ;;
    '(da1, db1) <- (if pre then Ok (da, db)
                    else
                      da1 <- convert_untyped_quiet da t1 ;;
                      t0' <- (match dty da1 with Some t => Ok t | None => Pan end) ;;
                      db1 <- convert_untyped_quiet db t0' ;;
                      Ok (da1, db1)) ;;
    t0' <- (match dty da1 with Some t => Ok t | None => Pan end) ;;
    t1' <- (match dty db1 with Some t => Ok t | None => Pan end) ;;
    let a1 := with_deco a da1 in
    let b1 := with_deco b db1 in
    if is_cmp o then
      if pre then Pan (* unreachable: pre is only set for BQuo *)
      else if negb (comparison_ok o t0' t1') then Err
      else
        (* the result has type bool and is computed at run time; fixUntyped *)
        Ok (fix_children (typed TBool) (DBin o a1 b1 {| dty := Some (typed TBool); dva := None; dres := false |}))
    else
      ok <- (if pre then Ok true
             else if negb (ytyp_eqb t0' t1') then Err
             else if negb (binary_pred o (yb t0')) then Err else Ok true) ;;
      let nt :=
        match o with
        | BRem => t0'
        | _ => match dty d with Some t => t | None => node_type_bin false t0' t1' end
        end in
      match dva da1, dva db1 with
      | Some v0, Some v1 =>
          v <- fold_arith o nt v0 v1 ;;
          let x := DBin o a1 b1 {| dty := Some nt; dva := Some v; dres := false |} in
          Ok (if yu nt then x else fix_children nt x)
      | _, _ =>
          let x := DBin o a1 b1 {| dty := Some nt; dva := None; dres := false |} in
          Ok (if yu nt then x else fix_children nt x)
      end.

(** reflect's ConvertibleTo between basic kinds *)
Definition convertible (s t : bt) : bool :=
  (is_number s && is_number t) || (is_int s && is_string t) || (is_string s && is_string t)
  || (is_boolean s && is_boolean t).

(** callExpr on a type: check.conversion, then the aConvert case of cfg *)
Definition y_conv (t : bt) (c : dx) : res dx :=
  t1 <- typ_of c ;;
  let dc := deco_of c in
  let cst := match dva dc with Some (VC k) => Some k | _ => None end in
  dc1 <- (match cst with
          | Some k =>
              ok <- y_representable k t ;;
              if ok then Ok dc
              else if is_int (yb t1) && is_string t then
                '(i, ok64) <- c_int64val k ;;
                let cp := if ok64 then i else -1 in
                Ok (set_val dc (Some (VC (CStr (utf8 (wrap_s 32 cp))))))
              else Err
          | None => if assignable t1 (typed t) || convertible (yb t1) t then Ok dc else Err
          end) ;;
  dc2 <- (match cst with
          | Some _ => if yu t1 then convert_untyped dc1 (typed t) else Ok dc1
          | None => Ok dc1
          end) ;;
  let c2 := with_deco c dc2 in
  match dva dc2 with
  | Some (VC k) =>
      '(i, _) <- c_int64val (c_toint k) ;;
      v <- m_convert (VM TInt64 (MI i)) t ;;
      Ok (DConv t c2 {| dty := Some (typed t); dva := Some v; dres := false |})
  | Some v1 =>
      v <- m_convert v1 t ;;
      Ok (DConv t c2 {| dty := Some (typed t); dva := Some v; dres := false |})
  | None => Ok (DConv t c2 {| dty := Some (typed t); dva := None; dres := false |})
  end.

(** len(x) inside a constant declaration: lenConst *)
Definition y_len (cx : yctx) (c : dx) : res dx :=
  t1 <- typ_of c ;;
  if negb (is_string (yb t1)) then Err
  else if negb (cx_const cx) then Unm      (* evaluated at run time; not generated *)
  else match dva (deco_of c) with
       | Some v => x <- v_string v ;; Ok (DLen c {| dty := Some (typed TInt); dva := Some (VM TInt (MI (zlen x))); dres := false |})
       | None => Pan
       end.

(** The pre-order part of cfg: a binaryExpr / unaryExpr / parenExpr whose action is not boolean takes
    the type of the declared destination (when its parent is the declaration and that type is known)
    or the current type of its parent (when the parent is itself a binaryExpr / unaryExpr /
    parenExpr) — even when that type is nil.  Other nodes keep what an earlier visit left. *)
Inductive prop :=
| PKeep                        (* parent of another kind *)
| PSet (t : option ytyp)       (* parent is a binaryExpr / unaryExpr / parenExpr with current type t *)
| PDest (t : option ytyp).     (* parent is the declaration; t = dest.typ *)

Definition pre_typ (pr : prop) (boolact : bool) (d : deco) : option ytyp :=
  if boolact then dty d
  else match pr with
       | PKeep => dty d
       | PSet t => t
       | PDest (Some t) => Some t
       | PDest None => dty d
       end.

Definition is_not (o : unop) : bool := match o with UNot => true | _ => false end.

(** A visit returns the tree as the visit left it and how it ended: when a node reports an error
    the walk stops, the nodes visited so far keep what they got (identifiers already resolved,
    iota included, stay resolved), the others are untouched. *)
Definition fin (r : res dx) (fallback : dx) : dx * res unit :=
  match r with
  | Ok x => (x, Ok tt)
  | Err => (fallback, Err)
  | Pan => (fallback, Pan)
  | Unm => (fallback, Unm)
  end.

Fixpoint y_pass (cx : yctx) (pr : prop) (x : dx) {struct x} : dx * res unit :=
  match x with
  | DLeaf l d => fin (y_leaf cx l d) x
  | DParen c d =>
      let t := pre_typ pr false d in
      let '(c', st) := y_pass cx (PSet t) c in
      match st with
      | Ok _ => (DParen c' {| dty := dty (deco_of c'); dva := dva (deco_of c'); dres := false |}, Ok tt)
      | e => (DParen c' {| dty := t; dva := dva d; dres := dres d |}, e)
      end
  | DUn o c d =>
      let t := pre_typ pr (is_not o) d in
      let d1 := {| dty := t; dva := dva d; dres := dres d |} in
      let '(c', st) := y_pass cx (PSet t) c in
      match st with
      | Ok _ => fin (y_unary o c' d1) (DUn o c' d1)
      | e => (DUn o c' d1, e)
      end
  | DBin o a b d =>
      let t := if is_logic o then dty d else pre_typ pr (is_cmp o) d in
      let pc := if is_logic o then PKeep else PSet t in
      let d1 := {| dty := t; dva := dva d; dres := dres d |} in
      let '(a', sa) := y_pass cx pc a in
      match sa with
      | Ok _ =>
          let '(b', sb) := y_pass cx pc b in
          match sb with
          | Ok _ => fin (y_binary o a' b' d1) (DBin o a' b' d1)
          | e => (DBin o a' b' d1, e)
          end
      | e => (DBin o a' b d1, e)
      end
  | DConv t c d =>
      let '(c', st) := y_pass cx PKeep c in
      match st with
      | Ok _ => fin (y_conv t c') (DConv t c' d)
      | e => (DConv t c' d, e)
      end
  | DLen c d =>
      let '(c', st) := y_pass cx PKeep c in
      match st with
      | Ok _ => fin (y_len cx c') (DLen c' d)
      | e => (DLen c' d, e)
      end
  end.

(* ------------------------------------------------------------------ *)
(** * Use of a constant operand: fmt.Printf("%T|%v", x, x) *)

(** itype.defaultType *)
Definition default_of (t : ytyp) (v : option yval) : ytyp :=
  if negb (yu t) then t
  else
    match v with
    | Some (VC (CStr _)) => typed TString
    | Some (VC (CBool _)) => typed TBool
    | Some (VC (CInt _)) => if bt_eqb (yb t) TInt32 then typed TInt32 else typed TInt
    | Some (VC (CRat _)) => typed TFloat64
    | _ => typed (yb t)
    end.

Definition oval_of_m (m : mval) : oval :=
  match m with MI z => OI z | MF (FQ q) => OF q | MF FNZ => ONZ | MS x => OS x | MB b => OB b end.

(** run.go convertConstantValue: a go/constant value becomes a Go value by its *kind*, then is
    converted (reflect) to the type of the node *)
Definition const_to_machine (t : bt) (c : cval) : res yval :=
  v0 <- (match c with
         | CBool b => Ok (VM TBool (MB b))
         | CStr x => Ok (VM TString (MS x))
         | CInt z => '(i, ok) <- c_int64val c ;; if ok then Ok (VM TInt (MI i)) else Err   (* "constant overflows int64" *)
         | CRat q => r <- c_floatval TFloat64 c ;; Ok (VM TFloat64 (MF r))
         | CUnk => Err         (* Convert on the zero reflect.Value: nil dereference, recovered by Execute *)
         end) ;;
  match m_convert v0 t with
  | Pan => Err            (* the reflect panic is recovered by Execute and returned as an error *)
  | r => r
  end.

(** check.assignment to interface{} + genValue *)
Definition y_use (t : ytyp) (v : option yval) : res (bt * oval) :=
  d <- (if yu t then convert_untyped {| dty := Some t; dva := v; dres := true |} (default_of t v)
        else Ok {| dty := Some t; dva := v; dres := true |}) ;;
  t' <- (match dty d with Some t' => Ok t' | None => Pan end) ;;
  match dva d with
  | None => match zero_of (yb t') with VM _ m => Ok (yb t', oval_of_m m) | _ => Pan end   (* a frame slot never written *)
  | Some (VM tv m) => Ok (tv, oval_of_m m)
  | Some (VC c) =>
      r <- const_to_machine (yb t') c ;;
      match r with VM tv m => Ok (tv, oval_of_m m) | _ => Pan end
  end.

(** genRun: the closures of the comparisons that were not folded are generated although they never
    run (op.go equal ... lowerEqual).  With a constant left operand the generator reads it with
    vString / vFloat / vUint / vInt and builds the right operand with genValue, which converts a
    go/constant operand to the type of its node (convertConstantValue); a panic there is recovered
    by Execute and returned as an error. *)
Definition recovered {A} (r : res A) : res unit :=
  match r with Ok _ => Ok tt | Err => Err | Pan => Err | Unm => Unm end.

Definition gen_operand (x : dx) : res unit :=
  match dty (deco_of x), dva (deco_of x) with
  | Some t, Some (VC c) => recovered (const_to_machine (yb t) c)
  | _, _ => Ok tt
  end.

Definition gen_cmp (o : binop) (a b : dx) : res unit :=
  match dty (deco_of a), dty (deco_of b) with
  | Some t0, Some t1 =>
      let cls_string := is_string (yb t0) || is_string (yb t1) in
      let cls_num := is_number (yb t0) || is_number (yb t1) in
      if cls_string || cls_num then
        match dva (deco_of a), dva (deco_of b) with
        | Some v0, _ => _ <- (if cls_string then recovered (v_string v0) else Ok tt) ;; gen_operand b
        | None, Some v1 => if cls_string then recovered (v_string v1) else Ok tt
        | None, None => Ok tt
        end
      else
        match o with
        | BEq | BNe => _ <- gen_operand a ;; gen_operand b
        | _ => Ok tt
        end
  | _, _ => Ok tt
  end.

Fixpoint y_genrun (x : dx) : res unit :=
  match x with
  | DLeaf _ _ => Ok tt
  | DParen c _ | DUn _ c _ | DConv _ c _ | DLen c _ => y_genrun c
  | DBin o a b _ =>
      _ <- y_genrun a ;; _ <- y_genrun b ;;
      if is_cmp o then gen_cmp o a b else Ok tt
  end.

Fixpoint y_genrun_list (l : list dx) : res unit :=
  match l with
  | [] => Ok tt
  | x :: r => _ <- y_genrun x ;; y_genrun_list r
  end.

(* ------------------------------------------------------------------ *)
(** * Declarations *)

(** var v [T] = e in a function: the defineStmt case of cfg, one visit.
    Returns the decorated source and the symbol (type, value) it defines. *)
Definition y_define_var (cx : yctx) (aty : option bt) (src : dx) : res (dx * sym) :=
  let '(src1, st1) := y_pass cx (PDest (option_map typed aty)) src in
  _ <- st1 ;;
  st <- typ_of src1 ;;
  let dest0 := match aty with Some t => typed t | None => st end in
  let dest := default_of dest0 (dva (deco_of src1)) in
  d <- y_assignment (deco_of src1) dest ;;
  Ok (with_deco src1 d, {| sy_typ := dest; sy_val := dva d |}).

(** a spec being processed: names, declared type, and per name the decorated source and the
    type the destination identifier got from the previous visit *)
Record dspec := { ds_names : list N; ds_type : option bt; ds_srcs : list dx; ds_dest : list (option ytyp) }.

(** ast.go: a ConstSpec without expressions duplicates the type and the *last* expression of the
    preceding spec (one expression only, whatever the number of names) *)
Fixpoint desugar (prev : option (option bt * list expr)) (g : group) : list dspec :=
  match g with
  | [] => []
  | sp :: g' =>
      let '(ty, es) :=
        match sp_exprs sp with
        | [] => match prev with
                | Some (pty, pes) => (pty, match last_opt pes with Some e => [e] | None => [] end)
                | None => (sp_type sp, [])
                end
        | es => (sp_type sp, es)
        end in
      {| ds_names := sp_names sp; ds_type := ty; ds_srcs := map init es; ds_dest := map (fun _ => None) es |} :: desugar (Some (ty, es)) g'
  end.

Definition env_set (env : list (N * sym)) (x : N) (sy : sym) : list (N * sym) :=
  if (x =? 0)%N then env else (x, sy) :: env.

(** the sources of all pairs are visited before the defineStmt node itself: with several names the
    expressions all see the iota value at the start of the spec *)
Fixpoint y_spec_srcs (cx : yctx) (aty : option bt) (srcs : list dx) (dests : list (option ytyp)) : list dx * res unit :=
  match srcs, dests with
  | [], _ => ([], Ok tt)
  | s :: r, dt :: dr =>
      let '(s', st) := y_pass cx (PDest (match aty with Some t => Some (typed t) | None => dt end)) s in
      match st with
      | Ok _ => let '(r', sr) := y_spec_srcs cx aty r dr in (s' :: r', sr)
      | e => (s' :: r, e)
      end
  | _ :: _, [] => (srcs, Err)
  end.

Fixpoint y_spec_assign (env : list (N * sym)) (aty : option bt) (names : list N) (srcs : list dx)
  : res (list (N * sym) * list dx * list (option ytyp)) :=
  match names, srcs with
  | [], [] => Ok (env, [], [])
  | x :: names', src :: srcs' =>
      st <- typ_of src ;;
      let dest := match aty with Some t => typed t | None => st end in
      d <- y_assignment (deco_of src) dest ;;
      let sy := {| sy_typ := dest; sy_val := dva d |} in
      '(env', rs, ds) <- y_spec_assign (env_set env x sy) aty names' srcs' ;;
      Ok (env', with_deco src d :: rs, Some dest :: ds)
  | _, _ => Err
  end.

(** one visit of a spec by cfg.  [last]: the spec is the last child of its constDecl.  scope.iota is
    advanced once per name after the sources were computed, and reset to 0 after the last spec; a
    visit that fails leaves it unchanged.  Returns the spec as the visit left it. *)
Definition y_spec_visit (env : list (N * sym)) (iota : Z) (last : bool) (sp : dspec)
  : dspec * res (list (N * sym) * Z) :=
  let n := Z.of_nat (length (ds_names sp)) in
  if negb (Nat.eqb (length (ds_names sp)) (length (ds_srcs sp))) then (sp, Err)
  else
    let '(srcs1, st) := y_spec_srcs {| cx_iota := iota; cx_env := env; cx_const := true |} (ds_type sp) (ds_srcs sp) (ds_dest sp) in
    let sp1 := {| ds_names := ds_names sp; ds_type := ds_type sp; ds_srcs := srcs1; ds_dest := ds_dest sp |} in
    match st with
    | Ok _ =>
        match y_spec_assign env (ds_type sp) (ds_names sp) srcs1 with
        | Ok (env', srcs2, dests) =>
            ({| ds_names := ds_names sp; ds_type := ds_type sp; ds_srcs := srcs2; ds_dest := dests |},
             Ok (env', if last then 0 else iota + n))
        | Err => (sp1, Err)
        | Pan => (sp1, Pan)
        | Unm => (sp1, Unm)
        end
    | Err => (sp1, Err)
    | Pan => (sp1, Pan)
    | Unm => (sp1, Unm)
    end.

Definition is_last {A} (l : list A) : bool := match l with [] => true | _ => false end.

(** cfg walking a whole group: the walk stops at the first error *)
Fixpoint y_group_visit (env : list (N * sym)) (iota : Z) (g : list dspec) : res (list (N * sym) * Z * list dspec) :=
  match g with
  | [] => Ok (env, iota, [])
  | sp :: g' =>
      let '(sp1, r) := y_spec_visit env iota (is_last g') sp in
      '(env1, iota1) <- r ;;
      '(env2, iota2, g2) <- y_group_visit env1 iota1 g' ;;
      Ok (env2, iota2, sp1 :: g2)
  end.

(** the same walk when its error is discarded by the caller (gta on a constDecl): the specs from the
    failing one are not visited *)
Fixpoint y_group_try (env : list (N * sym)) (iota : Z) (g : list dspec) : res (list (N * sym) * Z * list dspec) :=
  match g with
  | [] => Ok (env, iota, [])
  | sp :: g' =>
      let '(sp1, r) := y_spec_visit env iota (is_last g') sp in
      match r with
      | Ok (env1, iota1) =>
          '(env2, iota2, g2) <- y_group_try env1 iota1 g' ;;
          Ok (env2, iota2, sp1 :: g2)
      | Err => Ok (env, iota, sp1 :: g')
      | Pan => Pan
      | Unm => Unm
      end
  end.

(** gta.go, defineStmt under a constDecl: second visit of the spec, then the symbol is replaced:
    its value is the one read *before* this visit when the spec has an explicit type *)
Fixpoint gta_syms (env : list (N * sym)) (aty : option bt) (names : list N) (before after : list dx) : res (list (N * sym)) :=
  match names, before, after with
  | [], [], [] => Ok env
  | x :: names', b :: before', a :: after' =>
      ta <- typ_of a ;;
      let sy := match aty with
                | Some t => {| sy_typ := typed t; sy_val := dva (deco_of b) |}
                | None => {| sy_typ := ta; sy_val := dva (deco_of a) |}
                end in
      gta_syms (env_set env x sy) aty names' before' after'
  | _, _, _ => Err
  end.

(** gta walking the specs of the group: a spec whose visit fails is put on the revisit list and the
    walk goes on with the next spec ([failed] records that the list is not empty) *)
Fixpoint y_group_gta (env : list (N * sym)) (iota : Z) (failed : bool) (g : list dspec)
  : res (list (N * sym) * Z * bool * list dspec) :=
  match g with
  | [] => Ok (env, iota, failed, [])
  | sp :: g' =>
      let last := is_last g' in
      let '(sp1, r) := y_spec_visit env iota last sp in
      match r with
      | Ok (env1, iota1) =>
          env2 <- gta_syms env1 (ds_type sp) (ds_names sp) (ds_srcs sp) (ds_srcs sp1) ;;
          let iota2 := if last then 0 else iota1 + Z.of_nat (length (ds_names sp)) in
          '(env3, iota3, f3, g3) <- y_group_gta env2 iota2 failed g' ;;
          Ok (env3, iota3, f3, sp1 :: g3)
      | Err =>
          '(env3, iota3, f3, g3) <- y_group_gta env iota true g' ;;
          Ok (env3, iota3, f3, sp1 :: g3)
      | Pan => Pan
      | Unm => Unm
      end
  end.

(** package level: gta visits each group twice (cfg on the whole constDecl with its error
    discarded, then spec by spec), in source order.  When the revisit list is not empty at the end
    the visits are retried and fail again: "constant definition loop". *)
Fixpoint y_global_gta (env : list (N * sym)) (iota : Z) (failed : bool) (gs : list (list dspec))
  : res (list (N * sym) * bool * list (list dspec)) :=
  match gs with
  | [] => Ok (env, failed, [])
  | g :: gs' =>
      '(env1, iota1, g1) <- y_group_try env iota g ;;
      '(env2, iota2, f2, g2) <- y_group_gta env1 iota1 failed g1 ;;
      '(env3, f3, gs3) <- y_global_gta env2 iota2 f2 gs' ;;
      Ok (env3, f3, g2 :: gs3)
  end.

(** then cfg visits every group once more *)
Fixpoint y_global_cfg (env : list (N * sym)) (gs : list (list dspec)) : res (list (N * sym) * list (list dspec)) :=
  match gs with
  | [] => Ok (env, [])
  | g :: gs' =>
      '(env1, _, g1) <- y_group_visit env 0 g ;;
      '(env2, gs2) <- y_global_cfg env1 gs' ;;
      Ok (env2, g1 :: gs2)
  end.

Definition y_global (gs : list (list dspec)) : res (list (N * sym) * list (list dspec)) :=
  '(env1, failed, gs1) <- y_global_gta [] 0 false gs ;;
  if failed : bool then Err else y_global_cfg env1 gs1.

(** in a function: the pre-order of the constDecl runs cfg on every spec and discards the errors *)
Fixpoint y_local_pre (env : list (N * sym)) (iota : Z) (g : list dspec) : res (list (N * sym) * Z * list dspec) :=
  match g with
  | [] => Ok (env, iota, [])
  | sp :: g' =>
      let '(sp1, r) := y_spec_visit env iota (is_last g') sp in
      match r with
      | Ok (env1, iota1) =>
          '(env2, iota2, g2) <- y_local_pre env1 iota1 g' ;;
          Ok (env2, iota2, sp1 :: g2)
      | Err =>
          '(env2, iota2, g2) <- y_local_pre env iota g' ;;
          Ok (env2, iota2, sp1 :: g2)
      | Pan => Pan
      | Unm => Unm
      end
  end.

(** ... then the walk visits the specs *)
Fixpoint y_local (env : list (N * sym)) (iota : Z) (gs : list (list dspec)) : res (list (N * sym) * list (list dspec)) :=
  match gs with
  | [] => Ok (env, [])
  | g :: gs' =>
      '(env1, iota1, g1) <- y_local_pre env iota g ;;
      '(env2, iota2, g2) <- y_group_visit env1 iota1 g1 ;;
      '(env3, gs3) <- y_local env2 iota2 gs' ;;
      Ok (env3, g2 :: gs3)
  end.

Definition all_srcs (gs : list (list dspec)) : list dx := flat_map (flat_map ds_srcs) gs.

Fixpoint y_show (env : list (N * sym)) (names : list N) : res (list (bt * oval)) :=
  match names with
  | [] => Ok []
  | x :: r =>
      match alookup x env with
      | None => Err
      | Some sy => o <- y_use (sy_typ sy) (sy_val sy) ;; l <- y_show env r ;; Ok (o :: l)
      end
  end.

Definition to_outcome (r : res (list (bt * oval))) : outcome :=
  match r with Ok l => Printed l | Err => Rejected | Pan => HostPanic | Unm => Unmodelled end.

Definition y_run (p : program) : outcome :=
  match p with
  | PConst global gs shown =>
      let dgs := map (desugar None) gs in
      to_outcome
        ('(env, fin) <- (if global then y_global dgs else y_local [] 0 dgs) ;;
         _ <- y_genrun_list (all_srcs fin) ;;
         y_show env shown)
  | PVar ty e =>
      (* var v [T] = e in a function: one visit; the variable then holds the converted value *)
      to_outcome
        ('(src, sy) <- y_define_var {| cx_iota := 0; cx_env := []; cx_const := false |} ty (init e) ;;
         t <- typ_of src ;;
         match sy_val sy with
         | None => Unm                                (* computed at run time *)
         | Some v =>
             (* genDestValue: convertLiteralValue to the type of the variable *)
             '(_, o) <- y_use t (Some v) ;;
             Ok [(yb (sy_typ sy), o)]
         end)
  | PExpr e =>
      to_outcome
        (let '(x, st) := y_pass {| cx_iota := 0; cx_env := []; cx_const := false |} PKeep (init e) in
         _ <- st ;;
         t <- typ_of x ;;
         match dva (deco_of x) with
         | None => Unm                                (* computed at run time: not a folded constant *)
         | Some v => o <- y_use t (Some v) ;; Ok [o]
         end)
  end.
