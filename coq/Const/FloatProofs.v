(** C03 — the enlarged untyped fragment: integer, rune, FLOATING-POINT, string and boolean constants.
    Floating-point constants are exact rationals (go/constant ratVal in its exact regime); mixed
    operands take the larger kind (int < rune < float); the quotient truncates only when both
    operands are of an integer kind; %, &, |, ^, &^ and unary ^ on a floating-point kind are rejected.
    Left out (yaegi deviates there, see the [_refuted] witnesses): a floating-point left operand of a
    shift (region float-shift), the quotient of a rune by an integer (quo-no-unify), comparisons,
    && and || (const-compare). *)
From Verif Require Import Const.Model Const.Proofs.
Open Scope Z_scope.

Definition numk (k : ukind) : bool := match k with UInt | URune | UFloat => true | _ => false end.

(** [frf e = Some k]: e belongs to the enlarged fragment and has kind k (when it is accepted). *)
Fixpoint frf (e : expr) : option ukind :=
  match e with
  | EInt _ | EIota => Some UInt
  | ERune _ => Some URune
  | EFloat _ => Some UFloat
  | EStr _ => Some UString
  | EBool _ => Some UBool
  | EParen a => frf a
  | EUn UNot a => match frf a with Some UBool => Some UBool | _ => None end
  | EUn _ a => match frf a with
               | Some UInt => Some UInt | Some URune => Some URune | Some UFloat => Some UFloat
               | _ => None
               end
  | EBin o a b =>
      match frf a, frf b with
      | Some ka, Some kb =>
          if intk ka && intk kb then
            match o with
            | BAdd | BSub | BMul | BRem | BAnd | BOr | BXor | BAndNot => Some (umax ka kb)
            | BQuo => if urank ka <=? urank kb then Some kb else None
            | BShl | BShr => Some ka
            | _ => None
            end
          else if numk ka && numk kb then
            match o with
            | BAdd | BSub | BMul | BQuo => Some UFloat
            | BRem | BAnd | BOr | BXor | BAndNot => Some UFloat      (* rejected by both *)
            | _ => None
            end
          else match o, ka, kb with BAdd, UString, UString => Some UString | _, _, _ => None end
      | _, _ => None
      end
  | _ => None
  end.

(** the enlarged fragment contains the old one, with the same kinds *)
Lemma frf_extends e : forall k, fr e = Some k -> frf e = Some k.
Proof.
  induction e as [z|z|q|x|b| |n|a IHa|o a IHa|o a IHa b IHb|t a IHa|a IHa]; intros k Hk; cbn [fr] in Hk; try discriminate;
    cbn [frf]; try assumption.
  - auto.
  - destruct (fr a) as [ka|]; [|destruct o; discriminate]. rewrite (IHa ka eq_refl).
    destruct o, ka; try discriminate; assumption.
  - destruct (fr a) as [ka|]; [|discriminate]. destruct (fr b) as [kb|]; [|discriminate].
    rewrite (IHa ka eq_refl), (IHb kb eq_refl).
    destruct (intk ka && intk kb) eqn:E; [assumption|].
    destruct o, ka, kb; try discriminate; assumption.
Qed.

(** the rational a numeric constant denotes *)
Definition cq (v : gval) : Q := match v with GI z => qz z | GQ q => q | _ => qz 0 end.

Definition fop (o : binop) : bool :=
  match o with BAdd | BSub | BMul | BQuo | BRem | BAnd | BOr | BXor | BAndNot => true | _ => false end.

Definition d_fresh : deco := {| dty := None; dva := dva deco0; dres := dres deco0 |}.

Local Ltac done_ok := eexists; (split; [reflexivity|]); split; reflexivity.

(** binaryExpr on two numeric constants at least one of which is of floating-point kind, first visit *)
Lemma binary_float_agree o a b ka kb va vb :
  numk ka = true -> numk kb = true -> intk ka && intk kb = false ->
  wf_untyped ka va -> wf_untyped kb vb ->
  root_is a (y_typ_of ka) (y_val_of va) -> root_is b (y_typ_of kb) (y_val_of vb) ->
  fop o = true ->
  match g_binary o (GU ka, va) (GU kb, vb) with
  | Some (gk, v) => gk = GU UFloat /\ wf_untyped UFloat v
                    /\ exists x, y_binary o a b d_fresh = Ok x /\ root_is x u_float (y_val_of v)
  | None => y_binary o a b d_fresh = Err
  end.
Proof.
  intros Hka Hkb Hmix Hwa Hwb [Ha1 Ha2] [Hb1 Hb2] Ho.
  unfold y_binary, typ_of. rewrite Ha1, Hb1. cbn [bind].
  destruct (deco_of a) as [ta xa ra] eqn:Ea. destruct (deco_of b) as [tb xb rb] eqn:Eb.
  cbn [dty dva] in *. subst ta xa tb xb.
  destruct ka, kb; try discriminate; destruct va; try contradiction; destruct vb; try contradiction;
    destruct o; try discriminate Ho;
    cbn -[q_add q_sub q_mul q_div q_is_zero q_sign Z.sgn Z.eqb];
    try (repeat split; done_ok); try reflexivity.
  (* the quotients and remainders: the divisor is tested for zero *)
  all: unfold q_sign, q_is_zero, qz; cbn [Qnum]; rewrite ?sgn_eqb0;
    match goal with |- context [?n =? 0] => destruct (n =? 0) eqn:Ez end;
    cbn -[q_add q_sub q_mul q_div Z.eqb]; unfold q_is_zero, qz; cbn [Qnum]; rewrite ?Ez;
    try reflexivity; try (repeat split; done_ok).
Qed.

Lemma unary_float_agree o c q :
  o <> UNot -> root_is c u_float (VC (CRat q)) ->
  match g_unary o (GU UFloat, GQ q) with
  | Some (gk, v) => gk = GU UFloat /\ wf_untyped UFloat v
                    /\ exists x, y_unary o c d_fresh = Ok x /\ root_is x u_float (y_val_of v)
  | None => y_unary o c d_fresh = Err
  end.
Proof.
  intros Ho [H1 H2]. unfold y_unary, typ_of. rewrite H1. cbn [bind]. rewrite H2.
  destruct o; try congruence; cbn -[q_neg]; try reflexivity; repeat split; done_ok.
Qed.

(** ** one visit of the fresh tree *)
Lemma fresh_pass_f e : forall k, frf e = Some k ->
  forall cx pr, pr_none pr ->
  match g_eval [] (cx_iota cx) e with
  | Some (gk, v) =>
      gk = GU k /\ wf_untyped k v /\
      exists x, y_pass cx pr (init e) = (x, Ok tt) /\ root_is x (y_typ_of k) (y_val_of v)
  | None => exists x, y_pass cx pr (init e) = (x, Err)
  end.
Proof.
  induction e as [z|z|q|x|b| |n|a IHa|o a IHa|o a IHa b IHb|t a IHa|a IHa]; intros k Hk cx pr Hpr;
    cbn [frf] in Hk; try discriminate.
  - (* EInt *) injection Hk as <-. cbn. repeat split. eexists; split; [reflexivity|split; reflexivity].
  - (* ERune *) injection Hk as <-. cbn. repeat split. eexists; split; [reflexivity|split; reflexivity].
  - (* EFloat *) injection Hk as <-. cbn -[Qred]. repeat split. eexists; split; [reflexivity|split; reflexivity].
  - (* EStr *) injection Hk as <-. cbn. repeat split. eexists; split; [reflexivity|split; reflexivity].
  - (* EBool *) injection Hk as <-. cbn. repeat split. eexists; split; [reflexivity|split; reflexivity].
  - (* EIota *) injection Hk as <-. cbn. repeat split. eexists; split; [reflexivity|split; reflexivity].
  - (* EParen *)
    cbn [init y_pass g_eval]. rewrite pre_typ_none by assumption.
    specialize (IHa k Hk cx (PSet None) I).
    destruct (g_eval [] (cx_iota cx) a) as [[gk v]|].
    + destruct IHa as (-> & Hwf & x & Hx & Ht & Hv). repeat split; [assumption|].
      rewrite Hx. eexists; split; [reflexivity|]. split; cbn; assumption.
    + destruct IHa as (x & Hx). rewrite Hx. eexists; reflexivity.
  - (* EUn *)
    cbn [init y_pass g_eval]. rewrite pre_typ_none by assumption.
    destruct (frf a) as [ka|] eqn:Hfa; [|destruct o; discriminate].
    specialize (IHa ka eq_refl cx (PSet None) I).
    destruct (g_eval [] (cx_iota cx) a) as [[gk v]|].
    2:{ destruct IHa as (x & Hx). rewrite Hx. eexists; reflexivity. }
    destruct IHa as (-> & Hwf & x & Hx & Hroot). rewrite Hx. cbn [fin].
    fold d_fresh.
    destruct (ukind_eqb ka UFloat) eqn:Hfl.
    + (* floating-point operand *)
      assert (ka = UFloat) as -> by (destruct ka; try discriminate; reflexivity).
      assert (Hno : o <> UNot) by (intros ->; discriminate).
      assert (k = UFloat) as -> by (destruct o; try congruence; injection Hk as <-; reflexivity).
      destruct v as [z|q|s0|b0]; try contradiction. cbn [y_val_of] in Hroot.
      pose proof (unary_float_agree o x q Hno Hroot) as H.
      destruct (g_unary o (GU UFloat, GQ q)) as [[gk v']|].
      * destruct H as (-> & Hw & x' & Hy & Hr). rewrite Hy. repeat split; [assumption|].
        eexists; (split; [reflexivity|exact Hr]).
      * rewrite H. eexists; reflexivity.
    + destruct o.
      * (* UPos *) assert (Hik : intk ka = true /\ k = ka) by (destruct ka; try discriminate; injection Hk as <-; auto).
        destruct Hik as [Hik ->]. destruct (wf_int ka v Hik Hwf) as [z ->].
        destruct (y_unary_int UPos x d_fresh ka z Hik ltac:(discriminate) Hroot) as (x' & Hy & Hr).
        rewrite Hy. destruct ka; try discriminate; cbn; repeat split; eexists; (split; [reflexivity|exact Hr]).
      * (* UNeg *) assert (Hik : intk ka = true /\ k = ka) by (destruct ka; try discriminate; injection Hk as <-; auto).
        destruct Hik as [Hik ->]. destruct (wf_int ka v Hik Hwf) as [z ->].
        destruct (y_unary_int UNeg x d_fresh ka z Hik ltac:(discriminate) Hroot) as (x' & Hy & Hr).
        rewrite Hy. destruct ka; try discriminate; cbn; repeat split; eexists; (split; [reflexivity|exact Hr]).
      * (* UXor *) assert (Hik : intk ka = true /\ k = ka) by (destruct ka; try discriminate; injection Hk as <-; auto).
        destruct Hik as [Hik ->]. destruct (wf_int ka v Hik Hwf) as [z ->].
        destruct (y_unary_int UXor x d_fresh ka z Hik ltac:(discriminate) Hroot) as (x' & Hy & Hr).
        rewrite Hy. destruct ka; try discriminate; cbn; repeat split; eexists; (split; [reflexivity|exact Hr]).
      * (* UNot *) destruct ka; try discriminate. injection Hk as <-.
        destruct (wf_bool v Hwf) as [b ->].
        destruct (y_unary_bool x d_fresh b Hroot) as (x' & Hy & Hr).
        rewrite Hy. cbn. repeat split. eexists; (split; [reflexivity|exact Hr]).
  - (* EBin *)
    destruct (frf a) as [ka|] eqn:Hfa; [|discriminate].
    destruct (frf b) as [kb|] eqn:Hfb; [|discriminate].
    assert (Hlg : is_logic o = false).
    { destruct o; try reflexivity; destruct (intk ka && intk kb); destruct (numk ka && numk kb); destruct ka, kb; discriminate. }
    assert (Hcm : is_cmp o = false).
    { destruct o; try reflexivity; destruct (intk ka && intk kb); destruct (numk ka && numk kb); destruct ka, kb; discriminate. }
    cbn [init y_pass g_eval]. rewrite Hlg, Hcm. rewrite pre_typ_none by assumption.
    specialize (IHa ka eq_refl cx (PSet None) I). specialize (IHb kb eq_refl cx (PSet None) I).
    destruct (g_eval [] (cx_iota cx) a) as [[gka va]|].
    2:{ destruct IHa as (x & Hx). rewrite Hx. eexists; reflexivity. }
    destruct IHa as (-> & Hwa & xa & Hxa & Hra). rewrite Hxa.
    destruct (g_eval [] (cx_iota cx) b) as [[gkb vb]|].
    2:{ destruct IHb as (x & Hx). rewrite Hx. eexists; reflexivity. }
    destruct IHb as (-> & Hwb & xb & Hxb & Hrb). rewrite Hxb. cbn [fin].
    fold d_fresh. set (d1 := d_fresh).
    destruct (intk ka && intk kb) eqn:Hik.
    + apply andb_true_iff in Hik as [Hia Hib].
      destruct (wf_int ka va Hia Hwa) as [za ->].
      destruct (wf_int kb vb Hib Hwb) as [zb ->].
      cbn [y_val_of] in Hra, Hrb.
      pose proof (y_binary_int o xa xb d1 ka kb za zb Hia Hib Hra Hrb (or_introl eq_refl)) as (HA & HR & HQ & HS).
      rewrite (g_binary_int o ka kb za zb Hia Hib).
      assert (Hwf : forall z, wf_untyped (umax ka kb) (GI z)) by (intros; destruct ka, kb; try discriminate; exact I).
      destruct o; try discriminate Hk.
      all: try (injection Hk as <-; destruct (HA eq_refl) as (x & Hy & Hr); rewrite Hy;
                repeat split; [apply Hwf|]; eexists; (split; [reflexivity|exact Hr])).
      * (* BQuo *)
        destruct (urank ka <=? urank kb) eqn:Hrk; [|discriminate]. injection Hk as <-.
        specialize (HQ eq_refl). destruct (zb =? 0).
        -- rewrite HQ. eexists; reflexivity.
        -- destruct HQ as (x & Hy & Hr). rewrite Hy. rewrite (umax_quo ka kb Hia Hib Hrk).
           repeat split; [destruct kb; try discriminate; exact I|]. eexists; (split; [reflexivity|exact Hr]).
      * (* BRem *)
        injection Hk as <-. specialize (HR eq_refl). destruct (zb =? 0).
        -- rewrite HR. eexists; reflexivity.
        -- destruct HR as (x & Hy & Hr). rewrite Hy.
           repeat split; [apply Hwf|]. eexists; (split; [reflexivity|exact Hr]).
      * (* BShl *)
        injection Hk as <-. specialize (HS (or_introl eq_refl)). destruct (in_range TUint zb).
        -- destruct HS as (x & Hy & Hr). rewrite Hy.
           repeat split; [destruct ka; try discriminate; exact I|]. eexists; (split; [reflexivity|exact Hr]).
        -- rewrite HS. eexists; reflexivity.
      * (* BShr *)
        injection Hk as <-. specialize (HS (or_intror eq_refl)). destruct (in_range TUint zb).
        -- destruct HS as (x & Hy & Hr). rewrite Hy.
           repeat split; [destruct ka; try discriminate; exact I|]. eexists; (split; [reflexivity|exact Hr]).
        -- rewrite HS. eexists; reflexivity.
    + destruct (numk ka && numk kb) eqn:Hnk.
      * (* numeric operands, at least one of floating-point kind *)
        apply andb_true_iff in Hnk as [Hna Hnb].
        assert (Hfo : fop o = true /\ k = UFloat) by (destruct o; try discriminate Hk; injection Hk as <-; auto).
        destruct Hfo as [Hfo ->].
        pose proof (binary_float_agree o xa xb ka kb va vb Hna Hnb Hik Hwa Hwb Hra Hrb Hfo) as H.
        destruct (g_binary o (GU ka, va) (GU kb, vb)) as [[gk v]|].
        -- destruct H as (-> & Hw & x & Hy & Hr). subst d1. rewrite Hy.
           repeat split; [assumption|]. eexists; (split; [reflexivity|exact Hr]).
        -- subst d1. rewrite H. eexists; reflexivity.
      * (* strings *)
        assert (o = BAdd /\ ka = UString /\ kb = UString /\ k = UString) as (-> & -> & -> & ->).
        { destruct o, ka, kb; try discriminate; injection Hk as <-; auto. }
        destruct (wf_str va Hwa) as [sa ->]. destruct (wf_str vb Hwb) as [sb ->].
        destruct (y_binary_str xa xb d1 sa sb Hra Hrb (or_introl eq_refl)) as (x' & Hy & Hr).
        rewrite Hy. cbn. repeat split. eexists; (split; [reflexivity|exact Hr]).
Qed.

(** every expression of the enlarged fragment, at any depth and with literals of any magnitude, gets
    from one visit of yaegi the kind and the exact value the specification gives it, and is
    rejected when the specification rejects it *)
Lemma untyped_float_agree e k iota :
  frf e = Some k ->
  y_eval iota e = match g_eval [] iota e with Some c => g_as_y c | None => Err end.
Proof.
  intros Hk. unfold y_eval.
  pose proof (fresh_pass_f e k Hk {| cx_iota := iota; cx_env := []; cx_const := false |} PKeep I) as H.
  cbn [cx_iota] in H.
  destruct (g_eval [] iota e) as [[gk v]|].
  - destruct H as (-> & Hwf & x & Hx & Ht & Hv). rewrite Hx. cbn [bind].
    unfold typ_of. rewrite Ht. cbn [bind]. rewrite Hv. reflexivity.
  - destruct H as (x & Hx). rewrite Hx. reflexivity.
Qed.

Lemma frf_kind e k iota gk v : frf e = Some k -> g_eval [] iota e = Some (gk, v) -> gk = GU k /\ wf_untyped k v.
Proof.
  intros Hk Hg.
  pose proof (fresh_pass_f e k Hk {| cx_iota := iota; cx_env := []; cx_const := false |} PKeep I) as H.
  cbn [cx_iota] in H. rewrite Hg in H. destruct H as (H1 & H2 & _). auto.
Qed.

(** (1.5 + 3/2) * 0x1p-2 / 'a' - 1e3 : the integer quotient truncates, the others are exact *)
Definition ex_float : expr :=
  EBin BSub (EBin BQuo (EBin BMul (EParen (EBin BAdd (EFloat (3 # 2)) (EBin BQuo (EInt 3) (EInt 2)))) (EFloat (1 # 4))) (ERune 97))
            (EFloat (1000 # 1)).

Example untyped_float_inhabited :
  frf ex_float = Some UFloat /\ fr ex_float = None
  /\ g_eval [] 0 ex_float = Some (GU UFloat, GQ (-775995 # 776))
  /\ frf (EBin BQuo (EFloat (1 # 2)) (EBin BSub (EInt 2) (EFloat (2 # 1)))) = Some UFloat
  /\ g_eval [] 0 (EBin BQuo (EFloat (1 # 2)) (EBin BSub (EInt 2) (EFloat (2 # 1)))) = None
  /\ frf (EBin BRem (EFloat (7 # 1)) (EInt 2)) = Some UFloat
  /\ g_eval [] 0 (EBin BRem (EFloat (7 # 1)) (EInt 2)) = None.
Proof. vm_compute. repeat split. Qed.

(** the boundary of the fragment: what is left out is where one visit of yaegi differs.
    1.0 << 3 keeps the floating-point kind (an integer in Go); 'a' / 2 takes the kind of the
    divisor; 1.5 < 2 and 1 < 1.5 are accepted but not folded (no value: computed when the program
    runs, and the zero value false when they initialise a constant) *)
Lemma float_boundary_refuted :
  (frf (EBin BShl (EFloat (1 # 1)) (EInt 3)) = None
   /\ y_eval 0 (EBin BShl (EFloat (1 # 1)) (EInt 3)) = Ok (u_float, Some (VC (CInt 8)))
   /\ g_eval [] 0 (EBin BShl (EFloat (1 # 1)) (EInt 3)) = Some (GU UInt, GI 8))
  /\ (frf (EBin BQuo (ERune 97) (EInt 2)) = None
      /\ y_eval 0 (EBin BQuo (ERune 97) (EInt 2)) = Ok (u_int, Some (VC (CInt 48)))
      /\ g_eval [] 0 (EBin BQuo (ERune 97) (EInt 2)) = Some (GU URune, GI 48))
  /\ (frf (EBin BLt (EFloat (3 # 2)) (EInt 2)) = None
      /\ y_eval 0 (EBin BLt (EFloat (3 # 2)) (EInt 2)) = Ok (typed TBool, None)
      /\ g_eval [] 0 (EBin BLt (EFloat (3 # 2)) (EInt 2)) = Some (GU UBool, GB true)
      /\ y_run (one_const true None (EBin BLt (EFloat (3 # 2)) (EInt 2))) = Printed [(TBool, OB false)]
      /\ g_run (one_const true None (EBin BLt (EFloat (3 # 2)) (EInt 2))) = Printed [(TBool, OB true)]).
Proof. vm_compute. repeat split. Qed.

(* ------------------------------------------------------------------ *)
(** * Constants of the enlarged fragment meeting a typed numeric destination
    (const c T = k, var v T = k, operands unified with a typed operand: typecheck.assignment ->
    convertUntyped -> representableConst + convertConst) *)

(** the Go value a typed constant of the specification is *)
Definition mach (t : bt) (v : gval) : yval :=
  match v with GI z => VM t (MI z) | GQ q => VM t (MF (FQ q)) | GS x => VM t (MS x) | GB b => VM t (MB b) end.

(** side condition = outside the regions signed-bitlen (int8, int16, int32 destinations) and
    float-negzero (a constant other than zero that rounds to zero) *)
Definition dest_side (v : gval) (t : bt) : bool :=
  if is_int t then negb (narrow_signed t)
  else match g_repr v t with
       | Some (GQ r) => negb (q_is_zero r) || q_is_zero (cq v)
       | _ => true
       end.

Lemma bt_eqb_refl t : bt_eqb t t = true.
Proof. apply Z.eqb_refl. Qed.

Lemma conv_int_id z t : is_int t = true -> in_range t z = true -> convert_const (CInt z) t = Ok (VM t (MI z)).
Proof.
  intros Hi Hr. unfold convert_const.
  assert (is_boolean t = false /\ is_string t = false) as (-> & ->) by (destruct t; try discriminate; auto).
  assert (Hb : 0 < bits t <= 64) by (destruct t; cbn; lia).
  assert (Hp : 2 ^ bits t <= 2 ^ 64) by (apply Z.pow_le_mono_r; lia).
  assert (Hp1 : 2 ^ (bits t - 1) <= 2 ^ 63) by (apply Z.pow_le_mono_r; lia).
  assert (H2 : 2 ^ bits t = 2 * 2 ^ (bits t - 1)).
  { replace (bits t) with (bits t - 1 + 1) at 1 by lia. rewrite Z.pow_add_r by lia. change (2 ^ 1) with 2. lia. }
  unfold in_range, imin, imax in Hr. apply andb_true_iff in Hr as [H0 H1]. apply Z.leb_le in H0, H1.
  destruct (is_signed t) eqn:Hs.
  - cbn [c_toint c_int64val bind].
    assert (Hr64 : in_range TInt64 z = true).
    { rewrite in_range_i64. rewrite pow2_63 in Hp1. apply andb_true_iff; split; apply Z.leb_le; lia. }
    rewrite (int64_of_id z Hr64). unfold set_int, wrap_to. rewrite Hs.
    rewrite wrap_s_id; [reflexivity|lia|lia].
  - assert (Hu : is_unsigned t = true) by (destruct t; try discriminate; reflexivity).
    rewrite Hu. cbn [c_toint c_uint64val bind].
    rewrite pow2_64 in Hp.
    assert (Hz : uint64_of z = z).
    { unfold uint64_of, wrap_u. rewrite pow2_64. destruct (in_range TInt64 z).
      - apply Z.mod_small; lia.
      - rewrite Z.abs_eq by lia. apply Z.mod_small; lia. }
    rewrite Hz. unfold set_int, wrap_to, wrap_u. rewrite Hs. rewrite Z.mod_small by lia. reflexivity.
Qed.

(** a floating-point constant and an integer type: accepted exactly when the value is an integer
    (otherwise "truncated"), then treated as that integer *)
Lemma repr_rat_int q t : is_int t = true ->
  y_representable (CRat q) t = if q_is_int q then y_representable (CInt (q_num q)) t else Ok false.
Proof. intros Hi. unfold y_representable. rewrite Hi. cbn [c_toint]. destruct (q_is_int q); reflexivity. Qed.

Lemma conv_rat_int q t : is_int t = true -> q_is_int q = true -> convert_const (CRat q) t = convert_const (CInt (q_num q)) t.
Proof. intros Hi Hq. unfold convert_const. cbn [c_toint]. rewrite Hq. destruct t; try discriminate; reflexivity. Qed.

Lemma float_dest c t : is_float t = true -> (exists z, c = CInt z) \/ (exists q, c = CRat q) ->
  let q := match c with CInt z => qz z | CRat q => q | _ => qz 0 end in
  y_representable c t = Ok (match round_t t q with Some _ => true | None => false end)
  /\ convert_const c t = (r <- fl_round t q false ;; Ok (VM t (MF r))).
Proof.
  intros Ht Hc.
  assert (is_int t = false /\ is_boolean t = false /\ is_string t = false /\ is_signed t = false /\ is_unsigned t = false)
    as (Hi & Hb & Hs & Hsg & Hu) by (destruct t; try discriminate; auto).
  unfold y_representable, convert_const. rewrite Hi, Ht, Hb, Hs, Hsg, Hu.
  destruct Hc as [[z ->]|[q ->]]; cbn [c_tofloat c_floatval]; split; reflexivity.
Qed.

Lemma assign_agree k v t dr :
  numk k = true -> wf_untyped k v -> is_number t = true -> dest_side v t = true ->
  y_assignment {| dty := Some (y_typ_of k); dva := Some (y_val_of v); dres := dr |} (typed t)
  = match g_assign (GU k, v) t with
    | Some (_, v') => Ok {| dty := Some (typed t); dva := Some (mach t v'); dres := dr |}
    | None => Err
    end.
Proof.
  intros Hk Hwf Ht Hside.
  assert (Hyu : yu (y_typ_of k) = true) by (destruct k; reflexivity).
  assert (Hfam : family_ok k t = true) by (destruct k; try discriminate; exact Ht).
  unfold y_assignment. cbn [dty]. rewrite Hyu. unfold convert_untyped. cbn [dty dva dres]. rewrite Hyu.
  cbn [negb yu typed yb]. unfold g_assign. rewrite Hfam.
  assert (Hasg : assignable (typed t) (typed t) = true).
  { unfold assignable, ytyp_eqb. cbn [yb yu typed]. rewrite bt_eqb_refl. reflexivity. }
  unfold dest_side in Hside.
  destruct (is_int t) eqn:Hi.
  - (* integer destination *)
    apply negb_true_iff in Hside.
    assert (Hcase : (exists z, v = GI z) \/ (exists q, v = GQ q)).
    { destruct k, v; try discriminate; try contradiction; eauto. }
    destruct Hcase as [[z ->]|[q ->]]; cbn [y_val_of].
    + rewrite (repr_int_agree z t Hi Hside). unfold g_repr. rewrite Hi.
      destruct (in_range t z) eqn:Hr; cbn [bind option_map]; [|reflexivity].
      rewrite (conv_int_id z t Hi Hr). cbn [bind dty]. rewrite Hasg. reflexivity.
    + rewrite (repr_rat_int q t Hi). unfold g_repr. rewrite Hi.
      destruct (q_is_int q) eqn:Hq; cbn [andb bind option_map]; [|reflexivity].
      rewrite (repr_int_agree (q_num q) t Hi Hside). unfold g_repr. rewrite Hi.
      destruct (in_range t (q_num q)) eqn:Hr; cbn [bind option_map]; [|reflexivity].
      rewrite (conv_rat_int q t Hi Hq), (conv_int_id (q_num q) t Hi Hr). cbn [bind dty]. rewrite Hasg. reflexivity.
  - (* floating-point destination: one rounding of the exact value *)
    assert (Hf : is_float t = true) by (unfold is_number in Ht; rewrite Hi in Ht; exact Ht).
    assert (Hc : (exists z, y_val_of v = VC (CInt z) /\ v = GI z) \/ (exists q, y_val_of v = VC (CRat q) /\ v = GQ q)).
    { destruct k, v; try discriminate; try contradiction; cbn; eauto. }
    assert (Hg : g_repr v t = option_map GQ (round_t t (cq v))).
    { unfold g_repr. rewrite Hi, Hf. destruct Hc as [[z [_ ->]]|[q [_ ->]]]; reflexivity. }
    rewrite Hg in Hside |- *.
    assert (HY : exists c, y_val_of v = VC c /\ y_representable c t = Ok (match round_t t (cq v) with Some _ => true | None => false end)
                 /\ convert_const c t = (r <- fl_round t (cq v) false ;; Ok (VM t (MF r)))).
    { destruct Hc as [[z [E ->]]|[q [E ->]]]; eexists; (split; [exact E|]).
      - apply (float_dest (CInt z) t Hf). left; eauto.
      - apply (float_dest (CRat q) t Hf). right; eauto. }
    destruct HY as (c & -> & -> & Hcv). cbn [bind].
    destruct (round_t t (cq v)) as [r|] eqn:Hr; cbn [option_map bind]; [|reflexivity].
    rewrite Hcv. unfold fl_round. cbn [option_map] in Hside.
    destruct (q_is_zero (cq v)) eqn:Hz.
    + rewrite (round_zero t _ Hz) in Hr. injection Hr as <-. cbn [bind dty]. rewrite Hasg. reflexivity.
    + rewrite Hr. cbn [of_opt bind]. rewrite orb_false_r in Hside. apply negb_true_iff in Hside. rewrite Hside.
      cbn [bind dty]. rewrite Hasg. reflexivity.
Qed.

(** one visit of the tree, then the assignment of its root to a destination of type t *)
Definition y_eval_assign (iota : Z) (e : expr) (t : bt) : res (ytyp * option yval) :=
  let '(x, st) := y_pass {| cx_iota := iota; cx_env := []; cx_const := false |} PKeep (init e) in
  _ <- st ;; d <- y_assignment (deco_of x) (typed t) ;;
  match dty d with Some t' => Ok (t', dva d) | None => Pan end.

Definition g_eval_assign (iota : Z) (e : expr) (t : bt) : res (ytyp * option yval) :=
  match g_eval [] iota e with
  | Some c => match g_assign c t with Some (_, v') => Ok (typed t, Some (mach t v')) | None => Err end
  | None => Err
  end.

Definition dest_ok (iota : Z) (e : expr) (t : bt) : bool :=
  match g_eval [] iota e with Some (_, v) => dest_side v t | None => true end.

Lemma typed_dest_agree e k iota t :
  frf e = Some k -> numk k = true -> is_number t = true -> dest_ok iota e t = true ->
  y_eval_assign iota e t = g_eval_assign iota e t.
Proof.
  intros Hk Hn Ht Hs. unfold y_eval_assign, g_eval_assign, dest_ok in *.
  pose proof (fresh_pass_f e k Hk {| cx_iota := iota; cx_env := []; cx_const := false |} PKeep I) as H.
  cbn [cx_iota] in H.
  destruct (g_eval [] iota e) as [[gk v]|].
  - destruct H as (-> & Hwf & x & Hx & Hty & Hva). rewrite Hx. cbn [bind].
    destruct (deco_of x) as [ty va r]. cbn [dty dva] in Hty, Hva. subst ty va.
    rewrite (assign_agree k v t r Hn Hwf Ht Hs).
    destruct (g_assign (GU k, v) t) as [[gk' v']|]; reflexivity.
  - destruct H as (x & Hx). rewrite Hx. reflexivity.
Qed.

(** 2.5 * 4 fits uint8 (10); 1.5 + 3/2 does not fit an integer type (truncated); 1e3 overflows uint8;
    1 + 0x1p-24 + 0x1p-60 is rounded once to float32; 1e39 overflows float32 *)
Example typed_dest_inhabited :
  (dest_ok 0 (EBin BMul (EFloat (5 # 2)) (EInt 4)) TUint8 = true
   /\ g_eval_assign 0 (EBin BMul (EFloat (5 # 2)) (EInt 4)) TUint8 = Ok (typed TUint8, Some (VM TUint8 (MI 10))))
  /\ g_eval_assign 0 (EBin BAdd (EFloat (3 # 2)) (EBin BQuo (EInt 3) (EInt 2))) TInt64 = Err
  /\ g_eval_assign 0 (EFloat (1000 # 1)) TUint8 = Err
  /\ (dest_ok 0 (EBin BAdd (EFloat (16777217 # 16777216)) (EFloat (1 # 1152921504606846976))) TFloat32 = true
      /\ g_eval_assign 0 (EBin BAdd (EFloat (16777217 # 16777216)) (EFloat (1 # 1152921504606846976))) TFloat32
         = Ok (typed TFloat32, Some (VM TFloat32 (MF (FQ (8388609 # 8388608))))))
  /\ g_eval_assign 0 (EBin BMul (EFloat (1000000000000000000000 # 1)) (EFloat (1000000000000000000 # 1))) TFloat32 = Err.
Proof. vm_compute. repeat split. Qed.

(** the side conditions are needed: 200.0 to int8 is accepted as -56 (signed-bitlen); a negative
    constant that underflows float64 becomes -0 (float-negzero) *)
Lemma typed_dest_refuted :
  (frf (EFloat (200 # 1)) = Some UFloat /\ dest_ok 0 (EFloat (200 # 1)) TInt8 = false
   /\ y_eval_assign 0 (EFloat (200 # 1)) TInt8 = Ok (typed TInt8, Some (VM TInt8 (MI (-56))))
   /\ g_eval_assign 0 (EFloat (200 # 1)) TInt8 = Err)
  /\ (frf (EUn UNeg (EFloat (1 # Pos.pow 2 1100))) = Some UFloat
      /\ dest_ok 0 (EUn UNeg (EFloat (1 # Pos.pow 2 1100))) TFloat64 = false
      /\ y_eval_assign 0 (EUn UNeg (EFloat (1 # Pos.pow 2 1100))) TFloat64 = Ok (typed TFloat64, Some (VM TFloat64 (MF FNZ)))
      /\ g_eval_assign 0 (EUn UNeg (EFloat (1 # Pos.pow 2 1100))) TFloat64 = Ok (typed TFloat64, Some (VM TFloat64 (MF (FQ (0 # 1)))))).
Proof. vm_compute. repeat split. Qed.
