(** C03 — constant expressions.  The two models (definitions only):
      Y = Const/YaegiConst.v : yaegi's folding machinery (decorated trees, passes, go/constant glue)
      G = Const/ConstSem.v   : the Go specification of constant expressions
    over the shared syntax of Const/Base.v. *)
From Verif Require Export Const.Base Const.ConstSem Const.YaegiConst.
