(** Evaluation of the C03 models on the cases written by the harness.
    [prog_mis_y]: ids of the cases where yaegi's observed outcome differs from Y;
    [prog_mis_g]: ids of the cases where the outcome computed from go/types differs from G. *)
From Verif Require Import Const.Model.

Definition prog_case := (N * program * outcome * outcome)%type.

Definition prog_mis_y (cs : list prog_case) : list N :=
  flat_map (fun '(id, p, impl, _) => if outcome_eqb (y_run p) impl then [] else [id]) cs.

Definition prog_mis_g (cs : list prog_case) : list N :=
  flat_map (fun '(id, p, _, ref) => if outcome_eqb (g_run p) ref then [] else [id]) cs.
