(** Evaluation of the C03 models on the cases written by the harness.
    [prog_mis_y]: ids of the cases where yaegi's observed outcome differs from Y;
    [prog_mis_g]: ids of the cases where the outcome computed from go/types differs from G. *)
From Verif Require Import Const.Model.

Definition prog_case := (N * program * outcome * outcome)%type.

Definition prog_mis_y (cs : list prog_case) : list N :=
  flat_map (fun '(id, p, impl, _) => if outcome_eqb (y_run p) impl then [] else [id]) cs.

Definition prog_mis_g (cs : list prog_case) : list N :=
  flat_map (fun '(id, p, _, ref) => if outcome_eqb (g_run p) ref then [] else [id]) cs.

(** function level: typecheck.representableConst and typecheck.convertConst on one constant and one type.
    [impl_repr]: what representableConst answered; [impl_conv]: what convertConst returned (the value
    with its dynamic type, an error, or a host panic); [ref_repr]: representability by the specification. *)
Definition repr_case := (N * cval * bt * bool * outcome * bool)%type.

Definition y_conv_outcome (c : cval) (t : bt) : outcome :=
  match convert_const c t with
  | Ok (VM tv m) => Printed [(tv, oval_of_m m)]
  | Ok (VC _) => Unmodelled
  | Err => Rejected
  | Pan => HostPanic
  | Unm => Unmodelled
  end.

Definition gval_of_cval (c : cval) : option gval :=
  match c with
  | CInt z => Some (GI z)
  | CRat q => Some (GQ q)
  | CStr x => Some (GS x)
  | CBool b => Some (GB b)
  | CUnk => None
  end.

Definition g_representable (c : cval) (t : bt) : bool :=
  match gval_of_cval c with
  | Some v => match g_repr v t with Some _ => true | None => false end
  | None => false
  end.

Definition repr_mis_y (cs : list repr_case) : list N :=
  flat_map (fun '(id, c, t, impl_repr, impl_conv, _) =>
    let ok_repr := match y_representable c t with Ok b => Bool.eqb b impl_repr | _ => false end in
    let ok_conv := match impl_conv, y_conv_outcome c t with
                   | Unmodelled, Unmodelled => true   (* an infinity on both sides (the constant is not representable) *)
                   | _, yo => outcome_eqb yo impl_conv
                   end in
    if ok_repr && ok_conv then [] else [id]) cs.

Definition repr_mis_g (cs : list repr_case) : list N :=
  flat_map (fun '(id, c, t, _, _, ref_repr) => if Bool.eqb (g_representable c t) ref_repr then [] else [id]) cs.

(** exact level, for the trees of the enlarged proved fragment (Const/FloatProofs.v): go/types checks
    `const K = e` and records the untyped kind and the exact go/constant value of K, or rejects.
    [geval_mis_g]: ids where G.eval differs from that (kind and exact value), or where the tree is
    not in the fragment [frf] of the theorem; [geval_mis_y]: ids where one visit of the faithful
    model ([y_eval]) differs from it. *)
From Verif Require Import Const.Proofs Const.FloatProofs.

Definition geval_case := (N * expr * option (ukind * gval))%type.

Definition gval_eqb (a b : gval) : bool :=
  match a, b with
  | GI x, GI y => (x =? y)%Z
  | GQ x, GQ y => q_eqb x y
  | GS x, GS y => str_eqb x y
  | GB x, GB y => Bool.eqb x y
  | _, _ => false
  end.

Definition geval_mis_g (cs : list geval_case) : list N :=
  flat_map (fun '(id, e, ref) =>
    let in_frag := match frf e with Some _ => true | None => false end in
    let ok := match g_eval [] 0 e, ref with
              | Some (GU k, v), Some (k', v') => ukind_eqb k k' && gval_eqb v v'
              | None, None => true
              | _, _ => false
              end in
    if in_frag && ok then [] else [id]) cs.

Definition geval_mis_y (cs : list geval_case) : list N :=
  flat_map (fun '(id, e, ref) =>
    let ok := match y_eval 0 e, ref with
              | Ok (t, Some (VC c)), Some (k, v) =>
                  ytyp_eqb t (y_typ_of k)
                  && match c, v with
                     | CInt x, GI y => (x =? y)%Z
                     | CRat x, GQ y => q_eqb x y
                     | _, _ => false
                     end
              | Err, None => true
              | _, _ => false
              end in
    if ok then [] else [id]) cs.
