(** Evaluation of the C03 models on the cases written by the harness.
    [prog_mis_y]: ids of the cases where yaegi's observed outcome differs from Y;
    [prog_mis_g]: ids of the cases where the outcome computed from go/types differs from G. *)
From Verif Require Import Const.Model.

Definition prog_case := (N * program * outcome * outcome)%type.

Definition prog_mis_y (cs : list prog_case) : list N :=
  flat_map (fun '(id, p, impl, _) => if outcome_eqb (y_run p) impl then [] else [id]) cs.

Definition prog_mis_g (cs : list prog_case) : list N :=
  flat_map (fun '(id, p, _, ref) => if outcome_eqb (g_run p) ref then [] else [id]) cs.

(** function level: typecheck.representableConst and typecheck.convertConst on one constant and one type.
    [impl_repr]: what representableConst answered; [impl_conv]: what convertConst returned (the value
    with its dynamic type, an error, or a host panic); [ref_repr]: representability by the specification. *)
Definition repr_case := (N * cval * bt * bool * outcome * bool)%type.

Definition y_conv_outcome (c : cval) (t : bt) : outcome :=
  match convert_const c t with
  | Ok (VM tv m) => Printed [(tv, oval_of_m m)]
  | Ok (VC _) => Unmodelled
  | Err => Rejected
  | Pan => HostPanic
  | Unm => Unmodelled
  end.

Definition gval_of_cval (c : cval) : option gval :=
  match c with
  | CInt z => Some (GI z)
  | CRat q => Some (GQ q)
  | CStr x => Some (GS x)
  | CBool b => Some (GB b)
  | CUnk => None
  end.

Definition g_representable (c : cval) (t : bt) : bool :=
  match gval_of_cval c with
  | Some v => match g_repr v t with Some _ => true | None => false end
  | None => false
  end.

Definition repr_mis_y (cs : list repr_case) : list N :=
  flat_map (fun '(id, c, t, impl_repr, impl_conv, _) =>
    let ok_repr := match y_representable c t with Ok b => Bool.eqb b impl_repr | _ => false end in
    let ok_conv := match impl_conv, y_conv_outcome c t with
                   | Unmodelled, Unmodelled => true   (* an infinity on both sides (the constant is not representable) *)
                   | _, yo => outcome_eqb yo impl_conv
                   end in
    if ok_repr && ok_conv then [] else [id]) cs.

Definition repr_mis_g (cs : list repr_case) : list N :=
  flat_map (fun '(id, c, t, _, _, ref_repr) => if Bool.eqb (g_representable c t) ref_repr then [] else [id]) cs.
