(** C03 — G: constant expressions as the Go specification defines them
    (sections "Constants", "Constant expressions", "Conversions", "Iota", "Constant declarations").
    Exact arithmetic on integers (Z) and rationals (Q); a constant is either untyped (with a kind:
    integer, rune, floating-point, string, boolean) or typed (with a basic type); every typed
    result must be representable in its type, otherwise the expression is rejected ([None]).
    Definitions only. *)
From Verif Require Export Const.Base.
Open Scope Z_scope.

Inductive ukind := UInt | URune | UFloat | UString | UBool.
Inductive gkind := GU (u : ukind) | GT (t : bt).
Inductive gval := GI (z : Z) | GQ (q : Q) | GS (x : str) | GB (b : bool).
Definition gconst := (gkind * gval)%type.

Definition urank (u : ukind) : Z := match u with UInt => 0 | URune => 1 | UFloat => 2 | _ => 3 end.
Definition unumeric (u : ukind) : bool := match u with UInt | URune | UFloat => true | _ => false end.
Definition ukind_eqb (a b : ukind) : bool :=
  match a, b with
  | UInt, UInt | URune, URune | UFloat, UFloat | UString, UString | UBool, UBool => true
  | _, _ => false
  end.
Definition umax (a b : ukind) : ukind := if urank a <? urank b then b else a.

Definition default_type (u : ukind) : bt :=
  match u with UInt => TInt | URune => TInt32 | UFloat => TFloat64 | UString => TString | UBool => TBool end.

(** ** Representability ("a constant value x is representable by a value of type T").
    Returns the value the constant takes in T (floating-point values are rounded). *)
Definition g_repr (v : gval) (t : bt) : option gval :=
  if is_int t then
    match v with
    | GI z => if in_range t z then Some (GI z) else None
    | GQ q => if q_is_int q && in_range t (q_num q) then Some (GI (q_num q)) else None
    | _ => None
    end
  else if is_float t then
    match v with
    | GI z => option_map GQ (round_t t (qz z))
    | GQ q => option_map GQ (round_t t q)
    | _ => None
    end
  else if is_string t then match v with GS _ => Some v | _ => None end
  else match v with GB _ => Some v | _ => None end.

(** an untyped constant of kind [u] can only become a value of a type of the same family *)
Definition family_ok (u : ukind) (t : bt) : bool :=
  match u with
  | UInt | URune | UFloat => is_number t
  | UString => is_string t
  | UBool => is_boolean t
  end.

(** implicit conversion of an untyped constant to a type (assignment, mixed operands) *)
Definition g_assign (c : gconst) (t : bt) : option gconst :=
  match c with
  | (GU u, v) => if family_ok u t then option_map (fun v' => (GT t, v')) (g_repr v t) else None
  | (GT t', v) => if bt_eqb t t' then Some c else None
  end.

Definition kind_is_integer (k : gkind) : bool :=
  match k with GU UInt | GU URune => true | GT t => is_int t | _ => false end.
Definition kind_is_float (k : gkind) : bool :=
  match k with GU UFloat => true | GT t => is_float t | _ => false end.
Definition kind_is_numeric (k : gkind) : bool := kind_is_integer k || kind_is_float k.
Definition kind_is_string (k : gkind) : bool :=
  match k with GU UString => true | GT TString => true | _ => false end.
Definition kind_is_bool (k : gkind) : bool :=
  match k with GU UBool => true | GT TBool => true | _ => false end.

(** ** Explicit conversion T(c) of a constant *)
Definition g_conv (t : bt) (c : gconst) : option gconst :=
  let '(k, v) := c in
  if is_number t then
    if kind_is_numeric k then option_map (fun v' => (GT t, v')) (g_repr v t) else None
  else if is_string t then
    match v with
    | GS _ => if kind_is_string k then Some (GT t, v) else None
    | GI z => if kind_is_integer k then Some (GT t, GS (utf8 z)) else None
    | _ => None
    end
  else
    match v with GB _ => if kind_is_bool k then Some (GT t, v) else None | _ => None end.

(** the result of an operation on typed operands must be representable in the type *)
Definition g_fit (k : gkind) (v : gval) : option gconst :=
  match k with
  | GU _ => Some (k, v)
  | GT t => option_map (fun v' => (k, v')) (g_repr v t)
  end.

(** ** Operand unification of a binary operation (except shifts) *)
Definition g_unify (a b : gconst) : option (gkind * gval * gval) :=
  match a, b with
  | (GU u1, v1), (GU u2, v2) =>
      if unumeric u1 && unumeric u2 then Some (GU (umax u1 u2), v1, v2)
      else if ukind_eqb u1 u2 then Some (GU u1, v1, v2) else None
  | (GT t, v1), (GU _, _) =>
      match g_assign b t with Some (_, v2) => Some (GT t, v1, v2) | None => None end
  | (GU _, _), (GT t, v2) =>
      match g_assign a t with Some (_, v1) => Some (GT t, v1, v2) | None => None end
  | (GT t1, v1), (GT t2, v2) => if bt_eqb t1 t2 then Some (GT t1, v1, v2) else None
  end.

Definition to_q (v : gval) : option Q :=
  match v with GI z => Some (qz z) | GQ q => Some q | _ => None end.

Definition int_op (o : binop) (x y : Z) : option Z :=
  match o with
  | BAdd => Some (x + y) | BSub => Some (x - y) | BMul => Some (x * y)
  | BQuo => if y =? 0 then None else Some (Z.quot x y)
  | BRem => if y =? 0 then None else Some (Z.rem x y)
  | BAnd => Some (Z.land x y) | BOr => Some (Z.lor x y) | BXor => Some (Z.lxor x y)
  | BAndNot => Some (Z.land x (Z.lnot y))
  | _ => None
  end.

Definition rat_op (o : binop) (x y : Q) : option Q :=
  match o with
  | BAdd => Some (q_add x y) | BSub => Some (q_sub x y) | BMul => Some (q_mul x y)
  | BQuo => if q_is_zero y then None else Some (q_div x y)
  | _ => None
  end.

Definition cmp_of (o : binop) (c : comparison) : bool :=
  match o, c with
  | BEq, Eq => true | BEq, _ => false
  | BNe, Eq => false | BNe, _ => true
  | BLt, Lt => true | BLt, _ => false
  | BLe, Gt => false | BLe, _ => true
  | BGt, Gt => true | BGt, _ => false
  | BGe, Lt => false | BGe, _ => true
  | _, _ => false
  end.

Fixpoint str_compare (a b : str) : comparison :=
  match a, b with
  | [], [] => Eq
  | [], _ => Lt
  | _, [] => Gt
  | x :: a', y :: b' =>
      match N.compare (N_of_ascii x) (N_of_ascii y) with
      | Eq => str_compare a' b'
      | c => c
      end
  end.

Definition g_compare (o : binop) (k : gkind) (v1 v2 : gval) : option gconst :=
  let ordered := match o with BEq | BNe => false | _ => true end in
  if kind_is_integer k then
    match v1, v2 with GI x, GI y => Some (GU UBool, GB (cmp_of o (Z.compare x y))) | _, _ => None end
  else if kind_is_float k then
    match to_q v1, to_q v2 with
    | Some x, Some y => Some (GU UBool, GB (cmp_of o (Qcompare x y)))
    | _, _ => None
    end
  else if kind_is_string k then
    match v1, v2 with GS x, GS y => Some (GU UBool, GB (cmp_of o (str_compare x y))) | _, _ => None end
  else
    match v1, v2 with
    | GB x, GB y => if ordered then None else Some (GU UBool, GB (cmp_of o (if Bool.eqb x y then Eq else Lt)))
    | _, _ => None
    end.

Definition g_arith (o : binop) (k : gkind) (v1 v2 : gval) : option gconst :=
  if kind_is_integer k then
    match v1, v2 with
    | GI x, GI y => match int_op o x y with Some z => g_fit k (GI z) | None => None end
    | _, _ => None
    end
  else if kind_is_float k then
    match to_q v1, to_q v2 with
    | Some x, Some y => match rat_op o x y with Some q => g_fit k (GQ q) | None => None end
    | _, _ => None
    end
  else if kind_is_string k then
    match o, v1, v2 with BAdd, GS x, GS y => Some (k, GS (x ++ y)) | _, _, _ => None end
  else None.

Definition g_logic (o : binop) (k : gkind) (v1 v2 : gval) : option gconst :=
  if kind_is_bool k then
    match v1, v2 with
    | GB x, GB y => Some (k, GB (match o with BLand => x && y | _ => x || y end))
    | _, _ => None
    end
  else None.

(** integer value of a shift operand: an untyped constant must be representable as an integer *)
Definition g_int_value (v : gval) : option Z :=
  match v with
  | GI z => Some z
  | GQ q => if q_is_int q then Some (q_num q) else None
  | _ => None
  end.

Definition g_shift (o : binop) (a b : gconst) : option gconst :=
  let '(ka, va) := a in
  let '(kb, vb) := b in
  (* the count: an untyped constant representable as uint, or a non-negative constant of integer type *)
  let count :=
    match kb with
    | GU u => if unumeric u then match g_int_value vb with Some n => if in_range TUint n then Some n else None | None => None end else None
    | GT t => if is_int t then match vb with GI n => if 0 <=? n then Some n else None | _ => None end else None
    end in
  match count with
  | None => None
  | Some n =>
      let sh z := match o with BShl => Z.shiftl z n | _ => Z.shiftr z n end in
      match ka with
      | GU u =>
          if unumeric u then
            match g_int_value va with
            | Some z => Some (GU (match u with UFloat => UInt | _ => u end), GI (sh z))
            | None => None
            end
          else None
      | GT t =>
          if is_int t then match va with GI z => g_fit ka (GI (sh z)) | _ => None end else None
      end
  end.

Definition g_binary (o : binop) (a b : gconst) : option gconst :=
  if is_shift o then g_shift o a b
  else match g_unify a b with
       | None => None
       | Some (k, v1, v2) =>
           if is_cmp o then g_compare o k v1 v2
           else if is_logic o then g_logic o k v1 v2
           else g_arith o k v1 v2
       end.

Definition g_unary (o : unop) (c : gconst) : option gconst :=
  let '(k, v) := c in
  match o, v with
  | UPos, GI _ | UPos, GQ _ => if kind_is_numeric k then Some c else None
  | UNeg, GI z => if kind_is_integer k then g_fit k (GI (- z)) else None
  | UNeg, GQ q => if kind_is_float k then g_fit k (GQ (q_neg q)) else None
  | UXor, GI z =>
      match k with
      | GU UInt | GU URune => Some (k, GI (Z.lnot z))
      | GT t => if is_signed t then g_fit k (GI (Z.lnot z))
                else if is_unsigned t then g_fit k (GI (2 ^ bits t - 1 - z)) else None
      | _ => None
      end
  | UNot, GB b => if kind_is_bool k then Some (k, GB (negb b)) else None
  | _, _ => None
  end.

Definition genv := list (N * gconst).

Fixpoint g_eval (env : genv) (iota : Z) (e : expr) : option gconst :=
  match e with
  | EInt z => Some (GU UInt, GI z)
  | ERune z => Some (GU URune, GI z)
  | EFloat q => Some (GU UFloat, GQ (Qred q))
  | EStr x => Some (GU UString, GS x)
  | EBool b => Some (GU UBool, GB b)
  | EIota => Some (GU UInt, GI iota)
  | ERef x => alookup x env
  | EParen e1 => g_eval env iota e1
  | EUn o e1 => match g_eval env iota e1 with Some c => g_unary o c | None => None end
  | EBin o a b =>
      match g_eval env iota a with
      | None => None
      | Some ca => match g_eval env iota b with
                   | None => None
                   | Some cb => g_binary o ca cb
                   end
      end
  | EConv t e1 => match g_eval env iota e1 with Some c => g_conv t c | None => None end
  | ELen e1 =>
      match g_eval env iota e1 with
      | Some (k, GS x) => if kind_is_string k then Some (GT TInt, GI (zlen x)) else None
      | _ => None
      end
  end.

(** ** Constant declarations: iota is the index of the ConstSpec in its group; a spec without
    expressions repeats the type and the expression list of the preceding spec. *)

(** all expressions of one spec see the environment before the spec *)
Fixpoint g_spec_vals (env : genv) (iota : Z) (ty : option bt) (es : list expr) : option (list gconst) :=
  match es with
  | [] => Some []
  | e :: es' =>
      match g_eval env iota e with
      | None => None
      | Some c =>
          match (match ty with Some t => g_assign c t | None => Some c end), g_spec_vals env iota ty es' with
          | Some c', Some r => Some (c' :: r)
          | _, _ => None
          end
      end
  end.

Fixpoint g_define (env : genv) (names : list N) (vals : list gconst) : option genv :=
  match names, vals with
  | [], [] => Some env
  | x :: names', c :: vals' => g_define (if (x =? 0)%N then env else (x, c) :: env) names' vals'
  | _, _ => None
  end.

Fixpoint g_group (env : genv) (iota : Z) (prev : option (option bt * list expr)) (g : group) : option genv :=
  match g with
  | [] => Some env
  | sp :: g' =>
      let cur :=
        match sp_exprs sp with
        | [] => prev
        | es => Some (sp_type sp, es)
        end in
      match cur with
      | None => None
      | Some (ty, es) =>
          match g_spec_vals env iota ty es with
          | None => None
          | Some vals =>
              match g_define env (sp_names sp) vals with
              | None => None
              | Some env' => g_group env' (iota + 1) cur g'
              end
          end
      end
  end.

Fixpoint g_groups (env : genv) (gs : list group) : option genv :=
  match gs with
  | [] => Some env
  | g :: gs' => match g_group env 0 None g with Some env' => g_groups env' gs' | None => None end
  end.

(** ** Use of a constant as an operand of fmt.Printf("%v %T"): conversion to its default type *)
Definition oval_of (v : gval) : oval :=
  match v with GI z => OI z | GQ q => OF q | GS x => OS x | GB b => OB b end.

Definition g_use (c : gconst) : option (bt * oval) :=
  match c with
  | (GU u, v) => option_map (fun v' => (default_type u, oval_of v')) (g_repr v (default_type u))
  | (GT t, v) => Some (t, oval_of v)
  end.

Fixpoint g_show (env : genv) (names : list N) : option (list (bt * oval)) :=
  match names with
  | [] => Some []
  | x :: r =>
      match alookup x env with
      | None => None
      | Some c => match g_use c, g_show env r with
                  | Some o, Some l => Some (o :: l)
                  | _, _ => None
                  end
      end
  end.

Definition g_run (p : program) : outcome :=
  match p with
  | PConst _ gs shown =>
      match g_groups [] gs with
      | None => Rejected
      | Some env => match g_show env shown with Some l => Printed l | None => Rejected end
      end
  | PVar ty e =>
      match g_eval [] 0 e with
      | None => Rejected
      | Some c =>
          match ty with
          | Some t => match g_assign c t with Some c' => match g_use c' with Some o => Printed [o] | None => Rejected end | None => Rejected end
          | None => match g_use c with Some o => Printed [o] | None => Rejected end
          end
      end
  | PExpr e =>
      match g_eval [] 0 e with
      | None => Rejected
      | Some c => match g_use c with Some o => Printed [o] | None => Rejected end
      end
  end.
