(** C03 — proofs relating Y (yaegi's constant machinery, Const/YaegiConst.v) and G (the Go
    specification, Const/ConstSem.v). *)
From Verif Require Import Const.Model.
From Coq Require Import Lia ZArith Bool List.
Open Scope Z_scope.

(* ------------------------------------------------------------------ *)
(** * 1. Representability of integer constants (representableConst against the specification) *)

Definition narrow_signed (t : bt) : bool :=
  match t with TInt8 | TInt16 | TInt32 => true | _ => false end.

Lemma bitlen_le z n : 0 <= z -> 0 < n -> (bitlen z <=? n) = (z <? 2 ^ n).
Proof.
  intros Hz Hn. unfold bitlen.
  destruct (Z.eqb_spec z 0) as [->|Hne].
  - assert (0 < 2 ^ n) by (apply Z.pow_pos_nonneg; lia).
    destruct (Z.leb_spec 0 n), (Z.ltb_spec 0 (2 ^ n)); try reflexivity; lia.
  - rewrite Z.abs_eq by lia.
    assert (Hp : 0 < z) by lia.
    pose proof (Z.log2_lt_pow2 z n Hp) as [H1 H2].
    destruct (Z.leb_spec (Z.log2 z + 1) n), (Z.ltb_spec z (2 ^ n)); try reflexivity; lia.
Qed.

Lemma bitlen_abs z : bitlen z = bitlen (Z.abs z).
Proof.
  unfold bitlen. rewrite Z.abs_involutive.
  destruct (Z.eqb_spec z 0), (Z.eqb_spec (Z.abs z) 0); try reflexivity; lia.
Qed.

Lemma pow2_64 : 2 ^ 64 = 18446744073709551616. Proof. reflexivity. Qed.
Lemma pow2_63 : 2 ^ 63 = 9223372036854775808. Proof. reflexivity. Qed.

Lemma in_range_u64 z : in_range TUint64 z = (0 <=? z) && (z <=? 18446744073709551615).
Proof. reflexivity. Qed.
Lemma in_range_i64 z : in_range TInt64 z = (-9223372036854775808 <=? z) && (z <=? 9223372036854775807).
Proof. reflexivity. Qed.

(** what representableConst computes for an integer constant *)
Lemma y_representable_int z t :
  is_int t = true ->
  y_representable (CInt z) t =
  Ok (if is_signed t then in_range TInt64 z && (Z.abs z <? 2 ^ bits t)
      else (0 <=? z) && (z <? 2 ^ bits t)).
Proof.
  intros Hi. unfold y_representable. rewrite Hi. cbn [c_toint c_is_int negb].
  assert (Hb : 0 < bits t) by (destruct t; cbn; lia).
  destruct (is_signed t) eqn:Hs.
  - cbn [c_int64val bind].
    destruct (in_range TInt64 z) eqn:Hr; cbn [negb andb]; [|reflexivity].
    rewrite bitlen_abs, bitlen_le by lia. reflexivity.
  - cbn [c_uint64val bind]. rewrite in_range_u64.
    assert (bits t <= 64) by (destruct t; cbn; lia).
    assert (2 ^ bits t <= 2 ^ 64) by (apply Z.pow_le_mono_r; lia).
    rewrite pow2_64 in *.
    destruct (Z.leb_spec 0 z); cbn [andb negb]; [|reflexivity].
    destruct (Z.leb_spec z 18446744073709551615); cbn [negb].
    + rewrite bitlen_le by lia. reflexivity.
    + destruct (Z.ltb_spec z (2 ^ bits t)); [lia|reflexivity].
Qed.

(** for every integer and every integer type other than int8, int16, int32 yaegi decides
    representability as the specification does *)
Lemma repr_int_agree z t :
  is_int t = true -> narrow_signed t = false ->
  y_representable (CInt z) t = Ok (match g_repr (GI z) t with Some _ => true | None => false end).
Proof.
  intros Hi Hn. rewrite y_representable_int by assumption.
  unfold g_repr. rewrite Hi. f_equal.
  destruct (is_signed t) eqn:Hs.
  - assert (Ht : t = TInt \/ t = TInt64) by (destruct t; try discriminate; auto).
    assert (Hr : in_range t z = in_range TInt64 z) by (destruct Ht; subst; reflexivity).
    assert (Hbits : bits t = 64) by (destruct Ht; subst; reflexivity).
    rewrite Hr, Hbits. destruct (in_range TInt64 z) eqn:E; [|reflexivity].
    rewrite in_range_i64 in E. apply andb_true_iff in E as [E1 E2].
    apply Z.leb_le in E1, E2. rewrite pow2_64.
    destruct (Z.ltb_spec (Z.abs z) 18446744073709551616); [reflexivity|lia].
  - unfold in_range, imin, imax. rewrite Hs.
    destruct (Z.leb_spec 0 z); cbn [andb]; [|reflexivity].
    destruct (Z.ltb_spec z (2 ^ bits t)), (Z.leb_spec z (2 ^ bits t - 1)); try reflexivity; lia.
Qed.

(** ... and for int8, int16, int32 it accepts exactly the integers of magnitude below 2^N *)
Lemma repr_narrow_signed z t :
  narrow_signed t = true -> y_representable (CInt z) t = Ok (Z.abs z <? 2 ^ bits t).
Proof.
  intros Hn.
  assert (Hi : is_int t = true) by (destruct t; try discriminate; reflexivity).
  assert (Hs : is_signed t = true) by (destruct t; try discriminate; reflexivity).
  rewrite y_representable_int, Hs by assumption. f_equal.
  assert (Hb : bits t <= 32) by (destruct t; try discriminate; cbn; lia).
  assert (0 < bits t) by (destruct t; cbn; lia).
  assert (2 ^ bits t <= 2 ^ 32) by (apply Z.pow_le_mono_r; lia).
  change (2 ^ 32) with 4294967296 in *.
  destruct (Z.ltb_spec (Z.abs z) (2 ^ bits t)); [|apply andb_false_r].
  rewrite andb_true_r, in_range_i64.
  apply andb_true_iff; split; apply Z.leb_le; lia.
Qed.

Lemma repr_bitlen_refuted :
  y_representable (CInt 200) TInt8 = Ok true /\ g_repr (GI 200) TInt8 = None.
Proof. split; reflexivity. Qed.

Lemma repr_int_inhabited :
  is_int TUint8 = true /\ narrow_signed TUint8 = false /\ g_repr (GI 256) TUint8 = None
  /\ y_representable (CInt 256) TUint8 = Ok false.
Proof. repeat split; reflexivity. Qed.

(* ------------------------------------------------------------------ *)
(** * 2. Default types *)

(** the constant as yaegi holds it when its kind is untyped *)
Definition y_typ_of (u : ukind) : ytyp :=
  match u with UInt => u_int | URune => u_rune | UFloat => u_float | UString => u_string | UBool => u_bool end.

Definition y_val_of (v : gval) : yval :=
  match v with GI z => VC (CInt z) | GQ q => VC (CRat q) | GS x => VC (CStr x) | GB b => VM TBool (MB b) end.

(** kind and value fit together *)
Definition wf_untyped (u : ukind) (v : gval) : Prop :=
  match u, v with
  | UInt, GI _ | URune, GI _ | UFloat, GQ _ | UString, GS _ | UBool, GB _ => True
  | _, _ => False
  end.

Lemma default_type_agree u v :
  wf_untyped u v -> default_of (y_typ_of u) (Some (y_val_of v)) = typed (default_type u).
Proof. destruct u, v; cbn; intros H; try contradiction; reflexivity. Qed.

(* ------------------------------------------------------------------ *)
(** * 3. Witnesses: programs on which the faithful model differs from the specification *)

Definition one_const (global : bool) (ty : option bt) (e : expr) : program :=
  PConst global [[{| sp_names := [1%N]; sp_type := ty; sp_exprs := [e] |}]] [1%N].

(** uint32(1)<<31<<1 and int8(100)+int8(100): typed constant arithmetic wraps *)
Definition w_shift_overflow : expr := EBin BShl (EBin BShl (EConv TUint32 (EInt 1)) (EInt 31)) (EInt 1).
Definition w_add_overflow : expr := EBin BAdd (EConv TInt8 (EInt 100)) (EConv TInt8 (EInt 100)).

Lemma typed_overflow_refuted :
  (y_run (one_const true None w_shift_overflow) = Printed [(TUint32, OI 0)]
   /\ g_run (one_const true None w_shift_overflow) = Rejected)
  /\ (y_run (one_const true None w_add_overflow) = Printed [(TInt8, OI (-56))]
      /\ g_run (one_const true None w_add_overflow) = Rejected)
  /\ (y_run (PExpr (EConv TUint8 (EConv TInt16 (EInt 300)))) = Printed [(TUint8, OI 44)]
      /\ g_run (PExpr (EConv TUint8 (EConv TInt16 (EInt 300)))) = Rejected)
  /\ (y_run (PExpr (EUn UNeg (EConv TUint8 (EInt 1)))) = Printed [(TUint8, OI 255)]
      /\ g_run (PExpr (EUn UNeg (EConv TUint8 (EInt 1)))) = Rejected).
Proof. vm_compute. repeat split. Qed.

(** var b int8 = 200: the bound of representableConst for narrow signed types *)
Lemma signed_bitlen_refuted :
  y_run (PVar (Some TInt8) (EInt 200)) = Printed [(TInt8, OI (-56))]
  /\ g_run (PVar (Some TInt8) (EInt 200)) = Rejected.
Proof. vm_compute. split; reflexivity. Qed.

(** int8(5)/int8(0): a Go panic inside the interpreter instead of an error *)
Lemma typed_divzero_refuted :
  y_run (one_const true None (EBin BQuo (EConv TInt8 (EInt 5)) (EConv TInt8 (EInt 0)))) = HostPanic
  /\ g_run (one_const true None (EBin BQuo (EConv TInt8 (EInt 5)) (EConv TInt8 (EInt 0)))) = Rejected.
Proof. vm_compute. split; reflexivity. Qed.

(** -float64(0) is the floating-point value -0 *)
Lemma float_negzero_refuted :
  y_run (one_const true None (EUn UNeg (EConv TFloat64 (EInt 0)))) = Printed [(TFloat64, ONZ)]
  /\ g_run (one_const true None (EUn UNeg (EConv TFloat64 (EInt 0)))) = Printed [(TFloat64, OF (0 # 1))].
Proof. vm_compute. split; reflexivity. Qed.

(** const c = 1 < 2: comparisons, && and || are not folded; the constant is the zero value *)
Lemma const_compare_refuted :
  (y_run (one_const true None (EBin BLt (EInt 1) (EInt 2))) = Printed [(TBool, OB false)]
   /\ g_run (one_const true None (EBin BLt (EInt 1) (EInt 2))) = Printed [(TBool, OB true)])
  /\ (y_run (one_const false None (EBin BLand (EBool true) (EBool true))) = Printed [(TBool, OB false)]
      /\ g_run (one_const false None (EBin BLand (EBool true) (EBool true))) = Printed [(TBool, OB true)]).
Proof. vm_compute. repeat split. Qed.

(** const c = 1.5 + 3/2 is 3 (2.5 in Go); const c float64 = 3/2 is 1.5 (1 in Go);
    const c = int8(1) + 7/2 is 1 (4 in Go): the type found by an earlier visit, or the declared
    type, is handed down to 3/2, which is then divided exactly *)
Definition w_prop1 : expr := EBin BAdd (EFloat (3 # 2)) (EBin BQuo (EInt 3) (EInt 2)).
Definition w_prop2 : expr := EBin BQuo (EInt 3) (EInt 2).
Definition w_prop3 : expr := EBin BAdd (EConv TInt8 (EInt 1)) (EBin BQuo (EInt 7) (EInt 2)).

Lemma propagation_refuted :
  (y_run (one_const true None w_prop1) = Printed [(TFloat64, OF (3 # 1))]
   /\ g_run (one_const true None w_prop1) = Printed [(TFloat64, OF (5 # 2))])
  /\ (y_run (one_const true (Some TFloat64) w_prop2) = Printed [(TFloat64, OF (3 # 2))]
      /\ g_run (one_const true (Some TFloat64) w_prop2) = Printed [(TFloat64, OF (1 # 1))])
  /\ (y_run (one_const false None w_prop3) = Printed [(TInt8, OI 1)]
      /\ g_run (one_const false None w_prop3) = Printed [(TInt8, OI 4)])
  /\ (y_run (PExpr w_prop1) = g_run (PExpr w_prop1)).
Proof. vm_compute. repeat split. Qed.

(** const c = float64(3/2 + 1.5) is 0 and const c = string("a" + "b") is "\x00" *)
Definition w_requant1 : expr := EConv TFloat64 (EBin BAdd (EFloat (1 # 2)) (EFloat (3 # 2))).
Definition w_requant2 : expr := EConv TFloat64 (EBin BAdd (EFloat (1 # 4)) (EFloat (3 # 2))).
Definition w_requant3 : expr := EConv TString (EBin BAdd (EStr (s "a")) (EStr (s "b"))).

Lemma requantized_refuted :
  (y_run (one_const true None w_requant2) = Printed [(TFloat64, OF (0 # 1))]
   /\ g_run (one_const true None w_requant2) = Printed [(TFloat64, OF (7 # 4))])
  /\ (y_run (one_const true None w_requant3) = Printed [(TString, OS [byte 0])]
      /\ g_run (one_const true None w_requant3) = Printed [(TString, OS (s "ab"))])
  /\ (y_run (one_const true None w_requant1) = g_run (one_const true None w_requant1)).
Proof. vm_compute. repeat split. Qed.

(** 'a'/2 is an int (a rune in Go); (1.0<<3)/3 is 2.66... (2 in Go) *)
Lemma untyped_operands_refuted :
  (y_run (PExpr (EBin BQuo (ERune 97) (EInt 2))) = Printed [(TInt, OI 48)]
   /\ g_run (PExpr (EBin BQuo (ERune 97) (EInt 2))) = Printed [(TInt32, OI 48)])
  /\ (y_run (PExpr (EBin BQuo (EParen (EBin BShl (EFloat (1 # 1)) (EInt 3))) (EInt 3))) = Printed [(TFloat64, OF (6004799503160661 # 2251799813685248))]
      /\ g_run (PExpr (EBin BQuo (EParen (EBin BShl (EFloat (1 # 1)) (EInt 3))) (EInt 3))) = Printed [(TInt, OI 2)]).
Proof. vm_compute. repeat split. Qed.

(** const ( a, b = iota, iota*10; c, d = iota, iota*10 ): iota advances once per name *)
Definition w_iota_multi : program :=
  PConst true [[{| sp_names := [1%N; 2%N]; sp_type := None; sp_exprs := [EIota; EBin BMul EIota (EInt 10)] |};
                {| sp_names := [3%N; 4%N]; sp_type := None; sp_exprs := [EIota; EBin BMul EIota (EInt 10)] |}]]
         [3%N; 4%N].

Lemma iota_multi_refuted :
  y_run w_iota_multi = Printed [(TInt, OI 2); (TInt, OI 20)]
  /\ g_run w_iota_multi = Printed [(TInt, OI 1); (TInt, OI 10)].
Proof. vm_compute. split; reflexivity. Qed.

(** forms in which yaegi does reject as Go does *)
Lemma reject_inhabited :
  (y_run (one_const true (Some TUint8) (EInt 256)) = Rejected /\ g_run (one_const true (Some TUint8) (EInt 256)) = Rejected)
  /\ (y_run (PVar (Some TInt8) (EInt 256)) = Rejected /\ g_run (PVar (Some TInt8) (EInt 256)) = Rejected)
  /\ (y_run (PExpr (EBin BQuo (EInt 1) (EInt 0))) = Rejected /\ g_run (PExpr (EBin BQuo (EInt 1) (EInt 0))) = Rejected)
  /\ (y_run (PExpr (EConv TInt (EFloat (3 # 2)))) = Rejected /\ g_run (PExpr (EConv TInt (EFloat (3 # 2)))) = Rejected)
  /\ (y_run (one_const false None (EBin BShl (EInt 1) (EInt 200))) = Rejected
      /\ g_run (one_const false None (EBin BShl (EInt 1) (EInt 200))) = Rejected).
Proof. vm_compute. repeat split. Qed.

(* ------------------------------------------------------------------ *)
(** * 4. The untyped integer / rune / string / boolean fragment: one visit of a fresh tree *)

Definition intk (k : ukind) : bool := match k with UInt | URune => true | _ => false end.

(** [fr e = Some k]: e belongs to the fragment and has kind k.  The quotient of a rune by an
    integer is left out (yaegi gives it the kind of the divisor: region quo-no-unify); comparisons,
    && and || are left out (not folded: region const-compare). *)
Fixpoint fr (e : expr) : option ukind :=
  match e with
  | EInt _ | EIota => Some UInt
  | ERune _ => Some URune
  | EStr _ => Some UString
  | EBool _ => Some UBool
  | EParen a => fr a
  | EUn UNot a => match fr a with Some UBool => Some UBool | _ => None end
  | EUn _ a => match fr a with Some UInt => Some UInt | Some URune => Some URune | _ => None end
  | EBin o a b =>
      match fr a, fr b with
      | Some ka, Some kb =>
          if intk ka && intk kb then
            match o with
            | BAdd | BSub | BMul | BRem | BAnd | BOr | BXor | BAndNot => Some (umax ka kb)
            | BQuo => if urank ka <=? urank kb then Some kb else None
            | BShl | BShr => Some ka
            | _ => None
            end
          else match o, ka, kb with BAdd, UString, UString => Some UString | _, _, _ => None end
      | _, _ => None
      end
  | _ => None
  end.

(** one visit of the fresh tree of e outside any declaration: type and value of the root *)
Definition y_eval (iota : Z) (e : expr) : res (ytyp * option yval) :=
  let '(x, st) := y_pass {| cx_iota := iota; cx_env := []; cx_const := false |} PKeep (init e) in
  _ <- st ;; t <- typ_of x ;; Ok (t, dva (deco_of x)).

Definition g_as_y (c : gconst) : res (ytyp * option yval) :=
  match c with
  | (GU u, v) => Ok (y_typ_of u, Some (y_val_of v))
  | (GT t, v) => Ok (typed t, Some (y_val_of v))
  end.

Definition pr_none (pr : prop) : Prop :=
  match pr with PKeep | PSet None | PDest None => True | _ => False end.

Lemma pre_typ_none pr b : pr_none pr -> pre_typ pr b deco0 = None.
Proof. destruct pr as [|[t|]|[t|]], b; cbn; intros H; try contradiction; reflexivity. Qed.

Lemma wrap_uint_id z : 0 <= z < 2 ^ 64 -> wrap_to TUint (uint64_of z) = z.
Proof.
  intros H. unfold uint64_of, wrap_to, wrap_u. cbn [is_signed bits].
  destruct (in_range TInt64 z).
  - rewrite Z.mod_mod by (rewrite pow2_64; lia). apply Z.mod_small; lia.
  - rewrite Z.abs_eq by lia. rewrite Z.mod_mod by (rewrite pow2_64; lia). apply Z.mod_small; lia.
Qed.

(** the value of the integer operations, as G defines them *)
Definition int_val (o : binop) (x y : Z) : Z :=
  match o with
  | BAdd => x + y | BSub => x - y | BMul => x * y | BQuo => Z.quot x y | BRem => Z.rem x y
  | BAnd => Z.land x y | BOr => Z.lor x y | BXor => Z.lxor x y | BAndNot => Z.land x (Z.lnot y)
  | BShl => Z.shiftl x y | BShr => Z.shiftr x y
  | _ => 0
  end.

Definition int_arith (o : binop) : bool :=
  match o with BAdd | BSub | BMul | BAnd | BOr | BXor | BAndNot => true | _ => false end.

Definition root_is (x : dx) (t : ytyp) (v : yval) : Prop :=
  dty (deco_of x) = Some t /\ dva (deco_of x) = Some v.

Lemma root_typ_of x t v : root_is x t v -> typ_of x = Ok t.
Proof. intros [H _]. unfold typ_of. now rewrite H. Qed.

Ltac kinds :=
  repeat match goal with
         | k : ukind |- _ => destruct k; try discriminate; try contradiction
         end.

Lemma sgn_eqb0 z : (Z.sgn z =? 0) = (z =? 0).
Proof. destruct z; reflexivity. Qed.

(** the type the binaryExpr keeps: the one the pre-order gave it, else the computed one *)
Definition nt_of (d : deco) (dflt : ytyp) : ytyp := match dty d with Some t => t | None => dflt end.

Definition preset_ok (d : deco) : Prop :=
  dty d = None \/ exists kp, intk kp = true /\ dty d = Some (y_typ_of kp).

(** binaryExpr on two integer-kind constants; the node has no type yet (first visit) or an
    integer-kind type handed down by the pre-order (later visits) *)
Lemma y_binary_int o a b d ka kb za zb :
  intk ka = true -> intk kb = true ->
  root_is a (y_typ_of ka) (VC (CInt za)) -> root_is b (y_typ_of kb) (VC (CInt zb)) ->
  preset_ok d ->
  (int_arith o = true ->
     exists x, y_binary o a b d = Ok x /\ root_is x (nt_of d (y_typ_of (umax ka kb))) (VC (CInt (int_val o za zb))))
  /\ (o = BRem ->
      if zb =? 0 then y_binary o a b d = Err
      else exists x, y_binary o a b d = Ok x /\ root_is x (y_typ_of (umax ka kb)) (VC (CInt (Z.rem za zb))))
  /\ (o = BQuo ->
      if zb =? 0 then y_binary o a b d = Err
      else exists x, y_binary o a b d = Ok x /\ root_is x (nt_of d (y_typ_of kb)) (VC (CInt (Z.quot za zb))))
  /\ (o = BShl \/ o = BShr ->
      if in_range TUint zb
      then exists x, y_binary o a b d = Ok x /\ root_is x (nt_of d (y_typ_of ka)) (VC (CInt (int_val o za zb)))
      else y_binary o a b d = Err).
Proof.
  intros Hka Hkb [Ha1 Ha2] [Hb1 Hb2] Hd.
  unfold y_binary, typ_of, nt_of. rewrite Ha1, Hb1. cbn [bind].
  destruct (deco_of a) as [ta va ra] eqn:Ea. destruct (deco_of b) as [tb vb rb] eqn:Eb.
  cbn [dty dva] in *. subst ta va tb vb.
  assert (Hd' : exists od, dty d = od /\ (od = None \/ od = Some u_int \/ od = Some u_rune)).
  { destruct Hd as [Hd|[kp [Hk Hd]]]; [eexists; split; [exact Hd|auto]|].
    eexists; split; [exact Hd|]. destruct kp; try discriminate; cbn; auto. }
  destruct Hd' as [od [Hod Hcases]]. rewrite Hod. clear Hd.
  repeat split.
  - (* arithmetic *)
    intros Ho. destruct Hcases as [->|[->| ->]]; destruct o; try discriminate Ho; kinds; cbn;
      eexists; (split; [reflexivity|]); split; reflexivity.
  - (* remainder *)
    intros ->. cbn [is_logic is_shift is_cmp].
    destruct Hcases as [->|[->| ->]]; kinds;
      cbn [y_typ_of zero_const dty dva u_int u_rune yu yb negb c_sign bind];
      rewrite sgn_eqb0; destruct (zb =? 0) eqn:Ez; cbn; try reflexivity;
      rewrite ?Ez; eexists; (split; [reflexivity|]); split; reflexivity.
  - (* quotient *)
    intros ->. cbn [is_logic is_shift is_cmp].
    destruct Hcases as [->|[->| ->]]; kinds;
      cbn [y_typ_of zero_const dty dva u_int u_rune yu yb negb c_sign bind];
      rewrite sgn_eqb0; destruct (zb =? 0) eqn:Ez; cbn; try reflexivity;
      rewrite ?Ez; eexists; (split; [reflexivity|]); split; reflexivity.
  - (* shifts *)
    intros Ho.
    assert (Hsh : is_shift o = true) by (destruct Ho; subst; reflexivity).
    assert (Hlg : is_logic o = false) by (destruct Ho; subst; reflexivity).
    rewrite Hlg, Hsh.
    assert (Hr : y_representable (CInt zb) TUint = Ok ((0 <=? zb) && (zb <? 2 ^ 64))) by (now rewrite y_representable_int).
    assert (Hin : in_range TUint zb = (0 <=? zb) && (zb <? 2 ^ 64)).
    { unfold in_range, imin, imax. cbn [is_signed bits]. rewrite pow2_64.
      destruct (Z.leb_spec 0 zb), (Z.leb_spec zb (18446744073709551616 - 1)), (Z.ltb_spec zb 18446744073709551616); try reflexivity; lia. }
    rewrite Hin.
    destruct ((0 <=? zb) && (zb <? 2 ^ 64)) eqn:Hz.
    + apply andb_true_iff in Hz as [H0 H1]. apply Z.leb_le in H0. apply Z.ltb_lt in H1.
      assert (Hw := wrap_uint_id zb (conj H0 H1)).
      destruct Hcases as [->|[->| ->]]; destruct Ho; subst o; kinds;
        cbn -[y_representable convert_const Z.shiftl Z.shiftr wrap_to uint64_of];
        rewrite Hr; cbn -[Z.shiftl Z.shiftr wrap_to uint64_of]; rewrite Hw;
        eexists; (split; [reflexivity|]); split; reflexivity.
    + destruct Hcases as [->|[->| ->]]; destruct Ho; subst o; kinds;
        cbn -[y_representable convert_const]; rewrite Hr; reflexivity.
Qed.

(** the same for two string constants *)
Lemma y_binary_str a b d xa xb :
  root_is a u_string (VC (CStr xa)) -> root_is b u_string (VC (CStr xb)) ->
  (dty d = None \/ dty d = Some u_string) ->
  exists x, y_binary BAdd a b d = Ok x /\ root_is x u_string (VC (CStr (xa ++ xb))).
Proof.
  intros [Ha1 Ha2] [Hb1 Hb2] Hd.
  unfold y_binary, typ_of. rewrite Ha1, Hb1. cbn [bind].
  destruct (deco_of a) as [ta va ra] eqn:Ea. destruct (deco_of b) as [tb vb rb] eqn:Eb.
  cbn [dty dva] in *. subst ta va tb vb.
  destruct Hd as [Hd|Hd]; rewrite Hd; cbn; eexists; (split; [reflexivity|]); split; reflexivity.
Qed.

Definition un_val (o : unop) (z : Z) : Z :=
  match o with UNeg => - z | UXor => Z.lnot z | _ => z end.

Lemma y_unary_int o c d k z :
  intk k = true -> o <> UNot -> root_is c (y_typ_of k) (VC (CInt z)) ->
  exists x, y_unary o c d = Ok x /\ root_is x (y_typ_of k) (VC (CInt (un_val o z))).
Proof.
  intros Hk Ho [H1 H2]. unfold y_unary, typ_of. rewrite H1. cbn [bind]. rewrite H2.
  destruct o; try congruence; kinds; cbn; eexists; (split; [reflexivity|]); split; reflexivity.
Qed.

Lemma y_unary_bool c d b :
  root_is c u_bool (VM TBool (MB b)) ->
  exists x, y_unary UNot c d = Ok x /\ root_is x u_bool (VM TBool (MB (negb b))).
Proof.
  intros [H1 H2]. unfold y_unary, typ_of. rewrite H1. cbn [bind]. rewrite H2.
  cbn. eexists; (split; [reflexivity|]); split; reflexivity.
Qed.

(** G on the same operations *)
Lemma g_binary_int o ka kb za zb :
  intk ka = true -> intk kb = true ->
  g_binary o (GU ka, GI za) (GU kb, GI zb) =
  match o with
  | BAdd | BSub | BMul | BAnd | BOr | BXor | BAndNot => Some (GU (umax ka kb), GI (int_val o za zb))
  | BRem => if zb =? 0 then None else Some (GU (umax ka kb), GI (Z.rem za zb))
  | BQuo => if zb =? 0 then None else Some (GU (umax ka kb), GI (Z.quot za zb))
  | BShl | BShr => if in_range TUint zb then Some (GU ka, GI (int_val o za zb)) else None
  | BLand | BLor => None
  | _ => g_binary o (GU ka, GI za) (GU kb, GI zb)
  end.
Proof.
  intros Ha Hb. destruct o; kinds; cbn; try reflexivity;
    try (destruct (zb =? 0); reflexivity); destruct (in_range TUint zb); reflexivity.
Qed.

Lemma umax_quo ka kb : intk ka = true -> intk kb = true -> (urank ka <=? urank kb) = true -> umax ka kb = kb.
Proof. intros; kinds; reflexivity. Qed.

Lemma intk_umax ka kb : intk ka = true -> intk kb = true -> intk (umax ka kb) = true.
Proof. intros; kinds; reflexivity. Qed.

Lemma wf_int k v : intk k = true -> wf_untyped k v -> exists z, v = GI z.
Proof. destruct k, v; cbn; intros; try discriminate; try contradiction; eauto. Qed.
Lemma wf_str v : wf_untyped UString v -> exists x, v = GS x.
Proof. destruct v; cbn; intros; try contradiction; eauto. Qed.
Lemma wf_bool v : wf_untyped UBool v -> exists b, v = GB b.
Proof. destruct v; cbn; intros; try contradiction; eauto. Qed.

(** ** one visit of the fresh tree *)
Lemma fresh_pass e : forall k, fr e = Some k ->
  forall cx pr, pr_none pr ->
  match g_eval [] (cx_iota cx) e with
  | Some (gk, v) =>
      gk = GU k /\ wf_untyped k v /\
      exists x, y_pass cx pr (init e) = (x, Ok tt) /\ root_is x (y_typ_of k) (y_val_of v)
  | None => exists x, y_pass cx pr (init e) = (x, Err)
  end.
Proof.
  induction e as [z|z|q|x|b| |n|a IHa|o a IHa|o a IHa b IHb|t a IHa|a IHa]; intros k Hk cx pr Hpr;
    cbn [fr] in Hk; try discriminate.
  - (* EInt *) injection Hk as <-. cbn. repeat split. eexists; split; [reflexivity|split; reflexivity].
  - (* ERune *) injection Hk as <-. cbn. repeat split. eexists; split; [reflexivity|split; reflexivity].
  - (* EStr *) injection Hk as <-. cbn. repeat split. eexists; split; [reflexivity|split; reflexivity].
  - (* EBool *) injection Hk as <-. cbn. repeat split. eexists; split; [reflexivity|split; reflexivity].
  - (* EIota *) injection Hk as <-. cbn. repeat split. eexists; split; [reflexivity|split; reflexivity].
  - (* EParen *)
    cbn [init y_pass g_eval]. rewrite pre_typ_none by assumption.
    specialize (IHa k Hk cx (PSet None) I).
    destruct (g_eval [] (cx_iota cx) a) as [[gk v]|].
    + destruct IHa as (-> & Hwf & x & Hx & Ht & Hv). repeat split; [assumption|].
      rewrite Hx. eexists; split; [reflexivity|]. split; cbn; assumption.
    + destruct IHa as (x & Hx). rewrite Hx. eexists; reflexivity.
  - (* EUn *)
    cbn [init y_pass g_eval]. rewrite pre_typ_none by assumption.
    destruct (fr a) as [ka|] eqn:Hfa; [|destruct o; discriminate].
    specialize (IHa ka eq_refl cx (PSet None) I).
    destruct (g_eval [] (cx_iota cx) a) as [[gk v]|].
    + destruct IHa as (-> & Hwf & x & Hx & Hroot). rewrite Hx.
      destruct o.
      * (* UPos *) assert (Hik : intk ka = true /\ k = ka) by (destruct ka; try discriminate; injection Hk as <-; auto).
        destruct Hik as [Hik ->]. destruct (wf_int ka v Hik Hwf) as [z ->].
        destruct (y_unary_int UPos x {| dty := None; dva := dva deco0; dres := dres deco0 |} ka z Hik ltac:(discriminate) Hroot) as (x' & Hy & Hr).
        cbn [fin]. rewrite Hy. destruct ka; try discriminate; cbn; repeat split; eexists; (split; [reflexivity|exact Hr]).
      * (* UNeg *) assert (Hik : intk ka = true /\ k = ka) by (destruct ka; try discriminate; injection Hk as <-; auto).
        destruct Hik as [Hik ->]. destruct (wf_int ka v Hik Hwf) as [z ->].
        destruct (y_unary_int UNeg x {| dty := None; dva := dva deco0; dres := dres deco0 |} ka z Hik ltac:(discriminate) Hroot) as (x' & Hy & Hr).
        cbn [fin]. rewrite Hy. destruct ka; try discriminate; cbn; repeat split; eexists; (split; [reflexivity|exact Hr]).
      * (* UXor *) assert (Hik : intk ka = true /\ k = ka) by (destruct ka; try discriminate; injection Hk as <-; auto).
        destruct Hik as [Hik ->]. destruct (wf_int ka v Hik Hwf) as [z ->].
        destruct (y_unary_int UXor x {| dty := None; dva := dva deco0; dres := dres deco0 |} ka z Hik ltac:(discriminate) Hroot) as (x' & Hy & Hr).
        cbn [fin]. rewrite Hy. destruct ka; try discriminate; cbn; repeat split; eexists; (split; [reflexivity|exact Hr]).
      * (* UNot *) destruct ka; try discriminate. injection Hk as <-.
        destruct (wf_bool v Hwf) as [b ->].
        destruct (y_unary_bool x {| dty := None; dva := dva deco0; dres := dres deco0 |} b Hroot) as (x' & Hy & Hr).
        cbn [fin]. rewrite Hy. cbn. repeat split. eexists; (split; [reflexivity|exact Hr]).
    + destruct IHa as (x & Hx). rewrite Hx. eexists; reflexivity.
  - (* EBin *)
    destruct (fr a) as [ka|] eqn:Hfa; [|discriminate].
    destruct (fr b) as [kb|] eqn:Hfb; [|discriminate].
    assert (Hlg : is_logic o = false).
    { destruct o; try reflexivity; destruct (intk ka && intk kb); destruct ka, kb; discriminate. }
    assert (Hcm : is_cmp o = false).
    { destruct o; try reflexivity; destruct (intk ka && intk kb); destruct ka, kb; discriminate. }
    cbn [init y_pass g_eval]. rewrite Hlg, Hcm. rewrite pre_typ_none by assumption.
    specialize (IHa ka eq_refl cx (PSet None) I). specialize (IHb kb eq_refl cx (PSet None) I).
    destruct (g_eval [] (cx_iota cx) a) as [[gka va]|].
    2:{ destruct IHa as (x & Hx). rewrite Hx. eexists; reflexivity. }
    destruct IHa as (-> & Hwa & xa & Hxa & Hra). rewrite Hxa.
    destruct (g_eval [] (cx_iota cx) b) as [[gkb vb]|].
    2:{ destruct IHb as (x & Hx). rewrite Hx. eexists; reflexivity. }
    destruct IHb as (-> & Hwb & xb & Hxb & Hrb). rewrite Hxb. cbn [fin].
    set (d1 := {| dty := None; dva := dva deco0; dres := dres deco0 |}).
    destruct (intk ka && intk kb) eqn:Hik.
    + apply andb_true_iff in Hik as [Hia Hib].
      destruct (wf_int ka va Hia Hwa) as [za ->].
      destruct (wf_int kb vb Hib Hwb) as [zb ->].
      cbn [y_val_of] in Hra, Hrb.
      pose proof (y_binary_int o xa xb d1 ka kb za zb Hia Hib Hra Hrb (or_introl eq_refl)) as (HA & HR & HQ & HS).
      rewrite (g_binary_int o ka kb za zb Hia Hib).
      assert (Hwf : forall z, wf_untyped (umax ka kb) (GI z)) by (intros; destruct ka, kb; try discriminate; exact I).
      destruct o; try discriminate Hk.
      all: try (injection Hk as <-; destruct (HA eq_refl) as (x & Hy & Hr); rewrite Hy;
                repeat split; [apply Hwf|]; eexists; (split; [reflexivity|exact Hr])).
      * (* BQuo *)
        destruct (urank ka <=? urank kb) eqn:Hrk; [|discriminate]. injection Hk as <-.
        specialize (HQ eq_refl). destruct (zb =? 0).
        -- rewrite HQ. eexists; reflexivity.
        -- destruct HQ as (x & Hy & Hr). rewrite Hy. rewrite (umax_quo ka kb Hia Hib Hrk).
           repeat split; [destruct kb; try discriminate; exact I|]. eexists; (split; [reflexivity|exact Hr]).
      * (* BRem *)
        injection Hk as <-. specialize (HR eq_refl). destruct (zb =? 0).
        -- rewrite HR. eexists; reflexivity.
        -- destruct HR as (x & Hy & Hr). rewrite Hy.
           repeat split; [apply Hwf|]. eexists; (split; [reflexivity|exact Hr]).
      * (* BShl *)
        injection Hk as <-. specialize (HS (or_introl eq_refl)). destruct (in_range TUint zb).
        -- destruct HS as (x & Hy & Hr). rewrite Hy.
           repeat split; [destruct ka; try discriminate; exact I|]. eexists; (split; [reflexivity|exact Hr]).
        -- rewrite HS. eexists; reflexivity.
      * (* BShr *)
        injection Hk as <-. specialize (HS (or_intror eq_refl)). destruct (in_range TUint zb).
        -- destruct HS as (x & Hy & Hr). rewrite Hy.
           repeat split; [destruct ka; try discriminate; exact I|]. eexists; (split; [reflexivity|exact Hr]).
        -- rewrite HS. eexists; reflexivity.
    + (* strings *)
      assert (o = BAdd /\ ka = UString /\ kb = UString /\ k = UString) as (-> & -> & -> & ->).
      { destruct o, ka, kb; try discriminate; injection Hk as <-; auto. }
      destruct (wf_str va Hwa) as [sa ->]. destruct (wf_str vb Hwb) as [sb ->].
      destruct (y_binary_str xa xb d1 sa sb Hra Hrb (or_introl eq_refl)) as (x' & Hy & Hr).
      rewrite Hy. cbn. repeat split. eexists; (split; [reflexivity|exact Hr]).
Qed.

(** every expression of the fragment, at any depth and with literals of any magnitude, gets from one
    visit of yaegi the kind and the exact value the specification gives it, and is rejected when
    the specification rejects it (division by zero, shift count out of range) *)
Lemma untyped_agree e k iota :
  fr e = Some k ->
  y_eval iota e = match g_eval [] iota e with Some c => g_as_y c | None => Err end.
Proof.
  intros Hk. unfold y_eval.
  pose proof (fresh_pass e k Hk {| cx_iota := iota; cx_env := []; cx_const := false |} PKeep I) as H.
  cbn [cx_iota] in H.
  destruct (g_eval [] iota e) as [[gk v]|].
  - destruct H as (-> & Hwf & x & Hx & Ht & Hv). rewrite Hx. cbn [bind].
    unfold typ_of. rewrite Ht. cbn [bind]. rewrite Hv. reflexivity.
  - destruct H as (x & Hx). rewrite Hx. reflexivity.
Qed.

Lemma fr_kind e k iota gk v : fr e = Some k -> g_eval [] iota e = Some (gk, v) -> gk = GU k /\ wf_untyped k v.
Proof.
  intros Hk Hg.
  pose proof (fresh_pass e k Hk {| cx_iota := iota; cx_env := []; cx_const := false |} PKeep I) as H.
  cbn [cx_iota] in H. rewrite Hg in H. destruct H as (H1 & H2 & _). auto.
Qed.

Example untyped_inhabited :
  fr (EBin BShr (EBin BShl (EInt 1) (EInt 200)) (EBin BSub (EInt 199) (ERune 1))) = Some UInt
  /\ g_eval [] 0 (EBin BShr (EBin BShl (EInt 1) (EInt 200)) (EBin BSub (EInt 199) (ERune 1))) = Some (GU UInt, GI 4).
Proof. split; reflexivity. Qed.

(* ------------------------------------------------------------------ *)
(** * 5. Use of an untyped constant as an operand of fmt.Printf: default type and representability *)

Lemma wrap_s_id w z : 0 < w -> - 2 ^ (w - 1) <= z <= 2 ^ (w - 1) - 1 -> wrap_s w z = z.
Proof.
  intros Hw Hz. unfold wrap_s.
  assert (H2 : 2 ^ w = 2 * 2 ^ (w - 1)).
  { replace w with (w - 1 + 1) at 1 by lia. rewrite Z.pow_add_r by lia. change (2 ^ 1) with 2. lia. }
  rewrite Z.mod_small by lia. lia.
Qed.

Lemma int64_of_id z : in_range TInt64 z = true -> int64_of z = z.
Proof. intros H. unfold int64_of. now rewrite H. Qed.

Lemma in_range_int_64 z : in_range TInt z = in_range TInt64 z.
Proof. reflexivity. Qed.

Lemma in_range_32_64 z : in_range TInt32 z = true -> in_range TInt64 z = true.
Proof.
  unfold in_range, imin, imax. cbn. rewrite !andb_true_iff, !Z.leb_le. lia.
Qed.

(** side condition for runes: the value is not in the zone where representableConst is wrong for int32 *)
Definition rune_zone_free (z : Z) : bool := Bool.eqb (in_range TInt32 z) (Z.abs z <? 2 ^ 32).

Definition use_side (u : ukind) (v : gval) : bool :=
  match u, v with
  | URune, GI z => rune_zone_free z
  | UFloat, _ => false
  | _, _ => true
  end.

Lemma use_agree u v :
  wf_untyped u v -> use_side u v = true ->
  y_use (y_typ_of u) (Some (y_val_of v)) = match g_use (GU u, v) with Some o => Ok o | None => Err end.
Proof.
  intros Hwf Hs. destruct u, v; cbn in Hwf, Hs; try contradiction; try discriminate.
  - (* int *)
    unfold y_use. cbn [y_typ_of y_val_of].
    replace (default_of u_int (Some (VC (CInt z)))) with (typed TInt) by reflexivity.
    cbn [yu u_int]. unfold convert_untyped. cbn [dty dva yu u_int typed negb yb].
    rewrite (repr_int_agree z TInt eq_refl eq_refl). cbn [bind g_repr is_int is_signed orb].
    unfold g_use, g_repr. cbn [default_type is_int is_signed orb].
    destruct (in_range TInt z) eqn:Hr; cbn [bind option_map]; [|reflexivity].
    unfold convert_const. cbn [is_boolean is_string is_signed c_toint c_int64val bind].
    rewrite in_range_int_64 in Hr. rewrite (int64_of_id z Hr).
    unfold set_int, wrap_to. cbn [is_signed bits].
    rewrite wrap_s_id; [reflexivity|lia|].
    rewrite in_range_i64 in Hr. apply andb_true_iff in Hr as [H1 H2]. apply Z.leb_le in H1, H2.
    change (2 ^ (64 - 1)) with 9223372036854775808. lia.
  - (* rune *)
    unfold y_use. cbn [y_typ_of y_val_of].
    replace (default_of u_rune (Some (VC (CInt z)))) with (typed TInt32) by reflexivity.
    cbn [yu u_rune]. unfold convert_untyped. cbn [dty dva yu u_rune typed negb yb].
    rewrite (repr_narrow_signed z TInt32 eq_refl). cbn [bind bits].
    unfold g_use, g_repr. cbn [default_type is_int is_signed orb].
    unfold rune_zone_free in Hs. apply Bool.eqb_prop in Hs. rewrite <- Hs.
    destruct (in_range TInt32 z) eqn:Hr; cbn [bind option_map]; [|reflexivity].
    unfold convert_const. cbn [is_boolean is_string is_signed c_toint c_int64val bind].
    rewrite (int64_of_id z (in_range_32_64 z Hr)).
    unfold set_int, wrap_to. cbn [is_signed bits].
    rewrite wrap_s_id; [reflexivity|lia|].
    unfold in_range, imin, imax in Hr. cbn in Hr.
    apply andb_true_iff in Hr as [H1 H2]. apply Z.leb_le in H1, H2.
    change (2 ^ (32 - 1)) with 2147483648. lia.
  - (* string *) reflexivity.
  - (* bool *) reflexivity.
Qed.

(** fmt.Printf("%T|%v", e, e) with e in the fragment: same printed type and value, or rejected by both *)
Definition expr_side (e : expr) : bool :=
  match g_eval [] 0 e with
  | Some (GU u, v) => use_side u v
  | _ => true
  end.

Lemma expr_agree e k : fr e = Some k -> expr_side e = true -> y_run (PExpr e) = g_run (PExpr e).
Proof.
  intros Hk Hs. unfold y_run, g_run.
  pose proof (fresh_pass e k Hk {| cx_iota := 0; cx_env := []; cx_const := false |} PKeep I) as H.
  cbn [cx_iota] in H. unfold expr_side in Hs.
  destruct (g_eval [] 0 e) as [[gk v]|].
  - destruct H as (-> & Hwf & x & Hx & Ht & Hv). rewrite Hx. cbn [bind].
    unfold typ_of. rewrite Ht. cbn [bind]. rewrite Hv.
    rewrite (use_agree k v Hwf Hs).
    destruct (g_use (GU k, v)); reflexivity.
  - destruct H as (x & Hx). rewrite Hx. reflexivity.
Qed.
