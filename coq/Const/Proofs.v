(** C03 — proofs relating Y (yaegi's constant machinery, Const/YaegiConst.v) and G (the Go
    specification, Const/ConstSem.v). *)
From Verif Require Import Const.Model.
From Coq Require Import Lia ZArith Bool List.
Open Scope Z_scope.

(* ------------------------------------------------------------------ *)
(** * 1. Representability of integer constants (representableConst against the specification) *)

Definition narrow_signed (t : bt) : bool :=
  match t with TInt8 | TInt16 | TInt32 => true | _ => false end.

Lemma bitlen_le z n : 0 <= z -> 0 < n -> (bitlen z <=? n) = (z <? 2 ^ n).
Proof.
  intros Hz Hn. unfold bitlen.
  destruct (Z.eqb_spec z 0) as [->|Hne].
  - assert (0 < 2 ^ n) by (apply Z.pow_pos_nonneg; lia).
    destruct (Z.leb_spec 0 n), (Z.ltb_spec 0 (2 ^ n)); try reflexivity; lia.
  - rewrite Z.abs_eq by lia.
    assert (Hp : 0 < z) by lia.
    pose proof (Z.log2_lt_pow2 z n Hp) as [H1 H2].
    destruct (Z.leb_spec (Z.log2 z + 1) n), (Z.ltb_spec z (2 ^ n)); try reflexivity; lia.
Qed.

Lemma bitlen_abs z : bitlen z = bitlen (Z.abs z).
Proof.
  unfold bitlen. rewrite Z.abs_involutive.
  destruct (Z.eqb_spec z 0), (Z.eqb_spec (Z.abs z) 0); try reflexivity; lia.
Qed.

Lemma pow2_64 : 2 ^ 64 = 18446744073709551616. Proof. reflexivity. Qed.
Lemma pow2_63 : 2 ^ 63 = 9223372036854775808. Proof. reflexivity. Qed.

Lemma in_range_u64 z : in_range TUint64 z = (0 <=? z) && (z <=? 18446744073709551615).
Proof. reflexivity. Qed.
Lemma in_range_i64 z : in_range TInt64 z = (-9223372036854775808 <=? z) && (z <=? 9223372036854775807).
Proof. reflexivity. Qed.

(** what representableConst computes for an integer constant *)
Lemma y_representable_int z t :
  is_int t = true ->
  y_representable (CInt z) t =
  Ok (if is_signed t then in_range TInt64 z && (Z.abs z <? 2 ^ bits t)
      else (0 <=? z) && (z <? 2 ^ bits t)).
Proof.
  intros Hi. unfold y_representable. rewrite Hi. cbn [c_toint c_is_int negb].
  assert (Hb : 0 < bits t) by (destruct t; cbn; lia).
  destruct (is_signed t) eqn:Hs.
  - cbn [c_int64val bind].
    destruct (in_range TInt64 z) eqn:Hr; cbn [negb andb]; [|reflexivity].
    rewrite bitlen_abs, bitlen_le by lia. reflexivity.
  - cbn [c_uint64val bind]. rewrite in_range_u64.
    assert (bits t <= 64) by (destruct t; cbn; lia).
    assert (2 ^ bits t <= 2 ^ 64) by (apply Z.pow_le_mono_r; lia).
    rewrite pow2_64 in *.
    destruct (Z.leb_spec 0 z); cbn [andb negb]; [|reflexivity].
    destruct (Z.leb_spec z 18446744073709551615); cbn [negb].
    + rewrite bitlen_le by lia. reflexivity.
    + destruct (Z.ltb_spec z (2 ^ bits t)); [lia|reflexivity].
Qed.

(** for every integer and every integer type other than int8, int16, int32 yaegi decides
    representability as the specification does *)
Lemma repr_int_agree z t :
  is_int t = true -> narrow_signed t = false ->
  y_representable (CInt z) t = Ok (match g_repr (GI z) t with Some _ => true | None => false end).
Proof.
  intros Hi Hn. rewrite y_representable_int by assumption.
  unfold g_repr. rewrite Hi. f_equal.
  destruct (is_signed t) eqn:Hs.
  - assert (Ht : t = TInt \/ t = TInt64) by (destruct t; try discriminate; auto).
    assert (Hr : in_range t z = in_range TInt64 z) by (destruct Ht; subst; reflexivity).
    assert (Hbits : bits t = 64) by (destruct Ht; subst; reflexivity).
    rewrite Hr, Hbits. destruct (in_range TInt64 z) eqn:E; [|reflexivity].
    rewrite in_range_i64 in E. apply andb_true_iff in E as [E1 E2].
    apply Z.leb_le in E1, E2. rewrite pow2_64.
    destruct (Z.ltb_spec (Z.abs z) 18446744073709551616); [reflexivity|lia].
  - unfold in_range, imin, imax. rewrite Hs.
    destruct (Z.leb_spec 0 z); cbn [andb]; [|reflexivity].
    destruct (Z.ltb_spec z (2 ^ bits t)), (Z.leb_spec z (2 ^ bits t - 1)); try reflexivity; lia.
Qed.

(** ... and for int8, int16, int32 it accepts exactly the integers of magnitude below 2^N *)
Lemma repr_narrow_signed z t :
  narrow_signed t = true -> y_representable (CInt z) t = Ok (Z.abs z <? 2 ^ bits t).
Proof.
  intros Hn.
  assert (Hi : is_int t = true) by (destruct t; try discriminate; reflexivity).
  assert (Hs : is_signed t = true) by (destruct t; try discriminate; reflexivity).
  rewrite y_representable_int, Hs by assumption. f_equal.
  assert (Hb : bits t <= 32) by (destruct t; try discriminate; cbn; lia).
  assert (0 < bits t) by (destruct t; cbn; lia).
  assert (2 ^ bits t <= 2 ^ 32) by (apply Z.pow_le_mono_r; lia).
  change (2 ^ 32) with 4294967296 in *.
  destruct (Z.ltb_spec (Z.abs z) (2 ^ bits t)); [|apply andb_false_r].
  rewrite andb_true_r, in_range_i64.
  apply andb_true_iff; split; apply Z.leb_le; lia.
Qed.

Lemma repr_bitlen_refuted :
  y_representable (CInt 200) TInt8 = Ok true /\ g_repr (GI 200) TInt8 = None.
Proof. split; reflexivity. Qed.

Lemma repr_int_inhabited :
  is_int TUint8 = true /\ narrow_signed TUint8 = false /\ g_repr (GI 256) TUint8 = None
  /\ y_representable (CInt 256) TUint8 = Ok false.
Proof. repeat split; reflexivity. Qed.

(* ------------------------------------------------------------------ *)
(** * 2. Default types *)

(** the constant as yaegi holds it when its kind is untyped *)
Definition y_typ_of (u : ukind) : ytyp :=
  match u with UInt => u_int | URune => u_rune | UFloat => u_float | UString => u_string | UBool => u_bool end.

Definition y_val_of (v : gval) : yval :=
  match v with GI z => VC (CInt z) | GQ q => VC (CRat q) | GS x => VC (CStr x) | GB b => VM TBool (MB b) end.

(** kind and value fit together *)
Definition wf_untyped (u : ukind) (v : gval) : Prop :=
  match u, v with
  | UInt, GI _ | URune, GI _ | UFloat, GQ _ | UString, GS _ | UBool, GB _ => True
  | _, _ => False
  end.

Lemma default_type_agree u v :
  wf_untyped u v -> default_of (y_typ_of u) (Some (y_val_of v)) = typed (default_type u).
Proof. destruct u, v; cbn; intros H; try contradiction; reflexivity. Qed.

(* ------------------------------------------------------------------ *)
(** * 3. Witnesses: programs on which the faithful model differs from the specification *)

Definition one_const (global : bool) (ty : option bt) (e : expr) : program :=
  PConst global [[{| sp_names := [1%N]; sp_type := ty; sp_exprs := [e] |}]] [1%N].

(** uint32(1)<<31<<1 and int8(100)+int8(100): typed constant arithmetic wraps *)
Definition w_shift_overflow : expr := EBin BShl (EBin BShl (EConv TUint32 (EInt 1)) (EInt 31)) (EInt 1).
Definition w_add_overflow : expr := EBin BAdd (EConv TInt8 (EInt 100)) (EConv TInt8 (EInt 100)).

Lemma typed_overflow_refuted :
  (y_run (one_const true None w_shift_overflow) = Printed [(TUint32, OI 0)]
   /\ g_run (one_const true None w_shift_overflow) = Rejected)
  /\ (y_run (one_const true None w_add_overflow) = Printed [(TInt8, OI (-56))]
      /\ g_run (one_const true None w_add_overflow) = Rejected)
  /\ (y_run (PExpr (EConv TUint8 (EConv TInt16 (EInt 300)))) = Printed [(TUint8, OI 44)]
      /\ g_run (PExpr (EConv TUint8 (EConv TInt16 (EInt 300)))) = Rejected)
  /\ (y_run (PExpr (EUn UNeg (EConv TUint8 (EInt 1)))) = Printed [(TUint8, OI 255)]
      /\ g_run (PExpr (EUn UNeg (EConv TUint8 (EInt 1)))) = Rejected).
Proof. vm_compute. repeat split. Qed.

(** var b int8 = 200: the bound of representableConst for narrow signed types *)
Lemma signed_bitlen_refuted :
  y_run (PVar (Some TInt8) (EInt 200)) = Printed [(TInt8, OI (-56))]
  /\ g_run (PVar (Some TInt8) (EInt 200)) = Rejected.
Proof. vm_compute. split; reflexivity. Qed.

(** int8(5)/int8(0): a Go panic inside the interpreter instead of an error *)
Lemma typed_divzero_refuted :
  y_run (one_const true None (EBin BQuo (EConv TInt8 (EInt 5)) (EConv TInt8 (EInt 0)))) = HostPanic
  /\ g_run (one_const true None (EBin BQuo (EConv TInt8 (EInt 5)) (EConv TInt8 (EInt 0)))) = Rejected.
Proof. vm_compute. split; reflexivity. Qed.

(** -float64(0) is the floating-point value -0 *)
Lemma float_negzero_refuted :
  y_run (one_const true None (EUn UNeg (EConv TFloat64 (EInt 0)))) = Printed [(TFloat64, ONZ)]
  /\ g_run (one_const true None (EUn UNeg (EConv TFloat64 (EInt 0)))) = Printed [(TFloat64, OF (0 # 1))].
Proof. vm_compute. split; reflexivity. Qed.

(** const c = 1 < 2: comparisons, && and || are not folded; the constant is the zero value *)
Lemma const_compare_refuted :
  (y_run (one_const true None (EBin BLt (EInt 1) (EInt 2))) = Printed [(TBool, OB false)]
   /\ g_run (one_const true None (EBin BLt (EInt 1) (EInt 2))) = Printed [(TBool, OB true)])
  /\ (y_run (one_const false None (EBin BLand (EBool true) (EBool true))) = Printed [(TBool, OB false)]
      /\ g_run (one_const false None (EBin BLand (EBool true) (EBool true))) = Printed [(TBool, OB true)]).
Proof. vm_compute. repeat split. Qed.

(** const c = 1.5 + 3/2 is 3 (2.5 in Go); const c float64 = 3/2 is 1.5 (1 in Go);
    const c = int8(1) + 7/2 is 1 (4 in Go): the type found by an earlier visit, or the declared
    type, is handed down to 3/2, which is then divided exactly *)
Definition w_prop1 : expr := EBin BAdd (EFloat (3 # 2)) (EBin BQuo (EInt 3) (EInt 2)).
Definition w_prop2 : expr := EBin BQuo (EInt 3) (EInt 2).
Definition w_prop3 : expr := EBin BAdd (EConv TInt8 (EInt 1)) (EBin BQuo (EInt 7) (EInt 2)).

Lemma propagation_refuted :
  (y_run (one_const true None w_prop1) = Printed [(TFloat64, OF (3 # 1))]
   /\ g_run (one_const true None w_prop1) = Printed [(TFloat64, OF (5 # 2))])
  /\ (y_run (one_const true (Some TFloat64) w_prop2) = Printed [(TFloat64, OF (3 # 2))]
      /\ g_run (one_const true (Some TFloat64) w_prop2) = Printed [(TFloat64, OF (1 # 1))])
  /\ (y_run (one_const false None w_prop3) = Printed [(TInt8, OI 1)]
      /\ g_run (one_const false None w_prop3) = Printed [(TInt8, OI 4)])
  /\ (y_run (PExpr w_prop1) = g_run (PExpr w_prop1)).
Proof. vm_compute. repeat split. Qed.

(** const c = float64(3/2 + 1.5) is 0 and const c = string("a" + "b") is "\x00" *)
Definition w_requant1 : expr := EConv TFloat64 (EBin BAdd (EFloat (1 # 2)) (EFloat (3 # 2))).
Definition w_requant2 : expr := EConv TFloat64 (EBin BAdd (EFloat (1 # 4)) (EFloat (3 # 2))).
Definition w_requant3 : expr := EConv TString (EBin BAdd (EStr (s "a")) (EStr (s "b"))).

Lemma requantized_refuted :
  (y_run (one_const true None w_requant2) = Printed [(TFloat64, OF (0 # 1))]
   /\ g_run (one_const true None w_requant2) = Printed [(TFloat64, OF (7 # 4))])
  /\ (y_run (one_const true None w_requant3) = Printed [(TString, OS [byte 0])]
      /\ g_run (one_const true None w_requant3) = Printed [(TString, OS (s "ab"))])
  /\ (y_run (one_const true None w_requant1) = g_run (one_const true None w_requant1)).
Proof. vm_compute. repeat split. Qed.

(** 'a'/2 is an int (a rune in Go); (1.0<<3)/3 is 2.66... (2 in Go) *)
Lemma untyped_operands_refuted :
  (y_run (PExpr (EBin BQuo (ERune 97) (EInt 2))) = Printed [(TInt, OI 48)]
   /\ g_run (PExpr (EBin BQuo (ERune 97) (EInt 2))) = Printed [(TInt32, OI 48)])
  /\ (y_run (PExpr (EBin BQuo (EParen (EBin BShl (EFloat (1 # 1)) (EInt 3))) (EInt 3))) = Printed [(TFloat64, OF (6004799503160661 # 2251799813685248))]
      /\ g_run (PExpr (EBin BQuo (EParen (EBin BShl (EFloat (1 # 1)) (EInt 3))) (EInt 3))) = Printed [(TInt, OI 2)]).
Proof. vm_compute. repeat split. Qed.

(** const ( a, b = iota, iota*10; c, d = iota, iota*10 ): iota advances once per name *)
Definition w_iota_multi : program :=
  PConst true [[{| sp_names := [1%N; 2%N]; sp_type := None; sp_exprs := [EIota; EBin BMul EIota (EInt 10)] |};
                {| sp_names := [3%N; 4%N]; sp_type := None; sp_exprs := [EIota; EBin BMul EIota (EInt 10)] |}]]
         [3%N; 4%N].

Lemma iota_multi_refuted :
  y_run w_iota_multi = Printed [(TInt, OI 2); (TInt, OI 20)]
  /\ g_run w_iota_multi = Printed [(TInt, OI 1); (TInt, OI 10)].
Proof. vm_compute. split; reflexivity. Qed.

(** forms in which yaegi does reject as Go does *)
Lemma reject_inhabited :
  (y_run (one_const true (Some TUint8) (EInt 256)) = Rejected /\ g_run (one_const true (Some TUint8) (EInt 256)) = Rejected)
  /\ (y_run (PVar (Some TInt8) (EInt 256)) = Rejected /\ g_run (PVar (Some TInt8) (EInt 256)) = Rejected)
  /\ (y_run (PExpr (EBin BQuo (EInt 1) (EInt 0))) = Rejected /\ g_run (PExpr (EBin BQuo (EInt 1) (EInt 0))) = Rejected)
  /\ (y_run (PExpr (EConv TInt (EFloat (3 # 2)))) = Rejected /\ g_run (PExpr (EConv TInt (EFloat (3 # 2)))) = Rejected)
  /\ (y_run (one_const false None (EBin BShl (EInt 1) (EInt 200))) = Rejected
      /\ g_run (one_const false None (EBin BShl (EInt 1) (EInt 200))) = Rejected).
Proof. vm_compute. repeat split. Qed.

(* ------------------------------------------------------------------ *)
(** * 4. The untyped integer / rune / string / boolean fragment: one visit of a fresh tree *)

Definition intk (k : ukind) : bool := match k with UInt | URune => true | _ => false end.

(** [fr e = Some k]: e belongs to the fragment and has kind k.  The quotient of a rune by an
    integer is left out (yaegi gives it the kind of the divisor: region quo-no-unify); comparisons,
    && and || are left out (not folded: region const-compare). *)
Fixpoint fr (e : expr) : option ukind :=
  match e with
  | EInt _ | EIota => Some UInt
  | ERune _ => Some URune
  | EStr _ => Some UString
  | EBool _ => Some UBool
  | EParen a => fr a
  | EUn UNot a => match fr a with Some UBool => Some UBool | _ => None end
  | EUn _ a => match fr a with Some UInt => Some UInt | Some URune => Some URune | _ => None end
  | EBin o a b =>
      match fr a, fr b with
      | Some ka, Some kb =>
          if intk ka && intk kb then
            match o with
            | BAdd | BSub | BMul | BRem | BAnd | BOr | BXor | BAndNot => Some (umax ka kb)
            | BQuo => if urank ka <=? urank kb then Some kb else None
            | BShl | BShr => Some ka
            | _ => None
            end
          else match o, ka, kb with BAdd, UString, UString => Some UString | _, _, _ => None end
      | _, _ => None
      end
  | _ => None
  end.

(** one visit of the fresh tree of e outside any declaration: type and value of the root *)
Definition y_eval (iota : Z) (e : expr) : res (ytyp * option yval) :=
  let '(x, st) := y_pass {| cx_iota := iota; cx_env := []; cx_const := false |} PKeep (init e) in
  _ <- st ;; t <- typ_of x ;; Ok (t, dva (deco_of x)).

Definition g_as_y (c : gconst) : res (ytyp * option yval) :=
  match c with
  | (GU u, v) => Ok (y_typ_of u, Some (y_val_of v))
  | (GT t, v) => Ok (typed t, Some (y_val_of v))
  end.

Definition pr_none (pr : prop) : Prop :=
  match pr with PKeep | PSet None | PDest None => True | _ => False end.

Lemma pre_typ_none pr b : pr_none pr -> pre_typ pr b deco0 = None.
Proof. destruct pr as [|[t|]|[t|]], b; cbn; intros H; try contradiction; reflexivity. Qed.

Lemma wrap_uint_id z : 0 <= z < 2 ^ 64 -> wrap_to TUint (uint64_of z) = z.
Proof.
  intros H. unfold uint64_of, wrap_to, wrap_u. cbn [is_signed bits].
  destruct (in_range TInt64 z).
  - rewrite Z.mod_mod by (rewrite pow2_64; lia). apply Z.mod_small; lia.
  - rewrite Z.abs_eq by lia. rewrite Z.mod_mod by (rewrite pow2_64; lia). apply Z.mod_small; lia.
Qed.

(** the value of the integer operations, as G defines them *)
Definition int_val (o : binop) (x y : Z) : Z :=
  match o with
  | BAdd => x + y | BSub => x - y | BMul => x * y | BQuo => Z.quot x y | BRem => Z.rem x y
  | BAnd => Z.land x y | BOr => Z.lor x y | BXor => Z.lxor x y | BAndNot => Z.land x (Z.lnot y)
  | BShl => Z.shiftl x y | BShr => Z.shiftr x y
  | _ => 0
  end.

Definition int_arith (o : binop) : bool :=
  match o with BAdd | BSub | BMul | BAnd | BOr | BXor | BAndNot => true | _ => false end.

Definition root_is (x : dx) (t : ytyp) (v : yval) : Prop :=
  dty (deco_of x) = Some t /\ dva (deco_of x) = Some v.

Lemma root_typ_of x t v : root_is x t v -> typ_of x = Ok t.
Proof. intros [H _]. unfold typ_of. now rewrite H. Qed.

Ltac kinds :=
  repeat match goal with
         | k : ukind |- _ => destruct k; try discriminate; try contradiction
         end.

Lemma sgn_eqb0 z : (Z.sgn z =? 0) = (z =? 0).
Proof. destruct z; reflexivity. Qed.

(** the type the binaryExpr keeps: the one the pre-order gave it, else the computed one *)
Definition nt_of (d : deco) (dflt : ytyp) : ytyp := match dty d with Some t => t | None => dflt end.

Definition preset_ok (d : deco) : Prop :=
  dty d = None \/ exists kp, intk kp = true /\ dty d = Some (y_typ_of kp).

(** binaryExpr on two integer-kind constants; the node has no type yet (first visit) or an
    integer-kind type handed down by the pre-order (later visits) *)
Lemma y_binary_int o a b d ka kb za zb :
  intk ka = true -> intk kb = true ->
  root_is a (y_typ_of ka) (VC (CInt za)) -> root_is b (y_typ_of kb) (VC (CInt zb)) ->
  preset_ok d ->
  (int_arith o = true ->
     exists x, y_binary o a b d = Ok x /\ root_is x (nt_of d (y_typ_of (umax ka kb))) (VC (CInt (int_val o za zb))))
  /\ (o = BRem ->
      if zb =? 0 then y_binary o a b d = Err
      else exists x, y_binary o a b d = Ok x /\ root_is x (y_typ_of (umax ka kb)) (VC (CInt (Z.rem za zb))))
  /\ (o = BQuo ->
      if zb =? 0 then y_binary o a b d = Err
      else exists x, y_binary o a b d = Ok x /\ root_is x (nt_of d (y_typ_of kb)) (VC (CInt (Z.quot za zb))))
  /\ (o = BShl \/ o = BShr ->
      if in_range TUint zb
      then exists x, y_binary o a b d = Ok x /\ root_is x (nt_of d (y_typ_of ka)) (VC (CInt (int_val o za zb)))
      else y_binary o a b d = Err).
Proof.
  intros Hka Hkb [Ha1 Ha2] [Hb1 Hb2] Hd.
  unfold y_binary, typ_of, nt_of. rewrite Ha1, Hb1. cbn [bind].
  destruct (deco_of a) as [ta va ra] eqn:Ea. destruct (deco_of b) as [tb vb rb] eqn:Eb.
  cbn [dty dva] in *. subst ta va tb vb.
  assert (Hd' : exists od, dty d = od /\ (od = None \/ od = Some u_int \/ od = Some u_rune)).
  { destruct Hd as [Hd|[kp [Hk Hd]]]; [eexists; split; [exact Hd|auto]|].
    eexists; split; [exact Hd|]. destruct kp; try discriminate; cbn; auto. }
  destruct Hd' as [od [Hod Hcases]]. rewrite Hod. clear Hd.
  repeat split.
  - (* arithmetic *)
    intros Ho. destruct Hcases as [->|[->| ->]]; destruct o; try discriminate Ho; kinds; cbn;
      eexists; (split; [reflexivity|]); split; reflexivity.
  - (* remainder *)
    intros ->. cbn [is_logic is_shift is_cmp].
    destruct Hcases as [->|[->| ->]]; kinds;
      cbn [y_typ_of zero_const dty dva u_int u_rune yu yb negb c_sign bind];
      rewrite sgn_eqb0; destruct (zb =? 0) eqn:Ez; cbn; try reflexivity;
      rewrite ?Ez; eexists; (split; [reflexivity|]); split; reflexivity.
  - (* quotient *)
    intros ->. cbn [is_logic is_shift is_cmp].
    destruct Hcases as [->|[->| ->]]; kinds;
      cbn [y_typ_of zero_const dty dva u_int u_rune yu yb negb c_sign bind];
      rewrite sgn_eqb0; destruct (zb =? 0) eqn:Ez; cbn; try reflexivity;
      rewrite ?Ez; eexists; (split; [reflexivity|]); split; reflexivity.
  - (* shifts *)
    intros Ho.
    assert (Hsh : is_shift o = true) by (destruct Ho; subst; reflexivity).
    assert (Hlg : is_logic o = false) by (destruct Ho; subst; reflexivity).
    rewrite Hlg, Hsh.
    assert (Hr : y_representable (CInt zb) TUint = Ok ((0 <=? zb) && (zb <? 2 ^ 64))) by (now rewrite y_representable_int).
    assert (Hin : in_range TUint zb = (0 <=? zb) && (zb <? 2 ^ 64)).
    { unfold in_range, imin, imax. cbn [is_signed bits]. rewrite pow2_64.
      destruct (Z.leb_spec 0 zb), (Z.leb_spec zb (18446744073709551616 - 1)), (Z.ltb_spec zb 18446744073709551616); try reflexivity; lia. }
    rewrite Hin.
    destruct ((0 <=? zb) && (zb <? 2 ^ 64)) eqn:Hz.
    + apply andb_true_iff in Hz as [H0 H1]. apply Z.leb_le in H0. apply Z.ltb_lt in H1.
      assert (Hw := wrap_uint_id zb (conj H0 H1)).
      destruct Hcases as [->|[->| ->]]; destruct Ho; subst o; kinds;
        cbn -[y_representable convert_const Z.shiftl Z.shiftr wrap_to uint64_of];
        rewrite Hr; cbn -[Z.shiftl Z.shiftr wrap_to uint64_of]; rewrite Hw;
        eexists; (split; [reflexivity|]); split; reflexivity.
    + destruct Hcases as [->|[->| ->]]; destruct Ho; subst o; kinds;
        cbn -[y_representable convert_const]; rewrite Hr; reflexivity.
Qed.

(** the same for two string constants *)
Lemma y_binary_str a b d xa xb :
  root_is a u_string (VC (CStr xa)) -> root_is b u_string (VC (CStr xb)) ->
  (dty d = None \/ dty d = Some u_string) ->
  exists x, y_binary BAdd a b d = Ok x /\ root_is x u_string (VC (CStr (xa ++ xb))).
Proof.
  intros [Ha1 Ha2] [Hb1 Hb2] Hd.
  unfold y_binary, typ_of. rewrite Ha1, Hb1. cbn [bind].
  destruct (deco_of a) as [ta va ra] eqn:Ea. destruct (deco_of b) as [tb vb rb] eqn:Eb.
  cbn [dty dva] in *. subst ta va tb vb.
  destruct Hd as [Hd|Hd]; rewrite Hd; cbn; eexists; (split; [reflexivity|]); split; reflexivity.
Qed.

Definition un_val (o : unop) (z : Z) : Z :=
  match o with UNeg => - z | UXor => Z.lnot z | _ => z end.

Lemma y_unary_int o c d k z :
  intk k = true -> o <> UNot -> root_is c (y_typ_of k) (VC (CInt z)) ->
  exists x, y_unary o c d = Ok x /\ root_is x (y_typ_of k) (VC (CInt (un_val o z))).
Proof.
  intros Hk Ho [H1 H2]. unfold y_unary, typ_of. rewrite H1. cbn [bind]. rewrite H2.
  destruct o; try congruence; kinds; cbn; eexists; (split; [reflexivity|]); split; reflexivity.
Qed.

Lemma y_unary_bool c d b :
  root_is c u_bool (VM TBool (MB b)) ->
  exists x, y_unary UNot c d = Ok x /\ root_is x u_bool (VM TBool (MB (negb b))).
Proof.
  intros [H1 H2]. unfold y_unary, typ_of. rewrite H1. cbn [bind]. rewrite H2.
  cbn. eexists; (split; [reflexivity|]); split; reflexivity.
Qed.

(** G on the same operations *)
Lemma g_binary_int o ka kb za zb :
  intk ka = true -> intk kb = true ->
  g_binary o (GU ka, GI za) (GU kb, GI zb) =
  match o with
  | BAdd | BSub | BMul | BAnd | BOr | BXor | BAndNot => Some (GU (umax ka kb), GI (int_val o za zb))
  | BRem => if zb =? 0 then None else Some (GU (umax ka kb), GI (Z.rem za zb))
  | BQuo => if zb =? 0 then None else Some (GU (umax ka kb), GI (Z.quot za zb))
  | BShl | BShr => if in_range TUint zb then Some (GU ka, GI (int_val o za zb)) else None
  | BLand | BLor => None
  | _ => g_binary o (GU ka, GI za) (GU kb, GI zb)
  end.
Proof.
  intros Ha Hb. destruct o; kinds; cbn; try reflexivity;
    try (destruct (zb =? 0); reflexivity); destruct (in_range TUint zb); reflexivity.
Qed.

Lemma umax_quo ka kb : intk ka = true -> intk kb = true -> (urank ka <=? urank kb) = true -> umax ka kb = kb.
Proof. intros; kinds; reflexivity. Qed.

Lemma intk_umax ka kb : intk ka = true -> intk kb = true -> intk (umax ka kb) = true.
Proof. intros; kinds; reflexivity. Qed.

Lemma wf_int k v : intk k = true -> wf_untyped k v -> exists z, v = GI z.
Proof. destruct k, v; cbn; intros; try discriminate; try contradiction; eauto. Qed.
Lemma wf_str v : wf_untyped UString v -> exists x, v = GS x.
Proof. destruct v; cbn; intros; try contradiction; eauto. Qed.
Lemma wf_bool v : wf_untyped UBool v -> exists b, v = GB b.
Proof. destruct v; cbn; intros; try contradiction; eauto. Qed.

(** ** one visit of the fresh tree *)
Lemma fresh_pass e : forall k, fr e = Some k ->
  forall cx pr, pr_none pr ->
  match g_eval [] (cx_iota cx) e with
  | Some (gk, v) =>
      gk = GU k /\ wf_untyped k v /\
      exists x, y_pass cx pr (init e) = (x, Ok tt) /\ root_is x (y_typ_of k) (y_val_of v)
  | None => exists x, y_pass cx pr (init e) = (x, Err)
  end.
Proof.
  induction e as [z|z|q|x|b| |n|a IHa|o a IHa|o a IHa b IHb|t a IHa|a IHa]; intros k Hk cx pr Hpr;
    cbn [fr] in Hk; try discriminate.
  - (* EInt *) injection Hk as <-. cbn. repeat split. eexists; split; [reflexivity|split; reflexivity].
  - (* ERune *) injection Hk as <-. cbn. repeat split. eexists; split; [reflexivity|split; reflexivity].
  - (* EStr *) injection Hk as <-. cbn. repeat split. eexists; split; [reflexivity|split; reflexivity].
  - (* EBool *) injection Hk as <-. cbn. repeat split. eexists; split; [reflexivity|split; reflexivity].
  - (* EIota *) injection Hk as <-. cbn. repeat split. eexists; split; [reflexivity|split; reflexivity].
  - (* EParen *)
    cbn [init y_pass g_eval]. rewrite pre_typ_none by assumption.
    specialize (IHa k Hk cx (PSet None) I).
    destruct (g_eval [] (cx_iota cx) a) as [[gk v]|].
    + destruct IHa as (-> & Hwf & x & Hx & Ht & Hv). repeat split; [assumption|].
      rewrite Hx. eexists; split; [reflexivity|]. split; cbn; assumption.
    + destruct IHa as (x & Hx). rewrite Hx. eexists; reflexivity.
  - (* EUn *)
    cbn [init y_pass g_eval]. rewrite pre_typ_none by assumption.
    destruct (fr a) as [ka|] eqn:Hfa; [|destruct o; discriminate].
    specialize (IHa ka eq_refl cx (PSet None) I).
    destruct (g_eval [] (cx_iota cx) a) as [[gk v]|].
    + destruct IHa as (-> & Hwf & x & Hx & Hroot). rewrite Hx.
      destruct o.
      * (* UPos *) assert (Hik : intk ka = true /\ k = ka) by (destruct ka; try discriminate; injection Hk as <-; auto).
        destruct Hik as [Hik ->]. destruct (wf_int ka v Hik Hwf) as [z ->].
        destruct (y_unary_int UPos x {| dty := None; dva := dva deco0; dres := dres deco0 |} ka z Hik ltac:(discriminate) Hroot) as (x' & Hy & Hr).
        cbn [fin]. rewrite Hy. destruct ka; try discriminate; cbn; repeat split; eexists; (split; [reflexivity|exact Hr]).
      * (* UNeg *) assert (Hik : intk ka = true /\ k = ka) by (destruct ka; try discriminate; injection Hk as <-; auto).
        destruct Hik as [Hik ->]. destruct (wf_int ka v Hik Hwf) as [z ->].
        destruct (y_unary_int UNeg x {| dty := None; dva := dva deco0; dres := dres deco0 |} ka z Hik ltac:(discriminate) Hroot) as (x' & Hy & Hr).
        cbn [fin]. rewrite Hy. destruct ka; try discriminate; cbn; repeat split; eexists; (split; [reflexivity|exact Hr]).
      * (* UXor *) assert (Hik : intk ka = true /\ k = ka) by (destruct ka; try discriminate; injection Hk as <-; auto).
        destruct Hik as [Hik ->]. destruct (wf_int ka v Hik Hwf) as [z ->].
        destruct (y_unary_int UXor x {| dty := None; dva := dva deco0; dres := dres deco0 |} ka z Hik ltac:(discriminate) Hroot) as (x' & Hy & Hr).
        cbn [fin]. rewrite Hy. destruct ka; try discriminate; cbn; repeat split; eexists; (split; [reflexivity|exact Hr]).
      * (* UNot *) destruct ka; try discriminate. injection Hk as <-.
        destruct (wf_bool v Hwf) as [b ->].
        destruct (y_unary_bool x {| dty := None; dva := dva deco0; dres := dres deco0 |} b Hroot) as (x' & Hy & Hr).
        cbn [fin]. rewrite Hy. cbn. repeat split. eexists; (split; [reflexivity|exact Hr]).
    + destruct IHa as (x & Hx). rewrite Hx. eexists; reflexivity.
  - (* EBin *)
    destruct (fr a) as [ka|] eqn:Hfa; [|discriminate].
    destruct (fr b) as [kb|] eqn:Hfb; [|discriminate].
    assert (Hlg : is_logic o = false).
    { destruct o; try reflexivity; destruct (intk ka && intk kb); destruct ka, kb; discriminate. }
    assert (Hcm : is_cmp o = false).
    { destruct o; try reflexivity; destruct (intk ka && intk kb); destruct ka, kb; discriminate. }
    cbn [init y_pass g_eval]. rewrite Hlg, Hcm. rewrite pre_typ_none by assumption.
    specialize (IHa ka eq_refl cx (PSet None) I). specialize (IHb kb eq_refl cx (PSet None) I).
    destruct (g_eval [] (cx_iota cx) a) as [[gka va]|].
    2:{ destruct IHa as (x & Hx). rewrite Hx. eexists; reflexivity. }
    destruct IHa as (-> & Hwa & xa & Hxa & Hra). rewrite Hxa.
    destruct (g_eval [] (cx_iota cx) b) as [[gkb vb]|].
    2:{ destruct IHb as (x & Hx). rewrite Hx. eexists; reflexivity. }
    destruct IHb as (-> & Hwb & xb & Hxb & Hrb). rewrite Hxb. cbn [fin].
    set (d1 := {| dty := None; dva := dva deco0; dres := dres deco0 |}).
    destruct (intk ka && intk kb) eqn:Hik.
    + apply andb_true_iff in Hik as [Hia Hib].
      destruct (wf_int ka va Hia Hwa) as [za ->].
      destruct (wf_int kb vb Hib Hwb) as [zb ->].
      cbn [y_val_of] in Hra, Hrb.
      pose proof (y_binary_int o xa xb d1 ka kb za zb Hia Hib Hra Hrb (or_introl eq_refl)) as (HA & HR & HQ & HS).
      rewrite (g_binary_int o ka kb za zb Hia Hib).
      assert (Hwf : forall z, wf_untyped (umax ka kb) (GI z)) by (intros; destruct ka, kb; try discriminate; exact I).
      destruct o; try discriminate Hk.
      all: try (injection Hk as <-; destruct (HA eq_refl) as (x & Hy & Hr); rewrite Hy;
                repeat split; [apply Hwf|]; eexists; (split; [reflexivity|exact Hr])).
      * (* BQuo *)
        destruct (urank ka <=? urank kb) eqn:Hrk; [|discriminate]. injection Hk as <-.
        specialize (HQ eq_refl). destruct (zb =? 0).
        -- rewrite HQ. eexists; reflexivity.
        -- destruct HQ as (x & Hy & Hr). rewrite Hy. rewrite (umax_quo ka kb Hia Hib Hrk).
           repeat split; [destruct kb; try discriminate; exact I|]. eexists; (split; [reflexivity|exact Hr]).
      * (* BRem *)
        injection Hk as <-. specialize (HR eq_refl). destruct (zb =? 0).
        -- rewrite HR. eexists; reflexivity.
        -- destruct HR as (x & Hy & Hr). rewrite Hy.
           repeat split; [apply Hwf|]. eexists; (split; [reflexivity|exact Hr]).
      * (* BShl *)
        injection Hk as <-. specialize (HS (or_introl eq_refl)). destruct (in_range TUint zb).
        -- destruct HS as (x & Hy & Hr). rewrite Hy.
           repeat split; [destruct ka; try discriminate; exact I|]. eexists; (split; [reflexivity|exact Hr]).
        -- rewrite HS. eexists; reflexivity.
      * (* BShr *)
        injection Hk as <-. specialize (HS (or_intror eq_refl)). destruct (in_range TUint zb).
        -- destruct HS as (x & Hy & Hr). rewrite Hy.
           repeat split; [destruct ka; try discriminate; exact I|]. eexists; (split; [reflexivity|exact Hr]).
        -- rewrite HS. eexists; reflexivity.
    + (* strings *)
      assert (o = BAdd /\ ka = UString /\ kb = UString /\ k = UString) as (-> & -> & -> & ->).
      { destruct o, ka, kb; try discriminate; injection Hk as <-; auto. }
      destruct (wf_str va Hwa) as [sa ->]. destruct (wf_str vb Hwb) as [sb ->].
      destruct (y_binary_str xa xb d1 sa sb Hra Hrb (or_introl eq_refl)) as (x' & Hy & Hr).
      rewrite Hy. cbn. repeat split. eexists; (split; [reflexivity|exact Hr]).
Qed.

(** every expression of the fragment, at any depth and with literals of any magnitude, gets from one
    visit of yaegi the kind and the exact value the specification gives it, and is rejected when
    the specification rejects it (division by zero, shift count out of range) *)
Lemma untyped_agree e k iota :
  fr e = Some k ->
  y_eval iota e = match g_eval [] iota e with Some c => g_as_y c | None => Err end.
Proof.
  intros Hk. unfold y_eval.
  pose proof (fresh_pass e k Hk {| cx_iota := iota; cx_env := []; cx_const := false |} PKeep I) as H.
  cbn [cx_iota] in H.
  destruct (g_eval [] iota e) as [[gk v]|].
  - destruct H as (-> & Hwf & x & Hx & Ht & Hv). rewrite Hx. cbn [bind].
    unfold typ_of. rewrite Ht. cbn [bind]. rewrite Hv. reflexivity.
  - destruct H as (x & Hx). rewrite Hx. reflexivity.
Qed.

Lemma fr_kind e k iota gk v : fr e = Some k -> g_eval [] iota e = Some (gk, v) -> gk = GU k /\ wf_untyped k v.
Proof.
  intros Hk Hg.
  pose proof (fresh_pass e k Hk {| cx_iota := iota; cx_env := []; cx_const := false |} PKeep I) as H.
  cbn [cx_iota] in H. rewrite Hg in H. destruct H as (H1 & H2 & _). auto.
Qed.

Example untyped_inhabited :
  fr (EBin BShr (EBin BShl (EInt 1) (EInt 200)) (EBin BSub (EInt 199) (ERune 1))) = Some UInt
  /\ g_eval [] 0 (EBin BShr (EBin BShl (EInt 1) (EInt 200)) (EBin BSub (EInt 199) (ERune 1))) = Some (GU UInt, GI 4).
Proof. split; reflexivity. Qed.

(* ------------------------------------------------------------------ *)
(** * 5. Use of an untyped constant as an operand of fmt.Printf: default type and representability *)

Lemma wrap_s_id w z : 0 < w -> - 2 ^ (w - 1) <= z <= 2 ^ (w - 1) - 1 -> wrap_s w z = z.
Proof.
  intros Hw Hz. unfold wrap_s.
  assert (H2 : 2 ^ w = 2 * 2 ^ (w - 1)).
  { replace w with (w - 1 + 1) at 1 by lia. rewrite Z.pow_add_r by lia. change (2 ^ 1) with 2. lia. }
  rewrite Z.mod_small by lia. lia.
Qed.

Lemma int64_of_id z : in_range TInt64 z = true -> int64_of z = z.
Proof. intros H. unfold int64_of. now rewrite H. Qed.

Lemma in_range_int_64 z : in_range TInt z = in_range TInt64 z.
Proof. reflexivity. Qed.

Lemma in_range_32_64 z : in_range TInt32 z = true -> in_range TInt64 z = true.
Proof.
  unfold in_range, imin, imax. cbn. rewrite !andb_true_iff, !Z.leb_le. lia.
Qed.

(** side condition for runes: the value is not in the zone where representableConst is wrong for int32 *)
Definition rune_zone_free (z : Z) : bool := Bool.eqb (in_range TInt32 z) (Z.abs z <? 2 ^ 32).

Definition use_side (u : ukind) (v : gval) : bool :=
  match u, v with
  | URune, GI z => rune_zone_free z
  | UFloat, _ => false
  | _, _ => true
  end.

Lemma use_agree u v :
  wf_untyped u v -> use_side u v = true ->
  y_use (y_typ_of u) (Some (y_val_of v)) = match g_use (GU u, v) with Some o => Ok o | None => Err end.
Proof.
  intros Hwf Hs. destruct u, v; cbn in Hwf, Hs; try contradiction; try discriminate.
  - (* int *)
    unfold y_use. cbn [y_typ_of y_val_of].
    replace (default_of u_int (Some (VC (CInt z)))) with (typed TInt) by reflexivity.
    cbn [yu u_int]. unfold convert_untyped. cbn [dty dva yu u_int typed negb yb].
    rewrite (repr_int_agree z TInt eq_refl eq_refl). cbn [bind g_repr is_int is_signed orb].
    unfold g_use, g_repr. cbn [default_type is_int is_signed orb].
    destruct (in_range TInt z) eqn:Hr; cbn [bind option_map]; [|reflexivity].
    unfold convert_const. cbn [is_boolean is_string is_signed c_toint c_int64val bind].
    rewrite in_range_int_64 in Hr. rewrite (int64_of_id z Hr).
    unfold set_int, wrap_to. cbn [is_signed bits].
    rewrite wrap_s_id; [reflexivity|lia|].
    rewrite in_range_i64 in Hr. apply andb_true_iff in Hr as [H1 H2]. apply Z.leb_le in H1, H2.
    change (2 ^ (64 - 1)) with 9223372036854775808. lia.
  - (* rune *)
    unfold y_use. cbn [y_typ_of y_val_of].
    replace (default_of u_rune (Some (VC (CInt z)))) with (typed TInt32) by reflexivity.
    cbn [yu u_rune]. unfold convert_untyped. cbn [dty dva yu u_rune typed negb yb].
    rewrite (repr_narrow_signed z TInt32 eq_refl). cbn [bind bits].
    unfold g_use, g_repr. cbn [default_type is_int is_signed orb].
    unfold rune_zone_free in Hs. apply Bool.eqb_prop in Hs. rewrite <- Hs.
    destruct (in_range TInt32 z) eqn:Hr; cbn [bind option_map]; [|reflexivity].
    unfold convert_const. cbn [is_boolean is_string is_signed c_toint c_int64val bind].
    rewrite (int64_of_id z (in_range_32_64 z Hr)).
    unfold set_int, wrap_to. cbn [is_signed bits].
    rewrite wrap_s_id; [reflexivity|lia|].
    unfold in_range, imin, imax in Hr. cbn in Hr.
    apply andb_true_iff in Hr as [H1 H2]. apply Z.leb_le in H1, H2.
    change (2 ^ (32 - 1)) with 2147483648. lia.
  - (* string *) reflexivity.
  - (* bool *) reflexivity.
Qed.

(** fmt.Printf("%T|%v", e, e) with e in the fragment: same printed type and value, or rejected by both *)
Definition expr_side (e : expr) : bool :=
  match g_eval [] 0 e with
  | Some (GU u, v) => use_side u v
  | _ => true
  end.

Lemma expr_agree e k : fr e = Some k -> expr_side e = true -> y_run (PExpr e) = g_run (PExpr e).
Proof.
  intros Hk Hs. unfold y_run, g_run.
  pose proof (fresh_pass e k Hk {| cx_iota := 0; cx_env := []; cx_const := false |} PKeep I) as H.
  cbn [cx_iota] in H. unfold expr_side in Hs.
  destruct (g_eval [] 0 e) as [[gk v]|].
  - destruct H as (-> & Hwf & x & Hx & Ht & Hv). rewrite Hx. cbn [bind].
    unfold typ_of. rewrite Ht. cbn [bind]. rewrite Hv.
    rewrite (use_agree k v Hwf Hs).
    destruct (g_use (GU k, v)); reflexivity.
  - destruct H as (x & Hx). rewrite Hx. reflexivity.
Qed.

(* ------------------------------------------------------------------ *)
(** * 6. Constant declarations: repeated visits of the rune-free fragment *)

(** integer, string and boolean expressions (no rune literal: every node of a tree then has the
    same kind, whatever type the pre-order hands down) *)
Fixpoint fr1 (e : expr) : option ukind :=
  match e with
  | EInt _ | EIota => Some UInt
  | EStr _ => Some UString
  | EBool _ => Some UBool
  | EParen a => fr1 a
  | EUn UNot a => match fr1 a with Some UBool => Some UBool | _ => None end
  | EUn _ a => match fr1 a with Some UInt => Some UInt | _ => None end
  | EBin o a b =>
      match fr1 a, fr1 b with
      | Some UInt, Some UInt =>
          match o with
          | BAdd | BSub | BMul | BQuo | BRem | BAnd | BOr | BXor | BAndNot | BShl | BShr => Some UInt
          | _ => None
          end
      | Some UString, Some UString => match o with BAdd => Some UString | _ => None end
      | _, _ => None
      end
  | _ => None
  end.

Lemma fr1_fr e : forall k, fr1 e = Some k -> fr e = Some k.
Proof.
  induction e as [z|z|q|x|b| |n|a IHa|o a IHa|o a IHa b IHb|t a IHa|a IHa]; intros k Hk; cbn [fr1] in Hk; try discriminate; cbn [fr]; auto.
  - destruct (fr1 a) as [ka|]; [|destruct o; discriminate].
    rewrite (IHa ka eq_refl). destruct o, ka; try discriminate; assumption.
  - destruct (fr1 a) as [ka|]; [|discriminate]. destruct (fr1 b) as [kb|]; [|destruct ka; discriminate].
    rewrite (IHa ka eq_refl), (IHb kb eq_refl).
    destruct ka, kb; try discriminate; destruct o; try discriminate; cbn; assumption.
Qed.

Lemma fr1_kinds e k : fr1 e = Some k -> k = UInt \/ k = UString \/ k = UBool.
Proof.
  revert k. induction e as [z|z|q|x|b| |n|a IHa|o a IHa|o a IHa b IHb|t a IHa|a IHa]; intros k Hk; cbn [fr1] in Hk; try discriminate;
    try (injection Hk as <-; auto; fail); auto.
  - destruct (fr1 a) as [ka|]; [|destruct o; discriminate]. destruct o, ka; try discriminate; injection Hk as <-; auto.
  - destruct (fr1 a) as [[]|]; try discriminate; destruct (fr1 b) as [[]|]; try discriminate; destruct o; try discriminate; injection Hk as <-; auto.
Qed.

(** no identifier is looked up: the environment is irrelevant *)
Lemma g_eval_env e : forall k, fr1 e = Some k -> forall env iota, g_eval env iota e = g_eval [] iota e.
Proof.
  induction e as [z|z|q|x|b| |n|a IHa|o a IHa|o a IHa b IHb|t a IHa|a IHa]; intros k Hk env iota; cbn [fr1] in Hk; try discriminate; cbn [g_eval]; auto.
  - now rewrite (IHa k Hk).
  - destruct (fr1 a) as [ka|] eqn:Ha; [|destruct o; discriminate]. now rewrite (IHa ka eq_refl).
  - destruct (fr1 a) as [ka|] eqn:Ha; [|discriminate]. destruct (fr1 b) as [kb|] eqn:Hb; [|destruct ka; discriminate].
    now rewrite (IHa ka eq_refl), (IHb kb eq_refl).
Qed.

Definition mkd (t : ytyp) (v : yval) (r : bool) : deco := {| dty := Some t; dva := Some v; dres := r |}.
Definition cnt_deco (n : Z) (r : bool) : deco := mkd (typed TUint) (VM TUint (MI n)) r.

(** decoration of a node that was visited: its type is the kind of the tree, its value the value of
    the subexpression; an identifier leaf is resolved *)
Definition good (k : ukind) (v : gval) (leaf : bool) (d : deco) : Prop :=
  dty d = Some (y_typ_of k) /\ dva d = Some (y_val_of v) /\ (leaf = true -> dres d = true).

(** the count of a shift was converted to uint by check.shift *)
Definition dconv (iota : Z) (e : expr) (leaf : bool) (d : deco) : Prop :=
  exists n r, g_eval [] iota e = Some (GU UInt, GI n) /\ in_range TUint n = true /\ d = cnt_deco n r /\ (leaf = true -> r = true).

(** [cnt]: the node is the count of a shift; [full]: every node was visited *)
Definition dinv (cnt full : bool) (k : ukind) (iota : Z) (e : expr) (leaf : bool) (d : deco) : Prop :=
  (full = false /\ d = deco0)
  \/ (exists v, g_eval [] iota e = Some (GU k, v) /\ good k v leaf d)
  \/ (cnt = true /\ dconv iota e leaf d).

Fixpoint tinv (cnt full : bool) (k : ukind) (iota : Z) (x : dx) (e : expr) {struct x} : Prop :=
  match x, e with
  | DLeaf (LInt z) d, EInt z' => z = z' /\ dinv cnt full k iota e true d
  | DLeaf (LStr s) d, EStr s' => s = s' /\ dinv cnt full k iota e true d
  | DLeaf (LBool b) d, EBool b' => b = b' /\ dinv cnt full k iota e true d
  | DLeaf LIota d, EIota => dinv cnt full k iota e true d
  | DParen c d, EParen a => tinv false full k iota c a /\ dinv cnt full k iota e false d
  | DUn o c d, EUn o' a => o = o' /\ tinv false full k iota c a /\ dinv cnt full k iota e false d
  | DBin o a b d, EBin o' ea eb =>
      o = o' /\ tinv false full k iota a ea /\ tinv (is_shift o) full k iota b eb /\ dinv cnt full k iota e false d
  | _, _ => False
  end.

Definition is_leafx (x : dx) : bool := match x with DLeaf _ _ => true | _ => false end.

Lemma dinv_weaken cnt k iota e leaf d : dinv cnt true k iota e leaf d -> dinv cnt false k iota e leaf d.
Proof. intros [[H _]|[H|H]]; [discriminate|right; left; exact H|right; right; exact H]. Qed.

Lemma tinv_weaken k iota x : forall cnt e, tinv cnt true k iota x e -> tinv cnt false k iota x e.
Proof.
  induction x as [l d|c IHc d|o c IHc d|o a IHa b IHb d|t c IHc d|c IHc d]; intros cnt e H.
  - destruct l, e; cbn [tinv] in *; try contradiction; try (destruct H; split; auto using dinv_weaken); auto using dinv_weaken.
  - destruct e; cbn [tinv] in *; try contradiction. destruct H; split; auto using dinv_weaken.
  - destruct e; cbn [tinv] in *; try contradiction. destruct H as (? & ? & ?); repeat split; auto using dinv_weaken.
  - destruct e; cbn [tinv] in *; try contradiction. destruct H as (? & ? & ? & ?); repeat split; auto using dinv_weaken.
  - destruct e; cbn [tinv] in *; contradiction.
  - destruct e; cbn [tinv] in *; contradiction.
Qed.

Lemma tinv_init k iota e : forall cnt k', fr1 e = Some k' -> tinv cnt false k iota (init e) e.
Proof.
  induction e as [z|z|q|x|b| |n|a IHa|o a IHa|o a IHa b IHb|t a IHa|a IHa]; intros cnt k' Hk; cbn [fr1] in Hk; try discriminate; cbn [init tinv].
  all: try (repeat split; left; split; reflexivity).
  - split; [eapply IHa; eassumption|left; split; reflexivity].
  - destruct (fr1 a) as [ka|] eqn:Ha; [|destruct o; discriminate].
    repeat split; [eapply IHa; reflexivity|left; split; reflexivity].
  - destruct (fr1 a) as [ka|] eqn:Ha; [|discriminate]. destruct (fr1 b) as [kb|] eqn:Hb; [|destruct ka; discriminate].
    repeat split; [eapply IHa; reflexivity|eapply IHb; reflexivity|left; split; reflexivity].
Qed.

(** the root decoration of a tree *)
Lemma tinv_deco cnt full k iota x e : tinv cnt full k iota x e -> dinv cnt full k iota e (is_leafx x) (deco_of x).
Proof.
  destruct x as [l d|c d|o c d|o a b d|t c d|c d]; cbn [tinv deco_of is_leafx]; intros H.
  - destruct l, e; try contradiction; try (destruct H as [_ H]); exact H.
  - destruct e; try contradiction. destruct H; assumption.
  - destruct e; try contradiction. destruct H as (_ & _ & H); assumption.
  - destruct e; try contradiction. destruct H as (_ & _ & _ & H); assumption.
  - destruct e; contradiction.
  - destruct e; contradiction.
Qed.

(** replacing the root decoration *)
Lemma tinv_with_deco cnt full k iota x e d' :
  tinv cnt full k iota x e -> dinv cnt full k iota e (is_leafx x) d' -> tinv cnt full k iota (with_deco x d') e.
Proof.
  destruct x as [l d|c d|o c d|o a b d|t c d|c d]; cbn [tinv with_deco is_leafx]; intros H Hd.
  - destruct l, e; try contradiction; try (destruct H as [H1 _]; split; assumption); exact Hd.
  - destruct e; try contradiction. destruct H; split; assumption.
  - destruct e; try contradiction. destruct H as (? & ? & _); repeat split; assumption.
  - destruct e; try contradiction. destruct H as (? & ? & ? & _); repeat split; assumption.
  - destruct e; contradiction.
  - destruct e; contradiction.
Qed.

Lemma deco_eta d t v : dty d = Some t -> dva d = Some v -> d = mkd t v (dres d).
Proof. destruct d as [a b c]; cbn; intros -> ->; reflexivity. Qed.

(** the root of a fully decorated tree that is not a shift count *)
Lemma tinv_root k iota x e :
  tinv false true k iota x e ->
  exists v, g_eval [] iota e = Some (GU k, v) /\ deco_of x = mkd (y_typ_of k) (y_val_of v) (dres (deco_of x))
            /\ (is_leafx x = true -> dres (deco_of x) = true).
Proof.
  intros H. apply tinv_deco in H. destruct H as [[H _]|[(v & Hg & Ht & Hv & Hr)|[H _]]]; try discriminate.
  exists v. split; [exact Hg|]. split; [apply deco_eta; assumption|exact Hr].
Qed.

(** types the pre-order may hand to a node of kind k *)
Definition pr_ok (k : ukind) (pr : prop) : Prop :=
  pr = PKeep \/ pr = PSet None \/ pr = PDest None \/ pr = PSet (Some (y_typ_of k)) \/ pr = PDest (Some (y_typ_of k)).

Definition typ_ok (k : ukind) (t : option ytyp) : Prop := t = None \/ t = Some (y_typ_of k).

(** at a count position the parent is a binaryExpr: the type comes from it *)
Definition pr_pos (cnt : bool) (k : ukind) (pr : prop) : Prop :=
  if cnt then exists t, pr = PSet t /\ typ_ok k t else pr_ok k pr.

Lemma pre_typ_ok cnt full k iota e leaf pr d :
  pr_pos cnt k pr -> dinv cnt full k iota e leaf d -> typ_ok k (pre_typ pr false d).
Proof.
  intros Hpr Hd. unfold pre_typ, typ_ok.
  destruct cnt; cbn [pr_pos] in Hpr.
  - destruct Hpr as (t & -> & Ht). exact Ht.
  - assert (Hdt : dty d = None \/ dty d = Some (y_typ_of k)).
    { destruct Hd as [[_ ->]|[(v & _ & Ht & _)|[Hc _]]]; [left; reflexivity|right; exact Ht|discriminate]. }
    destruct Hpr as [->|[->|[->|[->| ->]]]]; auto.
Qed.

Lemma pr_ok_set k t : typ_ok k t -> pr_ok k (PSet t).
Proof. intros [->| ->]; unfold pr_ok; auto. Qed.

Lemma pr_pos_set cnt k t : typ_ok k t -> pr_pos cnt k (PSet t).
Proof. intros H. destruct cnt; cbn; [eauto|apply pr_ok_set; assumption]. Qed.

(* ------------------------------------------------------------------ *)
(** ** explicit results of the node functions on visited operands *)

Lemma with_deco_id x : with_deco x (deco_of x) = x.
Proof. destruct x; reflexivity. Qed.

Lemma deco_of_with x d : deco_of (with_deco x d) = d.
Proof. destruct x; reflexivity. Qed.

Lemma in_range_uint z : in_range TUint z = (0 <=? z) && (z <? 2 ^ 64).
Proof.
  unfold in_range, imin, imax. cbn [is_signed bits]. rewrite pow2_64.
  destruct (Z.leb_spec 0 z), (Z.leb_spec z (18446744073709551616 - 1)), (Z.ltb_spec z 18446744073709551616); try reflexivity; lia.
Qed.

Ltac normd := unfold set_typ, set_val, mkd, cnt_deco in *; cbn [dty dva dres] in *.

(** binaryExpr on two visited integer operands *)
Lemma y_binary_int1 o a b d za zb ra rb :
  deco_of a = mkd u_int (VC (CInt za)) ra -> deco_of b = mkd u_int (VC (CInt zb)) rb ->
  (dty d = None \/ dty d = Some u_int) ->
  let res v := Ok (DBin o a b (mkd u_int (VC (CInt v)) false)) in
  (int_arith o = true -> y_binary o a b d = res (int_val o za zb))
  /\ (o = BRem \/ o = BQuo -> y_binary o a b d = if zb =? 0 then Err else res (int_val o za zb))
  /\ (o = BShl \/ o = BShr ->
      y_binary o a b d =
      if in_range TUint zb
      then Ok (DBin o a (with_deco b (cnt_deco zb rb)) (mkd u_int (VC (CInt (int_val o za zb))) false))
      else Err).
Proof.
  intros Ha Hb Hd res.
  unfold mkd, cnt_deco in *. unfold y_binary, typ_of. rewrite Ha, Hb. cbn [dty dva dres bind].
  assert (Ea : with_deco a {| dty := Some u_int; dva := Some (VC (CInt za)); dres := ra |} = a)
    by (rewrite <- (with_deco_id a) at 2; rewrite Ha; reflexivity).
  assert (Eb : with_deco b {| dty := Some u_int; dva := Some (VC (CInt zb)); dres := rb |} = b)
    by (rewrite <- (with_deco_id b) at 2; rewrite Hb; reflexivity).
  repeat split.
  - intros Ho. destruct Hd as [Hd|Hd]; rewrite Hd; destruct o; try discriminate Ho; cbn; normd; rewrite Ea, Eb; reflexivity.
  - intros Ho. destruct Hd as [Hd|Hd]; rewrite Hd; destruct Ho; subst o; cbn [is_logic is_shift is_cmp];
      cbn [zero_const dty dva u_int yu yb negb c_sign bind]; rewrite sgn_eqb0; destruct (zb =? 0) eqn:Ez; cbn; try reflexivity;
      rewrite ?Ez; cbn; normd; rewrite ?Ea, ?Eb; reflexivity.
  - intros Ho.
    assert (Hsh : is_shift o = true) by (destruct Ho; subst; reflexivity).
    assert (Hlg : is_logic o = false) by (destruct Ho; subst; reflexivity).
    rewrite Hlg, Hsh.
    assert (Hr : y_representable (CInt zb) TUint = Ok ((0 <=? zb) && (zb <? 2 ^ 64))) by (now rewrite y_representable_int).
    rewrite in_range_uint.
    destruct ((0 <=? zb) && (zb <? 2 ^ 64)) eqn:Hz.
    + apply andb_true_iff in Hz as [H0 H1]. apply Z.leb_le in H0. apply Z.ltb_lt in H1.
      assert (Hw := wrap_uint_id zb (conj H0 H1)).
      destruct Hd as [Hd|Hd]; rewrite Hd; destruct Ho; subst o;
        cbn -[y_representable convert_const Z.shiftl Z.shiftr wrap_to uint64_of];
        rewrite Hr; cbn -[Z.shiftl Z.shiftr wrap_to uint64_of]; normd; unfold set_int; rewrite Hw, Ea; reflexivity.
    + destruct Hd as [Hd|Hd]; rewrite Hd; destruct Ho; subst o;
        cbn -[y_representable convert_const]; rewrite Hr; reflexivity.
Qed.

(** a shift whose count was converted to uint by an earlier visit *)
Lemma y_binary_shift_cnt o a b d za zb ra rb :
  deco_of a = mkd u_int (VC (CInt za)) ra -> deco_of b = cnt_deco zb rb ->
  (dty d = None \/ dty d = Some u_int) -> in_range TUint zb = true ->
  o = BShl \/ o = BShr ->
  y_binary o a b d = Ok (DBin o a b (mkd u_int (VC (CInt (int_val o za zb))) false)).
Proof.
  intros Ha Hb Hd Hz Ho.
  unfold mkd, cnt_deco in *. unfold y_binary, typ_of. rewrite Ha, Hb. cbn [dty dva dres bind].
  assert (Ea : with_deco a {| dty := Some u_int; dva := Some (VC (CInt za)); dres := ra |} = a)
    by (rewrite <- (with_deco_id a) at 2; rewrite Ha; reflexivity).
  assert (Eb : with_deco b {| dty := Some (typed TUint); dva := Some (VM TUint (MI zb)); dres := rb |} = b)
    by (rewrite <- (with_deco_id b) at 2; rewrite Hb; reflexivity).
  destruct Hd as [Hd|Hd]; rewrite Hd; destruct Ho; subst o; cbn -[Z.shiftl Z.shiftr]; normd; rewrite Ea, Eb; reflexivity.
Qed.

Lemma y_binary_str1 a b d xa xb ra rb :
  deco_of a = mkd u_string (VC (CStr xa)) ra -> deco_of b = mkd u_string (VC (CStr xb)) rb ->
  (dty d = None \/ dty d = Some u_string) ->
  y_binary BAdd a b d = Ok (DBin BAdd a b (mkd u_string (VC (CStr (xa ++ xb))) false)).
Proof.
  intros Ha Hb Hd.
  unfold mkd, cnt_deco in *. unfold y_binary, typ_of. rewrite Ha, Hb. cbn [dty dva dres bind].
  assert (Ea : with_deco a {| dty := Some u_string; dva := Some (VC (CStr xa)); dres := ra |} = a)
    by (rewrite <- (with_deco_id a) at 2; rewrite Ha; reflexivity).
  assert (Eb : with_deco b {| dty := Some u_string; dva := Some (VC (CStr xb)); dres := rb |} = b)
    by (rewrite <- (with_deco_id b) at 2; rewrite Hb; reflexivity).
  destruct Hd as [Hd|Hd]; rewrite Hd; cbn; normd; rewrite Ea, Eb; reflexivity.
Qed.

Lemma y_unary_int1 o c d z r :
  o <> UNot -> deco_of c = mkd u_int (VC (CInt z)) r ->
  y_unary o c d = Ok (DUn o c (mkd u_int (VC (CInt (un_val o z))) false)).
Proof.
  intros Ho Hc. unfold mkd in *. unfold y_unary, typ_of. rewrite Hc. cbn [dty dva bind].
  destruct o; try congruence; reflexivity.
Qed.

Lemma y_unary_bool1 c d b r :
  deco_of c = mkd u_bool (VM TBool (MB b)) r ->
  y_unary UNot c d = Ok (DUn UNot c (mkd u_bool (VM TBool (MB (negb b))) false)).
Proof. intros Hc. unfold mkd in *. unfold y_unary, typ_of. rewrite Hc. reflexivity. Qed.

(* ------------------------------------------------------------------ *)
(** ** G on the fragment: inversion *)

Lemma fr1_eval e k iota gk v : fr1 e = Some k -> g_eval [] iota e = Some (gk, v) -> gk = GU k /\ wf_untyped k v.
Proof. intros H. apply fr_kind. now apply fr1_fr. Qed.

Lemma g_bin_int_inv o a b iota v :
  fr1 a = Some UInt -> fr1 b = Some UInt -> fr1 (EBin o a b) = Some UInt ->
  g_eval [] iota (EBin o a b) = Some (GU UInt, v) ->
  exists za zb, g_eval [] iota a = Some (GU UInt, GI za) /\ g_eval [] iota b = Some (GU UInt, GI zb)
    /\ v = GI (int_val o za zb)
    /\ (o = BRem \/ o = BQuo -> (zb =? 0) = false)
    /\ (o = BShl \/ o = BShr -> in_range TUint zb = true).
Proof.
  intros Ha Hb Hab Hg. cbn [g_eval] in Hg.
  destruct (g_eval [] iota a) as [[gka va]|] eqn:Ea; [|discriminate].
  destruct (g_eval [] iota b) as [[gkb vb]|] eqn:Eb; [|discriminate].
  destruct (fr1_eval a UInt iota gka va Ha Ea) as [-> Hwa].
  destruct (fr1_eval b UInt iota gkb vb Hb Eb) as [-> Hwb].
  destruct (wf_int UInt va eq_refl Hwa) as [za ->]. destruct (wf_int UInt vb eq_refl Hwb) as [zb ->].
  exists za, zb. split; [reflexivity|]. split; [reflexivity|].
  rewrite (g_binary_int o UInt UInt za zb eq_refl eq_refl) in Hg.
  cbn [fr1] in Hab. rewrite Ha, Hb in Hab.
  destruct o; try discriminate Hab; cbn [umax urank Z.ltb Z.compare] in Hg.
  all: try (injection Hg as <-; repeat split; try reflexivity; intros [H|H]; discriminate H).
  - (* Quo *) destruct (zb =? 0) eqn:Ez; [discriminate|]. injection Hg as <-.
    repeat split; try reflexivity; intros [H|H]; try discriminate H; reflexivity.
  - (* Rem *) destruct (zb =? 0) eqn:Ez; [discriminate|]. injection Hg as <-.
    repeat split; try reflexivity; intros [H|H]; try discriminate H; reflexivity.
  - (* Shl *) destruct (in_range TUint zb) eqn:Ez; [|discriminate]. injection Hg as <-.
    repeat split; try reflexivity; intros [H|H]; try discriminate H; reflexivity.
  - (* Shr *) destruct (in_range TUint zb) eqn:Ez; [|discriminate]. injection Hg as <-.
    repeat split; try reflexivity; intros [H|H]; try discriminate H; reflexivity.
Qed.

Lemma g_bin_str_inv a b iota v :
  fr1 a = Some UString -> fr1 b = Some UString ->
  g_eval [] iota (EBin BAdd a b) = Some (GU UString, v) ->
  exists xa xb, g_eval [] iota a = Some (GU UString, GS xa) /\ g_eval [] iota b = Some (GU UString, GS xb) /\ v = GS (xa ++ xb).
Proof.
  intros Ha Hb Hg. cbn [g_eval] in Hg.
  destruct (g_eval [] iota a) as [[gka va]|] eqn:Ea; [|discriminate].
  destruct (g_eval [] iota b) as [[gkb vb]|] eqn:Eb; [|discriminate].
  destruct (fr1_eval a UString iota gka va Ha Ea) as [-> Hwa].
  destruct (fr1_eval b UString iota gkb vb Hb Eb) as [-> Hwb].
  destruct (wf_str va Hwa) as [xa ->]. destruct (wf_str vb Hwb) as [xb ->].
  exists xa, xb. cbn in Hg. injection Hg as <-. auto.
Qed.

Lemma g_un_int_inv o a iota v :
  fr1 a = Some UInt -> o <> UNot ->
  g_eval [] iota (EUn o a) = Some (GU UInt, v) ->
  exists z, g_eval [] iota a = Some (GU UInt, GI z) /\ v = GI (un_val o z).
Proof.
  intros Ha Ho Hg. cbn [g_eval] in Hg.
  destruct (g_eval [] iota a) as [[gka va]|] eqn:Ea; [|discriminate].
  destruct (fr1_eval a UInt iota gka va Ha Ea) as [-> Hwa].
  destruct (wf_int UInt va eq_refl Hwa) as [z ->]. exists z. split; [reflexivity|].
  destruct o; try congruence; cbn in Hg; injection Hg as <-; reflexivity.
Qed.

Lemma g_un_bool_inv a iota v :
  fr1 a = Some UBool ->
  g_eval [] iota (EUn UNot a) = Some (GU UBool, v) ->
  exists b, g_eval [] iota a = Some (GU UBool, GB b) /\ v = GB (negb b).
Proof.
  intros Ha Hg. cbn [g_eval] in Hg.
  destruct (g_eval [] iota a) as [[gka va]|] eqn:Ea; [|discriminate].
  destruct (fr1_eval a UBool iota gka va Ha Ea) as [-> Hwa].
  destruct (wf_bool va Hwa) as [b ->]. exists b. cbn in Hg. injection Hg as <-. auto.
Qed.

(* ------------------------------------------------------------------ *)
(** ** a visit of a tree of the fragment (fresh, partly or fully visited) leaves it fully visited,
       every node carrying the kind of the tree and the value of its subexpression *)

Lemma good_dinv cnt k iota e leaf v r :
  g_eval [] iota e = Some (GU k, v) -> (leaf = true -> r = true) ->
  dinv cnt true k iota e leaf (mkd (y_typ_of k) (y_val_of v) r).
Proof. intros Hg Hr. right; left. exists v. split; [exact Hg|]. repeat split; assumption. Qed.

Lemma some_inj {A} (a b : A) : Some a = Some b -> a = b.
Proof. congruence. Qed.

Lemma pass_inv e : forall k, fr1 e = Some k -> forall iota v, g_eval [] iota e = Some (GU k, v) ->
  forall cnt full cx pr x, tinv cnt full k iota x e -> (full = false -> cx_iota cx = iota) -> pr_pos cnt k pr ->
  exists x', y_pass cx pr x = (x', Ok tt) /\ tinv cnt true k iota x' e.
Proof.
  induction e as [z|z|q|s0|b0| |n|a IHa|o a IHa|o a IHa b IHb|t0 a IHa|a IHa]; intros k Hk iota v Hg cnt full cx pr x Hx Hfull Hpr;
    cbn [fr1] in Hk; try discriminate.
  - (* EInt *)
    injection Hk as <-. destruct x as [l d| | | | | ]; try contradiction. destruct l; try contradiction.
    cbn [tinv] in Hx. destruct Hx as [<- Hd]. cbn [y_pass y_leaf fin].
    eexists; split; [reflexivity|]. cbn [tinv]. split; [reflexivity|].
    destruct Hd as [[_ ->]|[(v' & Hg' & Ht & Hv & Hr)|(Hc & Hconv)]].
    + cbn. refine (good_dinv cnt UInt iota _ true (GI _) true _ _); [reflexivity|auto].
    + rewrite Ht. right; left. exists v'. repeat split; assumption.
    + destruct Hconv as (n0 & r & Hg' & Hin & -> & Hr). cbn. right; right. split; [exact Hc|]. exists n0, r. auto.
  - (* EStr *)
    injection Hk as <-. destruct x as [l d| | | | | ]; try contradiction. destruct l; try contradiction.
    cbn [tinv] in Hx. destruct Hx as [<- Hd]. cbn [y_pass y_leaf fin].
    eexists; split; [reflexivity|]. cbn [tinv]. split; [reflexivity|].
    destruct Hd as [[_ ->]|[(v' & Hg' & Ht & Hv & Hr)|(Hc & Hconv)]].
    + cbn. refine (good_dinv cnt UString iota _ true (GS _) true _ _); [reflexivity|auto].
    + rewrite Ht. right; left. exists v'. repeat split; assumption.
    + destruct Hconv as (n0 & r & Hg' & _). cbn in Hg'. discriminate.
  - (* EBool *)
    injection Hk as <-. destruct x as [l d| | | | | ]; try contradiction. destruct l; try contradiction.
    cbn [tinv] in Hx. destruct Hx as [<- Hd]. cbn [y_pass y_leaf fin].
    eexists; split; [reflexivity|]. cbn [tinv]. split; [reflexivity|].
    destruct Hd as [[_ ->]|[(v' & Hg' & Ht & Hv & Hr)|(Hc & Hconv)]].
    + cbn. refine (good_dinv cnt UBool iota _ true (GB _) true _ _); [reflexivity|auto].
    + rewrite (Hr eq_refl). right; left. exists v'. repeat split; assumption.
    + destruct Hconv as (n0 & r & Hg' & _). cbn in Hg'. discriminate.
  - (* EIota *)
    injection Hk as <-. destruct x as [l d| | | | | ]; try contradiction. destruct l; try contradiction.
    cbn [tinv] in Hx. cbn [y_pass y_leaf fin].
    eexists; split; [reflexivity|]. cbn [tinv].
    destruct Hx as [[Hf ->]|[(v' & Hg' & Ht & Hv & Hr)|(Hc & Hconv)]].
    + cbn. rewrite (Hfull Hf). apply (good_dinv cnt UInt iota EIota true (GI iota) true); [reflexivity|auto].
    + rewrite (Hr eq_refl). right; left. exists v'. repeat split; assumption.
    + destruct Hconv as (n0 & r & Hg' & Hin & -> & Hr). cbn. rewrite (Hr eq_refl). cbn.
      right; right. split; [exact Hc|]. exists n0, true. auto.
  - (* EParen *)
    destruct x as [l d|c d|o' c d|o' xa xb d|t' c d|c d]; try (destruct l); try contradiction. cbn [tinv] in Hx. destruct Hx as [Hc Hd].
    cbn [y_pass]. cbn [g_eval] in Hg.
    pose proof (pre_typ_ok cnt full k iota (EParen a) false pr d Hpr Hd) as Ht.
    destruct (IHa k Hk iota v Hg false full cx (PSet (pre_typ pr false d)) c Hc Hfull (pr_ok_set k _ Ht)) as (c' & Hy & Hc').
    rewrite Hy. eexists; split; [reflexivity|]. cbn [tinv]. split; [exact Hc'|].
    destruct (tinv_root k iota c' a Hc') as (v' & Hg' & Hdeco & _).
    rewrite Hg in Hg'. apply some_inj in Hg'. injection Hg' as <-.
    rewrite Hdeco. cbn [mkd dty dva].
    apply (good_dinv cnt k iota (EParen a) false v false); [exact Hg|discriminate].
  - (* EUn *)
    destruct x as [l d|c d|o' c d|o' xa xb d|t' c d|c d]; try (destruct l); try contradiction. cbn [tinv] in Hx. destruct Hx as (-> & Hc & Hd).
    cbn [y_pass].
    destruct (fr1 a) as [ka|] eqn:Hfa; [|destruct o; discriminate].
    assert (Hka : ka = k /\ (o = UNot -> k = UBool) /\ (o <> UNot -> k = UInt)).
    { destruct o, ka; try discriminate; injection Hk as <-; repeat split; try reflexivity; try congruence. }
    destruct Hka as (-> & HkN & HkI).
    assert (Ht : typ_ok k (pre_typ pr (is_not o) d)).
    { destruct o; cbn [is_not]; try (apply (pre_typ_ok cnt full k iota _ false pr d Hpr Hd)).
      unfold pre_typ, typ_ok.
      destruct Hd as [[_ ->]|[(v' & _ & Hty & _)|(_ & n0 & r & Hg' & _)]]; [left; reflexivity|right; exact Hty|].
      rewrite Hg in Hg'. rewrite (HkN eq_refl) in Hg'. discriminate. }
    set (d1 := {| dty := pre_typ pr (is_not o) d; dva := dva d; dres := dres d |}).
    destruct (Bool.bool_dec (is_not o) true) as [HN|HN].
    + (* UNot *)
      assert (o = UNot) as -> by (destruct o; try discriminate; reflexivity).
      pose proof (HkN eq_refl) as ->.
      destruct (g_un_bool_inv a iota v Hfa Hg) as (b1 & Hga & ->).
      destruct (IHa UBool eq_refl iota (GB b1) Hga false full cx (PSet (pre_typ pr (is_not UNot) d)) c Hc Hfull (pr_ok_set _ _ Ht)) as (c' & Hy & Hc').
      rewrite Hy.
      destruct (tinv_root UBool iota c' a Hc') as (v' & Hg' & Hdeco & _).
      rewrite Hga in Hg'. apply some_inj in Hg'. injection Hg' as <-.
      rewrite (y_unary_bool1 c' d1 b1 _ Hdeco). cbn [fin].
      eexists; split; [reflexivity|]. cbn [tinv]. repeat split; [exact Hc'|].
      apply (good_dinv cnt UBool iota (EUn UNot a) false (GB (negb b1)) false); [exact Hg|discriminate].
    + (* + - ^ *)
      assert (Ho : o <> UNot) by (intros ->; apply HN; reflexivity).
      pose proof (HkI Ho) as ->.
      destruct (g_un_int_inv o a iota v Hfa Ho Hg) as (z1 & Hga & ->).
      destruct (IHa UInt eq_refl iota (GI z1) Hga false full cx (PSet (pre_typ pr (is_not o) d)) c Hc Hfull (pr_ok_set _ _ Ht)) as (c' & Hy & Hc').
      rewrite Hy.
      destruct (tinv_root UInt iota c' a Hc') as (v' & Hg' & Hdeco & _).
      rewrite Hga in Hg'. apply some_inj in Hg'. injection Hg' as <-.
      rewrite (y_unary_int1 o c' d1 z1 _ Ho Hdeco). cbn [fin].
      eexists; split; [reflexivity|]. cbn [tinv]. repeat split; [exact Hc'|].
      apply (good_dinv cnt UInt iota (EUn o a) false (GI (un_val o z1)) false); [exact Hg|discriminate].
  - (* EBin *)
    destruct x as [l d|c d|o' c d|o' xa xb d|t' c d|c d]; try (destruct l); try contradiction. cbn [tinv] in Hx. destruct Hx as (-> & Hxa & Hxb & Hd).
    destruct (fr1 a) as [ka|] eqn:Hfa; [|discriminate].
    destruct (fr1 b) as [kb|] eqn:Hfb; [|destruct ka; discriminate].
    assert (Hlg : is_logic o = false) by (destruct ka, kb; try discriminate; destruct o; try discriminate; reflexivity).
    assert (Hcm : is_cmp o = false) by (destruct ka, kb; try discriminate; destruct o; try discriminate; reflexivity).
    cbn [y_pass]. rewrite Hlg, Hcm.
    pose proof (pre_typ_ok cnt full k iota (EBin o a b) false pr d Hpr Hd) as Ht.
    set (t := pre_typ pr false d) in *.
    set (d1 := {| dty := t; dva := dva d; dres := dres d |}).
    destruct ka, kb; try discriminate.
    + (* integers *)
      assert (k = UInt) as -> by (destruct o; try discriminate; injection Hk as <-; reflexivity).
      assert (Hab : fr1 (EBin o a b) = Some UInt) by (cbn [fr1]; rewrite Hfa, Hfb; exact Hk).
      destruct (g_bin_int_inv o a b iota v Hfa Hfb Hab Hg) as (za & zb & Hga & Hgb & -> & Hz & Hin).
      destruct (IHa UInt eq_refl iota (GI za) Hga false full cx (PSet t) xa Hxa Hfull (pr_ok_set _ _ Ht)) as (xa' & Hya & Hxa').
      destruct (IHb UInt eq_refl iota (GI zb) Hgb (is_shift o) full cx (PSet t) xb Hxb Hfull (pr_pos_set _ _ _ Ht)) as (xb' & Hyb & Hxb').
      rewrite Hya, Hyb.
      destruct (tinv_root UInt iota xa' a Hxa') as (va' & Hga' & Hda & _).
      rewrite Hga in Hga'. apply some_inj in Hga'. injection Hga' as <-.
      assert (Hd1 : dty d1 = None \/ dty d1 = Some u_int) by exact Ht.
      assert (Hgood : forall cnt', dinv cnt' true UInt iota (EBin o a b) false (mkd u_int (VC (CInt (int_val o za zb))) false)).
      { intros cnt'. apply (good_dinv cnt' UInt iota (EBin o a b) false (GI (int_val o za zb)) false); [exact Hg|discriminate]. }
      destruct (is_shift o) eqn:Hsh.
      * (* shifts *)
        assert (Ho : o = BShl \/ o = BShr) by (destruct o; try discriminate; auto).
        pose proof (tinv_deco _ _ _ _ _ _ Hxb') as Hdb.
        destruct Hdb as [[Hf _]|[(vb' & Hgb' & Htb & Hvb & Hrb)|(_ & n0 & r & Hgb' & Hin' & Hdb & Hr)]]; [discriminate| |].
        -- rewrite Hgb in Hgb'. apply some_inj in Hgb'. injection Hgb' as <-.
           pose proof (deco_eta _ _ _ Htb Hvb) as Hdb. cbn [y_typ_of y_val_of] in Hdb.
           destruct (y_binary_int1 o xa' xb' d1 za zb _ _ Hda Hdb Hd1) as (_ & _ & HS).
           rewrite (HS Ho), (Hin Ho). cbn [fin].
           eexists; split; [reflexivity|]. cbn [tinv]. rewrite Hsh. repeat split; [exact Hxa'| |apply Hgood].
           apply tinv_with_deco; [exact Hxb'|].
           right; right. split; [reflexivity|]. exists zb, (dres (deco_of xb')). repeat split; auto.
        -- rewrite Hgb in Hgb'. apply some_inj in Hgb'. injection Hgb' as <-.
           rewrite (y_binary_shift_cnt o xa' xb' d1 za zb _ r Hda Hdb Hd1 Hin' Ho). cbn [fin].
           eexists; split; [reflexivity|]. cbn [tinv]. rewrite Hsh. repeat split; [exact Hxa'|exact Hxb'|apply Hgood].
      * (* arithmetic *)
        destruct (tinv_root UInt iota xb' b Hxb') as (vb' & Hgb' & Hdb & _).
        rewrite Hgb in Hgb'. apply some_inj in Hgb'. injection Hgb' as <-.
        destruct (y_binary_int1 o xa' xb' d1 za zb _ _ Hda Hdb Hd1) as (HA & HR & _).
        assert (Hres : y_binary o xa' xb' d1 = Ok (DBin o xa' xb' (mkd u_int (VC (CInt (int_val o za zb))) false))).
        { destruct (int_arith o) eqn:Hia; [exact (HA eq_refl)|].
          assert (Ho : o = BRem \/ o = BQuo) by (destruct o; try discriminate; auto).
          rewrite (HR Ho), (Hz Ho). reflexivity. }
        rewrite Hres. cbn [fin].
        eexists; split; [reflexivity|]. cbn [tinv]. rewrite Hsh. repeat split; [exact Hxa'|exact Hxb'|apply Hgood].
    + (* strings *)
      assert (o = BAdd /\ k = UString) as (-> & ->) by (destruct o; try discriminate; injection Hk as <-; auto).
      destruct (g_bin_str_inv a b iota v Hfa Hfb Hg) as (sa & sb & Hga & Hgb & ->).
      destruct (IHa UString eq_refl iota (GS sa) Hga false full cx (PSet t) xa Hxa Hfull (pr_ok_set _ _ Ht)) as (xa' & Hya & Hxa').
      destruct (IHb UString eq_refl iota (GS sb) Hgb false full cx (PSet t) xb Hxb Hfull (pr_ok_set _ _ Ht)) as (xb' & Hyb & Hxb').
      rewrite Hya, Hyb.
      destruct (tinv_root UString iota xa' a Hxa') as (va' & Hga' & Hda & _).
      rewrite Hga in Hga'. apply some_inj in Hga'. injection Hga' as <-.
      destruct (tinv_root UString iota xb' b Hxb') as (vb' & Hgb' & Hdb & _).
      rewrite Hgb in Hgb'. apply some_inj in Hgb'. injection Hgb' as <-.
      assert (Hd1 : dty d1 = None \/ dty d1 = Some u_string) by exact Ht.
      rewrite (y_binary_str1 xa' xb' d1 sa sb _ _ Hda Hdb Hd1). cbn [fin].
      eexists; split; [reflexivity|]. cbn [tinv is_shift]. repeat split; [exact Hxa'|exact Hxb'|].
      apply (good_dinv cnt UString iota (EBin BAdd a b) false (GS (sa ++ sb)) false); [exact Hg|discriminate].
Qed.

(* ------------------------------------------------------------------ *)
(** ** one ConstSpec `x = e` *)

Definition sym_of (k : ukind) (v : gval) : sym := {| sy_typ := y_typ_of k; sy_val := Some (y_val_of v) |}.

Lemma y_assignment_same k v r :
  k = UInt \/ k = UString \/ k = UBool ->
  y_assignment (mkd (y_typ_of k) (y_val_of v) r) (y_typ_of k) = Ok (mkd (y_typ_of k) (y_val_of v) r).
Proof. intros [->|[->| ->]]; reflexivity. Qed.

Definition dspec1 (x : N) (src : dx) (dt : option ytyp) : dspec :=
  {| ds_names := [x]; ds_type := None; ds_srcs := [src]; ds_dest := [dt] |}.

Lemma spec_visit_ok x e k v src dt full env cxi i last :
  fr1 e = Some k -> g_eval [] i e = Some (GU k, v) -> tinv false full k i src e ->
  typ_ok k dt -> (full = false -> cxi = i) ->
  exists src',
    y_spec_visit env cxi last (dspec1 x src dt)
    = (dspec1 x src' (Some (y_typ_of k)), Ok (env_set env x (sym_of k v), if last then 0 else cxi + 1))
    /\ tinv false true k i src' e.
Proof.
  intros Hk Hg Hx Hdt Hfull.
  unfold y_spec_visit, dspec1. cbn [ds_names ds_srcs ds_type ds_dest length Nat.eqb negb y_spec_srcs].
  assert (Hpr : pr_pos false k (PDest dt)).
  { destruct Hdt as [->| ->]; unfold pr_pos, pr_ok; auto 6. }
  destruct (pass_inv e k Hk i v Hg false full {| cx_iota := cxi; cx_env := env; cx_const := true |} (PDest dt) src Hx Hfull Hpr)
    as (src' & Hy & Hx').
  rewrite Hy. cbn [y_spec_assign].
  destruct (tinv_root k i src' e Hx') as (v' & Hg' & Hdeco & _).
  rewrite Hg in Hg'. apply some_inj in Hg'. injection Hg' as <-.
  unfold typ_of. rewrite Hdeco. cbn [mkd dty bind].
  change {| dty := Some (y_typ_of k); dva := Some (y_val_of v); dres := dres (deco_of src') |}
    with (mkd (y_typ_of k) (y_val_of v) (dres (deco_of src'))).
  rewrite (y_assignment_same k v _ (fr1_kinds e k Hk)). cbn [bind mkd dva].
  rewrite <- Hdeco, with_deco_id.
  exists src'. split; [|exact Hx'].
  unfold sym_of. reflexivity.
Qed.

(* ------------------------------------------------------------------ *)
(** ** groups *)

(** the plan of a group: per spec its name, the expression it evaluates (its own or the repeated
    one), and kind and value of that expression at the spec's iota *)
Definition pentry := (N * expr * ukind * gval)%type.

Fixpoint specs_inv (full : bool) (i : Z) (pl : list pentry) (ds : list dspec) : Prop :=
  match pl, ds with
  | [], [] => True
  | (x, e, k, v) :: pl', sp :: ds' =>
      (exists src dt, sp = dspec1 x src dt /\ fr1 e = Some k /\ g_eval [] i e = Some (GU k, v)
                      /\ tinv false full k i src e
                      /\ (if full then dt = Some (y_typ_of k) else typ_ok k dt))
      /\ specs_inv full (i + 1) pl' ds'
  | _, _ => False
  end.

Fixpoint env_after (env : list (N * sym)) (pl : list pentry) : list (N * sym) :=
  match pl with
  | [] => env
  | (x, _, k, v) :: pl' => env_after (env_set env x (sym_of k v)) pl'
  end.

Lemma specs_inv_weaken i pl : forall ds, specs_inv true i pl ds -> specs_inv false i pl ds.
Proof.
  revert i. induction pl as [|[[[x e] k] v] pl IH]; intros i [|sp ds] H; cbn [specs_inv] in *; try contradiction; auto.
  destruct H as ((src & dt & -> & Hk & Hg & Hx & ->) & Hr). split; [|apply IH; exact Hr].
  exists src, (Some (y_typ_of k)). repeat split; auto using tinv_weaken. right; reflexivity.
Qed.

(** cfg walking a group that was (or was not yet) visited *)
Lemma group_visit_ok pl : forall full i ds env cxi,
  specs_inv full i pl ds -> (full = false -> pl = [] \/ cxi = i) ->
  exists ds', y_group_visit env cxi ds = Ok (env_after env pl, (match pl with [] => cxi | _ => 0 end), ds')
              /\ specs_inv true i pl ds'.
Proof.
  induction pl as [|[[[x e] k] v] pl IH]; intros full i [|sp ds] env cxi H Hfull; cbn [specs_inv] in H; try contradiction.
  - exists []. split; reflexivity.
  - destruct H as ((src & dt & -> & Hk & Hg & Hx & Hdt) & Hr).
    assert (Hdt' : typ_ok k dt) by (destruct full; [right; exact Hdt|exact Hdt]).
    assert (Hfull' : full = false -> cxi = i) by (intros Hf; destruct (Hfull Hf) as [H0|H0]; [discriminate|exact H0]).
    cbn [y_group_visit].
    destruct (spec_visit_ok x e k v src dt full env cxi i (is_last ds) Hk Hg Hx Hdt' Hfull') as (src' & Hy & Hx').
    rewrite Hy. cbn [bind].
    assert (Hlen : is_last ds = match pl with [] => true | _ => false end).
    { destruct pl as [|[[[? ?] ?] ?] ?], ds; cbn [specs_inv] in Hr; try contradiction; reflexivity. }
    destruct (IH full (i + 1) ds (env_set env x (sym_of k v)) (if is_last ds then 0 else cxi + 1) Hr) as (ds' & Hyr & Hr').
    { intros Hf. rewrite Hlen. destruct pl; [left; reflexivity|right; rewrite (Hfull' Hf); reflexivity]. }
    rewrite Hyr. cbn [bind env_after].
    exists (dspec1 x src' (Some (y_typ_of k)) :: ds'). split.
    + f_equal. f_equal. f_equal. rewrite Hlen. destruct pl; reflexivity.
    + cbn [specs_inv]. split; [|exact Hr']. exists src', (Some (y_typ_of k)). repeat split; auto.
Qed.

(** the same walk with its error discarded (gta on the constDecl, pre-order of a local constDecl):
    no error occurs *)
Lemma group_try_ok pl : forall full i ds env cxi,
  specs_inv full i pl ds -> (full = false -> pl = [] \/ cxi = i) ->
  exists ds', y_group_try env cxi ds = Ok (env_after env pl, (match pl with [] => cxi | _ => 0 end), ds')
              /\ specs_inv true i pl ds'.
Proof.
  induction pl as [|[[[x e] k] v] pl IH]; intros full i [|sp ds] env cxi H Hfull; cbn [specs_inv] in H; try contradiction.
  - exists []. split; reflexivity.
  - destruct H as ((src & dt & -> & Hk & Hg & Hx & Hdt) & Hr).
    assert (Hdt' : typ_ok k dt) by (destruct full; [right; exact Hdt|exact Hdt]).
    assert (Hfull' : full = false -> cxi = i) by (intros Hf; destruct (Hfull Hf) as [H0|H0]; [discriminate|exact H0]).
    cbn [y_group_try].
    destruct (spec_visit_ok x e k v src dt full env cxi i (is_last ds) Hk Hg Hx Hdt' Hfull') as (src' & Hy & Hx').
    rewrite Hy.
    assert (Hlen : is_last ds = match pl with [] => true | _ => false end).
    { destruct pl as [|[[[? ?] ?] ?] ?], ds; cbn [specs_inv] in Hr; try contradiction; reflexivity. }
    destruct (IH full (i + 1) ds (env_set env x (sym_of k v)) (if is_last ds then 0 else cxi + 1) Hr) as (ds' & Hyr & Hr').
    { intros Hf. rewrite Hlen. destruct pl; [left; reflexivity|right; rewrite (Hfull' Hf); reflexivity]. }
    rewrite Hyr. cbn [bind env_after].
    exists (dspec1 x src' (Some (y_typ_of k)) :: ds'). split.
    + f_equal. f_equal. f_equal. rewrite Hlen. destruct pl; reflexivity.
    + cbn [specs_inv]. split; [|exact Hr']. exists src', (Some (y_typ_of k)). repeat split; auto.
Qed.

Lemma local_pre_ok pl : forall full i ds env cxi,
  specs_inv full i pl ds -> (full = false -> pl = [] \/ cxi = i) ->
  exists ds', y_local_pre env cxi ds = Ok (env_after env pl, (match pl with [] => cxi | _ => 0 end), ds')
              /\ specs_inv true i pl ds'.
Proof.
  induction pl as [|[[[x e] k] v] pl IH]; intros full i [|sp ds] env cxi H Hfull; cbn [specs_inv] in H; try contradiction.
  - exists []. split; reflexivity.
  - destruct H as ((src & dt & -> & Hk & Hg & Hx & Hdt) & Hr).
    assert (Hdt' : typ_ok k dt) by (destruct full; [right; exact Hdt|exact Hdt]).
    assert (Hfull' : full = false -> cxi = i) by (intros Hf; destruct (Hfull Hf) as [H0|H0]; [discriminate|exact H0]).
    cbn [y_local_pre].
    destruct (spec_visit_ok x e k v src dt full env cxi i (is_last ds) Hk Hg Hx Hdt' Hfull') as (src' & Hy & Hx').
    rewrite Hy.
    assert (Hlen : is_last ds = match pl with [] => true | _ => false end).
    { destruct pl as [|[[[? ?] ?] ?] ?], ds; cbn [specs_inv] in Hr; try contradiction; reflexivity. }
    destruct (IH full (i + 1) ds (env_set env x (sym_of k v)) (if is_last ds then 0 else cxi + 1) Hr) as (ds' & Hyr & Hr').
    { intros Hf. rewrite Hlen. destruct pl; [left; reflexivity|right; rewrite (Hfull' Hf); reflexivity]. }
    rewrite Hyr. cbn [bind env_after].
    exists (dspec1 x src' (Some (y_typ_of k)) :: ds'). split.
    + f_equal. f_equal. f_equal. rewrite Hlen. destruct pl; reflexivity.
    + cbn [specs_inv]. split; [|exact Hr']. exists src', (Some (y_typ_of k)). repeat split; auto.
Qed.

(** gta walking the specs of a visited group: every spec is visited again and its symbol replaced *)
Fixpoint env_after2 (env : list (N * sym)) (pl : list pentry) : list (N * sym) :=
  match pl with
  | [] => env
  | (x, _, k, v) :: pl' => env_after2 (env_set (env_set env x (sym_of k v)) x (sym_of k v)) pl'
  end.

Lemma group_gta_ok pl : forall i ds env cxi failed,
  specs_inv true i pl ds ->
  exists ds' cxi', y_group_gta env cxi failed ds = Ok (env_after2 env pl, cxi', failed, ds')
              /\ (pl <> [] -> cxi' = 0) /\ (pl = [] -> cxi' = cxi)
              /\ specs_inv true i pl ds'.
Proof.
  induction pl as [|[[[x e] k] v] pl IH]; intros i [|sp ds] env cxi failed H; cbn [specs_inv] in H; try contradiction.
  - exists [], cxi. repeat split; auto. congruence.
  - destruct H as ((src & dt & -> & Hk & Hg & Hx & ->) & Hr).
    cbn [y_group_gta].
    destruct (spec_visit_ok x e k v src (Some (y_typ_of k)) true env cxi i (is_last ds) Hk Hg Hx (or_intror eq_refl) ltac:(discriminate)) as (src' & Hy & Hx').
    rewrite Hy. cbn [dspec1 ds_type ds_names ds_srcs gta_syms].
    destruct (tinv_root k i src' e Hx') as (v' & Hg' & Hdeco & _).
    rewrite Hg in Hg'. apply some_inj in Hg'. injection Hg' as <-.
    unfold typ_of. rewrite Hdeco. cbn [mkd dty dva bind length].
    change {| sy_typ := y_typ_of k; sy_val := Some (y_val_of v) |} with (sym_of k v).
    destruct (IH (i + 1) ds (env_set (env_set env x (sym_of k v)) x (sym_of k v))
                 (if is_last ds then 0 else (if is_last ds then 0 else cxi + 1) + Z.of_nat 1) failed Hr) as (ds' & cxi' & Hyr & H1 & H2 & Hr').
    rewrite Hyr. cbn [bind env_after2].
    exists (dspec1 x src' (Some (y_typ_of k)) :: ds'), cxi'. repeat split.
    + intros _. destruct pl as [|p pl].
      * destruct ds; cbn [specs_inv] in Hr; [|contradiction]. rewrite (H2 eq_refl). reflexivity.
      * apply H1. discriminate.
    + discriminate.
    + exists src', (Some (y_typ_of k)). repeat split; auto.
    + exact Hr'.
Qed.

(* ------------------------------------------------------------------ *)
(** ** environments: only lookups matter *)

Definition env_equiv (e1 e2 : list (N * sym)) : Prop := forall x, alookup x e1 = alookup x e2.

Lemma alookup_env_set env y s x :
  alookup x (env_set env y s) = if (y =? 0)%N then alookup x env else if (x =? y)%N then Some s else alookup x env.
Proof. unfold env_set. destruct (y =? 0)%N; reflexivity. Qed.

(** the last binding of x in a plan *)
Fixpoint plook (x : N) (pl : list pentry) : option sym :=
  match pl with
  | [] => None
  | (y, _, k, v) :: pl' =>
      match plook x pl' with
      | Some s => Some s
      | None => if (y =? 0)%N then None else if (x =? y)%N then Some (sym_of k v) else None
      end
  end.

Lemma alookup_env_after pl : forall env x,
  alookup x (env_after env pl) = match plook x pl with Some s => Some s | None => alookup x env end.
Proof.
  induction pl as [|[[[y e] k] v] pl IH]; intros env x; cbn [env_after plook]; [reflexivity|].
  rewrite IH. destruct (plook x pl); [reflexivity|]. rewrite alookup_env_set.
  destruct (y =? 0)%N; [reflexivity|]. destruct (x =? y)%N; reflexivity.
Qed.

Lemma alookup_env_after2 pl : forall env x,
  alookup x (env_after2 env pl) = match plook x pl with Some s => Some s | None => alookup x env end.
Proof.
  induction pl as [|[[[y e] k] v] pl IH]; intros env x; cbn [env_after2 plook]; [reflexivity|].
  rewrite IH. destruct (plook x pl); [reflexivity|]. rewrite !alookup_env_set.
  destruct (y =? 0)%N; [reflexivity|]. destruct (x =? y)%N; reflexivity.
Qed.

Lemma env_after_app env p1 p2 : env_after env (p1 ++ p2) = env_after (env_after env p1) p2.
Proof. revert env. induction p1 as [|[[[y e] k] v] p1 IH]; intros env; cbn [env_after app]; [reflexivity|apply IH]. Qed.

Lemma plook_app x p1 p2 : plook x (p1 ++ p2) = match plook x p2 with Some s => Some s | None => plook x p1 end.
Proof.
  induction p1 as [|[[[y e] k] v] p1 IH]; cbn [plook app]; [destruct (plook x p2); reflexivity|].
  rewrite IH. destruct (plook x p2); [reflexivity|]. reflexivity.
Qed.

(** what matters of an environment built by visiting plans: its lookups are those of the plans *)
Definition env_is (env : list (N * sym)) (pl : list pentry) : Prop := forall x, alookup x env = plook x pl.

Lemma env_is_after env p1 p2 : env_is env p1 -> env_is (env_after env p2) (p1 ++ p2).
Proof. intros H x. rewrite alookup_env_after, plook_app, H. reflexivity. Qed.

Lemma env_is_after2 env p1 p2 : env_is env p1 -> env_is (env_after2 env p2) (p1 ++ p2).
Proof. intros H x. rewrite alookup_env_after2, plook_app, H. reflexivity. Qed.

(** visiting again a plan that is already at the end changes no lookup *)
Lemma env_is_again env p0 p : env_is env (p0 ++ p) -> env_is (env_after env p) (p0 ++ p).
Proof.
  intros H x. rewrite alookup_env_after, H, plook_app. destruct (plook x p); reflexivity.
Qed.

Lemma env_is_again2 env p0 p : env_is env (p0 ++ p) -> env_is (env_after2 env p) (p0 ++ p).
Proof.
  intros H x. rewrite alookup_env_after2, H, plook_app. destruct (plook x p); reflexivity.
Qed.

(* ------------------------------------------------------------------ *)
(** ** from the syntax of a group to its plan *)

(** name and expression of every spec of a group of single-name untyped specs; a spec without
    expression repeats the previous one *)
Fixpoint exprs_of (prev : option expr) (g : group) : option (list (N * expr)) :=
  match g with
  | [] => Some []
  | sp :: g' =>
      match sp_names sp, sp_type sp, sp_exprs sp with
      | [x], None, [e] => option_map (cons (x, e)) (exprs_of (Some e) g')
      | [x], None, [] => match prev with
                         | Some e => option_map (cons (x, e)) (exprs_of prev g')
                         | None => None
                         end
      | _, _, _ => None
      end
  end.

Definition prev_of (p : option expr) : option (option bt * list expr) := option_map (fun e => (None, [e])) p.

Lemma desugar_exprs g : forall prev l, exprs_of prev g = Some l ->
  desugar (prev_of prev) g = map (fun xe => dspec1 (fst xe) (init (snd xe)) None) l.
Proof.
  induction g as [|sp g IH]; intros prev l H; cbn [exprs_of] in H.
  - injection H as <-. reflexivity.
  - destruct sp as [names ty es]. cbn [sp_names sp_type sp_exprs] in H.
    destruct names as [|x [|? ?]]; try discriminate. destruct ty; try discriminate.
    destruct es as [|e [|? ?]]; try discriminate.
    + destruct prev as [e|]; [|discriminate].
      destruct (exprs_of (Some e) g) as [l'|] eqn:El; [|discriminate]. injection H as <-.
      cbn [desugar sp_exprs sp_names sp_type prev_of option_map last_opt rev app map fst snd].
      rewrite <- (IH (Some e) l' El). reflexivity.
    + destruct (exprs_of (Some e) g) as [l'|] eqn:El; [|discriminate]. injection H as <-.
      cbn [desugar sp_exprs sp_names sp_type map fst snd].
      rewrite <- (IH (Some e) l' El). reflexivity.
Qed.

Fixpoint g_plan (env : genv) (i : Z) (l : list (N * expr)) : option genv :=
  match l with
  | [] => Some env
  | (x, e) :: l' =>
      match g_eval env i e with
      | None => None
      | Some c => g_plan (if (x =? 0)%N then env else (x, c) :: env) (i + 1) l'
      end
  end.

Lemma g_group_exprs g : forall prev l env i, exprs_of prev g = Some l ->
  g_group env i (prev_of prev) g = g_plan env i l.
Proof.
  induction g as [|sp g IH]; intros prev l env i H; cbn [exprs_of] in H.
  - injection H as <-. reflexivity.
  - destruct sp as [names ty es]. cbn [sp_names sp_type sp_exprs] in H.
    destruct names as [|x [|? ?]]; try discriminate. destruct ty; try discriminate.
    destruct es as [|e [|? ?]]; try discriminate.
    + destruct prev as [e|]; [|discriminate].
      destruct (exprs_of (Some e) g) as [l'|] eqn:El; [|discriminate]. injection H as <-.
      cbn [g_group sp_exprs sp_names sp_type prev_of option_map g_spec_vals g_plan].
      destruct (g_eval env i e) as [c|]; [|reflexivity]. cbn [g_define].
      apply (IH (Some e) l' _ _ El).
    + destruct (exprs_of (Some e) g) as [l'|] eqn:El; [|discriminate]. injection H as <-.
      cbn [g_group sp_exprs sp_names sp_type g_spec_vals g_plan].
      destruct (g_eval env i e) as [c|]; [|reflexivity]. cbn [g_define].
      apply (IH (Some e) l' _ _ El).
Qed.

Fixpoint g_after (env : genv) (pl : list pentry) : genv :=
  match pl with
  | [] => env
  | (x, _, k, v) :: pl' => g_after (if (x =? 0)%N then env else (x, (GU k, v)) :: env) pl'
  end.

Definition in_frag (l : list (N * expr)) : Prop := Forall (fun xe => fr1 (snd xe) <> None) l.

(** G accepts the plan: every expression has a value; this gives the annotated plan *)
Lemma g_plan_annot l : forall env i env', in_frag l -> g_plan env i l = Some env' ->
  exists pl, specs_inv false i pl (map (fun xe => dspec1 (fst xe) (init (snd xe)) None) l)
             /\ env' = g_after env pl.
Proof.
  induction l as [|[x e] l IH]; intros env i env' Hf H; cbn [g_plan] in H.
  - injection H as <-. exists []. split; reflexivity.
  - inversion Hf as [|? ? Hfe Hfl]; subst. cbn [snd] in Hfe.
    destruct (fr1 e) as [k|] eqn:Hk; [|congruence].
    rewrite (g_eval_env e k Hk) in H.
    destruct (g_eval [] i e) as [[gk v]|] eqn:Hg; [|discriminate].
    destruct (fr1_eval e k i gk v Hk Hg) as [-> Hwf].
    destruct (IH _ _ _ Hfl H) as (pl & Hinv & ->).
    exists ((x, e, k, v) :: pl). split; [|reflexivity].
    cbn [map fst snd specs_inv]. split; [|exact Hinv].
    exists (init e), None. repeat split; auto.
    + apply (tinv_init k i e false k Hk).
    + left; reflexivity.
Qed.

(* ------------------------------------------------------------------ *)
(** ** whole programs *)

Lemma global_gta_ok pls : forall dss env P,
  Forall2 (specs_inv false 0) pls dss -> env_is env P ->
  exists env' dss', y_global_gta env 0 false dss = Ok (env', false, dss')
                    /\ Forall2 (specs_inv true 0) pls dss' /\ env_is env' (P ++ concat pls).
Proof.
  induction pls as [|pl pls IH]; intros dss env P H Henv; inversion H as [|? ds ? dss0 Hpl Hrest]; subst.
  - exists env, []. cbn. rewrite app_nil_r. repeat split; [constructor|exact Henv].
  - cbn [y_global_gta].
    destruct (group_try_ok pl false 0 ds env 0 Hpl ltac:(auto)) as (ds1 & Hy1 & H1).
    rewrite Hy1. cbn [bind].
    destruct (group_gta_ok pl 0 ds1 (env_after env pl) (match pl with [] => 0 | _ => 0 end) false H1) as (ds2 & cxi' & Hy2 & Hc1 & Hc2 & H2).
    rewrite Hy2. cbn [bind].
    assert (Hcx : cxi' = 0) by (destruct pl; [apply Hc2; reflexivity|apply Hc1; discriminate]).
    subst cxi'.
    assert (Henv2 : env_is (env_after2 (env_after env pl) pl) (P ++ pl)).
    { apply env_is_again2. apply env_is_after. exact Henv. }
    destruct (IH dss0 _ (P ++ pl) Hrest Henv2) as (env' & dss' & Hy3 & H3 & Henv3).
    rewrite Hy3. cbn [bind].
    exists env', (ds2 :: dss'). repeat split; [constructor; assumption|].
    cbn [concat]. rewrite app_assoc. exact Henv3.
Qed.

Lemma global_cfg_ok pls : forall dss env,
  Forall2 (specs_inv true 0) pls dss ->
  exists dss', y_global_cfg env dss = Ok (env_after env (concat pls), dss') /\ Forall2 (specs_inv true 0) pls dss'.
Proof.
  induction pls as [|pl pls IH]; intros dss env H; inversion H as [|? ds ? dss0 Hpl Hrest]; subst.
  - exists []. split; [reflexivity|constructor].
  - cbn [y_global_cfg].
    destruct (group_visit_ok pl true 0 ds env 0 Hpl ltac:(discriminate)) as (ds1 & Hy1 & H1).
    rewrite Hy1. cbn [bind].
    destruct (IH dss0 (env_after env pl) Hrest) as (dss' & Hy2 & H2).
    rewrite Hy2. cbn [bind concat]. rewrite env_after_app.
    exists (ds1 :: dss'). split; [reflexivity|constructor; assumption].
Qed.

Lemma local_ok pls : forall dss env P,
  Forall2 (specs_inv false 0) pls dss -> env_is env P ->
  exists env' dss', y_local env 0 dss = Ok (env', dss')
                    /\ Forall2 (specs_inv true 0) pls dss' /\ env_is env' (P ++ concat pls).
Proof.
  induction pls as [|pl pls IH]; intros dss env P H Henv; inversion H as [|? ds ? dss0 Hpl Hrest]; subst.
  - exists env, []. cbn. rewrite app_nil_r. repeat split; [constructor|exact Henv].
  - cbn [y_local].
    destruct (local_pre_ok pl false 0 ds env 0 Hpl ltac:(auto)) as (ds1 & Hy1 & H1).
    rewrite Hy1. cbn [bind].
    destruct (group_visit_ok pl true 0 ds1 (env_after env pl) (match pl with [] => 0 | _ => 0 end) H1 ltac:(discriminate)) as (ds2 & Hy2 & H2).
    rewrite Hy2. cbn [bind].
    assert (Hcx : (match pl with [] => match pl with [] => 0 | _ => 0 end | _ => 0 end) = 0) by (destruct pl; reflexivity).
    rewrite Hcx.
    assert (Henv2 : env_is (env_after (env_after env pl) pl) (P ++ pl)).
    { apply env_is_again. apply env_is_after. exact Henv. }
    destruct (IH dss0 _ (P ++ pl) Hrest Henv2) as (env' & dss' & Hy3 & H3 & Henv3).
    rewrite Hy3. cbn [bind].
    exists env', (ds2 :: dss'). repeat split; [constructor; assumption|].
    cbn [concat]. rewrite app_assoc. exact Henv3.
Qed.

(** no comparison in the fragment: genRun has nothing to convert *)
Lemma genrun_ok e : forall k, fr1 e = Some k -> forall x cnt full k' i, tinv cnt full k' i x e -> y_genrun x = Ok tt.
Proof.
  induction e as [z|z|q|s0|b0| |n|a IHa|o a IHa|o a IHa b IHb|t0 a IHa|a IHa]; intros k Hk x cnt full k' i Hx;
    cbn [fr1] in Hk; try discriminate;
    destruct x as [l d|c d|o' c d|o' xa xb d|t' c d|c d]; try (destruct l); try contradiction; cbn [tinv] in Hx; cbn [y_genrun]; try reflexivity.
  - destruct Hx as [Hc _]. eapply IHa; eassumption.
  - destruct Hx as (_ & Hc & _). destruct (fr1 a) as [ka|] eqn:Ha; [|destruct o; discriminate]. eapply IHa; [reflexivity|eassumption].
  - destruct Hx as (-> & Hxa & Hxb & _).
    destruct (fr1 a) as [ka|] eqn:Ha; [|discriminate]. destruct (fr1 b) as [kb|] eqn:Hb; [|destruct ka; discriminate].
    rewrite (IHa ka eq_refl xa _ _ _ _ Hxa), (IHb kb eq_refl xb _ _ _ _ Hxb). cbn [bind].
    destruct ka, kb; try discriminate; destruct o; try discriminate; reflexivity.
Qed.

Lemma genrun_list_app a b : y_genrun_list a = Ok tt -> y_genrun_list b = Ok tt -> y_genrun_list (a ++ b) = Ok tt.
Proof.
  induction a as [|x a IH]; intros Ha Hb; cbn [app y_genrun_list] in *; [exact Hb|].
  destruct (y_genrun x) as [[]| | |]; try discriminate. cbn [bind] in *. apply IH; assumption.
Qed.

Lemma genrun_specs pl : forall i ds, specs_inv true i pl ds -> y_genrun_list (flat_map ds_srcs ds) = Ok tt.
Proof.
  induction pl as [|[[[x e] k] v] pl IH]; intros i [|sp ds] H; cbn [specs_inv] in H; try contradiction; [reflexivity|].
  destruct H as ((src & dt & -> & Hk & _ & Hx & _) & Hr).
  cbn [flat_map dspec1 ds_srcs app y_genrun_list]. rewrite (genrun_ok e k Hk src _ _ _ _ Hx). cbn [bind].
  apply (IH _ _ Hr).
Qed.

Lemma genrun_all pls : forall dss, Forall2 (specs_inv true 0) pls dss -> y_genrun_list (all_srcs dss) = Ok tt.
Proof.
  unfold all_srcs. induction pls as [|pl pls IH]; intros dss H; inversion H as [|? ds ? dss0 Hpl Hrest]; subst; [reflexivity|].
  cbn [flat_map]. apply genrun_list_app; [apply (genrun_specs pl 0 ds Hpl)|apply IH; exact Hrest].
Qed.

(* ------------------------------------------------------------------ *)
(** ** printing the declared names *)

Fixpoint kvlook (x : N) (pl : list pentry) : option (ukind * gval) :=
  match pl with
  | [] => None
  | (y, _, k, v) :: pl' =>
      match kvlook x pl' with
      | Some c => Some c
      | None => if (y =? 0)%N then None else if (x =? y)%N then Some (k, v) else None
      end
  end.

Lemma plook_kv x pl : plook x pl = option_map (fun kv => sym_of (fst kv) (snd kv)) (kvlook x pl).
Proof.
  induction pl as [|[[[y e] k] v] pl IH]; cbn [plook kvlook]; [reflexivity|].
  rewrite IH. destruct (kvlook x pl); [reflexivity|]. cbn [option_map].
  destruct (y =? 0)%N; [reflexivity|]. destruct (x =? y)%N; reflexivity.
Qed.

Lemma alookup_g_after pl : forall env x,
  alookup x (g_after env pl) = match kvlook x pl with Some kv => Some (GU (fst kv), snd kv) | None => alookup x env end.
Proof.
  induction pl as [|[[[y e] k] v] pl IH]; intros env x; cbn [g_after kvlook]; [reflexivity|].
  rewrite IH. destruct (kvlook x pl); [reflexivity|].
  destruct (y =? 0)%N; [reflexivity|]. cbn [alookup]. destruct (x =? y)%N; reflexivity.
Qed.

Definition pl_wf (pl : list pentry) : Prop :=
  Forall (fun p => match p with (_, _, k, v) => wf_untyped k v /\ use_side k v = true end) pl.

Lemma kvlook_wf x pl k v : pl_wf pl -> kvlook x pl = Some (k, v) -> wf_untyped k v /\ use_side k v = true.
Proof.
  induction pl as [|[[[y e] k0] v0] pl IH]; intros Hwf H; cbn [kvlook] in H; [discriminate|].
  inversion Hwf as [|? ? Hp Hr]; subst.
  destruct (kvlook x pl) as [c|] eqn:E.
  - injection H as ->. apply IH; auto.
  - destruct (y =? 0)%N; [discriminate|]. destruct (x =? y)%N; [|discriminate]. injection H as <- <-. exact Hp.
Qed.

Lemma specs_inv_wf full pl : forall i ds, specs_inv full i pl ds -> pl_wf pl.
Proof.
  induction pl as [|[[[x e] k] v] pl IH]; intros i [|sp ds] H; cbn [specs_inv] in H; try contradiction; [constructor|].
  destruct H as ((src & dt & _ & Hk & Hg & _) & Hr). constructor; [|eapply IH; exact Hr].
  destruct (fr1_eval e k i (GU k) v Hk Hg) as [_ Hwf]. split; [exact Hwf|].
  destruct (fr1_kinds e k Hk) as [->|[->| ->]]; destruct v; try contradiction; reflexivity.
Qed.

Lemma pl_wf_concat full pls : forall dss, Forall2 (specs_inv full 0) pls dss -> pl_wf (concat pls).
Proof.
  induction pls as [|pl pls IH]; intros dss H; inversion H as [|? ds ? dss0 Hpl Hrest]; subst; [constructor|].
  cbn [concat]. apply Forall_app. split; [eapply specs_inv_wf; exact Hpl|eapply IH; exact Hrest].
Qed.

Lemma show_agree yenv PL : env_is yenv PL -> pl_wf PL -> forall names,
  y_show yenv names = match g_show (g_after [] PL) names with Some l => Ok l | None => Err end.
Proof.
  intros Henv Hwf. induction names as [|x r IH]; cbn [y_show g_show]; [reflexivity|].
  rewrite Henv, plook_kv, alookup_g_after. cbn [alookup].
  destruct (kvlook x PL) as [[k v]|] eqn:E; cbn [option_map fst snd]; [|reflexivity].
  destruct (kvlook_wf x PL k v Hwf E) as [Hw Hs].
  unfold sym_of. cbn [sy_typ sy_val]. rewrite (use_agree k v Hw Hs).
  destruct (g_use (GU k, v)) as [o|]; cbn [bind]; [|reflexivity].
  rewrite IH. destruct (g_show (g_after [] PL) r); reflexivity.
Qed.

(* ------------------------------------------------------------------ *)
(** ** the theorem *)

Definition groups_ok (gs : list group) : Prop :=
  Forall (fun g => exists l, exprs_of None g = Some l /\ in_frag l) gs.

Lemma g_after_app env p1 p2 : g_after env (p1 ++ p2) = g_after (g_after env p1) p2.
Proof. revert env. induction p1 as [|[[[y e] k] v] p1 IH]; intros env; cbn [g_after app]; [reflexivity|apply IH]. Qed.

Lemma g_groups_plans gs : forall env env', groups_ok gs -> g_groups env gs = Some env' ->
  exists pls, Forall2 (specs_inv false 0) pls (map (desugar None) gs) /\ env' = g_after env (concat pls).
Proof.
  induction gs as [|g gs IH]; intros env env' Hok H; cbn [g_groups] in H.
  - injection H as <-. exists []. split; [constructor|reflexivity].
  - inversion Hok as [|? ? (l & Hl & Hf) Hrest]; subst.
    pose proof (g_group_exprs g None l env 0 Hl) as Hgg. cbn [prev_of option_map] in Hgg. rewrite Hgg in H.
    destruct (g_plan env 0 l) as [env1|] eqn:E; [|discriminate].
    destruct (g_plan_annot l env 0 env1 Hf E) as (pl & Hinv & ->).
    destruct (IH _ _ Hrest H) as (pls & Hall & ->).
    exists (pl :: pls). split.
    + cbn [map]. constructor; [|exact Hall].
      pose proof (desugar_exprs g None l Hl) as Hdd. cbn [prev_of option_map] in Hdd. rewrite Hdd. exact Hinv.
    + cbn [concat]. rewrite g_after_app. reflexivity.
Qed.

(** Constant groups (at package level or in a function) of single-name untyped specs over the
    rune-free fragment, with iota and implicit repetition: whenever the specification accepts the
    declarations, yaegi — after its two or three visits of every spec — prints for every shown
    name the type and value of the specification, or both reject the use. *)
Theorem const_groups_agree global gs shown :
  groups_ok gs -> g_groups [] gs <> None ->
  y_run (PConst global gs shown) = g_run (PConst global gs shown).
Proof.
  intros Hok Hacc. unfold y_run, g_run.
  destruct (g_groups [] gs) as [genv|] eqn:Hg; [|congruence].
  destruct (g_groups_plans gs [] genv Hok Hg) as (pls & Hall & ->).
  assert (Hnil : env_is [] []) by (intros x; reflexivity).
  assert (Hwf : pl_wf (concat pls)) by (eapply pl_wf_concat; exact Hall).
  destruct global.
  - unfold y_global.
    destruct (global_gta_ok pls _ [] [] Hall Hnil) as (env1 & dss1 & Hy1 & H1 & Henv1).
    rewrite Hy1. cbn [bind].
    destruct (global_cfg_ok pls dss1 env1 H1) as (dss2 & Hy2 & H2).
    rewrite Hy2. cbn [bind].
    rewrite (genrun_all pls dss2 H2). cbn [bind].
    assert (Henv2 : env_is (env_after env1 (concat pls)) (concat pls)).
    { apply (env_is_again env1 [] (concat pls)). exact Henv1. }
    rewrite (show_agree _ _ Henv2 Hwf shown).
    destruct (g_show (g_after [] (concat pls)) shown); reflexivity.
  - destruct (local_ok pls _ [] [] Hall Hnil) as (env1 & dss1 & Hy1 & H1 & Henv1).
    cbn [app] in Henv1. rewrite Hy1. cbn [bind].
    rewrite (genrun_all pls dss1 H1). cbn [bind].
    rewrite (show_agree _ _ Henv1 Hwf shown).
    destruct (g_show (g_after [] (concat pls)) shown); reflexivity.
Qed.

(** non-vacuity: a block with iota, implicit repetition, a skipped entry and a 200-bit shift *)
Definition ex_block : list group :=
  [[ {| sp_names := [1%N]; sp_type := None; sp_exprs := [EBin BShr (EBin BShl (EInt 1) (EBin BMul (EInt 100) (EBin BAdd EIota (EInt 1)))) (EInt 98)] |};
     {| sp_names := [0%N]; sp_type := None; sp_exprs := [] |};
     {| sp_names := [2%N]; sp_type := None; sp_exprs := [] |};
     {| sp_names := [3%N]; sp_type := None; sp_exprs := [EBin BAdd (EStr (s "a")) (EStr (s "b"))] |};
     {| sp_names := [4%N]; sp_type := None; sp_exprs := [] |} ];
   [ {| sp_names := [5%N]; sp_type := None; sp_exprs := [EUn UNot (EBool false)] |} ]].

Lemma const_groups_inhabited :
  groups_ok ex_block /\ g_groups [] ex_block <> None
  /\ g_run (PConst true ex_block [1%N; 3%N; 4%N; 5%N]) = Printed [(TInt, OI 4); (TString, OS (s "ab")); (TString, OS (s "ab")); (TBool, OB true)]
  /\ g_run (PConst true ex_block [2%N]) = Rejected.
Proof.
  split.
  - repeat constructor; eexists; (split; [reflexivity|]); repeat constructor; cbn; discriminate.
  - split; [vm_compute; discriminate|]. split; vm_compute; reflexivity.
Qed.

(* ------------------------------------------------------------------ *)
(** * 7. Constants converted to float32 / float64: one rounding of the exact value *)

Lemma round_zero t q : q_is_zero q = true -> round_t t q = Some (qz 0).
Proof. unfold q_is_zero, round_t, round_q. intros ->. reflexivity. Qed.

(** convertConst (and convertUntyped, conversion, assignment through it) on a float destination:
    the exact rational is rounded once, to the format of the destination, as the specification
    says ([g_repr]); stated for every rational whose rounded value is finite and not zero (a
    negative constant that underflows becomes -0 in yaegi: region float-negzero) *)
Lemma float_conv_single q t r :
  is_float t = true -> round_t t q = Some r -> q_is_zero r = false ->
  convert_const (CRat q) t = Ok (VM t (MF (FQ r))) /\ g_repr (GQ q) t = Some (GQ r).
Proof.
  intros Ht Hr Hz.
  assert (Hq : q_is_zero q = false).
  { destruct (q_is_zero q) eqn:E; [|reflexivity]. rewrite (round_zero t q E) in Hr. injection Hr as <-. discriminate Hz. }
  split.
  - unfold convert_const.
    assert (is_boolean t = false /\ is_string t = false /\ is_signed t = false /\ is_unsigned t = false) as (-> & -> & -> & ->)
      by (destruct t; try discriminate; auto).
    cbn [c_tofloat c_floatval]. unfold fl_round. rewrite Hq, Hr. cbn [of_opt bind]. rewrite Hz. reflexivity.
  - unfold g_repr.
    assert (is_int t = false) as -> by (destruct t; try discriminate; reflexivity).
    rewrite Ht, Hr. reflexivity.
Qed.

(** the same for an integer constant *)
Lemma float_conv_single_int z t r :
  is_float t = true -> round_t t (qz z) = Some r -> q_is_zero r = false ->
  convert_const (CInt z) t = Ok (VM t (MF (FQ r))) /\ g_repr (GI z) t = Some (GQ r).
Proof.
  intros Ht Hr Hz.
  assert (Hq : q_is_zero (qz z) = false).
  { destruct (q_is_zero (qz z)) eqn:E; [|reflexivity]. rewrite (round_zero t _ E) in Hr. injection Hr as <-. discriminate Hz. }
  split.
  - unfold convert_const.
    assert (is_boolean t = false /\ is_string t = false /\ is_signed t = false /\ is_unsigned t = false) as (-> & -> & -> & ->)
      by (destruct t; try discriminate; auto).
    cbn [c_tofloat c_floatval]. unfold fl_round. rewrite Hq, Hr. cbn [of_opt bind]. rewrite Hz. reflexivity.
  - unfold g_repr.
    assert (is_int t = false) as -> by (destruct t; try discriminate; reflexivity).
    rewrite Ht, Hr. reflexivity.
Qed.

(** rounding twice (exact -> float64 -> float32) is a different function: 1 + 2^-24 + 2^-60 *)
Definition q_mid : Q := 1152921573326323713 # 1152921504606846976.
Definition double32 (q : Q) : option Q := match round64 q with Some r => round_t TFloat32 r | None => None end.

Lemma double_rounding_differs :
  round_t TFloat32 q_mid = Some (8388609 # 8388608) /\ double32 q_mid = Some (1 # 1)
  /\ y_run (PExpr (EConv TFloat32 (EFloat q_mid))) = Printed [(TFloat32, OF (8388609 # 8388608))]
  /\ g_run (PExpr (EConv TFloat32 (EFloat q_mid))) = Printed [(TFloat32, OF (8388609 # 8388608))]
  /\ y_run (one_const true (Some TFloat32) (EFloat q_mid)) = Printed [(TFloat32, OF (8388609 # 8388608))]
  /\ y_run (PVar (Some TFloat32) (EFloat q_mid)) = Printed [(TFloat32, OF (8388609 # 8388608))].
Proof. vm_compute. repeat split. Qed.

(** ... but a typed declaration whose initialiser is an expression keeps the go/constant value
    under the declared type and converts it at its use through float64 (convertConstantValue):
    const c float32 = (1 + 2^-24) + 2^-60 is 1 *)
Definition w_decl_round : expr := EBin BAdd (EFloat (16777217 # 16777216)) (EFloat (1 # 1152921504606846976)).

Lemma decl_double_rounding_refuted :
  y_run (one_const true (Some TFloat32) w_decl_round) = Printed [(TFloat32, OF (1 # 1))]
  /\ g_run (one_const true (Some TFloat32) w_decl_round) = Printed [(TFloat32, OF (8388609 # 8388608))]
  /\ y_run (PExpr (EConv TFloat32 w_decl_round)) = g_run (PExpr (EConv TFloat32 w_decl_round)).
Proof. vm_compute. repeat split. Qed.

(* ------------------------------------------------------------------ *)
(** * 8. A typed constant that still holds a go/constant value when it is used *)

(** convertConstantValue is the only check a binary expression under a typed declaration gets:
    an integer outside the int64 range is refused whatever the type of the node (rightly for the
    signed types, wrongly for uint64, uintptr and the float types) *)
Lemma typed_use_outside_int64 z t : in_range TInt64 z = false -> const_to_machine t (CInt z) = Err.
Proof. intros H. unfold const_to_machine. cbn [c_int64val bind]. rewrite H. reflexivity. Qed.

Lemma typed_use_boundary_witness :
  y_run (one_const true (Some TInt64) (EBin BShl (EInt 1) (EInt 63))) = Rejected
  /\ g_run (one_const true (Some TInt64) (EBin BShl (EInt 1) (EInt 63))) = Rejected
  /\ y_run (one_const true (Some TUint64) (EBin BShl (EInt 1) (EInt 63))) = Rejected
  /\ g_run (one_const true (Some TUint64) (EBin BShl (EInt 1) (EInt 63))) = Printed [(TUint64, OI 9223372036854775808)]
  /\ y_run (one_const true (Some TInt32) (EBin BShl (EInt 1) (EInt 40))) = Printed [(TInt32, OI 0)]
  /\ g_run (one_const true (Some TInt32) (EBin BShl (EInt 1) (EInt 40))) = Rejected.
Proof. vm_compute. repeat split. Qed.
