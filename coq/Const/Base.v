(** C03 — constant expressions: shared syntax, basic types, exact values, IEEE rounding over Q,
    UTF-8 encoding.  Definitions only (plus nothing else); used by both models:
      Const/ConstSem.v   (G: the Go specification)
      Const/YaegiConst.v (Y: yaegi's folding machinery). *)
From Coq Require Export ZArith QArith Qreduction.
From Verif Require Export Lib.Str.
Open Scope Z_scope.

(* ------------------------------------------------------------------ *)
(** * Basic types *)

Inductive bt :=
| TInt | TInt8 | TInt16 | TInt32 | TInt64
| TUint | TUint8 | TUint16 | TUint32 | TUint64 | TUintptr
| TFloat32 | TFloat64 | TString | TBool.

(** [reflect.Kind] numbering (yaegi compares kinds of untyped operands numerically). *)
Definition bt_code (t : bt) : Z :=
  match t with
  | TBool => 1 | TInt => 2 | TInt8 => 3 | TInt16 => 4 | TInt32 => 5 | TInt64 => 6
  | TUint => 7 | TUint8 => 8 | TUint16 => 9 | TUint32 => 10 | TUint64 => 11 | TUintptr => 12
  | TFloat32 => 13 | TFloat64 => 14 | TString => 24
  end.

Definition bt_eqb (a b : bt) : bool := bt_code a =? bt_code b.

Definition is_signed (t : bt) : bool :=
  match t with TInt | TInt8 | TInt16 | TInt32 | TInt64 => true | _ => false end.
Definition is_unsigned (t : bt) : bool :=
  match t with TUint | TUint8 | TUint16 | TUint32 | TUint64 | TUintptr => true | _ => false end.
Definition is_int (t : bt) : bool := is_signed t || is_unsigned t.
Definition is_float (t : bt) : bool := match t with TFloat32 | TFloat64 => true | _ => false end.
Definition is_number (t : bt) : bool := is_int t || is_float t.
Definition is_string (t : bt) : bool := match t with TString => true | _ => false end.
Definition is_boolean (t : bt) : bool := match t with TBool => true | _ => false end.

(** width in bits of the integer types (int, uint, uintptr are 64 bits on the checked platform). *)
Definition bits (t : bt) : Z :=
  match t with
  | TInt8 | TUint8 => 8 | TInt16 | TUint16 => 16 | TInt32 | TUint32 => 32
  | _ => 64
  end.

Definition imin (t : bt) : Z := if is_signed t then - 2 ^ (bits t - 1) else 0.
Definition imax (t : bt) : Z := if is_signed t then 2 ^ (bits t - 1) - 1 else 2 ^ bits t - 1.
Definition in_range (t : bt) (z : Z) : bool := (imin t <=? z) && (z <=? imax t).

(** two's complement truncation to the width of [t] (what [reflect.Value.SetInt/SetUint/Convert] do). *)
Definition wrap_s (w z : Z) : Z := (z + 2 ^ (w - 1)) mod 2 ^ w - 2 ^ (w - 1).
Definition wrap_u (w z : Z) : Z := z mod 2 ^ w.
Definition wrap_to (t : bt) (z : Z) : Z := if is_signed t then wrap_s (bits t) z else wrap_u (bits t) z.

(* ------------------------------------------------------------------ *)
(** * Rationals: canonical form and decidable comparison *)

Definition qz (z : Z) : Q := z # 1.
Definition q_is_int (q : Q) : bool := Zpos (Qden (Qred q)) =? 1.
Definition q_num (q : Q) : Z := Qnum (Qred q).
Definition q_eqb (a b : Q) : bool := Qeq_bool a b.
Definition q_sign (q : Q) : Z := Z.sgn (Qnum q).
Definition q_is_zero (q : Q) : bool := Qnum q =? 0.
(** truncation toward zero *)
Definition q_trunc (q : Q) : Z := Z.quot (Qnum q) (Zpos (Qden q)).
Definition q_div (a b : Q) : Q := Qred (a / b).
Definition q_add (a b : Q) : Q := Qred (a + b).
Definition q_sub (a b : Q) : Q := Qred (a - b).
Definition q_mul (a b : Q) : Q := Qred (a * b).
Definition q_neg (a : Q) : Q := Qred (- a).
Definition q_ltb (a b : Q) : bool := match Qcompare a b with Lt => true | _ => false end.
Definition q_leb (a b : Q) : bool := match Qcompare a b with Gt => false | _ => true end.

(* ------------------------------------------------------------------ *)
(** * IEEE-754 binary formats: round to nearest even, stated over Q.
    [round_pos prec emax n d] rounds the positive rational n/d to the format with [prec] bits of
    precision and values below 2^emax (binary32: 24, 128; binary64: 53, 1024), subnormals included.
    [None] is overflow (the conversion yields an infinity). *)

Definition round_pos (prec emax n d : Z) : option Q :=
  let e0 := Z.log2 n - Z.log2 d in
  let ge := if 0 <=? e0 then d * 2 ^ e0 <=? n else d <=? n * 2 ^ (- e0) in
  let ex := if ge then e0 else e0 - 1 in                 (* floor (log2 (n/d)) *)
  let emin := 3 - emax - prec in                         (* exponent of the smallest subnormal *)
  let ue := Z.max (ex - (prec - 1)) emin in              (* exponent of the unit in the last place *)
  let num := if 0 <=? ue then n else n * 2 ^ (- ue) in
  let den := if 0 <=? ue then d * 2 ^ ue else d in
  let m := num / den in
  let r := num mod den in
  let m' := if den <? 2 * r then m + 1
            else if 2 * r =? den then (if Z.even m then m else m + 1)
            else m in
  if 0 <=? ue then
    (if 2 ^ emax <=? m' * 2 ^ ue then None else Some (qz (m' * 2 ^ ue)))
  else
    (if 2 ^ (emax - ue) <=? m' then None else Some (Qred (m' # Z.to_pos (2 ^ (- ue))))).

Definition round_q (prec emax : Z) (q : Q) : option Q :=
  let n := Qnum q in
  let d := Zpos (Qden q) in
  if n =? 0 then Some (qz 0)
  else if 0 <? n then round_pos prec emax n d
  else match round_pos prec emax (- n) d with
       | Some r => Some (q_neg r)
       | None => None
       end.

Definition fprec (t : bt) : Z := match t with TFloat32 => 24 | _ => 53 end.
Definition femax (t : bt) : Z := match t with TFloat32 => 128 | _ => 1024 end.
Definition round_t (t : bt) (q : Q) : option Q := round_q (fprec t) (femax t) q.
Definition round64 (q : Q) : option Q := round_q 53 1024 q.

(* ------------------------------------------------------------------ *)
(** * UTF-8 *)

Definition byte (z : Z) : ascii := ascii_of_N (Z.to_N (z mod 256)).

Definition replacement_char : str := [byte 239; byte 191; byte 189].

Definition valid_rune (z : Z) : bool :=
  (0 <=? z) && (z <=? 1114111) && negb ((55296 <=? z) && (z <=? 57343)).

(** [string(rune(z))] for a rune value z. *)
Definition utf8 (z : Z) : str :=
  if negb (valid_rune z) then replacement_char
  else if z <? 128 then [byte z]
  else if z <? 2048 then [byte (192 + z / 64); byte (128 + z mod 64)]
  else if z <? 65536 then [byte (224 + z / 4096); byte (128 + (z / 64) mod 64); byte (128 + z mod 64)]
  else [byte (240 + z / 262144); byte (128 + (z / 4096) mod 64); byte (128 + (z / 64) mod 64); byte (128 + z mod 64)].

(** strings given by their bytes (used by the generated cases for non-ASCII text). *)
Definition sb (l : list Z) : str := map byte l.

Definition zlen (x : str) : Z := Z.of_nat (length x).

(* ------------------------------------------------------------------ *)
(** * Syntax of constant expressions and declarations (one AST, printed by the harness as Go source
    and as the Gallina terms of the cases files). *)

Inductive unop := UPos | UNeg | UXor | UNot.

Inductive binop :=
| BAdd | BSub | BMul | BQuo | BRem | BAnd | BOr | BXor | BAndNot
| BShl | BShr
| BEq | BNe | BLt | BLe | BGt | BGe
| BLand | BLor.

Definition is_shift (o : binop) : bool := match o with BShl | BShr => true | _ => false end.
Definition is_cmp (o : binop) : bool :=
  match o with BEq | BNe | BLt | BLe | BGt | BGe => true | _ => false end.
Definition is_logic (o : binop) : bool := match o with BLand | BLor => true | _ => false end.

Inductive expr :=
| EInt (z : Z)                  (* integer literal of any magnitude *)
| ERune (z : Z)                 (* rune literal *)
| EFloat (q : Q)                (* floating-point literal denoting exactly q *)
| EStr (x : str)
| EBool (b : bool)              (* the predeclared identifiers true / false *)
| EIota
| ERef (x : N)                  (* a previously declared constant *)
| EParen (e : expr)
| EUn (o : unop) (e : expr)
| EBin (o : binop) (a b : expr)
| EConv (t : bt) (e : expr)     (* T(e) *)
| ELen (e : expr).              (* len(e) *)

(** one ConstSpec: names (0 = the blank identifier), optional type, expressions ([] = implicit repetition). *)
Record spec := { sp_names : list N; sp_type : option bt; sp_exprs : list expr }.
Definition group := list spec.   (* const ( ... ) *)

Inductive program :=
| PConst (global : bool) (gs : list group) (shown : list N)   (* const groups at package level or in main; prints the shown names *)
| PVar (t : option bt) (e : expr)                             (* func main() { var v [T] = e; print v } *)
| PExpr (e : expr).                                           (* func main() { print e } *)

(** What is observed: for every printed operand its dynamic type and value ([%T], [%v]). *)
Inductive oval := OI (z : Z) | OF (q : Q) | ONZ (* the floating-point value -0 *) | OS (x : str) | OB (b : bool).

Inductive outcome :=
| Printed (l : list (bt * oval))
| Rejected            (* the program is refused with an error before anything runs *)
| HostPanic           (* yaegi only: a Go panic inside the interpreter escapes Eval *)
| Unmodelled.         (* the model declines (outside the modelled region; never generated) *)

Definition oval_eqb (a b : oval) : bool :=
  match a, b with
  | OI x, OI y => x =? y
  | OF x, OF y => q_eqb x y
  | ONZ, ONZ => true
  | OS x, OS y => str_eqb x y
  | OB x, OB y => Bool.eqb x y
  | _, _ => false
  end.

Fixpoint printed_eqb (a b : list (bt * oval)) : bool :=
  match a, b with
  | [], [] => true
  | (t, v) :: a', (u, w) :: b' => bt_eqb t u && oval_eqb v w && printed_eqb a' b'
  | _, _ => false
  end.

Definition outcome_eqb (a b : outcome) : bool :=
  match a, b with
  | Printed x, Printed y => printed_eqb x y
  | Rejected, Rejected => true
  | HostPanic, HostPanic => true
  | _, _ => false
  end.

(** association lists keyed by N *)
Fixpoint alookup {A} (k : N) (l : list (N * A)) : option A :=
  match l with
  | [] => None
  | (k', v) :: r => if (k =? k')%N then Some v else alookup k r
  end.
