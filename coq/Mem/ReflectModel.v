(** C04 — Y: how yaegi evaluates the operation grammar of Mem/GoStore.v.

    Transcribed from interp/run.go, interp/value.go and the assignment case of interp/cfg.go.
    Every expression node owns a frame slot.  After the node has executed the slot holds either
      - [SVal v]: the slot's own storage, holding a value (constants, results written with
        [dest(f).Set(..)], composite literals, slice headers), or
      - [SRef p]: an *aliasing* reflect.Value obtained with Index / FieldByIndex / Elem
        (getIndexArray, getIndexSeq, getPtrIndexSeq, deref store it in the slot on purpose, so
        that a later Set writes into the container), or the slot of a variable.
    A consumer reads a slot when *it* executes ([slot_get] = what value(f) yields at that moment);
    [Set] copies into the referent; [Interface()] detaches.

    Variables live in heap cells (their address can be taken); [en] maps a variable to the cell
    its frame slot currently denotes.  doComposite replaces the slot of its destination
    ([getFrame(f,l).data[frameIndex] = a]), which re-binds the variable to a fresh cell.

    The model includes the defects of the unchanged tree:
      - [x = T{...}] (struct literal, plain variable) re-binds x: pointers taken before keep the
        old cell (cfg.go: src.findex = dest.findex; run.go doComposite default case);
      - a tuple assignment one of whose right-hand sides is a call (here: len, cap) or a composite
        literal assigned to a plain variable is compiled away (cfg.go: n.gen = nop inside the loop
        over the pairs): those right-hand sides write their destination directly while the
        right-hand sides are still being evaluated, every other pair is dropped;
      - in a tuple assignment the map and key operands of a map-entry destination are read when
        that pair is stored, after the pairs to its left (run.go assign: d(f).SetMapIndex(j(f), t[i])).

    Definitions only; proofs are in Mem/Proofs.v. *)
From Verif Require Import Mem.GoStore.

(** [SBox]: an operand converted to interface{}: the conversion happens when the consumer does
    [Set] (reflect copies the concrete value into the interface), so the operand slot is still the
    aliasing or detached Value of the concrete expression *)
Inductive slot := SVal (v : val) | SRef (p : path) | SBox (tag : nat) (s : slot).

(** a destination as the assign builtin sees it: an aliasing Value, or the operand slots of a map entry *)
Inductive ydest := DRef (p : path) | DMap (m k : slot).

Fixpoint slot_get (h : heap) (s : slot) : option val :=
  match s with
  | SVal v => Some v
  | SRef p => read h p
  | SBox tag s' => v <- slot_get h s' ;; Some (VBox tag v)
  end.

Fixpoint slots_get (h : heap) (ss : list slot) : option (list val) :=
  match ss with
  | [] => Some []
  | s :: r => v <- slot_get h s ;; vs <- slots_get h r ;; Some (v :: vs)
  end.


(** post-order execution of the nodes of a pure expression *)
Fixpoint y_lv (h : heap) (e : env) (l : lv) {struct l} : option ydest :=
  match l with
  | LVar x => a <- lookup e x ;; Some (DRef (a, []))          (* identExpr: no exec, the variable's slot *)
  | LIdx b i =>                                               (* getIndexArray: data[i] = value0(f).Index(vi) *)
      d <- y_lv h e b ;; si <- y_rv h e i ;;
      match d with
      | DRef p =>
          iv <- slot_get h si ;;
          match iv, read h p with
          | VInt z, Some (VArr es) => n <- z_nat z ;; if n <? length es then Some (DRef (sub p n)) else None
          | _, _ => None
          end
      | _ => None
      end
  | LSIdx b i =>                                              (* getIndexArray on a slice *)
      sb <- y_rv h e b ;; si <- y_rv h e i ;;
      bv <- slot_get h sb ;; iv <- slot_get h si ;;
      match bv, iv with
      | VSlice base off len _, VInt z => n <- z_nat z ;; if n <? len then Some (DRef (elem_path base off n)) else None
      | _, _ => None
      end
  | LFld b f =>                                               (* getIndexSeq: data[i] = v.FieldByIndex(index) *)
      d <- y_lv h e b ;;
      match d with DRef p => Some (DRef (sub p f)) | _ => None end
  | LDeref b =>                                               (* deref / getPtrIndexSeq: data[i] = value(f).Elem() *)
      sb <- y_rv h e b ;; bv <- slot_get h sb ;;
      match bv with VPtr p => Some (DRef p) | _ => None end
  | LMap m k =>                                               (* isMapEntry(dest): dest.gen = nop, operands only *)
      sm <- y_rv h e m ;; sk <- y_rv h e k ;; Some (DMap sm sk)
  end
with y_rv (h : heap) (e : env) (x : rv) {struct x} : option slot :=
  match x with
  | RInt z => Some (SVal (VInt z))
  | RNil => Some (SVal VNil)
  | RLoad l => d <- y_lv h e l ;; match d with DRef p => Some (SRef p) | _ => None end   (* the l-value's slot itself *)
  | RAddr l => d <- y_lv h e l ;; match d with DRef p => Some (SVal (VPtr p)) | _ => None end  (* addr: dest.Set(value.Addr()) *)
  | RStruct fs => ss <- y_rvs h e fs ;; vs <- slots_get h ss ;; Some (SVal (VStruct vs))   (* doComposite: a.Field(i).Set(v(f)) *)
  | RArr es => ss <- y_rvs h e es ;; vs <- slots_get h ss ;; Some (SVal (VArr vs))         (* arrayLit: a.Index(i).Set(v(f)) *)
  | RAdd a b =>
      sa <- y_rv h e a ;; sb <- y_rv h e b ;; av <- slot_get h sa ;; bv <- slot_get h sb ;;
      match av, bv with VInt x, VInt y => Some (SVal (VInt (x + y)%Z)) | _, _ => None end
  | RLen x =>                                                 (* _len: dest.SetInt(value(f).Len()) *)
      sx <- y_rv h e x ;; v <- slot_get h sx ;;
      match v with
      | VSlice _ _ len _ => Some (SVal (VInt (Z.of_nat len)))
      | VMap l => match nth_error h l with Some (CMap kvs) => Some (SVal (VInt (Z.of_nat (length kvs)))) | _ => None end
      | VNil => Some (SVal (VInt 0%Z))
      | _ => None
      end
  | RCap x =>
      sx <- y_rv h e x ;; v <- slot_get h sx ;;
      match v with VSlice _ _ _ cap => Some (SVal (VInt (Z.of_nat cap))) | VNil => Some (SVal (VInt 0%Z)) | _ => None end
  | RSlice b lo hi mx =>                                      (* slice / slice0: data[i] = a.Slice3(..) *)
      sb <- y_rv h e b ;; bv <- slot_get h sb ;;
      sv <- slice_of h bv ;;
      let '(base, off, len, cap) := sv in
      lo' <- y_orv h e lo 0 ;; hi' <- y_orv h e hi len ;; mx' <- y_orv h e mx cap ;;
      if (lo' <=? hi') && (hi' <=? mx') && (mx' <=? cap)
      then Some (SVal (VSlice base (off + lo') (hi' - lo') (mx' - lo'))) else None
  | RMapGet m k zero =>                                       (* getIndexMap: dest.Set(MapIndex) or dest.Set(z) *)
      sm <- y_rv h e m ;; sk <- y_rv h e k ;; mv <- slot_get h sm ;; kv <- slot_get h sk ;;
      match mv, kv with
      | VMap l, VInt z =>
          match nth_error h l with
          | Some (CMap kvs) => Some (SVal (match map_get kvs z with Some v => v | None => zero end))
          | _ => None
          end
      | VNil, VInt _ => Some (SVal zero)
      | _, _ => None
      end
  | RBox tag x => s <- y_rv h e x ;; Some (SBox tag s)   (* empty interface destination: genValue, no wrapping *)
  | RUnbox tag x =>                                          (* typeAssert: the concrete value is copied out *)
      s <- y_rv h e x ;; v <- slot_get h s ;;
      match v with VBox tag' w => if Nat.eqb tag tag' then Some (SVal w) else None | _ => None end
  end
with y_rvs (h : heap) (e : env) (xs : rvs) {struct xs} : option (list slot) :=
  match xs with
  | RNone => Some []
  | RCons x r => s <- y_rv h e x ;; ss <- y_rvs h e r ;; Some (s :: ss)
  end
with y_orv (h : heap) (e : env) (o : orv) (dflt : nat) {struct o} : option nat :=
  match o with
  | ONone => Some dflt
  | OSome x => s <- y_rv h e x ;; v <- slot_get h s ;; match v with VInt z => z_nat z | _ => None end
  end.

Fixpoint y_lvs (h : heap) (e : env) (ls : list lv) {struct ls} : option (list ydest) :=
  match ls with
  | [] => Some []
  | l :: r => d <- y_lv h e l ;; ds <- y_lvs h e r ;; Some (d :: ds)
  end.



(** [d(f).Set(v)] / [d(f).SetMapIndex(j(f), v)]: map and key operands are read now *)
Definition y_store (h : heap) (d : ydest) (v : val) : option heap :=
  match d with
  | DRef p => write h p v
  | DMap sm sk =>
      mv <- slot_get h sm ;; kv <- slot_get h sk ;;
      match mv, kv with
      | VMap l, VInt z => store h (TMap l z) v
      | _, _ => None
      end
  end.

Fixpoint y_store_all (h : heap) (ds : list ydest) (vs : list val) : option heap :=
  match ds, vs with
  | [] , [] => Some h
  | d :: dr, v :: vr => h' <- y_store h d v ;; y_store_all h' dr vr
  | _, _ => None
  end.

Fixpoint rebind (e : env) (x : var) (l : loc) : env :=
  match e with
  | [] => []
  | (y, l') :: r => if Nat.eqb x y then (y, l) :: r else (y, l') :: rebind r x l
  end.


(** reflect.Append when the capacity suffices: s.Index(len+i).Set(x_i), one element after the other;
    an aliasing argument is read when its turn comes, after the elements before it were written *)
Fixpoint y_append_inplace (h : heap) (base : path) (off : nat) (ss : list slot) : option heap :=
  match ss with
  | [] => Some h
  | s :: r => v <- slot_get h s ;; h' <- write h (sub base off) v ;; y_append_inplace h' base (S off) r
  end.

(** builtins and literals that produce a value into their own slot *)
Definition y_rhs (grow : growth) (h : heap) (e : env) (r : rhs) : option (slot * heap) :=
  match r with
  | EPure x => s <- y_rv h e x ;; Some (s, h)
  | EAppend ek zero s es =>                                  (* _append: dest.Set(reflect.Append(value(f), values...)) *)
      ss <- y_rv h e s ;; se <- y_rvs h e es ;;
      sv <- slot_get h ss ;;
      w <- slice_view sv ;;
      let '(base, off, len, cap) := w in
      if len + length se <=? cap then
        h' <- y_append_inplace h base (off + len) se ;; Some (SVal (VSlice base off (len + length se) cap), h')
      else
        (* growslice: the old elements are copied to a new backing array, then the same loop *)
        vs <- slots_get h se ;;
        match append_vals grow h ek zero sv vs with Some (v, h') => Some (SVal v, h') | None => None end
  | EAppendSlice ek zero s t =>                              (* appendSlice: dest.Set(reflect.AppendSlice(value(f), value0(f))) *)
      ss <- y_rv h e s ;; st <- y_rv h e t ;;
      sv <- slot_get h ss ;; tv <- slot_get h st ;;
      w <- slice_view tv ;;
      let '(tb, toff, tlen, _) := w in
      (* reflect.AppendSlice grows, then Copy: typedslicecopy is a memmove, overlap is handled *)
      vs <- read_elems h tb toff tlen ;;
      match append_vals grow h ek zero sv vs with Some (v, h') => Some (SVal v, h') | None => None end
  | ESliceLit es =>                                          (* arrayLit, kind Slice: MakeSlice; a.Index(i).Set(v(f)) *)
      se <- y_rvs h e es ;; vs <- slots_get h se ;;
      let '(l, h') := alloc h (CVal (VArr vs)) in Some (SVal (VSlice (l, []) 0 (length vs) (length vs)), h')
  | ENew x =>                                                (* doComposite, d.Kind()==Ptr: d.Set(a.Addr()); _new *)
      s <- y_rv h e x ;; v <- slot_get h s ;;
      let '(l, h') := alloc h (CVal v) in Some (SVal (VPtr (l, [])), h')
  | EMake zero n c =>                                        (* _make: dest.Set(reflect.MakeSlice(typ, n, c)) *)
      sn <- y_rv h e n ;; sc <- y_rv h e c ;; nv <- slot_get h sn ;; cv <- slot_get h sc ;;
      match nv, cv with
      | VInt nz, VInt cz =>
          n' <- z_nat nz ;; c' <- z_nat cz ;;
          if n' <=? c' then
            let '(l, h') := alloc h (CVal (VArr (repeat zero c'))) in Some (SVal (VSlice (l, []) 0 n' c'), h')
          else None
      | _, _ => None
      end
  | EMapLit ks vs =>                                         (* mapLit: m.SetMapIndex(k(f), values[i](f)) *)
      sk <- y_rvs h e ks ;; sv <- y_rvs h e vs ;;
      kv <- slots_get h sk ;; vv <- slots_get h sv ;; kvs <- zip_kvs kv vv ;;
      let '(l, h') := alloc h (CMap kvs) in Some (SVal (VMap l), h')
  end.

(** cfg.go, assignStmt: [src.action == aCompositeLit], dest neither aGetIndex nor aStar, struct type:
    n.gen = nop and src.findex = dest.findex *)
Definition rebind_case (l : lv) (r : rhs) : option (var * rvs) :=
  match l, r with
  | LVar x, EPure (RStruct fs) => Some (x, fs)
  | _, _ => None
  end.

Definition is_pure (r : rhs) : bool := match r with EPure _ => true | _ => false end.

Definition is_var (l : lv) : bool := match l with LVar _ => true | _ => false end.
Definition is_map_entry (l : lv) : bool := match l with LMap _ _ => true | _ => false end.

(** cfg.go, assignStmt, the loop over the pairs: does pair (dest, src) set n.gen = nop ? *)
Definition pair_direct (l : lv) (r : rv) : bool :=
  match r with
  | RLen _ | RCap _ => negb (is_map_entry l)                (* isCall(src) *)
  | RStruct _ | RArr _ => is_var l                          (* aCompositeLit, dest not aGetIndex / aStar *)
  | RBox _ (RStruct _) | RBox _ (RArr _) => is_var l        (* the same literal assigned to an interface variable *)
  | _ => false
  end.

Fixpoint any_direct (ls : list lv) (rs : rvs) : bool :=
  match ls, rs with
  | l :: lr, RCons r rr => pair_direct l r || any_direct lr rr
  | _, _ => false
  end.

Fixpoint has_nil (rs : rvs) : bool :=
  match rs with RNone => false | RCons RNil _ => true | RCons _ r => has_nil r end.

(** a tuple assignment whose assign node was compiled away: the right-hand sides execute in order;
    a direct one writes its destination at once (a struct literal re-binds the variable), the
    others only compute their own slot *)
(** deref stores [value(f).Elem()] in the slot of the starExpr node: for a nil pointer that is the zero
    reflect.Value, and nothing panics until the Value is used (Set, Field, Index).  In a tuple
    assignment that was compiled away the operands of the dropped pairs are never used, so a
    whole-operand [*p] with p == nil goes unnoticed.  [None] = the zero Value. *)
Definition y_lv_lazy (h : heap) (e : env) (l : lv) : option (option ydest) :=
  match l with
  | LDeref b =>
      sb <- y_rv h e b ;; bv <- slot_get h sb ;;
      match bv with VPtr p => Some (Some (DRef p)) | VNil => Some None | _ => None end
  | _ => d <- y_lv h e l ;; Some (Some d)
  end.

Fixpoint y_lvs_lazy (h : heap) (e : env) (ls : list lv) : option (list (option ydest)) :=
  match ls with
  | [] => Some []
  | l :: r => d <- y_lv_lazy h e l ;; ds <- y_lvs_lazy h e r ;; Some (d :: ds)
  end.

(** the node of a right-hand side that is not consumed: executed, its slot never read *)
Definition y_rv_unused (h : heap) (e : env) (r : rv) : option unit :=
  match r with
  | RLoad (LDeref b) =>
      sb <- y_rv h e b ;; bv <- slot_get h sb ;;
      match bv with VPtr _ | VNil => Some tt | _ => None end
  | _ => _ <- y_rv h e r ;; Some tt
  end.

Fixpoint y_multi_direct (h : heap) (e : env) (ls : list lv) (ds : list (option ydest)) (rs : rvs) : option (heap * env) :=
  match ls, ds, rs with
  | [], [], RNone => Some (h, e)
  | l :: lr, d :: dr, RCons r rr =>
      if pair_direct l r then
        s <- y_rv h e r ;;
        v <- slot_get h s ;;
        match l with
        | LVar x =>
            a <- lookup e x ;;
            match r with
            | RStruct _ => let '(a', h') := alloc h (CVal v) in y_multi_direct h' (rebind e x a') lr dr rr
            | _ => h' <- write h (a, []) v ;; y_multi_direct h' e lr dr rr
            end
        | _ => d' <- d ;; h' <- y_store h d' v ;; y_multi_direct h' e lr dr rr
        end
      else _ <- y_rv_unused h e r ;; y_multi_direct h e lr dr rr
  | _, _, _ => None
  end.

(** genValueRangeArray: the hidden slot [index2] *)
Definition y_range_shadow (h : heap) (rk : rkind) (s : slot) : option slot :=
  match rk with
  | RkPtr => v <- slot_get h s ;; match v with VPtr p => Some (SRef p) | _ => None end   (* value(f).Elem() *)
  | _ => v <- slot_get h s ;; Some (SVal v)                 (* reflect.ValueOf(value(f).Interface()) *)
  end.

Definition y_range_len (h : heap) (rk : rkind) (shadow : slot) : option nat :=
  v <- slot_get h shadow ;;
  match rk, v with
  | RkSlice, VSlice _ _ len _ => Some len
  | RkSlice, VNil => Some 0
  | RkSlice, _ => None
  | _, VArr es => Some (length es)
  | _, _ => None
  end.

(** a.Index(i) on the hidden slot *)
Definition y_range_elem (h : heap) (rk : rkind) (shadow : slot) (i : nat) : option val :=
  match rk, shadow with
  | RkSlice, SVal (VSlice base off _ _) => read h (elem_path base off i)
  | RkArr, SVal (VArr es) => nth_error es i
  | RkPtr, SRef p => read h (sub p i)
  | _, _ => None
  end.

Fixpoint y_op (grow : growth) (s : st) (o : op) {struct o} : res :=
  match o with
  | OAssign l r =>
      match rebind_case l r with
      | Some (x, fs) =>
          (* doComposite: getFrame(f, l).data[frameIndex] = a *)
          ret_st (_ <- lookup (en s) x ;;
                  ss <- y_rvs (hp s) (en s) fs ;; vs <- slots_get (hp s) ss ;;
                  let '(a, h') := alloc (hp s) (CVal (VStruct vs)) in Some (mkst h' (rebind (en s) x a)))
      | None =>
          (* assign, single: d(f).Set(s(f)); destination operands were executed first (wireChild) *)
          ret_st (d <- y_lv (hp s) (en s) l ;;
                  sh <- y_rhs grow (hp s) (en s) r ;;
                  v <- slot_get (snd sh) (fst sh) ;;
                  h' <- y_store (snd sh) d v ;; Some (mkst h' (en s)))
      end
  | OMulti ls rs =>
      ret_st (if any_direct ls rs then
                ds <- y_lvs_lazy (hp s) (en s) ls ;;
                he <- y_multi_direct (hp s) (en s) ls ds rs ;; Some (mkst (fst he) (snd he))
              else
              ds <- y_lvs (hp s) (en s) ls ;;
              if has_nil rs then None   (* types[i] of nil is nil: reflect.New(nil) panics in the host *)
              else
                (* assign, multi: t[i] = New; t[i].Set(s(f)) for all i, then d(f).Set(t[i]) *)
                ss <- y_rvs (hp s) (en s) rs ;;
                ts <- slots_get (hp s) ss ;;
                h' <- y_store_all (hp s) ds ts ;; Some (mkst h' (en s)))
  | ODefine x r =>
      (* assign, define: data[ind] = reflect.New(typ).Elem(); data[ind].Set(s(f)) *)
      ret_st (sh <- y_rhs grow (hp s) (en s) r ;;
              v <- slot_get (snd sh) (fst sh) ;;
              let '(l, h') := alloc (snd sh) (CVal v) in Some (mkst h' ((x, l) :: en s)))
  | OMapDel m k =>
      (* _delete: args[0].SetMapIndex(args[1], zero Value) *)
      ret_st (sm <- y_rv (hp s) (en s) m ;; sk <- y_rv (hp s) (en s) k ;;
              mv <- slot_get (hp s) sm ;; kv <- slot_get (hp s) sk ;;
              match mv, kv with
              | VMap l, VInt z =>
                  match nth_error (hp s) l with
                  | Some (CMap kvs) => Some (mkst (upd (hp s) l (CMap (map_del kvs z))) (en s))
                  | _ => None
                  end
              | VNil, VInt _ => Some s
              | _, _ => None
              end)
  | OCopy d x =>
      (* _copy: reflect.Copy(args[0], args[1]) *)
      ret_st (sd <- y_rv (hp s) (en s) d ;; sx <- y_rv (hp s) (en s) x ;;
              dv <- slot_get (hp s) sd ;; xv <- slot_get (hp s) sx ;;
              h' <- copy_vals (hp s) dv xv ;; Some (mkst h' (en s)))
  | ORange k v rk x body =>
      (* _range: init stores the operand in the hidden slot; every iteration does
         f.data[index1].Set(a.Index(i)); loopVarKey / loopVarVal give the body fresh copies *)
      match (sx <- y_rv (hp s) (en s) x ;;
             sh <- y_range_shadow (hp s) rk sx ;;
             n <- y_range_len (hp s) rk sh ;; Some (sh, n)) with
      | None => ([], None)
      | Some (sh, n) =>
          range_iter (fun s' => y_ops grow s' body) (fun h i => y_range_elem h rk sh i) k v n 0 s
      end
  | OCall dst ps args body ret =>
      (* call: rvalues[0] is the destination's slot (cfg.go: src.findex = dest.findex), parameters are
         fresh slots filled with dest[i].Set(val); _return does f.data[0].Set(v(f)) *)
      match (d <- match dst with Some l => x <- y_lv (hp s) (en s) l ;; Some (Some x) | None => Some None end ;;
             sa <- y_rvs (hp s) (en s) args ;;
             vs <- slots_get (hp s) sa ;;
             he <- bind_vars (hp s) [] ps vs ;; Some (d, he)) with
      | None => ([], None)
      | Some (d, (h1, e1)) =>
          seq_res (y_ops grow (mkst h1 e1) body)
                  (fun s2 =>
                     ret_st (match d, ret with
                             | Some d', OSome r =>
                                 sr <- y_rv (hp s2) (en s2) r ;; v <- slot_get (hp s2) sr ;;
                                 h' <- y_store (hp s2) d' v ;; Some (mkst h' (en s))
                             | None, _ => Some (mkst (hp s2) (en s))
                             | Some _, ONone => None
                             end))
      end
  | ODump => ([observe s], Some s)
  end
with y_ops (grow : growth) (s : st) (os : ops) {struct os} : res :=
  match os with
  | ONil => ([], Some s)
  | OCons o r => seq_res (y_op grow s o) (fun s1 => y_ops grow s1 r)
  end.

(** the side condition of the refinement theorem: the three known-defect shapes do not occur *)
Fixpoint no_map_entry (ls : list lv) : bool :=
  match ls with [] => true | l :: r => negb (is_map_entry l) && no_map_entry r end.

Fixpoint is_load (x : rv) : bool := match x with RLoad _ => true | RBox _ y => is_load y | _ => false end.
Fixpoint no_loads (xs : rvs) : bool :=
  match xs with RNone => true | RCons x r => negb (is_load x) && no_loads r end.
(** append(s, e1, ..., en): e2 .. en are not plain reads of variables, elements or fields *)
Definition rhs_ok (r : rhs) : bool :=
  match r with
  | EAppend _ _ _ (RCons _ r') => no_loads r'
  | _ => true
  end.

Fixpoint wf_op (o : op) : bool :=
  match o with
  | OAssign l r =>
      match rebind_case l r with
      | Some _ => false
      | None => (negb (is_map_entry l) || is_pure r) && rhs_ok r
      end
  | ODefine _ r => rhs_ok r
  | OMulti ls rs => negb (any_direct ls rs) && no_map_entry ls && negb (has_nil rs)
  | ORange _ _ _ _ body => wf_ops body
  | OCall dst _ _ body _ => match dst with Some l => negb (is_map_entry l) | None => true end && wf_ops body
  | _ => true
  end
with wf_ops (os : ops) : bool :=
  match os with
  | ONil => true
  | OCons o r => wf_op o && wf_ops r
  end.

