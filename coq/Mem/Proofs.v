(** C04 — proofs about Mem/GoStore.v (G) and Mem/ReflectModel.v (Y). *)
From Verif Require Import Mem.GoStore Mem.ReflectModel.

Scheme lv_mut := Induction for lv Sort Prop
with rv_mut := Induction for rv Sort Prop
with rvs_mut := Induction for rvs Sort Prop
with orv_mut := Induction for orv Sort Prop.
Combined Scheme expr_mutind from lv_mut, rv_mut, rvs_mut, orv_mut.

Scheme op_mut := Induction for op Sort Prop
with ops_mut := Induction for ops Sort Prop.
Combined Scheme op_mutind from op_mut, ops_mut.

(** what a destination denotes when it is stored through *)
Definition resolve (h : heap) (d : ydest) : option target :=
  match d with
  | DRef p => Some (TPath p)
  | DMap sm sk =>
      mv <- slot_get h sm ;; kv <- slot_get h sk ;;
      match mv, kv with VMap l, VInt z => Some (TMap l z) | _, _ => None end
  end.

Ltac dm1 :=
  match goal with
  | |- context [match ?x with _ => _ end] =>
      lazymatch x with
      | context [match _ with _ => _ end] => fail
      | _ => destruct x eqn:?; cbn in *; unfold bind in *; subst; try discriminate; try congruence
      end
  end.
Ltac dm := repeat dm1; try reflexivity.
Ltac dmh1 :=
  match goal with
  | H : context [match ?x with _ => _ end] |- _ =>
      lazymatch x with
      | context [match _ with _ => _ end] => fail
      | _ => destruct x eqn:?; cbn in *; unfold bind in *; subst; try discriminate; try congruence
      end
  end.
Ltac dmh := repeat dmh1.

Lemma expr_sound h e :
  (forall l, bind (y_lv h e l) (resolve h) = g_lv h e l) /\
  (forall x, bind (y_rv h e x) (slot_get h) = g_rv h e x) /\
  (forall xs, bind (y_rvs h e xs) (slots_get h) = g_rvs h e xs) /\
  (forall o d, y_orv h e o d = g_orv h e o d).
Proof.
  apply expr_mutind; intros; cbn.
  - destruct (lookup e x); reflexivity.
  - rewrite <- H, <- H0. unfold bind. dm.
  - rewrite <- H, <- H0. unfold bind. dm.
  - rewrite <- H. unfold bind. dm.
  - rewrite <- H. unfold bind. dm.
  - rewrite <- H, <- H0. unfold bind. dm.
  - reflexivity.
  - reflexivity.
  - rewrite <- H. unfold bind. dm.
  - rewrite <- H. unfold bind. dm.
  - rewrite <- H. unfold bind. dm.
  - rewrite <- H. unfold bind. dm.
  - rewrite <- H, <- H0. unfold bind. dm.
  - rewrite <- H. unfold bind. dm.
  - rewrite <- H. unfold bind. dm.
  - rewrite <- H. clear H. destruct (y_rv h e b) as [s|]; cbn; [|reflexivity].
    destruct (slot_get h s) as [v|]; cbn; [|reflexivity].
    destruct (slice_of h v) as [[[[base off] len] cap]|]; cbn; [|reflexivity].
    rewrite H0, H1, H2. unfold bind. dm.
  - rewrite <- H, <- H0. unfold bind. dm.
  - reflexivity.
  - rewrite <- H, <- H0. unfold bind. dm.
  - reflexivity.
  - rewrite <- H. unfold bind. dm.
Qed.

Lemma lv_sound h e l : bind (y_lv h e l) (resolve h) = g_lv h e l.
Proof. apply expr_sound. Qed.
Lemma rv_sound h e x : bind (y_rv h e x) (slot_get h) = g_rv h e x.
Proof. apply expr_sound. Qed.
Lemma rvs_sound h e xs : bind (y_rvs h e xs) (slots_get h) = g_rvs h e xs.
Proof. apply expr_sound. Qed.

(** a destination that is not a map entry is an aliasing Value: what it denotes does not depend
    on when it is stored through *)
Lemma y_lv_ref h e l d :
  is_map_entry l = false -> y_lv h e l = Some d -> exists p, d = DRef p.
Proof.
  destruct l; cbn; unfold bind; intros Hm H; try discriminate; dmh; inversion H; eauto.
Qed.

Lemma y_store_resolve h d v : y_store h d v = (t <- resolve h d ;; store h t v).
Proof. destruct d; cbn; unfold bind; dm. Qed.

Lemma rhs_sound grow h e r :
  bind (y_rhs grow h e r) (fun sh => v <- slot_get (snd sh) (fst sh) ;; Some (v, snd sh)) = g_rhs grow h e r.
Proof.
  destruct r; cbn.
  - rewrite <- rv_sound. unfold bind. dm.
  - rewrite <- rv_sound, <- rvs_sound. unfold bind. dm.
  - rewrite <- rvs_sound. unfold bind. dm.
  - rewrite <- rv_sound. unfold bind. dm.
  - rewrite <- !rv_sound. unfold bind. dm.
  - rewrite <- !rvs_sound. unfold bind. dm.
Qed.

Lemma range_iter_ext f g el1 el2 k v :
  (forall s, f s = g s) -> (forall h i, el1 h i = el2 h i) ->
  forall cnt i s, range_iter f el1 k v cnt i s = range_iter g el2 k v cnt i s.
Proof.
  intros Hf He. induction cnt; intros; cbn; [reflexivity|].
  rewrite He. destruct (el2 (hp s) i); [|reflexivity].
  destruct (alloc (hp s) (CVal (VInt (Z.of_nat i)))) as [l1 h1].
  destruct (alloc h1 (CVal v0)) as [l2 h2]. cbn.
  rewrite Hf. destruct (g _) as [d1 [s1|]]; cbn; [|reflexivity].
  rewrite IHcnt. reflexivity.
Qed.

Lemma lvs_ref h e ls :
  no_map_entry ls = true ->
  match y_lvs h e ls with
  | Some ds => exists ps, ds = map DRef ps /\ g_lvs h e ls = Some (map TPath ps)
  | None => g_lvs h e ls = None
  end.
Proof.
  induction ls as [|l ls IH]; cbn; intros Hn.
  - exists []. split; reflexivity.
  - apply andb_true_iff in Hn. destruct Hn as [Hl Hn]. apply negb_true_iff in Hl.
    specialize (IH Hn). rewrite <- lv_sound.
    destruct (y_lv h e l) as [d|] eqn:El; cbn; [|reflexivity].
    destruct (y_lv_ref _ _ _ _ Hl El) as [p ->]. cbn.
    destruct (y_lvs h e ls) as [ds|]; cbn.
    + destruct IH as [ps [-> ->]]. exists (p :: ps). split; reflexivity.
    + rewrite IH. reflexivity.
Qed.

Lemma store_all_ref ps : forall h vs, y_store_all h (map DRef ps) vs = store_all h (map TPath ps) vs.
Proof.
  induction ps as [|p ps IH]; intros h [|v vs]; cbn; try reflexivity.
  destruct (write h p v); cbn; [apply IH|reflexivity].
Qed.

Theorem refines grow :
  (forall o s, wf_op o = true -> y_op grow s o = g_op grow s o) /\
  (forall os s, wf_ops os = true -> y_ops grow s os = g_ops grow s os).
Proof.
  apply op_mutind.
  - (* OAssign *)
    intros l r s Hwf. cbn in Hwf. cbn [y_op g_op].
    destruct (rebind_case l r); [discriminate|].
    f_equal. rewrite <- lv_sound, <- rhs_sound.
    destruct (y_lv (hp s) (en s) l) as [d|] eqn:El; cbn; [|reflexivity].
    apply orb_true_iff in Hwf. destruct Hwf as [Hm|Hp].
    + apply negb_true_iff in Hm. destruct (y_lv_ref _ _ _ _ Hm El) as [p ->]. cbn.
      destruct (y_rhs grow (hp s) (en s) r) as [[sl h1]|]; cbn; [|reflexivity].
      destruct (slot_get h1 sl); reflexivity.
    + destruct r; try discriminate. cbn.
      destruct (y_rv (hp s) (en s) e) as [sl|]; cbn; [|destruct (resolve (hp s) d); reflexivity].
      destruct (slot_get (hp s) sl); cbn; [rewrite y_store_resolve|]; destruct (resolve (hp s) d); reflexivity.
  - (* OMulti *)
    intros ls rs s Hwf. cbn in Hwf. apply andb_true_iff in Hwf. destruct Hwf as [Hd Hm].
    apply negb_true_iff in Hd. cbn [y_op g_op]. rewrite Hd. f_equal.
    pose proof (lvs_ref (hp s) (en s) ls Hm) as Hl.
    destruct (y_lvs (hp s) (en s) ls) as [ds|]; cbn.
    + destruct Hl as [ps [-> ->]]. cbn. rewrite <- rvs_sound.
      destruct (y_rvs (hp s) (en s) rs) as [ss|]; cbn; [|reflexivity].
      destruct (slots_get (hp s) ss); cbn; [|reflexivity].
      rewrite store_all_ref. reflexivity.
    + rewrite Hl. reflexivity.
  - (* ODefine *)
    intros x r s _. cbn [y_op g_op]. f_equal. rewrite <- rhs_sound.
    destruct (y_rhs grow (hp s) (en s) r) as [[sl h1]|]; cbn; [|reflexivity].
    destruct (slot_get h1 sl); reflexivity.
  - (* OMapDel *)
    intros m k s _. cbn [y_op g_op]. f_equal. rewrite <- !rv_sound. unfold bind. dm.
  - (* OCopy *)
    intros d x s _. cbn [y_op g_op]. f_equal. rewrite <- !rv_sound. unfold bind. dm.
  - (* ORange *)
    intros k v rk e body IH s Hwf. cbn in Hwf. cbn [y_op g_op].
    rewrite <- rv_sound.
    destruct (y_rv (hp s) (en s) e) as [sx|]; cbn; [|reflexivity].
    destruct rk; cbn; unfold bind.
    + destruct (slot_get (hp s) sx) as [xv|]; cbn; [|reflexivity].
      destruct xv; cbn; try reflexivity.
      apply range_iter_ext; [intro; apply IH; exact Hwf|reflexivity].
    + destruct (slot_get (hp s) sx) as [xv|]; cbn; [|reflexivity].
      destruct xv; cbn; try reflexivity.
      apply range_iter_ext; [intro; apply IH; exact Hwf|reflexivity].
    + destruct (slot_get (hp s) sx) as [xv|]; cbn; [|reflexivity].
      destruct xv; cbn; try reflexivity. unfold y_range_len. cbn.
      destruct (read (hp s) p) as [av|]; cbn; [|reflexivity].
      destruct av; cbn; try reflexivity.
      apply range_iter_ext; [intro; apply IH; exact Hwf|reflexivity].
  - (* OCall *)
    intros dst ps args body IH ret s Hwf. cbn in Hwf. apply andb_true_iff in Hwf. destruct Hwf as [Hd Hb].
    cbn [y_op g_op]. rewrite <- rvs_sound.
    destruct dst as [l|].
    + apply negb_true_iff in Hd. rewrite <- lv_sound.
      destruct (y_lv (hp s) (en s) l) as [d|] eqn:El; cbn; [|reflexivity].
      destruct (y_lv_ref _ _ _ _ Hd El) as [p ->]. cbn.
      destruct (y_rvs (hp s) (en s) args) as [sa|]; cbn; [|reflexivity].
      destruct (slots_get (hp s) sa) as [vs|]; cbn; [|reflexivity].
      destruct (bind_vars (hp s) [] ps vs) as [[h1 e1]|]; cbn; [|reflexivity].
      rewrite IH by exact Hb.
      destruct (g_ops grow (mkst h1 e1) body) as [d1 [s2|]]; cbn; [|reflexivity].
      destruct ret as [|r]; cbn; [reflexivity|].
      rewrite <- rv_sound. unfold bind. dm.
    + cbn.
      destruct (y_rvs (hp s) (en s) args) as [sa|]; cbn; [|reflexivity].
      destruct (slots_get (hp s) sa) as [vs|]; cbn; [|reflexivity].
      destruct (bind_vars (hp s) [] ps vs) as [[h1 e1]|]; cbn; [|reflexivity].
      rewrite IH by exact Hb. reflexivity.
  - (* ODump *) reflexivity.
  - (* ONil *) reflexivity.
  - (* OCons *)
    intros o IHo r IHr s Hwf. cbn in Hwf. apply andb_true_iff in Hwf. destruct Hwf as [H1 H2].
    cbn [y_ops g_ops]. rewrite IHo by exact H1.
    destruct (g_op grow s o) as [d1 [s1|]]; cbn; [|reflexivity].
    rewrite IHr by exact H2. reflexivity.
Qed.
