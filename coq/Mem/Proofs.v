(** C04 — proofs about Mem/GoStore.v (G) and Mem/ReflectModel.v (Y). *)
From Verif Require Import Mem.GoStore Mem.ReflectModel Mem.Cases.

Scheme lv_mut := Induction for lv Sort Prop
with rv_mut := Induction for rv Sort Prop
with rvs_mut := Induction for rvs Sort Prop
with orv_mut := Induction for orv Sort Prop.
Combined Scheme expr_mutind from lv_mut, rv_mut, rvs_mut, orv_mut.

Scheme op_mut := Induction for op Sort Prop
with ops_mut := Induction for ops Sort Prop.
Combined Scheme op_mutind from op_mut, ops_mut.

(** what a destination denotes when it is stored through *)
Definition resolve (h : heap) (d : ydest) : option target :=
  match d with
  | DRef p => Some (TPath p)
  | DMap sm sk =>
      mv <- slot_get h sm ;; kv <- slot_get h sk ;;
      match mv, kv with VMap l, VInt z => Some (TMap l z) | _, _ => None end
  end.

Ltac dm1 :=
  match goal with
  | |- context [match ?x with _ => _ end] =>
      lazymatch x with
      | context [match _ with _ => _ end] => fail
      | _ => destruct x eqn:?; cbn in *; unfold bind in *; subst; try discriminate; try congruence
      end
  end.
Ltac dm := repeat dm1; try reflexivity.
Ltac dmh1 :=
  match goal with
  | H : context [match ?x with _ => _ end] |- _ =>
      lazymatch x with
      | context [match _ with _ => _ end] => fail
      | _ => destruct x eqn:?; cbn in *; unfold bind in *; subst; try discriminate; try congruence
      end
  end.
Ltac dmh := repeat dmh1.

Lemma expr_sound h e :
  (forall l, bind (y_lv h e l) (resolve h) = g_lv h e l) /\
  (forall x, bind (y_rv h e x) (slot_get h) = g_rv h e x) /\
  (forall xs, bind (y_rvs h e xs) (slots_get h) = g_rvs h e xs) /\
  (forall o d, y_orv h e o d = g_orv h e o d).
Proof.
  apply expr_mutind; intros; cbn.
  - destruct (lookup e x); reflexivity.
  - rewrite <- H, <- H0. unfold bind. dm.
  - rewrite <- H, <- H0. unfold bind. dm.
  - rewrite <- H. unfold bind. dm.
  - rewrite <- H. unfold bind. dm.
  - rewrite <- H, <- H0. unfold bind. dm.
  - reflexivity.
  - reflexivity.
  - rewrite <- H. unfold bind. dm.
  - rewrite <- H. unfold bind. dm.
  - rewrite <- H. unfold bind. dm.
  - rewrite <- H. unfold bind. dm.
  - rewrite <- H, <- H0. unfold bind. dm.
  - rewrite <- H. unfold bind. dm.
  - rewrite <- H. unfold bind. dm.
  - rewrite <- H. clear H. destruct (y_rv h e b) as [s|]; cbn; [|reflexivity].
    destruct (slot_get h s) as [v|]; cbn; [|reflexivity].
    destruct (slice_of h v) as [[[[base off] len] cap]|]; cbn; [|reflexivity].
    rewrite H0, H1, H2. unfold bind. dm.
  - rewrite <- H, <- H0. unfold bind. dm.
  - rewrite <- H. unfold bind. dm.
  - rewrite <- H. unfold bind. dm.
  - reflexivity.
  - rewrite <- H, <- H0. unfold bind. dm.
  - reflexivity.
  - rewrite <- H. unfold bind. dm.
Qed.

Lemma lv_sound h e l : bind (y_lv h e l) (resolve h) = g_lv h e l.
Proof. apply expr_sound. Qed.
Lemma rv_sound h e x : bind (y_rv h e x) (slot_get h) = g_rv h e x.
Proof. apply expr_sound. Qed.
Lemma rvs_sound h e xs : bind (y_rvs h e xs) (slots_get h) = g_rvs h e xs.
Proof. apply expr_sound. Qed.

(** a destination that is not a map entry is an aliasing Value: what it denotes does not depend
    on when it is stored through *)
Lemma y_lv_ref h e l d :
  is_map_entry l = false -> y_lv h e l = Some d -> exists p, d = DRef p.
Proof.
  destruct l; cbn; unfold bind; intros Hm H; try discriminate; dmh; inversion H; eauto.
Qed.

Lemma y_store_resolve h d v : y_store h d v = (t <- resolve h d ;; store h t v).
Proof. destruct d; cbn; unfold bind; dm. Qed.

Fixpoint is_sval (s : slot) : Prop :=
  match s with SVal _ => True | SRef _ => False | SBox _ s' => is_sval s' end.

Lemma slot_get_sval s : is_sval s -> forall h h', slot_get h s = slot_get h' s.
Proof.
  induction s; cbn; intros Hs h h'; [reflexivity|destruct Hs|]. rewrite (IHs Hs h h'). reflexivity.
Qed.

Lemma y_rv_sval h e x : forall s, is_load x = false -> y_rv h e x = Some s -> is_sval s.
Proof.
  induction x; cbn; unfold bind; intros s0 Hl H; try discriminate;
    try (dmh; inversion H; subst; exact I).
  destruct (y_rv h e x) as [s1|] eqn:E1; [|discriminate]. inversion H; subst. cbn. eapply IHx; eauto.
Qed.

Lemma y_rvs_svals h e xs : forall ss, no_loads xs = true -> y_rvs h e xs = Some ss -> Forall is_sval ss.
Proof.
  induction xs as [|x r IH]; cbn; intros ss Hn H.
  - inversion H. constructor.
  - apply andb_true_iff in Hn. destruct Hn as [Hx Hr]. apply negb_true_iff in Hx.
    unfold bind in H. destruct (y_rv h e x) as [s|] eqn:Es; [|discriminate].
    destruct (y_rvs h e r) as [ss'|] eqn:Er; [|discriminate]. inversion H; subst.
    constructor; [eapply y_rv_sval; eauto|apply IH; auto].
Qed.

Lemma slots_get_sval ss : Forall is_sval ss -> forall h h', slots_get h ss = slots_get h' ss.
Proof.
  induction 1 as [|s r Hs _ IH]; intros h h'; cbn; [reflexivity|].
  rewrite (slot_get_sval s Hs h h'), (IH h h'). reflexivity.
Qed.

Lemma slots_get_length h ss : forall vs, slots_get h ss = Some vs -> length vs = length ss.
Proof.
  induction ss as [|s r IH]; cbn; intros vs H.
  - inversion H. reflexivity.
  - unfold bind in H. destruct (slot_get h s); [|discriminate]. destruct (slots_get h r); [|discriminate].
    inversion H. cbn. f_equal. apply IH. reflexivity.
Qed.

(** appending in place element by element equals appending the values read beforehand, when only
    the first argument can be an aliasing Value *)
Lemma append_inplace_vals h base off s r :
  Forall is_sval r ->
  y_append_inplace h base off (s :: r) = (vs <- slots_get h (s :: r) ;; write_elems h base off vs).
Proof.
  intros Hr. cbn. unfold bind. destruct (slot_get h s) as [v|]; [|reflexivity].
  assert (G : forall h1 h2 off', y_append_inplace h1 base off' r =
                                 match slots_get h2 r with Some vs => write_elems h1 base off' vs | None => None end).
  { clear h s v. induction Hr as [|s r Hs _ IH]; intros h1 h2 off'; cbn; [reflexivity|].
    unfold bind. rewrite (slot_get_sval s Hs h1 h2).
    destruct (slot_get h2 s) as [v|]; [|reflexivity].
    destruct (slots_get h2 r) as [vs|] eqn:Evs; cbn; unfold bind.
    - destruct (write h1 (sub base off') v) as [h1'|]; [|reflexivity].
      rewrite (IH h1' h2), Evs. reflexivity.
    - destruct (write h1 (sub base off') v) as [h1'|]; [|reflexivity].
      rewrite (IH h1' h2), Evs. reflexivity. }
  destruct (write h (sub base off) v) as [h'|] eqn:Ew.
  - rewrite (G h' h). destruct (slots_get h r); cbn; [rewrite Ew|]; reflexivity.
  - destruct (slots_get h r); cbn; [rewrite Ew|]; reflexivity.
Qed.

Lemma rhs_sound grow h e r :
  rhs_ok r = true ->
  bind (y_rhs grow h e r) (fun sh => v <- slot_get (snd sh) (fst sh) ;; Some (v, snd sh)) = g_rhs grow h e r.
Proof.
  destruct r; cbn; intros Hok.
  - rewrite <- rv_sound. unfold bind. dm.
  - (* EAppend *)
    rewrite <- rv_sound, <- rvs_sound.
    destruct (y_rv h e s) as [ss|]; cbn; [|reflexivity].
    destruct (y_rvs h e es) as [se|] eqn:Ees; cbn; [|destruct (slot_get h ss); reflexivity].
    destruct (slot_get h ss) as [sv|]; cbn; [|reflexivity].
    unfold append_vals.
    destruct (slice_view sv) as [[[[base off] len] cap]|]; cbn; [|destruct (slots_get h se); reflexivity].
    destruct (slots_get h se) as [vs|] eqn:Evs; cbn.
    + rewrite (slots_get_length _ _ _ Evs).
      destruct (len + length se <=? cap) eqn:El; cbn.
      * destruct se as [|s0 r0].
        -- cbn in Evs. inversion Evs. cbn. reflexivity.
        -- assert (Hr : Forall is_sval r0).
           { destruct es as [|x xr]; cbn in Ees; [discriminate|].
             unfold bind in Ees. destruct (y_rv h e x); [|discriminate].
             destruct (y_rvs h e xr) eqn:Exr; [|discriminate]. inversion Ees; subst.
             eapply y_rvs_svals; eauto. }
           rewrite (append_inplace_vals _ _ _ _ _ Hr). rewrite Evs. cbn.
           destruct (write_elems h base (off + len) vs); reflexivity.
      * destruct (read_elems h base off len); cbn; reflexivity.
    + destruct (len + length se <=? cap) eqn:El; cbn; [|reflexivity].
      destruct se as [|s0 r0]; [cbn in Evs; discriminate|].
      assert (Hr : Forall is_sval r0).
      { destruct es as [|x xr]; cbn in Ees; [discriminate|].
        unfold bind in Ees. destruct (y_rv h e x); [|discriminate].
        destruct (y_rvs h e xr) eqn:Exr; [|discriminate]. inversion Ees; subst.
        eapply y_rvs_svals; eauto. }
      rewrite (append_inplace_vals _ _ _ _ _ Hr). rewrite Evs. reflexivity.
  - (* EAppendSlice *) rewrite <- !rv_sound. unfold bind. dm.
  - rewrite <- rvs_sound. unfold bind. dm.
  - rewrite <- rv_sound. unfold bind. dm.
  - rewrite <- !rv_sound. unfold bind. dm.
  - rewrite <- !rvs_sound. unfold bind. dm.
Qed.

Lemma range_iter_ext f g el1 el2 k v :
  (forall s, f s = g s) -> (forall h i, el1 h i = el2 h i) ->
  forall cnt i s, range_iter f el1 k v cnt i s = range_iter g el2 k v cnt i s.
Proof.
  intros Hf He. induction cnt; intros; cbn; [reflexivity|].
  rewrite He. destruct (el2 (hp s) i); [|reflexivity].
  destruct (alloc (hp s) (CVal (VInt (Z.of_nat i)))) as [l1 h1].
  destruct (alloc h1 (CVal v0)) as [l2 h2]. cbn.
  rewrite Hf. destruct (g _) as [d1 [s1|]]; cbn; [|reflexivity].
  rewrite IHcnt. reflexivity.
Qed.

Lemma lvs_ref h e ls :
  no_map_entry ls = true ->
  match y_lvs h e ls with
  | Some ds => exists ps, ds = map DRef ps /\ g_lvs h e ls = Some (map TPath ps)
  | None => g_lvs h e ls = None
  end.
Proof.
  induction ls as [|l ls IH]; cbn; intros Hn.
  - exists []. split; reflexivity.
  - apply andb_true_iff in Hn. destruct Hn as [Hl Hn]. apply negb_true_iff in Hl.
    specialize (IH Hn). rewrite <- lv_sound.
    destruct (y_lv h e l) as [d|] eqn:El; cbn; [|reflexivity].
    destruct (y_lv_ref _ _ _ _ Hl El) as [p ->]. cbn.
    destruct (y_lvs h e ls) as [ds|]; cbn.
    + destruct IH as [ps [-> ->]]. exists (p :: ps). split; reflexivity.
    + rewrite IH. reflexivity.
Qed.

Lemma store_all_ref ps : forall h vs, y_store_all h (map DRef ps) vs = store_all h (map TPath ps) vs.
Proof.
  induction ps as [|p ps IH]; intros h [|v vs]; cbn; try reflexivity.
  destruct (write h p v); cbn; [apply IH|reflexivity].
Qed.

Theorem refines grow :
  (forall o s, wf_op o = true -> y_op grow s o = g_op grow s o) /\
  (forall os s, wf_ops os = true -> y_ops grow s os = g_ops grow s os).
Proof.
  apply op_mutind.
  - (* OAssign *)
    intros l r s Hwf. cbn in Hwf. cbn [y_op g_op].
    destruct (rebind_case l r); [discriminate|].
    apply andb_true_iff in Hwf. destruct Hwf as [Hwf Hok].
    f_equal. rewrite <- lv_sound, <- rhs_sound by exact Hok.
    destruct (y_lv (hp s) (en s) l) as [d|] eqn:El; cbn; [|reflexivity].
    apply orb_true_iff in Hwf. destruct Hwf as [Hm|Hp].
    + apply negb_true_iff in Hm. destruct (y_lv_ref _ _ _ _ Hm El) as [p ->]. cbn.
      destruct (y_rhs grow (hp s) (en s) r) as [[sl h1]|]; cbn; [|reflexivity].
      destruct (slot_get h1 sl); reflexivity.
    + destruct r; try discriminate. cbn.
      destruct (y_rv (hp s) (en s) e) as [sl|]; cbn; [|destruct (resolve (hp s) d); reflexivity].
      destruct (slot_get (hp s) sl); cbn; [rewrite y_store_resolve|]; destruct (resolve (hp s) d); reflexivity.
  - (* OMulti *)
    intros ls rs s Hwf. cbn in Hwf. apply andb_true_iff in Hwf. destruct Hwf as [Hwf Hnil].
    apply andb_true_iff in Hwf. destruct Hwf as [Hd Hm].
    apply negb_true_iff in Hd. apply negb_true_iff in Hnil. cbn [y_op g_op]. rewrite Hd, Hnil. f_equal.
    pose proof (lvs_ref (hp s) (en s) ls Hm) as Hl.
    destruct (y_lvs (hp s) (en s) ls) as [ds|]; cbn.
    + destruct Hl as [ps [-> ->]]. cbn. rewrite <- rvs_sound.
      destruct (y_rvs (hp s) (en s) rs) as [ss|]; cbn; [|reflexivity].
      destruct (slots_get (hp s) ss); cbn; [|reflexivity].
      rewrite store_all_ref. reflexivity.
    + rewrite Hl. reflexivity.
  - (* ODefine *)
    intros x r s Hok. cbn in Hok. cbn [y_op g_op]. f_equal. rewrite <- rhs_sound by exact Hok.
    destruct (y_rhs grow (hp s) (en s) r) as [[sl h1]|]; cbn; [|reflexivity].
    destruct (slot_get h1 sl); reflexivity.
  - (* OMapDel *)
    intros m k s _. cbn [y_op g_op]. f_equal. rewrite <- !rv_sound. unfold bind. dm.
  - (* OCopy *)
    intros d x s _. cbn [y_op g_op]. f_equal. rewrite <- !rv_sound. unfold bind. dm.
  - (* ORange *)
    intros k v rk e body IH s Hwf. cbn in Hwf. cbn [y_op g_op].
    rewrite <- rv_sound.
    destruct (y_rv (hp s) (en s) e) as [sx|]; cbn; [|reflexivity].
    destruct rk; cbn; unfold bind.
    + destruct (slot_get (hp s) sx) as [xv|]; cbn; [|reflexivity].
      destruct xv; cbn; try reflexivity.
      apply range_iter_ext; [intro; apply IH; exact Hwf|reflexivity].
    + destruct (slot_get (hp s) sx) as [xv|]; cbn; [|reflexivity].
      destruct xv; cbn; try reflexivity.
      apply range_iter_ext; [intro; apply IH; exact Hwf|reflexivity].
    + destruct (slot_get (hp s) sx) as [xv|]; cbn; [|reflexivity].
      destruct xv; cbn; try reflexivity. unfold y_range_len. cbn.
      destruct (read (hp s) p) as [av|]; cbn; [|reflexivity].
      destruct av; cbn; try reflexivity.
      apply range_iter_ext; [intro; apply IH; exact Hwf|reflexivity].
  - (* OCall *)
    intros dst ps args body IH ret s Hwf. cbn in Hwf. apply andb_true_iff in Hwf. destruct Hwf as [Hd Hb].
    cbn [y_op g_op]. rewrite <- rvs_sound.
    destruct dst as [l|].
    + apply negb_true_iff in Hd. rewrite <- lv_sound.
      destruct (y_lv (hp s) (en s) l) as [d|] eqn:El; cbn; [|reflexivity].
      destruct (y_lv_ref _ _ _ _ Hd El) as [p ->]. cbn.
      destruct (y_rvs (hp s) (en s) args) as [sa|]; cbn; [|reflexivity].
      destruct (slots_get (hp s) sa) as [vs|]; cbn; [|reflexivity].
      destruct (bind_vars (hp s) [] ps vs) as [[h1 e1]|]; cbn; [|reflexivity].
      rewrite IH by exact Hb.
      destruct (g_ops grow (mkst h1 e1) body) as [d1 [s2|]]; cbn; [|reflexivity].
      destruct ret as [|r]; cbn; [reflexivity|].
      rewrite <- rv_sound. unfold bind. dm.
    + cbn.
      destruct (y_rvs (hp s) (en s) args) as [sa|]; cbn; [|reflexivity].
      destruct (slots_get (hp s) sa) as [vs|]; cbn; [|reflexivity].
      destruct (bind_vars (hp s) [] ps vs) as [[h1 e1]|]; cbn; [|reflexivity].
      rewrite IH by exact Hb. reflexivity.
  - (* ODump *) reflexivity.
  - (* ONil *) reflexivity.
  - (* OCons *)
    intros o IHo r IHr s Hwf. cbn in Hwf. apply andb_true_iff in Hwf. destruct Hwf as [H1 H2].
    cbn [y_ops g_ops]. rewrite IHo by exact H1.
    destruct (g_op grow s o) as [d1 [s1|]]; cbn; [|reflexivity].
    rewrite IHr by exact H2. reflexivity.
Qed.

(* ------------------------------------------------------------------ *)
(** * Consequences for Go's copy / share rule, stated on G *)

Lemma nth_error_upd_same {A} (l : list A) i x : i < length l -> nth_error (upd l i x) i = Some x.
Proof.
  revert i; induction l as [|y l IH]; intros [|i] H; cbn in *; try lia; [reflexivity|apply IH; lia].
Qed.

Lemma nth_error_upd_other {A} (l : list A) i j x : i <> j -> nth_error (upd l i x) j = nth_error l j.
Proof.
  revert i j; induction l as [|y l IH]; intros [|i] [|j] H; cbn; try reflexivity; try congruence.
  apply IH. congruence.
Qed.

Lemma length_upd {A} (l : list A) i x : length (upd l i x) = length l.
Proof. revert i; induction l as [|y l IH]; intros [|i]; cbn; auto. Qed.

Lemma get_set_same : forall sels v nv v', set_at v sels nv = Some v' -> get_at v' sels = Some nv.
Proof.
  induction sels as [|i r IH]; intros v nv v' H; cbn in *.
  - inversion H. reflexivity.
  - destruct v; try discriminate.
    + destruct (nth_error fs i) as [x|] eqn:Ex; [|discriminate].
      destruct (set_at x r nv) as [x'|] eqn:Es; [|discriminate]. inversion H; subst. cbn.
      rewrite nth_error_upd_same by (apply nth_error_Some; congruence). eapply IH; eauto.
    + destruct (nth_error es i) as [x|] eqn:Ex; [|discriminate].
      destruct (set_at x r nv) as [x'|] eqn:Es; [|discriminate]. inversion H; subst. cbn.
      rewrite nth_error_upd_same by (apply nth_error_Some; congruence). eapply IH; eauto.
Qed.

Lemma read_write_same h p nv h' : write h p nv = Some h' -> read h' p = Some nv.
Proof.
  unfold write, read. destruct p as [l sels]; cbn.
  destruct (nth_error h l) as [[v|]|] eqn:El; try discriminate.
  destruct (set_at v sels nv) as [v'|] eqn:Es; [|discriminate]. intros H; inversion H; subst.
  rewrite nth_error_upd_same by (apply nth_error_Some; congruence). eapply get_set_same; eauto.
Qed.

(** a write touches one cell only *)
Lemma read_write_other h p nv h' q : write h p nv = Some h' -> fst p <> fst q -> read h' q = read h q.
Proof.
  unfold write, read. destruct p as [l sels], q as [l' sels']; cbn.
  destruct (nth_error h l) as [[v|]|]; try discriminate.
  destruct (set_at v sels nv); [|discriminate]. intros H Hne; inversion H; subst.
  rewrite nth_error_upd_other by exact Hne. reflexivity.
Qed.

Lemma write_root h l v nv : nth_error h l = Some (CVal v) -> write h (l, []) nv = Some (upd h l (CVal nv)).
Proof. unfold write; cbn. intros ->. reflexivity. Qed.

Lemma read_alloc h c p : fst p < length h -> read (snd (alloc h c)) p = read h p.
Proof. unfold read, alloc; cbn. intros H. rewrite nth_error_app1 by exact H. reflexivity. Qed.

(** Assigning an array or a struct (any value tree) copies it: afterwards the two variables hold
    equal trees, and an update of any part of either leaves the other as it was. *)
Theorem array_assign_independent grow s x y lx ly v vx :
  lookup (en s) x = Some lx -> lookup (en s) y = Some ly -> lx <> ly ->
  read (hp s) (ly, []) = Some v -> read (hp s) (lx, []) = Some vx ->
  exists s1,
    g_op grow s (OAssign (LVar x) (EPure (RLoad (LVar y)))) = ([], Some s1)
    /\ read (hp s1) (lx, []) = Some v /\ read (hp s1) (ly, []) = Some v
    /\ (forall sels nv h2, write (hp s1) (lx, sels) nv = Some h2 -> read h2 (ly, []) = Some v)
    /\ (forall sels nv h2, write (hp s1) (ly, sels) nv = Some h2 -> read h2 (lx, []) = Some v).
Proof.
  intros Hx Hy Hne Hv Hvx. cbn. rewrite Hx, Hy. cbn. rewrite Hv. cbn.
  unfold read in Hvx; cbn in Hvx.
  destruct (nth_error (hp s) lx) as [[cx|]|] eqn:Ex; try discriminate.
  rewrite (write_root _ _ _ _ Ex). cbn.
  eexists. split; [reflexivity|]. cbn.
  assert (Hw : write (hp s) (lx, []) v = Some (upd (hp s) lx (CVal v))) by (apply write_root with (v := cx); exact Ex).
  repeat split.
  - eapply read_write_same; eauto.
  - rewrite (read_write_other _ _ _ _ (ly, []) Hw) by (cbn; congruence). exact Hv.
  - intros sels nv h2 H2. rewrite (read_write_other _ _ _ _ (ly, []) H2) by (cbn; congruence).
    rewrite (read_write_other _ _ _ _ (ly, []) Hw) by (cbn; congruence). exact Hv.
  - intros sels nv h2 H2. rewrite (read_write_other _ _ _ _ (lx, []) H2) by (cbn; congruence).
    eapply read_write_same; eauto.
Qed.

(** l-values made of the parameter, fields and constant indices *)
Fixpoint rooted (px : var) (l : lv) : Prop :=
  match l with
  | LVar x => x = px
  | LFld b _ => rooted px b
  | LIdx b (RInt _) => rooted px b
  | _ => False
  end.

Lemma rooted_target h px lp l t :
  rooted px l -> g_lv h [(px, lp)] l = Some t -> exists sels, t = TPath (lp, sels).
Proof.
  revert t; induction l; cbn; intros t Hr H; try contradiction.
  - subst. rewrite Nat.eqb_refl in H. cbn in H. inversion H. eauto.
  - destruct i; try contradiction. unfold bind in H.
    destruct (g_lv h [(px, lp)] l) as [t0|] eqn:E0; [|discriminate].
    destruct (IHl _ Hr eq_refl) as [sels ->]. cbn in H.
    destruct (read h (lp, sels)) as [[]|]; try discriminate.
    destruct (z_nat z); [|discriminate]. cbn in H.
    match type of H with (if ?c then _ else _) = _ => destruct c end; inversion H. unfold sub; cbn. eauto.
  - unfold bind in H. destruct (g_lv h [(px, lp)] l) as [t0|] eqn:E0; [|discriminate].
    destruct (IHl _ Hr eq_refl) as [sels ->]. inversion H. unfold sub; cbn. eauto.
Qed.

(** Passing an array or a struct to a function copies it: whatever field or element of its
    parameter the callee overwrites, the caller's variable keeps its value. *)
Theorem struct_pass_independent grow s y ly v px l z :
  lookup (en s) y = Some ly -> read (hp s) (ly, []) = Some v -> rooted px l ->
  forall d s1,
    g_op grow s (OCall None [px] (RCons (RLoad (LVar y)) RNone)
                       (OCons (OAssign l (EPure (RInt z))) ONil) ONone) = (d, Some s1) ->
    read (hp s1) (ly, []) = Some v /\ en s1 = en s.
Proof.
  intros Hy Hv Hr d s1 H. cbn in H. rewrite Hy in H. cbn in H. rewrite Hv in H. cbn in H.
  unfold seq_res, ret_st, bind in H.
  match type of H with context [g_lv ?a ?b l] => destruct (g_lv a b l) as [t|] eqn:El; [|inversion H] end.
  destruct (rooted_target _ _ _ _ _ Hr El) as [sels ->]. cbn in H.
  match type of H with context [write ?a ?b ?c] => destruct (write a b c) as [h2|] eqn:Ew; [|inversion H] end.
  cbn in H. inversion H; subst; cbn. split; [|reflexivity].
  assert (Hlt : ly < length (hp s)).
  { unfold read in Hv; cbn in Hv. apply nth_error_Some. destruct (nth_error (hp s) ly); congruence. }
  rewrite (read_write_other _ _ _ _ (ly, []) Ew) by (cbn; lia).
  change (hp s ++ [CVal v]) with (snd (alloc (hp s) (CVal v))).
  rewrite read_alloc by (cbn; exact Hlt). exact Hv.
Qed.

(** Ranging over an array iterates over the elements the array had when the loop started: the
    element of iteration i does not depend on the heap the body leaves behind.  Ranging over a
    slice (or a pointer to an array) reads the live backing array. *)
Theorem range_array_snapshot grow s x lx es k v body :
  lookup (en s) x = Some lx -> read (hp s) (lx, []) = Some (VArr es) ->
  g_op grow s (ORange k v RkArr (RLoad (LVar x)) body)
  = range_iter (fun s' => g_ops grow s' body) (fun _ i => nth_error es i) k v (length es) 0 s.
Proof. intros Hx Hr. cbn. rewrite Hx. cbn. rewrite Hr. cbn. reflexivity. Qed.

Theorem range_slice_live grow s x lx base off len cap k v body :
  lookup (en s) x = Some lx -> read (hp s) (lx, []) = Some (VSlice base off len cap) ->
  g_op grow s (ORange k v RkSlice (RLoad (LVar x)) body)
  = range_iter (fun s' => g_ops grow s' body) (fun h i => read h (elem_path base off i)) k v len 0 s.
Proof. intros Hx Hr. cbn. rewrite Hx. cbn. rewrite Hr. cbn. reflexivity. Qed.

(** A slice of an array shares the array: a store through the slice is a store into the array. *)
Theorem slice_shares_backing h e xa la es lo hi i z h' :
  lookup e xa = Some la -> read h (la, []) = Some (VArr es) ->
  lo <= hi -> hi <= length es -> i < hi - lo ->
  exists sv,
    g_rv h e (RSlice (RAddr (LVar xa)) (OSome (RInt (Z.of_nat lo))) (OSome (RInt (Z.of_nat hi))) ONone) = Some sv
    /\ forall xs ls, lookup e xs = Some ls -> read h (ls, []) = Some sv ->
       (t <- g_lv h e (LSIdx (RLoad (LVar xs)) (RInt (Z.of_nat i))) ;; store h t (VInt z)) = Some h' ->
       read h' (la, [lo + i]) = Some (VInt z).
Proof.
  intros Hxa Hr Hlh Hhl Hi. cbn. rewrite Hxa. cbn. rewrite Hr. cbn.
  unfold z_nat. rewrite !Nat2Z.id.
  destruct (Z.of_nat lo <? 0)%Z eqn:E1; [apply Z.ltb_lt in E1; lia|].
  destruct (Z.of_nat hi <? 0)%Z eqn:E2; [apply Z.ltb_lt in E2; lia|]. cbn.
  assert (Hc : (lo <=? hi) && (hi <=? length es) && (length es <=? length es) = true).
  { rewrite !andb_true_iff. repeat split; apply Nat.leb_le; lia. }
  rewrite Hc. eexists. split; [reflexivity|].
  intros xs ls Hxs Hrs. cbn. rewrite Hxs. cbn. rewrite Hrs. cbn.
  unfold z_nat. try rewrite Nat2Z.id.
  destruct (Z.of_nat i <? 0)%Z eqn:E3; [apply Z.ltb_lt in E3; lia|]. cbn.
  assert (Hlt : (i <? hi - lo) = true) by (apply Nat.ltb_lt; exact Hi).
  change (match hi - lo with 0 => false | S m' => i <=? m' end) with (i <? hi - lo). rewrite Hlt. cbn.
  intros Hw. unfold elem_path, sub in Hw; cbn in Hw.
  apply read_write_same in Hw. exact Hw.
Qed.

(** append within the capacity writes into the shared backing array; otherwise the result has a
    fresh backing array and every existing cell keeps its content *)
Theorem append_within_cap_aliases grow h ek zero base off len cap v r h' :
  len + 1 <= cap ->
  append_vals grow h ek zero (VSlice base off len cap) [v] = Some (r, h') ->
  r = VSlice base off (len + 1) cap /\ read h' (elem_path base off len) = Some v.
Proof.
  intros Hc. unfold append_vals; cbn.
  assert (E : (len + 1 <=? cap) = true) by (apply Nat.leb_le; exact Hc). rewrite E. cbn.
  destruct (write h (sub base (off + len)) v) as [h1|] eqn:Ew; cbn; [|discriminate].
  intros H; inversion H; subst. split; [reflexivity|].
  unfold elem_path. eapply read_write_same; eauto.
Qed.

Theorem append_beyond_cap_fresh grow h ek zero base off len cap vs r h' :
  cap < len + length vs ->
  append_vals grow h ek zero (VSlice base off len cap) vs = Some (r, h') ->
  (exists c, r = VSlice (length h, []) 0 (len + length vs) c)
  /\ forall p, fst p < length h -> read h' p = read h p.
Proof.
  intros Hc. unfold append_vals; cbn.
  assert (E : (len + length vs <=? cap) = false) by (apply Nat.leb_gt; exact Hc). rewrite E.
  destruct (read_elems h base off len) as [old|]; cbn; [|discriminate].
  intros H; inversion H; subst. split; [eauto|].
  intros p Hp. unfold read. rewrite nth_error_app1 by exact Hp. reflexivity.
Qed.

(** A map value is a reference: an entry stored through one copy is seen through every copy. *)
Theorem map_shared h e l kvs xm lm xm2 lm2 k v zero h' :
  lookup e xm = Some lm -> lookup e xm2 = Some lm2 ->
  read h (lm, []) = Some (VMap l) -> read h (lm2, []) = Some (VMap l) ->
  nth_error h l = Some (CMap kvs) ->
  (t <- g_lv h e (LMap (RLoad (LVar xm2)) (RInt k)) ;; store h t v) = Some h' ->
  read h' (lm, []) = Some (VMap l) ->
  g_rv h' e (RMapGet (RLoad (LVar xm)) (RInt k) zero) = Some v.
Proof.
  intros Hm Hm2 Hr Hr2 Hl. cbn. rewrite Hm2. cbn. rewrite Hr2. cbn. rewrite Hl.
  intros H; inversion H; subst. intros Hr'. rewrite Hm. cbn. rewrite Hr'. cbn.
  rewrite nth_error_upd_same by (apply nth_error_Some; congruence).
  assert (G : forall kvs, map_get (map_set kvs k v) k = Some v).
  { induction kvs0 as [|[k' v'] r IH]; cbn; [rewrite Z.eqb_refl; reflexivity|].
    destruct (k =? k')%Z eqn:Ek; cbn; [rewrite Z.eqb_refl; reflexivity|rewrite Ek; exact IH]. }
  rewrite G. reflexivity.
Qed.

(* ------------------------------------------------------------------ *)
(** * The same consequences for Y (transported through the refinement) *)

Lemma refines_op grow o s : wf_op o = true -> y_op grow s o = g_op grow s o.
Proof. apply refines. Qed.
Lemma refines_ops grow os s : wf_ops os = true -> y_ops grow s os = g_ops grow s os.
Proof. apply refines. Qed.

Theorem array_assign_independent_y grow s x y lx ly v vx :
  lookup (en s) x = Some lx -> lookup (en s) y = Some ly -> lx <> ly ->
  read (hp s) (ly, []) = Some v -> read (hp s) (lx, []) = Some vx ->
  exists s1,
    y_op grow s (OAssign (LVar x) (EPure (RLoad (LVar y)))) = ([], Some s1)
    /\ read (hp s1) (lx, []) = Some v /\ read (hp s1) (ly, []) = Some v
    /\ (forall sels nv h2, write (hp s1) (lx, sels) nv = Some h2 -> read h2 (ly, []) = Some v)
    /\ (forall sels nv h2, write (hp s1) (ly, sels) nv = Some h2 -> read h2 (lx, []) = Some v).
Proof. intros. rewrite refines_op by reflexivity. eapply array_assign_independent; eauto. Qed.

Theorem struct_pass_independent_y grow s y ly v px l z :
  lookup (en s) y = Some ly -> read (hp s) (ly, []) = Some v -> rooted px l ->
  forall d s1,
    y_op grow s (OCall None [px] (RCons (RLoad (LVar y)) RNone)
                       (OCons (OAssign l (EPure (RInt z))) ONil) ONone) = (d, Some s1) ->
    read (hp s1) (ly, []) = Some v /\ en s1 = en s.
Proof.
  intros Hy Hv Hr d s1 H. rewrite refines_op in H.
  - eapply struct_pass_independent; eauto.
  - cbn. destruct l; cbn; try reflexivity; try contradiction.
Qed.

Theorem range_array_snapshot_y grow s x lx es k v body :
  wf_ops body = true ->
  lookup (en s) x = Some lx -> read (hp s) (lx, []) = Some (VArr es) ->
  y_op grow s (ORange k v RkArr (RLoad (LVar x)) body)
  = range_iter (fun s' => y_ops grow s' body) (fun _ i => nth_error es i) k v (length es) 0 s.
Proof.
  intros Hwf Hx Hr. rewrite refines_op by exact Hwf. rewrite (range_array_snapshot _ _ _ _ _ _ _ _ Hx Hr).
  apply range_iter_ext; [intro; symmetry; apply refines_ops; exact Hwf|reflexivity].
Qed.

(* ------------------------------------------------------------------ *)
(** * Witnesses: a history inside the side condition, and the faithful model leaving Go on each
      known-defect shape (each replayed on the implementation by the harness) *)

Definition grow0 : growth := fun _ _ n => n.
Definition vA := LVar 0. Definition vS := LVar 1. Definition vP := LVar 5.
Definition vAI := LVar 7. Definition vSI := LVar 8. Definition vI := LVar 9. Definition vK := LVar 11.
Definition a_ (i : Z) := LIdx vA (RInt i).
Fixpoint rlist (l : list rv) : rvs := match l with [] => RNone | x :: r => RCons x (rlist r) end.
Fixpoint olist (l : list op) : ops := match l with [] => ONil | x :: r => OCons x (olist r) end.
Definition lit_S (n : Z) : rv := RStruct (rlist [RInt n; RArr (rlist [RInt 0; RInt 0]); RNil; RNil; RNil; RNil]).

Definition fvS_body : ops :=
  olist [OAssign (LFld (LVar 100) 0) (EPure (RAdd (RLoad (LFld (LVar 100) 0)) (RInt 100)));
         OAssign (LIdx (LFld (LVar 100) 1) (RInt 0)) (EPure (RInt 77))].

(** a[1].N = 3; ai = [4]int{1,2,3,4}; si = ai[1:3]; si[0] = 9; si = append(si, 7); t := a;
    a[0], a[1] = a[1], a[0]; for _, v := range a { a[2].N = v.N + 1 }; s = fvS(a[0]);
    p = &a[1]; p.N = 50; ea[0] = s; ea[1] = &s; s.N = 1; dump *)
Definition w_ok : ops := olist
  [ OAssign (LFld (a_ 1) 0) (EPure (RInt 3));
    OAssign vAI (EPure (RArr (rlist [RInt 1; RInt 2; RInt 3; RInt 4])));
    OAssign vSI (EPure (RSlice (RAddr vAI) (OSome (RInt 1)) (OSome (RInt 3)) ONone));
    OAssign (LSIdx (RLoad vSI) (RInt 0)) (EPure (RInt 9));
    OAssign vSI (EAppend 0 (VInt 0) (RLoad vSI) (rlist [RInt 7]));
    ODefine 20 (EPure (RLoad vA));
    OMulti [a_ 0; a_ 1] (rlist [RLoad (a_ 1); RLoad (a_ 0)]);
    ORange 21 22 RkArr (RLoad vA)
      (olist [OAssign (LFld (a_ 2) 0) (EPure (RAdd (RLoad (LFld (LVar 22) 0)) (RInt 1)))]);
    OCall (Some vS) [100] (rlist [RLoad (a_ 0)]) fvS_body (OSome (RLoad (LVar 100)));
    OAssign vP (EPure (RAddr (a_ 1)));
    OAssign (LFld (LDeref (RLoad vP)) 0) (EPure (RInt 50));
    OAssign (LIdx (LVar 12) (RInt 0)) (EPure (RBox 2 (RLoad vS)));    (* ea[0] = s : the struct is copied into the box *)
    OAssign (LIdx (LVar 12) (RInt 1)) (EPure (RBox 3 (RAddr vS)));    (* ea[1] = &s *)
    OAssign (LFld vS 0) (EPure (RInt 1));                             (* s.N = 1 *)
    ODump ].

(** the pool after w_ok: a = {3..} {50..} {1..}; s = {1 [77 0] ..}; p == &a[1]; ai = [1 9 3 7];
    si = ai[1:4]; ea[0] holds the copy S{103 [77 0]} made before s.N = 1, ea[1] holds &s *)
Definition w_ok_dump : list Z :=
  [3; 0; 0; 0; 0; 1; 0; 0;  50; 0; 0; 0; 0; 1; 0; 0;  1; 0; 0; 0; 0; 1; 0; 0;  1; 77; 0; 0; 0; 1; 0; 0;
   0; 0;  0; 0;  1;  2; 50; 0; 0;  0;  1; 9; 3; 7;  3; 3; 9; 3; 7;  0; 0; 0;
   3; 103; 77; 0;  4; 4; 1; 77; 0;  0;  0; 0;  1;  0]%Z.

Lemma wf_inhabited :
  wf_ops w_ok = true /\ fst (g_ops grow0 init_st w_ok) = [w_ok_dump] /\ fst (y_ops grow0 init_st w_ok) = [w_ok_dump].
Proof. vm_compute. repeat split; reflexivity. Qed.

Definition differ (w : ops) : Prop :=
  wf_ops w = false /\ out_eqb (fst (y_ops grow0 init_st w)) (fst (g_ops grow0 init_st w)) = false.

(** p = &s; s = S{N: 5}; p.N = 7; dump  — Go: s.N == 7 and p == &s; yaegi: s.N == 5, p points to the old s *)
Definition w_var_struct_lit : ops := olist
  [ OAssign vP (EPure (RAddr vS)); OAssign vS (EPure (lit_S 5));
    OAssign (LFld (LDeref (RLoad vP)) 0) (EPure (RInt 7)); ODump ].
Lemma var_struct_lit_refuted : differ w_var_struct_lit.
Proof. vm_compute. split; reflexivity. Qed.

(** s, i = S{N: 1}, 7; dump  — yaegi drops i = 7 *)
Definition w_multi_lit : ops := olist [ OMulti [vS; vI] (rlist [lit_S 1; RInt 7]); ODump ].
Lemma multi_assign_lit_refuted : differ w_multi_lit.
Proof. vm_compute. split; reflexivity. Qed.

(** si = []int{1,2}; i, ai[0] = len(si), i + 4; dump  — yaegi writes i at once and drops the second pair *)
Definition w_multi_call : ops := olist
  [ OAssign vSI (ESliceLit (rlist [RInt 1; RInt 2]));
    OMulti [vI; LIdx vAI (RInt 0)] (rlist [RLen (RLoad vSI); RAdd (RLoad vI) (RInt 4)]); ODump ].
Lemma multi_assign_call_refuted : differ w_multi_call.
Proof. vm_compute. split; reflexivity. Qed.

(** s.M = map[string]int{}; k, s.M[k] = "k1", 5; dump  — Go stores under the old k ("k0"), yaegi under "k1" *)
Definition w_multi_map : ops := olist
  [ OAssign (LFld vS 3) (EMapLit RNone RNone);
    OMulti [vK; LMap (RLoad (LFld vS 3)) (RLoad vK)] (rlist [RInt 1; RInt 5]); ODump ].
Lemma multi_assign_map_entry_refuted : differ w_multi_map.
Proof. vm_compute. split; reflexivity. Qed.

(** p, i = nil, 3; dump  — yaegi panics in the host (reflect.New(nil)) *)
Definition w_multi_nil : ops := olist [ OMulti [vP; vI] (rlist [RNil; RInt 3]); ODump ].
Lemma multi_assign_nil_refuted :
  differ w_multi_nil /\ snd (y_ops grow0 init_st w_multi_nil) = None /\ snd (g_ops grow0 init_st w_multi_nil) <> None.
Proof. vm_compute. repeat split; try reflexivity. discriminate. Qed.

(** ai = [4]int{33,4,49,43}; si = append(ai[1:2], 0, ai[2]); dump  — Go: ai[3] == 49 (the old ai[2]); yaegi: 0 *)
Definition w_append_alias : ops := olist
  [ OAssign vAI (EPure (RArr (rlist [RInt 33; RInt 4; RInt 49; RInt 43])));
    OAssign vSI (EAppend 0 (VInt 0) (RSlice (RAddr vAI) (OSome (RInt 1)) (OSome (RInt 2)) ONone)
                         (rlist [RInt 0; RLoad (LIdx vAI (RInt 2))]));
    ODump ].
Lemma append_alias_refuted : differ w_append_alias.
Proof. vm_compute. split; reflexivity. Qed.

Lemma statement_refuted : ~ (forall (grow : growth) (os : ops) (s : st), y_ops grow s os = g_ops grow s os).
Proof.
  intros H. pose proof var_struct_lit_refuted as [_ D].
  rewrite (H grow0 w_var_struct_lit init_st) in D. revert D. vm_compute. discriminate.
Qed.
