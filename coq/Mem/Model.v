(** C04 — the two models, definitions only:
    G = Mem/GoStore.v (value trees + heap: what Go prescribes, with the operation grammar and the
        observation function shared by both models);
    Y = Mem/ReflectModel.v (yaegi's frame slots holding aliasing or detached reflect.Values,
        transcribed from interp/run.go, interp/value.go and interp/cfg.go, defects included). *)
From Verif Require Export Mem.GoStore Mem.ReflectModel.
