(** C04 — evaluation of the models on the histories written by the harness (correspondence check).
    A case: operation list, growth table observed by the generator, the dumps printed by yaegi and
    whether it ended in a panic, and the same for the compiled program when it differs.
    [c04_mis_y]: ids of the cases where yaegi's output differs from Y;
    [c04_mis_g]: ids of the cases where the compiled program's output differs from G. *)
From Verif Require Import Mem.GoStore Mem.ReflectModel.

Definition zS : val := VStruct [VInt 0%Z; VArr [VInt 0%Z; VInt 0%Z]; VNil; VNil; VNil; VNil].

(** the pool of DESIGN.md D.2, zero-valued: a s sl ss m p q ai si i j k ea es em e *)
Definition init_heap : heap :=
  [CVal (VArr [zS; zS; zS]); CVal zS; CVal VNil; CVal VNil; CVal VNil; CVal VNil; CVal VNil;
   CVal (VArr [VInt 0%Z; VInt 0%Z; VInt 0%Z; VInt 0%Z]); CVal VNil; CVal (VInt 0%Z); CVal (VInt 0%Z); CVal (VInt 0%Z);
   CVal (VArr [VNil; VNil; VNil]); CVal VNil; CVal VNil; CVal VNil].
Definition init_env : env := map (fun x => (x, x)) (seq 0 16).
Definition init_st : st := mkst init_heap init_env.

Fixpoint grow_of (tab : list (nat * nat * nat * nat)) (ek c n : nat) : nat :=
  match tab with
  | [] => n
  | (ek', c', n', nc) :: r => if Nat.eqb ek ek' && Nat.eqb c c' && Nat.eqb n n' then nc else grow_of r ek c n
  end.

Fixpoint zs_eqb (a b : list Z) : bool :=
  match a, b with
  | [], [] => true
  | x :: a', y :: b' => Z.eqb x y && zs_eqb a' b'
  | _, _ => false
  end.

Fixpoint out_eqb (a b : list (list Z)) : bool :=
  match a, b with
  | [], [] => true
  | x :: a', y :: b' => zs_eqb x y && out_eqb a' b'
  | _, _ => false
  end.

Definition res_eqb (r : res) (dumps : list (list Z)) (panicked : bool) : bool :=
  out_eqb (fst r) dumps && Bool.eqb (match snd r with None => true | Some _ => false end) panicked.

Definition c04_case :=
  (N * ops * list (nat * nat * nat * nat) * list (list Z) * bool * option (list (list Z) * bool))%type.

Definition c04_mis_y (cs : list c04_case) : list N :=
  flat_map (fun '(id, os, tab, yd, yp, _) =>
              if res_eqb (y_ops (grow_of tab) init_st os) yd yp then [] else [id]) cs.

Definition c04_mis_g (cs : list c04_case) : list N :=
  flat_map (fun '(id, os, tab, yd, yp, g) =>
              let '(gd, gp) := match g with Some x => x | None => (yd, yp) end in
              if res_eqb (g_ops (grow_of tab) init_st os) gd gp then [] else [id]) cs.
