(** C04 — values are copied or shared exactly as Go prescribes.

    G: the specification model.  Values are trees; arrays and structs are trees of their elements,
    so assigning a tree IS a copy.  Slices, maps and pointers carry locations (paths into a heap of
    cells), so assigning them shares the referent.  Go's rule falls out of the representation.

    This file also fixes the operation grammar shared by both models (l-values, pure r-values,
    allocating / appending right-hand sides, statements) and the observation function [observe]
    that mirrors the dump routine of the generated Go programs (harness/c04.go).

    Definitions only; proofs are in Mem/Proofs.v. *)
From Coq Require Export ZArith List Bool Lia.
Export ListNotations.
Open Scope Z_scope.
Open Scope nat_scope.
Open Scope list_scope.

Definition var := nat.
Definition loc := nat.
(** A path names a sub-object: a heap cell and a list of selectors (field index / element index). *)
Definition path := (loc * list nat)%type.

Inductive val : Type :=
| VInt (z : Z)
| VNil                                   (* nil pointer, nil map *)
| VStruct (fs : list val)
| VArr (es : list val)
| VSlice (base : path) (off len cap : nat) (* elements base.[off] .. base.[off+len-1]; nil slice = cap 0 *)
| VMap (l : loc)
| VPtr (p : path)
| VBox (tag : nat) (v : val).             (* a non-nil interface value: dynamic type tag and the boxed value tree *)

Inductive cell := CVal (v : val) | CMap (kvs : list (Z * val)).
Definition heap := list cell.
Definition env := list (var * loc).

Record st := mkst { hp : heap; en : env }.

(* ------------------------------------------------------------------ *)
(** * Small library *)

Definition bind {A B} (a : option A) (f : A -> option B) : option B :=
  match a with Some x => f x | None => None end.
Notation "x <- a ;; b" := (bind a (fun x => b)) (at level 61, a at next level, right associativity).

Fixpoint upd {A} (l : list A) (i : nat) (x : A) : list A :=
  match l, i with
  | [], _ => []
  | _ :: t, O => x :: t
  | y :: t, S i' => y :: upd t i' x
  end.

Definition z_nat (z : Z) : option nat := if (z <? 0)%Z then None else Some (Z.to_nat z).

Fixpoint lookup (e : env) (x : var) : option loc :=
  match e with
  | [] => None
  | (y, l) :: r => if Nat.eqb x y then Some l else lookup r x
  end.

Fixpoint map_get (kvs : list (Z * val)) (k : Z) : option val :=
  match kvs with
  | [] => None
  | (k', v) :: r => if Z.eqb k k' then Some v else map_get r k
  end.

Fixpoint map_set (kvs : list (Z * val)) (k : Z) (v : val) : list (Z * val) :=
  match kvs with
  | [] => [(k, v)]
  | (k', v') :: r => if Z.eqb k k' then (k, v) :: r else (k', v') :: map_set r k v
  end.

Fixpoint map_del (kvs : list (Z * val)) (k : Z) : list (Z * val) :=
  match kvs with
  | [] => []
  | (k', v') :: r => if Z.eqb k k' then r else (k', v') :: map_del r k
  end.

(* ------------------------------------------------------------------ *)
(** * Trees and the heap *)

Fixpoint get_at (v : val) (sels : list nat) : option val :=
  match sels with
  | [] => Some v
  | i :: r =>
      match v with
      | VStruct fs => match nth_error fs i with Some x => get_at x r | None => None end
      | VArr fs => match nth_error fs i with Some x => get_at x r | None => None end
      | _ => None
      end
  end.

Fixpoint set_at (v : val) (sels : list nat) (nv : val) : option val :=
  match sels with
  | [] => Some nv
  | i :: r =>
      match v with
      | VStruct fs =>
          match nth_error fs i with
          | Some x => match set_at x r nv with Some x' => Some (VStruct (upd fs i x')) | None => None end
          | None => None
          end
      | VArr fs =>
          match nth_error fs i with
          | Some x => match set_at x r nv with Some x' => Some (VArr (upd fs i x')) | None => None end
          | None => None
          end
      | _ => None
      end
  end.

Definition read (h : heap) (p : path) : option val :=
  match nth_error h (fst p) with
  | Some (CVal v) => get_at v (snd p)
  | _ => None
  end.

Definition write (h : heap) (p : path) (nv : val) : option heap :=
  match nth_error h (fst p) with
  | Some (CVal v) => match set_at v (snd p) nv with Some v' => Some (upd h (fst p) (CVal v')) | None => None end
  | _ => None
  end.

Definition alloc (h : heap) (c : cell) : loc * heap := (length h, h ++ [c]).

Definition sub (p : path) (i : nat) : path := (fst p, snd p ++ [i]).

(** element [i] of a slice with backing [base] and offset [off] *)
Definition elem_path (base : path) (off i : nat) : path := sub base (off + i).

(** the nil slice is [VNil] as well; it behaves as a slice of capacity 0 *)
Definition nil_slice : val := VNil.

(** An assignment destination: an addressable sub-object or a map entry. *)
Inductive target := TPath (p : path) | TMap (l : loc) (k : Z).

Definition store (h : heap) (t : target) (v : val) : option heap :=
  match t with
  | TPath p => write h p v
  | TMap l k =>
      match nth_error h l with
      | Some (CMap kvs) => Some (upd h l (CMap (map_set kvs k v)))
      | _ => None
      end
  end.

(** the view of a sliceable operand: slice value, pointer to array, as (base, off, len, cap) *)
Definition slice_of (h : heap) (b : val) : option (path * nat * nat * nat) :=
  match b with
  | VSlice base off len cap => Some (base, off, len, cap)
  | VPtr p => match read h p with Some (VArr es) => Some (p, 0, length es, length es) | _ => None end
  | VNil => Some ((0, []), 0, 0, 0)
  | _ => None
  end.

Fixpoint read_elems (h : heap) (base : path) (off n : nat) : option (list val) :=
  match n with
  | O => Some []
  | S n' => x <- read h (sub base off) ;; r <- read_elems h base (S off) n' ;; Some (x :: r)
  end.

Fixpoint write_elems (h : heap) (base : path) (off : nat) (vs : list val) : option heap :=
  match vs with
  | [] => Some h
  | v :: r => h' <- write h (sub base off) v ;; write_elems h' base (S off) r
  end.

(* ------------------------------------------------------------------ *)
(** * Operation grammar *)

Inductive lv :=
| LVar (x : var)
| LIdx (b : lv) (i : rv)        (* b[i], b an array l-value (also q[i] = LIdx (LDeref q) i) *)
| LSIdx (b : rv) (i : rv)       (* b[i], b a slice value: an element of the backing array *)
| LFld (b : lv) (f : nat)       (* b.f (also p.f = LFld (LDeref p) f) *)
| LDeref (b : rv)               (* *b *)
| LMap (m : rv) (k : rv)        (* m[k] as assignment destination *)
with rv :=
| RInt (z : Z)
| RNil
| RLoad (l : lv)
| RAddr (l : lv)                (* &l *)
| RStruct (fs : rvs)            (* T{...} with all fields given *)
| RArr (es : rvs)               (* [n]T{...} *)
| RAdd (a b : rv)
| RLen (e : rv)                 (* len of a slice or map (len of an array is a constant: RInt) *)
| RCap (e : rv)
| RSlice (b : rv) (lo hi mx : orv) (* b[lo:hi:mx]; b a slice value or a pointer to an array (arr[..] = (&arr)[..]) *)
| RMapGet (m : rv) (k : rv) (zero : val)
| RBox (tag : nat) (e : rv)     (* conversion to interface{}: boxing copies the value tree (a struct is copied,
                                   a pointer / slice / map inside keeps its referent) *)
| RUnbox (tag : nat) (e : rv)   (* type assertion e.(T): panics on nil or on another dynamic type *)
with rvs := RNone | RCons (e : rv) (r : rvs)
with orv := ONone | OSome (e : rv).

(** right-hand sides that allocate or write; their operands are pure *)
Inductive rhs :=
| EPure (e : rv)
| EAppend (ek : nat) (zero : val) (s : rv) (es : rvs)   (* append(s, es...); ek = element kind for the growth policy *)
| EAppendSlice (ek : nat) (zero : val) (s t : rv)        (* append(s, t...) *)
| ESliceLit (es : rvs)                                   (* []T{...} *)
| ENew (e : rv)                                          (* &T{...}, new(T) *)
| EMake (zero : val) (n c : rv)                          (* make([]T, n, c) *)
| EMapLit (ks vs : rvs).                                 (* map[K]V{...}, make(map[K]V) *)

Inductive rkind := RkArr | RkSlice | RkPtr.

Inductive op :=
| OAssign (l : lv) (r : rhs)                  (* l = r *)
| OMulti (ls : list lv) (rs : rvs)            (* l1, ..., ln = e1, ..., en *)
| ODefine (x : var) (r : rhs)                 (* x := r *)
| OMapDel (m k : rv)                          (* delete(m, k) *)
| OCopy (d s : rv)                            (* copy(d, s) *)
| ORange (k v : var) (rk : rkind) (e : rv) (body : ops)  (* for k, v := range e { body } *)
| OCall (dst : option lv) (ps : list var) (args : rvs) (body : ops) (ret : orv)
                                              (* dst = f(args) with func f(ps) T { body; return ret } *)
| ODump                                       (* print the whole pool *)
with ops := ONil | OCons (o : op) (r : ops).

(* ------------------------------------------------------------------ *)
(** * Pure expressions (G): l-values denote targets, r-values denote value trees *)


Fixpoint g_lv (h : heap) (e : env) (l : lv) {struct l} : option target :=
  match l with
  | LVar x => a <- lookup e x ;; Some (TPath (a, []))
  | LIdx b i =>
      t <- g_lv h e b ;;
      match t with
      | TPath p =>
          iv <- g_rv h e i ;;
          match iv, read h p with
          | VInt z, Some (VArr es) => n <- z_nat z ;; if n <? length es then Some (TPath (sub p n)) else None
          | _, _ => None
          end
      | _ => None
      end
  | LSIdx b i =>
      bv <- g_rv h e b ;; iv <- g_rv h e i ;;
      match bv, iv with
      | VSlice base off len _, VInt z => n <- z_nat z ;; if n <? len then Some (TPath (elem_path base off n)) else None
      | _, _ => None
      end
  | LFld b f =>
      t <- g_lv h e b ;;
      match t with TPath p => Some (TPath (sub p f)) | _ => None end
  | LDeref b =>
      bv <- g_rv h e b ;;
      match bv with VPtr p => Some (TPath p) | _ => None end
  | LMap m k =>
      mv <- g_rv h e m ;; kv <- g_rv h e k ;;
      match mv, kv with VMap l, VInt z => Some (TMap l z) | _, _ => None end
  end
with g_rv (h : heap) (e : env) (x : rv) {struct x} : option val :=
  match x with
  | RInt z => Some (VInt z)
  | RNil => Some VNil
  | RLoad l => t <- g_lv h e l ;; match t with TPath p => read h p | _ => None end
  | RAddr l => t <- g_lv h e l ;; match t with TPath p => Some (VPtr p) | _ => None end
  | RStruct fs => vs <- g_rvs h e fs ;; Some (VStruct vs)
  | RArr es => vs <- g_rvs h e es ;; Some (VArr vs)
  | RAdd a b =>
      av <- g_rv h e a ;; bv <- g_rv h e b ;;
      match av, bv with VInt x, VInt y => Some (VInt (x + y)%Z) | _, _ => None end
  | RLen x =>
      v <- g_rv h e x ;;
      match v with
      | VSlice _ _ len _ => Some (VInt (Z.of_nat len))
      | VMap l => match nth_error h l with Some (CMap kvs) => Some (VInt (Z.of_nat (length kvs))) | _ => None end
      | VNil => Some (VInt 0%Z)
      | _ => None
      end
  | RCap x =>
      v <- g_rv h e x ;;
      match v with VSlice _ _ _ cap => Some (VInt (Z.of_nat cap)) | VNil => Some (VInt 0%Z) | _ => None end
  | RSlice b lo hi mx =>
      bv <- g_rv h e b ;;
      sv <- slice_of h bv ;;
      let '(base, off, len, cap) := sv in
      lo' <- g_orv h e lo 0 ;; hi' <- g_orv h e hi len ;; mx' <- g_orv h e mx cap ;;
      if (lo' <=? hi') && (hi' <=? mx') && (mx' <=? cap)
      then Some (VSlice base (off + lo') (hi' - lo') (mx' - lo')) else None
  | RMapGet m k zero =>
      mv <- g_rv h e m ;; kv <- g_rv h e k ;;
      match mv, kv with
      | VMap l, VInt z =>
          match nth_error h l with
          | Some (CMap kvs) => Some (match map_get kvs z with Some v => v | None => zero end)
          | _ => None
          end
      | VNil, VInt _ => Some zero
      | _, _ => None
      end
  | RBox tag x => v <- g_rv h e x ;; Some (VBox tag v)
  | RUnbox tag x =>
      v <- g_rv h e x ;;
      match v with VBox tag' w => if Nat.eqb tag tag' then Some w else None | _ => None end
  end
with g_rvs (h : heap) (e : env) (xs : rvs) {struct xs} : option (list val) :=
  match xs with
  | RNone => Some []
  | RCons x r => v <- g_rv h e x ;; vs <- g_rvs h e r ;; Some (v :: vs)
  end
with g_orv (h : heap) (e : env) (o : orv) (dflt : nat) {struct o} : option nat :=
  match o with
  | ONone => Some dflt
  | OSome x => v <- g_rv h e x ;; match v with VInt z => z_nat z | _ => None end
  end.

Fixpoint g_lvs (h : heap) (e : env) (ls : list lv) {struct ls} : option (list target) :=
  match ls with
  | [] => Some []
  | l :: r => t <- g_lv h e l ;; ts <- g_lvs h e r ;; Some (t :: ts)
  end.



(* ------------------------------------------------------------------ *)
(** * Right-hand sides and statements (G) *)

(** the growth policy of append, [grow : element kind -> old capacity -> needed length -> new capacity],
    is a parameter of both models (both sides call the same Go run-time; the concrete capacities come
    from the compiled run) *)
Definition growth := nat -> nat -> nat -> nat.

(** a slice value as (base, off, len, cap); the nil slice has capacity 0 *)
Definition slice_view (sv : val) : option (path * nat * nat * nat) :=
  match sv with
  | VSlice base off len cap => Some (base, off, len, cap)
  | VNil => Some ((0, []), 0, 0, 0)
  | _ => None
  end.

Definition append_vals (grow : growth) (h : heap) (ek : nat) (zero : val) (sv : val) (vs : list val) : option (val * heap) :=
  match slice_view sv with
  | Some (base, off, len, cap) =>
      let n := length vs in
      if len + n <=? cap then
        h' <- write_elems h base (off + len) vs ;; Some (VSlice base off (len + n) cap, h')
      else
        old <- read_elems h base off len ;;
        let nc := grow ek cap (len + n) in
        let '(l, h') := alloc h (CVal (VArr (old ++ vs ++ repeat zero (nc - (len + n))))) in
        Some (VSlice (l, []) 0 (len + n) (Nat.max nc (len + n)), h')
  | None => None
  end.

Fixpoint zip_kvs (ks vs : list val) : option (list (Z * val)) :=
  match ks, vs with
  | [], [] => Some []
  | VInt k :: kr, v :: vr => r <- zip_kvs kr vr ;; Some (map_set r k v)
  | _, _ => None
  end.

Definition g_rhs (grow : growth) (h : heap) (e : env) (r : rhs) : option (val * heap) :=
  match r with
  | EPure x => v <- g_rv h e x ;; Some (v, h)
  | EAppend ek zero s es => sv <- g_rv h e s ;; vs <- g_rvs h e es ;; append_vals grow h ek zero sv vs
  | EAppendSlice ek zero s t =>
      (* the elements of t are read before anything is written (overlapping operands behave like memmove) *)
      sv <- g_rv h e s ;; tv <- g_rv h e t ;;
      w <- slice_view tv ;;
      let '(tb, toff, tlen, _) := w in
      vs <- read_elems h tb toff tlen ;;
      append_vals grow h ek zero sv vs
  | ESliceLit es =>
      vs <- g_rvs h e es ;;
      let '(l, h') := alloc h (CVal (VArr vs)) in Some (VSlice (l, []) 0 (length vs) (length vs), h')
  | ENew x => v <- g_rv h e x ;; let '(l, h') := alloc h (CVal v) in Some (VPtr (l, []), h')
  | EMake zero n c =>
      nv <- g_rv h e n ;; cv <- g_rv h e c ;;
      match nv, cv with
      | VInt nz, VInt cz =>
          n' <- z_nat nz ;; c' <- z_nat cz ;;
          if n' <=? c' then
            let '(l, h') := alloc h (CVal (VArr (repeat zero c'))) in Some (VSlice (l, []) 0 n' c', h')
          else None
      | _, _ => None
      end
  | EMapLit ks vs =>
      kv <- g_rvs h e ks ;; vv <- g_rvs h e vs ;; kvs <- zip_kvs kv vv ;;
      let '(l, h') := alloc h (CMap kvs) in Some (VMap l, h')
  end.

Fixpoint store_all (h : heap) (ts : list target) (vs : list val) : option heap :=
  match ts, vs with
  | [], [] => Some h
  | t :: tr, v :: vr => h' <- store h t v ;; store_all h' tr vr
  | _, _ => None
  end.

(** fresh variables, one cell each *)
Fixpoint bind_vars (h : heap) (e : env) (xs : list var) (vs : list val) : option (heap * env) :=
  match xs, vs with
  | [], [] => Some (h, e)
  | x :: xr, v :: vr => let '(l, h') := alloc h (CVal v) in bind_vars h' ((x, l) :: e) xr vr
  | _, _ => None
  end.

Definition copy_vals (h : heap) (d s : val) : option heap :=
  dv <- slice_of h d ;; sv <- slice_of h s ;;
  let '(db, doff, dlen, _) := dv in
  let '(sb, soff, slen, _) := sv in
  let n := Nat.min dlen slen in
  vs <- read_elems h sb soff n ;; write_elems h db doff vs.

(* ---------------- observation: mirrors the dump closure of the generated programs --------- *)

Inductive ty :=
| TInt
| TStruct (ts : list ty)
| TArr (n : nat) (t : ty)
| TSlice (t : ty)
| TMapT (t : ty)       (* keys k0..k3 *)
| TAny                 (* interface{}: 0 nil, else 1 + dynamic type tag and a shallow print of the boxed value *)
| TPtrS                (* *S: identity class and the N, A of the target *)
| TPtrA.               (* *[3]S: identity class and the N of the three elements *)

Fixpoint sels_eqb (a b : list nat) : bool :=
  match a, b with
  | [], [] => true
  | x :: a', y :: b' => Nat.eqb x y && sels_eqb a' b'
  | _, _ => false
  end.

Definition path_eqb (p q : path) : bool := Nat.eqb (fst p) (fst q) && sels_eqb (snd p) (snd q).

(** identity class of a *S: 0 nil, 1+i = i-th candidate, 99 other *)
Fixpoint class_of (p : path) (cands : list path) (i : nat) : Z :=
  match cands with
  | [] => 99%Z
  | c :: r => if path_eqb p c then Z.of_nat i else class_of p r (S i)
  end.

Definition int_at (h : heap) (p : path) : Z :=
  match read h p with Some (VInt z) => z | _ => (-1)%Z end.

Section Show.
Variable h : heap.
Variable cands : list path.    (* &a[0] &a[1] &a[2] &s &sl[0] ... *)
Variable acand : option path.  (* &a *)

Definition show_ptrS (v : val) : list Z :=
  match v with
  | VNil => [0%Z]
  | VPtr p => [class_of p cands 1; int_at h (sub p 0); int_at h (sub (sub p 1) 0); int_at h (sub (sub p 1) 1)]
  | _ => [(-7)%Z]
  end.

Definition show_int (v : val) : Z := match v with VInt z => z | _ => (-7)%Z end.

(** a boxed value: tags 0 int, 1 string key, 2 S (N and A only), 3 *S, 4 []int *)
Definition show_any (v : val) : list Z :=
  match v with
  | VNil => [0%Z]
  | VBox 0 x => [1%Z; show_int x]
  | VBox 1 x => [2%Z; show_int x]
  | VBox 2 (VStruct (n :: VArr [a0; a1] :: _)) => [3%Z; show_int n; show_int a0; show_int a1]
  | VBox 3 x => 4%Z :: show_ptrS x
  | VBox 4 (VSlice base off len cap) =>
      5%Z :: Z.of_nat len :: Z.of_nat cap ::
      match read_elems h base off len with Some es => map show_int es | None => [(-7)%Z] end
  | VBox 4 VNil => [5%Z; 0%Z; 0%Z]
  | _ => [(-7)%Z]
  end.

Fixpoint show (t : ty) (v : val) {struct t} : list Z :=
  match t with
  | TAny => show_any v
  | TInt => match v with VInt z => [z] | _ => [(-7)%Z] end
  | TStruct ts =>
      match v with
      | VStruct fs =>
          (fix go (ts : list ty) (fs : list val) : list Z :=
             match ts, fs with
             | t' :: tr, f :: fr => show t' f ++ go tr fr
             | _, _ => []
             end) ts fs
      | _ => [(-7)%Z]
      end
  | TArr n t' =>
      match v with
      | VArr es => flat_map (show t') es
      | _ => [(-7)%Z]
      end
  | TSlice t' =>
      match v with
      | VSlice base off len cap =>
          Z.of_nat len :: Z.of_nat cap ::
          match read_elems h base off len with Some es => flat_map (show t') es | None => [(-7)%Z] end
      | VNil => [0%Z; 0%Z]
      | _ => [(-7)%Z]
      end
  | TMapT t' =>
      match v with
      | VNil => [1%Z]
      | VMap l =>
          match nth_error h l with
          | Some (CMap kvs) =>
              0%Z :: flat_map (fun k => match map_get kvs k with Some x => 1%Z :: show t' x | None => [0%Z] end)
                              [0%Z; 1%Z; 2%Z; 3%Z]
          | _ => [(-7)%Z]
          end
      | _ => [(-7)%Z]
      end
  | TPtrS => show_ptrS v
  | TPtrA =>
      match v with
      | VNil => [0%Z]
      | VPtr p => [match acand with Some a => if path_eqb p a then 1%Z else 2%Z | None => 2%Z end;
                   int_at h (sub (sub p 0) 0); int_at h (sub (sub p 1) 0); int_at h (sub (sub p 2) 0)]
      | _ => [(-7)%Z]
      end
  end.
End Show.

Definition tS : ty := TStruct [TInt; TArr 2 TInt; TSlice TInt; TMapT TInt; TPtrS; TAny].

(** the pool: variable ids and types, in dump order *)
Definition pool_types : list (var * ty) :=
  [(0, TArr 3 tS); (1, tS); (2, TSlice tS); (3, TSlice (TSlice TInt)); (4, TMapT tS);
   (5, TPtrS); (6, TPtrA); (7, TArr 4 TInt); (8, TSlice TInt); (9, TInt); (10, TInt); (11, TInt);
   (12, TArr 3 TAny); (13, TSlice TAny); (14, TMapT TAny); (15, TAny)].

Definition var_path (e : env) (x : var) : option path :=
  match lookup e x with Some l => Some (l, []) | None => None end.

Definition opt_list {A} (o : option A) : list A := match o with Some x => [x] | None => [] end.

(** candidates for pointer identity: &a[0..2], &s, &sl[i] for i < len(sl) (at most 6) *)
Definition cands_of (s : st) : list path :=
  let pa := var_path (en s) 0 in
  let ps := var_path (en s) 1 in
  let slp := match var_path (en s) 2 with
             | Some p => match read (hp s) p with
                         | Some (VSlice base off len _) => map (fun i => elem_path base off i) (seq 0 (Nat.min len 6))
                         | _ => []
                         end
             | None => []
             end in
  match pa, ps with
  | Some a, Some s' => [sub a 0; sub a 1; sub a 2; s'] ++ slp
  | _, _ => []
  end.

Definition observe (s : st) : list Z :=
  let cs := cands_of s in
  let ac := var_path (en s) 0 in
  flat_map (fun '(x, t) =>
              match var_path (en s) x with
              | Some p => match read (hp s) p with Some v => show (hp s) cs ac t v | None => [(-8)%Z] end
              | None => [(-9)%Z]
              end) pool_types.

(* ---------------- statements --------------- *)

Definition out := list (list Z).

(** result of running: the dumps printed so far and the final state, [None] after a run-time panic *)
Definition res := (out * option st)%type.

Definition seq_res (r1 : res) (k : st -> res) : res :=
  match r1 with
  | (d1, Some s1) => let '(d2, s2) := k s1 in (d1 ++ d2, s2)
  | (d1, None) => (d1, None)
  end.

Definition ret_st (o : option st) : res := ([], o).

(** leaving a block: the variables declared since the block was entered go out of scope *)
Definition leave_scope (inner : env) (outer_len : nat) : env := skipn (length inner - outer_len) inner.

Definition range_len (h : heap) (rk : rkind) (v : val) : option nat :=
  match rk, v with
  | RkArr, VArr es => Some (length es)
  | RkSlice, VSlice _ _ len _ => Some len
  | RkSlice, VNil => Some 0
  | RkPtr, VPtr p => match read h p with Some (VArr es) => Some (length es) | _ => None end
  | _, _ => None
  end.

(** the element seen by iteration [i]: the snapshot for an array, the live backing array for a
    slice, the live array for a pointer to an array *)
Definition range_elem (h : heap) (rk : rkind) (v : val) (i : nat) : option val :=
  match rk, v with
  | RkArr, VArr es => nth_error es i
  | RkSlice, VSlice base off _ _ => read h (elem_path base off i)
  | RkPtr, VPtr p => read h (sub p i)
  | _, _ => None
  end.

(** the iterations of a range loop: fresh key and value variables per iteration (Go 1.22), the
    variables declared by the body go out of scope at the end of each iteration *)
Fixpoint range_iter (run_body : st -> res) (elem : heap -> nat -> option val) (k v : var)
         (cnt i : nat) (s1 : st) {struct cnt} : res :=
  match cnt with
  | O => ([], Some s1)
  | S cnt' =>
      match elem (hp s1) i with
      | None => ([], None)
      | Some ev =>
          match bind_vars (hp s1) (en s1) [k; v] [VInt (Z.of_nat i); ev] with
          | None => ([], None)
          | Some (h2, e2) =>
              seq_res (run_body (mkst h2 e2))
                      (fun s3 => range_iter run_body elem k v cnt' (S i)
                                            (mkst (hp s3) (leave_scope (en s3) (length (en s1)))))
          end
      end
  end.

Fixpoint g_op (grow : growth) (s : st) (o : op) {struct o} : res :=
  match o with
  | OAssign l r =>
      ret_st (t <- g_lv (hp s) (en s) l ;;
              vh <- g_rhs grow (hp s) (en s) r ;;
              h' <- store (snd vh) t (fst vh) ;; Some (mkst h' (en s)))
  | OMulti ls rs =>
      ret_st (ts <- g_lvs (hp s) (en s) ls ;;
              vs <- g_rvs (hp s) (en s) rs ;;
              h' <- store_all (hp s) ts vs ;; Some (mkst h' (en s)))
  | ODefine x r =>
      ret_st (vh <- g_rhs grow (hp s) (en s) r ;;
              let '(l, h') := alloc (snd vh) (CVal (fst vh)) in Some (mkst h' ((x, l) :: en s)))
  | OMapDel m k =>
      ret_st (mv <- g_rv (hp s) (en s) m ;; kv <- g_rv (hp s) (en s) k ;;
              match mv, kv with
              | VMap l, VInt z =>
                  match nth_error (hp s) l with
                  | Some (CMap kvs) => Some (mkst (upd (hp s) l (CMap (map_del kvs z))) (en s))
                  | _ => None
                  end
              | VNil, VInt _ => Some s
              | _, _ => None
              end)
  | OCopy d x =>
      ret_st (dv <- g_rv (hp s) (en s) d ;; xv <- g_rv (hp s) (en s) x ;;
              h' <- copy_vals (hp s) dv xv ;; Some (mkst h' (en s)))
  | ORange k v rk x body =>
      match (xv <- g_rv (hp s) (en s) x ;; n <- range_len (hp s) rk xv ;; Some (xv, n)) with
      | None => ([], None)
      | Some (xv, n) =>
          range_iter (fun s' => g_ops grow s' body) (fun h i => range_elem h rk xv i) k v n 0 s
      end
  | OCall dst ps args body ret =>
      match (t <- match dst with Some l => x <- g_lv (hp s) (en s) l ;; Some (Some x) | None => Some None end ;;
             vs <- g_rvs (hp s) (en s) args ;;
             he <- bind_vars (hp s) [] ps vs ;; Some (t, he)) with
      | None => ([], None)
      | Some (t, (h1, e1)) =>
          seq_res (g_ops grow (mkst h1 e1) body)
                  (fun s2 =>
                     ret_st (match t, ret with
                             | Some t', OSome r => v <- g_rv (hp s2) (en s2) r ;; h' <- store (hp s2) t' v ;; Some (mkst h' (en s))
                             | None, _ => Some (mkst (hp s2) (en s))
                             | Some _, ONone => None
                             end))
      end
  | ODump => ([observe s], Some s)
  end
with g_ops (grow : growth) (s : st) (os : ops) {struct os} : res :=
  match os with
  | ONil => ([], Some s)
  | OCons o r => seq_res (g_op grow s o) (fun s1 => g_ops grow s1 r)
  end.

