#!/bin/sh
# regenerates the Makefile from the .v files present (generated tables included) and builds the given targets
cd "$(dirname "$0")" || exit 2
{ cat _CoqProject; find . -name '*.v' -not -path './cases/*' | sed 's|^\./||' | sort; } > _CoqProject.all
coq_makefile -f _CoqProject.all -o Makefile >/dev/null 2>&1 || exit 2
exec timeout ${VERIF_MAKE_TIMEOUT:-1500} make -j16 "$@"
