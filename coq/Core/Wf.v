(** C01 — the side conditions of the proved fragment (decidable predicates on MiniGo programs). *)
From Verif Require Import Core.Syntax Core.Cfg.

(** [na X s]: statement [s] contains no assignment ([=], [op=], [++], [--]) to a variable whose name
    satisfies [X] (declarations [x := e] make a new variable and do not count). *)
Fixpoint na (X : ident -> bool) (s : stmt) {struct s} : bool :=
  let na_opt (o : option stmt) := match o with Some s => na X s | None => true end in
  match s with
  | SAssign x _ | SOpAssign _ x _ | SIncDec _ x => negb (X x)
  | SDefine _ _ | SPrint _ | SBreak | SContinue => true
  | SBlock b => forallb (na X) b
  | SIf init _ t e => na_opt init && forallb (na X) t && match e with Some l => forallb (na X) l | None => true end
  | SFor init _ post body => na_opt init && na_opt post && forallb (na X) body
  | SSwitch init _ cls => na_opt init && forallb (na X) cls
  | SCase _ body _ => forallb (na X) body
  end.

Definition na_opt (X : ident -> bool) (o : option stmt) : bool :=
  match o with Some s => na X s | None => true end.

(** Simple statements (the init / post statements Go allows). *)
Definition is_simple (s : stmt) : bool :=
  match s with
  | SAssign _ _ | SDefine _ _ | SOpAssign _ _ _ | SIncDec _ _ | SPrint _ => true
  | _ => false
  end.

Definition simple_opt (o : option stmt) : bool :=
  match o with Some s => is_simple s | None => true end.

(** Case clauses of the proved region: with a tag, only the first expression of a clause may be an
    operator expression; without a tag a clause has one condition (negation of switch-case-list). *)
Definition ce_ok (tagged : bool) (ce : cexprs) : bool :=
  match ce with
  | CDefault => true
  | CInts (_ :: rest) => tagged && forallb is_leaf rest
  | CBools [_] => negb tagged
  | _ => false
  end.

Definition is_default (c : stmt) : bool := match c with SCase CDefault _ _ => true | _ => false end.

Definition is_empty_default (c : stmt) : bool := match c with SCase CDefault [] false => true | _ => false end.

(** The clause list: only case clauses, a default clause only in last position (negation of
    switch-default-order); fallthrough not in the last clause (Go rejects it) and, without a tag, not
    into an empty default clause (yaegi crashes while compiling such a switch). *)
Fixpoint shape_ok (tagged : bool) (cls : list stmt) : bool :=
  match cls with
  | [] => true
  | c :: rest =>
      match c with
      | SCase ce _ ft =>
          ce_ok tagged ce
          && (negb ft || match rest with c' :: _ => tagged || negb (is_empty_default c') | [] => false end)
          && (match rest with [] => true | _ => negb (is_default c) end) && shape_ok tagged rest
      | _ => false
      end
  end.

(** The region where the theorem holds; each clause is the negation of a known-finding region:
    - not [for init; ; {}]                                   (for-init-only)
    - a 3-clause for has a non-empty body                     (loop-empty-body)
    - the body of [for x := ...; cond; post] does not assign x (loopvar-assign)
    and init / post statements are simple statements (post not a declaration), as in Go. *)
Fixpoint wf (s : stmt) {struct s} : bool :=
  let wf_opt (o : option stmt) := match o with Some s => wf s | None => true end in
  match s with
  | SBlock b => forallb wf b
  | SIf init _ t e =>
      simple_opt init && wf_opt init && forallb wf t && match e with Some l => forallb wf l | None => true end
  | SFor init c post body =>
      simple_opt init && simple_opt post && wf_opt init && wf_opt post && forallb wf body
      && negb (match post with Some (SDefine _ _) => true | _ => false end)
      && negb (is_some init && negb (is_some c) && negb (is_some post))
      && (negb (has_lv init c post) || negb (match body with [] => true | _ => false end))
      && match loopvar_of init c post with Some x => forallb (na (Nat.eqb x)) body | None => true end
  | SSwitch init tag cls =>
      (* at least one clause (switch-empty); after an init statement the tag is a variable or a literal
         (switch-init-tag); a case clause occurs nowhere else *)
      simple_opt init && wf_opt init
      && match init, tag with Some _, Some t => is_leaf t | _, _ => true end
      && match cls with [] => false | _ => true end
      && shape_ok (is_some tag) cls
      && forallb (fun c => match c with SCase _ body _ => forallb wf body | _ => false end) cls
  | SCase _ _ _ => false
  | _ => true
  end.

Definition wf_program (p : program) : bool := forallb wf p.
