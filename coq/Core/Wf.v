(** C01 — the side conditions of the proved fragment (decidable predicates on MiniGo programs). *)
From Verif Require Import Core.Syntax Core.Cfg.

(** [na X s]: statement [s] contains no assignment ([=], [op=], [++], [--]) to a variable whose name
    satisfies [X] (declarations [x := e] make a new variable and do not count). *)
Fixpoint na (X : ident -> bool) (s : stmt) {struct s} : bool :=
  let na_opt (o : option stmt) := match o with Some s => na X s | None => true end in
  match s with
  | SAssign x _ | SOpAssign _ x _ | SIncDec _ x => negb (X x)
  | SDefine _ _ | SPrint _ | SBreak | SContinue => true
  | SBlock b => forallb (na X) b
  | SIf init _ t e => na_opt init && forallb (na X) t && match e with Some l => forallb (na X) l | None => true end
  | SFor init _ post body => na_opt init && na_opt post && forallb (na X) body
  | SSwitch init _ cls => na_opt init && forallb (na X) cls
  | SCase _ body _ => forallb (na X) body
  end.

Definition na_opt (X : ident -> bool) (o : option stmt) : bool :=
  match o with Some s => na X s | None => true end.

(** Simple statements (the init / post statements Go allows). *)
Definition is_simple (s : stmt) : bool :=
  match s with
  | SAssign _ _ | SDefine _ _ | SOpAssign _ _ _ | SIncDec _ _ | SPrint _ => true
  | _ => false
  end.

Definition simple_opt (o : option stmt) : bool :=
  match o with Some s => is_simple s | None => true end.

(** The region where the theorem holds; each clause is the negation of a known-finding region:
    - not [for init; ; {}]                                   (for-init-only)
    - a 3-clause for has a non-empty body                     (loop-empty-body)
    - the body of [for x := ...; cond; post] does not assign x (loopvar-assign)
    and init / post statements are simple statements (post not a declaration), as in Go. *)
Fixpoint wf (s : stmt) {struct s} : bool :=
  let wf_opt (o : option stmt) := match o with Some s => wf s | None => true end in
  match s with
  | SBlock b => forallb wf b
  | SIf init _ t e =>
      simple_opt init && wf_opt init && forallb wf t && match e with Some l => forallb wf l | None => true end
  | SFor init c post body =>
      simple_opt init && simple_opt post && wf_opt init && wf_opt post && forallb wf body
      && negb (match post with Some (SDefine _ _) => true | _ => false end)
      && negb (is_some init && negb (is_some c) && negb (is_some post))
      && (negb (has_lv init c post) || negb (match body with [] => true | _ => false end))
      && match loopvar_of init c post with Some x => forallb (na (Nat.eqb x)) body | None => true end
  | SSwitch _ _ _ | SCase _ _ _ => false
  | _ => true
  end.

Definition wf_program (p : program) : bool := forallb wf p.
