(** C01 — basic lemmas: the reachability relation of the machine, frames, agreement between the
    environment of G and the (scope, frame) of Y, monotonicity of slot allocation. *)
From Verif Require Import Core.Syntax Core.GoSem Core.Cfg.
Local Open Scope nat_scope.

(* ------------------------------------------------------------------ induction principle for statements *)

Definition OptP (P : stmt -> Prop) (o : option stmt) : Prop :=
  match o with Some s => P s | None => True end.
Definition OptL (P : stmt -> Prop) (o : option (list stmt)) : Prop :=
  match o with Some l => Forall P l | None => True end.

Section stmt_ind2.
  Variable P : stmt -> Prop.
  Hypothesis HAssign : forall x e, P (SAssign x e).
  Hypothesis HDefine : forall x e, P (SDefine x e).
  Hypothesis HOpAssign : forall op x e, P (SOpAssign op x e).
  Hypothesis HIncDec : forall i x, P (SIncDec i x).
  Hypothesis HPrint : forall e, P (SPrint e).
  Hypothesis HBlock : forall b, Forall P b -> P (SBlock b).
  Hypothesis HIf : forall init c t e, OptP P init -> Forall P t -> OptL P e -> P (SIf init c t e).
  Hypothesis HFor : forall init c post body, OptP P init -> OptP P post -> Forall P body -> P (SFor init c post body).
  Hypothesis HBreak : P SBreak.
  Hypothesis HContinue : P SContinue.
  Hypothesis HSwitch : forall init tag cls, OptP P init -> Forall P cls -> P (SSwitch init tag cls).
  Hypothesis HCase : forall ce body ft, Forall P body -> P (SCase ce body ft).

  Fixpoint stmt_ind2 (s : stmt) : P s :=
    let list_ind2 := fix go (l : list stmt) : Forall P l :=
      match l with [] => Forall_nil P | s :: l' => Forall_cons s (stmt_ind2 s) (go l') end in
    let opt_ind2 := fun (o : option stmt) =>
      match o return OptP P o with Some s0 => stmt_ind2 s0 | None => I end in
    match s with
    | SAssign x e => HAssign x e
    | SDefine x e => HDefine x e
    | SOpAssign op x e => HOpAssign op x e
    | SIncDec i x => HIncDec i x
    | SPrint e => HPrint e
    | SBlock b => HBlock b (list_ind2 b)
    | SIf init c t e =>
        HIf init c t e (opt_ind2 init) (list_ind2 t)
          (match e return OptL P e with Some l0 => list_ind2 l0 | None => I end)
    | SFor init c post body => HFor init c post body (opt_ind2 init) (opt_ind2 post) (list_ind2 body)
    | SBreak => HBreak
    | SContinue => HContinue
    | SSwitch init tag cls => HSwitch init tag cls (opt_ind2 init) (list_ind2 cls)
    | SCase ce body ft => HCase ce body ft (list_ind2 body)
    end.
End stmt_ind2.

(* ------------------------------------------------------------------ reachability *)

Inductive reach (g : cfg) : option path -> frame -> list Z -> mres -> Prop :=
| reach_refl n fr out : reach g n fr out (MRun n fr out)
| reach_step p fr out n' fr' out' r :
    step g p fr out = MRun n' fr' out' -> reach g n' fr' out' r -> reach g (Some p) fr out r
| reach_panic p fr out out' :
    step g p fr out = MPanic out' -> reach g (Some p) fr out (MPanic out').

Lemma reach_trans g n fr out n1 fr1 out1 r :
  reach g n fr out (MRun n1 fr1 out1) -> reach g n1 fr1 out1 r -> reach g n fr out r.
Proof.
  intros H. remember (MRun n1 fr1 out1) as m eqn:Hm. revert Hm.
  induction H; intros Hm H2.
  - inversion Hm; subst; exact H2.
  - eapply reach_step; eauto.
  - discriminate.
Qed.

Lemma reach_one g p fr out n' fr' out' :
  step g p fr out = MRun n' fr' out' -> reach g (Some p) fr out (MRun n' fr' out').
Proof. intros H. eapply reach_step; [exact H | apply reach_refl]. Qed.

(** Reaching the end of the function, or a panic, is a terminating run. *)
Lemma reach_run_end g n fr out fr' out' :
  reach g n fr out (MRun None fr' out') -> exists m, run_from m g n fr out = Done out' false.
Proof.
  intros H. remember (MRun None fr' out') as r eqn:Hr. revert Hr.
  induction H; intros Hr.
  - inversion Hr; subst. exists 0. reflexivity.
  - destruct (IHreach Hr) as [m Hm]. exists (S m). simpl. rewrite H. exact Hm.
  - discriminate.
Qed.

Lemma reach_run_panic g n fr out out' :
  reach g n fr out (MPanic out') -> exists m, run_from m g n fr out = Done out' true.
Proof.
  intros H. remember (MPanic out') as r eqn:Hr. revert Hr.
  induction H; intros Hr.
  - discriminate.
  - destruct (IHreach Hr) as [m Hm]. exists (S m). simpl. rewrite H. exact Hm.
  - inversion Hr; subst. exists 1. simpl. rewrite H. reflexivity.
Qed.

(* ------------------------------------------------------------------ frames *)

Lemma set_same fr i v : set fr i v i = v.
Proof. unfold set. rewrite Nat.eqb_refl. reflexivity. Qed.

Lemma set_other fr i v j : j <> i -> set fr i v j = fr j.
Proof. intros H. unfold set. destruct (Nat.eqb_spec j i); congruence. Qed.

Lemma geti_set_same fr i z : geti (set fr i (VI z)) i = z.
Proof. unfold geti. rewrite set_same. reflexivity. Qed.

Lemma geti_set_other fr i v j : j <> i -> geti (set fr i v) j = geti fr j.
Proof. intros H. unfold geti. rewrite set_other by exact H. reflexivity. Qed.

Lemma getb_set_same fr i b : getb (set fr i (VB b)) i = b.
Proof. unfold getb. rewrite set_same. reflexivity. Qed.

Lemma getb_set_other fr i v j : j <> i -> getb (set fr i v) j = getb fr j.
Proof. intros H. unfold getb. rewrite set_other by exact H. reflexivity. Qed.

(* ------------------------------------------------------------------ agreement of G's environment with Y's scope and frame *)

Definition agree (E : env) (sc : scope) (fr : frame) : Prop :=
  Forall2 (fun a b => fst a = fst b /\ fr (snd b) = VI (snd a)) E sc.

Definition bounded (sc : scope) (nx : nat) : Prop := forall i, In i (map snd sc) -> i < nx.

Definition visible (i : nat) (sc : scope) : Prop := exists x, slot_of x sc = Some i.

(** Slots below [nx] that no visible name denotes keep their value. *)
Definition preserved (fr fr' : frame) (sc : scope) (nx : nat) : Prop :=
  forall i, i < nx -> ~ visible i sc -> fr' i = fr i.

Lemma Forall2_length {A B} (R : A -> B -> Prop) l1 l2 : Forall2 R l1 l2 -> length l1 = length l2.
Proof. induction 1; simpl; congruence. Qed.

Lemma agree_length E sc fr : agree E sc fr -> length E = length sc.
Proof. apply Forall2_length. Qed.

Lemma slot_of_In x sc i : slot_of x sc = Some i -> In i (map snd sc).
Proof.
  induction sc as [|[y j] sc IH]; simpl; [discriminate|].
  destruct (Nat.eqb x y); intros H; [inversion H; auto | auto].
Qed.

Lemma agree_lookup E sc fr x :
  agree E sc fr ->
  match slot_of x sc with
  | Some i => exists v, lookup x E = Some v /\ fr i = VI v
  | None => lookup x E = None
  end.
Proof.
  induction 1 as [|[y v] [z i] E sc [Hn Hv] H IH]; simpl in *; [reflexivity|].
  subst z. destruct (Nat.eqb x y); [eauto | exact IH].
Qed.

Lemma agree_get E sc fr x i : agree E sc fr -> slot_of x sc = Some i -> geti fr i = get x E.
Proof.
  intros H Hs. pose proof (agree_lookup E sc fr x H) as L. rewrite Hs in L.
  destruct L as [v [Hl Hf]]. unfold get, geti. rewrite Hl, Hf. reflexivity.
Qed.

Lemma agree_get_none E sc fr x : agree E sc fr -> slot_of x sc = None -> get x E = 0%Z.
Proof.
  intros H Hs. pose proof (agree_lookup E sc fr x H) as L. rewrite Hs in L.
  unfold get. rewrite L. reflexivity.
Qed.

Lemma agree_update_none E sc fr x v : agree E sc fr -> slot_of x sc = None -> update x v E = E.
Proof.
  induction 1 as [|[y w] [z i] E sc [Hn Hv] H IH]; simpl in *; [reflexivity|].
  subst z. destruct (Nat.eqb x y); [discriminate|]. intros Hs. rewrite IH by exact Hs. reflexivity.
Qed.

(** A frame that coincides on the slots of the scope agrees as well. *)
Lemma agree_frame E sc fr fr' :
  agree E sc fr -> (forall i, In i (map snd sc) -> fr' i = fr i) -> agree E sc fr'.
Proof.
  induction 1 as [|[y w] [z i] E sc [Hn Hv] H IH]; intros Hf; constructor.
  - split; [exact Hn|]. simpl in *. rewrite Hf by auto. exact Hv.
  - apply IH. intros j Hj. apply Hf. simpl. auto.
Qed.

Lemma agree_update E sc fr x v d :
  agree E sc fr -> NoDup (map snd sc) -> slot_of x sc = Some d ->
  agree (update x v E) sc (set fr d (VI v)).
Proof.
  induction 1 as [|[y w] [z i] E sc [Hn Hv] H IH]; simpl; intros Hnd Hs; [discriminate|].
  simpl in Hn. subst z. inversion Hnd as [|? ? Hni Hnd']; subst.
  destruct (Nat.eqb x y) eqn:Exy.
  - inversion Hs; subst d. constructor.
    + simpl. split; [reflexivity | apply set_same].
    + eapply agree_frame; [exact H|]. intros j Hj. apply set_other. intros ->. contradiction.
  - constructor.
    + simpl. split; [reflexivity|]. rewrite set_other; [exact Hv|].
      intros ->. apply Hni. eapply slot_of_In; eauto.
    + apply IH; assumption.
Qed.

Lemma agree_app_inv E1 E2 sc1 sc2 fr :
  agree (E1 ++ E2) (sc1 ++ sc2) fr -> length E2 = length sc2 -> agree E1 sc1 fr /\ agree E2 sc2 fr.
Proof.
  intros H L. unfold agree in *.
  assert (length E1 = length sc1).
  { apply Forall2_length in H. rewrite !app_length in H. lia. }
  revert sc1 H H0. induction E1 as [|a E1 IH]; intros [|b sc1] H H0; simpl in *; try discriminate.
  - split; [constructor | exact H].
  - inversion H; subst. destruct (IH sc1 H6) as [A B]; [lia|]. split; [constructor; assumption | exact B].
Qed.

Lemma bounded_mono sc nx nx' : bounded sc nx -> nx <= nx' -> bounded sc nx'.
Proof. intros H L i Hi. specialize (H i Hi). lia. Qed.

Lemma visible_In i sc : visible i sc -> In i (map snd sc).
Proof. intros [x H]. eapply slot_of_In; eauto. Qed.

Lemma preserved_refl fr sc nx : preserved fr fr sc nx.
Proof. intros i _ _. reflexivity. Qed.

Lemma preserved_trans fr fr1 fr2 sc nx :
  preserved fr fr1 sc nx -> preserved fr1 fr2 sc nx -> preserved fr fr2 sc nx.
Proof. intros A B i Hi Hv. rewrite B, A by assumption. reflexivity. Qed.

(* ------------------------------------------------------------------ slot allocation *)

Lemma dest_mono dst n : n <= snd (dest dst n).
Proof. destruct dst; simpl; lia. Qed.

Lemma aalloc_mono e : forall sc nx dst, nx <= snd (aalloc e sc nx dst).
Proof.
  induction e; intros sc nx dst; simpl; try lia.
  - specialize (IHe sc nx None). destruct (aalloc e sc nx None) as [o n1]. simpl in *.
    pose proof (dest_mono dst n1). destruct (dest dst n1). simpl in *. lia.
  - specialize (IHe1 sc nx None). destruct (aalloc e1 sc nx None) as [o1 n1]. simpl in *.
    specialize (IHe2 sc n1 None). destruct (aalloc e2 sc n1 None) as [o2 n2]. simpl in *.
    pose proof (dest_mono dst n2). destruct (dest dst n2). simpl in *. lia.
Qed.

(** The value of a non-leaf expression lives in the forced destination, or in a fresh slot. *)
Lemma aalloc_slot e sc nx dst :
  is_leaf e = false ->
  exists d, fst (aalloc e sc nx dst) = OSlot d /\
            match dst with Some d' => d = d' | None => nx <= d < snd (aalloc e sc nx dst) end.
Proof.
  destruct e; simpl; try discriminate; intros _.
  - pose proof (aalloc_mono e sc nx None). destruct (aalloc e sc nx None) as [o n1]. simpl in *.
    destruct dst; simpl; eexists; split; try reflexivity; simpl; lia.
  - pose proof (aalloc_mono e1 sc nx None). destruct (aalloc e1 sc nx None) as [o1 n1]. simpl in *.
    pose proof (aalloc_mono e2 sc n1 None). destruct (aalloc e2 sc n1 None) as [o2 n2]. simpl in *.
    destruct dst; simpl; eexists; split; try reflexivity; simpl; lia.
Qed.

Lemma balloc_mono e : forall sc nx, nx <= snd (balloc e sc nx).
Proof.
  induction e; intros sc nx; simpl; try lia.
  - pose proof (aalloc_mono a sc nx None). destruct (aalloc a sc nx None) as [o1 n1]. simpl in *.
    pose proof (aalloc_mono b sc n1 None). destruct (aalloc b sc n1 None) as [o2 n2]. simpl in *. lia.
  - specialize (IHe sc nx). destruct (balloc e sc nx). simpl in *. lia.
  - specialize (IHe1 sc nx). destruct (balloc e1 sc nx) as [o1 n1]. simpl in *.
    specialize (IHe2 sc n1). destruct (balloc e2 sc n1). simpl in *. lia.
  - specialize (IHe1 sc nx). destruct (balloc e1 sc nx) as [o1 n1]. simpl in *.
    specialize (IHe2 sc n1). destruct (balloc e2 sc n1). simpl in *. lia.
Qed.

Lemma balloc_slot e sc nx :
  is_blit e = false ->
  exists d, fst (balloc e sc nx) = BSlot d /\ nx <= d < snd (balloc e sc nx).
Proof.
  destruct e; simpl; try discriminate; intros _.
  - pose proof (aalloc_mono a sc nx None). destruct (aalloc a sc nx None) as [o1 n1]. simpl in *.
    pose proof (aalloc_mono b sc n1 None). destruct (aalloc b sc n1 None) as [o2 n2]. simpl in *.
    eexists; split; [reflexivity|]. lia.
  - pose proof (balloc_mono e sc nx). destruct (balloc e sc nx). simpl in *. eexists; split; [reflexivity|]. lia.
  - pose proof (balloc_mono e1 sc nx). destruct (balloc e1 sc nx) as [o1 n1]. simpl in *.
    pose proof (balloc_mono e2 sc n1). destruct (balloc e2 sc n1). simpl in *. eexists; split; [reflexivity|]. lia.
  - pose proof (balloc_mono e1 sc nx). destruct (balloc e1 sc nx) as [o1 n1]. simpl in *.
    pose proof (balloc_mono e2 sc n1). destruct (balloc e2 sc n1). simpl in *. eexists; split; [reflexivity|]. lia.
Qed.

(** Equations of [salloc] in terms of the top-level helpers. *)
Lemma salloc_list_inner l : forall sc nx,
  (fix go (l : list stmt) (sc : scope) (nx : nat) {struct l} : scope * nat :=
     match l with [] => (sc, nx) | s :: l' => let '(sc1, n1) := salloc s sc nx in go l' sc1 n1 end) l sc nx
  = salloc_list l sc nx.
Proof. induction l as [|s l IH]; intros sc nx; simpl; [reflexivity|]. destruct (salloc s sc nx). apply IH. Qed.

Lemma salloc_block b sc nx : salloc (SBlock b) sc nx = (sc, snd (salloc_list b sc nx)).
Proof. simpl. rewrite salloc_list_inner. reflexivity. Qed.

Lemma salloc_if init c t e sc nx :
  salloc (SIf init c t e) sc nx =
  let '(sc1, n1) := salloc_opt init sc nx in
  let n2 := snd (balloc c sc1 n1) in
  let n3 := snd (salloc_list t sc1 n2) in
  let n4 := match e with None => n3 | Some e => snd (salloc_list e sc1 n3) end in
  (sc, n4).
Proof.
  simpl. unfold salloc_opt. destruct init as [s0|]; [destruct (salloc s0 sc nx) as [sc1 n1]|];
    rewrite ?salloc_list_inner; destruct e; rewrite ?salloc_list_inner; reflexivity.
Qed.

Lemma salloc_for init c post body sc nx :
  salloc (SFor init c post body) sc nx =
  let '(sc1, n1) := salloc_opt init sc nx in
  let n2 := match c with None => n1 | Some c => snd (balloc c sc1 n1) end in
  let n3 := snd (salloc_opt post sc1 n2) in
  match loopvar_of init c post with
  | Some x => (sc, snd (salloc_list body ((x, n3) :: tl sc1) (S n3)))
  | None => (sc, snd (salloc_list body sc1 n3))
  end.
Proof.
  simpl. unfold salloc_opt. destruct init as [s0|]; [destruct (salloc s0 sc nx) as [sc1 n1]|];
    destruct (loopvar_of _ c post); rewrite ?salloc_list_inner; reflexivity.
Qed.

Lemma salloc_switch init tag cls sc nx :
  salloc (SSwitch init tag cls) sc nx =
  let '(sc1, n1) := salloc_opt init sc nx in
  let n2 := match tag with None => n1 | Some t => snd (aalloc t sc1 n1 None) end in
  (sc, snd (salloc_list cls sc1 n2)).
Proof.
  simpl. unfold salloc_opt. destruct init as [s0|]; [destruct (salloc s0 sc nx) as [sc1 n1]|];
    rewrite ?salloc_list_inner; reflexivity.
Qed.

Lemma salloc_case ce body ft sc nx :
  salloc (SCase ce body ft) sc nx = (sc, snd (salloc_list body sc (calloc ce sc nx))).
Proof. simpl. rewrite salloc_list_inner. reflexivity. Qed.

Global Opaque salloc.

(** Scope and counter invariants of a statement: the scope only changes by [x := e]. *)
Definition scope_after (s : stmt) (sc : scope) (nx : nat) : scope :=
  match s with
  | SDefine x e => (x, snd (aalloc e sc nx None)) :: sc
  | _ => sc
  end.

Lemma salloc_simple_eqs :
  (forall x e sc nx, salloc (SAssign x e) sc nx = (sc, snd (aalloc e sc nx (assign_dst x sc)))) /\
  (forall x e sc nx, salloc (SDefine x e) sc nx = ((x, snd (aalloc e sc nx None)) :: sc, S (snd (aalloc e sc nx None)))) /\
  (forall op x e sc nx, salloc (SOpAssign op x e) sc nx = (sc, snd (aalloc e sc nx None))) /\
  (forall i x sc nx, salloc (SIncDec i x) sc nx = (sc, nx)) /\
  (forall e sc nx, salloc (SPrint e) sc nx = (sc, snd (aalloc e sc nx None))) /\
  (forall sc nx, salloc SBreak sc nx = (sc, nx)) /\
  (forall sc nx, salloc SContinue sc nx = (sc, nx)).
Proof. Transparent salloc. repeat split; reflexivity. Opaque salloc. Qed.

Lemma salloc_assign x e sc nx : salloc (SAssign x e) sc nx = (sc, snd (aalloc e sc nx (assign_dst x sc))).
Proof. apply salloc_simple_eqs. Qed.
Lemma salloc_define x e sc nx : salloc (SDefine x e) sc nx = ((x, snd (aalloc e sc nx None)) :: sc, S (snd (aalloc e sc nx None))).
Proof. apply salloc_simple_eqs. Qed.
Lemma salloc_opassign op x e sc nx : salloc (SOpAssign op x e) sc nx = (sc, snd (aalloc e sc nx None)).
Proof. apply salloc_simple_eqs. Qed.
Lemma salloc_incdec i x sc nx : salloc (SIncDec i x) sc nx = (sc, nx).
Proof. apply salloc_simple_eqs. Qed.
Lemma salloc_print e sc nx : salloc (SPrint e) sc nx = (sc, snd (aalloc e sc nx None)).
Proof. apply salloc_simple_eqs. Qed.
Lemma salloc_break sc nx : salloc SBreak sc nx = (sc, nx).
Proof. apply salloc_simple_eqs. Qed.
Lemma salloc_continue sc nx : salloc SContinue sc nx = (sc, nx).
Proof. apply salloc_simple_eqs. Qed.

Lemma salloc_scope s sc nx : fst (salloc s sc nx) = scope_after s sc nx.
Proof.
  destruct s; rewrite ?salloc_assign, ?salloc_define, ?salloc_opassign, ?salloc_incdec, ?salloc_print,
    ?salloc_block, ?salloc_break, ?salloc_continue; try reflexivity.
  - rewrite salloc_if. destruct (salloc_opt init sc nx). reflexivity.
  - rewrite salloc_for. destruct (salloc_opt init sc nx). destruct (loopvar_of init c post); reflexivity.
  - rewrite salloc_switch. destruct (salloc_opt init sc nx). reflexivity.
Qed.

Lemma aalloc_list_mono l : forall sc nx, nx <= snd (aalloc_list l sc nx).
Proof.
  induction l as [|e l IH]; intros sc nx; simpl; [lia|].
  pose proof (aalloc_mono e sc nx None). destruct (aalloc e sc nx None) as [o n1]. simpl in *.
  specialize (IH sc n1). destruct (aalloc_list l sc n1). simpl in *. lia.
Qed.

Lemma balloc_list_mono l : forall sc nx, nx <= balloc_list l sc nx.
Proof.
  induction l as [|e l IH]; intros sc nx; simpl; [lia|].
  pose proof (balloc_mono e sc nx). specialize (IH sc (snd (balloc e sc nx))). lia.
Qed.

Lemma calloc_mono ce sc nx : nx <= calloc ce sc nx.
Proof. destruct ce; simpl; [lia | apply aalloc_list_mono | apply balloc_list_mono]. Qed.

Lemma salloc_list_mono_aux l :
  Forall (fun s => forall sc nx, nx <= snd (salloc s sc nx)) l ->
  forall sc nx, nx <= snd (salloc_list l sc nx).
Proof.
  induction 1 as [|s l Hs Hl IH]; intros sc nx; simpl; [lia|].
  specialize (Hs sc nx). destruct (salloc s sc nx) as [sc1 n1]. simpl in *.
  specialize (IH sc1 n1). lia.
Qed.

Lemma salloc_mono s : forall sc nx, nx <= snd (salloc s sc nx).
Proof.
  induction s using stmt_ind2; intros sc nx;
    rewrite ?salloc_assign, ?salloc_define, ?salloc_opassign, ?salloc_incdec, ?salloc_print,
      ?salloc_block, ?salloc_break, ?salloc_continue; simpl; try lia;
    try (pose proof (aalloc_mono e sc nx None); lia);
    try (pose proof (aalloc_mono e sc nx (assign_dst x sc)); lia).
  - apply salloc_list_mono_aux; assumption.
  - rewrite salloc_if.
    assert (A : nx <= snd (salloc_opt init sc nx)).
    { destruct init; simpl in *; [apply H | lia]. }
    destruct (salloc_opt init sc nx) as [sc1 n1]. simpl in *.
    pose proof (balloc_mono c sc1 n1).
    pose proof (salloc_list_mono_aux t H0 sc1 (snd (balloc c sc1 n1))).
    destruct e as [l|]; simpl in *; [|lia].
    pose proof (salloc_list_mono_aux l H1 sc1 (snd (salloc_list t sc1 (snd (balloc c sc1 n1))))). lia.
  - rewrite salloc_for.
    assert (A : nx <= snd (salloc_opt init sc nx)).
    { destruct init; simpl in *; [apply H | lia]. }
    destruct (salloc_opt init sc nx) as [sc1 n1]. simpl in *.
    assert (B : n1 <= match c with None => n1 | Some c => snd (balloc c sc1 n1) end).
    { destruct c; [apply balloc_mono | lia]. }
    set (n2 := match c with None => n1 | Some c => snd (balloc c sc1 n1) end) in *.
    assert (C : n2 <= snd (salloc_opt post sc1 n2)).
    { destruct post; simpl in *; [apply H0 | lia]. }
    destruct (loopvar_of init c post); simpl.
    + pose proof (salloc_list_mono_aux body H1 ((i, snd (salloc_opt post sc1 n2)) :: tl sc1) (S (snd (salloc_opt post sc1 n2)))). lia.
    + pose proof (salloc_list_mono_aux body H1 sc1 (snd (salloc_opt post sc1 n2))). lia.
  - rewrite salloc_switch.
    assert (A : nx <= snd (salloc_opt init sc nx)).
    { destruct init; simpl in *; [apply H | lia]. }
    destruct (salloc_opt init sc nx) as [sc1 n1]. simpl in *.
    assert (B : n1 <= match tag with None => n1 | Some t => snd (aalloc t sc1 n1 None) end).
    { destruct tag; [apply aalloc_mono | lia]. }
    pose proof (salloc_list_mono_aux cls H0 sc1 (match tag with None => n1 | Some t => snd (aalloc t sc1 n1 None) end)). lia.
  - rewrite salloc_case. simpl.
    pose proof (calloc_mono ce sc nx). pose proof (salloc_list_mono_aux body H sc (calloc ce sc nx)). lia.
Qed.

Lemma salloc_list_mono l sc nx : nx <= snd (salloc_list l sc nx).
Proof. apply salloc_list_mono_aux. apply Forall_forall. intros s _. apply salloc_mono. Qed.

Lemma salloc_opt_mono o sc nx : nx <= snd (salloc_opt o sc nx).
Proof. destruct o; simpl; [apply salloc_mono | lia]. Qed.

(** Invariants of the scope: slots below the counter, all distinct. *)
Definition scope_ok (sc : scope) (nx : nat) : Prop := bounded sc nx /\ NoDup (map snd sc).

Lemma scope_ok_mono sc nx nx' : scope_ok sc nx -> nx <= nx' -> scope_ok sc nx'.
Proof. intros [A B] L. split; [eapply bounded_mono; eauto | exact B]. Qed.

Lemma scope_ok_push sc nx x n : scope_ok sc nx -> nx <= n -> scope_ok ((x, n) :: sc) (S n).
Proof.
  intros [A B] L. split.
  - intros i [<-|Hi]; simpl; [lia|]. specialize (A i Hi). lia.
  - simpl. constructor; [|exact B]. intros Hi. specialize (A n Hi). lia.
Qed.

Lemma salloc_ok s sc nx : scope_ok sc nx -> scope_ok (fst (salloc s sc nx)) (snd (salloc s sc nx)).
Proof.
  intros H. pose proof (salloc_mono s sc nx) as M. rewrite salloc_scope.
  destruct s; simpl; try (apply (scope_ok_mono sc nx); [exact H | exact M]).
  rewrite salloc_define in *. simpl in *. apply scope_ok_push with (nx := nx); [exact H|]. apply aalloc_mono.
Qed.

Lemma salloc_list_ok l : forall sc nx, scope_ok sc nx -> scope_ok (fst (salloc_list l sc nx)) (snd (salloc_list l sc nx)).
Proof.
  induction l as [|s l IH]; intros sc nx H; simpl; [exact H|].
  pose proof (salloc_ok s sc nx H). destruct (salloc s sc nx) as [sc1 n1]. simpl in *. apply IH. exact H0.
Qed.

Lemma salloc_opt_ok o sc nx : scope_ok sc nx -> scope_ok (fst (salloc_opt o sc nx)) (snd (salloc_opt o sc nx)).
Proof. destruct o; simpl; [apply salloc_ok | auto]. Qed.
