(** C01 — Y: how yaegi runs MiniGo.  A transcription of interp/cfg.go (post-order wiring of
    start / tnext / fnext, frame-slot allocation with the destination-slot shortcut, loopVarFor) and
    of the execution loop of interp/run.go runCfg.  Definitions only; faithful including the defects.

    Every AST node is a CFG node, identified by its path from the root (list of child roles).
    Child roles:  assignment / define / op-assign: 1 = source expression (0 is the destination
    identifier, never executed);  Println: 0 = argument;  unary: 0;  binary, &&, ||: 0, 1;
    block: i = i-th statement;  if: 0 = init, 1 = cond, 2 = then block, 3 = else block;
    for: 0 = init, 1 = cond, 2 = post, 3 = body block, 4 = the loop-variable node that ast.go
    inserts as first child of the body of a 3-clause for (written here as a child of the for node). *)
From Verif Require Import Core.Syntax.

Definition path := list nat.

(** Frame slots hold typed values. *)
Inductive val := VI (z : Z) | VB (b : bool).
Definition frame := nat -> val.
Definition geti (fr : frame) (i : nat) : Z := match fr i with VI z => z | VB _ => 0 end.
Definition getb (fr : frame) (i : nat) : bool := match fr i with VB b => b | VI _ => false end.
Definition set (fr : frame) (i : nat) (v : val) : frame := fun j => if Nat.eqb j i then v else fr j.

(** genValue of a child node: a constant (rval) or a frame slot (findex). *)
Inductive operand := OConst (z : Z) | OSlot (i : nat).
Inductive boperand := BConst (b : bool) | BSlot (i : nat).
Definition oval (fr : frame) (o : operand) : Z := match o with OConst z => z | OSlot i => geti fr i end.
Definition bval (fr : frame) (o : boperand) : bool := match o with BConst b => b | BSlot i => getb fr i end.

(** What the generated closure (n.exec) of a node does. *)
Inductive action :=
| XNop                                                (* gen = nop: statement nodes, skipped assignments *)
| XArith (op : aop) (a b : operand) (dst : nat)       (* op.go: dest(f).SetInt(a op b) *)
| XNeg (a : operand) (dst : nat)
| XCmp (op : cop) (a b : operand) (dst : nat)         (* writes the boolean, branches when fnext is set *)
| XNot (a : boperand) (dst : nat)
| XLand (a b : boperand) (dst : nat)                  (* run.go land: reads both child slots again *)
| XLor (a b : boperand) (dst : nat)
| XBranch (a : boperand)                              (* run.go branch *)
| XAssign (src : operand) (dst : nat)                 (* run.go assign *)
| XOpAssign (op : aop) (src : operand) (dst : nat)
| XIncDec (inc : bool) (dst : nat)
| XLoopVar (src dst : nat)                            (* run.go loopVarFor *)
| XPrint (a : operand).

Record cnode := mknode { act : action; tnext : option path; fnext : option path }.

Definition cfg := path -> option cnode.

(** Compile-time scope: variable -> slot, innermost first (used through [slot_of] only). *)
Definition scope := list (ident * nat).

Fixpoint slot_of (x : ident) (sc : scope) : option nat :=
  match sc with
  | [] => None
  | (y, i) :: sc' => if Nat.eqb x y then Some i else slot_of x sc'
  end.

(* ------------------------------------------------------------------ slot allocation (sc.add order) *)

(** Destination of an operator node: the slot forced by the enclosing plain assignment
    (cfg.go binaryExpr/unaryExpr: "store it directly at the frame location of destination") or a
    fresh slot (sc.add). Returns the slot and the next free slot. *)
Definition dest (dst : option nat) (nx : nat) : nat * nat :=
  match dst with Some d => (d, nx) | None => (nx, S nx) end.

Fixpoint aalloc (e : aexp) (sc : scope) (nx : nat) (dst : option nat) : operand * nat :=
  match e with
  | ALit z => (OConst z, nx)
  | AVar x => (match slot_of x sc with Some i => OSlot i | None => OConst 0 end, nx)
  | ANeg a =>
      let '(_, n1) := aalloc a sc nx None in
      let '(d, n2) := dest dst n1 in (OSlot d, n2)
  | ABin _ a b =>
      let '(_, n1) := aalloc a sc nx None in
      let '(_, n2) := aalloc b sc n1 None in
      let '(d, n3) := dest dst n2 in (OSlot d, n3)
  end.

Fixpoint balloc (e : bexp) (sc : scope) (nx : nat) : boperand * nat :=
  match e with
  | BLit b => (BConst b, nx)
  | BCmp _ a b =>
      let '(_, n1) := aalloc a sc nx None in
      let '(_, n2) := aalloc b sc n1 None in (BSlot n2, S n2)
  | BNot b => let '(_, n1) := balloc b sc nx in (BSlot n1, S n1)
  | BAnd a b | BOr a b =>
      let '(_, n1) := balloc a sc nx in
      let '(_, n2) := balloc b sc n1 in (BSlot n2, S n2)
  end.

(** Destination forced onto the source of [x = e]. *)
Definition assign_dst (x : ident) (sc : scope) : option nat := slot_of x sc.

(** The loop-variable emulation applies to [for x := e; cond; post {...}] (cfg.go blockStmt pre-order:
    anc.kind == forStmt7 && init.kind == defineStmt && init.child[0].kind == identExpr). *)
Definition loopvar_of (init : option stmt) (c : option bexp) (post : option stmt) : option ident :=
  match init, c, post with
  | Some (SDefine x _), Some _, Some _ => Some x
  | _, _, _ => None
  end.

(** Scope and next free slot after a statement. Inner scopes are popped, the frame only grows. *)
Fixpoint salloc (s : stmt) (sc : scope) (nx : nat) {struct s} : scope * nat :=
  let salloc_opt (o : option stmt) (sc : scope) (nx : nat) : scope * nat :=
    match o with None => (sc, nx) | Some s => salloc s sc nx end in
  let salloc_list := fix go (l : list stmt) (sc : scope) (nx : nat) {struct l} : scope * nat :=
    match l with [] => (sc, nx) | s :: l' => let '(sc1, n1) := salloc s sc nx in go l' sc1 n1 end in
  match s with
  | SAssign x e => (sc, snd (aalloc e sc nx (assign_dst x sc)))
  | SDefine x e => let n1 := snd (aalloc e sc nx None) in ((x, n1) :: sc, S n1)
  | SOpAssign _ x e => (sc, snd (aalloc e sc nx None))
  | SIncDec _ _ | SBreak | SContinue => (sc, nx)
  | SPrint e => (sc, snd (aalloc e sc nx None))
  | SBlock b => (sc, snd (salloc_list b sc nx))
  | SIf init c t e =>
      let '(sc1, n1) := salloc_opt init sc nx in
      let n2 := snd (balloc c sc1 n1) in
      let n3 := snd (salloc_list t sc1 n2) in
      let n4 := match e with None => n3 | Some e => snd (salloc_list e sc1 n3) end in
      (sc, n4)
  | SFor init c post body =>
      let '(sc1, n1) := salloc_opt init sc nx in
      let n2 := match c with None => n1 | Some c => snd (balloc c sc1 n1) end in
      let n3 := snd (salloc_opt post sc1 n2) in
      match loopvar_of init c post with
      | Some x => (sc, snd (salloc_list body ((x, n3) :: tl sc1) (S n3)))
      | None => (sc, snd (salloc_list body sc1 n3))
      end
  end.

Definition salloc_opt (o : option stmt) (sc : scope) (nx : nat) : scope * nat :=
  match o with None => (sc, nx) | Some s => salloc s sc nx end.

Fixpoint salloc_list (l : list stmt) (sc : scope) (nx : nat) : scope * nat :=
  match l with [] => (sc, nx) | s :: l' => let '(sc1, n1) := salloc s sc nx in salloc_list l' sc1 n1 end.

(* ------------------------------------------------------------------ start nodes (n.start) *)

(** wireChild: the start of a node is the start of its first child that is not an identifier or a
    literal; a node without such a child starts at itself. *)
Fixpoint astart (e : aexp) (p : path) : path :=
  match e with
  | ALit _ | AVar _ => p
  | ANeg a => if is_leaf a then p else astart a (p ++ [0%nat])
  | ABin _ a b =>
      if is_leaf a then (if is_leaf b then p else astart b (p ++ [1%nat]))
      else astart a (p ++ [0%nat])
  end.

Fixpoint bstart (e : bexp) (p : path) : path :=
  match e with
  | BLit _ => p
  | BCmp _ a b =>
      if is_leaf a then (if is_leaf b then p else astart b (p ++ [1%nat]))
      else astart a (p ++ [0%nat])
  | BNot b => if is_blit b then p else bstart b (p ++ [0%nat])
  | BAnd a _ | BOr a _ => bstart a (p ++ [0%nat])      (* landExpr/lorExpr: n.start = n.child[0].start *)
  end.

(** Condition kinds (cond.rval.IsValid() / cond.rval.Bool()). *)
Inductive condkind := CNone | CTrue | CFalse | CDyn.
Definition ckind (c : option bexp) : condkind :=
  match c with
  | None => CNone
  | Some (BLit true) => CTrue
  | Some (BLit false) => CFalse
  | Some _ => CDyn
  end.

(** Edge targets used by the wiring tables: the node itself, the start of a child, or nothing. *)
Inductive ref := RSelf | RStart (role : nat) | RNil.

(** ifStmt0..3, transcribed case by case from cfg.go (post-order).  [hi] = has init, [he] = has else. *)
Record ifwire := { if_start : ref; if_init_t : ref; if_cond_t : ref; if_cond_f : ref; if_then_t : ref; if_else_t : ref }.

Definition wire_if (hi : bool) (k : condkind) (he : bool) : ifwire :=
  match hi, he with
  | false, false => (* ifStmt0 *)
      match k with
      | CTrue => {| if_start := RStart 2; if_init_t := RNil; if_cond_t := RNil; if_cond_f := RSelf; if_then_t := RSelf; if_else_t := RNil |}
      | CFalse => {| if_start := RSelf; if_init_t := RNil; if_cond_t := RNil; if_cond_f := RSelf; if_then_t := RSelf; if_else_t := RNil |}
      | _ => {| if_start := RStart 1; if_init_t := RNil; if_cond_t := RStart 2; if_cond_f := RSelf; if_then_t := RSelf; if_else_t := RNil |}
      end
  | false, true => (* ifStmt1 *)
      match k with
      | CTrue => {| if_start := RStart 2; if_init_t := RNil; if_cond_t := RNil; if_cond_f := RNil; if_then_t := RSelf; if_else_t := RSelf |}
      | CFalse => {| if_start := RStart 3; if_init_t := RNil; if_cond_t := RNil; if_cond_f := RNil; if_then_t := RSelf; if_else_t := RSelf |}
      | _ => {| if_start := RStart 1; if_init_t := RNil; if_cond_t := RStart 2; if_cond_f := RStart 3; if_then_t := RSelf; if_else_t := RSelf |}
      end
  | true, false => (* ifStmt2 *)
      match k with
      | CTrue => {| if_start := RStart 0; if_init_t := RStart 2; if_cond_t := RNil; if_cond_f := RSelf; if_then_t := RSelf; if_else_t := RNil |}
      | CFalse => {| if_start := RStart 0; if_init_t := RSelf; if_cond_t := RNil; if_cond_f := RSelf; if_then_t := RSelf; if_else_t := RNil |}
      | _ => {| if_start := RStart 0; if_init_t := RStart 1; if_cond_t := RStart 2; if_cond_f := RSelf; if_then_t := RSelf; if_else_t := RNil |}
      end
  | true, true => (* ifStmt3 *)
      match k with
      | CTrue => {| if_start := RStart 0; if_init_t := RStart 2; if_cond_t := RNil; if_cond_f := RNil; if_then_t := RSelf; if_else_t := RSelf |}
      | CFalse => {| if_start := RStart 0; if_init_t := RStart 3; if_cond_t := RNil; if_cond_f := RNil; if_then_t := RSelf; if_else_t := RSelf |}
      | _ => {| if_start := RStart 0; if_init_t := RStart 1; if_cond_t := RStart 2; if_cond_f := RStart 3; if_then_t := RSelf; if_else_t := RSelf |}
      end
  end.

(** forStmt0..7, transcribed case by case from cfg.go.  [RStart 3] is body.start: for forStmt7 that
    is the loop-variable node ("body.start = body.child[0] // loopvar").  Note forStmt1: the body
    returns to n.start, which is init.start. *)
Record forwire := { for_start : ref; for_init_t : ref; for_cond_t : ref; for_cond_f : ref; for_post_t : ref; for_body_t : ref }.

Definition wire_for (hi : bool) (k : condkind) (hp : bool) : forwire :=
  match hi, k, hp with
  | false, CNone, false => (* forStmt0 *)
      {| for_start := RStart 3; for_init_t := RNil; for_cond_t := RNil; for_cond_f := RNil; for_post_t := RNil; for_body_t := RStart 3 |}
  | true, CNone, false => (* forStmt1 *)
      {| for_start := RStart 0; for_init_t := RStart 3; for_cond_t := RNil; for_cond_f := RNil; for_post_t := RNil; for_body_t := RStart 0 |}
  | false, CDyn, false => (* forStmt2 *)
      {| for_start := RStart 1; for_init_t := RNil; for_cond_t := RStart 3; for_cond_f := RSelf; for_post_t := RNil; for_body_t := RStart 1 |}
  | false, CTrue, false =>
      {| for_start := RStart 3; for_init_t := RNil; for_cond_t := RNil; for_cond_f := RSelf; for_post_t := RNil; for_body_t := RStart 3 |}
  | false, CFalse, false =>
      {| for_start := RSelf; for_init_t := RNil; for_cond_t := RNil; for_cond_f := RSelf; for_post_t := RNil; for_body_t := RNil |}
  | true, CDyn, false => (* forStmt3 *)
      {| for_start := RStart 0; for_init_t := RStart 1; for_cond_t := RStart 3; for_cond_f := RSelf; for_post_t := RNil; for_body_t := RStart 1 |}
  | true, CTrue, false =>
      {| for_start := RStart 0; for_init_t := RStart 3; for_cond_t := RStart 3; for_cond_f := RSelf; for_post_t := RNil; for_body_t := RStart 3 |}
  | true, CFalse, false =>
      {| for_start := RStart 0; for_init_t := RSelf; for_cond_t := RStart 3; for_cond_f := RSelf; for_post_t := RNil; for_body_t := RNil |}
  | false, CNone, true => (* forStmt4 *)
      {| for_start := RStart 3; for_init_t := RNil; for_cond_t := RNil; for_cond_f := RNil; for_post_t := RStart 3; for_body_t := RStart 2 |}
  | false, CDyn, true => (* forStmt5 *)
      {| for_start := RStart 1; for_init_t := RNil; for_cond_t := RStart 3; for_cond_f := RSelf; for_post_t := RStart 1; for_body_t := RStart 2 |}
  | false, CTrue, true =>
      {| for_start := RStart 3; for_init_t := RNil; for_cond_t := RStart 3; for_cond_f := RSelf; for_post_t := RStart 3; for_body_t := RStart 2 |}
  | false, CFalse, true =>
      {| for_start := RSelf; for_init_t := RNil; for_cond_t := RStart 3; for_cond_f := RSelf; for_post_t := RNil; for_body_t := RStart 2 |}
  | true, CNone, true => (* forStmt6 *)
      {| for_start := RStart 0; for_init_t := RStart 3; for_cond_t := RNil; for_cond_f := RNil; for_post_t := RStart 3; for_body_t := RStart 2 |}
  | true, CDyn, true => (* forStmt7 *)
      {| for_start := RStart 0; for_init_t := RStart 1; for_cond_t := RStart 3; for_cond_f := RSelf; for_post_t := RStart 1; for_body_t := RStart 2 |}
  | true, CTrue, true =>
      {| for_start := RStart 0; for_init_t := RStart 3; for_cond_t := RStart 3; for_cond_f := RSelf; for_post_t := RStart 3; for_body_t := RStart 2 |}
  | true, CFalse, true =>
      {| for_start := RStart 0; for_init_t := RSelf; for_cond_t := RStart 3; for_cond_f := RSelf; for_post_t := RNil; for_body_t := RStart 2 |}
  end.

Definition is_some {A} (o : option A) : bool := match o with Some _ => true | None => false end.

(** A 3-clause for always has the inserted loop-variable node in front of its body. *)
Definition has_lv (init : option stmt) (c : option bexp) (post : option stmt) : bool :=
  is_some init && is_some c && is_some post.

Fixpoint sstart (s : stmt) (p : path) {struct s} : path :=
  let block_start (b : list stmt) (p : path) : path :=
    match b with [] => p | s :: _ => sstart s (p ++ [0%nat]) end in
  match s with
  | SAssign _ e | SDefine _ e | SOpAssign _ _ e => if is_leaf e then p else astart e (p ++ [1%nat])
  | SIncDec _ _ => p
  | SPrint e => if is_leaf e then p else astart e (p ++ [0%nat])
  | SBlock b => block_start b p
  | SBreak | SContinue => p
  | SIf init c t e =>
      match if_start (wire_if (is_some init) (ckind (Some c)) (is_some e)) with
      | RSelf | RNil => p
      | RStart 0 => match init with Some i => sstart i (p ++ [0%nat]) | None => p end
      | RStart 1 => bstart c (p ++ [1%nat])
      | RStart 2 => block_start t (p ++ [2%nat])
      | RStart _ => match e with Some e => block_start e (p ++ [3%nat]) | None => p end
      end
  | SFor init c post body =>
      match for_start (wire_for (is_some init) (ckind c) (is_some post)) with
      | RSelf | RNil => p
      | RStart 0 => match init with Some i => sstart i (p ++ [0%nat]) | None => p end
      | RStart 1 => match c with Some c => bstart c (p ++ [1%nat]) | None => p end
      | RStart 2 => match post with Some s => sstart s (p ++ [2%nat]) | None => p end
      | RStart _ => if has_lv init c post then p ++ [4%nat] else block_start body (p ++ [3%nat])
      end
  end.

Definition block_start (b : list stmt) (p : path) : path :=
  match b with [] => p | s :: _ => sstart s (p ++ [0%nat]) end.

(** Resolution of an edge target of an if / for node at path [p]. *)
Definition if_ref (init : option stmt) (c : bexp) (t : list stmt) (e : option (list stmt)) (p : path) (r : ref) : option path :=
  match r with
  | RNil => None
  | RSelf => Some p
  | RStart 0 => match init with Some i => Some (sstart i (p ++ [0%nat])) | None => None end
  | RStart 1 => Some (bstart c (p ++ [1%nat]))
  | RStart 2 => Some (block_start t (p ++ [2%nat]))
  | RStart _ => match e with Some e => Some (block_start e (p ++ [3%nat])) | None => None end
  end.

Definition body_start (init : option stmt) (c : option bexp) (post : option stmt) (body : list stmt) (p : path) : path :=
  if has_lv init c post then p ++ [4%nat] else block_start body (p ++ [3%nat]).

Definition for_ref (init : option stmt) (c : option bexp) (post : option stmt) (body : list stmt) (p : path) (r : ref) : option path :=
  match r with
  | RNil => None
  | RSelf => Some p
  | RStart 0 => match init with Some i => Some (sstart i (p ++ [0%nat])) | None => None end
  | RStart 1 => match c with Some c => Some (bstart c (p ++ [1%nat])) | None => None end
  | RStart 2 => match post with Some s => Some (sstart s (p ++ [2%nat])) | None => None end
  | RStart _ => Some (body_start init c post body p)
  end.

(* ------------------------------------------------------------------ the nodes *)

(** Integer expression [e] at absolute path [self]; its own node goes to [tn] afterwards.
    [q] is the path below [self]. *)
Fixpoint anode_at (q : path) (e : aexp) (sc : scope) (nx : nat) (dst : option nat) (self : path) (tn : option path) {struct q} : option cnode :=
  match q with
  | [] =>
      match e with
      | ALit _ | AVar _ => Some (mknode XNop tn None)
      | ANeg a =>
          let '(oa, n1) := aalloc a sc nx None in
          Some (mknode (XNeg oa (fst (dest dst n1))) tn None)
      | ABin op a b =>
          let '(oa, n1) := aalloc a sc nx None in
          let '(ob, n2) := aalloc b sc n1 None in
          Some (mknode (XArith op oa ob (fst (dest dst n2))) tn None)
      end
  | i :: q' =>
      match e with
      | ANeg a => if Nat.eqb i 0 then anode_at q' a sc nx None (self ++ [0%nat]) (Some self) else None
      | ABin _ a b =>
          if Nat.eqb i 0 then
            (* wireChild: a.tnext = b.start when b is executed, else a.tnext = n *)
            anode_at q' a sc nx None (self ++ [0%nat]) (Some (if is_leaf b then self else astart b (self ++ [1%nat])))
          else if Nat.eqb i 1 then
            anode_at q' b sc (snd (aalloc a sc nx None)) None (self ++ [1%nat]) (Some self)
          else None
      | _ => None
      end
  end.

Fixpoint bnode_at (q : path) (e : bexp) (sc : scope) (nx : nat) (self : path) (tn fn : option path) {struct q} : option cnode :=
  match q with
  | [] =>
      match e with
      | BLit b => Some (mknode (match fn with Some _ => XBranch (BConst b) | None => XNop end) tn fn)
      | BCmp op a b =>
          let '(oa, n1) := aalloc a sc nx None in
          let '(ob, n2) := aalloc b sc n1 None in
          Some (mknode (XCmp op oa ob n2) tn fn)
      | BNot b => let '(ob, n1) := balloc b sc nx in Some (mknode (XNot ob n1) tn fn)
      | BAnd a b =>
          let '(oa, n1) := balloc a sc nx in
          let '(ob, n2) := balloc b sc n1 in Some (mknode (XLand oa ob n2) tn fn)
      | BOr a b =>
          let '(oa, n1) := balloc a sc nx in
          let '(ob, n2) := balloc b sc n1 in Some (mknode (XLor oa ob n2) tn fn)
      end
  | i :: q' =>
      match e with
      | BLit _ => None
      | BCmp _ a b =>
          if Nat.eqb i 0 then
            anode_at q' a sc nx None (self ++ [0%nat]) (Some (if is_leaf b then self else astart b (self ++ [1%nat])))
          else if Nat.eqb i 1 then
            anode_at q' b sc (snd (aalloc a sc nx None)) None (self ++ [1%nat]) (Some self)
          else None
      | BNot b => if Nat.eqb i 0 then bnode_at q' b sc nx (self ++ [0%nat]) (Some self) None else None
      | BAnd a b =>
          (* landExpr: child0.tnext = child1.start; setFNext(child0, n); child1.tnext = n *)
          if Nat.eqb i 0 then bnode_at q' a sc nx (self ++ [0%nat]) (Some (bstart b (self ++ [1%nat]))) (Some self)
          else if Nat.eqb i 1 then bnode_at q' b sc (snd (balloc a sc nx)) (self ++ [1%nat]) (Some self) None
          else None
      | BOr a b =>
          (* lorExpr: child0.tnext = n; setFNext(child0, child1.start); child1.tnext = n *)
          if Nat.eqb i 0 then bnode_at q' a sc nx (self ++ [0%nat]) (Some self) (Some (bstart b (self ++ [1%nat])))
          else if Nat.eqb i 1 then bnode_at q' b sc (snd (balloc a sc nx)) (self ++ [1%nat]) (Some self) None
          else None
      end
  end.

(** Successor context of a statement: where its own node continues, and the targets of break
    (sc.loop: the enclosing for node) and continue (sc.loopRestart: the body block of that loop). *)
Record sctx := mkctx { k_next : option path; k_brk : option path; k_cont : option path }.

Definition operand_of (e : aexp) (sc : scope) (nx : nat) (dst : option nat) : operand := fst (aalloc e sc nx dst).

(** wireChild on a block: statement i continues at the start of statement i+1, the last one at the
    block node itself. *)
Definition next_in_block (b : list stmt) (i : nat) (self : path) : option path :=
  match nth_error b (S i) with
  | Some s' => Some (sstart s' (self ++ [S i]))
  | None => Some self
  end.

Fixpoint snode_at (q : path) (s : stmt) (sc : scope) (nx : nat) (K : sctx) (self : path) {struct q} : option cnode :=
  match q with
  | [] =>
      match s with
      | SAssign x e =>
          match slot_of x sc with
          | None => Some (mknode XNop (k_next K) None)
          | Some d =>
              if is_leaf e then Some (mknode (XAssign (operand_of e sc nx None) d) (k_next K) None)
              else Some (mknode XNop (k_next K) None)   (* arithmetic source: n.gen = nop, result already in place *)
          end
      | SDefine x e =>
          let '(o, n1) := aalloc e sc nx None in Some (mknode (XAssign o n1) (k_next K) None)
      | SOpAssign op x e =>
          match slot_of x sc with
          | None => Some (mknode (XOpAssign op (operand_of e sc nx None) nx) (k_next K) None)
          | Some d => Some (mknode (XOpAssign op (operand_of e sc nx None) d) (k_next K) None)
          end
      | SIncDec inc x =>
          match slot_of x sc with
          | None => Some (mknode XNop (k_next K) None)
          | Some d => Some (mknode (XIncDec inc d) (k_next K) None)
          end
      | SPrint e => Some (mknode (XPrint (operand_of e sc nx None)) (k_next K) None)
      | SBlock _ | SIf _ _ _ _ | SFor _ _ _ _ => Some (mknode XNop (k_next K) None)
      | SBreak => Some (mknode XNop (k_brk K) None)
      | SContinue => Some (mknode XNop (k_cont K) None)
      end
  | i :: q' =>
      match s with
      | SAssign x e =>
          if Nat.eqb i 1 then anode_at q' e sc nx (assign_dst x sc) (self ++ [1%nat]) (Some self) else None
      | SDefine _ e | SOpAssign _ _ e =>
          if Nat.eqb i 1 then anode_at q' e sc nx None (self ++ [1%nat]) (Some self) else None
      | SPrint e =>
          if Nat.eqb i 0 then anode_at q' e sc nx None (self ++ [0%nat]) (Some self) else None
      | SBlock b =>
          match nth_error b i with
          | Some s0 =>
              let '(sci, ni) := salloc_list (firstn i b) sc nx in
              snode_at q' s0 sci ni (mkctx (next_in_block b i self) (k_brk K) (k_cont K)) (self ++ [i])
          | None => None
          end
      | SIf init c t e =>
          let w := wire_if (is_some init) (ckind (Some c)) (is_some e) in
          let r := if_ref init c t e self in
          let '(sc1, n1) := salloc_opt init sc nx in
          let n2 := snd (balloc c sc1 n1) in
          let n3 := snd (salloc_list t sc1 n2) in
          match i with
          | 0%nat => match init with
                     | Some s0 => snode_at q' s0 sc nx (mkctx (r (if_init_t w)) (k_brk K) (k_cont K)) (self ++ [0%nat])
                     | None => None
                     end
          | 1%nat => bnode_at q' c sc1 n1 (self ++ [1%nat]) (r (if_cond_t w)) (r (if_cond_f w))
          | 2%nat => snode_at q' (SBlock t) sc1 n2 (mkctx (r (if_then_t w)) (k_brk K) (k_cont K)) (self ++ [2%nat])
          | 3%nat => match e with
                     | Some e => snode_at q' (SBlock e) sc1 n3 (mkctx (r (if_else_t w)) (k_brk K) (k_cont K)) (self ++ [3%nat])
                     | None => None
                     end
          | _ => None
          end
      | SFor init c post body =>
          let w := wire_for (is_some init) (ckind c) (is_some post) in
          let r := for_ref init c post body self in
          let '(sc1, n1) := salloc_opt init sc nx in
          let n2 := match c with None => n1 | Some c => snd (balloc c sc1 n1) end in
          let n3 := snd (salloc_opt post sc1 n2) in
          let inner := mkctx None (Some self) (Some (self ++ [3%nat])) in
          match i with
          | 0%nat => match init with
                     | Some s0 => snode_at q' s0 sc nx (mkctx (r (for_init_t w)) (k_brk K) (k_cont K)) (self ++ [0%nat])
                     | None => None
                     end
          | 1%nat => match c with
                     | Some c => bnode_at q' c sc1 n1 (self ++ [1%nat]) (r (for_cond_t w)) (r (for_cond_f w))
                     | None => None
                     end
          | 2%nat => match post with
                     | Some s2 => snode_at q' s2 sc1 n2 (mkctx (r (for_post_t w)) (k_brk K) (k_cont K)) (self ++ [2%nat])
                     | None => None
                     end
          | 3%nat =>
              let K3 := mkctx (r (for_body_t w)) (Some self) (Some (self ++ [3%nat])) in
              match loopvar_of init c post with
              | Some x => snode_at q' (SBlock body) ((x, n3) :: tl sc1) (S n3) K3 (self ++ [3%nat])
              | None => snode_at q' (SBlock body) sc1 n3 K3 (self ++ [3%nat])
              end
          | 4%nat =>
              (* the loop-variable node: wireChild gives it the start of the first body statement, or
                 nothing when the body is empty *)
              if has_lv init c post then
                match q' with
                | [] =>
                    let tn := match body with [] => None | s0 :: _ => Some (sstart s0 (self ++ [3%nat; 0%nat])) end in
                    match loopvar_of init c post with
                    | Some x => Some (mknode (match slot_of x sc1 with Some sx => XLoopVar sx n3 | None => XNop end) tn None)
                    | None => Some (mknode XNop tn None)
                    end
                | _ => None
                end
              else None
          | _ => let _ := inner in None
          end
      | _ => None
      end
  end
.

(** The compiled program: the body of main is the block at the root; after it the function ends. *)
Definition compile (p : program) : cfg :=
  fun q => snode_at q (SBlock p) [] 0%nat (mkctx None None None) [].

Definition entry (p : program) : path := block_start p [].

(* ------------------------------------------------------------------ the machine (runCfg) *)

Inductive mres :=
| MRun (n : option path) (fr : frame) (out : list Z)
| MPanic (out : list Z).

Definition branch_to (nd : cnode) (b : bool) : option path :=
  match fnext nd with
  | Some f => if b then tnext nd else Some f
  | None => tnext nd
  end.

Definition exec_node (nd : cnode) (fr : frame) (out : list Z) : mres :=
  match act nd with
  | XNop => MRun (tnext nd) fr out
  | XArith op a b d =>
      match arith op (oval fr a) (oval fr b) with
      | Some r => MRun (tnext nd) (set fr d (VI r)) out
      | None => MPanic out
      end
  | XNeg a d => MRun (tnext nd) (set fr d (VI (wrap (- oval fr a)))) out
  | XCmp op a b d =>
      let r := compare op (oval fr a) (oval fr b) in MRun (branch_to nd r) (set fr d (VB r)) out
  | XNot a d => let r := negb (bval fr a) in MRun (branch_to nd r) (set fr d (VB r)) out
  | XLand a b d => let r := bval fr a && bval fr b in MRun (branch_to nd r) (set fr d (VB r)) out
  | XLor a b d => let r := bval fr a || bval fr b in MRun (branch_to nd r) (set fr d (VB r)) out
  | XBranch a => MRun (branch_to nd (bval fr a)) fr out
  | XAssign src d => MRun (tnext nd) (set fr d (VI (oval fr src))) out
  | XOpAssign op src d =>
      match arith op (geti fr d) (oval fr src) with
      | Some r => MRun (tnext nd) (set fr d (VI r)) out
      | None => MPanic out
      end
  | XIncDec inc d => MRun (tnext nd) (set fr d (VI (wrap (geti fr d + (if inc then 1 else -1))))) out
  | XLoopVar src d => MRun (tnext nd) (set fr d (fr src)) out
  | XPrint a => MRun (tnext nd) fr (out ++ [oval fr a])
  end.

(** One iteration of "for exec := n.exec; exec != nil; exec = exec(f)". A missing node ends the run. *)
Definition step (g : cfg) (p : path) (fr : frame) (out : list Z) : mres :=
  match g p with
  | Some nd => exec_node nd fr out
  | None => MRun None fr out
  end.

Fixpoint run_from (fuel : nat) (g : cfg) (n : option path) (fr : frame) (out : list Z) : result :=
  match n with
  | None => Done out false
  | Some p =>
      match fuel with
      | O => OutOfFuel
      | S f =>
          match step g p fr out with
          | MRun n' fr' out' => run_from f g n' fr' out'
          | MPanic out' => Done out' true
          end
      end
  end.

Definition frame0 : frame := fun _ => VI 0.

Definition run (fuel : nat) (p : program) : result :=
  run_from fuel (compile p) (Some (entry p)) frame0 [].
