(** C01 — Y: how yaegi runs MiniGo.  A transcription of interp/cfg.go (post-order wiring of
    start / tnext / fnext, frame-slot allocation with the destination-slot shortcut, loopVarFor) and
    of the execution loop of interp/run.go runCfg.  Definitions only; faithful including the defects.

    Every AST node is a CFG node, identified by its path from the root (list of child roles).
    Child roles:  assignment / define / op-assign: 1 = source expression (0 is the destination
    identifier, never executed);  Println: 0 = argument;  unary: 0;  binary, &&, ||: 0, 1;
    block: i = i-th statement;  if: 0 = init, 1 = cond, 2 = then block, 3 = else block;
    for: 0 = init, 1 = cond, 2 = post, 3 = body block, 4 = the loop-variable node that ast.go
    inserts as first child of the body of a 3-clause for (written here as a child of the for node);
    switch: 0 = init, 1 = tag, 2 = the switch block, whose child i is the i-th case clause;
    case clause: 0 = the caseBody node (a block; [fallthrough] is its last statement, a node that does
    nothing), 1 + k = the k-th case expression.
    [compile] first applies [norm]: cfg.go (pre-order of switchStmt / switchIfStmt) swaps a default
    clause that is not last with the last clause before anything else looks at the clauses. *)
From Verif Require Import Core.Syntax.

Definition path := list nat.

(** Frame slots hold typed values. *)
Inductive val := VI (z : Z) | VB (b : bool).
Definition frame := nat -> val.
Definition geti (fr : frame) (i : nat) : Z := match fr i with VI z => z | VB _ => 0 end.
Definition getb (fr : frame) (i : nat) : bool := match fr i with VB b => b | VI _ => false end.
Definition set (fr : frame) (i : nat) (v : val) : frame := fun j => if Nat.eqb j i then v else fr j.

(** genValue of a child node: a constant (rval) or a frame slot (findex). *)
Inductive operand := OConst (z : Z) | OSlot (i : nat).
Inductive boperand := BConst (b : bool) | BSlot (i : nat).
Definition oval (fr : frame) (o : operand) : Z := match o with OConst z => z | OSlot i => geti fr i end.
Definition bval (fr : frame) (o : boperand) : bool := match o with BConst b => b | BSlot i => getb fr i end.

(** What the generated closure (n.exec) of a node does. *)
Inductive action :=
| XNop                                                (* gen = nop: statement nodes, skipped assignments *)
| XArith (op : aop) (a b : operand) (dst : nat)       (* op.go: dest(f).SetInt(a op b) *)
| XNeg (a : operand) (dst : nat)
| XCmp (op : cop) (a b : operand) (dst : nat)         (* writes the boolean, branches when fnext is set *)
| XNot (a : boperand) (dst : nat)
| XLand (a b : boperand) (dst : nat)                  (* run.go land: reads both child slots again *)
| XLor (a b : boperand) (dst : nat)
| XBranch (a : boperand)                              (* run.go branch *)
| XAssign (src : operand) (dst : nat)                 (* run.go assign *)
| XOpAssign (op : aop) (src : operand) (dst : nat)
| XIncDec (inc : bool) (dst : nat)
| XLoopVar (src dst : nat)                            (* run.go loopVarFor *)
| XPrint (a : operand)
| XCase (tag : operand) (vals : list operand).        (* run.go _case: tnext when the tag equals one of the values *)

Record cnode := mknode { act : action; tnext : option path; fnext : option path }.

Definition cfg := path -> option cnode.

(** Compile-time scope: variable -> slot, innermost first (used through [slot_of] only). *)
Definition scope := list (ident * nat).

Fixpoint slot_of (x : ident) (sc : scope) : option nat :=
  match sc with
  | [] => None
  | (y, i) :: sc' => if Nat.eqb x y then Some i else slot_of x sc'
  end.

(* ------------------------------------------------------------------ slot allocation (sc.add order) *)

(** Destination of an operator node: the slot forced by the enclosing plain assignment
    (cfg.go binaryExpr/unaryExpr: "store it directly at the frame location of destination") or a
    fresh slot (sc.add). Returns the slot and the next free slot. *)
Definition dest (dst : option nat) (nx : nat) : nat * nat :=
  match dst with Some d => (d, nx) | None => (nx, S nx) end.

Fixpoint aalloc (e : aexp) (sc : scope) (nx : nat) (dst : option nat) : operand * nat :=
  match e with
  | ALit z => (OConst z, nx)
  | AVar x => (match slot_of x sc with Some i => OSlot i | None => OConst 0 end, nx)
  | ANeg a =>
      let '(_, n1) := aalloc a sc nx None in
      let '(d, n2) := dest dst n1 in (OSlot d, n2)
  | ABin _ a b =>
      let '(_, n1) := aalloc a sc nx None in
      let '(_, n2) := aalloc b sc n1 None in
      let '(d, n3) := dest dst n2 in (OSlot d, n3)
  end.

Fixpoint balloc (e : bexp) (sc : scope) (nx : nat) : boperand * nat :=
  match e with
  | BLit b => (BConst b, nx)
  | BCmp _ a b =>
      let '(_, n1) := aalloc a sc nx None in
      let '(_, n2) := aalloc b sc n1 None in (BSlot n2, S n2)
  | BNot b => let '(_, n1) := balloc b sc nx in (BSlot n1, S n1)
  | BAnd a b | BOr a b =>
      let '(_, n1) := balloc a sc nx in
      let '(_, n2) := balloc b sc n1 in (BSlot n2, S n2)
  end.

(** The expressions of a case clause, in order. *)
Fixpoint aalloc_list (l : list aexp) (sc : scope) (nx : nat) : list operand * nat :=
  match l with
  | [] => ([], nx)
  | e :: l' => let '(o, n1) := aalloc e sc nx None in let '(os, n2) := aalloc_list l' sc n1 in (o :: os, n2)
  end.

Fixpoint balloc_list (l : list bexp) (sc : scope) (nx : nat) : nat :=
  match l with
  | [] => nx
  | e :: l' => balloc_list l' sc (snd (balloc e sc nx))
  end.

Definition calloc (ce : cexprs) (sc : scope) (nx : nat) : nat :=
  match ce with
  | CDefault => nx
  | CInts l => snd (aalloc_list l sc nx)
  | CBools l => balloc_list l sc nx
  end.

(** Destination forced onto the source of [x = e]. *)
Definition assign_dst (x : ident) (sc : scope) : option nat := slot_of x sc.

(** The loop-variable emulation applies to [for x := e; cond; post {...}] (cfg.go blockStmt pre-order:
    anc.kind == forStmt7 && init.kind == defineStmt && init.child[0].kind == identExpr). *)
Definition loopvar_of (init : option stmt) (c : option bexp) (post : option stmt) : option ident :=
  match init, c, post with
  | Some (SDefine x _), Some _, Some _ => Some x
  | _, _, _ => None
  end.

(** Scope and next free slot after a statement. Inner scopes are popped, the frame only grows. *)
Fixpoint salloc (s : stmt) (sc : scope) (nx : nat) {struct s} : scope * nat :=
  let salloc_opt (o : option stmt) (sc : scope) (nx : nat) : scope * nat :=
    match o with None => (sc, nx) | Some s => salloc s sc nx end in
  let salloc_list := fix go (l : list stmt) (sc : scope) (nx : nat) {struct l} : scope * nat :=
    match l with [] => (sc, nx) | s :: l' => let '(sc1, n1) := salloc s sc nx in go l' sc1 n1 end in
  match s with
  | SAssign x e => (sc, snd (aalloc e sc nx (assign_dst x sc)))
  | SDefine x e => let n1 := snd (aalloc e sc nx None) in ((x, n1) :: sc, S n1)
  | SOpAssign _ x e => (sc, snd (aalloc e sc nx None))
  | SIncDec _ _ | SBreak | SContinue => (sc, nx)
  | SPrint e => (sc, snd (aalloc e sc nx None))
  | SBlock b => (sc, snd (salloc_list b sc nx))
  | SIf init c t e =>
      let '(sc1, n1) := salloc_opt init sc nx in
      let n2 := snd (balloc c sc1 n1) in
      let n3 := snd (salloc_list t sc1 n2) in
      let n4 := match e with None => n3 | Some e => snd (salloc_list e sc1 n3) end in
      (sc, n4)
  | SFor init c post body =>
      let '(sc1, n1) := salloc_opt init sc nx in
      let n2 := match c with None => n1 | Some c => snd (balloc c sc1 n1) end in
      let n3 := snd (salloc_opt post sc1 n2) in
      match loopvar_of init c post with
      | Some x => (sc, snd (salloc_list body ((x, n3) :: tl sc1) (S n3)))
      | None => (sc, snd (salloc_list body sc1 n3))
      end
  | SSwitch init tag cls =>
      let '(sc1, n1) := salloc_opt init sc nx in
      let n2 := match tag with None => n1 | Some t => snd (aalloc t sc1 n1 None) end in
      (sc, snd (salloc_list cls sc1 n2))
  | SCase ce body _ => (sc, snd (salloc_list body sc (calloc ce sc nx)))
  end.

Definition salloc_opt (o : option stmt) (sc : scope) (nx : nat) : scope * nat :=
  match o with None => (sc, nx) | Some s => salloc s sc nx end.

Fixpoint salloc_list (l : list stmt) (sc : scope) (nx : nat) : scope * nat :=
  match l with [] => (sc, nx) | s :: l' => let '(sc1, n1) := salloc s sc nx in salloc_list l' sc1 n1 end.

(* ------------------------------------------------------------------ start nodes (n.start) *)

(** wireChild: the start of a node is the start of its first child that is not an identifier or a
    literal; a node without such a child starts at itself. *)
Fixpoint astart (e : aexp) (p : path) : path :=
  match e with
  | ALit _ | AVar _ => p
  | ANeg a => if is_leaf a then p else astart a (p ++ [0%nat])
  | ABin _ a b =>
      if is_leaf a then (if is_leaf b then p else astart b (p ++ [1%nat]))
      else astart a (p ++ [0%nat])
  end.

Fixpoint bstart (e : bexp) (p : path) : path :=
  match e with
  | BLit _ => p
  | BCmp _ a b =>
      if is_leaf a then (if is_leaf b then p else astart b (p ++ [1%nat]))
      else astart a (p ++ [0%nat])
  | BNot b => if is_blit b then p else bstart b (p ++ [0%nat])
  | BAnd a _ | BOr a _ => bstart a (p ++ [0%nat])      (* landExpr/lorExpr: n.start = n.child[0].start *)
  end.

(** Condition kinds (cond.rval.IsValid() / cond.rval.Bool()). *)
Inductive condkind := CNone | CTrue | CFalse | CDyn.
Definition ckind (c : option bexp) : condkind :=
  match c with
  | None => CNone
  | Some (BLit true) => CTrue
  | Some (BLit false) => CFalse
  | Some _ => CDyn
  end.

(** Edge targets used by the wiring tables: the node itself, the start of a child, or nothing. *)
Inductive ref := RSelf | RStart (role : nat) | RNil.

(** ifStmt0..3, transcribed case by case from cfg.go (post-order).  [hi] = has init, [he] = has else. *)
Record ifwire := { if_start : ref; if_init_t : ref; if_cond_t : ref; if_cond_f : ref; if_then_t : ref; if_else_t : ref }.

Definition wire_if (hi : bool) (k : condkind) (he : bool) : ifwire :=
  match hi, he with
  | false, false => (* ifStmt0 *)
      match k with
      | CTrue => {| if_start := RStart 2; if_init_t := RNil; if_cond_t := RNil; if_cond_f := RSelf; if_then_t := RSelf; if_else_t := RNil |}
      | CFalse => {| if_start := RSelf; if_init_t := RNil; if_cond_t := RNil; if_cond_f := RSelf; if_then_t := RSelf; if_else_t := RNil |}
      | _ => {| if_start := RStart 1; if_init_t := RNil; if_cond_t := RStart 2; if_cond_f := RSelf; if_then_t := RSelf; if_else_t := RNil |}
      end
  | false, true => (* ifStmt1 *)
      match k with
      | CTrue => {| if_start := RStart 2; if_init_t := RNil; if_cond_t := RNil; if_cond_f := RNil; if_then_t := RSelf; if_else_t := RSelf |}
      | CFalse => {| if_start := RStart 3; if_init_t := RNil; if_cond_t := RNil; if_cond_f := RNil; if_then_t := RSelf; if_else_t := RSelf |}
      | _ => {| if_start := RStart 1; if_init_t := RNil; if_cond_t := RStart 2; if_cond_f := RStart 3; if_then_t := RSelf; if_else_t := RSelf |}
      end
  | true, false => (* ifStmt2 *)
      match k with
      | CTrue => {| if_start := RStart 0; if_init_t := RStart 2; if_cond_t := RNil; if_cond_f := RSelf; if_then_t := RSelf; if_else_t := RNil |}
      | CFalse => {| if_start := RStart 0; if_init_t := RSelf; if_cond_t := RNil; if_cond_f := RSelf; if_then_t := RSelf; if_else_t := RNil |}
      | _ => {| if_start := RStart 0; if_init_t := RStart 1; if_cond_t := RStart 2; if_cond_f := RSelf; if_then_t := RSelf; if_else_t := RNil |}
      end
  | true, true => (* ifStmt3 *)
      match k with
      | CTrue => {| if_start := RStart 0; if_init_t := RStart 2; if_cond_t := RNil; if_cond_f := RNil; if_then_t := RSelf; if_else_t := RSelf |}
      | CFalse => {| if_start := RStart 0; if_init_t := RStart 3; if_cond_t := RNil; if_cond_f := RNil; if_then_t := RSelf; if_else_t := RSelf |}
      | _ => {| if_start := RStart 0; if_init_t := RStart 1; if_cond_t := RStart 2; if_cond_f := RStart 3; if_then_t := RSelf; if_else_t := RSelf |}
      end
  end.

(** forStmt0..7, transcribed case by case from cfg.go.  [RStart 3] is body.start: for forStmt7 that
    is the loop-variable node ("body.start = body.child[0] // loopvar").  Note forStmt1: the body
    returns to n.start, which is init.start. *)
Record forwire := { for_start : ref; for_init_t : ref; for_cond_t : ref; for_cond_f : ref; for_post_t : ref; for_body_t : ref }.

Definition wire_for (hi : bool) (k : condkind) (hp : bool) : forwire :=
  match hi, k, hp with
  | false, CNone, false => (* forStmt0 *)
      {| for_start := RStart 3; for_init_t := RNil; for_cond_t := RNil; for_cond_f := RNil; for_post_t := RNil; for_body_t := RStart 3 |}
  | true, CNone, false => (* forStmt1 *)
      {| for_start := RStart 0; for_init_t := RStart 3; for_cond_t := RNil; for_cond_f := RNil; for_post_t := RNil; for_body_t := RStart 0 |}
  | false, CDyn, false => (* forStmt2 *)
      {| for_start := RStart 1; for_init_t := RNil; for_cond_t := RStart 3; for_cond_f := RSelf; for_post_t := RNil; for_body_t := RStart 1 |}
  | false, CTrue, false =>
      {| for_start := RStart 3; for_init_t := RNil; for_cond_t := RNil; for_cond_f := RSelf; for_post_t := RNil; for_body_t := RStart 3 |}
  | false, CFalse, false =>
      {| for_start := RSelf; for_init_t := RNil; for_cond_t := RNil; for_cond_f := RSelf; for_post_t := RNil; for_body_t := RNil |}
  | true, CDyn, false => (* forStmt3 *)
      {| for_start := RStart 0; for_init_t := RStart 1; for_cond_t := RStart 3; for_cond_f := RSelf; for_post_t := RNil; for_body_t := RStart 1 |}
  | true, CTrue, false =>
      {| for_start := RStart 0; for_init_t := RStart 3; for_cond_t := RStart 3; for_cond_f := RSelf; for_post_t := RNil; for_body_t := RStart 3 |}
  | true, CFalse, false =>
      {| for_start := RStart 0; for_init_t := RSelf; for_cond_t := RStart 3; for_cond_f := RSelf; for_post_t := RNil; for_body_t := RNil |}
  | false, CNone, true => (* forStmt4 *)
      {| for_start := RStart 3; for_init_t := RNil; for_cond_t := RNil; for_cond_f := RNil; for_post_t := RStart 3; for_body_t := RStart 2 |}
  | false, CDyn, true => (* forStmt5 *)
      {| for_start := RStart 1; for_init_t := RNil; for_cond_t := RStart 3; for_cond_f := RSelf; for_post_t := RStart 1; for_body_t := RStart 2 |}
  | false, CTrue, true =>
      {| for_start := RStart 3; for_init_t := RNil; for_cond_t := RStart 3; for_cond_f := RSelf; for_post_t := RStart 3; for_body_t := RStart 2 |}
  | false, CFalse, true =>
      {| for_start := RSelf; for_init_t := RNil; for_cond_t := RStart 3; for_cond_f := RSelf; for_post_t := RNil; for_body_t := RStart 2 |}
  | true, CNone, true => (* forStmt6 *)
      {| for_start := RStart 0; for_init_t := RStart 3; for_cond_t := RNil; for_cond_f := RNil; for_post_t := RStart 3; for_body_t := RStart 2 |}
  | true, CDyn, true => (* forStmt7 *)
      {| for_start := RStart 0; for_init_t := RStart 1; for_cond_t := RStart 3; for_cond_f := RSelf; for_post_t := RStart 1; for_body_t := RStart 2 |}
  | true, CTrue, true =>
      {| for_start := RStart 0; for_init_t := RStart 3; for_cond_t := RStart 3; for_cond_f := RSelf; for_post_t := RStart 3; for_body_t := RStart 2 |}
  | true, CFalse, true =>
      {| for_start := RStart 0; for_init_t := RSelf; for_cond_t := RStart 3; for_cond_f := RSelf; for_post_t := RNil; for_body_t := RStart 2 |}
  end.

Definition is_some {A} (o : option A) : bool := match o with Some _ => true | None => false end.

(** A 3-clause for always has the inserted loop-variable node in front of its body. *)
Definition has_lv (init : option stmt) (c : option bexp) (post : option stmt) : bool :=
  is_some init && is_some c && is_some post.

Fixpoint sstart (s : stmt) (p : path) {struct s} : path :=
  let block_start (b : list stmt) (p : path) : path :=
    match b with [] => p | s :: _ => sstart s (p ++ [0%nat]) end in
  match s with
  | SAssign _ e | SDefine _ e | SOpAssign _ _ e => if is_leaf e then p else astart e (p ++ [1%nat])
  | SIncDec _ _ => p
  | SPrint e => if is_leaf e then p else astart e (p ++ [0%nat])
  | SBlock b => block_start b p
  | SBreak | SContinue => p
  | SIf init c t e =>
      match if_start (wire_if (is_some init) (ckind (Some c)) (is_some e)) with
      | RSelf | RNil => p
      | RStart 0 => match init with Some i => sstart i (p ++ [0%nat]) | None => p end
      | RStart 1 => bstart c (p ++ [1%nat])
      | RStart 2 => block_start t (p ++ [2%nat])
      | RStart _ => match e with Some e => block_start e (p ++ [3%nat]) | None => p end
      end
  | SFor init c post body =>
      match for_start (wire_for (is_some init) (ckind c) (is_some post)) with
      | RSelf | RNil => p
      | RStart 0 => match init with Some i => sstart i (p ++ [0%nat]) | None => p end
      | RStart 1 => match c with Some c => bstart c (p ++ [1%nat]) | None => p end
      | RStart 2 => match post with Some s => sstart s (p ++ [2%nat]) | None => p end
      | RStart _ => if has_lv init c post then p ++ [4%nat] else block_start body (p ++ [3%nat])
      end
  | SSwitch init tag cls =>
      (* n.start = n.child[0].start, child[0] = init, tag or the switch block (sbn.start = clauses[0].start);
         an empty switch is not wired at all *)
      match cls with
      | [] => p
      | c0 :: _ =>
          match init, tag with
          | Some i, _ => sstart i (p ++ [0%nat])
          | None, Some t => astart t (p ++ [1%nat])
          | None, None => sstart c0 ((p ++ [2%nat]) ++ [0%nat])
          end
      end
  | SCase ce body ft =>
      (* c.start: the start of the first case expression (a literal or identifier starts at itself);
         a default clause starts at its body; an empty default clause at itself.
         caseBody: n.start = n.child[0].start, or the switch node when the body is empty *)
      let bs := match body with
                | s0 :: _ => sstart s0 ((p ++ [0%nat]) ++ [0%nat])
                | [] => if ft then (p ++ [0%nat]) ++ [0%nat] else removelast (removelast p)
                end in
      match ce with
      | CInts (e0 :: _) => astart e0 (p ++ [1%nat])
      | CBools (c0 :: _) => bstart c0 (p ++ [1%nat])
      | _ => match body, ft with [], false => p | _, _ => bs end
      end
  end.

Definition block_start (b : list stmt) (p : path) : path :=
  match b with [] => p | s :: _ => sstart s (p ++ [0%nat]) end.

(** Resolution of an edge target of an if / for node at path [p]. *)
Definition if_ref (init : option stmt) (c : bexp) (t : list stmt) (e : option (list stmt)) (p : path) (r : ref) : option path :=
  match r with
  | RNil => None
  | RSelf => Some p
  | RStart 0 => match init with Some i => Some (sstart i (p ++ [0%nat])) | None => None end
  | RStart 1 => Some (bstart c (p ++ [1%nat]))
  | RStart 2 => Some (block_start t (p ++ [2%nat]))
  | RStart _ => match e with Some e => Some (block_start e (p ++ [3%nat])) | None => None end
  end.

Definition body_start (init : option stmt) (c : option bexp) (post : option stmt) (body : list stmt) (p : path) : path :=
  if has_lv init c post then p ++ [4%nat] else block_start body (p ++ [3%nat]).

Definition for_ref (init : option stmt) (c : option bexp) (post : option stmt) (body : list stmt) (p : path) (r : ref) : option path :=
  match r with
  | RNil => None
  | RSelf => Some p
  | RStart 0 => match init with Some i => Some (sstart i (p ++ [0%nat])) | None => None end
  | RStart 1 => match c with Some c => Some (bstart c (p ++ [1%nat])) | None => None end
  | RStart 2 => match post with Some s => Some (sstart s (p ++ [2%nat])) | None => None end
  | RStart _ => Some (body_start init c post body p)
  end.

(* ------------------------------------------------------------------ switch *)

(** The body of a clause is the block [Syntax.case_body]: the fallthrough node is its last statement. *)

(** body.start of a clause at path [pc] of the switch at [sw] (clauses[i].lastChild().start). *)
Definition clause_body_start (c : stmt) (sw pc : path) : path :=
  match c with
  | SCase _ body ft =>
      match case_body body ft with [] => sw | s0 :: _ => sstart s0 ((pc ++ [0%nat]) ++ [0%nat]) end
  | _ => pc
  end.

Definition clause_exprs (c : stmt) : nat :=
  match c with SCase (CInts l) _ _ => length l | SCase (CBools l) _ _ => length l | _ => 0%nat end.

(** len(c.child) == 0: [default:] with nothing after it. *)
Definition clause_empty (c : stmt) : bool :=
  match c with SCase ce body ft => Nat.eqb (clause_exprs c) 0 && match case_body body ft with [] => true | _ => false end | _ => false end.

Definition clause_ft (c : stmt) : bool := match c with SCase _ _ ft => ft | _ => false end.

(** Edge targets of the clause loop of switchStmt / switchIfStmt. *)
Inductive cref :=
| CNil | CSwitch (* n *) | CClause (* c *) | CBodyStart | CChild0Start (* c.child[0].start, cond.start *)
| CNextBodyStart (* clauses[i+1].lastChild().start *) | CNextStart (* clauses[i+1].start *) | CNext (* clauses[i+1] *).

(** switchStmt, "Chain case clauses", one iteration; the guards are
    [empty]: len(c.child) == 0, [last]: i == l-1, [ft]: i < l-1 && the body ends with fallthrough,
    [nempty]: len(clauses[i+1].child) == 0, [nmulti]: len(clauses[i+1].child) > 1. *)
Record casewire := { cw_tnext : cref; cw_child0_t : cref; cw_start : cref; cw_body_t : cref; cw_fnext : cref }.

Definition wire_case (empty last ft nempty nmulti : bool) : casewire :=
  {| cw_tnext := if empty then CSwitch else CBodyStart;
     cw_child0_t := if empty then CNil else CClause;
     cw_start := if empty then CNil else CChild0Start;
     cw_body_t := if empty then CNil else if ft then (if nempty then CSwitch else CNextBodyStart) else CSwitch;
     cw_fnext := if last then CSwitch else if nmulti then CNextStart else CNext |}.

(** switchIfStmt, one iteration; [hascond]: len(c.child) > 1. *)
Record caseifwire := { ci_tnext : cref; ci_fnext : cref; ci_cond_t : cref; ci_cond_f : cref; ci_start : cref; ci_body_t : cref }.

Definition wire_caseif (empty hascond last ft : bool) : caseifwire :=
  if empty then {| ci_tnext := CSwitch; ci_fnext := CSwitch; ci_cond_t := CNil; ci_cond_f := CNil; ci_start := CNil; ci_body_t := CNil |}
  else {| ci_tnext := CNil; ci_fnext := CNil;
          ci_cond_t := if hascond then CBodyStart else CNil;
          ci_cond_f := if hascond then (if last then CSwitch else CNextStart) else CNil;
          ci_start := if hascond then CChild0Start else CBodyStart;
          ci_body_t := if ft then CNextBodyStart else CSwitch |}.

(** The switch node itself: sbn.start = clauses[0].start; n.start = n.child[0].start;
    n.child[0].tnext = sbn.start (with an init statement the tag is never entered). *)

Definition clause_ref (c : stmt) (next : option stmt) (sw pc pn : path) (r : cref) : option path :=
  match r with
  | CNil => None
  | CSwitch => Some sw
  | CClause => Some pc
  | CBodyStart => Some (clause_body_start c sw pc)
  | CChild0Start => Some (sstart c pc)
  | CNextBodyStart => match next with Some c' => Some (clause_body_start c' sw pn) | None => None end
  | CNextStart => match next with Some c' => Some (sstart c' pn) | None => None end
  | CNext => match next with Some _ => Some pn | None => None end
  end.

(** The default swap of cfg.go: c[i], c[l] = c[l], c[i] for the first default clause i, l the last index. *)
Definition is_default_clause (c : stmt) : bool :=
  match c with SCase ce body ft => Nat.eqb (clause_exprs c) 0 | _ => false end.

Fixpoint first_default (cls : list stmt) (i : nat) : option nat :=
  match cls with
  | [] => None
  | c :: cls' => if is_default_clause c then Some i else first_default cls' (S i)
  end.

Fixpoint set_nth (l : list stmt) (i : nat) (x : stmt) : list stmt :=
  match l, i with
  | [], _ => []
  | _ :: l', O => x :: l'
  | y :: l', S i' => y :: set_nth l' i' x
  end.

Definition swap_default (cls : list stmt) : list stmt :=
  match first_default cls 0%nat with
  | None => cls
  | Some i =>
      let l := Nat.pred (length cls) in
      if Nat.eqb i l then cls
      else match nth_error cls i, nth_error cls l with
           | Some ci, Some cl => set_nth (set_nth cls i cl) l ci
           | _, _ => cls
           end
  end.

Fixpoint norm (s : stmt) {struct s} : stmt :=
  let norm_opt (o : option stmt) := match o with Some s => Some (norm s) | None => None end in
  match s with
  | SBlock b => SBlock (map norm b)
  | SIf init c t e => SIf (norm_opt init) c (map norm t) (match e with Some l => Some (map norm l) | None => None end)
  | SFor init c post body => SFor (norm_opt init) c (norm_opt post) (map norm body)
  | SSwitch init tag cls => SSwitch (norm_opt init) tag (swap_default (map norm cls))
  | SCase ce body ft => SCase ce (map norm body) ft
  | _ => s
  end.

(* ------------------------------------------------------------------ the nodes *)

(** Integer expression [e] at absolute path [self]; its own node goes to [tn] afterwards.
    [q] is the path below [self]. *)
Fixpoint anode_at (q : path) (e : aexp) (sc : scope) (nx : nat) (dst : option nat) (self : path) (tn : option path) {struct q} : option cnode :=
  match q with
  | [] =>
      match e with
      | ALit _ | AVar _ => Some (mknode XNop tn None)
      | ANeg a =>
          let '(oa, n1) := aalloc a sc nx None in
          Some (mknode (XNeg oa (fst (dest dst n1))) tn None)
      | ABin op a b =>
          let '(oa, n1) := aalloc a sc nx None in
          let '(ob, n2) := aalloc b sc n1 None in
          Some (mknode (XArith op oa ob (fst (dest dst n2))) tn None)
      end
  | i :: q' =>
      match e with
      | ANeg a => if Nat.eqb i 0 then anode_at q' a sc nx None (self ++ [0%nat]) (Some self) else None
      | ABin _ a b =>
          if Nat.eqb i 0 then
            (* wireChild: a.tnext = b.start when b is executed, else a.tnext = n *)
            anode_at q' a sc nx None (self ++ [0%nat]) (Some (if is_leaf b then self else astart b (self ++ [1%nat])))
          else if Nat.eqb i 1 then
            anode_at q' b sc (snd (aalloc a sc nx None)) None (self ++ [1%nat]) (Some self)
          else None
      | _ => None
      end
  end.

Fixpoint bnode_at (q : path) (e : bexp) (sc : scope) (nx : nat) (self : path) (tn fn : option path) {struct q} : option cnode :=
  match q with
  | [] =>
      match e with
      | BLit b => Some (mknode (match fn with Some _ => XBranch (BConst b) | None => XNop end) tn fn)
      | BCmp op a b =>
          let '(oa, n1) := aalloc a sc nx None in
          let '(ob, n2) := aalloc b sc n1 None in
          Some (mknode (XCmp op oa ob n2) tn fn)
      | BNot b => let '(ob, n1) := balloc b sc nx in Some (mknode (XNot ob n1) tn fn)
      | BAnd a b =>
          let '(oa, n1) := balloc a sc nx in
          let '(ob, n2) := balloc b sc n1 in Some (mknode (XLand oa ob n2) tn fn)
      | BOr a b =>
          let '(oa, n1) := balloc a sc nx in
          let '(ob, n2) := balloc b sc n1 in Some (mknode (XLor oa ob n2) tn fn)
      end
  | i :: q' =>
      match e with
      | BLit _ => None
      | BCmp _ a b =>
          if Nat.eqb i 0 then
            anode_at q' a sc nx None (self ++ [0%nat]) (Some (if is_leaf b then self else astart b (self ++ [1%nat])))
          else if Nat.eqb i 1 then
            anode_at q' b sc (snd (aalloc a sc nx None)) None (self ++ [1%nat]) (Some self)
          else None
      | BNot b => if Nat.eqb i 0 then bnode_at q' b sc nx (self ++ [0%nat]) (Some self) None else None
      | BAnd a b =>
          (* landExpr: child0.tnext = child1.start; setFNext(child0, n); child1.tnext = n *)
          if Nat.eqb i 0 then bnode_at q' a sc nx (self ++ [0%nat]) (Some (bstart b (self ++ [1%nat]))) (Some self)
          else if Nat.eqb i 1 then bnode_at q' b sc (snd (balloc a sc nx)) (self ++ [1%nat]) (Some self) None
          else None
      | BOr a b =>
          (* lorExpr: child0.tnext = n; setFNext(child0, child1.start); child1.tnext = n *)
          if Nat.eqb i 0 then bnode_at q' a sc nx (self ++ [0%nat]) (Some self) (Some (bstart b (self ++ [1%nat])))
          else if Nat.eqb i 1 then bnode_at q' b sc (snd (balloc a sc nx)) (self ++ [1%nat]) (Some self) None
          else None
      end
  end.

(** Successor context of a statement: where its own node continues, and the targets of break
    (sc.loop: the enclosing for node) and continue (sc.loopRestart: the body block of that loop). *)
Record sctx := mkctx { k_next : option path; k_brk : option path; k_cont : option path }.

Definition operand_of (e : aexp) (sc : scope) (nx : nat) (dst : option nat) : operand := fst (aalloc e sc nx dst).

(** wireChild on a block: statement i continues at the start of statement i+1, the last one at the
    block node itself. *)
Definition next_in_block (b : list stmt) (i : nat) (self : path) : option path :=
  match nth_error b (S i) with
  | Some s' => Some (sstart s' (self ++ [S i]))
  | None => Some self
  end.

Fixpoint snode_at (q : path) (s : stmt) (sc : scope) (nx : nat) (K : sctx) (self : path) {struct q} : option cnode :=
  match q with
  | [] =>
      match s with
      | SAssign x e =>
          match slot_of x sc with
          | None => Some (mknode XNop (k_next K) None)
          | Some d =>
              if is_leaf e then Some (mknode (XAssign (operand_of e sc nx None) d) (k_next K) None)
              else Some (mknode XNop (k_next K) None)   (* arithmetic source: n.gen = nop, result already in place *)
          end
      | SDefine x e =>
          let '(o, n1) := aalloc e sc nx None in Some (mknode (XAssign o n1) (k_next K) None)
      | SOpAssign op x e =>
          match slot_of x sc with
          | None => Some (mknode (XOpAssign op (operand_of e sc nx None) nx) (k_next K) None)
          | Some d => Some (mknode (XOpAssign op (operand_of e sc nx None) d) (k_next K) None)
          end
      | SIncDec inc x =>
          match slot_of x sc with
          | None => Some (mknode XNop (k_next K) None)
          | Some d => Some (mknode (XIncDec inc d) (k_next K) None)
          end
      | SPrint e => Some (mknode (XPrint (operand_of e sc nx None)) (k_next K) None)
      | SBlock _ | SIf _ _ _ _ | SFor _ _ _ _ | SSwitch _ _ _ => Some (mknode XNop (k_next K) None)
      | SCase _ _ _ => None         (* clause nodes are made by the switch *)
      | SBreak => Some (mknode XNop (k_brk K) None)
      | SContinue => Some (mknode XNop (k_cont K) None)
      end
  | i :: q' =>
      match s with
      | SAssign x e =>
          if Nat.eqb i 1 then anode_at q' e sc nx (assign_dst x sc) (self ++ [1%nat]) (Some self) else None
      | SDefine _ e | SOpAssign _ _ e =>
          if Nat.eqb i 1 then anode_at q' e sc nx None (self ++ [1%nat]) (Some self) else None
      | SPrint e =>
          if Nat.eqb i 0 then anode_at q' e sc nx None (self ++ [0%nat]) (Some self) else None
      | SBlock b =>
          match nth_error b i with
          | Some s0 =>
              let '(sci, ni) := salloc_list (firstn i b) sc nx in
              snode_at q' s0 sci ni (mkctx (next_in_block b i self) (k_brk K) (k_cont K)) (self ++ [i])
          | None => None
          end
      | SIf init c t e =>
          let w := wire_if (is_some init) (ckind (Some c)) (is_some e) in
          let r := if_ref init c t e self in
          let '(sc1, n1) := salloc_opt init sc nx in
          let n2 := snd (balloc c sc1 n1) in
          let n3 := snd (salloc_list t sc1 n2) in
          match i with
          | 0%nat => match init with
                     | Some s0 => snode_at q' s0 sc nx (mkctx (r (if_init_t w)) (k_brk K) (k_cont K)) (self ++ [0%nat])
                     | None => None
                     end
          | 1%nat => bnode_at q' c sc1 n1 (self ++ [1%nat]) (r (if_cond_t w)) (r (if_cond_f w))
          | 2%nat => snode_at q' (SBlock t) sc1 n2 (mkctx (r (if_then_t w)) (k_brk K) (k_cont K)) (self ++ [2%nat])
          | 3%nat => match e with
                     | Some e => snode_at q' (SBlock e) sc1 n3 (mkctx (r (if_else_t w)) (k_brk K) (k_cont K)) (self ++ [3%nat])
                     | None => None
                     end
          | _ => None
          end
      | SFor init c post body =>
          let w := wire_for (is_some init) (ckind c) (is_some post) in
          let r := for_ref init c post body self in
          let '(sc1, n1) := salloc_opt init sc nx in
          let n2 := match c with None => n1 | Some c => snd (balloc c sc1 n1) end in
          let n3 := snd (salloc_opt post sc1 n2) in
          let inner := mkctx None (Some self) (Some (self ++ [3%nat])) in
          match i with
          | 0%nat => match init with
                     | Some s0 => snode_at q' s0 sc nx (mkctx (r (for_init_t w)) (k_brk K) (k_cont K)) (self ++ [0%nat])
                     | None => None
                     end
          | 1%nat => match c with
                     | Some c => bnode_at q' c sc1 n1 (self ++ [1%nat]) (r (for_cond_t w)) (r (for_cond_f w))
                     | None => None
                     end
          | 2%nat => match post with
                     | Some s2 => snode_at q' s2 sc1 n2 (mkctx (r (for_post_t w)) (k_brk K) (k_cont K)) (self ++ [2%nat])
                     | None => None
                     end
          | 3%nat =>
              let K3 := mkctx (r (for_body_t w)) (Some self) (Some (self ++ [3%nat])) in
              match loopvar_of init c post with
              | Some x => snode_at q' (SBlock body) ((x, n3) :: tl sc1) (S n3) K3 (self ++ [3%nat])
              | None => snode_at q' (SBlock body) sc1 n3 K3 (self ++ [3%nat])
              end
          | 4%nat =>
              (* the loop-variable node: wireChild gives it the start of the first body statement, or
                 nothing when the body is empty *)
              if has_lv init c post then
                match q' with
                | [] =>
                    let tn := match body with [] => None | s0 :: _ => Some (sstart s0 (self ++ [3%nat; 0%nat])) end in
                    match loopvar_of init c post with
                    | Some x => Some (mknode (match slot_of x sc1 with Some sx => XLoopVar sx n3 | None => XNop end) tn None)
                    | None => Some (mknode XNop tn None)
                    end
                | _ => None
                end
              else None
          | _ => let _ := inner in None
          end
      | SSwitch init tag cls =>
          let '(sc1, n1) := salloc_opt init sc nx in
          let otag := match tag with Some t => fst (aalloc t sc1 n1 None) | None => OConst 0 end in
          let n2 := match tag with None => n1 | Some t => snd (aalloc t sc1 n1 None) end in
          let sbn := self ++ [2%nat] in
          let sbn_start := match cls with c0 :: _ => Some (sstart c0 (sbn ++ [0%nat])) | [] => None end in
          match i with
          | 0%nat => match init with
                     | Some s0 => snode_at q' s0 sc nx (mkctx sbn_start (k_brk K) (k_cont K)) (self ++ [0%nat])
                     | None => None
                     end
          | 1%nat => match tag with
                     | Some t => anode_at q' t sc1 n1 None (self ++ [1%nat]) (if is_some init then None else sbn_start)
                     | None => None
                     end
          | 2%nat =>
              match q' with
              | [] => Some (mknode XNop sbn_start None)
              | j :: q'' =>
                  match nth_error cls j with
                  | Some (SCase ce body ft as c) =>
                      let nj := snd (salloc_list (firstn j cls) sc1 n2) in
                      let next := nth_error cls (S j) in
                      let pc := sbn ++ [j] in
                      let r := clause_ref c next self pc (sbn ++ [S j]) in
                      let empty := clause_empty c in
                      let last := negb (is_some next) in
                      let ftx := is_some next && ft in
                      let w := wire_case empty last ftx
                                 (match next with Some c' => clause_empty c' | None => false end)
                                 (match next with Some c' => Nat.ltb 0 (clause_exprs c') | None => false end) in
                      let wi := wire_caseif empty (Nat.ltb 0 (clause_exprs c)) last ftx in
                      let tagged := is_some tag in
                      match q'' with
                      | [] =>
                          if tagged then
                            match ce with
                            | CInts ((_ :: _) as l) => Some (mknode (XCase otag (fst (aalloc_list l sc1 nj))) (r (cw_tnext w)) (r (cw_fnext w)))
                            | _ => Some (mknode XNop (r (cw_tnext w)) (r (cw_fnext w)))
                            end
                          else Some (mknode XNop (r (ci_tnext wi)) (r (ci_fnext wi)))
                      | 0%nat :: q3 =>
                          snode_at q3 (SBlock (case_body body ft)) sc1 (calloc ce sc1 nj)
                            (mkctx (r (if tagged then cw_body_t w else ci_body_t wi)) (Some self) (k_cont K)) (pc ++ [0%nat])
                      | S k :: q3 =>
                          match ce with
                          | CInts l =>
                              match nth_error l k with
                              | Some e => anode_at q3 e sc1 (snd (aalloc_list (firstn k l) sc1 nj)) None (pc ++ [S k])
                                            (match k with 0%nat => r (cw_child0_t w) | _ => None end)
                              | None => None
                              end
                          | CBools l =>
                              match nth_error l k with
                              | Some e =>
                                  match k with
                                  | 0%nat => bnode_at q3 e sc1 nj (pc ++ [1%nat]) (r (ci_cond_t wi)) (r (ci_cond_f wi))
                                  | _ => bnode_at q3 e sc1 (balloc_list (firstn k l) sc1 nj) (pc ++ [S k]) None None
                                  end
                              | None => None
                              end
                          | CDefault => None
                          end
                      end
                  | _ => None
                  end
              end
          | _ => None
          end
      | _ => None
      end
  end
.

(** The compiled program: the body of main is the block at the root; after it the function ends. *)
Definition compile (p : program) : cfg :=
  let p' := map norm p in
  fun q => snode_at q (SBlock p') [] 0%nat (mkctx None None None) [].

Definition entry (p : program) : path := block_start (map norm p) [].

(* ------------------------------------------------------------------ the machine (runCfg) *)

Inductive mres :=
| MRun (n : option path) (fr : frame) (out : list Z)
| MPanic (out : list Z).

Definition branch_to (nd : cnode) (b : bool) : option path :=
  match fnext nd with
  | Some f => if b then tnext nd else Some f
  | None => tnext nd
  end.

Definition exec_node (nd : cnode) (fr : frame) (out : list Z) : mres :=
  match act nd with
  | XNop => MRun (tnext nd) fr out
  | XArith op a b d =>
      match arith op (oval fr a) (oval fr b) with
      | Some r => MRun (tnext nd) (set fr d (VI r)) out
      | None => MPanic out
      end
  | XNeg a d => MRun (tnext nd) (set fr d (VI (wrap (- oval fr a)))) out
  | XCmp op a b d =>
      let r := compare op (oval fr a) (oval fr b) in MRun (branch_to nd r) (set fr d (VB r)) out
  | XNot a d => let r := negb (bval fr a) in MRun (branch_to nd r) (set fr d (VB r)) out
  | XLand a b d => let r := bval fr a && bval fr b in MRun (branch_to nd r) (set fr d (VB r)) out
  | XLor a b d => let r := bval fr a || bval fr b in MRun (branch_to nd r) (set fr d (VB r)) out
  | XBranch a => MRun (branch_to nd (bval fr a)) fr out
  | XAssign src d => MRun (tnext nd) (set fr d (VI (oval fr src))) out
  | XOpAssign op src d =>
      match arith op (geti fr d) (oval fr src) with
      | Some r => MRun (tnext nd) (set fr d (VI r)) out
      | None => MPanic out
      end
  | XIncDec inc d => MRun (tnext nd) (set fr d (VI (wrap (geti fr d + (if inc then 1 else -1))))) out
  | XLoopVar src d => MRun (tnext nd) (set fr d (fr src)) out
  | XPrint a => MRun (tnext nd) fr (out ++ [oval fr a])
  | XCase t vals => MRun (branch_to nd (existsb (fun o => Z.eqb (oval fr t) (oval fr o)) vals)) fr out
  end.

(** One iteration of "for exec := n.exec; exec != nil; exec = exec(f)". A missing node ends the run. *)
Definition step (g : cfg) (p : path) (fr : frame) (out : list Z) : mres :=
  match g p with
  | Some nd => exec_node nd fr out
  | None => MRun None fr out
  end.

Fixpoint run_from (fuel : nat) (g : cfg) (n : option path) (fr : frame) (out : list Z) : result :=
  match n with
  | None => Done out false
  | Some p =>
      match fuel with
      | O => OutOfFuel
      | S f =>
          match step g p fr out with
          | MRun n' fr' out' => run_from f g n' fr' out'
          | MPanic out' => Done out' true
          end
      end
  end.

Definition frame0 : frame := fun _ => VI 0.

Definition run (fuel : nat) (p : program) : result :=
  run_from fuel (compile p) (Some (entry p)) frame0 [].
