(** C01 — properties of G alone: the environment after a statement extends the environment before it,
    and variables that a statement does not assign keep their value. *)
From Verif Require Import Core.Syntax Core.GoSem Core.Cfg Core.Wf Core.Lemmas.
Local Open Scope nat_scope.

Definition keeps (X : ident -> bool) (E Eb : env) : Prop :=
  Forall2 (fun a b => fst a = fst b /\ (X (fst a) = true -> snd a = snd b)) E Eb.

Definition ext_of (X : ident -> bool) (E E' : env) : Prop :=
  exists Ext Eb, E' = Ext ++ Eb /\ keeps X E Eb.

Lemma keeps_refl X E : keeps X E E.
Proof. induction E; constructor; auto. Qed.

Lemma keeps_length X E Eb : keeps X E Eb -> length Eb = length E.
Proof. intros H. symmetry. eapply Forall2_length; eauto. Qed.

Lemma keeps_trans X E1 E2 E3 : keeps X E1 E2 -> keeps X E2 E3 -> keeps X E1 E3.
Proof.
  intros H. revert E3. induction H as [|a b E1 E2 [Hn Hv] H IH]; intros E3 H3; inversion H3; subst; constructor.
  - destruct H2 as [Hn' Hv']. split; [congruence|]. intros Hx. rewrite Hv by exact Hx. apply Hv'. rewrite <- Hn. exact Hx.
  - apply IH. assumption.
Qed.

Lemma keeps_app_inv X A B E :
  keeps X (A ++ B) E -> exists A' B', E = A' ++ B' /\ keeps X A A' /\ keeps X B B'.
Proof.
  revert E. induction A as [|a A IH]; intros E H; simpl in *.
  - exists [], E. repeat split; [constructor | exact H].
  - inversion H; subst. destruct (IH _ H4) as [A' [B' [-> [HA HB]]]].
    exists (y :: A'), B'. repeat split; [constructor; assumption | exact HB].
Qed.

Lemma ext_refl X E : ext_of X E E.
Proof. exists [], E. split; [reflexivity | apply keeps_refl]. Qed.

Lemma ext_trans X E E1 E2 : ext_of X E E1 -> ext_of X E1 E2 -> ext_of X E E2.
Proof.
  intros [X1 [B1 [-> K1]]] [X2 [B2 [-> K2]]].
  destruct (keeps_app_inv _ _ _ _ K2) as [A' [B' [-> [HA HB]]]].
  exists (X2 ++ A'), B'. split; [rewrite app_assoc; reflexivity | eapply keeps_trans; eauto].
Qed.

Lemma restore_app E Ext Eb : length Eb = length E -> restore E (Ext ++ Eb) = Eb.
Proof.
  intros L. unfold restore. rewrite app_length, L.
  replace (length Ext + length E - length E) with (length Ext) by lia.
  rewrite skipn_app, skipn_all, Nat.sub_diag. reflexivity.
Qed.

Lemma ext_restore X E E' : ext_of X E E' -> keeps X E (restore E E').
Proof.
  intros [Ext [Eb [-> K]]]. rewrite restore_app; [exact K | eapply keeps_length; eauto].
Qed.

Lemma ext_restore_ext X E E' : ext_of X E E' -> ext_of X E (restore E E').
Proof. intros H. exists [], (restore E E'). split; [reflexivity | apply ext_restore; exact H]. Qed.

Lemma ext_push X E x v : ext_of X E ((x, v) :: E).
Proof. exists [(x, v)], E. split; [reflexivity | apply keeps_refl]. Qed.

Lemma keeps_update X E y v : X y = false -> keeps X E (update y v E).
Proof.
  intros Hy. induction E as [|[z w] E IH]; simpl; [constructor|].
  destruct (Nat.eqb_spec y z); constructor; simpl; auto.
  - split; [reflexivity|]. subst z. congruence.
  - apply keeps_refl.
Qed.

Lemma ext_update X E y v : X y = false -> ext_of X E (update y v E).
Proof. intros H. exists [], (update y v E). split; [reflexivity | apply keeps_update; exact H]. Qed.

Lemma negb_false_of_true b : negb b = true -> b = false.
Proof. destruct b; simpl; congruence. Qed.

(** Unfolding equations. *)
Lemma exec_if_eq n init c t e E out :
  exec (S n) (SIf init c t e) E out =
  match exec_opt n init E out with
  | Fuel => Fuel
  | Res ONormal E1 out1 =>
      match beval E1 c with
      | None => Res OPanic (restore E E1) out1
      | Some true =>
          match exec_list n t E1 out1 with
          | Fuel => Fuel
          | Res o E2 out2 => Res o (restore E E2) out2
          end
      | Some false =>
          match e with
          | None => Res ONormal (restore E E1) out1
          | Some e =>
              match exec_list n e E1 out1 with
              | Fuel => Fuel
              | Res o E2 out2 => Res o (restore E E2) out2
              end
          end
      end
  | Res o E1 out1 => Res o (restore E E1) out1
  end.
Proof. reflexivity. Qed.

Lemma exec_for_eq n init c post body E out :
  exec (S n) (SFor init c post body) E out =
  match exec_opt n init E out with
  | Fuel => Fuel
  | Res ONormal E1 out1 =>
      match loop n c post body E1 out1 with
      | Fuel => Fuel
      | Res o E2 out2 => Res o (restore E E2) out2
      end
  | Res o E1 out1 => Res o (restore E E1) out1
  end.
Proof. reflexivity. Qed.

Lemma loop_eq n c post body E out :
  loop (S n) c post body E out =
  match opt_cond E c with
  | None => Res OPanic E out
  | Some false => Res ONormal E out
  | Some true =>
      match exec_list n body E out with
      | Fuel => Fuel
      | Res OBreak E1 out1 => Res ONormal (restore E E1) out1
      | Res OPanic E1 out1 => Res OPanic (restore E E1) out1
      | Res _ E1 out1 =>
          match exec_opt n post (restore E E1) out1 with
          | Fuel => Fuel
          | Res ONormal E2 out2 => loop n c post body E2 out2
          | Res o E2 out2 => Res o E2 out2
          end
      end
  end.
Proof. reflexivity. Qed.

Lemma exec_switch_eq n init tag cls E out :
  exec (S n) (SSwitch init tag cls) E out =
  match exec_opt n init E out with
  | Fuel => Fuel
  | Res ONormal E1 out1 =>
      match eval_tag E1 tag with
      | None => Res OPanic (restore E E1) out1
      | Some tv =>
          match select E1 tv cls 0 with
          | None => Res OPanic (restore E E1) out1
          | Some sel =>
              match (match sel with Some i => Some i | None => default_index cls 0 end) with
              | None => Res ONormal (restore E E1) out1
              | Some i =>
                  match run_clauses (exec_list n) (skipn i cls) E1 out1 with
                  | Fuel => Fuel
                  | Res OBreak E2 out2 => Res ONormal (restore E E2) out2
                  | Res o E2 out2 => Res o (restore E E2) out2
                  end
              end
          end
      end
  | Res o E1 out1 => Res o (restore E E1) out1
  end.
Proof. reflexivity. Qed.

Lemma forallb_skipn {A} (f : A -> bool) l : forall i, forallb f l = true -> forallb f (skipn i l) = true.
Proof.
  induction l as [|a l IH]; intros [|i] H; simpl in *; auto.
  apply andb_prop in H. destruct H as [_ H]. apply IH. exact H.
Qed.

Lemma na_case_body X body ft : forallb (na X) body = true -> forallb (na X) (case_body body ft) = true.
Proof. intros H. destruct ft; simpl; [|exact H]. rewrite forallb_app, H. reflexivity. Qed.

Lemma run_clauses_ext X (xl : list stmt -> env -> list Z -> res) :
  (forall l E out o E' out', xl l E out = Res o E' out' -> forallb (na X) l = true -> ext_of X E E') ->
  forall cls E out o E' out', run_clauses xl cls E out = Res o E' out' -> forallb (na X) cls = true -> ext_of X E E'.
Proof.
  intros Hx. induction cls as [|c cls IH]; intros E out o E' out' H Hna; simpl in H.
  - inversion H; subst. apply ext_refl.
  - simpl in Hna. apply andb_prop in Hna. destruct Hna as [Hc Hcls].
    destruct c; try (inversion H; subst; apply ext_refl).
    simpl in Hc.
    destruct (xl (case_body body ft) E out) as [|o1 E1 out1] eqn:Hb; [discriminate|].
    assert (X1 : ext_of X E (restore E E1)) by (apply ext_restore_ext; eapply Hx; [exact Hb | apply na_case_body; exact Hc]).
    destruct o1; try (inversion H; subst; exact X1).
    destruct ft; [|inversion H; subst; exact X1].
    eapply ext_trans; [exact X1 | eapply IH; eauto].
Qed.

(** Main structural lemma of G. *)
Definition G_ext_stmt (X : ident -> bool) (n : nat) : Prop :=
  (forall s E out o E' out', exec n s E out = Res o E' out' -> na X s = true -> ext_of X E E') /\
  (forall l E out o E' out', exec_list n l E out = Res o E' out' -> forallb (na X) l = true -> ext_of X E E') /\
  (forall c post body E out o E' out', loop n c post body E out = Res o E' out' ->
      na_opt X post = true -> forallb (na X) body = true -> ext_of X E E').

Lemma G_ext X : forall n, G_ext_stmt X n.
Proof.
  induction n as [|n [IHe [IHl IHp]]].
  - repeat split; intros; simpl in *; discriminate.
  - assert (IHo : forall s E out o E' out', exec_opt n s E out = Res o E' out' -> na_opt X s = true -> ext_of X E E').
    { intros s E out o E' out' H Hna. destruct s as [s|]; simpl in H; [eapply IHe; eauto | inversion H; subst; apply ext_refl]. }
    repeat split.
    + (* exec *)
      intros s E out o E' out' H Hna. destruct s; rewrite ?exec_if_eq, ?exec_for_eq, ?exec_switch_eq in H; simpl in H.
      * destruct (aeval E e); inversion H; subst; [|apply ext_refl].
        apply ext_update. simpl in Hna. apply negb_false_of_true. exact Hna.
      * destruct (aeval E e); inversion H; subst; [apply ext_push | apply ext_refl].
      * destruct (aeval E e); [|inversion H; subst; apply ext_refl].
        destruct (arith op (get x E) z); inversion H; subst; [|apply ext_refl].
        apply ext_update. simpl in Hna. apply negb_false_of_true. exact Hna.
      * inversion H; subst. apply ext_update. simpl in Hna. apply negb_false_of_true. exact Hna.
      * destruct (aeval E e); inversion H; subst; apply ext_refl.
      * destruct (exec_list n b E out) as [|o1 E1 out1] eqn:Hb; [discriminate|]. inversion H; subst.
        apply ext_restore_ext. eapply IHl; eauto.
      * simpl in Hna. apply andb_prop in Hna. destruct Hna as [Hna He]. apply andb_prop in Hna. destruct Hna as [Hi Ht].
        destruct (exec_opt n init E out) as [|o1 E1 out1] eqn:Hinit; [discriminate|].
        assert (X1 : ext_of X E E1) by (eapply IHo; eauto).
        destruct o1; try (inversion H; subst; apply ext_restore_ext; exact X1).
        destruct (beval E1 c) as [[|]|].
        -- destruct (exec_list n t E1 out1) as [|o2 E2 out2] eqn:Ht2; [discriminate|]. inversion H; subst.
           apply ext_restore_ext. eapply ext_trans; [exact X1 | eapply IHl; eauto].
        -- destruct e as [l|].
           ++ destruct (exec_list n l E1 out1) as [|o2 E2 out2] eqn:Ht2; [discriminate|]. inversion H; subst.
              apply ext_restore_ext. eapply ext_trans; [exact X1 | eapply IHl; eauto].
           ++ inversion H; subst. apply ext_restore_ext. exact X1.
        -- inversion H; subst. apply ext_restore_ext. exact X1.
      * simpl in Hna. apply andb_prop in Hna. destruct Hna as [Hna Hb]. apply andb_prop in Hna. destruct Hna as [Hi Hp].
        destruct (exec_opt n init E out) as [|o1 E1 out1] eqn:Hinit; [discriminate|].
        assert (X1 : ext_of X E E1) by (eapply IHo; eauto).
        destruct o1; try (inversion H; subst; apply ext_restore_ext; exact X1).
        destruct (loop n c post body E1 out1) as [|o2 E2 out2] eqn:Hl; [discriminate|]. inversion H; subst.
        apply ext_restore_ext. eapply ext_trans; [exact X1 | eapply IHp; eauto].
      * inversion H; subst. apply ext_refl.
      * inversion H; subst. apply ext_refl.
      * simpl in Hna. apply andb_prop in Hna. destruct Hna as [Hi Hc].
        destruct (exec_opt n init E out) as [|o1 E1 out1] eqn:Hinit; [discriminate|].
        assert (X1 : ext_of X E E1) by (eapply IHo; eauto).
        destruct o1; try (inversion H; subst; apply ext_restore_ext; exact X1).
        destruct (eval_tag E1 tag) as [tv|]; [|inversion H; subst; apply ext_restore_ext; exact X1].
        destruct (select E1 tv cls 0) as [sel|]; [|inversion H; subst; apply ext_restore_ext; exact X1].
        destruct (match sel with Some i => Some i | None => default_index cls 0 end) as [i|];
          [|inversion H; subst; apply ext_restore_ext; exact X1].
        destruct (run_clauses (exec_list n) (skipn i cls) E1 out1) as [|o2 E2 out2] eqn:Hr; [discriminate|].
        assert (X2 : ext_of X E1 E2) by (eapply run_clauses_ext; [exact IHl | exact Hr | apply forallb_skipn; exact Hc]).
        destruct o2; inversion H; subst; apply ext_restore_ext; eapply ext_trans; eauto.
      * inversion H; subst. apply ext_refl.
    + intros l E out o E' out' H Hna. destruct l as [|s l]; simpl in H; [inversion H; subst; apply ext_refl|].
      simpl in Hna. apply andb_prop in Hna. destruct Hna as [Hs Hl].
      destruct (exec n s E out) as [|o1 E1 out1] eqn:Hs1; [discriminate|].
      assert (X1 : ext_of X E E1) by (eapply IHe; eauto).
      destruct o1; try (inversion H; subst; exact X1).
      eapply ext_trans; [exact X1 | eapply IHl; eauto].
    + intros c post body E out o E' out' H Hp Hb. rewrite loop_eq in H.
      destruct (opt_cond E c) as [[|]|]; try (inversion H; subst; apply ext_refl).
      destruct (exec_list n body E out) as [|o1 E1 out1] eqn:Hb1; [discriminate|].
      assert (X1 : ext_of X E E1) by (eapply IHl; eauto).
      assert (X2 : ext_of X E (restore E E1)) by (apply ext_restore_ext; exact X1).
      assert (Hcont : forall r, match exec_opt n post (restore E E1) out1 with
                  | Fuel => Fuel
                  | Res ONormal E2 out2 => loop n c post body E2 out2
                  | Res o E2 out2 => Res o E2 out2
                  end = r -> r = Res o E' out' -> ext_of X E E').
      { intros r Hr ->. destruct (exec_opt n post (restore E E1) out1) as [|o2 E2 out2] eqn:Hpost; [discriminate|].
        assert (X3 : ext_of X (restore E E1) E2) by (eapply IHo; eauto).
        destruct o2; try (inversion Hr; subst; eapply ext_trans; eauto; fail).
        eapply ext_trans; [exact X2|]. eapply ext_trans; [exact X3|]. eapply IHp; eauto. }
      destruct o1; try (eapply Hcont; [reflexivity | exact H]); inversion H; subst; exact X2.
Qed.

Definition no_filter : ident -> bool := fun _ => false.

Lemma na_no_filter s : na no_filter s = true.
Proof.
  induction s using stmt_ind2; simpl; try reflexivity.
  - apply forallb_forall. intros s Hs. rewrite Forall_forall in H. auto.
  - assert (A : forall l, Forall (fun s => na no_filter s = true) l -> forallb (na no_filter) l = true).
    { intros l Hl. apply forallb_forall. intros s Hs. rewrite Forall_forall in Hl. auto. }
    rewrite (A t H0). destruct init; simpl in *; rewrite ?H; destruct e; simpl in *; rewrite ?A; auto.
  - assert (A : forall l, Forall (fun s => na no_filter s = true) l -> forallb (na no_filter) l = true).
    { intros l Hl. apply forallb_forall. intros s Hs. rewrite Forall_forall in Hl. auto. }
    rewrite (A body H1). destruct init; destruct post; simpl in *; rewrite ?H, ?H0; auto.
  - assert (A : forall l, Forall (fun s => na no_filter s = true) l -> forallb (na no_filter) l = true).
    { intros l Hl. apply forallb_forall. intros s Hs. rewrite Forall_forall in Hl. auto. }
    rewrite (A cls H0). destruct init; simpl in *; rewrite ?H; auto.
  - apply forallb_forall. intros s Hs. rewrite Forall_forall in H. auto.
Qed.

Lemma na_list_no_filter l : forallb (na no_filter) l = true.
Proof. apply forallb_forall. intros s _. apply na_no_filter. Qed.

(** Shape: E' = Ext ++ Eb with |Eb| = |E|. *)
Lemma exec_shape n s E out o E' out' :
  exec n s E out = Res o E' out' -> exists Ext Eb, E' = Ext ++ Eb /\ length Eb = length E.
Proof.
  intros H. destruct (G_ext no_filter n) as [A _]. destruct (A _ _ _ _ _ _ H (na_no_filter s)) as [Ext [Eb [-> K]]].
  exists Ext, Eb. split; [reflexivity | eapply keeps_length; eauto].
Qed.

Lemma exec_list_shape n l E out o E' out' :
  exec_list n l E out = Res o E' out' -> exists Ext Eb, E' = Ext ++ Eb /\ length Eb = length E.
Proof.
  intros H. destruct (G_ext no_filter n) as [_ [A _]]. destruct (A _ _ _ _ _ _ H (na_list_no_filter l)) as [Ext [Eb [-> K]]].
  exists Ext, Eb. split; [reflexivity | eapply keeps_length; eauto].
Qed.

(** A body that does not assign [x] leaves the binding [x] at the head of its environment alone. *)
Lemma body_keeps_head n body x v E out o E1 out1 :
  exec_list n body ((x, v) :: E) out = Res o E1 out1 -> forallb (na (Nat.eqb x)) body = true ->
  exists E', restore ((x, v) :: E) E1 = (x, v) :: E' /\ length E' = length E.
Proof.
  intros H Hna. destruct (G_ext (Nat.eqb x) n) as [_ [A _]].
  pose proof (ext_restore _ _ _ (A _ _ _ _ _ _ H Hna)) as K.
  inversion K as [|a b l l' [Hn Hv] Hk]; subst. destruct b as [y w]. simpl in *. subst y.
  rewrite <- Hv by apply Nat.eqb_refl. exists l'. split; [reflexivity|].
  apply keeps_length in Hk. exact Hk.
Qed.

(** Simple statements end normally or panic. *)
Lemma simple_outcome n s E out o E' out' :
  exec n s E out = Res o E' out' -> is_simple s = true -> o = ONormal \/ o = OPanic.
Proof.
  destruct n; [discriminate|]. destruct s; simpl; try discriminate; intros H _.
  - destruct (aeval E e); inversion H; auto.
  - destruct (aeval E e); inversion H; auto.
  - destruct (aeval E e); [destruct (arith op (get x E) z)|]; inversion H; auto.
  - inversion H; auto.
  - destruct (aeval E e); inversion H; auto.
Qed.
