(** C01 — G: what Go prescribes for MiniGo.  A fuel-indexed definitional interpreter with block
    scoping, outcomes Normal | Break | Continue | Panic and an output trace; switch with first-match selection,
    fallthrough and break.  Definitions only. *)
From Verif Require Import Core.Syntax.

(** Environment: innermost binding first.  [x := e] pushes a binding; leaving a block drops the
    bindings made inside it.  (Go 1.22 gives each iteration of a 3-clause loop its own copy of the
    loop variable; without closures or pointers that is not observable, so one binding suffices.) *)
Definition env := list (ident * Z).

Fixpoint lookup (x : ident) (E : env) : option Z :=
  match E with
  | [] => None
  | (y, v) :: E' => if Nat.eqb x y then Some v else lookup x E'
  end.

(** Total versions: an unbound variable reads as 0 and assigning it does nothing (never exercised
    by closed programs; the Go compiler rejects the others). *)
Definition get (x : ident) (E : env) : Z :=
  match lookup x E with Some v => v | None => 0 end.

Fixpoint update (x : ident) (v : Z) (E : env) : env :=
  match E with
  | [] => []
  | (y, w) :: E' => if Nat.eqb x y then (y, v) :: E' else (y, w) :: update x v E'
  end.

(** Expressions: operands left to right; [None] = panic. *)
Fixpoint aeval (E : env) (e : aexp) : option Z :=
  match e with
  | ALit z => Some z
  | AVar x => Some (get x E)
  | ANeg a => match aeval E a with Some v => Some (wrap (- v)) | None => None end
  | ABin op a b =>
      match aeval E a with
      | Some va => match aeval E b with Some vb => arith op va vb | None => None end
      | None => None
      end
  end.

Fixpoint beval (E : env) (e : bexp) : option bool :=
  match e with
  | BLit b => Some b
  | BCmp op a b =>
      match aeval E a with
      | Some va => match aeval E b with Some vb => Some (compare op va vb) | None => None end
      | None => None
      end
  | BNot b => match beval E b with Some v => Some (negb v) | None => None end
  | BAnd a b =>
      match beval E a with
      | Some true => beval E b
      | Some false => Some false
      | None => None
      end
  | BOr a b =>
      match beval E a with
      | Some true => Some true
      | Some false => beval E b
      | None => None
      end
  end.

Inductive outcome := ONormal | OBreak | OContinue | OPanic.

Inductive res :=
| Fuel
| Res (o : outcome) (E : env) (out : list Z).

(** Leaving a block: keep the bindings that existed at its entry. *)
Definition restore (E0 E : env) : env := skipn (length E - length E0) E.

Definition opt_cond (E : env) (c : option bexp) : option bool :=
  match c with None => Some true | Some c => beval E c end.

(** switch: the case expressions are evaluated left to right, top to bottom, until one equals the tag
    (without a tag: until one is true); [None] = panic while evaluating them. *)
Fixpoint match_ints (E : env) (v : Z) (l : list aexp) : option bool :=
  match l with
  | [] => Some false
  | e :: l' =>
      match aeval E e with
      | None => None
      | Some w => if Z.eqb v w then Some true else match_ints E v l'
      end
  end.

Fixpoint match_bools (E : env) (l : list bexp) : option bool :=
  match l with
  | [] => Some false
  | e :: l' =>
      match beval E e with
      | None => None
      | Some true => Some true
      | Some false => match_bools E l'
      end
  end.

Definition clause_matches (E : env) (tag : option Z) (c : stmt) : option bool :=
  match c, tag with
  | SCase (CInts l) _ _, Some v => match_ints E v l
  | SCase (CBools l) _ _, None => match_bools E l
  | _, _ => Some false
  end.

(** Index of the first clause that matches; [Some None]: none does. *)
Fixpoint select (E : env) (tag : option Z) (cls : list stmt) (i : nat) : option (option nat) :=
  match cls with
  | [] => Some None
  | c :: cls' =>
      match clause_matches E tag c with
      | None => None
      | Some true => Some (Some i)
      | Some false => select E tag cls' (S i)
      end
  end.

Fixpoint default_index (cls : list stmt) (i : nat) : option nat :=
  match cls with
  | [] => None
  | SCase CDefault _ _ :: _ => Some i
  | _ :: cls' => default_index cls' (S i)
  end.

(** The bodies from the selected clause on: each in its own scope; [fallthrough] goes on with the
    next body ([fallthrough] itself is the empty last statement of [case_body]).  [xl] runs a statement list (it is [exec_list] with the remaining fuel). *)
Fixpoint run_clauses (xl : list stmt -> env -> list Z -> res) (cls : list stmt) (E : env) (out : list Z) : res :=
  match cls with
  | SCase _ body ft :: rest =>
      match xl (case_body body ft) E out with
      | Fuel => Fuel
      | Res ONormal E1 out1 =>
          if ft then run_clauses xl rest (restore E E1) out1 else Res ONormal (restore E E1) out1
      | Res o E1 out1 => Res o (restore E E1) out1
      end
  | _ => Res ONormal E out
  end.

Definition eval_tag (E : env) (tag : option aexp) : option (option Z) :=
  match tag with
  | None => Some None
  | Some t => match aeval E t with Some v => Some (Some v) | None => None end
  end.

Fixpoint exec (n : nat) (s : stmt) (E : env) (out : list Z) {struct n} : res :=
  match n with
  | O => Fuel
  | S n' =>
      match s with
      | SAssign x e =>
          match aeval E e with
          | Some v => Res ONormal (update x v E) out
          | None => Res OPanic E out
          end
      | SDefine x e =>
          match aeval E e with
          | Some v => Res ONormal ((x, v) :: E) out
          | None => Res OPanic E out
          end
      | SOpAssign op x e =>
          match aeval E e with
          | Some v =>
              match arith op (get x E) v with
              | Some r => Res ONormal (update x r E) out
              | None => Res OPanic E out
              end
          | None => Res OPanic E out
          end
      | SIncDec inc x =>
          Res ONormal (update x (wrap (get x E + (if inc then 1 else -1))) E) out
      | SPrint e =>
          match aeval E e with
          | Some v => Res ONormal E (out ++ [v])
          | None => Res OPanic E out
          end
      | SBlock b =>
          match exec_list n' b E out with
          | Fuel => Fuel
          | Res o E' out' => Res o (restore E E') out'
          end
      | SIf init c t e =>
          match (match init with None => Res ONormal E out | Some s0 => exec n' s0 E out end) with
          | Fuel => Fuel
          | Res ONormal E1 out1 =>
              match beval E1 c with
              | None => Res OPanic (restore E E1) out1
              | Some true =>
                  match exec_list n' t E1 out1 with
                  | Fuel => Fuel
                  | Res o E2 out2 => Res o (restore E E2) out2
                  end
              | Some false =>
                  match e with
                  | None => Res ONormal (restore E E1) out1
                  | Some e =>
                      match exec_list n' e E1 out1 with
                      | Fuel => Fuel
                      | Res o E2 out2 => Res o (restore E E2) out2
                      end
                  end
              end
          | Res o E1 out1 => Res o (restore E E1) out1
          end
      | SFor init c post body =>
          match (match init with None => Res ONormal E out | Some s0 => exec n' s0 E out end) with
          | Fuel => Fuel
          | Res ONormal E1 out1 =>
              match loop n' c post body E1 out1 with
              | Fuel => Fuel
              | Res o E2 out2 => Res o (restore E E2) out2
              end
          | Res o E1 out1 => Res o (restore E E1) out1
          end
      | SBreak => Res OBreak E out
      | SContinue => Res OContinue E out
      | SSwitch init tag cls =>
          match (match init with None => Res ONormal E out | Some s0 => exec n' s0 E out end) with
          | Fuel => Fuel
          | Res ONormal E1 out1 =>
              match eval_tag E1 tag with
              | None => Res OPanic (restore E E1) out1
              | Some tv =>
                  match select E1 tv cls 0 with
                  | None => Res OPanic (restore E E1) out1
                  | Some sel =>
                      match (match sel with Some i => Some i | None => default_index cls 0 end) with
                      | None => Res ONormal (restore E E1) out1
                      | Some i =>
                          match run_clauses (exec_list n') (skipn i cls) E1 out1 with
                          | Fuel => Fuel
                          | Res OBreak E2 out2 => Res ONormal (restore E E2) out2
                          | Res o E2 out2 => Res o (restore E E2) out2
                          end
                      end
                  end
              end
          | Res o E1 out1 => Res o (restore E E1) out1
          end
      | SCase _ _ _ => Res ONormal E out      (* only meaningful inside a switch *)
      end
  end

with exec_list (n : nat) (l : list stmt) (E : env) (out : list Z) {struct n} : res :=
  match n with
  | O => Fuel
  | S n' =>
      match l with
      | [] => Res ONormal E out
      | s :: l' =>
          match exec n' s E out with
          | Fuel => Fuel
          | Res ONormal E1 out1 => exec_list n' l' E1 out1
          | Res o E1 out1 => Res o E1 out1
          end
      end
  end

(** One loop: condition, body (a block), post statement, again.  [E] is the environment of the
    [for] scope (after the init statement). *)
with loop (n : nat) (c : option bexp) (post : option stmt) (body : list stmt) (E : env) (out : list Z) {struct n} : res :=
  match n with
  | O => Fuel
  | S n' =>
      match opt_cond E c with
      | None => Res OPanic E out
      | Some false => Res ONormal E out
      | Some true =>
          match exec_list n' body E out with
          | Fuel => Fuel
          | Res OBreak E1 out1 => Res ONormal (restore E E1) out1
          | Res OPanic E1 out1 => Res OPanic (restore E E1) out1
          | Res _ E1 out1 =>
              match (match post with None => Res ONormal (restore E E1) out1 | Some s0 => exec n' s0 (restore E E1) out1 end) with
              | Fuel => Fuel
              | Res ONormal E2 out2 => loop n' c post body E2 out2
              | Res o E2 out2 => Res o E2 out2
              end
          end
      end
  end.

(** An optional (init / post) statement. *)
Definition exec_opt (n : nat) (s : option stmt) (E : env) (out : list Z) : res :=
  match s with None => Res ONormal E out | Some s0 => exec n s0 E out end.

Definition run (n : nat) (p : program) : result :=
  match exec n (SBlock p) [] [] with
  | Fuel => OutOfFuel
  | Res OPanic _ out => Done out true
  | Res _ _ out => Done out false
  end.
