(** C01 — final lemmas: Go terminates => yaegi terminates with the same output and ending (proved
    fragment); both sides are deterministic, so terminating runs agree; witnesses that the faithful
    model violates the property outside the fragment's side conditions. *)
From Verif Require Import Core.Syntax Core.GoSem Core.Cfg Core.Wf Core.Lemmas Core.SimStmt.
Local Open Scope nat_scope.

(** The machine is a function of its fuel; once it has finished, more fuel changes nothing. *)
Lemma run_from_mono g : forall m m' n fr out r,
  run_from m g n fr out = Done (fst r) (snd r) -> m <= m' -> run_from m' g n fr out = Done (fst r) (snd r).
Proof.
  induction m as [|m IH]; intros m' n fr out r H L.
  - destruct n; simpl in *; [discriminate|]. destruct m'; exact H.
  - destruct n as [p|]; [|destruct m'; exact H].
    destruct m' as [|m']; [lia|]. simpl in *.
    destruct (step g p fr out); [apply IH; [exact H | lia] | exact H].
Qed.

Lemma y_deterministic p m m' out pk out' pk' :
  Cfg.run m p = Done out pk -> Cfg.run m' p = Done out' pk' -> out = out' /\ pk = pk'.
Proof.
  unfold Cfg.run. intros H H'.
  pose proof (run_from_mono _ _ (Nat.max m m') _ _ _ (out, pk) H (Nat.le_max_l _ _)) as A.
  pose proof (run_from_mono _ _ (Nat.max m m') _ _ _ (out', pk') H' (Nat.le_max_r _ _)) as B.
  simpl in A, B. rewrite A in B. inversion B. auto.
Qed.

(** The statement proved for the fragment. *)
Theorem core_forward p :
  wf_program p = true ->
  forall n out pk, GoSem.run n p = Done out pk -> exists m, Cfg.run m p = Done out pk.
Proof. intros Hwf n out pk H. eapply forward_simulation; eauto. Qed.

Theorem core_agree p :
  wf_program p = true ->
  forall n m out pk out' pk', GoSem.run n p = Done out pk -> Cfg.run m p = Done out' pk' -> out = out' /\ pk = pk'.
Proof.
  intros Hwf n m out pk out' pk' HG HY.
  destruct (core_forward p Hwf n out pk HG) as [m0 H0].
  eapply y_deterministic; eauto.
Qed.

(* ------------------------------------------------------------------ witnesses *)

Definition x0 : ident := 0. Definition x1 : ident := 1. Definition x2 : ident := 2. Definition x3 : ident := 3.

(** for i := 0; i < 6; i++ { if i == 2 { i = 4 }; fmt.Println(i) } *)
Definition w_loopvar : program :=
  [SFor (Some (SDefine x0 (ALit 0))) (Some (BCmp Lt (AVar x0) (ALit 6))) (Some (SIncDec true x0))
     [SIf None (BCmp Eq (AVar x0) (ALit 2)) [SAssign x0 (ALit 4)] None; SPrint (AVar x0)]].

Lemma loopvar_refuted :
  wf_program w_loopvar = false /\
  GoSem.run 100 w_loopvar = Done [0; 1; 4; 5]%Z false /\
  Cfg.run 1000 w_loopvar = Done [0; 1; 4; 3; 4; 5]%Z false.
Proof. vm_compute. auto. Qed.

(** n := 0; for c := 0; ; { c++; n++; if c > 2 || n > 4 { break }; fmt.Println(c); fmt.Println(n) } *)
Definition w_for_init_only : program :=
  [SDefine x1 (ALit 0);
   SFor (Some (SDefine x0 (ALit 0))) None None
     [SIncDec true x0; SIncDec true x1;
      SIf None (BOr (BCmp Gt (AVar x0) (ALit 2)) (BCmp Gt (AVar x1) (ALit 4))) [SBreak] None;
      SPrint (AVar x0); SPrint (AVar x1)]].

Lemma for_init_only_refuted :
  wf_program w_for_init_only = false /\
  GoSem.run 100 w_for_init_only = Done [1; 1; 2; 2]%Z false /\
  Cfg.run 1000 w_for_init_only = Done [1; 1; 1; 2; 1; 3; 1; 4]%Z false.
Proof. vm_compute. auto. Qed.

(** fmt.Println(1); for i := 0; i < 3; i++ { }; fmt.Println(2) *)
Definition w_empty_body : program :=
  [SPrint (ALit 1);
   SFor (Some (SDefine x0 (ALit 0))) (Some (BCmp Lt (AVar x0) (ALit 3))) (Some (SIncDec true x0)) [];
   SPrint (ALit 2)].

Lemma empty_body_refuted :
  wf_program w_empty_body = false /\
  GoSem.run 100 w_empty_body = Done [1; 2]%Z false /\
  Cfg.run 1000 w_empty_body = Done [1]%Z false.
Proof. vm_compute. auto. Qed.

(** Non-vacuity: a well-formed program with nested loops of several forms, break, continue, if with
    init and else, shadowing, the destination-slot shortcut, && and ||, ending in a division by zero. *)
Definition w_example : program :=
  [SDefine x0 (ALit 3);
   SDefine x1 (ABin Add (AVar x0) (ALit 4));
   SFor (Some (SDefine x2 (ALit 0)))
        (Some (BAnd (BCmp Lt (AVar x2) (ALit 5)) (BNot (BCmp Eq (AVar x1) (ALit 100)))))
        (Some (SIncDec true x2))
     [SAssign x1 (ABin Mul (AVar x1) (ABin Sub (AVar x1) (AVar x2)));
      SFor None (Some (BCmp Gt (AVar x0) (ALit 0))) None
        [SIncDec false x0; SIf None (BCmp Eq (AVar x0) (ALit 1)) [SContinue] None; SPrint (AVar x0)];
      SIf (Some (SDefine x3 (ABin Rem (AVar x1) (ALit 3))))
          (BOr (BCmp Eq (AVar x3) (ALit 0)) (BCmp Gt (AVar x2) (ALit 3)))
          [SPrint (AVar x1); SContinue]
          (Some [SOpAssign Add x1 (AVar x3); SBlock [SDefine x1 (ALit 7); SPrint (AVar x1)]]);
      SFor None None None [SIf None (BLit true) [SBreak] (Some [SPrint (ALit 0)])];
      SPrint (ABin Quo (AVar x1) (ABin Sub (AVar x2) (ALit 3)))];
   SPrint (AVar x1)].

Lemma example_inhabited :
  wf_program w_example = true /\
  GoSem.run 100 w_example = Done [2; 0; 7; -16; 7; -1226; 7; -6007402; 7]%Z true /\
  Cfg.run 1000 w_example = Done [2; 0; 7; -16; 7; -1226; 7; -6007402; 7]%Z true.
Proof. vm_compute. auto. Qed.

(* ------------------------------------------------------------------ switch *)

Definition P (z : Z) : stmt := SPrint (ALit z).

(** x0 := 3
    for x3 := 0; x3 < 5; x3++ {
      switch x2 := x3 % 4; x2 { case 0: P 60; fallthrough
                                case 1, x0: P 61; if x3 == 1 { break }; P 62
                                case x0 - 1: continue
                                default: P 63 }
      switch { case x3 > 3: x0 := 7; Println(x0); fallthrough
               case false: Println(x0)
               case 6 / (x3 - 2) == 6: }
      P 64 } *)
Definition w_switch_example : program :=
  [SDefine x0 (ALit 3);
   SFor (Some (SDefine x3 (ALit 0))) (Some (BCmp Lt (AVar x3) (ALit 5))) (Some (SIncDec true x3))
     [SSwitch (Some (SDefine x2 (ABin Rem (AVar x3) (ALit 4)))) (Some (AVar x2))
        [SCase (CInts [ALit 0]) [P 60] true;
         SCase (CInts [ALit 1; AVar x0]) [P 61; SIf None (BCmp Eq (AVar x3) (ALit 1)) [SBreak] None; P 62] false;
         SCase (CInts [ABin Sub (AVar x0) (ALit 1)]) [SContinue] false;
         SCase CDefault [P 63] false];
      SSwitch None None
        [SCase (CBools [BCmp Gt (AVar x3) (ALit 3)]) [SDefine x0 (ALit 7); SPrint (AVar x0)] true;
         SCase (CBools [BLit false]) [SPrint (AVar x0)] false;
         SCase (CBools [BCmp Eq (ABin Quo (ALit 6) (ABin Sub (AVar x3) (ALit 2))) (ALit 6)]) [] false];
      P 64]].

Lemma switch_example :
  GoSem.run 1000 w_switch_example = Done [60; 61; 62; 64; 61; 64; 61; 62; 64; 60; 61; 62; 7; 3; 64]%Z false /\
  Cfg.run 4000 w_switch_example = Done [60; 61; 62; 64; 61; 64; 61; 62; 64; 60; 61; 62; 7; 3; 64]%Z false.
Proof. vm_compute. auto. Qed.

(** Non-vacuity of the theorem on switch: a well-formed program with a switch with a tag (case list, fallthrough,
    operator expression as first case expression, empty default) and one without (init statement, break and continue
    inside clauses, default last) in a loop. *)
Definition w_switch_wf : program :=
  [SDefine x0 (ALit 3);
   SFor (Some (SDefine x3 (ALit 0))) (Some (BCmp Lt (AVar x3) (ALit 5))) (Some (SIncDec true x3))
     [SSwitch None (Some (ABin And (AVar x3) (ALit 3)))
        [SCase (CInts [ALit 0; AVar x0]) [P 70] true;
         SCase (CInts [ABin Sub (AVar x0) (ALit 2)]) [P 71] false;
         SCase CDefault [] false];
      SSwitch (Some (SDefine x2 (ABin Rem (AVar x3) (ALit 4)))) None
        [SCase (CBools [BCmp Eq (AVar x2) (ALit 0)]) [P 60] false;
         SCase (CBools [BCmp Eq (AVar x2) (ALit 1)]) [P 61; SIf None (BCmp Eq (AVar x3) (ALit 1)) [SBreak] None; P 62] false;
         SCase (CBools [BCmp Eq (AVar x2) (ALit 2)]) [SContinue] false;
         SCase CDefault [P 63] false];
      P 64]].

Lemma switch_wf_inhabited :
  wf_program w_switch_wf = true /\
  GoSem.run 1000 w_switch_wf = Done [70; 71; 60; 64; 71; 61; 64; 70; 71; 63; 64; 70; 71; 60; 64]%Z false /\
  Cfg.run 4000 w_switch_wf = Done [70; 71; 60; 64; 71; 61; 64; 70; 71; 63; 64; 70; 71; 60; 64]%Z false.
Proof. vm_compute. auto. Qed.

(** x0 := 3; switch { default: P 1; case x0 > 0: P 2; case true: }: the default clause is swapped with
    the last clause, so [case true] is tried before [case x0 > 0]. *)
Definition w_default_order : program :=
  [SDefine x0 (ALit 3);
   SSwitch None None [SCase CDefault [P 1] false; SCase (CBools [BCmp Gt (AVar x0) (ALit 0)]) [P 2] false; SCase (CBools [BLit true]) [] false]].

Lemma switch_default_order_refuted :
  GoSem.run 100 w_default_order = Done [2]%Z false /\ Cfg.run 1000 w_default_order = Done [] false.
Proof. vm_compute. auto. Qed.

(** switch x0 := 10; x0 % 6 { case 0: P 1; case 4: P 2 }: with an init statement the tag is never entered,
    the cases are compared with the zero value of its slot. *)
Definition w_init_tag : program :=
  [SSwitch (Some (SDefine x0 (ALit 10))) (Some (ABin Rem (AVar x0) (ALit 6)))
     [SCase (CInts [ALit 0]) [P 1] false; SCase (CInts [ALit 4]) [P 2] false]].

Lemma switch_init_tag_refuted :
  GoSem.run 100 w_init_tag = Done [2]%Z false /\ Cfg.run 1000 w_init_tag = Done [1]%Z false.
Proof. vm_compute. auto. Qed.

(** x0 := 3; x1 := 5
    switch x0 { case 1, x1 - 2: P 10; default: P 12 }        only c.child[0] of a clause is wired
    switch { case x0 > 5, x1 > 4: P 30; default: P 32 }      only the first condition is used *)
Definition w_case_list : program :=
  [SDefine x0 (ALit 3); SDefine x1 (ALit 5);
   SSwitch None (Some (AVar x0)) [SCase (CInts [ALit 1; ABin Sub (AVar x1) (ALit 2)]) [P 10] false; SCase CDefault [P 12] false];
   SSwitch None None [SCase (CBools [BCmp Gt (AVar x0) (ALit 5); BCmp Gt (AVar x1) (ALit 4)]) [P 30] false; SCase CDefault [P 32] false]].

Lemma switch_case_list_refuted :
  GoSem.run 100 w_case_list = Done [10; 30]%Z false /\ Cfg.run 1000 w_case_list = Done [12; 32]%Z false.
Proof. vm_compute. auto. Qed.

(** x0 := 0; P 1; switch 1 / x0 { }; P 2: a switch without clauses is not wired at all, its tag is skipped. *)
Definition w_switch_empty : program :=
  [SDefine x0 (ALit 0); P 1; SSwitch None (Some (ABin Quo (ALit 1) (AVar x0))) []; P 2].

Lemma switch_empty_refuted :
  GoSem.run 100 w_switch_empty = Done [1]%Z true /\ Cfg.run 1000 w_switch_empty = Done [1; 2]%Z false.
Proof. vm_compute. auto. Qed.

(** The property as stated, for MiniGo: every program that terminates under Go's semantics terminates
    under yaegi's with the same output and the same ending. *)
Definition C01_statement_def : Prop :=
  forall p n out pk, GoSem.run n p = Done out pk -> exists m, Cfg.run m p = Done out pk.

Lemma statement_refuted : ~ C01_statement_def.
Proof.
  intros H. destruct loopvar_refuted as [_ [HG HY]].
  destruct (H _ _ _ _ HG) as [m Hm].
  destruct (y_deterministic _ _ _ _ _ _ _ Hm HY) as [A _]. discriminate.
Qed.
