(** Evaluation of the C01 models on the fragment programs written by the harness.
    [frag_mis_y]: ids of the cases where yaegi's observed outcome differs from Y (Cfg.run);
    [frag_mis_g]: ids of the cases where the compiled program's outcome differs from G (GoSem.run). *)
From Verif Require Import Core.Syntax Core.GoSem Core.Cfg.

(** Observed outcome: printed integers and whether the run ended in a run-time panic;
    [None]: anything else (compile error, time-out, other panic). *)
Definition obs := option (list Z * bool).

Fixpoint zlist_eqb (a b : list Z) : bool :=
  match a, b with
  | [], [] => true
  | x :: a', y :: b' => Z.eqb x y && zlist_eqb a' b'
  | _, _ => false
  end.

Definition res_eqb (r : result) (o : obs) : bool :=
  match r, o with
  | Done out pk, Some (out', pk') => zlist_eqb out out' && Bool.eqb pk pk'
  | _, _ => false
  end.

Definition v (n : N) : ident := N.to_nat n.

Definition frag_case := (N * program * obs * obs)%type.

Definition frag_mis_y (cs : list frag_case) : list N :=
  flat_map (fun '(id, p, impl, _) => if res_eqb (Cfg.run (N.to_nat 30000) p) impl then [] else [id]) cs.

Definition frag_mis_g (cs : list frag_case) : list N :=
  flat_map (fun '(id, p, _, ref) => if res_eqb (GoSem.run (N.to_nat 3000) p) ref then [] else [id]) cs.
