(** C01 — simulation, part 1: expressions.  Running the nodes of an expression from its start node
    computes the value G assigns to it, in the slot cfg.go allocated for it, and touches no live slot. *)
From Verif Require Import Core.Syntax Core.GoSem Core.Cfg Core.Wf Core.Lemmas.
Local Open Scope nat_scope.

Lemma leaf_val e sc nx dst E fr :
  is_leaf e = true -> agree E sc fr -> aeval E e = Some (oval fr (fst (aalloc e sc nx dst))).
Proof.
  destruct e; simpl; try discriminate; intros _ H; [reflexivity|].
  destruct (slot_of x sc) as [i|] eqn:Hs; simpl.
  - rewrite (agree_get _ _ _ _ _ H Hs). reflexivity.
  - rewrite (agree_get_none _ _ _ _ H Hs). reflexivity.
Qed.

(** The operand of a leaf is a constant or a slot of the scope. *)
Lemma leaf_operand_stable e sc nx dst fr fr' :
  is_leaf e = true -> (forall i, In i (map snd sc) -> fr' i = fr i) ->
  oval fr' (fst (aalloc e sc nx dst)) = oval fr (fst (aalloc e sc nx dst)).
Proof.
  destruct e; simpl; try discriminate; intros _ H; [reflexivity|].
  destruct (slot_of x sc) as [i|] eqn:Hs; simpl; [|reflexivity].
  unfold geti. rewrite H; [reflexivity | eapply slot_of_In; eauto].
Qed.

Lemma leaf_alloc e sc nx dst : is_leaf e = true -> snd (aalloc e sc nx dst) = nx.
Proof. destruct e; simpl; try discriminate; reflexivity. Qed.

Definition asim_ok (e : aexp) : Prop :=
  forall g sc nx dst P tn E fr out,
    (forall q, g (P ++ q) = anode_at q e sc nx dst P tn) ->
    is_leaf e = false -> agree E sc fr -> bounded sc nx ->
    (forall d, dst = Some d -> d < nx) ->
    match aeval E e with
    | Some v => exists fr', reach g (Some (astart e P)) fr out (MRun tn fr' out)
                 /\ oval fr' (fst (aalloc e sc nx dst)) = v
                 /\ (forall i, i < nx -> dst <> Some i -> fr' i = fr i)
                 /\ (forall d, fst (aalloc e sc nx dst) = OSlot d -> fr' d = VI v)
    | None => reach g (Some (astart e P)) fr out (MPanic out)
    end.

Definition pstart (a b : aexp) (self : path) : path :=
  if is_leaf a then (if is_leaf b then self else astart b (self ++ [1])) else astart a (self ++ [0]).

(** wireChild on two operands: the executed operands run in order, then the parent node. *)
Lemma pair_sim a b :
  (is_leaf a = false -> asim_ok a) -> (is_leaf b = false -> asim_ok b) ->
  forall g sc nx self E fr out,
    (forall q, g ((self ++ [0]) ++ q) =
       anode_at q a sc nx None (self ++ [0]) (Some (if is_leaf b then self else astart b (self ++ [1])))) ->
    (forall q, g ((self ++ [1]) ++ q) =
       anode_at q b sc (snd (aalloc a sc nx None)) None (self ++ [1]) (Some self)) ->
    agree E sc fr -> bounded sc nx ->
    match aeval E a with
    | None => reach g (Some (pstart a b self)) fr out (MPanic out)
    | Some va =>
        match aeval E b with
        | None => reach g (Some (pstart a b self)) fr out (MPanic out)
        | Some vb => exists fr', reach g (Some (pstart a b self)) fr out (MRun (Some self) fr' out)
                      /\ oval fr' (fst (aalloc a sc nx None)) = va
                      /\ oval fr' (fst (aalloc b sc (snd (aalloc a sc nx None)) None)) = vb
                      /\ (forall i, i < nx -> fr' i = fr i)
        end
    end.
Proof.
  intros IHa IHb g sc nx self E fr out Ga Gb Hag Hb.
  pose proof (aalloc_mono a sc nx None) as Ma.
  assert (InSc : forall fr', (forall i, i < nx -> fr' i = fr i) -> forall i, In i (map snd sc) -> fr' i = fr i).
  { intros fr' H i Hi. apply H. apply Hb. exact Hi. }
  unfold pstart. destruct (is_leaf a) eqn:La.
  - (* a is a leaf *)
    rewrite (leaf_val a sc nx None E fr La Hag).
    rewrite (leaf_alloc a sc nx None La) in *.
    destruct (is_leaf b) eqn:Lb.
    + rewrite (leaf_val b sc nx None E fr Lb Hag). exists fr. repeat split; auto. apply reach_refl.
    + specialize (IHb eq_refl g sc nx None (self ++ [1]) (Some self) E fr out Gb Lb Hag Hb).
      destruct (aeval E b) as [vb|].
      * destruct IHb as [fr' [R [V [F _]]]]; [discriminate|]. exists fr'. repeat split; auto.
        -- rewrite (leaf_operand_stable a sc nx None fr fr' La); [reflexivity|].
           apply InSc. intros i Hi. apply F; [exact Hi | discriminate].
        -- intros i Hi. apply F; [exact Hi | discriminate].
      * apply IHb. discriminate.
  - (* a is executed *)
    specialize (IHa eq_refl g sc nx None (self ++ [0]) _ E fr out Ga La Hag Hb).
    destruct (aeval E a) as [va|]; [|apply IHa; discriminate].
    destruct IHa as [fr1 [R1 [V1 [F1 _]]]]; [discriminate|].
    assert (F1' : forall i, i < nx -> fr1 i = fr i) by (intros i Hi; apply F1; [exact Hi | discriminate]).
    assert (Hag1 : agree E sc fr1) by (eapply agree_frame; [exact Hag | apply InSc; exact F1']).
    destruct (is_leaf b) eqn:Lb.
    + rewrite (leaf_val b sc (snd (aalloc a sc nx None)) None E fr1 Lb Hag1).
      exists fr1. repeat split; auto.
    + assert (Hb1 : bounded sc (snd (aalloc a sc nx None))) by (eapply bounded_mono; eauto).
      specialize (IHb eq_refl g sc (snd (aalloc a sc nx None)) None (self ++ [1]) (Some self) E fr1 out Gb Lb Hag1 Hb1).
      destruct (aeval E b) as [vb|].
      * destruct IHb as [fr2 [R2 [V2 [F2 _]]]]; [discriminate|]. exists fr2. repeat split; auto.
        -- eapply reach_trans; eauto.
        -- destruct (aalloc_slot a sc nx None La) as [d [Hd Hr]]. rewrite Hd in *. simpl in *.
           unfold geti in *. rewrite F2; [exact V1 | lia | discriminate].
        -- intros i Hi. rewrite F2; [apply F1'; exact Hi | lia | discriminate].
      * eapply reach_trans; [exact R1|]. apply IHb. discriminate.
Qed.

Lemma embed_child {A} (g : cfg) (P : path) (i : nat) (f : path -> option A) (h : path -> option cnode) :
  (forall q, g (P ++ q) = h q) -> forall q, g ((P ++ [i]) ++ q) = h (i :: q).
Proof. intros H q. rewrite <- app_assoc. simpl. apply H. Qed.

Lemma asim e : is_leaf e = false -> asim_ok e.
Proof.
  induction e; simpl; try discriminate; intros _.
  - (* ANeg *)
    intros g sc nx dst P tn E fr out G _ Hag Hb Hd.
    assert (G0 : g P = anode_at [] (ANeg e) sc nx dst P tn) by (rewrite <- (app_nil_r P) at 1; apply G).
    assert (Ga : forall q, g ((P ++ [0]) ++ q) = anode_at q e sc nx None (P ++ [0]) (Some P)).
    { intros q. rewrite <- app_assoc. simpl. rewrite G. reflexivity. }
    simpl in G0. simpl.
    pose proof (aalloc_mono e sc nx None) as Me.
    destruct (is_leaf e) eqn:Le.
    + rewrite (leaf_val e sc nx None E fr Le Hag).
      destruct (aalloc e sc nx None) as [oa n1] eqn:Ha. simpl in *.
      destruct (dest dst n1) as [d n2] eqn:Hdst. simpl in *.
      eexists. split; [apply reach_one; unfold step; rewrite G0; reflexivity|]. simpl. split; [|split].
      * apply geti_set_same.
      * intros i Hi Hn. apply set_other. intros ->. destruct dst; simpl in Hdst; inversion Hdst; subst; [congruence | lia].
      * intros d0 Hd0. inversion Hd0; subst. apply set_same.
    + specialize (IHe eq_refl g sc nx None (P ++ [0]) (Some P) E fr out Ga Le Hag Hb).
      destruct (aeval E e) as [v|]; [|apply IHe; discriminate].
      destruct IHe as [fr1 [R1 [V1 [F1 _]]]]; [discriminate|].
      destruct (aalloc e sc nx None) as [oa n1] eqn:Ha. simpl in *.
      destruct (dest dst n1) as [d n2] eqn:Hdst. simpl in *.
      eexists. split; [eapply reach_trans; [exact R1|]; apply reach_one; unfold step; rewrite G0; reflexivity|].
      simpl. split; [|split].
      * rewrite geti_set_same, V1. reflexivity.
      * intros i Hi Hn. rewrite set_other; [apply F1; [exact Hi | discriminate]|].
        intros ->. destruct dst; simpl in Hdst; inversion Hdst; subst; [congruence | lia].
      * intros d0 Hd0. injection Hd0 as <-. rewrite V1. apply set_same.
  - (* ABin *)
    intros g sc nx dst P tn E fr out G _ Hag Hb Hd.
    assert (G0 : g P = anode_at [] (ABin op e1 e2) sc nx dst P tn) by (rewrite <- (app_nil_r P) at 1; apply G).
    assert (Ga : forall q, g ((P ++ [0]) ++ q) =
       anode_at q e1 sc nx None (P ++ [0]) (Some (if is_leaf e2 then P else astart e2 (P ++ [1])))).
    { intros q. rewrite <- app_assoc. simpl. rewrite G. reflexivity. }
    assert (Gb : forall q, g ((P ++ [1]) ++ q) = anode_at q e2 sc (snd (aalloc e1 sc nx None)) None (P ++ [1]) (Some P)).
    { intros q. rewrite <- app_assoc. simpl. rewrite G. reflexivity. }
    pose proof (pair_sim e1 e2 IHe1 IHe2 g sc nx P E fr out Ga Gb Hag Hb) as PS.
    change (astart (ABin op e1 e2) P) with (pstart e1 e2 P).
    simpl in G0. simpl.
    pose proof (aalloc_mono e1 sc nx None) as M1.
    destruct (aeval E e1) as [va|]; [|exact PS].
    destruct (aeval E e2) as [vb|]; [|exact PS].
    destruct PS as [fr1 [R1 [V1 [V2 F1]]]].
    destruct (aalloc e1 sc nx None) as [oa n1] eqn:Ha. simpl in *.
    pose proof (aalloc_mono e2 sc n1 None) as M2.
    destruct (aalloc e2 sc n1 None) as [ob n2] eqn:Hb2. simpl in *.
    destruct (dest dst n2) as [d n3] eqn:Hdst. simpl in *.
    destruct (arith op va vb) as [r|] eqn:Har.
    + eexists. split.
      * eapply reach_trans; [exact R1|]. apply reach_one. unfold step. rewrite G0. unfold exec_node. simpl.
        rewrite V1, V2, Har. reflexivity.
      * split; [apply geti_set_same|]. split.
        -- intros i Hi Hn. rewrite set_other; [apply F1; exact Hi|].
           intros ->. destruct dst; simpl in Hdst; inversion Hdst; subst; [congruence | lia].
        -- intros d0 Hd0. inversion Hd0; subst. apply set_same.
    + eapply reach_trans; [exact R1|]. apply reach_panic. unfold step. rewrite G0. unfold exec_node. simpl.
      rewrite V1, V2, Har. reflexivity.
Qed.

(** Any operand, executed or not. *)
Lemma aoperand g e sc nx P tn E fr out :
  (forall q, g (P ++ q) = anode_at q e sc nx None P tn) ->
  agree E sc fr -> bounded sc nx ->
  match aeval E e with
  | Some v => exists fr', reach g (if is_leaf e then tn else Some (astart e P)) fr out (MRun tn fr' out)
               /\ oval fr' (fst (aalloc e sc nx None)) = v
               /\ (forall i, i < nx -> fr' i = fr i)
  | None => reach g (if is_leaf e then tn else Some (astart e P)) fr out (MPanic out)
  end.
Proof.
  intros G Hag Hb. destruct (is_leaf e) eqn:Le.
  - rewrite (leaf_val e sc nx None E fr Le Hag). exists fr. repeat split; auto. apply reach_refl.
  - pose proof (asim e Le g sc nx None P tn E fr out G Le Hag Hb) as A.
    destruct (aeval E e); [|apply A; discriminate].
    destruct A as [fr' [R [V [F _]]]]; [discriminate|]. exists fr'. repeat split; auto.
    intros i Hi. apply F; [exact Hi | discriminate].
Qed.

(* ------------------------------------------------------------------ boolean expressions *)

Definition btarget (tn fn : option path) (v : bool) : option path :=
  match fn with Some f => if v then tn else Some f | None => tn end.

Lemma branch_to_target a tn fn v : branch_to (mknode a tn fn) v = btarget tn fn v.
Proof. reflexivity. Qed.

Lemma boperand_stable e sc nx fr fr' :
  (forall i, i < snd (balloc e sc nx) -> fr' i = fr i) ->
  bval fr' (fst (balloc e sc nx)) = bval fr (fst (balloc e sc nx)).
Proof.
  intros H. destruct (is_blit e) eqn:L.
  - destruct e; simpl in *; try discriminate. reflexivity.
  - destruct (balloc_slot e sc nx L) as [d [Hd Hr]]. rewrite Hd. simpl. unfold getb. rewrite H by lia. reflexivity.
Qed.

Lemma bsim e : forall g sc nx P tn fn E fr out,
  (forall q, g (P ++ q) = bnode_at q e sc nx P tn fn) -> agree E sc fr -> bounded sc nx ->
  match beval E e with
  | Some v => exists fr', reach g (Some (bstart e P)) fr out (MRun (btarget tn fn v) fr' out)
               /\ bval fr' (fst (balloc e sc nx)) = v /\ (forall i, i < nx -> fr' i = fr i)
  | None => reach g (Some (bstart e P)) fr out (MPanic out)
  end.
Proof.
  induction e; intros g sc nx P tn fn E fr out G Hag Hb;
    assert (G0 : g P = bnode_at [] _ sc nx P tn fn) by (rewrite <- (app_nil_r P) at 1; apply G).
  - (* BLit *)
    simpl in *. exists fr. split; [|split; auto].
    apply reach_one. unfold step. rewrite G0. destruct fn; reflexivity.
  - (* BCmp *)
    assert (Ga : forall q, g ((P ++ [0]) ++ q) =
       anode_at q a sc nx None (P ++ [0]) (Some (if is_leaf b then P else astart b (P ++ [1])))).
    { intros q. rewrite <- app_assoc. simpl. rewrite G. reflexivity. }
    assert (Gb : forall q, g ((P ++ [1]) ++ q) = anode_at q b sc (snd (aalloc a sc nx None)) None (P ++ [1]) (Some P)).
    { intros q. rewrite <- app_assoc. simpl. rewrite G. reflexivity. }
    pose proof (pair_sim a b (asim a) (asim b) g sc nx P E fr out Ga Gb Hag Hb) as PS.
    change (bstart (BCmp op a b) P) with (pstart a b P).
    simpl in G0. simpl.
    pose proof (aalloc_mono a sc nx None) as M1.
    destruct (aeval E a) as [va|]; [|exact PS].
    destruct (aeval E b) as [vb|]; [|exact PS].
    destruct PS as [fr1 [R1 [V1 [V2 F1]]]].
    destruct (aalloc a sc nx None) as [oa n1] eqn:Ha. simpl in *.
    pose proof (aalloc_mono b sc n1 None) as M2.
    destruct (aalloc b sc n1 None) as [ob n2] eqn:Hb2. simpl in *.
    eexists. split.
    + eapply reach_trans; [exact R1|]. apply reach_one. unfold step. rewrite G0. unfold exec_node. simpl.
      rewrite V1, V2, branch_to_target. reflexivity.
    + split; [apply getb_set_same|]. intros i Hi. rewrite set_other; [apply F1; exact Hi | lia].
  - (* BNot *)
    assert (Ga : forall q, g ((P ++ [0]) ++ q) = bnode_at q e sc nx (P ++ [0]) (Some P) None).
    { intros q. rewrite <- app_assoc. simpl. rewrite G. reflexivity. }
    simpl in G0. simpl.
    pose proof (balloc_mono e sc nx) as Me.
    destruct (is_blit e) eqn:Le.
    + destruct e; simpl in Le; try discriminate. simpl in *.
      eexists. split; [apply reach_one; unfold step; rewrite G0; unfold exec_node; simpl; rewrite branch_to_target; reflexivity|].
      split; [apply getb_set_same|]. intros i Hi. apply set_other. lia.
    + specialize (IHe g sc nx (P ++ [0]) (Some P) None E fr out Ga Hag Hb).
      destruct (beval E e) as [v|]; [|exact IHe].
      destruct IHe as [fr1 [R1 [V1 F1]]]. simpl in R1.
      destruct (balloc e sc nx) as [ob n1] eqn:Hbe. simpl in *.
      eexists. split.
      * eapply reach_trans; [exact R1|]. apply reach_one. unfold step. rewrite G0. unfold exec_node. simpl.
        rewrite V1, branch_to_target. reflexivity.
      * split; [apply getb_set_same|]. intros i Hi. rewrite set_other; [apply F1; exact Hi | lia].
  - (* BAnd *)
    assert (Ga : forall q, g ((P ++ [0]) ++ q) = bnode_at q e1 sc nx (P ++ [0]) (Some (bstart e2 (P ++ [1]))) (Some P)).
    { intros q. rewrite <- app_assoc. simpl. rewrite G. reflexivity. }
    assert (Gb : forall q, g ((P ++ [1]) ++ q) = bnode_at q e2 sc (snd (balloc e1 sc nx)) (P ++ [1]) (Some P) None).
    { intros q. rewrite <- app_assoc. simpl. rewrite G. reflexivity. }
    simpl in G0. simpl.
    pose proof (balloc_mono e1 sc nx) as M1.
    specialize (IHe1 g sc nx (P ++ [0]) _ _ E fr out Ga Hag Hb).
    destruct (beval E e1) as [va|]; [|exact IHe1].
    destruct IHe1 as [fr1 [R1 [V1 F1]]]. simpl in R1.
    assert (Hag1 : agree E sc fr1).
    { eapply agree_frame; [exact Hag|]. intros i Hi. apply F1. apply Hb. exact Hi. }
    pose proof (boperand_stable e1 sc nx fr1) as St.
    destruct (balloc e1 sc nx) as [oa n1] eqn:Ha. simpl in *.
    pose proof (balloc_mono e2 sc n1) as M2.
    destruct va.
    + assert (Hb1 : bounded sc n1) by (eapply bounded_mono; eauto).
      specialize (IHe2 g sc n1 (P ++ [1]) (Some P) None E fr1 out Gb Hag1 Hb1).
      destruct (beval E e2) as [vb|]; [|eapply reach_trans; [exact R1 | exact IHe2]].
      destruct IHe2 as [fr2 [R2 [V2 F2]]]. simpl in R2.
      destruct (balloc e2 sc n1) as [ob n2] eqn:Hb2. simpl in *.
      eexists. split.
      * eapply reach_trans; [exact R1|]. eapply reach_trans; [exact R2|].
        apply reach_one. unfold step. rewrite G0. unfold exec_node. simpl.
        rewrite (St fr2 F2), V1, V2, branch_to_target. reflexivity.
      * split; [apply getb_set_same|]. intros i Hi. rewrite set_other by lia. rewrite F2 by lia. apply F1. exact Hi.
    + destruct (balloc e2 sc n1) as [ob n2] eqn:Hb2. simpl in *.
      eexists. split.
      * eapply reach_trans; [exact R1|]. apply reach_one. unfold step. rewrite G0. unfold exec_node. simpl.
        rewrite V1, branch_to_target. reflexivity.
      * split; [apply getb_set_same|]. intros i Hi. rewrite set_other by lia. apply F1. exact Hi.
  - (* BOr *)
    assert (Ga : forall q, g ((P ++ [0]) ++ q) = bnode_at q e1 sc nx (P ++ [0]) (Some P) (Some (bstart e2 (P ++ [1])))).
    { intros q. rewrite <- app_assoc. simpl. rewrite G. reflexivity. }
    assert (Gb : forall q, g ((P ++ [1]) ++ q) = bnode_at q e2 sc (snd (balloc e1 sc nx)) (P ++ [1]) (Some P) None).
    { intros q. rewrite <- app_assoc. simpl. rewrite G. reflexivity. }
    simpl in G0. simpl.
    pose proof (balloc_mono e1 sc nx) as M1.
    specialize (IHe1 g sc nx (P ++ [0]) _ _ E fr out Ga Hag Hb).
    destruct (beval E e1) as [va|]; [|exact IHe1].
    destruct IHe1 as [fr1 [R1 [V1 F1]]]. simpl in R1.
    assert (Hag1 : agree E sc fr1).
    { eapply agree_frame; [exact Hag|]. intros i Hi. apply F1. apply Hb. exact Hi. }
    pose proof (boperand_stable e1 sc nx fr1) as St.
    destruct (balloc e1 sc nx) as [oa n1] eqn:Ha. simpl in *.
    pose proof (balloc_mono e2 sc n1) as M2.
    destruct va.
    + destruct (balloc e2 sc n1) as [ob n2] eqn:Hb2. simpl in *.
      eexists. split.
      * eapply reach_trans; [exact R1|]. apply reach_one. unfold step. rewrite G0. unfold exec_node. simpl.
        rewrite V1, branch_to_target. reflexivity.
      * split; [apply getb_set_same|]. intros i Hi. rewrite set_other by lia. apply F1. exact Hi.
    + assert (Hb1 : bounded sc n1) by (eapply bounded_mono; eauto).
      specialize (IHe2 g sc n1 (P ++ [1]) (Some P) None E fr1 out Gb Hag1 Hb1).
      destruct (beval E e2) as [vb|]; [|eapply reach_trans; [exact R1 | exact IHe2]].
      destruct IHe2 as [fr2 [R2 [V2 F2]]]. simpl in R2.
      destruct (balloc e2 sc n1) as [ob n2] eqn:Hb2. simpl in *.
      eexists. split.
      * eapply reach_trans; [exact R1|]. eapply reach_trans; [exact R2|].
        apply reach_one. unfold step. rewrite G0. unfold exec_node. simpl.
        rewrite (St fr2 F2), V1, V2, branch_to_target. reflexivity.
      * split; [apply getb_set_same|]. intros i Hi. rewrite set_other by lia. rewrite F2 by lia. apply F1. exact Hi.
Qed.
