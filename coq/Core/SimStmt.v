(** C01 — simulation, part 2: statements.  By induction on the fuel of G's interpreter: whenever G
    runs a statement to an outcome, the machine of Y, started at the statement's start node, reaches
    the node that the wiring designates for that outcome (next / break target / continue target, or a
    panic) with the same output and a frame that agrees with G's environment. *)
From Verif Require Import Core.Syntax Core.GoSem Core.Cfg Core.Wf Core.Lemmas Core.GLemmas Core.SimExpr.
Local Open Scope nat_scope.

Definition target (K : sctx) (o : outcome) : option path :=
  match o with ONormal => k_next K | OBreak => k_brk K | OContinue => k_cont K | OPanic => None end.

Definition post_ok (K : sctx) (sc : scope) (nx : nat) (sc' : scope) (fr : frame)
           (o : outcome) (E' : env) (out' : list Z) (r : mres) : Prop :=
  match o with
  | OPanic => r = MPanic out'
  | _ => exists fr', r = MRun (target K o) fr' out' /\ preserved fr fr' sc nx /\
          (exists Ext Eb, E' = Ext ++ Eb /\ agree Eb sc fr') /\
          (o = ONormal -> agree E' sc' fr')
  end.

(* ------------------------------------------------------------------ helpers *)

Lemma visible_push i x n sc : visible i ((x, n) :: sc) -> i = n \/ visible i sc.
Proof.
  intros [y H]. simpl in H. destruct (Nat.eqb y x); [inversion H; auto | right; exists y; exact H].
Qed.

Lemma preserved_weaken fr fr' sc nx sc' nx' :
  preserved fr fr' sc' nx' ->
  (forall i, i < nx -> ~ visible i sc -> i < nx' /\ ~ visible i sc') ->
  preserved fr fr' sc nx.
Proof. intros H W i Hi Hv. destruct (W i Hi Hv). apply H; assumption. Qed.

Lemma preserved_below fr fr' sc nx : (forall i, i < nx -> fr' i = fr i) -> preserved fr fr' sc nx.
Proof. intros H i Hi _. apply H. exact Hi. Qed.

Lemma weaken_after s sc nx i :
  scope_ok sc nx -> i < nx -> ~ visible i sc ->
  i < snd (salloc s sc nx) /\ ~ visible i (fst (salloc s sc nx)).
Proof.
  intros Hok Hi Hv. pose proof (salloc_mono s sc nx). split; [lia|]. rewrite salloc_scope.
  destruct s; simpl; try exact Hv.
  intros Hv'. apply visible_push in Hv'. destruct Hv' as [->|Hv']; [|contradiction].
  pose proof (aalloc_mono e sc nx None). lia.
Qed.

Lemma agree_below E sc fr fr' nx :
  agree E sc fr -> bounded sc nx -> (forall i, i < nx -> fr' i = fr i) -> agree E sc fr'.
Proof. intros H Hb F. eapply agree_frame; [exact H|]. intros i Hi. apply F. apply Hb. exact Hi. Qed.

Lemma agree_base_after s sc nx Eb fr :
  agree Eb (fst (salloc s sc nx)) fr -> exists A B, Eb = A ++ B /\ agree B sc fr.
Proof.
  rewrite salloc_scope. destruct s; simpl; intros H; try (exists [], Eb; split; [reflexivity | exact H]).
  inversion H; subst. exists [x0], l. split; [reflexivity | assumption].
Qed.

Lemma agree_restore E E1 sc fr fr' Ext Eb :
  agree E sc fr -> E1 = Ext ++ Eb -> agree Eb sc fr' -> restore E E1 = Eb.
Proof.
  intros H -> Hb. apply restore_app. apply agree_length in H. apply agree_length in Hb. congruence.
Qed.

Lemma arith_none_indep op a a' v : arith op a v = None -> arith op a' v = None.
Proof. destruct op; simpl; try discriminate; destruct (v =? 0)%Z; try discriminate; reflexivity. Qed.

Lemma app_nil_path (g : cfg) (P : path) (h : path -> option cnode) :
  (forall q, g (P ++ q) = h q) -> g P = h [].
Proof. intros H. rewrite <- (app_nil_r P) at 1. apply H. Qed.

Lemma sub_embed (g : cfg) (P : path) (i : nat) (h : path -> option cnode) :
  (forall q, g (P ++ q) = h q) -> forall q, g ((P ++ [i]) ++ q) = h (i :: q).
Proof. intros H q. rewrite <- app_assoc. simpl. apply H. Qed.

(* ------------------------------------------------------------------ simple statements *)

Section simple.
  Variables (g : cfg) (sc : scope) (nx : nat) (K : sctx) (P : path) (E : env) (fr : frame) (out : list Z).
  Hypothesis Hag : agree E sc fr.
  Hypothesis Hok : scope_ok sc nx.

  Let Hb : bounded sc nx := proj1 Hok.
  Let Hnd : NoDup (map snd sc) := proj2 Hok.

  Lemma sim_assign n x e o E' out' :
    exec (S n) (SAssign x e) E out = Res o E' out' ->
    (forall q, g (P ++ q) = snode_at q (SAssign x e) sc nx K P) ->
    exists r, reach g (Some (sstart (SAssign x e) P)) fr out r /\
              post_ok K sc nx (fst (salloc (SAssign x e) sc nx)) fr o E' out' r.
  Proof.
    intros H G. pose proof (app_nil_path _ _ _ G) as G0. pose proof (sub_embed _ _ 1 _ G) as G1.
    simpl in H, G0, G1. rewrite salloc_assign. simpl. unfold assign_dst in *.
    destruct (is_leaf e) eqn:Le.
    - (* source is a variable or a literal *)
      rewrite (leaf_val e sc nx None E fr Le Hag) in H. inversion H; subst; clear H.
      destruct (slot_of x sc) as [d|] eqn:Hs.
      + eexists. split; [apply reach_one; unfold step; rewrite G0; reflexivity|].
        simpl. eexists. split; [reflexivity|]. split; [|split].
        * intros i Hi Hv. apply set_other. intros ->. apply Hv. exists x. exact Hs.
        * exists [], (update x (oval fr (operand_of e sc nx None)) E). split; [reflexivity|]. apply agree_update; assumption.
        * intros _. apply agree_update; assumption.
      + eexists. split; [apply reach_one; unfold step; rewrite G0; reflexivity|].
        rewrite (agree_update_none _ _ _ _ _ Hag Hs).
        simpl. eexists. split; [reflexivity|]. split; [apply preserved_refl|]. split; [exists [], E; auto | auto].
    - (* arithmetic source: the assignment node is a nop, the operator wrote the destination *)
      assert (Hd : forall d, slot_of x sc = Some d -> d < nx).
      { intros d Hs. apply Hb. eapply slot_of_In; eauto. }
      pose proof (asim e Le g sc nx (slot_of x sc) (P ++ [1]) (Some P) E fr out G1 Le Hag Hb Hd) as A.
      assert (G0' : g P = Some (mknode XNop (k_next K) None)).
      { rewrite G0. destruct (slot_of x sc); reflexivity. }
      destruct (aeval E e) as [v|]; inversion H; subst; clear H.
      + destruct A as [fr1 [R1 [V1 [F1 S1]]]].
        eexists. split; [eapply reach_trans; [exact R1|]; apply reach_one; unfold step; rewrite G0'; reflexivity|].
        simpl. eexists. split; [reflexivity|].
        destruct (slot_of x sc) as [d|] eqn:Hs.
        * destruct (aalloc_slot e sc nx (Some d) Le) as [d' [Hd' ->]].
          assert (Hag1 : agree (update x v E) sc fr1).
          { eapply agree_frame; [apply (agree_update _ _ _ x v d Hag Hnd Hs)|].
            intros i Hi. destruct (Nat.eq_dec i d) as [->|Hne].
            - rewrite set_same. apply S1. exact Hd'.
            - rewrite set_other by exact Hne. apply F1; [apply Hb; exact Hi | congruence]. }
          split; [|split].
          -- intros i Hi Hv. apply F1; [exact Hi|]. intros Hc. inversion Hc; subst. apply Hv. exists x. exact Hs.
          -- exists [], (update x v E). split; [reflexivity | exact Hag1].
          -- intros _. exact Hag1.
        * rewrite (agree_update_none _ _ _ _ _ Hag Hs).
          assert (Hag1 : agree E sc fr1) by (eapply agree_below; eauto; intros i Hi; apply F1; [exact Hi | discriminate]).
          split; [|split].
          -- apply preserved_below. intros i Hi. apply F1; [exact Hi | discriminate].
          -- exists [], E. auto.
          -- auto.
      + eexists. split; [exact A | reflexivity].
  Qed.

  Lemma sim_define n x e o E' out' :
    exec (S n) (SDefine x e) E out = Res o E' out' ->
    (forall q, g (P ++ q) = snode_at q (SDefine x e) sc nx K P) ->
    exists r, reach g (Some (sstart (SDefine x e) P)) fr out r /\
              post_ok K sc nx (fst (salloc (SDefine x e) sc nx)) fr o E' out' r.
  Proof.
    intros H G. pose proof (app_nil_path _ _ _ G) as G0. pose proof (sub_embed _ _ 1 _ G) as G1.
    simpl in H, G0, G1. rewrite salloc_define. simpl.
    pose proof (aoperand g e sc nx (P ++ [1]) (Some P) E fr out G1 Hag Hb) as A.
    pose proof (aalloc_mono e sc nx None) as M.
    destruct (aalloc e sc nx None) as [oe n1] eqn:Ha. simpl in *.
    destruct (aeval E e) as [v|]; inversion H; subst; clear H.
    - destruct A as [fr1 [R1 [V1 F1]]].
      assert (Hag1 : agree E sc (set fr1 n1 (VI v))).
      { eapply agree_below; [exact Hag | exact Hb|]. intros i Hi. rewrite set_other by lia. apply F1. exact Hi. }
      eexists. split.
      + destruct (is_leaf e); (eapply reach_trans; [exact R1|]); apply reach_one; unfold step; rewrite G0; reflexivity.
      + simpl. eexists. split; [reflexivity|]. rewrite V1. split; [|split].
        * apply preserved_below. intros i Hi. rewrite set_other by lia. apply F1. exact Hi.
        * exists [(x, v)], E. split; [reflexivity | exact Hag1].
        * intros _. constructor; [simpl; split; [reflexivity | apply set_same] | exact Hag1].
    - eexists. split; [|reflexivity]. destruct (is_leaf e); exact A.
  Qed.

  Lemma sim_opassign n op x e o E' out' :
    exec (S n) (SOpAssign op x e) E out = Res o E' out' ->
    (forall q, g (P ++ q) = snode_at q (SOpAssign op x e) sc nx K P) ->
    exists r, reach g (Some (sstart (SOpAssign op x e) P)) fr out r /\
              post_ok K sc nx (fst (salloc (SOpAssign op x e) sc nx)) fr o E' out' r.
  Proof.
    intros H G. pose proof (app_nil_path _ _ _ G) as G0. pose proof (sub_embed _ _ 1 _ G) as G1.
    simpl in H, G0, G1. rewrite salloc_opassign. simpl.
    pose proof (aoperand g e sc nx (P ++ [1]) (Some P) E fr out G1 Hag Hb) as A.
    unfold operand_of in G0.
    destruct (aeval E e) as [v|]; [|inversion H; subst; eexists; split; [|reflexivity]; destruct (is_leaf e); exact A].
    destruct A as [fr1 [R1 [V1 F1]]].
    assert (Hag1 : agree E sc fr1) by (eapply agree_below; eauto).
    assert (R1' : reach g (Some (if is_leaf e then P else astart e (P ++ [1]))) fr out (MRun (Some P) fr1 out)).
    { destruct (is_leaf e); exact R1. }
    destruct (slot_of x sc) as [d|] eqn:Hs.
    - assert (Hd : d < nx) by (apply Hb; eapply slot_of_In; eauto).
      assert (Hget : geti fr1 d = get x E) by (eapply agree_get; eauto).
      destruct (arith op (get x E) v) as [r|] eqn:Har; injection H as <- <- <-.
      + eexists. split.
        * eapply reach_trans; [exact R1'|]. apply reach_one. unfold step. rewrite G0. unfold exec_node. simpl.
          rewrite Hget, V1, Har. reflexivity.
        * simpl. eexists. split; [reflexivity|].
          assert (Hag2 : agree (update x r E) sc (set fr1 d (VI r))) by (apply agree_update; assumption).
          split; [|split].
          -- intros i Hi Hv. rewrite set_other; [apply F1; exact Hi|]. intros ->. apply Hv. exists x. exact Hs.
          -- exists [], (update x r E). split; [reflexivity | exact Hag2].
          -- intros _. exact Hag2.
      + eexists. split; [|reflexivity].
        eapply reach_trans; [exact R1'|]. apply reach_panic. unfold step. rewrite G0. unfold exec_node. simpl.
        rewrite Hget, V1, Har. reflexivity.
    - destruct (arith op (get x E) v) as [r|] eqn:Har; injection H as <- <- <-.
      + rewrite (agree_update_none _ _ _ _ _ Hag Hs).
        destruct (arith op (geti fr1 nx) v) as [r'|] eqn:Har'; [|rewrite (arith_none_indep _ _ (get x E) _ Har') in Har; discriminate].
        eexists. split.
        * eapply reach_trans; [exact R1'|]. apply reach_one. unfold step. rewrite G0. unfold exec_node. simpl.
          rewrite V1, Har'. reflexivity.
        * simpl. eexists. split; [reflexivity|].
          assert (Hag2 : agree E sc (set fr1 nx (VI r'))).
          { eapply agree_below; [exact Hag1 | exact Hb|]. intros i Hi. apply set_other. lia. }
          split; [|split].
          -- apply preserved_below. intros i Hi. rewrite set_other by lia. apply F1. exact Hi.
          -- exists [], E. auto.
          -- auto.
      + eexists. split; [|reflexivity].
        eapply reach_trans; [exact R1'|]. apply reach_panic. unfold step. rewrite G0. unfold exec_node. simpl.
        rewrite V1, (arith_none_indep _ _ (geti fr1 nx) _ Har). reflexivity.
  Qed.

  Lemma sim_incdec n inc x o E' out' :
    exec (S n) (SIncDec inc x) E out = Res o E' out' ->
    (forall q, g (P ++ q) = snode_at q (SIncDec inc x) sc nx K P) ->
    exists r, reach g (Some (sstart (SIncDec inc x) P)) fr out r /\
              post_ok K sc nx (fst (salloc (SIncDec inc x) sc nx)) fr o E' out' r.
  Proof.
    intros H G. pose proof (app_nil_path _ _ _ G) as G0. simpl in H, G0. rewrite salloc_incdec. simpl.
    inversion H; subst; clear H.
    destruct (slot_of x sc) as [d|] eqn:Hs.
    - eexists. split; [apply reach_one; unfold step; rewrite G0; reflexivity|]. simpl.
      rewrite (agree_get _ _ _ _ _ Hag Hs).
      assert (Hag2 : agree (update x (wrap (get x E + (if inc then 1 else -1))) E) sc
                        (set fr d (VI (wrap (get x E + (if inc then 1 else -1)))))) by (apply agree_update; assumption).
      eexists. split; [reflexivity|]. split; [|split].
      + intros i Hi Hv. apply set_other. intros ->. apply Hv. exists x. exact Hs.
      + eexists [], _. split; [reflexivity | exact Hag2].
      + intros _. exact Hag2.
    - eexists. split; [apply reach_one; unfold step; rewrite G0; reflexivity|]. simpl.
      rewrite (agree_update_none _ _ _ _ _ Hag Hs).
      eexists. split; [reflexivity|]. split; [apply preserved_refl|]. split; [exists [], E; auto | auto].
  Qed.

  Lemma sim_print n e o E' out' :
    exec (S n) (SPrint e) E out = Res o E' out' ->
    (forall q, g (P ++ q) = snode_at q (SPrint e) sc nx K P) ->
    exists r, reach g (Some (sstart (SPrint e) P)) fr out r /\
              post_ok K sc nx (fst (salloc (SPrint e) sc nx)) fr o E' out' r.
  Proof.
    intros H G. pose proof (app_nil_path _ _ _ G) as G0. pose proof (sub_embed _ _ 0 _ G) as G1.
    simpl in H, G0, G1. rewrite salloc_print. simpl.
    pose proof (aoperand g e sc nx (P ++ [0]) (Some P) E fr out G1 Hag Hb) as A.
    unfold operand_of in G0.
    destruct (aeval E e) as [v|]; inversion H; subst; clear H.
    - destruct A as [fr1 [R1 [V1 F1]]].
      assert (Hag1 : agree E' sc fr1) by (eapply agree_below; eauto).
      eexists. split.
      + destruct (is_leaf e); (eapply reach_trans; [exact R1|]); apply reach_one; unfold step; rewrite G0; reflexivity.
      + simpl. rewrite V1. eexists. split; [reflexivity|]. split; [apply preserved_below; exact F1|].
        split; [exists [], E'; auto | auto].
    - eexists. split; [|reflexivity]. destruct (is_leaf e); exact A.
  Qed.

  Lemma sim_break n o E' out' :
    exec (S n) SBreak E out = Res o E' out' ->
    (forall q, g (P ++ q) = snode_at q SBreak sc nx K P) ->
    exists r, reach g (Some (sstart SBreak P)) fr out r /\
              post_ok K sc nx (fst (salloc SBreak sc nx)) fr o E' out' r.
  Proof.
    intros H G. pose proof (app_nil_path _ _ _ G) as G0. simpl in H, G0. inversion H; subst; clear H.
    rewrite ?salloc_break, ?salloc_continue. simpl.
    eexists. split; [apply reach_one; unfold step; rewrite G0; reflexivity|]. simpl.
    eexists. split; [reflexivity|]. split; [apply preserved_refl|]. split; [exists [], E'; auto | discriminate].
  Qed.

  Lemma sim_continue n o E' out' :
    exec (S n) SContinue E out = Res o E' out' ->
    (forall q, g (P ++ q) = snode_at q SContinue sc nx K P) ->
    exists r, reach g (Some (sstart SContinue P)) fr out r /\
              post_ok K sc nx (fst (salloc SContinue sc nx)) fr o E' out' r.
  Proof.
    intros H G. pose proof (app_nil_path _ _ _ G) as G0. simpl in H, G0. inversion H; subst; clear H.
    rewrite ?salloc_break, ?salloc_continue. simpl.
    eexists. split; [apply reach_one; unfold step; rewrite G0; reflexivity|]. simpl.
    eexists. split; [reflexivity|]. split; [apply preserved_refl|]. split; [exists [], E'; auto | discriminate].
  Qed.
End simple.

(* ------------------------------------------------------------------ statement lists and blocks *)

Definition list_start (b : list stmt) (i : nat) (P : path) : option path :=
  match nth_error b i with Some s => Some (sstart s (P ++ [i])) | None => Some P end.

Definition P_exec (n : nat) : Prop :=
  forall s g sc nx K P E fr out o E' out',
    exec n s E out = Res o E' out' ->
    (forall q, g (P ++ q) = snode_at q s sc nx K P) -> wf s = true ->
    agree E sc fr -> scope_ok sc nx ->
    exists r, reach g (Some (sstart s P)) fr out r /\ post_ok K sc nx (fst (salloc s sc nx)) fr o E' out' r.

Definition P_list (n : nat) : Prop :=
  forall b i g sc0 nx0 K P E fr out o E' out',
    exec_list n (skipn i b) E out = Res o E' out' -> i <= length b ->
    (forall q, g (P ++ q) = snode_at q (SBlock b) sc0 nx0 K P) -> forallb wf b = true ->
    agree E (fst (salloc_list (firstn i b) sc0 nx0)) fr -> scope_ok sc0 nx0 ->
    exists r, reach g (list_start b i P) fr out r /\
      post_ok (mkctx (Some P) (k_brk K) (k_cont K))
              (fst (salloc_list (firstn i b) sc0 nx0)) (snd (salloc_list (firstn i b) sc0 nx0))
              (fst (salloc_list b sc0 nx0)) fr o E' out' r.

Lemma skipn_cons_nth {A} (b : list A) : forall i s l,
  skipn i b = s :: l -> nth_error b i = Some s /\ skipn (S i) b = l /\ S i <= length b.
Proof.
  induction b as [|a b IH]; intros [|i] s l H; simpl in *; try discriminate.
  - inversion H; subst. repeat split; lia.
  - destruct (IH i s l H) as [A1 [A2 A3]]. repeat split; auto. lia.
Qed.

Lemma skipn_nil_length {A} (b : list A) i : skipn i b = [] -> i <= length b -> i = length b.
Proof.
  revert i. induction b as [|a b IH]; intros [|i] H L; simpl in *; try discriminate; try lia.
  f_equal. apply IH; [exact H | lia].
Qed.

Lemma firstn_S_nth {A} (b : list A) : forall i s, nth_error b i = Some s -> firstn (S i) b = firstn i b ++ [s].
Proof.
  induction b as [|a b IH]; intros [|i] s H; simpl in *; try discriminate.
  - inversion H; reflexivity.
  - f_equal. apply IH. exact H.
Qed.

Lemma salloc_list_snoc l : forall s sc nx,
  salloc_list (l ++ [s]) sc nx = salloc s (fst (salloc_list l sc nx)) (snd (salloc_list l sc nx)).
Proof.
  induction l as [|a l IH]; intros s sc nx; simpl.
  - destruct (salloc s sc nx); reflexivity.
  - destruct (salloc a sc nx) as [sc1 n1]. apply IH.
Qed.

Lemma nth_error_wf b i s : forallb wf b = true -> nth_error b i = Some s -> wf s = true.
Proof. intros H Hn. rewrite forallb_forall in H. apply H. eapply nth_error_In; eauto. Qed.

Lemma step_list n : P_exec n -> P_list n -> P_list (S n).
Proof.
  intros IHe IHl b i g sc0 nx0 K P E fr out o E' out' H Hi G Hwf Hag Hok.
  destruct (skipn i b) as [|s l] eqn:Hsk.
  - (* end of the block *)
    simpl in H. inversion H; subst; clear H.
    pose proof (skipn_nil_length _ _ Hsk Hi) as ->.
    unfold list_start. rewrite (proj2 (nth_error_None b (length b))) by lia.
    rewrite firstn_all in *.
    eexists. split; [apply reach_refl|]. simpl.
    eexists. split; [reflexivity|]. split; [apply preserved_refl|]. split; [exists [], E'; auto | auto].
  - destruct (skipn_cons_nth _ _ _ _ Hsk) as [Hnth [Hsk' HSi]].
    simpl in H.
    destruct (exec n s E out) as [|o1 E1 out1] eqn:Hs; [discriminate|].
    pose proof (salloc_list_ok (firstn i b) sc0 nx0 Hok) as Hoki.
    assert (Gi : forall q, g ((P ++ [i]) ++ q) =
               snode_at q s (fst (salloc_list (firstn i b) sc0 nx0)) (snd (salloc_list (firstn i b) sc0 nx0))
                        (mkctx (next_in_block b i P) (k_brk K) (k_cont K)) (P ++ [i])).
    { intros q. rewrite (sub_embed _ _ i _ G). simpl. rewrite Hnth.
      destruct (salloc_list (firstn i b) sc0 nx0). reflexivity. }
    destruct (IHe _ _ _ _ _ _ _ _ _ _ _ _ Hs Gi (nth_error_wf _ _ _ Hwf Hnth) Hag Hoki) as [r1 [R1 Post1]].
    unfold list_start at 1. rewrite Hnth.
    pose proof (firstn_S_nth _ _ _ Hnth) as HfS.
    assert (Hsa : salloc_list (firstn (S i) b) sc0 nx0 =
                  salloc s (fst (salloc_list (firstn i b) sc0 nx0)) (snd (salloc_list (firstn i b) sc0 nx0))).
    { rewrite HfS. apply salloc_list_snoc. }
    destruct o1; [| inversion H; subst; clear H; exists r1; split; [exact R1|] ..].
    + (* the statement ended normally: go on with the rest *)
      destruct Post1 as [fr1 [-> [Pr1 [_ Ag1]]]]. specialize (Ag1 eq_refl). simpl in R1.
      rewrite <- Hsk' in H. rewrite <- Hsa in Ag1.
      destruct (IHl b (S i) g sc0 nx0 K P E1 fr1 out1 o E' out' H HSi G Hwf Ag1 Hok) as [r2 [R2 Post2]].
      exists r2. split.
      * eapply reach_trans; [exact R1|]. exact R2.
      * destruct o; simpl in *; try exact Post2;
          destruct Post2 as [fr2 [-> [Pr2 [[Ext [Eb [-> AgB]]] Ag2]]]];
          (eexists; split; [reflexivity|]; split; [|split]).
        all: try (eapply preserved_trans; [exact Pr1|]; eapply preserved_weaken; [exact Pr2|];
                  intros j Hj Hv; rewrite Hsa; apply weaken_after; assumption).
        all: try exact Ag2.
        all: rewrite Hsa in AgB; destruct (agree_base_after _ _ _ _ _ AgB) as [A [B [-> AgB']]];
          exists (Ext ++ A), B; split; [rewrite app_assoc; reflexivity | exact AgB'].
    + (* break *)
      destruct Post1 as [fr1 [-> [Pr1 [Base _]]]]. simpl.
      eexists. split; [reflexivity|]. split; [exact Pr1|]. split; [exact Base | discriminate].
    + destruct Post1 as [fr1 [-> [Pr1 [Base _]]]]. simpl.
      eexists. split; [reflexivity|]. split; [exact Pr1|]. split; [exact Base | discriminate].
    + exact Post1.
Qed.

Lemma list_start_0 b P : list_start b 0 P = Some (block_start b P).
Proof. destruct b; reflexivity. Qed.

Lemma block_case n : P_list n ->
  forall b g sc nx K P E fr out o E' out',
    exec (S n) (SBlock b) E out = Res o E' out' ->
    (forall q, g (P ++ q) = snode_at q (SBlock b) sc nx K P) -> forallb wf b = true ->
    agree E sc fr -> scope_ok sc nx ->
    exists r, reach g (Some (block_start b P)) fr out r /\ post_ok K sc nx sc fr o E' out' r.
Proof.
  intros IHl b g sc nx K P E fr out o E' out' H G Hwf Hag Hok.
  simpl in H. destruct (exec_list n b E out) as [|o1 E1 out1] eqn:Hb; [discriminate|].
  inversion H; subst; clear H.
  pose proof (app_nil_path _ _ _ G) as G0. simpl in G0.
  destruct (IHl b 0 g sc nx K P E fr out o E1 out' Hb (Nat.le_0_l _) G Hwf Hag Hok) as [r1 [R1 Post1]].
  rewrite list_start_0 in R1. simpl in Post1.
  destruct o; simpl in *; try (exists r1; split; [exact R1 | exact Post1]).
  - destruct Post1 as [fr1 [-> [Pr1 [[Ext [Eb [-> AgB]]] _]]]].
    eexists. split; [eapply reach_trans; [exact R1|]; apply reach_one; unfold step; rewrite G0; reflexivity|].
    simpl. rewrite (agree_restore _ _ _ _ _ _ _ Hag eq_refl AgB).
    eexists. split; [reflexivity|]. split; [exact Pr1|]. split; [exists [], Eb; auto | auto].
  - destruct Post1 as [fr1 [-> [Pr1 [[Ext [Eb [-> AgB]]] _]]]].
    exists (MRun (k_brk K) fr1 out'). split; [exact R1|].
    rewrite (agree_restore _ _ _ _ _ _ _ Hag eq_refl AgB).
    eexists. split; [reflexivity|]. split; [exact Pr1|]. split; [exists [], Eb; auto | discriminate].
  - destruct Post1 as [fr1 [-> [Pr1 [[Ext [Eb [-> AgB]]] _]]]].
    exists (MRun (k_cont K) fr1 out'). split; [exact R1|].
    rewrite (agree_restore _ _ _ _ _ _ _ Hag eq_refl AgB).
    eexists. split; [reflexivity|]. split; [exact Pr1|]. split; [exists [], Eb; auto | discriminate].
Qed.

(* ------------------------------------------------------------------ conditions and branches *)

Definition cond_entry (c : bexp) (P1 T F : path) : option path :=
  match c with BLit true => Some T | BLit false => Some F | _ => Some (bstart c P1) end.

Lemma cond_sim c g sc nx P1 T F E fr out :
  (ckind (Some c) = CDyn -> forall q, g (P1 ++ q) = bnode_at q c sc nx P1 (Some T) (Some F)) ->
  agree E sc fr -> bounded sc nx ->
  match beval E c with
  | Some v => exists fr', reach g (cond_entry c P1 T F) fr out (MRun (Some (if v then T else F)) fr' out)
               /\ (forall i, i < nx -> fr' i = fr i)
  | None => reach g (cond_entry c P1 T F) fr out (MPanic out)
  end.
Proof.
  intros G Hag Hb.
  assert (Dyn : ckind (Some c) = CDyn ->
    match beval E c with
    | Some v => exists fr', reach g (Some (bstart c P1)) fr out (MRun (Some (if v then T else F)) fr' out)
                 /\ (forall i, i < nx -> fr' i = fr i)
    | None => reach g (Some (bstart c P1)) fr out (MPanic out)
    end).
  { intros Hk. pose proof (bsim c g sc nx P1 (Some T) (Some F) E fr out (G Hk) Hag Hb) as B.
    destruct (beval E c) as [v|]; [|exact B]. destruct B as [fr' [R [_ F']]]. exists fr'. split; [|exact F'].
    destruct v; exact R. }
  destruct c; try (apply Dyn; reflexivity).
  destruct b; simpl; exists fr; split; auto; apply reach_refl.
Qed.

(** A block used as a branch: its statements, then the block node, which continues at [N]. *)
Lemma branch_block n : P_list n ->
  forall b g sc nx brk cont N PB E fr out o E2 out2,
    exec_list n b E out = Res o E2 out2 ->
    (forall q, g (PB ++ q) = snode_at q (SBlock b) sc nx (mkctx N brk cont) PB) -> forallb wf b = true ->
    agree E sc fr -> scope_ok sc nx ->
    exists r, reach g (Some (block_start b PB)) fr out r /\
      match o with
      | OPanic => r = MPanic out2
      | _ => exists fr', r = MRun (match o with ONormal => N | OBreak => brk | _ => cont end) fr' out2 /\
               preserved fr fr' sc nx /\ exists Ext Eb, E2 = Ext ++ Eb /\ agree Eb sc fr'
      end.
Proof.
  intros IHl b g sc nx brk cont N PB E fr out o E2 out2 H G Hwf Hag Hok.
  pose proof (app_nil_path _ _ _ G) as G0. simpl in G0.
  destruct (IHl b 0 g sc nx (mkctx N brk cont) PB E fr out o E2 out2 H (Nat.le_0_l _) G Hwf Hag Hok) as [r1 [R1 Post1]].
  rewrite list_start_0 in R1. simpl in Post1.
  destruct o; simpl in *; [| exists r1; split; [exact R1|] ..].
  - destruct Post1 as [fr1 [-> [Pr1 [Base _]]]].
    eexists. split; [eapply reach_trans; [exact R1|]; apply reach_one; unfold step; rewrite G0; reflexivity|].
    simpl. eexists. split; [reflexivity|]. split; [exact Pr1 | exact Base].
  - destruct Post1 as [fr1 [-> [Pr1 [Base _]]]]. eexists. split; [reflexivity|]. split; [exact Pr1 | exact Base].
  - destruct Post1 as [fr1 [-> [Pr1 [Base _]]]]. eexists. split; [reflexivity|]. split; [exact Pr1 | exact Base].
  - exact Post1.
Qed.

(** The optional init statement of an if / for. *)
Lemma init_stage n : P_exec n ->
  forall init g sc nx brk cont N P0 E fr out o1 E1 out1,
    exec_opt n init E out = Res o1 E1 out1 ->
    (forall s0, init = Some s0 -> forall q, g (P0 ++ q) = snode_at q s0 sc nx (mkctx N brk cont) P0) ->
    simple_opt init = true -> (forall s0, init = Some s0 -> wf s0 = true) ->
    agree E sc fr -> scope_ok sc nx ->
    exists r, reach g (match init with Some s0 => Some (sstart s0 P0) | None => N end) fr out r /\
      match o1 with
      | OPanic => r = MPanic out1
      | _ => exists fr1, r = MRun N fr1 out1 /\ o1 = ONormal /\ preserved fr fr1 sc nx /\
               agree E1 (fst (salloc_opt init sc nx)) fr1
      end.
Proof.
  intros IHe init g sc nx brk cont N P0 E fr out o1 E1 out1 H G Hs Hwf Hag Hok.
  destruct init as [s0|]; simpl in *.
  - destruct (IHe _ _ _ _ _ _ _ _ _ _ _ _ H (G s0 eq_refl) (Hwf s0 eq_refl) Hag Hok) as [r [R Post]].
    exists r. split; [exact R|].
    destruct (simple_outcome _ _ _ _ _ _ _ H Hs) as [-> | ->]; simpl in *; [|exact Post].
    destruct Post as [fr1 [-> [Pr [_ Ag]]]]. exists fr1. repeat split; auto.
  - inversion H; subst. eexists. split; [apply reach_refl|]. exists fr. repeat split; auto; try apply preserved_refl.
Qed.

Lemma weaken_after_opt init sc nx i :
  scope_ok sc nx -> i < nx -> ~ visible i sc ->
  i < snd (salloc_opt init sc nx) /\ ~ visible i (fst (salloc_opt init sc nx)).
Proof. destruct init; simpl; [apply weaken_after | auto]. Qed.

Lemma agree_base_after_opt init sc nx Eb fr :
  agree Eb (fst (salloc_opt init sc nx)) fr -> exists A B, Eb = A ++ B /\ agree B sc fr.
Proof. destruct init; simpl; [apply agree_base_after | intros H; exists [], Eb; auto]. Qed.

(** Leaving an if / for: the environment is cut back to the one at entry. *)
Lemma leave_scope init sc nx E fr E2 Ext Eb fr' :
  agree E sc fr -> E2 = Ext ++ Eb -> agree Eb (fst (salloc_opt init sc nx)) fr' ->
  agree (restore E E2) sc fr'.
Proof.
  intros Hag -> AgB. destruct (agree_base_after_opt _ _ _ _ _ AgB) as [A [B [-> AgB']]].
  rewrite app_assoc. rewrite (agree_restore _ _ _ _ _ _ _ Hag eq_refl AgB'). exact AgB'.
Qed.

(* ------------------------------------------------------------------ if *)

Definition if_entry_ref (k : condkind) (he : bool) : ref :=
  match k with CTrue => RStart 2 | CFalse => if he then RStart 3 else RSelf | _ => RStart 1 end.

Lemma wire_if_facts (hi : bool) (k : condkind) (he : bool) :
  k <> CNone ->
  (if hi then if_init_t (wire_if hi k he) else if_start (wire_if hi k he)) = if_entry_ref k he /\
  (hi = true -> if_start (wire_if hi k he) = RStart 0) /\
  (k = CDyn -> if_cond_t (wire_if hi k he) = RStart 2 /\ if_cond_f (wire_if hi k he) = if he then RStart 3 else RSelf) /\
  if_then_t (wire_if hi k he) = RSelf /\
  (he = true -> if_else_t (wire_if hi k he) = RSelf).
Proof. destruct hi, k, he; intros H; try congruence; repeat split; intros; try reflexivity; try discriminate. Qed.

Lemma ckind_some_not_none c : ckind (Some c) <> CNone.
Proof. destruct c as [[|]| | | |]; discriminate. Qed.

Lemma if_case n : P_exec n -> P_list n ->
  forall init c t e g sc nx K P E fr out o E' out',
    exec (S n) (SIf init c t e) E out = Res o E' out' ->
    (forall q, g (P ++ q) = snode_at q (SIf init c t e) sc nx K P) -> wf (SIf init c t e) = true ->
    agree E sc fr -> scope_ok sc nx ->
    exists r, reach g (Some (sstart (SIf init c t e) P)) fr out r /\ post_ok K sc nx sc fr o E' out' r.
Proof.
  intros IHe IHl init c t e g sc nx K P E fr out o E' out' H G Hwf Hag Hok.
  rewrite exec_if_eq in H.
  pose proof (app_nil_path _ _ _ G) as G0. simpl in G0.
  (* well-formedness *)
  simpl in Hwf. apply andb_prop in Hwf. destruct Hwf as [Hwf We]. apply andb_prop in Hwf. destruct Hwf as [Hwf Wt].
  apply andb_prop in Hwf. destruct Hwf as [Si Wi].
  set (w := wire_if (is_some init) (ckind (Some c)) (is_some e)) in *.
  destruct (wire_if_facts (is_some init) (ckind (Some c)) (is_some e) (ckind_some_not_none c)) as [Fe [Fs [Fc [Ft Fel]]]].
  fold w in Fe, Fs, Fc, Ft, Fel.
  set (rf := if_ref init c t e P) in *.
  (* embeddings of the children *)
  assert (Gi : forall s0, init = Some s0 -> forall q,
             g ((P ++ [0]) ++ q) = snode_at q s0 sc nx (mkctx (rf (if_init_t w)) (k_brk K) (k_cont K)) (P ++ [0])).
  { intros s0 -> q. rewrite (sub_embed _ _ 0 _ G). simpl. destruct (salloc s0 sc nx). reflexivity. }
  assert (Gc : forall q, g ((P ++ [1]) ++ q) =
             bnode_at q c (fst (salloc_opt init sc nx)) (snd (salloc_opt init sc nx)) (P ++ [1]) (rf (if_cond_t w)) (rf (if_cond_f w))).
  { intros q. rewrite (sub_embed _ _ 1 _ G). simpl. destruct (salloc_opt init sc nx). reflexivity. }
  assert (Gt : forall q, g ((P ++ [2]) ++ q) =
             snode_at q (SBlock t) (fst (salloc_opt init sc nx)) (snd (balloc c (fst (salloc_opt init sc nx)) (snd (salloc_opt init sc nx))))
                      (mkctx (rf (if_then_t w)) (k_brk K) (k_cont K)) (P ++ [2])).
  { intros q. rewrite (sub_embed _ _ 2 _ G). simpl. destruct (salloc_opt init sc nx). reflexivity. }
  assert (Gel : forall e0, e = Some e0 -> forall q, g ((P ++ [3]) ++ q) =
             snode_at q (SBlock e0) (fst (salloc_opt init sc nx))
                      (snd (salloc_list t (fst (salloc_opt init sc nx)) (snd (balloc c (fst (salloc_opt init sc nx)) (snd (salloc_opt init sc nx))))))
                      (mkctx (rf (if_else_t w)) (k_brk K) (k_cont K)) (P ++ [3])).
  { intros e0 -> q. rewrite (sub_embed _ _ 3 _ G). simpl. destruct (salloc_opt init sc nx). reflexivity. }
  (* the entry point after init *)
  set (T := block_start t (P ++ [2])).
  set (F := match e with Some e0 => block_start e0 (P ++ [3]) | None => P end).
  assert (Entry : rf (if_entry_ref (ckind (Some c)) (is_some e)) = cond_entry c (P ++ [1]) T F).
  { unfold rf, if_ref, cond_entry, T, F. destruct c as [[|]| | | |]; destruct e; reflexivity. }
  assert (Start : Some (sstart (SIf init c t e) P) =
                  match init with Some s0 => Some (sstart s0 (P ++ [0])) | None => rf (if_entry_ref (ckind (Some c)) (is_some e)) end).
  { unfold rf, if_ref. destruct init as [s0|]; destruct c as [[|]| | | |]; destruct e; reflexivity. }
  (* stage 1: init *)
  destruct (exec_opt n init E out) as [|o1 E1 out1] eqn:Hinit; [discriminate|].
  assert (Wi' : forall s0, init = Some s0 -> wf s0 = true) by (intros s0 ->; exact Wi).
  assert (Ninit : rf (if_init_t w) = rf (if_entry_ref (ckind (Some c)) (is_some e)) \/ init = None).
  { destruct init; [left; simpl in Fe; rewrite Fe; reflexivity | right; reflexivity]. }
  assert (Gi' : forall s0, init = Some s0 -> forall q, g ((P ++ [0]) ++ q) =
     snode_at q s0 sc nx (mkctx (rf (if_entry_ref (ckind (Some c)) (is_some e))) (k_brk K) (k_cont K)) (P ++ [0])).
  { intros s0 Hs0 q. rewrite (Gi s0 Hs0 q). destruct Ninit as [<-|Hn]; [reflexivity | congruence]. }
  destruct (init_stage n IHe init g sc nx (k_brk K) (k_cont K) (rf (if_entry_ref (ckind (Some c)) (is_some e))) (P ++ [0])
              E fr out o1 E1 out1 Hinit Gi' Si Wi' Hag Hok) as [r1 [R1 Post1]].
  rewrite <- Start in R1.
  pose proof (salloc_opt_ok init sc nx Hok) as Hok1.
  pose proof (salloc_opt_mono init sc nx) as Mi.
  set (sc1 := fst (salloc_opt init sc nx)) in *. set (n1 := snd (salloc_opt init sc nx)) in *.
  destruct o1; try (destruct Post1 as [? [_ [Hc _]]]; discriminate).
  2:{ inversion H; subst. eexists. split; [exact R1 | reflexivity]. }
  destruct Post1 as [fr1 [-> [_ [Pr1 Ag1]]]].
  (* stage 2: condition *)
  pose proof (cond_sim c g sc1 n1 (P ++ [1]) T F E1 fr1 out1) as CS.
  assert (CSpre : ckind (Some c) = CDyn -> forall q, g ((P ++ [1]) ++ q) = bnode_at q c sc1 n1 (P ++ [1]) (Some T) (Some F)).
  { intros Hk q. rewrite Gc. destruct (Fc Hk) as [-> ->]. unfold rf, if_ref, T, F. destruct e; reflexivity. }
  specialize (CS CSpre Ag1 (proj1 Hok1)). rewrite Entry in R1.
  destruct (beval E1 c) as [v|].
  2:{ inversion H; subst. eexists. split; [eapply reach_trans; [exact R1 | exact CS] | reflexivity]. }
  destruct CS as [fr2 [R2 F2]].
  assert (Ag2 : agree E1 sc1 fr2) by (eapply agree_below; [exact Ag1 | exact (proj1 Hok1) | exact F2]).
  assert (Pr2 : preserved fr fr2 sc nx).
  { eapply preserved_trans; [exact Pr1|]. apply preserved_below. intros i Hi. apply F2. lia. }
  pose proof (balloc_mono c sc1 n1) as Mc.
  set (n2 := snd (balloc c sc1 n1)) in *.
  (* the if node itself *)
  assert (Final : forall fr3 out3, reach g (Some P) fr3 out3 (MRun (k_next K) fr3 out3)).
  { intros. apply reach_one. unfold step. rewrite G0. reflexivity. }
  assert (Branch : forall b PB nb, forallb wf b = true -> n2 <= nb ->
     (forall q, g (PB ++ q) = snode_at q (SBlock b) sc1 nb (mkctx (Some P) (k_brk K) (k_cont K)) PB) ->
     forall o2 E2 out2, exec_list n b E1 out1 = Res o2 E2 out2 ->
     exists r, reach g (Some (block_start b PB)) fr2 out1 r /\ post_ok K sc nx sc fr o2 (restore E E2) out2 r).
  { intros b PB nb Wb Lnb Gb o2 E2 out2 Hb.
    assert (Hokb : scope_ok sc1 nb) by (eapply scope_ok_mono; [exact Hok1 | lia]).
    destruct (branch_block n IHl b g sc1 nb (k_brk K) (k_cont K) (Some P) PB E1 fr2 out1 o2 E2 out2 Hb Gb Wb Ag2 Hokb) as [r3 [R3 Post3]].
    assert (W : forall fr3, preserved fr2 fr3 sc1 nb -> preserved fr fr3 sc nx).
    { intros fr3 Pr3. eapply preserved_trans; [exact Pr2|]. eapply preserved_weaken; [exact Pr3|].
      intros i Hi Hv. destruct (weaken_after_opt init sc nx i Hok Hi Hv) as [A B]. fold n1 in A. fold sc1 in B. split; [lia | exact B]. }
    destruct o2; simpl in *.
    - destruct Post3 as [fr3 [-> [Pr3 [Ext [Eb [HE AgB]]]]]].
      eexists. split; [eapply reach_trans; [exact R3 | apply Final]|].
      pose proof (leave_scope init sc nx E fr E2 Ext Eb fr3 Hag HE AgB) as L.
      eexists. split; [reflexivity|]. split; [apply W; exact Pr3|]. split; [exists [], (restore E E2); auto | auto].
    - destruct Post3 as [fr3 [-> [Pr3 [Ext [Eb [HE AgB]]]]]].
      eexists. split; [exact R3|].
      pose proof (leave_scope init sc nx E fr E2 Ext Eb fr3 Hag HE AgB) as L.
      eexists. split; [reflexivity|]. split; [apply W; exact Pr3|]. split; [exists [], (restore E E2); auto | discriminate].
    - destruct Post3 as [fr3 [-> [Pr3 [Ext [Eb [HE AgB]]]]]].
      eexists. split; [exact R3|].
      pose proof (leave_scope init sc nx E fr E2 Ext Eb fr3 Hag HE AgB) as L.
      eexists. split; [reflexivity|]. split; [apply W; exact Pr3|]. split; [exists [], (restore E E2); auto | discriminate].
    - subst r3. eexists. split; [exact R3 | reflexivity]. }
  destruct v.
  - (* then *)
    destruct (exec_list n t E1 out1) as [|o2 E2 out2] eqn:Ht; [discriminate|]. inversion H; subst o E' out'; clear H.
    destruct (Branch t (P ++ [2]) n2 Wt (Nat.le_refl _)) with (o2 := o2) (E2 := E2) (out2 := out2) as [r3 [R3 Post3]]; auto.
    { intros q. rewrite Gt. rewrite Ft. reflexivity. }
    exists r3. split; [|exact Post3].
    eapply reach_trans; [exact R1|]. eapply reach_trans; [exact R2|]. exact R3.
  - destruct e as [e0|].
    + destruct (exec_list n e0 E1 out1) as [|o2 E2 out2] eqn:Ht; [discriminate|]. inversion H; subst o E' out'; clear H.
      pose proof (salloc_list_mono t sc1 n2) as Mt.
      destruct (Branch e0 (P ++ [3]) (snd (salloc_list t sc1 n2)) We Mt) with (o2 := o2) (E2 := E2) (out2 := out2) as [r3 [R3 Post3]]; auto.
      { intros q. rewrite (Gel e0 eq_refl). rewrite (Fel eq_refl). reflexivity. }
      exists r3. split; [|exact Post3].
      eapply reach_trans; [exact R1|]. eapply reach_trans; [exact R2|]. exact R3.
    + inversion H; subst o E' out'; clear H.
      eexists. split; [eapply reach_trans; [exact R1|]; eapply reach_trans; [exact R2|]; apply Final|].
      pose proof (leave_scope init sc nx E fr E1 [] E1 fr2 Hag eq_refl Ag2) as L.
      simpl. eexists. split; [reflexivity|]. split; [exact Pr2|]. split; [exists [], (restore E E1); auto | auto].
Qed.

(* ------------------------------------------------------------------ for *)

Definition head_ref (k : condkind) : ref :=
  match k with CDyn => RStart 1 | CFalse => RSelf | _ => RStart 3 end.

Definition loop_head (init : option stmt) (c : option bexp) (post : option stmt) (body : list stmt) (P : path) : option path :=
  for_ref init c post body P (head_ref (ckind c)).

Lemma wire_for_facts (hi : bool) (k : condkind) (hp : bool) :
  ~ (hi = true /\ k = CNone /\ hp = false) ->
  for_start (wire_for hi k hp) = (if hi then RStart 0 else head_ref k) /\
  (hi = true -> for_init_t (wire_for hi k hp) = head_ref k) /\
  (k = CDyn -> for_cond_t (wire_for hi k hp) = RStart 3 /\ for_cond_f (wire_for hi k hp) = RSelf) /\
  (k <> CFalse -> for_body_t (wire_for hi k hp) = if hp then RStart 2 else head_ref k) /\
  (k <> CFalse -> hp = true -> for_post_t (wire_for hi k hp) = head_ref k).
Proof.
  intros N. destruct hi, k, hp; try (exfalso; apply N; auto; fail);
    repeat split; intros; try reflexivity; try discriminate; try congruence.
Qed.

Definition P_loop (n : nat) : Prop :=
  forall init c post body g sc nx K P E1 fr out o E2 out2,
    loop n c post body E1 out = Res o E2 out2 ->
    (forall q, g (P ++ q) = snode_at q (SFor init c post body) sc nx K P) -> wf (SFor init c post body) = true ->
    agree E1 (fst (salloc_opt init sc nx)) fr -> scope_ok sc nx ->
    exists r, reach g (loop_head init c post body P) fr out r /\
      match o with
      | OPanic => r = MPanic out2
      | _ => exists fr', r = MRun (Some P) fr' out2 /\ o = ONormal /\
               preserved fr fr' (fst (salloc_opt init sc nx)) (snd (salloc_opt init sc nx)) /\
               agree E2 (fst (salloc_opt init sc nx)) fr'
      end.

Definition body_scope (init : option stmt) (c : option bexp) (post : option stmt) (sc1 : scope) (n3 : nat) : scope * nat :=
  match loopvar_of init c post with
  | Some x => ((x, n3) :: tl sc1, S n3)
  | None => (sc1, n3)
  end.

Record for_wf (init : option stmt) (c : option bexp) (post : option stmt) (body : list stmt) : Prop := {
  fw_si : simple_opt init = true;
  fw_sp : simple_opt post = true;
  fw_wi : forall s0, init = Some s0 -> wf s0 = true;
  fw_wp : forall s0, post = Some s0 -> wf s0 = true;
  fw_wb : forallb wf body = true;
  fw_nd : forall x e, post <> Some (SDefine x e);
  fw_n1 : ~ (is_some init = true /\ ckind c = CNone /\ is_some post = false);
  fw_ne : has_lv init c post = true -> body <> [];
  fw_na : forall x, loopvar_of init c post = Some x -> forallb (na (Nat.eqb x)) body = true
}.

Lemma wf_for init c post body : wf (SFor init c post body) = true -> for_wf init c post body.
Proof.
  intros H. simpl in H.
  repeat (apply andb_prop in H; let H' := fresh "W" in destruct H as [H H']).
  constructor; auto.
  - intros s0 ->. assumption.
  - intros s0 ->. assumption.
  - intros x e ->. simpl in W2. discriminate.
  - intros [A [B C]]. destruct init; [|discriminate]. destruct c as [c0|]; [exfalso; apply (ckind_some_not_none c0); exact B|]. destruct post; [discriminate|]. simpl in W1. discriminate.
  - intros Hl ->. rewrite Hl in W0. simpl in W0. discriminate.
  - intros x Hx. rewrite Hx in W. exact W.
Qed.

Lemma slot_of_head x i sc : slot_of x ((x, i) :: sc) = Some i.
Proof. simpl. rewrite Nat.eqb_refl. reflexivity. Qed.

(** Inside the body of [for x := ...] the outer slot of x is hidden by the per-iteration copy. *)
Lemma hidden_outer x sx n3 sc :
  NoDup (map snd ((x, sx) :: sc)) -> n3 <> sx -> ~ visible sx ((x, n3) :: sc).
Proof.
  intros Hnd Hne [y Hy]. simpl in Hy. destruct (Nat.eqb y x).
  - inversion Hy. congruence.
  - inversion Hnd; subst. apply H1. eapply slot_of_In; eauto.
Qed.

Lemma visible_body_scope x sx n3 sc i :
  i <> n3 -> ~ visible i ((x, sx) :: sc) -> i <> sx -> ~ visible i ((x, n3) :: sc).
Proof.
  intros Hne Hv Hsx [y Hy]. simpl in Hy. destruct (Nat.eqb y x) eqn:Eyx.
  - inversion Hy. congruence.
  - apply Hv. exists y. simpl. rewrite Eyx. exact Hy.
Qed.

Lemma salloc_opt_define x e0 sc nx :
  salloc_opt (Some (SDefine x e0)) sc nx = ((x, snd (aalloc e0 sc nx None)) :: sc, S (snd (aalloc e0 sc nx None))).
Proof. simpl. apply salloc_define. Qed.

Lemma step_loop n : P_exec n -> P_list n -> P_loop n -> P_loop (S n).
Proof.
  intros IHe IHl IHp init c post body g sc nx K P E1 fr out o E2 out2 H G Hwf Hag Hok.
  rewrite loop_eq in H.
  destruct (wf_for _ _ _ _ Hwf) as [Wsi Wsp Wwi Wwp Wwb Wnd Wn1 Wne Wna].
  pose proof (salloc_opt_ok init sc nx Hok) as Hok1.
  pose proof (salloc_opt_mono init sc nx) as Mi.
  set (w := wire_for (is_some init) (ckind c) (is_some post)) in *.
  destruct (wire_for_facts (is_some init) (ckind c) (is_some post) Wn1) as [_ [_ [Fc [Fb Fp]]]].
  fold w in Fc, Fb, Fp.
  set (rf := for_ref init c post body P) in *.
  (* embeddings *)
  assert (Gc : forall c0, c = Some c0 -> forall q, g ((P ++ [1]) ++ q) =
             bnode_at q c0 (fst (salloc_opt init sc nx)) (snd (salloc_opt init sc nx)) (P ++ [1]) (rf (for_cond_t w)) (rf (for_cond_f w))).
  { intros c0 -> q. rewrite (sub_embed _ _ 1 _ G). simpl. destruct (salloc_opt init sc nx). reflexivity. }
  set (sc1 := fst (salloc_opt init sc nx)) in *. set (n1 := snd (salloc_opt init sc nx)) in *.
  set (n2 := match c with None => n1 | Some c0 => snd (balloc c0 sc1 n1) end).
  set (n3 := snd (salloc_opt post sc1 n2)).
  assert (M2 : n1 <= n2) by (unfold n2; destruct c; [apply balloc_mono | lia]).
  assert (M3 : n2 <= n3) by (apply salloc_opt_mono).
  assert (Gp : forall s2, post = Some s2 -> forall q, g ((P ++ [2]) ++ q) =
             snode_at q s2 sc1 n2 (mkctx (rf (for_post_t w)) (k_brk K) (k_cont K)) (P ++ [2])).
  { intros s2 -> q. rewrite (sub_embed _ _ 2 _ G). simpl. unfold sc1, n1, n2. destruct (salloc_opt init sc nx). reflexivity. }
  assert (Gb : forall q, g ((P ++ [3]) ++ q) =
             snode_at q (SBlock body) (fst (body_scope init c post sc1 n3)) (snd (body_scope init c post sc1 n3))
                      (mkctx (rf (for_body_t w)) (Some P) (Some (P ++ [3]))) (P ++ [3])).
  { intros q. rewrite (sub_embed _ _ 3 _ G). simpl. unfold body_scope, sc1, n1, n2, n3.
    destruct (salloc_opt init sc nx). simpl. destruct (loopvar_of init c post); reflexivity. }
  assert (Glv : has_lv init c post = true ->
             g (P ++ [4]) = Some (mknode (match loopvar_of init c post with
                                          | Some x => match slot_of x sc1 with Some sx => XLoopVar sx n3 | None => XNop end
                                          | None => XNop end)
                                         (match body with [] => None | s0 :: _ => Some (sstart s0 (P ++ [3; 0])) end) None)).
  { intros Hl. rewrite <- (app_nil_r (P ++ [4])). rewrite (sub_embed _ _ 4 _ G). simpl. unfold sc1, n1, n2, n3.
    destruct (salloc_opt init sc nx). simpl. rewrite Hl. destruct (loopvar_of init c post); reflexivity. }
  set (BS := body_start init c post body P) in *.
  (* condition *)
  assert (CondStage :
    match opt_cond E1 c with
    | Some v => exists fr2, reach g (loop_head init c post body P) fr out (MRun (Some (if v then BS else P)) fr2 out)
                 /\ (forall i, i < n1 -> fr2 i = fr i)
    | None => reach g (loop_head init c post body P) fr out (MPanic out)
    end).
  { unfold loop_head. destruct c as [c0|].
    - pose proof (cond_sim c0 g sc1 n1 (P ++ [1]) BS P E1 fr out) as CS.
      assert (E : for_ref init (Some c0) post body P (head_ref (ckind (Some c0))) = cond_entry c0 (P ++ [1]) BS P).
      { destruct c0 as [[|]| | | |]; reflexivity. }
      rewrite E. apply CS; [|exact Hag | exact (proj1 Hok1)].
      intros Hk q. rewrite (Gc c0 eq_refl). destruct (Fc Hk) as [-> ->]. reflexivity.
    - simpl. exists fr. split; [apply reach_refl | auto]. }
  destruct (opt_cond E1 c) as [[|]|] eqn:Hc.
  3:{ inversion H; subst. eexists. split; [exact CondStage | reflexivity]. }
  2:{ inversion H; subst. destruct CondStage as [fr2 [R2 F2]].
      eexists. split; [exact R2|]. exists fr2. repeat split; auto.
      - apply preserved_below. exact F2.
      - eapply agree_below; [exact Hag | exact (proj1 Hok1) | exact F2]. }
  destruct CondStage as [fr2 [R2 F2]].
  assert (Ag2 : agree E1 sc1 fr2) by (eapply agree_below; [exact Hag | exact (proj1 Hok1) | exact F2]).
  assert (Kne : ckind c <> CFalse).
  { intros Hk. destruct c as [[[|]| | | |]|]; simpl in Hk, Hc; try discriminate. }
  specialize (Fb Kne). specialize (Fp Kne).
  (* entering the body: the loop-variable node *)
  set (scb := fst (body_scope init c post sc1 n3)) in *. set (nb := snd (body_scope init c post sc1 n3)) in *.
  assert (Enter : exists fr3, reach g (Some BS) fr2 out (MRun (Some (block_start body (P ++ [3]))) fr3 out) /\
                    agree E1 scb fr3 /\ scope_ok scb nb /\ (forall i, i < n3 -> fr3 i = fr2 i) /\
                    (forall x, loopvar_of init c post = Some x -> exists sx v E0, sc1 = (x, sx) :: tl sc1 /\ E1 = (x, v) :: E0 /\ fr3 sx = VI v /\ sx < n1)).
  { unfold BS, body_start. destruct (has_lv init c post) eqn:Hl.
    - specialize (Glv eq_refl). specialize (Wne eq_refl).
      destruct body as [|s0 body']; [congruence|].
      assert (Ebs : block_start (s0 :: body') (P ++ [3]) = sstart s0 (P ++ [3; 0])).
      { simpl. rewrite <- app_assoc. reflexivity. }
      rewrite Ebs.
      unfold scb, nb, body_scope. destruct (loopvar_of init c post) as [x|] eqn:Hlv.
      + (* per-iteration copy *)
        assert (Hinit : exists e0, init = Some (SDefine x e0)).
        { unfold loopvar_of in Hlv. destruct init as [[]|]; try discriminate. destruct c; [|discriminate]. destruct post; [|discriminate]. inversion Hlv; subst. eauto. }
        destruct Hinit as [e0 Hi0].
        set (sx := snd (aalloc e0 sc nx None)).
        assert (Hsc1 : sc1 = (x, sx) :: sc) by (unfold sc1; rewrite Hi0, salloc_opt_define; reflexivity).
        assert (Hn1 : n1 = S sx) by (unfold n1; rewrite Hi0, salloc_opt_define; reflexivity).
        rewrite Hsc1 in Glv, Ag2, Hok1 |- *. rewrite slot_of_head in Glv. simpl tl.
        inversion Ag2 as [|[x' v] b' E0 sc' [Hn Hv] Hrest]; subst b' sc'. simpl in Hn, Hv. subst x'.
        exists (set fr2 n3 (fr2 sx)). split; [apply reach_one; unfold step; rewrite Glv; reflexivity|].
        assert (Lsx : sx < n1) by lia.
        destruct Hok1 as [Hb1 Hnd1]. simpl in Hnd1. inversion Hnd1 as [|? ? Hni Hnd']; subst.
        assert (Hbs : forall i, In i (map snd sc) -> i < n1).
        { intros i Hi. apply Hb1. simpl. auto. }
        split; [|split; [|split]].
        * constructor; [simpl; split; [reflexivity | rewrite set_same; exact Hv]|].
          eapply agree_frame; [exact Hrest|]. intros i Hi. apply set_other. specialize (Hbs i Hi). lia.
        * split.
          -- simpl. intros i [<-|Hi]; simpl; [lia|]. specialize (Hbs i Hi). lia.
          -- simpl. constructor; [|assumption]. intros Hi. specialize (Hbs n3 Hi). lia.
        * intros i Hi. apply set_other. lia.
        * intros x0 Hx0. inversion Hx0; subst x0. exists sx, v, E0. repeat split; auto.
          rewrite set_other by lia. exact Hv.
      + exists fr2. split; [apply reach_one; unfold step; rewrite Glv; reflexivity|].
        split; [exact Ag2|]. split; [eapply scope_ok_mono; [exact Hok1 | simpl; lia]|]. split; [auto | discriminate].
    - assert (Hlv : loopvar_of init c post = None).
      { unfold loopvar_of, has_lv in *. destruct init as [[]|]; try reflexivity. destruct c; [|reflexivity]. destruct post; [|reflexivity]. discriminate. }
      unfold scb, nb, body_scope. rewrite Hlv. simpl.
      exists fr2. split; [apply reach_refl|]. split; [exact Ag2|]. split; [eapply scope_ok_mono; [exact Hok1 | simpl; lia]|].
      split; [auto|]. intros x Hx. congruence. }
  destruct Enter as [fr3 [R3 [Ag3 [Hokb [F3 Lv]]]]].
  assert (Mb : n3 <= nb) by (unfold nb, body_scope; destruct (loopvar_of init c post); simpl; lia).
  (* the body *)
  destruct (exec_list n body E1 out) as [|o1 Eb1 out1] eqn:Hbody; [discriminate|].
  destruct (branch_block n IHl body g scb nb (Some P) (Some (P ++ [3])) (rf (for_body_t w)) (P ++ [3])
              E1 fr3 out o1 Eb1 out1 Hbody Gb Wwb Ag3 Hokb) as [r4 [R4 Post4]].
  (* after the body: agreement of the restored environment with the scope of the for *)
  assert (After : forall fr4 Ext Eb, preserved fr3 fr4 scb nb -> Eb1 = Ext ++ Eb -> agree Eb scb fr4 ->
            agree (restore E1 Eb1) sc1 fr4 /\ preserved fr fr4 sc1 n1).
  { intros fr4 Ext Eb Pr4 HE AgB.
    assert (Hlen : length Eb = length E1).
    { apply agree_length in AgB. apply agree_length in Ag3. congruence. }
    rewrite HE, (restore_app _ _ _ Hlen).
    unfold scb, body_scope in *. destruct (loopvar_of init c post) as [x|] eqn:Hlv; simpl in *.
    - destruct (Lv x eq_refl) as [sx [v [E0 [Hsc1 [HE1 [Hv Lsx]]]]]].
      destruct (body_keeps_head n body x v E0 out o1 Eb1 out1) as [E0' [Hr _]]; [rewrite <- HE1; exact Hbody | apply Wna; reflexivity|].
      rewrite <- HE1, HE, (restore_app _ _ _ Hlen) in Hr. subst Eb.
      inversion AgB as [|a b l l' [_ Hh] Htl]; subst.
      assert (Hnv : ~ visible sx ((x, n3) :: tl sc1)).
      { apply hidden_outer; [rewrite <- Hsc1; exact (proj2 Hok1) | lia]. }
      assert (Hsx4 : fr4 sx = VI v) by (rewrite Pr4; [exact Hv | unfold nb; simpl; lia | exact Hnv]).
      split.
      + rewrite Hsc1. constructor; [simpl; split; [reflexivity | exact Hsx4] | exact Htl].
      + intros i Hi Hvis. rewrite Pr4; [rewrite F3 by lia; apply F2; exact Hi | unfold nb; simpl; lia|].
        rewrite Hsc1 in Hvis. apply (visible_body_scope x sx n3 (tl sc1) i); [lia | exact Hvis|].
        intros ->. apply Hvis. exists x. apply slot_of_head.
    - split; [exact AgB|].
      intros i Hi Hvis. rewrite Pr4; [rewrite F3 by lia; apply F2; exact Hi | unfold nb; simpl; lia | exact Hvis]. }
  (* post statement and next iteration *)
  assert (Next : forall fr4 out1', preserved fr fr4 sc1 n1 -> agree (restore E1 Eb1) sc1 fr4 -> out1' = out1 ->
            match exec_opt n post (restore E1 Eb1) out1 with
            | Fuel => Fuel
            | Res ONormal E2' out2' => loop n c post body E2' out2'
            | Res o' E2' out2' => Res o' E2' out2'
            end = Res o E2 out2 ->
            exists r, reach g (rf (for_body_t w)) fr4 out1' r /\
              match o with
              | OPanic => r = MPanic out2
              | _ => exists fr', r = MRun (Some P) fr' out2 /\ o = ONormal /\ preserved fr fr' sc1 n1 /\ agree E2 sc1 fr'
              end).
  { intros fr4 out1' Pr4 Ag4 -> Hrest.
    destruct (exec_opt n post (restore E1 Eb1) out1) as [|o5 E5 out5] eqn:Hpost; [discriminate|].
    assert (Hok2 : scope_ok sc1 n2) by (eapply scope_ok_mono; [exact Hok1 | exact M2]).
    assert (PostStage : exists r5, reach g (rf (for_body_t w)) fr4 out1 r5 /\
              match o5 with
              | OPanic => r5 = MPanic out5
              | _ => exists fr5, r5 = MRun (loop_head init c post body P) fr5 out5 /\ o5 = ONormal /\
                       preserved fr4 fr5 sc1 n1 /\ agree E5 sc1 fr5
              end).
    { destruct post as [s2|]; simpl in Hpost.
      - simpl in Fb, Fp. specialize (Fp eq_refl). rewrite Fb.
        assert (Gp' : forall q, g ((P ++ [2]) ++ q) = snode_at q s2 sc1 n2 (mkctx (loop_head init c (Some s2) body P) (k_brk K) (k_cont K)) (P ++ [2])).
        { intros q. rewrite (Gp s2 eq_refl). rewrite Fp. reflexivity. }
        destruct (IHe _ _ _ _ _ _ _ _ _ _ _ _ Hpost Gp' (Wwp s2 eq_refl) Ag4 Hok2) as [r5 [R5 Post5]].
        exists r5. split; [exact R5|].
        destruct (simple_outcome _ _ _ _ _ _ _ Hpost Wsp) as [-> | ->]; simpl in *; [|exact Post5].
        destruct Post5 as [fr5 [-> [Pr5 [_ Ag5]]]]. specialize (Ag5 eq_refl).
        exists fr5. repeat split; auto.
        + eapply preserved_weaken; [exact Pr5|]. intros i Hi Hv. split; [lia | exact Hv].
        + rewrite salloc_scope in Ag5. destruct s2; simpl in Ag5; try exact Ag5. exfalso. eapply Wnd. reflexivity.
      - inversion Hpost; subst. simpl in Fb. rewrite Fb. eexists. split; [apply reach_refl|].
        exists fr4. repeat split; auto; try apply preserved_refl. }
    destruct PostStage as [r5 [R5 Post5]].
    destruct o5; try (destruct Post5 as [? [_ [Hc5 _]]]; discriminate).
    2:{ inversion Hrest; subst. eexists. split; [exact R5 | reflexivity]. }
    destruct Post5 as [fr5 [-> [_ [Pr5 Ag5]]]].
    destruct (IHp init c post body g sc nx K P E5 fr5 out5 o E2 out2 Hrest G Hwf Ag5 Hok) as [r6 [R6 Post6]].
    exists r6. split; [eapply reach_trans; [exact R5 | exact R6]|].
    destruct o; try exact Post6;
      destruct Post6 as [fr6 [-> [Ho [Pr6 Ag6]]]]; exists fr6; repeat split; auto;
      (eapply preserved_trans; [exact Pr4|]; eapply preserved_trans; [exact Pr5 | exact Pr6]). }
  (* assemble *)
  assert (Pre : reach g (loop_head init c post body P) fr out (MRun (Some (block_start body (P ++ [3]))) fr3 out)).
  { eapply reach_trans; [exact R2 | exact R3]. }
  destruct o1; simpl in Post4.
  - (* body ended normally *)
    destruct Post4 as [fr4 [-> [Pr4 [Ext [Eb [HE AgB]]]]]].
    destruct (After fr4 Ext Eb Pr4 HE AgB) as [Ag4 Pr04].
    destruct (Next fr4 out1 Pr04 Ag4 eq_refl H) as [r [R Post]].
    exists r. split; [|exact Post]. eapply reach_trans; [exact Pre|]. eapply reach_trans; [exact R4 | exact R].
  - (* break *)
    inversion H; subst; clear H.
    destruct Post4 as [fr4 [-> [Pr4 [Ext [Eb [HE AgB]]]]]].
    destruct (After fr4 Ext Eb Pr4 HE AgB) as [Ag4 Pr04].
    eexists. split; [eapply reach_trans; [exact Pre | exact R4]|].
    exists fr4. repeat split; auto.
  - (* continue: the body block node, then as after a normal end *)
    destruct Post4 as [fr4 [-> [Pr4 [Ext [Eb [HE AgB]]]]]].
    destruct (After fr4 Ext Eb Pr4 HE AgB) as [Ag4 Pr04].
    destruct (Next fr4 out1 Pr04 Ag4 eq_refl H) as [r [R Post]].
    exists r. split; [|exact Post]. eapply reach_trans; [exact Pre|]. eapply reach_trans; [exact R4|].
    eapply reach_trans; [|exact R]. apply reach_one. unfold step.
    rewrite (app_nil_path _ _ _ Gb). reflexivity.
  - inversion H; subst; clear H. eexists. split; [eapply reach_trans; [exact Pre | exact R4] | reflexivity].
Qed.

Local Arguments wire_for : simpl never.

Lemma for_case n : P_exec n -> P_loop n ->
  forall init c post body g sc nx K P E fr out o E' out',
    exec (S n) (SFor init c post body) E out = Res o E' out' ->
    (forall q, g (P ++ q) = snode_at q (SFor init c post body) sc nx K P) -> wf (SFor init c post body) = true ->
    agree E sc fr -> scope_ok sc nx ->
    exists r, reach g (Some (sstart (SFor init c post body) P)) fr out r /\ post_ok K sc nx sc fr o E' out' r.
Proof.
  intros IHe IHp init c post body g sc nx K P E fr out o E' out' H G Hwf Hag Hok.
  rewrite exec_for_eq in H.
  pose proof (app_nil_path _ _ _ G) as G0. simpl in G0.
  destruct (wf_for _ _ _ _ Hwf) as [Wsi Wsp Wwi Wwp Wwb Wnd Wn1 Wne Wna].
  destruct (wire_for_facts (is_some init) (ckind c) (is_some post) Wn1) as [Fs [Fi _]].
  set (w := wire_for (is_some init) (ckind c) (is_some post)) in *.
  set (rf := for_ref init c post body P) in *.
  assert (Start : Some (sstart (SFor init c post body) P) =
                  match init with Some s0 => Some (sstart s0 (P ++ [0])) | None => loop_head init c post body P end).
  { unfold loop_head, for_ref, body_start. destruct init as [s0|]; destruct c as [[[|]| | | |]|]; destruct post; reflexivity. }
  assert (Gi : forall s0, init = Some s0 -> forall q, g ((P ++ [0]) ++ q) =
             snode_at q s0 sc nx (mkctx (loop_head init c post body P) (k_brk K) (k_cont K)) (P ++ [0])).
  { intros s0 Hs0 q. rewrite (sub_embed _ _ 0 _ G). subst init. simpl. destruct (salloc s0 sc nx).
    change (wire_for true (ckind c) (is_some post)) with w. rewrite (Fi eq_refl). reflexivity. }
  destruct (exec_opt n init E out) as [|o1 E1 out1] eqn:Hinit; [discriminate|].
  destruct (init_stage n IHe init g sc nx (k_brk K) (k_cont K) (loop_head init c post body P) (P ++ [0])
              E fr out o1 E1 out1 Hinit Gi Wsi Wwi Hag Hok) as [r1 [R1 Post1]].
  rewrite <- Start in R1.
  destruct o1; try (destruct Post1 as [? [_ [Hc _]]]; discriminate).
  2:{ inversion H; subst. eexists. split; [exact R1 | reflexivity]. }
  destruct Post1 as [fr1 [-> [_ [Pr1 Ag1]]]].
  destruct (loop n c post body E1 out1) as [|o2 E2 out2] eqn:Hloop; [discriminate|].
  inversion H; subst o E' out'; clear H.
  destruct (IHp init c post body g sc nx K P E1 fr1 out1 o2 E2 out2 Hloop G Hwf Ag1 Hok) as [r2 [R2 Post2]].
  destruct o2; try (destruct Post2 as [? [_ [Hc _]]]; discriminate).
  2:{ subst r2. eexists. split; [eapply reach_trans; [exact R1 | exact R2] | reflexivity]. }
  destruct Post2 as [fr2 [-> [_ [Pr2 Ag2]]]].
  eexists. split.
  - eapply reach_trans; [exact R1|]. eapply reach_trans; [exact R2|]. apply reach_one. unfold step. rewrite G0. reflexivity.
  - pose proof (leave_scope init sc nx E fr E2 [] E2 fr2 Hag eq_refl Ag2) as L.
    simpl. eexists. split; [reflexivity|]. split; [|split; [exists [], (restore E E2); auto | auto]].
    eapply preserved_trans; [exact Pr1|]. eapply preserved_weaken; [exact Pr2|].
    intros i Hi Hv. apply weaken_after_opt; assumption.
Qed.

(* ------------------------------------------------------------------ switch *)

Lemma nth_error_skipn {A} (l : list A) : forall i x, nth_error l i = Some x -> skipn i l = x :: skipn (S i) l.
Proof.
  induction l as [|a l IH]; intros [|i] x H; simpl in *; try discriminate; [inversion H; reflexivity | apply IH; exact H].
Qed.

Lemma wf_case_body body ft : forallb wf body = true -> forallb wf (case_body body ft) = true.
Proof. intros H. destruct ft; simpl; [|exact H]. rewrite forallb_app, H. reflexivity. Qed.

Lemma default_index_none cls : forall k, (forall c, In c cls -> is_default c = false) -> default_index cls k = None.
Proof.
  induction cls as [|c cls IH]; intros k H; simpl; [reflexivity|].
  assert (Hc := H c (or_introl eq_refl)).
  destruct c; try (apply IH; intros c' Hc'; apply H; right; exact Hc').
  destruct ce; try (apply IH; intros c' Hc'; apply H; right; exact Hc'). discriminate.
Qed.

Lemma default_index_at cls : forall k j c, nth_error cls j = Some c -> is_default c = true ->
  (forall i c', i < j -> nth_error cls i = Some c' -> is_default c' = false) -> default_index cls k = Some (k + j).
Proof.
  induction cls as [|c0 cls IH]; intros k [|j] c Hn Hd Hb; simpl in Hn; try discriminate.
  - inversion Hn; subst. destruct c; try discriminate. destruct ce; try discriminate. simpl. f_equal. lia.
  - assert (H0 : is_default c0 = false) by (apply (Hb 0 c0); [lia | reflexivity]).
    assert (IH' := IH (S k) j c Hn Hd (fun i c' Hi Hc' => Hb (S i) c' (proj1 (Nat.succ_lt_mono _ _) Hi) Hc')).
    replace (k + S j) with (S k + j) by lia. rewrite <- IH'.
    destruct c0; try reflexivity. destruct ce; try reflexivity. discriminate.
Qed.

Lemma shape_nth t cls : shape_ok t cls = true -> forall j c, nth_error cls j = Some c ->
  exists ce body ft, c = SCase ce body ft /\ ce_ok t ce = true /\ (S j < length cls -> is_default c = false) /\
    (ft = true -> S j < length cls).
Proof.
  induction cls as [|c0 cls IH]; intros Hs [|j] c Hn; simpl in Hn; try discriminate.
  - inversion Hn; subst c0. simpl in Hs. destruct c; try discriminate.
    apply andb_prop in Hs. destruct Hs as [Hs Hrest]. apply andb_prop in Hs. destruct Hs as [Hs Hdef].
    apply andb_prop in Hs. destruct Hs as [Hce Hft].
    exists ce, body, ft. split; [reflexivity|]. split; [exact Hce|]. split.
    + intros Hl. destruct cls as [|c1 cls]; [simpl in Hl; lia|]. apply negb_true_iff in Hdef. exact Hdef.
    + intros ->. simpl in Hft. destruct cls; [discriminate | simpl; lia].
  - simpl in Hs. destruct c0; try discriminate.
    apply andb_prop in Hs. destruct Hs as [Hs Hrest].
    destruct (IH Hrest j c Hn) as [ce' [body' [ft' [-> [A [B C]]]]]]. exists ce', body', ft'. repeat split; auto.
    + intros Hl. apply B. simpl in Hl. lia.
    + intros Hf. specialize (C Hf). simpl. lia.
Qed.

(** The nodes of clause [j] of a switch without a tag. *)
Lemma switch_embed init cls g sc nx K P j ce body ft :
  (forall q, g (P ++ q) = snode_at q (SSwitch init None cls) sc nx K P) ->
  nth_error cls j = Some (SCase ce body ft) ->
  let sc1 := fst (salloc_opt init sc nx) in
  let n1 := snd (salloc_opt init sc nx) in
  let nj := snd (salloc_list (firstn j cls) sc1 n1) in
  let pc := (P ++ [2]) ++ [j] in
  let next := nth_error cls (S j) in
  let r := clause_ref (SCase ce body ft) next P pc ((P ++ [2]) ++ [S j]) in
  let wi := wire_caseif (clause_empty (SCase ce body ft)) (Nat.ltb 0 (clause_exprs (SCase ce body ft)))
              (negb (is_some next)) (is_some next && ft) in
  g pc = Some (mknode XNop (r (ci_tnext wi)) (r (ci_fnext wi))) /\
  (forall q, g ((pc ++ [0]) ++ q) =
     snode_at q (SBlock (case_body body ft)) sc1 (calloc ce sc1 nj) (mkctx (r (ci_body_t wi)) (Some P) (k_cont K)) (pc ++ [0])) /\
  (forall e l, ce = CBools (e :: l) -> forall q, g ((pc ++ [1]) ++ q) =
     bnode_at q e sc1 nj (pc ++ [1]) (r (ci_cond_t wi)) (r (ci_cond_f wi))).
Proof.
  intros G Hn. cbv zeta.
  pose proof (sub_embed _ _ 2 _ G) as G2. pose proof (sub_embed _ _ j _ G2) as Gj.
  split; [|split].
  - rewrite (app_nil_path _ _ _ Gj). simpl. destruct (salloc_opt init sc nx). rewrite Hn. reflexivity.
  - intros q. rewrite (sub_embed _ _ 0 _ Gj). simpl. destruct (salloc_opt init sc nx). rewrite Hn. reflexivity.
  - intros e l -> q. rewrite (sub_embed _ _ 1 _ Gj). simpl. destruct (salloc_opt init sc nx). rewrite Hn. reflexivity.
Qed.

Lemma switch_case_notag n : P_exec n -> P_list n ->
  forall init cls g sc nx K P E fr out o E' out',
    exec (S n) (SSwitch init None cls) E out = Res o E' out' ->
    (forall q, g (P ++ q) = snode_at q (SSwitch init None cls) sc nx K P) -> wf (SSwitch init None cls) = true ->
    agree E sc fr -> scope_ok sc nx ->
    exists r, reach g (Some (sstart (SSwitch init None cls) P)) fr out r /\ post_ok K sc nx sc fr o E' out' r.
Proof.
  intros IHe IHl init cls g sc nx K P E fr out o E' out' H G Hwf Hag Hok.
  rewrite exec_switch_eq in H.
  pose proof (app_nil_path _ _ _ G) as G0. simpl in G0.
  simpl in Hwf.
  apply andb_prop in Hwf. destruct Hwf as [Hwf Wb].
  apply andb_prop in Hwf. destruct Hwf as [Hwf Wshape]. apply andb_prop in Hwf. destruct Hwf as [Hwf Wne].
  apply andb_prop in Hwf. destruct Hwf as [Hwf Wleaf]. apply andb_prop in Hwf. destruct Hwf as [Si Wi].
  clear Wleaf.
  destruct cls as [|c0 cls']; [discriminate|]. clear Wne.
  set (cls := c0 :: cls') in *.
  set (N := Some (sstart c0 ((P ++ [2]) ++ [0]))).
  assert (Start : Some (sstart (SSwitch init None cls) P) =
                  match init with Some s0 => Some (sstart s0 (P ++ [0])) | None => N end).
  { destruct init; reflexivity. }
  assert (Gi : forall s0, init = Some s0 -> forall q, g ((P ++ [0]) ++ q) =
             snode_at q s0 sc nx (mkctx N (k_brk K) (k_cont K)) (P ++ [0])).
  { intros s0 -> q. rewrite (sub_embed _ _ 0 _ G). simpl. destruct (salloc s0 sc nx). reflexivity. }
  (* stage 1: init *)
  destruct (exec_opt n init E out) as [|o1 E1 out1] eqn:Hinit; [discriminate|].
  assert (Wi' : forall s0, init = Some s0 -> wf s0 = true) by (intros s0 ->; exact Wi).
  destruct (init_stage n IHe init g sc nx (k_brk K) (k_cont K) N (P ++ [0])
              E fr out o1 E1 out1 Hinit Gi Si Wi' Hag Hok) as [r1 [R1 Post1]].
  rewrite <- Start in R1.
  pose proof (salloc_opt_ok init sc nx Hok) as Hok1.
  pose proof (salloc_opt_mono init sc nx) as Mi.
  destruct o1; try (destruct Post1 as [? [_ [Hc _]]]; discriminate).
  2:{ inversion H; subst. eexists. split; [exact R1 | reflexivity]. }
  destruct Post1 as [fr1 [-> [_ [Pr1 Ag1]]]].
  simpl eval_tag in H. cbv iota in H.
  assert (Final : forall fr3 out3, reach g (Some P) fr3 out3 (MRun (k_next K) fr3 out3)).
  { intros. apply reach_one. unfold step. rewrite G0. reflexivity. }
  set (entry := fun j => match nth_error cls j with Some c => Some (sstart c ((P ++ [2]) ++ [j])) | None => Some P end).
  (* stage 2: the chain of clauses *)
  assert (Chain : forall k j, j + k = length cls ->
     (forall i c', i < j -> nth_error cls i = Some c' -> is_default c' = false) ->
     forall fr3, (forall i, i < snd (salloc_opt init sc nx) -> fr3 i = fr1 i) ->
     match select E1 None (skipn j cls) j with
     | None => reach g (entry j) fr3 out1 (MPanic out1)
     | Some sel => exists fr4, (forall i, i < snd (salloc_opt init sc nx) -> fr4 i = fr1 i) /\
         match (match sel with Some i => Some i | None => default_index cls 0 end) with
         | Some i => exists ce body ft, nth_error cls i = Some (SCase ce body ft) /\
             reach g (entry j) fr3 out1 (MRun (Some (clause_body_start (SCase ce body ft) P ((P ++ [2]) ++ [i]))) fr4 out1)
         | None => reach g (entry j) fr3 out1 (MRun (Some P) fr4 out1)
         end
     end).
  { induction k as [|k IHk]; intros j Hj Hnd fr3 Hinv.
    - assert (j = length cls) by lia. subst j. rewrite skipn_all. simpl select.
      unfold entry. rewrite (proj2 (nth_error_None cls (length cls))) by lia.
      exists fr3. split; [exact Hinv|].
      rewrite default_index_none; [apply reach_refl|].
      intros c Hc. apply In_nth_error in Hc. destruct Hc as [i Hi]. eapply Hnd; [|exact Hi].
      apply nth_error_Some. congruence.
    - destruct (skipn j cls) as [|c l] eqn:Hsk.
      { pose proof (skipn_nil_length _ _ Hsk). lia. }
      destruct (skipn_cons_nth _ _ _ _ Hsk) as [Hnth [Hsk' HSj]].
      destruct (shape_nth _ _ Wshape j c Hnth) as [ce [body [ft [-> [Hce [Hlast Hft]]]]]].
      destruct (switch_embed init cls g sc nx K P j ce body ft G Hnth) as [Gn [Gb Gc]].
      assert (Ag3 : agree E1 (fst (salloc_opt init sc nx)) fr3).
      { eapply agree_below; [exact Ag1 | exact (proj1 Hok1) | exact Hinv]. }
      pose proof (salloc_list_mono (firstn j cls) (fst (salloc_opt init sc nx)) (snd (salloc_opt init sc nx))) as Mj.
      unfold entry at 1 2 3. rewrite Hnth.
      destruct ce as [|l0|l0]; simpl in Hce.
      + (* default: the last clause *)
        assert (HS : S j = length cls).
        { destruct (Nat.eq_dec (S j) (length cls)) as [e|ne]; [exact e|].
          assert (Hd : is_default (SCase CDefault body ft) = false) by (apply Hlast; lia). discriminate. }
        assert (Hff : ft = false) by (destruct ft; [specialize (Hft eq_refl); lia | reflexivity]). subst ft.
        simpl select. rewrite <- Hsk', HS, skipn_all. simpl select.
        rewrite (default_index_at cls 0 j _ Hnth eq_refl Hnd). simpl.
        exists fr3. split; [exact Hinv|]. exists CDefault, body, false. split; [exact Hnth|].
        destruct body as [|s0 body'].
        * apply reach_one. unfold step. simpl. rewrite Gn. reflexivity.
        * apply reach_refl.
      + destruct l0; discriminate.
      + destruct l0 as [|e [|e' l1]]; try discriminate.
        pose proof (bsim e g _ _ _ _ _ E1 fr3 out1 (Gc e [] eq_refl) Ag3
                      (bounded_mono _ _ _ (proj1 Hok1) Mj)) as B.
        simpl select. simpl sstart.
        assert (Hnd' : forall i c', i < S j -> nth_error cls i = Some c' -> is_default c' = false).
        { intros i c' Hi Hc'. destruct (Nat.eq_dec i j) as [->|ne]; [|apply (Hnd i c'); [lia | exact Hc']].
          rewrite Hnth in Hc'. inversion Hc'; reflexivity. }
        destruct (beval E1 e) as [[|]|].
        * destruct B as [fr4 [R4 [_ F4]]].
          exists fr4. split; [intros i Hi; rewrite F4 by lia; apply Hinv; exact Hi|].
          exists (CBools [e]), body, ft. split; [exact Hnth|].
          destruct (nth_error cls (S j)); exact R4.
        * destruct B as [fr4 [R4 [_ F4]]].
          assert (Hinv4 : forall i, i < snd (salloc_opt init sc nx) -> fr4 i = fr1 i).
          { intros i Hi. rewrite F4 by lia. apply Hinv. exact Hi. }
          specialize (IHk (S j) ltac:(lia) Hnd' fr4 Hinv4). rewrite Hsk' in IHk.
          assert (R4' : reach g (Some (bstart e (((P ++ [2]) ++ [j]) ++ [1]))) fr3 out1 (MRun (entry (S j)) fr4 out1)).
          { unfold entry. destruct (nth_error cls (S j)); exact R4. }
          destruct (select E1 None l (S j)) as [sel|].
          -- destruct IHk as [fr5 [Hinv5 Hm]]. exists fr5. split; [exact Hinv5|].
             destruct (match sel with Some i => Some i | None => default_index cls 0 end) as [i|].
             ++ destruct Hm as [ce' [b' [ft' [Hn' R']]]]. exists ce', b', ft'. split; [exact Hn'|].
                eapply reach_trans; [exact R4' | exact R'].
             ++ eapply reach_trans; [exact R4' | exact Hm].
          -- eapply reach_trans; [exact R4' | exact IHk].
        * exact B. }
  specialize (Chain (length cls) 0 eq_refl (fun i c' Hi _ => match Nat.nlt_0_r i Hi with end) fr1 (fun i _ => eq_refl)).
  change (skipn 0 cls) with cls in Chain.
  assert (E0 : entry 0 = N) by reflexivity. rewrite E0 in Chain.
  (* leaving the switch *)
  assert (Leave : forall fr5 E2 Ext Eb, E2 = Ext ++ Eb -> agree Eb (fst (salloc_opt init sc nx)) fr5 ->
            agree (restore E (restore E1 E2)) sc fr5).
  { intros fr5 E2 Ext Eb HE AgB.
    rewrite (agree_restore _ _ _ _ _ _ _ Ag1 HE AgB).
    exact (leave_scope init sc nx E fr Eb [] Eb fr5 Hag eq_refl AgB). }
  destruct (select E1 None cls 0) as [sel|].
  2:{ inversion H; subst. eexists. split; [eapply reach_trans; [exact R1 | exact Chain] | reflexivity]. }
  destruct Chain as [fr4 [Hinv4 Hm]].
  assert (Ag4 : agree E1 (fst (salloc_opt init sc nx)) fr4).
  { eapply agree_below; [exact Ag1 | exact (proj1 Hok1) | exact Hinv4]. }
  assert (Pr4 : preserved fr fr4 sc nx).
  { eapply preserved_trans; [exact Pr1|]. apply preserved_below. intros i Hi. apply Hinv4. lia. }
  destruct (match sel with Some i => Some i | None => default_index cls 0 end) as [i|].
  2:{ (* no clause selected *)
      inversion H; subst o E' out'; clear H.
      eexists. split; [eapply reach_trans; [exact R1|]; eapply reach_trans; [exact Hm | apply Final]|].
      pose proof (leave_scope init sc nx E fr E1 [] E1 fr4 Hag eq_refl Ag4) as L.
      simpl. eexists. split; [reflexivity|]. split; [exact Pr4|]. split; [exists [], (restore E E1); auto | auto]. }
  assert (BodyChain : forall k m, m + k = length cls -> forall ce body ft, nth_error cls m = Some (SCase ce body ft) ->
     forall Ec frc outc o2 E2 out2, agree Ec (fst (salloc_opt init sc nx)) frc -> preserved fr frc sc nx ->
     run_clauses (exec_list n) (skipn m cls) Ec outc = Res o2 E2 out2 ->
     exists r, reach g (Some (clause_body_start (SCase ce body ft) P ((P ++ [2]) ++ [m]))) frc outc r /\
       match o2 with
       | OPanic => r = MPanic out2
       | _ => exists fr5, r = MRun (match o2 with OContinue => k_cont K | _ => Some P end) fr5 out2 /\
                preserved fr fr5 sc nx /\ agree E2 (fst (salloc_opt init sc nx)) fr5
       end).
  { induction k as [|k IHk]; intros m Hi ce body ft Hnth Ec frc outc o2 E2 out2 Agc Prc Hrun.
    { assert (m < length cls) by (apply nth_error_Some; congruence). lia. }
    rewrite (nth_error_skipn _ _ _ Hnth) in Hrun. cbn [run_clauses] in Hrun.
    destruct (shape_nth _ _ Wshape m _ Hnth) as [ce0 [body0 [ft0 [Heq [Hce [_ Hft]]]]]]. inversion Heq; subst ce0 body0 ft0; clear Heq.
    destruct (switch_embed init cls g sc nx K P m ce body ft G Hnth) as [_ [Gb _]].
    assert (Wbody : forallb wf (case_body body ft) = true).
    { apply wf_case_body. rewrite forallb_forall in Wb. exact (Wb _ (nth_error_In _ _ Hnth)). }
    destruct (exec_list n (case_body body ft) Ec outc) as [|o3 E3 out3] eqn:Hb; [discriminate|].
    unfold clause_body_start.
    destruct (case_body body ft) as [|s0 b'] eqn:Hcb.
    - (* empty body, no fallthrough *)
      destruct ft; [destruct body; discriminate|].
      destruct n; [discriminate|]. simpl in Hb. inversion Hb; subst o3 E3 out3; clear Hb.
      inversion Hrun; subst o2 E2 out2; clear Hrun.
      eexists. split; [apply reach_refl|]. exists frc. split; [reflexivity|]. split; [exact Prc|].
      assert (Hr : restore Ec Ec = Ec) by (apply (restore_app Ec [] Ec eq_refl)). rewrite Hr. exact Agc.
    - pose proof (salloc_list_mono (firstn m cls) (fst (salloc_opt init sc nx)) (snd (salloc_opt init sc nx))) as Mj.
      pose proof (calloc_mono ce (fst (salloc_opt init sc nx)) (snd (salloc_list (firstn m cls) (fst (salloc_opt init sc nx)) (snd (salloc_opt init sc nx))))) as Mc.
      assert (Hokb : scope_ok (fst (salloc_opt init sc nx)) (calloc ce (fst (salloc_opt init sc nx)) (snd (salloc_list (firstn m cls) (fst (salloc_opt init sc nx)) (snd (salloc_opt init sc nx)))))) by (eapply scope_ok_mono; [exact Hok1 | lia]).
      assert (W5 : forall fr5, preserved frc fr5 (fst (salloc_opt init sc nx)) (calloc ce (fst (salloc_opt init sc nx)) (snd (salloc_list (firstn m cls) (fst (salloc_opt init sc nx)) (snd (salloc_opt init sc nx))))) -> preserved fr fr5 sc nx).
      { intros fr5 Pr5. eapply preserved_trans; [exact Prc|]. eapply preserved_weaken; [exact Pr5|].
        intros x Hx Hv. destruct (weaken_after_opt init sc nx x Hok Hx Hv) as [A B]. split; [lia | exact B]. }
      unfold clause_empty in Gb. rewrite Hcb in Gb.
      destruct ft.
      + (* fallthrough: the next clause exists *)
        specialize (Hft eq_refl).
        destruct (nth_error cls (S m)) as [c'|] eqn:Hnext; [|apply nth_error_None in Hnext; lia].
        destruct (shape_nth _ _ Wshape (S m) c' Hnext) as [ce' [body' [ft' [-> _]]]].
        rewrite ?Bool.andb_false_r in Gb. simpl in Gb.
        destruct (branch_block n IHl (s0 :: b') g _ _ (Some P) (k_cont K) _ _ Ec frc outc o3 E3 out3 Hb Gb Wbody Agc Hokb) as [r5 [R5 Post5]].
        destruct o3; simpl in Post5.
        * destruct Post5 as [fr5 [-> [Pr5 [Ext [Eb [HE AgB]]]]]].
          rewrite (agree_restore _ _ _ _ _ _ _ Agc HE AgB) in Hrun.
          destruct (IHk (S m) ltac:(lia) ce' body' ft' Hnext Eb fr5 out3 o2 E2 out2 AgB (W5 fr5 Pr5) Hrun) as [r6 [R6 Post6]].
          exists r6. split; [|exact Post6]. eapply reach_trans; [exact R5|]. revert R6.
          unfold clause_ref, clause_body_start.
          repeat match goal with |- context [Nat.eqb ?a 0] => destruct (Nat.eqb a 0) end;
            destruct (case_body body' ft'); simpl; intros R6; exact R6.
        * inversion Hrun; subst o2 E2 out2; clear Hrun.
          destruct Post5 as [fr5 [-> [Pr5 [Ext [Eb [HE AgB]]]]]].
          eexists. split; [exact R5|]. exists fr5. split; [reflexivity|]. split; [apply W5; exact Pr5|].
          rewrite (agree_restore _ _ _ _ _ _ _ Agc HE AgB). exact AgB.
        * inversion Hrun; subst o2 E2 out2; clear Hrun.
          destruct Post5 as [fr5 [-> [Pr5 [Ext [Eb [HE AgB]]]]]].
          eexists. split; [exact R5|]. exists fr5. split; [reflexivity|]. split; [apply W5; exact Pr5|].
          rewrite (agree_restore _ _ _ _ _ _ _ Agc HE AgB). exact AgB.
        * inversion Hrun; subst o2 E2 out2; clear Hrun. subst r5. eexists. split; [exact R5 | reflexivity].
      + rewrite ?Bool.andb_false_r in Gb. simpl in Gb.
        destruct (branch_block n IHl (s0 :: b') g _ _ (Some P) (k_cont K) _ _ Ec frc outc o3 E3 out3 Hb Gb Wbody Agc Hokb) as [r5 [R5 Post5]].
        destruct o3; simpl in Post5; inversion Hrun; subst o2 E2 out2; clear Hrun.
        * destruct Post5 as [fr5 [-> [Pr5 [Ext [Eb [HE AgB]]]]]].
          eexists. split; [exact R5|]. exists fr5. split; [reflexivity|]. split; [apply W5; exact Pr5|].
          rewrite (agree_restore _ _ _ _ _ _ _ Agc HE AgB). exact AgB.
        * destruct Post5 as [fr5 [-> [Pr5 [Ext [Eb [HE AgB]]]]]].
          eexists. split; [exact R5|]. exists fr5. split; [reflexivity|]. split; [apply W5; exact Pr5|].
          rewrite (agree_restore _ _ _ _ _ _ _ Agc HE AgB). exact AgB.
        * destruct Post5 as [fr5 [-> [Pr5 [Ext [Eb [HE AgB]]]]]].
          eexists. split; [exact R5|]. exists fr5. split; [reflexivity|]. split; [apply W5; exact Pr5|].
          rewrite (agree_restore _ _ _ _ _ _ _ Agc HE AgB). exact AgB.
        * subst r5. eexists. split; [exact R5 | reflexivity]. }
  destruct Hm as [ce [body [ft [Hnth R4]]]].
  destruct (run_clauses (exec_list n) (skipn i cls) E1 out1) as [|o2 E2 out2] eqn:Hrun; [discriminate|].
  assert (Hi : i + (length cls - i) = length cls).
  { assert (i < length cls) by (apply nth_error_Some; congruence). lia. }
  destruct (BodyChain (length cls - i) i Hi ce body ft Hnth E1 fr4 out1 o2 E2 out2 Ag4 Pr4 Hrun) as [r5 [R5 Post5]].
  assert (Pre : forall r, reach g (Some (clause_body_start (SCase ce body ft) P ((P ++ [2]) ++ [i]))) fr4 out1 r ->
                reach g (Some (sstart (SSwitch init None cls) P)) fr out r).
  { intros r Hr. eapply reach_trans; [exact R1|]. eapply reach_trans; [exact R4 | exact Hr]. }
  destruct o2; simpl in Post5; inversion H; subst o E' out'; clear H.
  - destruct Post5 as [fr5 [-> [Pr5 Ag5]]].
    eexists. split; [apply Pre; eapply reach_trans; [exact R5 | apply Final]|].
    pose proof (leave_scope init sc nx E fr E2 [] E2 fr5 Hag eq_refl Ag5) as L.
    simpl. eexists. split; [reflexivity|]. split; [exact Pr5|]. split; [eexists [], _; split; [reflexivity | exact L] | intros _; exact L].
  - destruct Post5 as [fr5 [-> [Pr5 Ag5]]].
    eexists. split; [apply Pre; eapply reach_trans; [exact R5 | apply Final]|].
    pose proof (leave_scope init sc nx E fr E2 [] E2 fr5 Hag eq_refl Ag5) as L.
    simpl. eexists. split; [reflexivity|]. split; [exact Pr5|]. split; [eexists [], _; split; [reflexivity | exact L] | intros _; exact L].
  - destruct Post5 as [fr5 [-> [Pr5 Ag5]]].
    eexists. split; [apply Pre; exact R5|].
    pose proof (leave_scope init sc nx E fr E2 [] E2 fr5 Hag eq_refl Ag5) as L.
    simpl. eexists. split; [reflexivity|]. split; [exact Pr5|]. split; [eexists [], _; split; [reflexivity | exact L] | discriminate].
  - subst r5. eexists. split; [apply Pre; exact R5 | reflexivity].
Qed.


(* ---- switch with a tag *)

Lemma match_ints_leaf E sc fr v l : forallb is_leaf l = true -> agree E sc fr ->
  forall nx, match_ints E v l = Some (existsb (fun o => Z.eqb v (oval fr o)) (fst (aalloc_list l sc nx))).
Proof.
  induction l as [|a l IH]; simpl; intros Hl Hag nx; [reflexivity|].
  apply andb_prop in Hl. destruct Hl as [Ha Hl].
  rewrite (leaf_val a sc nx None E fr Ha Hag).
  destruct (aalloc a sc nx None) as [oa n1]. simpl.
  specialize (IH Hl Hag n1). destruct (aalloc_list l sc n1) as [os n2]. simpl in *.
  destruct (Z.eqb v (oval fr oa)); [reflexivity | exact IH].
Qed.

Lemma match_ints_first E sc fr v e rest nx v0 :
  forallb is_leaf rest = true -> agree E sc fr -> oval fr (fst (aalloc e sc nx None)) = v0 ->
  (if Z.eqb v v0 then Some true else match_ints E v rest) =
  Some (existsb (fun o => Z.eqb v (oval fr o)) (fst (aalloc_list (e :: rest) sc nx))).
Proof.
  intros Hl Hag Hv. simpl. destruct (aalloc e sc nx None) as [oe n1]. simpl in *.
  pose proof (match_ints_leaf E sc fr v rest Hl Hag n1) as M.
  destruct (aalloc_list rest sc n1) as [os n2]. simpl in *. subst v0.
  destruct (Z.eqb v (oval fr oe)); [reflexivity | exact M].
Qed.

Lemma switch_embed_tag init t cls g sc nx K P j ce body ft :
  (forall q, g (P ++ q) = snode_at q (SSwitch init (Some t) cls) sc nx K P) ->
  nth_error cls j = Some (SCase ce body ft) ->
  let sc1 := fst (salloc_opt init sc nx) in
  let n1 := snd (salloc_opt init sc nx) in
  let otag := fst (aalloc t sc1 n1 None) in
  let n2 := snd (aalloc t sc1 n1 None) in
  let nj := snd (salloc_list (firstn j cls) sc1 n2) in
  let pc := (P ++ [2]) ++ [j] in
  let next := nth_error cls (S j) in
  let r := clause_ref (SCase ce body ft) next P pc ((P ++ [2]) ++ [S j]) in
  let w := wire_case (clause_empty (SCase ce body ft)) (negb (is_some next)) (is_some next && ft)
             (match next with Some c' => clause_empty c' | None => false end)
             (match next with Some c' => Nat.ltb 0 (clause_exprs c') | None => false end) in
  g pc = Some (mknode (match ce with CInts (e :: l) => XCase otag (fst (aalloc_list (e :: l) sc1 nj)) | _ => XNop end)
                      (r (cw_tnext w)) (r (cw_fnext w))) /\
  (forall q, g ((pc ++ [0]) ++ q) =
     snode_at q (SBlock (case_body body ft)) sc1 (calloc ce sc1 nj) (mkctx (r (cw_body_t w)) (Some P) (k_cont K)) (pc ++ [0])) /\
  (forall e l, ce = CInts (e :: l) -> forall q, g ((pc ++ [1]) ++ q) =
     anode_at q e sc1 nj None (pc ++ [1]) (r (cw_child0_t w))).
Proof.
  intros G Hn. cbv zeta.
  pose proof (sub_embed _ _ 2 _ G) as G2. pose proof (sub_embed _ _ j _ G2) as Gj.
  split; [|split].
  - rewrite (app_nil_path _ _ _ Gj). simpl. destruct (salloc_opt init sc nx). rewrite Hn.
    destruct ce as [|[|e l]|l]; reflexivity.
  - intros q. rewrite (sub_embed _ _ 0 _ Gj). simpl. destruct (salloc_opt init sc nx). rewrite Hn. reflexivity.
  - intros e l -> q. rewrite (sub_embed _ _ 1 _ Gj). simpl. destruct (salloc_opt init sc nx). rewrite Hn. reflexivity.
Qed.

Lemma switch_case_tag n : P_exec n -> P_list n ->
  forall init t cls g sc nx K P E fr out o E' out',
    exec (S n) (SSwitch init (Some t) cls) E out = Res o E' out' ->
    (forall q, g (P ++ q) = snode_at q (SSwitch init (Some t) cls) sc nx K P) -> wf (SSwitch init (Some t) cls) = true ->
    agree E sc fr -> scope_ok sc nx ->
    exists r, reach g (Some (sstart (SSwitch init (Some t) cls) P)) fr out r /\ post_ok K sc nx sc fr o E' out' r.
Proof.
  intros IHe IHl init t cls g sc nx K P E fr out o E' out' H G Hwf Hag Hok.
  rewrite exec_switch_eq in H.
  pose proof (app_nil_path _ _ _ G) as G0. simpl in G0.
  simpl in Hwf.
  apply andb_prop in Hwf. destruct Hwf as [Hwf Wb].
  apply andb_prop in Hwf. destruct Hwf as [Hwf Wshape]. apply andb_prop in Hwf. destruct Hwf as [Hwf Wne].
  apply andb_prop in Hwf. destruct Hwf as [Hwf Wleaf]. apply andb_prop in Hwf. destruct Hwf as [Si Wi].
  destruct cls as [|c0 cls']; [discriminate|]. clear Wne.
  set (cls := c0 :: cls') in *.
  set (N := Some (sstart c0 ((P ++ [2]) ++ [0]))).
  set (Ni := match init with Some _ => N | None => Some (astart t (P ++ [1])) end).
  assert (Start : Some (sstart (SSwitch init (Some t) cls) P) =
                  match init with Some s0 => Some (sstart s0 (P ++ [0])) | None => Ni end).
  { destruct init; reflexivity. }
  assert (Gi : forall s0, init = Some s0 -> forall q, g ((P ++ [0]) ++ q) =
             snode_at q s0 sc nx (mkctx Ni (k_brk K) (k_cont K)) (P ++ [0])).
  { intros s0 -> q. rewrite (sub_embed _ _ 0 _ G). simpl. destruct (salloc s0 sc nx). reflexivity. }
  assert (Gt : forall q, g ((P ++ [1]) ++ q) =
             anode_at q t (fst (salloc_opt init sc nx)) (snd (salloc_opt init sc nx)) None (P ++ [1]) (if is_some init then None else N)).
  { intros q. rewrite (sub_embed _ _ 1 _ G). simpl. destruct (salloc_opt init sc nx). reflexivity. }
  (* stage 1: init *)
  destruct (exec_opt n init E out) as [|o1 E1 out1] eqn:Hinit; [discriminate|].
  assert (Wi' : forall s0, init = Some s0 -> wf s0 = true) by (intros s0 ->; exact Wi).
  destruct (init_stage n IHe init g sc nx (k_brk K) (k_cont K) Ni (P ++ [0])
              E fr out o1 E1 out1 Hinit Gi Si Wi' Hag Hok) as [r1 [R1 Post1]].
  rewrite <- Start in R1.
  pose proof (salloc_opt_ok init sc nx Hok) as Hok1.
  pose proof (salloc_opt_mono init sc nx) as Mi.
  pose proof (aalloc_mono t (fst (salloc_opt init sc nx)) (snd (salloc_opt init sc nx)) None) as Mt.
  destruct o1; try (destruct Post1 as [? [_ [Hc _]]]; discriminate).
  2:{ inversion H; subst. eexists. split; [exact R1 | reflexivity]. }
  destruct Post1 as [fr1 [-> [_ [Pr1 Ag1]]]].
  (* stage 1b: the tag *)
  assert (TagStage :
    match aeval E1 t with
    | None => reach g Ni fr1 out1 (MPanic out1)
    | Some v => exists fr2, reach g Ni fr1 out1 (MRun N fr2 out1) /\ oval fr2 (fst (aalloc t (fst (salloc_opt init sc nx)) (snd (salloc_opt init sc nx)) None)) = v /\
                  (forall i, i < (snd (salloc_opt init sc nx)) -> fr2 i = fr1 i)
    end).
  { remember (fst (salloc_opt init sc nx)) as sc1' eqn:Esc in *.
    remember (snd (salloc_opt init sc nx)) as n1' eqn:En in *.
    destruct init as [s0|].
    - simpl in Wleaf. rewrite (leaf_val t sc1' n1' None E1 fr1 Wleaf Ag1).
      exists fr1. split; [apply reach_refl | auto].
    - pose proof (aoperand g t _ _ _ _ E1 fr1 out1 Gt Ag1 (proj1 Hok1)) as A. simpl in A.
      destruct (is_leaf t) eqn:Lt.
      + rewrite (leaf_val t sc1' n1' None E1 fr1 Lt Ag1) in A |- *.
        destruct A as [fr2 [R2 [V2 F2]]]. exists fr2. split; [|split; [exact V2 | exact F2]].
        eapply reach_step; [|exact R2]. unfold step.
        assert (Ea : astart t (P ++ [1]) = P ++ [1]) by (destruct t; try discriminate; reflexivity).
        unfold Ni. rewrite Ea. rewrite (app_nil_path _ _ _ Gt). destruct t; try discriminate; reflexivity.
      + exact A. }
  unfold eval_tag in H.
  destruct (aeval E1 t) as [tv|].
  2:{ inversion H; subst. eexists. split; [eapply reach_trans; [exact R1 | exact TagStage] | reflexivity]. }
  destruct TagStage as [fr2 [R2 [V2 F2]]].
  assert (Ag2 : agree E1 (fst (salloc_opt init sc nx)) fr2) by (eapply agree_below; [exact Ag1 | exact (proj1 Hok1) | exact F2]).
  assert (Otag : forall d, (fst (aalloc t (fst (salloc_opt init sc nx)) (snd (salloc_opt init sc nx)) None)) = OSlot d -> d < (snd (aalloc t (fst (salloc_opt init sc nx)) (snd (salloc_opt init sc nx)) None))).
  { intros d Hd. destruct (is_leaf t) eqn:Lt.
    - destruct t; try discriminate; simpl in Hd |- *; try discriminate.
      destruct (slot_of x (fst (salloc_opt init sc nx))) as [i|] eqn:Hs; inversion Hd; subst.
      apply (proj1 Hok1). eapply slot_of_In; eauto.
    - destruct (aalloc_slot t (fst (salloc_opt init sc nx)) (snd (salloc_opt init sc nx)) None Lt) as [d' [Hd' Hr]]. rewrite Hd' in Hd. inversion Hd; subst. lia. }
  assert (Htag : forall fr3, (forall i, i < (snd (aalloc t (fst (salloc_opt init sc nx)) (snd (salloc_opt init sc nx)) None)) -> fr3 i = fr2 i) -> oval fr3 (fst (aalloc t (fst (salloc_opt init sc nx)) (snd (salloc_opt init sc nx)) None)) = tv).
  { intros fr3 Hinv. rewrite <- V2. destruct (fst (aalloc t (fst (salloc_opt init sc nx)) (snd (salloc_opt init sc nx)) None)) as [z|d] eqn:Ho; [reflexivity|].
    simpl. unfold geti. rewrite Hinv; [reflexivity | apply Otag; reflexivity]. }
  assert (Final : forall fr3 out3, reach g (Some P) fr3 out3 (MRun (k_next K) fr3 out3)).
  { intros. apply reach_one. unfold step. rewrite G0. reflexivity. }
  set (isentry := fun j (st : option path) =>
         match nth_error cls j with
         | None => st = Some P
         | Some c => st = Some (sstart c ((P ++ [2]) ++ [j])) \/ (is_default c = true /\ st = Some ((P ++ [2]) ++ [j]))
         end).
  (* stage 2: the chain of clauses *)
  assert (Chain : forall k j, j + k = length cls ->
     (forall i c', i < j -> nth_error cls i = Some c' -> is_default c' = false) ->
     forall st, isentry j st ->
     forall fr3, (forall i, i < (snd (aalloc t (fst (salloc_opt init sc nx)) (snd (salloc_opt init sc nx)) None)) -> fr3 i = fr2 i) ->
     match select E1 (Some tv) (skipn j cls) j with
     | None => reach g st fr3 out1 (MPanic out1)
     | Some sel => exists fr4, (forall i, i < (snd (aalloc t (fst (salloc_opt init sc nx)) (snd (salloc_opt init sc nx)) None)) -> fr4 i = fr2 i) /\
         match (match sel with Some i => Some i | None => default_index cls 0 end) with
         | Some i => exists ce body ft, nth_error cls i = Some (SCase ce body ft) /\
             reach g st fr3 out1 (MRun (Some (clause_body_start (SCase ce body ft) P ((P ++ [2]) ++ [i]))) fr4 out1)
         | None => reach g st fr3 out1 (MRun (Some P) fr4 out1)
         end
     end).
  { induction k as [|k IHk]; intros j Hj Hnd st Hst fr3 Hinv.
    - assert (j = length cls) by lia. subst j. rewrite skipn_all. simpl select.
      unfold isentry in Hst. rewrite (proj2 (nth_error_None cls (length cls))) in Hst by lia. subst st.
      exists fr3. split; [exact Hinv|].
      rewrite default_index_none; [apply reach_refl|].
      intros c Hc. apply In_nth_error in Hc. destruct Hc as [i Hi]. eapply Hnd; [|exact Hi].
      apply nth_error_Some. congruence.
    - destruct (skipn j cls) as [|c l] eqn:Hsk.
      { pose proof (skipn_nil_length _ _ Hsk). lia. }
      destruct (skipn_cons_nth _ _ _ _ Hsk) as [Hnth [Hsk' HSj]].
      destruct (shape_nth _ _ Wshape j c Hnth) as [ce [body [ft [-> [Hce [Hlast Hft]]]]]].
      destruct (switch_embed_tag init t cls g sc nx K P j ce body ft G Hnth) as [Gn [Gb Gc]].
      assert (Ag3 : agree E1 (fst (salloc_opt init sc nx)) fr3).
      { eapply agree_below; [exact Ag2 | exact (proj1 Hok1)|]. intros i Hi. apply Hinv. lia. }
      pose proof (salloc_list_mono (firstn j cls) (fst (salloc_opt init sc nx)) (snd (aalloc t (fst (salloc_opt init sc nx)) (snd (salloc_opt init sc nx)) None))) as Mj.
      unfold isentry in Hst. rewrite Hnth in Hst.
      destruct ce as [|l0|l0]; simpl in Hce.
      + (* default: the last clause *)
        assert (HS : S j = length cls).
        { destruct (Nat.eq_dec (S j) (length cls)) as [e|ne]; [exact e|].
          assert (Hd : is_default (SCase CDefault body ft) = false) by (apply Hlast; lia). discriminate. }
        assert (Hff : ft = false) by (destruct ft; [specialize (Hft eq_refl); lia | reflexivity]). subst ft.
        simpl select. rewrite <- Hsk', HS, skipn_all. simpl select.
        rewrite (default_index_at cls 0 j _ Hnth eq_refl Hnd). simpl.
        exists fr3. split; [exact Hinv|]. exists CDefault, body, false. split; [exact Hnth|].
        destruct Hst as [-> | [_ ->]].
        * destruct body as [|s0 body'].
          -- apply reach_one. unfold step. simpl. rewrite Gn. reflexivity.
          -- apply reach_refl.
        * destruct body as [|s0 body']; apply reach_one; unfold step; rewrite Gn; reflexivity.
      + destruct l0 as [|e rest]; [discriminate|]. simpl in Hce.
        destruct Hst as [-> | [Hd _]]; [|discriminate].
        assert (Hb3 : bounded (fst (salloc_opt init sc nx)) (snd (salloc_list (firstn j cls) (fst (salloc_opt init sc nx)) (snd (aalloc t (fst (salloc_opt init sc nx)) (snd (salloc_opt init sc nx)) None))))) by (eapply bounded_mono; [exact (proj1 Hok1) | lia]).
        pose proof (aoperand g e _ _ _ _ E1 fr3 out1 (Gc e rest eq_refl) Ag3 Hb3) as A.
        assert (Hnd' : forall i c', i < S j -> nth_error cls i = Some c' -> is_default c' = false).
        { intros i c' Hi Hc'. destruct (Nat.eq_dec i j) as [->|ne]; [|apply (Hnd i c'); [lia | exact Hc']].
          rewrite Hnth in Hc'. inversion Hc'; reflexivity. }
        cbn [select clause_matches match_ints]. simpl sstart.
        destruct (aeval E1 e) as [v0|] eqn:Hae.
        2:{ destruct (is_leaf e) eqn:Le; [rewrite (leaf_val e (fst (salloc_opt init sc nx)) (snd (salloc_list (firstn j cls) (fst (salloc_opt init sc nx)) (snd (aalloc t (fst (salloc_opt init sc nx)) (snd (salloc_opt init sc nx)) None)))) None E1 fr3 Le Ag3) in Hae; discriminate | exact A]. }
        destruct A as [fr4 [RA [V4 F4]]].
        assert (R0 : reach g (Some (astart e (((P ++ [2]) ++ [j]) ++ [1]))) fr3 out1 (MRun (Some ((P ++ [2]) ++ [j])) fr4 out1)).
        { destruct (is_leaf e) eqn:Le; [|exact RA].
          assert (Ea : astart e (((P ++ [2]) ++ [j]) ++ [1]) = ((P ++ [2]) ++ [j]) ++ [1]) by (destruct e; try discriminate; reflexivity).
          rewrite Ea. eapply reach_step; [|exact RA]. unfold step. rewrite (app_nil_path _ _ _ (Gc e rest eq_refl)).
          destruct e; try discriminate; reflexivity. }
        assert (Hinv4 : forall i, i < (snd (aalloc t (fst (salloc_opt init sc nx)) (snd (salloc_opt init sc nx)) None)) -> fr4 i = fr2 i).
        { intros i Hi. rewrite F4 by lia. apply Hinv. exact Hi. }
        assert (Ag4 : agree E1 (fst (salloc_opt init sc nx)) fr4).
        { eapply agree_below; [exact Ag3 | exact Hb3 | exact F4]. }
        rewrite (match_ints_first E1 (fst (salloc_opt init sc nx)) fr4 tv e rest (snd (salloc_list (firstn j cls) (fst (salloc_opt init sc nx)) (snd (aalloc t (fst (salloc_opt init sc nx)) (snd (salloc_opt init sc nx)) None)))) v0 Hce Ag4 V4).
        assert (Step : step g ((P ++ [2]) ++ [j]) fr4 out1 =
                  MRun (if existsb (fun o => Z.eqb tv (oval fr4 o)) (fst (aalloc_list (e :: rest) (fst (salloc_opt init sc nx)) (snd (salloc_list (firstn j cls) (fst (salloc_opt init sc nx)) (snd (aalloc t (fst (salloc_opt init sc nx)) (snd (salloc_opt init sc nx)) None))))))
                        then Some (clause_body_start (SCase (CInts (e :: rest)) body ft) P ((P ++ [2]) ++ [j]))
                        else match nth_error cls (S j) with
                             | None => Some P
                             | Some c' => if Nat.ltb 0 (clause_exprs c') then Some (sstart c' ((P ++ [2]) ++ [S j])) else Some ((P ++ [2]) ++ [S j])
                             end) fr4 out1).
        { unfold step. rewrite Gn. unfold exec_node. cbn [act]. rewrite (Htag fr4 Hinv4).
          destruct (nth_error cls (S j)) as [c'|]; [destruct (Nat.ltb 0 (clause_exprs c'))|];
            destruct (existsb _ _); reflexivity. }
        destruct (existsb (fun o => Z.eqb tv (oval fr4 o)) (fst (aalloc_list (e :: rest) (fst (salloc_opt init sc nx)) (snd (salloc_list (firstn j cls) (fst (salloc_opt init sc nx)) (snd (aalloc t (fst (salloc_opt init sc nx)) (snd (salloc_opt init sc nx)) None))))))).
        * exists fr4. split; [exact Hinv4|]. exists (CInts (e :: rest)), body, ft. split; [exact Hnth|].
          eapply reach_trans; [exact R0|]. apply reach_one. exact Step.
        * assert (Hst' : isentry (S j) (match nth_error cls (S j) with
                             | None => Some P
                             | Some c' => if Nat.ltb 0 (clause_exprs c') then Some (sstart c' ((P ++ [2]) ++ [S j])) else Some ((P ++ [2]) ++ [S j])
                             end)).
          { unfold isentry. destruct (nth_error cls (S j)) as [c'|] eqn:Hnext; [|reflexivity].
            destruct (shape_nth _ _ Wshape (S j) c' Hnext) as [ce' [body' [ft' [-> [Hce' _]]]]].
            destruct ce' as [|l1|l1]; simpl in Hce' |- *.
            - right. split; reflexivity.
            - destruct l1; [discriminate|]. left. reflexivity.
            - destruct l1 as [|? [|? ?]]; discriminate. }
          specialize (IHk (S j) ltac:(lia) Hnd' _ Hst' fr4 Hinv4). rewrite Hsk' in IHk.
          assert (R4' : reach g (Some (astart e (((P ++ [2]) ++ [j]) ++ [1]))) fr3 out1
                          (MRun (match nth_error cls (S j) with
                             | None => Some P
                             | Some c' => if Nat.ltb 0 (clause_exprs c') then Some (sstart c' ((P ++ [2]) ++ [S j])) else Some ((P ++ [2]) ++ [S j])
                             end) fr4 out1)).
          { eapply reach_trans; [exact R0|]. apply reach_one. exact Step. }
          destruct (select E1 (Some tv) l (S j)) as [sel|].
          -- destruct IHk as [fr5 [Hinv5 Hm]]. exists fr5. split; [exact Hinv5|].
             destruct (match sel with Some i => Some i | None => default_index cls 0 end) as [i|].
             ++ destruct Hm as [ce' [b' [ft' [Hn' R']]]]. exists ce', b', ft'. split; [exact Hn'|].
                eapply reach_trans; [exact R4' | exact R'].
             ++ eapply reach_trans; [exact R4' | exact Hm].
          -- eapply reach_trans; [exact R4' | exact IHk].
      + destruct l0 as [|e [|e' l1]]; discriminate. }
  assert (Hst0 : isentry 0 N) by (left; reflexivity).
  specialize (Chain (length cls) 0 eq_refl (fun i c' Hi _ => match Nat.nlt_0_r i Hi with end) N Hst0 fr2 (fun i _ => eq_refl)).
  change (skipn 0 cls) with cls in Chain.
  (* leaving the switch *)
  assert (Leave : forall fr5 E2 Ext Eb, E2 = Ext ++ Eb -> agree Eb (fst (salloc_opt init sc nx)) fr5 ->
            agree (restore E (restore E1 E2)) sc fr5).
  { intros fr5 E2 Ext Eb HE AgB.
    rewrite (agree_restore _ _ _ _ _ _ _ Ag1 HE AgB).
    exact (leave_scope init sc nx E fr Eb [] Eb fr5 Hag eq_refl AgB). }
  assert (R12 : reach g (Some (sstart (SSwitch init (Some t) cls) P)) fr out (MRun N fr2 out1)).
  { eapply reach_trans; [exact R1 | exact R2]. }
  destruct (select E1 (Some tv) cls 0) as [sel|].
  2:{ inversion H; subst. eexists. split; [eapply reach_trans; [exact R12 | exact Chain] | reflexivity]. }
  destruct Chain as [fr4 [Hinv4 Hm]].
  assert (Ag4 : agree E1 (fst (salloc_opt init sc nx)) fr4).
  { eapply agree_below; [exact Ag2 | exact (proj1 Hok1)|]. intros i Hi. apply Hinv4. lia. }
  assert (Pr4 : preserved fr fr4 sc nx).
  { eapply preserved_trans; [exact Pr1|]. apply preserved_below. intros i Hi. rewrite Hinv4 by lia. apply F2. lia. }
  destruct (match sel with Some i => Some i | None => default_index cls 0 end) as [i|].
  2:{ inversion H; subst o E' out'; clear H.
      eexists. split; [eapply reach_trans; [exact R12|]; eapply reach_trans; [exact Hm | apply Final]|].
      pose proof (leave_scope init sc nx E fr E1 [] E1 fr4 Hag eq_refl Ag4) as L.
      simpl. eexists. split; [reflexivity|]. split; [exact Pr4|]. split; [exists [], (restore E E1); auto | auto]. }
  assert (BodyChain : forall k m, m + k = length cls -> forall ce body ft, nth_error cls m = Some (SCase ce body ft) ->
     forall Ec frc outc o2 E2 out2, agree Ec (fst (salloc_opt init sc nx)) frc -> preserved fr frc sc nx ->
     run_clauses (exec_list n) (skipn m cls) Ec outc = Res o2 E2 out2 ->
     exists r, reach g (Some (clause_body_start (SCase ce body ft) P ((P ++ [2]) ++ [m]))) frc outc r /\
       match o2 with
       | OPanic => r = MPanic out2
       | _ => exists fr5, r = MRun (match o2 with OContinue => k_cont K | _ => Some P end) fr5 out2 /\
                preserved fr fr5 sc nx /\ agree E2 (fst (salloc_opt init sc nx)) fr5
       end).
  { induction k as [|k IHk]; intros m Hi ce body ft Hnth Ec frc outc o2 E2 out2 Agc Prc Hrun.
    { assert (m < length cls) by (apply nth_error_Some; congruence). lia. }
    rewrite (nth_error_skipn _ _ _ Hnth) in Hrun. cbn [run_clauses] in Hrun.
    destruct (shape_nth _ _ Wshape m _ Hnth) as [ce0 [body0 [ft0 [Heq [Hce [_ Hft]]]]]]. inversion Heq; subst ce0 body0 ft0; clear Heq.
    destruct (switch_embed_tag init t cls g sc nx K P m ce body ft G Hnth) as [_ [Gb _]].
    assert (Wbody : forallb wf (case_body body ft) = true).
    { apply wf_case_body. rewrite forallb_forall in Wb. exact (Wb _ (nth_error_In _ _ Hnth)). }
    destruct (exec_list n (case_body body ft) Ec outc) as [|o3 E3 out3] eqn:Hb; [discriminate|].
    unfold clause_body_start.
    destruct (case_body body ft) as [|s0 b'] eqn:Hcb.
    - (* empty body, no fallthrough *)
      destruct ft; [destruct body; discriminate|].
      destruct n; [discriminate|]. simpl in Hb. inversion Hb; subst o3 E3 out3; clear Hb.
      inversion Hrun; subst o2 E2 out2; clear Hrun.
      eexists. split; [apply reach_refl|]. exists frc. split; [reflexivity|]. split; [exact Prc|].
      assert (Hr : restore Ec Ec = Ec) by (apply (restore_app Ec [] Ec eq_refl)). rewrite Hr. exact Agc.
    - pose proof (salloc_list_mono (firstn m cls) (fst (salloc_opt init sc nx)) (snd (aalloc t (fst (salloc_opt init sc nx)) (snd (salloc_opt init sc nx)) None))) as Mj.
      pose proof (calloc_mono ce (fst (salloc_opt init sc nx)) (snd (salloc_list (firstn m cls) (fst (salloc_opt init sc nx)) (snd (aalloc t (fst (salloc_opt init sc nx)) (snd (salloc_opt init sc nx)) None))))) as Mc.
      assert (Hokb : scope_ok (fst (salloc_opt init sc nx)) (calloc ce (fst (salloc_opt init sc nx)) (snd (salloc_list (firstn m cls) (fst (salloc_opt init sc nx)) (snd (aalloc t (fst (salloc_opt init sc nx)) (snd (salloc_opt init sc nx)) None)))))) by (eapply scope_ok_mono; [exact Hok1 | lia]).
      assert (W5 : forall fr5, preserved frc fr5 (fst (salloc_opt init sc nx)) (calloc ce (fst (salloc_opt init sc nx)) (snd (salloc_list (firstn m cls) (fst (salloc_opt init sc nx)) (snd (aalloc t (fst (salloc_opt init sc nx)) (snd (salloc_opt init sc nx)) None))))) -> preserved fr fr5 sc nx).
      { intros fr5 Pr5. eapply preserved_trans; [exact Prc|]. eapply preserved_weaken; [exact Pr5|].
        intros x Hx Hv. destruct (weaken_after_opt init sc nx x Hok Hx Hv) as [A B]. split; [lia | exact B]. }
      unfold clause_empty in Gb. rewrite Hcb in Gb.
      destruct ft.
      + (* fallthrough: the next clause exists *)
        specialize (Hft eq_refl).
        destruct (nth_error cls (S m)) as [c'|] eqn:Hnext; [|apply nth_error_None in Hnext; lia].
        destruct (shape_nth _ _ Wshape (S m) c' Hnext) as [ce' [body' [ft' [-> _]]]].
        rewrite ?Bool.andb_false_r in Gb. simpl in Gb.
        destruct (branch_block n IHl (s0 :: b') g _ _ (Some P) (k_cont K) _ _ Ec frc outc o3 E3 out3 Hb Gb Wbody Agc Hokb) as [r5 [R5 Post5]].
        destruct o3; simpl in Post5.
        * destruct Post5 as [fr5 [-> [Pr5 [Ext [Eb [HE AgB]]]]]].
          rewrite (agree_restore _ _ _ _ _ _ _ Agc HE AgB) in Hrun.
          destruct (IHk (S m) ltac:(lia) ce' body' ft' Hnext Eb fr5 out3 o2 E2 out2 AgB (W5 fr5 Pr5) Hrun) as [r6 [R6 Post6]].
          exists r6. split; [|exact Post6]. eapply reach_trans; [exact R5|]. revert R6.
          unfold clause_ref, clause_body_start.
          repeat match goal with |- context [Nat.eqb ?a 0] => destruct (Nat.eqb a 0) end;
            destruct (case_body body' ft'); simpl; intros R6; exact R6.
        * inversion Hrun; subst o2 E2 out2; clear Hrun.
          destruct Post5 as [fr5 [-> [Pr5 [Ext [Eb [HE AgB]]]]]].
          eexists. split; [exact R5|]. exists fr5. split; [reflexivity|]. split; [apply W5; exact Pr5|].
          rewrite (agree_restore _ _ _ _ _ _ _ Agc HE AgB). exact AgB.
        * inversion Hrun; subst o2 E2 out2; clear Hrun.
          destruct Post5 as [fr5 [-> [Pr5 [Ext [Eb [HE AgB]]]]]].
          eexists. split; [exact R5|]. exists fr5. split; [reflexivity|]. split; [apply W5; exact Pr5|].
          rewrite (agree_restore _ _ _ _ _ _ _ Agc HE AgB). exact AgB.
        * inversion Hrun; subst o2 E2 out2; clear Hrun. subst r5. eexists. split; [exact R5 | reflexivity].
      + rewrite ?Bool.andb_false_r in Gb. simpl in Gb.
        destruct (branch_block n IHl (s0 :: b') g _ _ (Some P) (k_cont K) _ _ Ec frc outc o3 E3 out3 Hb Gb Wbody Agc Hokb) as [r5 [R5 Post5]].
        destruct o3; simpl in Post5; inversion Hrun; subst o2 E2 out2; clear Hrun.
        * destruct Post5 as [fr5 [-> [Pr5 [Ext [Eb [HE AgB]]]]]].
          eexists. split; [exact R5|]. exists fr5. split; [reflexivity|]. split; [apply W5; exact Pr5|].
          rewrite (agree_restore _ _ _ _ _ _ _ Agc HE AgB). exact AgB.
        * destruct Post5 as [fr5 [-> [Pr5 [Ext [Eb [HE AgB]]]]]].
          eexists. split; [exact R5|]. exists fr5. split; [reflexivity|]. split; [apply W5; exact Pr5|].
          rewrite (agree_restore _ _ _ _ _ _ _ Agc HE AgB). exact AgB.
        * destruct Post5 as [fr5 [-> [Pr5 [Ext [Eb [HE AgB]]]]]].
          eexists. split; [exact R5|]. exists fr5. split; [reflexivity|]. split; [apply W5; exact Pr5|].
          rewrite (agree_restore _ _ _ _ _ _ _ Agc HE AgB). exact AgB.
        * subst r5. eexists. split; [exact R5 | reflexivity]. }
  destruct Hm as [ce [body [ft [Hnth R4]]]].
  destruct (run_clauses (exec_list n) (skipn i cls) E1 out1) as [|o2 E2 out2] eqn:Hrun; [discriminate|].
  assert (Hi : i + (length cls - i) = length cls).
  { assert (i < length cls) by (apply nth_error_Some; congruence). lia. }
  destruct (BodyChain (length cls - i) i Hi ce body ft Hnth E1 fr4 out1 o2 E2 out2 Ag4 Pr4 Hrun) as [r5 [R5 Post5]].
  assert (Pre : forall r, reach g (Some (clause_body_start (SCase ce body ft) P ((P ++ [2]) ++ [i]))) fr4 out1 r ->
                reach g (Some (sstart (SSwitch init (Some t) cls) P)) fr out r).
  { intros r Hr. eapply reach_trans; [exact R12|]. eapply reach_trans; [exact R4 | exact Hr]. }
  destruct o2; simpl in Post5; inversion H; subst o E' out'; clear H.
  - destruct Post5 as [fr5 [-> [Pr5 Ag5]]].
    eexists. split; [apply Pre; eapply reach_trans; [exact R5 | apply Final]|].
    pose proof (leave_scope init sc nx E fr E2 [] E2 fr5 Hag eq_refl Ag5) as L.
    simpl. eexists. split; [reflexivity|]. split; [exact Pr5|]. split; [eexists [], _; split; [reflexivity | exact L] | intros _; exact L].
  - destruct Post5 as [fr5 [-> [Pr5 Ag5]]].
    eexists. split; [apply Pre; eapply reach_trans; [exact R5 | apply Final]|].
    pose proof (leave_scope init sc nx E fr E2 [] E2 fr5 Hag eq_refl Ag5) as L.
    simpl. eexists. split; [reflexivity|]. split; [exact Pr5|]. split; [eexists [], _; split; [reflexivity | exact L] | intros _; exact L].
  - destruct Post5 as [fr5 [-> [Pr5 Ag5]]].
    eexists. split; [apply Pre; exact R5|].
    pose proof (leave_scope init sc nx E fr E2 [] E2 fr5 Hag eq_refl Ag5) as L.
    simpl. eexists. split; [reflexivity|]. split; [exact Pr5|]. split; [eexists [], _; split; [reflexivity | exact L] | discriminate].
  - subst r5. eexists. split; [apply Pre; exact R5 | reflexivity].
Qed.

(* ------------------------------------------------------------------ all statements *)

Lemma step_exec n : P_exec n -> P_list n -> P_loop n -> P_exec (S n).
Proof.
  intros IHe IHl IHp s g sc nx K P E fr out o E' out' H G Hwf Hag Hok.
  destruct s.
  - eapply sim_assign; eauto.
  - eapply sim_define; eauto.
  - eapply sim_opassign; eauto.
  - eapply sim_incdec; eauto.
  - eapply sim_print; eauto.
  - rewrite salloc_block. simpl fst. change (sstart (SBlock b) P) with (block_start b P).
    eapply block_case; eauto.
  - assert (Hs : fst (salloc (SIf init c t e) sc nx) = sc) by (rewrite salloc_scope; reflexivity).
    rewrite Hs. eapply if_case; eauto.
  - assert (Hs : fst (salloc (SFor init c post body) sc nx) = sc) by (rewrite salloc_scope; reflexivity).
    rewrite Hs. eapply for_case; eauto.
  - eapply sim_break; eauto.
  - eapply sim_continue; eauto.
  - assert (Hs : fst (salloc (SSwitch init tag cls) sc nx) = sc) by (rewrite salloc_scope; reflexivity).
    rewrite Hs. destruct tag as [t|]; [eapply switch_case_tag | eapply switch_case_notag]; eauto.
  - simpl in Hwf. discriminate.
Qed.

Theorem sim_all : forall n, P_exec n /\ P_list n /\ P_loop n.
Proof.
  induction n as [|n [IHe [IHl IHp]]].
  - repeat split.
    + intros s g sc nx K P E fr out o E' out' H. discriminate.
    + intros b i g sc0 nx0 K P E fr out o E' out' H. discriminate.
    + intros init c post body g sc nx K P E1 fr out o E2 out2 H. discriminate.
  - repeat split.
    + apply step_exec; assumption.
    + apply step_list; assumption.
    + apply step_loop; assumption.
Qed.

(* ------------------------------------------------------------------ whole programs *)

Lemma scope_ok_nil : scope_ok [] 0.
Proof. split; [intros i [] | constructor]. Qed.

(** cfg.go swaps a default clause that is not last with the last clause; inside the fragment the
    default clause is last, so the compiled program is the program itself. *)
Definition wfc (c : stmt) : bool := match c with SCase _ body _ => forallb wf body | _ => false end.

Definition norm_ok (s : stmt) : Prop := (wf s = true -> norm s = s) /\ (wfc s = true -> norm s = s).

Lemma map_norm_wf l : Forall norm_ok l -> forallb wf l = true -> map norm l = l.
Proof.
  induction 1 as [|s l Hs Hl IH]; simpl; intros W; [reflexivity|].
  apply andb_prop in W. destruct W as [W1 W2]. rewrite (proj1 Hs W1), (IH W2). reflexivity.
Qed.

Lemma map_norm_wfc l : Forall norm_ok l -> forallb wfc l = true -> map norm l = l.
Proof.
  induction 1 as [|s l Hs Hl IH]; simpl; intros W; [reflexivity|].
  apply andb_prop in W. destruct W as [W1 W2]. rewrite (proj2 Hs W1), (IH W2). reflexivity.
Qed.

Lemma first_default_last t cls : forall k i, shape_ok t cls = true -> first_default cls k = Some i ->
  i = k + Nat.pred (length cls).
Proof.
  induction cls as [|c rest IH]; intros k i Hs Hf; simpl in *; [discriminate|].
  destruct c; try discriminate.
  apply andb_prop in Hs. destruct Hs as [Hs Hrest]. apply andb_prop in Hs. destruct Hs as [Hs Hdef].
  apply andb_prop in Hs. destruct Hs as [Hce _].
  destruct ce as [|l0|l0]; simpl in Hf, Hce.
  - inversion Hf; subst i. destruct rest; [simpl; lia | discriminate].
  - destruct l0; [discriminate|]. simpl in Hf.
    destruct rest as [|c1 rest']; [discriminate|]. rewrite (IH (S k) i Hrest Hf). simpl. lia.
  - destruct l0 as [|e [|e' l1]]; try (destruct t; discriminate). simpl in Hf.
    destruct rest as [|c1 rest']; [discriminate|]. rewrite (IH (S k) i Hrest Hf). simpl. lia.
Qed.

Lemma swap_default_id t cls : shape_ok t cls = true -> swap_default cls = cls.
Proof.
  intros Hs. unfold swap_default. destruct (first_default cls 0) as [i|] eqn:Hf; [|reflexivity].
  rewrite (first_default_last t cls 0 i Hs Hf). simpl. rewrite Nat.eqb_refl. reflexivity.
Qed.

Lemma norm_wf_both s : norm_ok s.
Proof.
  induction s using stmt_ind2; split; simpl; intros W; try reflexivity; try discriminate.
  - rewrite (map_norm_wf b H W). reflexivity.
  - apply andb_prop in W. destruct W as [W We]. apply andb_prop in W. destruct W as [W Wt].
    apply andb_prop in W. destruct W as [_ Wi].
    rewrite (map_norm_wf t H0 Wt).
    assert (Hi : match init with Some s => Some (norm s) | None => None end = init).
    { destruct init; simpl in *; [rewrite (proj1 H Wi)|]; reflexivity. }
    rewrite Hi. destruct e as [l|]; simpl in *; [rewrite (map_norm_wf l H1 We)|]; reflexivity.
  - repeat (apply andb_prop in W; let W' := fresh "W" in destruct W as [W W']).
    rewrite (map_norm_wf body H1 W4).
    assert (Hi : match init with Some s => Some (norm s) | None => None end = init).
    { destruct init; simpl in *; [rewrite (proj1 H W6)|]; reflexivity. }
    assert (Hp : match post with Some s => Some (norm s) | None => None end = post).
    { destruct post; simpl in *; [rewrite (proj1 H0 W5)|]; reflexivity. }
    rewrite Hi, Hp. reflexivity.
  - apply andb_prop in W. destruct W as [W Wb].
    apply andb_prop in W. destruct W as [W Wshape]. apply andb_prop in W. destruct W as [W Wne].
    apply andb_prop in W. destruct W as [W Wleaf]. apply andb_prop in W. destruct W as [_ Wi].
    rewrite (map_norm_wfc cls H0 Wb), (swap_default_id _ _ Wshape).
    assert (Hi : match init with Some s => Some (norm s) | None => None end = init).
    { destruct init; simpl in *; [rewrite (proj1 H Wi)|]; reflexivity. }
    rewrite Hi. reflexivity.
  - rewrite (map_norm_wf body H W). reflexivity.
Qed.

Lemma norm_wf s : wf s = true -> norm s = s.
Proof. apply norm_wf_both. Qed.

Lemma map_norm_id l : Forall (fun s => wf s = true -> norm s = s) l -> forallb wf l = true -> map norm l = l.
Proof.
  induction 1 as [|s l Hs Hl IH]; simpl; intros W; [reflexivity|].
  apply andb_prop in W. destruct W as [W1 W2]. rewrite (Hs W1), (IH W2). reflexivity.
Qed.

Lemma norm_program p : wf_program p = true -> map norm p = p.
Proof. intros W. apply map_norm_id; [|exact W]. apply Forall_forall. intros s _. apply norm_wf. Qed.

Theorem forward_simulation p n out pk :
  wf_program p = true -> GoSem.run n p = Done out pk -> exists m, Cfg.run m p = Done out pk.
Proof.
  intros Hwf H. unfold GoSem.run in H.
  destruct (exec n (SBlock p) [] []) as [|o E' out'] eqn:Hx; [discriminate|].
  destruct (sim_all n) as [IHe _].
  assert (G : forall q, compile p ([] ++ q) = snode_at q (SBlock p) [] 0 (mkctx None None None) []).
  { intros q. unfold compile. rewrite (norm_program p Hwf). reflexivity. }
  destruct (IHe (SBlock p) (compile p) [] 0 (mkctx None None None) [] [] frame0 [] o E' out' Hx G Hwf
              (Forall2_nil _) scope_ok_nil) as [r [R Post]].
  unfold Cfg.run, entry. rewrite (norm_program p Hwf). change (sstart (SBlock p) []) with (block_start p []) in R.
  destruct o; simpl in Post.
  - destruct Post as [fr' [-> _]]. inversion H; subst. eapply reach_run_end; eauto.
  - destruct Post as [fr' [-> _]]. inversion H; subst. eapply reach_run_end; eauto.
  - destruct Post as [fr' [-> _]]. inversion H; subst. eapply reach_run_end; eauto.
  - subst r. inversion H; subst. eapply reach_run_panic; eauto.
Qed.
