(** C01 — MiniGo: the fragment of Go for which "interpreted = compiled" is proved (DESIGN.md 3, C01).

    Values are 64-bit integers (type [int], two's complement wrap-around) and booleans.  The syntax
    is two-sorted, so every program of the fragment is well typed by construction:
    - integer expressions: literal, variable, unary minus, + - * / % & | ^
    - boolean expressions: literal, comparison of integers, !, &&, ||   (no boolean variables)
    - statements: [x = e], [x := e], [x op= e], [x++ / x--], [fmt.Println(e)], block,
      [if] in its 4 forms, [for] in its 8 forms, unlabelled [break] / [continue],
      [switch] with a tag (integer expression) or without (boolean cases), optional init statement,
      several expressions per clause, [default] anywhere, [fallthrough] (a flag of the clause: it is
      the last statement of the clause body), [break] inside a clause
    A program is the body of [main].  Variables are numbered; the harness prints variable [n] as [xn]. *)
From Coq Require Export ZArith List Bool Lia.
Export ListNotations.
Open Scope Z_scope.

Definition ident := nat.

Inductive aop := Add | Sub | Mul | Quo | Rem | And | Or | Xor.
Inductive cop := Eq | Ne | Lt | Le | Gt | Ge.

Inductive aexp :=
| ALit (z : Z)
| AVar (x : ident)
| ANeg (a : aexp)
| ABin (op : aop) (a b : aexp).

Inductive bexp :=
| BLit (b : bool)
| BCmp (op : cop) (a b : aexp)
| BNot (b : bexp)
| BAnd (a b : bexp)
| BOr (a b : bexp).

(** The expression list of a case clause: [default], integer expressions (switch with a tag) or
    conditions (switch without a tag). *)
Inductive cexprs :=
| CDefault
| CInts (l : list aexp)
| CBools (l : list bexp).

(** [SSwitch init tag cls]: every element of [cls] is an [SCase]; an [SCase] occurs nowhere else
    (both checked by [Wf.wf]; the harness only writes such programs). *)
Inductive stmt :=
| SAssign (x : ident) (e : aexp)
| SDefine (x : ident) (e : aexp)
| SOpAssign (op : aop) (x : ident) (e : aexp)
| SIncDec (inc : bool) (x : ident)
| SPrint (e : aexp)
| SBlock (b : list stmt)
| SIf (init : option stmt) (c : bexp) (t : list stmt) (e : option (list stmt))
| SFor (init : option stmt) (c : option bexp) (post : option stmt) (body : list stmt)
| SBreak
| SContinue
| SSwitch (init : option stmt) (tag : option aexp) (cls : list stmt)
| SCase (ce : cexprs) (body : list stmt) (ft : bool).

Definition program := list stmt.

(** The body of a clause as a statement list: [fallthrough] is a last statement that does nothing by
    itself (an empty block); what follows it is decided by the switch. *)
Definition case_body (body : list stmt) (ft : bool) : list stmt := if ft then body ++ [SBlock []] else body.

(** 64-bit two's complement. *)
Definition two63 : Z := 9223372036854775808.
Definition wrap (z : Z) : Z := (z + two63) mod (2 * two63) - two63.

(** Arithmetic on wrapped integers; [None] = run-time panic (integer divide by zero). *)
Definition arith (op : aop) (a b : Z) : option Z :=
  match op with
  | Add => Some (wrap (a + b))
  | Sub => Some (wrap (a - b))
  | Mul => Some (wrap (a * b))
  | Quo => if b =? 0 then None else Some (wrap (Z.quot a b))
  | Rem => if b =? 0 then None else Some (wrap (Z.rem a b))
  | And => Some (Z.land a b)
  | Or => Some (Z.lor a b)
  | Xor => Some (Z.lxor a b)
  end.

Definition compare (op : cop) (a b : Z) : bool :=
  match op with
  | Eq => a =? b
  | Ne => negb (a =? b)
  | Lt => a <? b
  | Le => a <=? b
  | Gt => b <? a
  | Ge => b <=? a
  end.

Definition is_leaf (e : aexp) : bool :=
  match e with ALit _ | AVar _ => true | _ => false end.

Definition is_blit (e : bexp) : bool :=
  match e with BLit _ => true | _ => false end.

(** Result of running a whole program: the lines printed (one integer per [fmt.Println]) and
    whether the run ended with a run-time panic (after the last line); or fuel exhausted. *)
Inductive result :=
| OutOfFuel
| Done (out : list Z) (panicked : bool).
