(** C13 — proofs: the closures of fixStdlib refine the abstract environment and never touch the host
    (unbounded, by induction on the operation list); finite theorems over the regenerated tables. *)
From Verif Require Import Lib.Str Sandbox.Model.
From Verif Require Import gen.SandboxTables_gen.
From Coq Require Import NArith Permutation Sorted.

(* ------------------------------------------------------------------ *)
(** * Order and sort *)

Lemma N_of_ascii_inj a b : N_of_ascii a = N_of_ascii b -> a = b.
Proof.
  intros H. rewrite <- (ascii_N_embedding a), <- (ascii_N_embedding b). now rewrite H.
Qed.

Definition sle (a b : str) : Prop := str_leb a b = true.

Lemma str_leb_total a b : sle a b \/ sle b a.
Proof.
  unfold sle. revert b; induction a as [|x a IH]; intros [|y b]; simpl; auto.
  rewrite (N.compare_antisym (N_of_ascii x) (N_of_ascii y)).
  destruct (N.compare (N_of_ascii x) (N_of_ascii y)); simpl; auto.
Qed.

Lemma str_leb_antisym a b : sle a b -> sle b a -> a = b.
Proof.
  unfold sle. revert b; induction a as [|x a IH]; intros [|y b]; simpl; try congruence.
  rewrite (N.compare_antisym (N_of_ascii x) (N_of_ascii y)).
  destruct (N.compare_spec (N_of_ascii x) (N_of_ascii y)) as [E|L|G]; simpl; try congruence.
  intros H1 H2. apply N_of_ascii_inj in E. subst y. f_equal. now apply IH.
Qed.

Lemma str_leb_trans a b c : sle a b -> sle b c -> sle a c.
Proof.
  unfold sle. revert b c; induction a as [|x a IH]; intros [|y b] [|z c]; simpl; try congruence.
  destruct (N.compare_spec (N_of_ascii x) (N_of_ascii y)) as [E1|L1|G1]; try congruence;
  destruct (N.compare_spec (N_of_ascii y) (N_of_ascii z)) as [E2|L2|G2]; try congruence;
  destruct (N.compare_spec (N_of_ascii x) (N_of_ascii z)) as [E3|L3|G3]; intros H1 H2;
  try reflexivity; try lia.
  eapply IH; eassumption.
Qed.

Lemma insert_perm x l : Permutation (insert x l) (x :: l).
Proof.
  induction l as [|y r IH]; simpl; [reflexivity|].
  destruct (str_leb x y); [reflexivity|].
  rewrite IH. apply perm_swap.
Qed.

Lemma isort_perm l : Permutation (isort l) l.
Proof.
  induction l as [|x r IH]; simpl; [reflexivity|].
  rewrite insert_perm. now constructor.
Qed.

Lemma insert_sorted x l : StronglySorted sle l -> StronglySorted sle (insert x l).
Proof.
  induction l as [|y r IH]; simpl; intros Hs.
  - constructor; [constructor|constructor].
  - inversion Hs as [|? ? Hr Hy]; subst.
    destruct (str_leb x y) eqn:E.
    + constructor; [assumption|]. constructor; [exact E|].
      rewrite Forall_forall in *. intros z Hz. eapply str_leb_trans; [exact E|]. now apply Hy.
    + constructor; [now apply IH|].
      rewrite Forall_forall in *. intros z Hz.
      apply (Permutation_in _ (insert_perm x r)) in Hz. destruct Hz as [<-|Hz]; [|now apply Hy].
      destruct (str_leb_total x y) as [H|H]; [unfold sle in H; congruence|exact H].
Qed.

Lemma isort_sorted l : StronglySorted sle (isort l).
Proof. induction l; simpl; [constructor|now apply insert_sorted]. Qed.

Lemma sorted_perm_eq l1 l2 :
  StronglySorted sle l1 -> StronglySorted sle l2 -> Permutation l1 l2 -> l1 = l2.
Proof.
  revert l2; induction l1 as [|a l1 IH]; intros l2 H1 H2 Hp.
  - apply Permutation_nil in Hp. now subst.
  - destruct l2 as [|b l2]; [apply Permutation_sym, Permutation_nil in Hp; discriminate|].
    inversion H1 as [|? ? Hs1 Ha]; inversion H2 as [|? ? Hs2 Hb]; subst.
    rewrite Forall_forall in Ha, Hb.
    assert (a = b).
    { assert (Ia : In a (b :: l2)) by (eapply Permutation_in; [exact Hp|now left]).
      assert (Ib : In b (a :: l1)) by (eapply Permutation_in; [apply Permutation_sym; exact Hp|now left]).
      destruct Ia as [->|Ia]; [reflexivity|]. destruct Ib as [->|Ib]; [reflexivity|].
      apply str_leb_antisym; [now apply Ha|now apply Hb]. }
    subst b. f_equal. apply IH; try assumption. eapply Permutation_cons_inv; exact Hp.
Qed.

Lemma isort_of_perm l l' : Permutation l l' -> isort l = isort l'.
Proof.
  intros Hp. apply sorted_perm_eq; try apply isort_sorted.
  rewrite (isort_perm l), Hp. symmetry. apply isort_perm.
Qed.

(* ------------------------------------------------------------------ *)
(** * Expand depends on the mapping only through its values *)

Lemma expand_go_ext f g : (forall k, f k = g k) -> forall n x, expand_go n x f = expand_go n x g.
Proof.
  intros E n; induction n as [|n IH]; intros x; simpl; [reflexivity|].
  destruct x as [|c rest]; [reflexivity|].
  destruct rest as [|d rest']; [reflexivity|].
  destruct (Ascii.eqb c dollar).
  - destruct (shell_name (d :: rest')) as [name w].
    rewrite IH. destruct name; [reflexivity|]. now rewrite E.
  - now rewrite IH.
Qed.

Lemma expand_ext f g x : (forall k, f k = g k) -> expand x f = expand x g.
Proof. intros E. unfold expand. now apply expand_go_ext. Qed.

(* ------------------------------------------------------------------ *)
(** * The association list behaves like a map *)

Lemma ym_get_none m k : ym_get m k = None <-> ~ In k (map fst m).
Proof.
  induction m as [|[k' v] m IH]; simpl; [tauto|].
  destruct (str_eqb_spec k' k) as [->|Hn].
  - split; [discriminate|]. intros H; exfalso; apply H; now left.
  - rewrite IH. split; intros H; [intros [E|I]; [congruence|tauto]|tauto].
Qed.

Lemma ym_get_set m k v k' :
  ym_get (ym_set m k v) k' = if str_eqb k k' then Some v else ym_get m k'.
Proof.
  induction m as [|[k0 v0] m IH]; simpl.
  - reflexivity.
  - destruct (str_eqb_spec k0 k) as [->|Hn]; simpl.
    + destruct (str_eqb k k'); reflexivity.
    + rewrite IH. destruct (str_eqb_spec k0 k') as [->|Hn'].
      * destruct (str_eqb_spec k k'); [congruence|reflexivity].
      * reflexivity.
Qed.

Lemma ym_set_keys m k v x : In x (map fst (ym_set m k v)) -> x = k \/ In x (map fst m).
Proof.
  induction m as [|[k0 v0] m IH]; simpl.
  - intros [<-|[]]; now left.
  - destruct (str_eqb_spec k0 k) as [->|Hn]; simpl.
    + intros [<-|H]; auto.
    + intros [<-|H]; auto. destruct (IH H); auto.
Qed.

Lemma ym_set_nodup m k v : NoDup (map fst m) -> NoDup (map fst (ym_set m k v)).
Proof.
  induction m as [|[k0 v0] m IH]; simpl; intros H.
  - constructor; [intros []|constructor].
  - inversion H as [|? ? Hn Hd]; subst.
    destruct (str_eqb_spec k0 k) as [->|Hne]; simpl.
    + now constructor.
    + constructor; [|now apply IH].
      intros Hin. apply ym_set_keys in Hin. destruct Hin as [->|Hin]; [congruence|contradiction].
Qed.

Lemma ym_del_keys m k x : In x (map fst (ym_del m k)) -> In x (map fst m).
Proof.
  induction m as [|[k0 v0] m IH]; simpl; [tauto|].
  destruct (str_eqb k0 k); simpl; [tauto|]. intros [<-|H]; auto.
Qed.

Lemma ym_del_nodup m k : NoDup (map fst m) -> NoDup (map fst (ym_del m k)).
Proof.
  induction m as [|[k0 v0] m IH]; simpl; intros H; [constructor|].
  inversion H as [|? ? Hn Hd]; subst.
  destruct (str_eqb k0 k); simpl; [assumption|].
  constructor; [|now apply IH]. intros Hin. apply ym_del_keys in Hin. contradiction.
Qed.

Lemma ym_get_del m k k' :
  NoDup (map fst m) -> ym_get (ym_del m k) k' = if str_eqb k k' then None else ym_get m k'.
Proof.
  induction m as [|[k0 v0] m IH]; simpl; intros H.
  - destruct (str_eqb k k'); reflexivity.
  - inversion H as [|? ? Hn Hd]; subst.
    destruct (str_eqb_spec k0 k) as [->|Hne]; simpl.
    + destruct (str_eqb_spec k k') as [->|Hne']; [|reflexivity].
      now apply ym_get_none.
    + rewrite (IH Hd). destruct (str_eqb_spec k0 k') as [->|Hne'].
      * destruct (str_eqb_spec k k'); [congruence|reflexivity].
      * reflexivity.
Qed.

Lemma ym_in_get m k v : NoDup (map fst m) -> (In (k, v) m <-> ym_get m k = Some v).
Proof.
  induction m as [|[k0 v0] m IH]; simpl; intros H.
  - split; [tauto|discriminate].
  - inversion H as [|? ? Hn Hd]; subst.
    destruct (str_eqb_spec k0 k) as [->|Hne].
    + split.
      * intros [E|I]; [congruence|]. exfalso; apply Hn. now apply (in_map fst) in I.
      * intros E; left; congruence.
    + rewrite <- (IH Hd). split; [intros [E|I]; [congruence|assumption]|tauto].
Qed.

Lemma nodup_fst {A B} (m : list (A * B)) : NoDup (map fst m) -> NoDup m.
Proof.
  induction m as [|x m IH]; simpl; intros H; [constructor|].
  inversion H; subst. constructor; [|now apply IH].
  intros I. apply (in_map fst) in I. contradiction.
Qed.

(* ------------------------------------------------------------------ *)
(** * The contract side *)

Lemma dedup_in x l : In x (dedup l) <-> In x l.
Proof.
  induction l as [|y r IH]; simpl; [tauto|].
  destruct (mem y r) eqn:E.
  - rewrite IH. split; [tauto|]. intros [<-|H]; [now apply mem_In|assumption].
  - simpl. rewrite IH. tauto.
Qed.

Lemma dedup_nodup l : NoDup (dedup l).
Proof.
  induction l as [|y r IH]; simpl; [constructor|].
  destruct (mem y r) eqn:E; [assumption|].
  constructor; [|assumption]. rewrite dedup_in, <- mem_In. congruence.
Qed.

Lemma bindings_in look ks k v : In (k, v) (bindings_of look ks) <-> In k ks /\ look k = Some v.
Proof.
  induction ks as [|k0 r IH]; simpl; [tauto|].
  destruct (look k0) eqn:E; simpl; rewrite IH.
  - split.
    + intros [H|[H1 H2]]; [inversion H; subst; auto|auto].
    + intros [[->|H1] H2]; [left; congruence|auto].
  - split; [tauto|]. intros [[->|H1] H2]; [congruence|auto].
Qed.

Lemma bindings_keys look ks : forall x, In x (map fst (bindings_of look ks)) -> In x ks.
Proof.
  intros x H. apply in_map_iff in H. destruct H as [[k v] [<- H]].
  apply bindings_in in H. tauto.
Qed.

Lemma bindings_nodup look ks : NoDup ks -> NoDup (map fst (bindings_of look ks)).
Proof.
  induction ks as [|k0 r IH]; simpl; intros H; [constructor|].
  inversion H; subst. destruct (look k0); simpl; [|now apply IH].
  constructor; [|now apply IH]. intros I. apply bindings_keys in I. contradiction.
Qed.

Lemma g_init_keys env0 k v : g_init env0 k = Some v -> In k (map entry_key env0).
Proof.
  induction env0 as [|e r IH]; simpl; [discriminate|].
  destruct (g_init r k); [intros H; right; now apply IH|].
  destruct (str_eqb_spec (entry_key e) k); [intros _; now left|discriminate].
Qed.

Lemma g_lookup_keys h env0 k v : g_lookup h env0 k = Some v -> In k (g_keys h env0).
Proof.
  induction h as [|o h IH]; simpl; [apply g_init_keys|].
  destruct o; simpl; try exact IH; try discriminate.
  - destruct (str_eqb_spec k0 k) as [->|Hn]; [intros _; now left|]. intros H; right; now apply IH.
  - destruct (str_eqb k0 k); [discriminate|exact IH].
Qed.

(* ------------------------------------------------------------------ *)
(** * Invariant linking the two states *)

Definition inv (m : ymap) (h : list op) (env0 : list str) : Prop :=
  NoDup (map fst m) /\ forall k, ym_get m k = g_lookup h env0 k.

Lemma y_new_gen env0 : forall m, NoDup (map fst m) ->
  let m' := fold_left (fun m e => ym_set m (entry_key e) (entry_val e)) env0 m in
  NoDup (map fst m') /\
  forall k, ym_get m' k = match g_init env0 k with Some v => Some v | None => ym_get m k end.
Proof.
  induction env0 as [|e r IH]; cbn zeta; simpl; intros m Hm; [split; [assumption|reflexivity]|].
  destruct (IH (ym_set m (entry_key e) (entry_val e)) (ym_set_nodup _ _ _ Hm)) as [Hn Hg].
  split; [exact Hn|]. intros k. rewrite Hg, ym_get_set.
  destruct (g_init r k); [reflexivity|]. destruct (str_eqb (entry_key e) k); reflexivity.
Qed.

Lemma inv_init env0 : inv (y_new env0) [] env0.
Proof.
  destruct (y_new_gen env0 [] (NoDup_nil _)) as [Hn Hg]. split; [exact Hn|].
  intros k. unfold y_new. rewrite Hg. simpl. now destruct (g_init env0 k).
Qed.

Lemma environ_agree m h env0 : inv m h env0 ->
  isort (map render m) = isort (map render (g_bindings h env0)).
Proof.
  intros [Hn Hg]. apply isort_of_perm, Permutation_map.
  apply NoDup_Permutation.
  - now apply nodup_fst.
  - apply nodup_fst, bindings_nodup, dedup_nodup.
  - intros [k v]. rewrite (ym_in_get m k v Hn), Hg. unfold g_bindings.
    rewrite bindings_in, dedup_in. split; [|tauto].
    intros H; split; [|exact H]. eapply g_lookup_keys; exact H.
Qed.

Lemma step_refines m h env0 host o : inv m h env0 ->
  let '(st', x) := y_step {| venv := m; yhost := host |} o in
  x = g_out h env0 o /\ yhost st' = host /\ inv (venv st') (o :: h) env0.
Proof.
  intros Hi. pose proof Hi as [Hn Hg].
  destruct o; simpl.
  - rewrite Hg. repeat split; try assumption.
  - rewrite Hg. repeat split; try assumption.
  - repeat split; [now apply ym_set_nodup|]. intros k'. now rewrite ym_get_set, Hg.
  - repeat split; [now apply ym_del_nodup|]. intros k'. now rewrite (ym_get_del _ _ _ Hn), Hg.
  - repeat split; constructor.
  - rewrite (environ_agree m h env0 Hi). repeat split; assumption.
  - split; [|split; [reflexivity|split; assumption]].
    f_equal. apply expand_ext. intros k. now rewrite Hg.
Qed.

Lemma steps_refine ops : forall m h env0 host, inv m h env0 ->
  fst (y_steps {| venv := m; yhost := host |} ops) = g_outs h env0 ops
  /\ yhost (snd (y_steps {| venv := m; yhost := host |} ops)) = host.
Proof.
  induction ops as [|o r IH]; intros m h env0 host Hi; simpl; [auto|].
  pose proof (step_refines m h env0 host o Hi) as Hs.
  destruct (y_step {| venv := m; yhost := host |} o) as [[m' host'] x].
  simpl in Hs. destruct Hs as [-> [-> Hi']].
  specialize (IH m' (o :: h) env0 host Hi').
  destruct (y_steps {| venv := m'; yhost := host |} r) as [xs st'']. simpl in *.
  destruct IH as [-> ->]. auto.
Qed.

(** the closures of fixStdlib compute what the contract says and leave the host as it was *)
Theorem env_refines : forall ops env0 host,
  fst (y_run ops env0 host) = fst (g_run ops env0 host) /\ snd (y_run ops env0 host) = host.
Proof.
  intros ops env0 host. unfold y_run, g_run.
  pose proof (steps_refine ops (y_new env0) [] env0 host (inv_init env0)) as H.
  destruct (y_steps {| venv := y_new env0; yhost := host |} ops) as [xs st]. exact H.
Qed.

(** non-vacuity: a run that exercises parsing of Options.Env (duplicate, missing "=", empty key),
    all seven operations and the three syntaxes of Expand *)
Definition ex_env0 : list str := [s "A=1"; s "B"; s "A=2=3"; s "=x"].
Definition ex_ops : list op :=
  [Getenv (s "A"); LookupEnv (s "B"); LookupEnv (s "C"); Setenv (s "C=D") (s "$A");
   ExpandEnv (s "$A-${B}-${C=D}-$$-${}-$"); Environ; Unsetenv (s "A"); Environ; Clearenv; Environ;
   Setenv [] (s "e"); Getenv []].
Lemma env_example :
  fst (y_run ex_ops ex_env0 [s "HOME=/root"]) =
  [OStr (s "2=3"); OLook [] true; OLook [] false; OErrNil;
   OStr (s "2=3--$A---$"); OList [s "=x"; s "A=2=3"; s "B="; s "C=D=$A"]; OErrNil;
   OList [s "=x"; s "B="; s "C=D=$A"]; OUnit; OList []; OErrNil; OStr (s "e")].
Proof. vm_compute. reflexivity. Qed.

(* ------------------------------------------------------------------ *)
(** * Imports *)

Lemma y_binpkg_in keys p : In p (y_binpkg keys) -> exists k, In k keys /\ p = path_dir k.
Proof.
  unfold y_binpkg. rewrite in_flat_map. intros [k [Hk Hp]]. exists k. split; [exact Hk|].
  destruct (str_eqb k (s ".")); [destruct Hp|].
  destruct (str_eqb (path_dir k) self_prefix); [destruct Hp|].
  destruct Hp as [<-|[]]. reflexivity.
Qed.

Lemma forbidden_not_bound keys p :
  forbidden_absent keys = true -> In p forbidden -> mem p (y_binpkg keys) = false.
Proof.
  intros Ha Hp. destruct (mem p (y_binpkg keys)) eqn:E; [|reflexivity].
  apply mem_In, y_binpkg_in in E. destruct E as [k [Hk ->]].
  unfold forbidden_absent in Ha. rewrite forallb_forall in Ha. specialize (Ha k Hk).
  apply andb_true_iff in Ha. destruct Ha as [Ha _]. apply negb_true_iff in Ha.
  apply mem_In in Hp. congruence.
Qed.

(** no import form reaches a forbidden package, whatever the symbol table, as long as the table has
    no key for it and no source package of that name exists *)
Theorem import_forms_confined : forall keys src f p,
  forbidden_absent keys = true -> In p forbidden -> src p = false ->
  y_import_ok keys src f p = false.
Proof.
  intros keys src f p Ha Hp Hs.
  pose proof (forbidden_not_bound keys p Ha Hp) as Hb.
  assert (Hnorm : (if str_eqb (path_dir p) (path_base p) then path_base p else p) = p).
  { destruct Hp as [<-|[<-|[<-|[]]]]; vm_compute; reflexivity. }
  unfold y_import_ok. rewrite Hnorm. destruct f; rewrite ?Hb, ?Hs; reflexivity.
Qed.

Definition all_forms : list import_form := [FPlain; FNamed; FDot; FBlank; FImportUsed].
Definition no_src : str -> bool := fun _ => false.

(** the import matrix on a table: forbidden paths fail, every package of the table imports *)
Definition import_matrix_ok (keys : list str) : bool :=
  forallb (fun f => forallb (fun p => negb (y_import_ok keys no_src f p)) forbidden) all_forms
  && forallb (fun f => forallb (fun p => y_import_ok keys no_src f p) (y_binpkg keys)) all_forms.

Lemma forbidden_absent_live : forbidden_absent (t_keys live) = true /\ forbidden_absent (t_keys live_other) = true.
Proof. split; vm_compute; reflexivity. Qed.

Lemma import_matrix_live :
  import_matrix_ok (t_keys live) = true /\ import_matrix_ok (t_keys live_other) = true
  /\ (100 <=? length (y_binpkg (t_keys live))) = true.
Proof. repeat split; vm_compute; reflexivity. Qed.

Lemma keys_generated_live :
  keys_generated (t_keys live) sb_generate_list = true /\ forbidden_absent sb_generate_list = true.
Proof. split; vm_compute; reflexivity. Qed.

Lemma cli_gated_live : cli_gated sb_cli_uses = true /\ (3 <=? length sb_cli_uses) = true.
Proof. split; vm_compute; reflexivity. Qed.

(** the gating lemma is not vacuous: the three opt-in sets do contain forbidden packages *)
Lemma optin_sets_forbidden :
  forbidden_absent sb_unsafe_keys = false /\ forbidden_absent sb_syscall_keys = false
  /\ forbidden_absent sb_unrestricted_keys = false.
Proof. repeat split; vm_compute; reflexivity. Qed.

(* ------------------------------------------------------------------ *)
(** * Exit entry points *)

Definition exit_partial_ok (t : tables) : bool :=
  forallb (fun e => negb (exit_side e) || outcome_eqb (y_exit t e) (g_exit e)) exit_catalogue.

Lemma exit_partial_sound t : exit_partial_ok t = true ->
  forall e, In e exit_catalogue -> exit_side e = true -> y_exit t e = g_exit e.
Proof.
  unfold exit_partial_ok. rewrite forallb_forall. intros H e He Hs.
  specialize (H e He). rewrite Hs in H. simpl in H.
  destruct (y_exit t e), (g_exit e); simpl in H; congruence.
Qed.

Lemma exit_partial_live : exit_partial_ok live = true /\ exit_partial_ok live_other = true.
Proof. split; vm_compute; reflexivity. Qed.

Theorem exit_points_partial : forall e, In e exit_catalogue -> exit_side e = true ->
  y_exit live e = g_exit e /\ y_exit live_other e = g_exit e.
Proof.
  intros e He Hs. destruct exit_partial_live as [H1 H2].
  split; eapply exit_partial_sound; eassumption.
Qed.

Lemma exit_side_inhabited :
  In (EMeth (s "log") (s "New") (s "Fatalf")) exit_catalogue
  /\ exit_side (EMeth (s "log") (s "New") (s "Fatalf")) = true
  /\ y_exit live (EFunc (s "os") (s "Exit")) = Recoverable.
Proof. repeat split; vm_compute; auto 20. Qed.

(** the same entry points when the host loads the binding rows without fixStdlib (an export set
    without "fmt/fmt"): the replacement functions of stdlib/restricted.go alone *)
Lemma exit_partial_nofix : exit_partial_ok (no_fix live) = true /\ exit_partial_ok (no_fix live_other) = true.
Proof. split; vm_compute; reflexivity. Qed.

(** every replacement function of stdlib/restricted.go named Exit/Fatal* panics and ends nothing *)
Definition replacements_panic (t : tables) : bool :=
  forallb (fun '(n, _, cs) =>
    if has_suffix (s "Exit") n || has_suffix (s "Fatal") n || has_suffix (s "Fatalf") n || has_suffix (s "Fatalln") n
    then outcome_eqb (by_callees cs) Recoverable else negb (existsb ends_process cs)) (t_restricted t).

Lemma replacements_panic_live : replacements_panic live = true /\ (7 <=? length (t_restricted live)) = true.
Proof. split; vm_compute; reflexivity. Qed.

Lemma extract_consistent_live : extract_consistent live = true /\ extract_consistent live_other = true.
Proof. split; vm_compute; reflexivity. Qed.

(** Refutation, for every table: a [Default] row bound to the real [log.Default] and not rebound by
    fixStdlib hands the script a real *log.Logger, whose Fatal methods end the host process. *)
Theorem log_default_refuted : forall t rows meth,
  assoc (s "log") (t_bind t) = Some rows ->
  assoc (s "Default") rows = Some (s "log.Default") ->
  fix_row (t_fix t) (s "log") (s "Default") = None ->
  restricted_def t (s "log.Default") = None ->
  In meth [s "Fatal"; s "Fatalf"; s "Fatalln"] ->
  y_exit t (EMeth (s "log") (s "Default") meth) = HostExit
  /\ g_exit (EMeth (s "log") (s "Default") meth) = Recoverable.
Proof.
  intros t rows meth H1 H2 H3 H4 Hm. split; [|reflexivity].
  unfold y_exit, effective. rewrite H1, H3, H2, H4.
  destruct Hm as [<-|[<-|[<-|[]]]]; vm_compute; reflexivity.
Qed.

(** the same for any constructor of the real standard library that returns a *log.Logger or a
    flag set created with ExitOnError *)
Theorem real_ctor_refuted : forall t pkg ctor rows x typ meth,
  assoc pkg (t_bind t) = Some rows -> assoc ctor rows = Some x ->
  fix_row (t_fix t) pkg ctor = None -> restricted_def t x = None ->
  real_result x = Some typ -> real_method typ meth = HostExit ->
  y_exit t (EMeth pkg ctor meth) = HostExit.
Proof.
  intros t pkg ctor rows x typ meth H1 H2 H3 H4 H5 H6.
  unfold y_exit, effective. now rewrite H1, H3, H2, H4, H5.
Qed.

(** the rows of today's source, frozen: witness of the refutation *)
Definition snapshot : tables := {|
  t_keys := [s "log/log"; s "log/slog/slog"; s "flag/flag"];
  t_bind := [(s "log", [(s "Default", s "log.Default"); (s "Fatal", s "logFatal"); (s "New", s "logNew")]);
             (s "log/slog", [(s "NewLogLogger", s "slog.NewLogLogger")]);
             (s "flag", [(s "NewFlagSet", s "flag.NewFlagSet"); (s "Parse", s "flag.Parse");
                         (s "CommandLine", s "&flag.CommandLine")])];
  t_restricted := [(s "logFatal", [], [s "log.Panic"]); (s "logNew", s "*logLogger", [s "log.New"]);
                   (s "logLogger.Fatal", [], [s "l.l.Panic"])];
  t_extract := [s "logFatal"; s "logNew"];
  t_fix := [(s "log", s "Fatal", [], [s "l.Panic"; s "interp.stderr"]);
            (s "flag", s "CommandLine", [], [s "flag.PanicOnError"; s "interp.stderr"])];
  t_builtin := [] |}.

Lemma exit_refuted_snapshot :
  y_exit snapshot (EMeth (s "log") (s "Default") (s "Fatal")) = HostExit
  /\ y_exit snapshot (EMeth (s "log/slog") (s "NewLogLogger") (s "Fatal")) = HostExit
  /\ y_exit snapshot (EMeth (s "flag") (s "NewFlagSet") (s "Parse")) = HostExit
  /\ y_exit snapshot (EFunc (s "flag") (s "Parse")) = HostExit
  /\ y_exit snapshot (EMeth (s "log") (s "New") (s "Fatal")) = Recoverable
  /\ y_exit snapshot (EFunc (s "log") (s "Fatal")) = Recoverable.
Proof. repeat split; vm_compute; reflexivity. Qed.

(* ------------------------------------------------------------------ *)
(** * Redirected I/O *)

Definition io_partial_ok (t : tables) : bool :=
  forallb (fun f => negb (io_side f) || sink_eqb (y_sink t f) (g_sink f)) io_catalogue.

Lemma io_partial_sound t : io_partial_ok t = true ->
  forall f, In f io_catalogue -> io_side f = true -> y_sink t f = g_sink f.
Proof.
  unfold io_partial_ok. rewrite forallb_forall. intros H f Hf Hs.
  specialize (H f Hf). rewrite Hs in H. simpl in H.
  destruct (y_sink t f), (g_sink f); simpl in H; congruence.
Qed.

Lemma io_partial_live : io_partial_ok live = true /\ io_partial_ok live_other = true.
Proof. split; vm_compute; reflexivity. Qed.

Theorem io_redirected_partial : forall f, In f io_catalogue -> io_side f = true ->
  y_sink live f = g_sink f /\ y_sink live_other f = g_sink f.
Proof.
  intros f Hf Hs. destruct io_partial_live as [H1 H2].
  split; eapply io_partial_sound; eassumption.
Qed.

Lemma io_side_inhabited :
  In (IOName (s "fmt") (s "Scanf")) io_catalogue /\ io_side (IOName (s "fmt") (s "Scanf")) = true
  /\ y_sink live (IOName (s "fmt") (s "Scanf")) = OptStdin
  /\ y_sink live (IOBuiltin (s "println")) = OptStdout.
Proof. repeat split; vm_compute; auto 40. Qed.

Lemma env_virtual_live : env_virtual live = true.
Proof. vm_compute. reflexivity. Qed.

(** Refutation, for every table: a package-level function of [flag] bound to the real function and
    not rebound by fixStdlib works on the host's flag.CommandLine and os.Args, not on Options.Args. *)
Theorem flag_parse_refuted : forall t rows name,
  assoc (s "flag") (t_bind t) = Some rows ->
  In name [s "Parse"; s "Args"; s "Bool"] ->
  assoc name rows = Some (s "flag." ++ name) ->
  fix_row (t_fix t) (s "flag") name = None ->
  restricted_def t (s "flag." ++ name) = None ->
  y_sink t (IOName (s "flag") name) = HostArgs /\ g_sink (IOName (s "flag") name) = OptArgs.
Proof.
  intros t rows name H1 Hn H2 H3 H4.
  unfold y_sink, effective. rewrite H1, H3, H2, H4.
  destruct Hn as [<-|[<-|[<-|[]]]]; vm_compute; auto.
Qed.

Lemma io_refuted_snapshot :
  y_sink snapshot (IOName (s "flag") (s "Parse")) = HostArgs
  /\ g_sink (IOName (s "flag") (s "Parse")) = OptArgs
  /\ y_sink snapshot (IOName (s "flag") (s "CommandLine")) = OptStderr.
Proof. repeat split; vm_compute; reflexivity. Qed.

(* ------------------------------------------------------------------ *)
(** * Use: interpreters of one process do not interfere (copying mode) *)

Definition slot_of (st : hstate) (i : N) : option slot := nassoc i (interps st).

Lemma nassoc_nset {A} k k' (v : A) l :
  nassoc k (nset k' v l) = if N.eqb k' k then Some v else nassoc k l.
Proof.
  induction l as [|[k0 v0] l IH]; simpl.
  - reflexivity.
  - destruct (N.eqb_spec k0 k') as [->|Hn]; simpl.
    + destruct (N.eqb k' k); reflexivity.
    + rewrite IH. destruct (N.eqb_spec k0 k) as [->|Hn'].
      * destruct (N.eqb_spec k' k); [congruence|reflexivity].
      * reflexivity.
Qed.

Lemma hstep_glob rows st o : glob (y_hstep true rows st o) = glob st.
Proof.
  destruct o; simpl; try reflexivity.
  destruct (nassoc i (interps st)); [|reflexivity].
  destruct (assoc set (glob st)); reflexivity.
Qed.

Lemma hrun_glob rows ops : forall st, glob (y_hrun true rows st ops) = glob st.
Proof.
  induction ops as [|o r IH]; intros st; simpl; [reflexivity|].
  unfold y_hrun in *. simpl. rewrite IH. apply hstep_glob.
Qed.

Lemma hstep_other rows st o i : owner o <> i -> slot_of (y_hstep true rows st o) i = slot_of st i.
Proof.
  unfold slot_of. destruct o; simpl; intros Hn; try reflexivity.
  - rewrite nassoc_nset. destruct (N.eqb_spec i0 i); [congruence|reflexivity].
  - destruct (nassoc i0 (interps st)); [|reflexivity].
    destruct (assoc set (glob st)); [|reflexivity]. simpl.
    rewrite nassoc_nset. destruct (N.eqb_spec i0 i); [congruence|reflexivity].
Qed.

Lemma hstep_own rows st st' o i :
  glob st = glob st' -> slot_of st i = slot_of st' i -> owner o = i ->
  slot_of (y_hstep true rows st o) i = slot_of (y_hstep true rows st' o) i.
Proof.
  unfold slot_of. intros Hg Hs Ho. destruct o; simpl in *; subst.
  - now rewrite !nassoc_nset, N.eqb_refl.
  - rewrite <- Hg, <- Hs. destruct (nassoc i (interps st)) eqn:E; [|congruence].
    destruct (assoc set (glob st)); [|congruence]. simpl.
    now rewrite !nassoc_nset, N.eqb_refl.
  - exact Hs.
Qed.

Lemma hrun_snoc c rows st ops o : y_hrun c rows st (ops ++ [o]) = y_hstep c rows (y_hrun c rows st ops) o.
Proof. unfold y_hrun. now rewrite fold_left_app. Qed.

(** the slot of interpreter i after any interleaving is its slot after its own operations alone *)
Lemma isolated_slot rows g i pre :
  slot_of (y_hrun true rows (hinit g) pre) i = slot_of (y_hrun true rows (hinit g) (filter (own i) pre)) i.
Proof.
  induction pre as [|o pre IH] using rev_ind; [reflexivity|].
  rewrite filter_app, hrun_snoc. simpl. unfold own at 2.
  destruct (N.eqb_spec (owner o) i) as [Ho|Ho].
  - rewrite hrun_snoc. apply hstep_own; [|exact IH|exact Ho]. now rewrite !hrun_glob.
  - rewrite app_nil_r, hstep_other by exact Ho. exact IH.
Qed.

Lemma view_slot st st' i pkg name :
  slot_of st i = slot_of st' i -> view true st i pkg name = view true st' i pkg name.
Proof. unfold view, slot_of. now intros ->. Qed.

Lemma houts_from rows g ops : forall pre,
  y_houts true rows (y_hrun true rows (hinit g) pre) ops = g_houts rows g pre ops.
Proof.
  induction ops as [|o r IH]; intros pre; simpl; [reflexivity|].
  rewrite <- hrun_snoc, IH. f_equal.
  destruct o; try reflexivity. f_equal. apply view_slot, isolated_slot.
Qed.

(** every interleaving of New / Use / script compilations of any number of interpreters: each script
    resolves what it would resolve if its interpreter were alone, and the global table is untouched *)
Theorem use_isolated : forall rows g ops,
  y_houts true rows (hinit g) ops = g_houts rows g [] ops
  /\ glob (y_hrun true rows (hinit g) ops) = g.
Proof.
  intros rows g ops. split; [apply (houts_from rows g ops [])|apply hrun_glob].
Qed.

Lemma use_copies_live : use_copies = true.
Proof. vm_compute. reflexivity. Qed.

(** non-vacuity, on the regenerated rows: A and B both load stdlib, B (unrestricted) also loads the
    unrestricted set, then a restricted C is created.  Copying: A prints to A, C's os.Exit panics.
    Aliasing (binPkg adopts the caller's map): A prints to B, C gets the real os.Exit, and the global
    table has changed. *)
Definition iso_ops : list hop :=
  [HNew 1 false; HUse 1 (s "stdlib"); HNew 2 true; HUse 2 (s "stdlib"); HUse 2 (s "unrestricted");
   HEval 1 (s "fmt") (s "Println"); HEval 1 (s "os") (s "Getenv");
   HNew 3 false; HUse 3 (s "stdlib"); HEval 3 (s "os") (s "Exit"); HEval 3 (s "fmt") (s "Println");
   HEval 2 (s "os") (s "Exit"); HEval 2 (s "os") (s "Getenv")].

Lemma iso_example :
  map (obs_of live) (y_houts true (t_fix live) (hinit live_gtable) iso_ops)
    = [ROwner 1; ROwner 1; RPanics; ROwner 3; RExits; RHost]
  /\ map (obs_of live) (y_houts false (t_fix live) (hinit live_gtable) iso_ops)
    = [ROwner 2; ROwner 1; RExits; ROwner 3; RExits; ROwner 3]
  /\ gtable_eqb (glob (y_hrun false (t_fix live) (hinit live_gtable) iso_ops)) live_gtable = false
  /\ gtable_eqb (glob (y_hrun true (t_fix live) (hinit live_gtable) iso_ops)) live_gtable = true.
Proof. repeat split; vm_compute; reflexivity. Qed.

(* ------------------------------------------------------------------ *)
(** * Replacement types: an opaque shape closes every route to the real object *)

Lemma assoc_in {A} k (l : list (str * A)) v : assoc k l = Some v -> In (k, v) l.
Proof.
  induction l as [|[k' v'] r IH]; simpl; [discriminate|].
  destruct (str_eqb_spec k' k) as [->|Hn]; [intros H; inversion H; now left|].
  intros H; right; now apply IH.
Qed.

Lemma restricted_def_in t n res cs : restricted_def t n = Some (res, cs) -> In (n, res, cs) (t_restricted t).
Proof.
  unfold restricted_def. intros H. apply assoc_in in H.
  apply in_map_iff in H. destruct H as [[[n' r'] c'] [E Hin]]. inversion E; subst. exact Hin.
Qed.

Lemma by_callees_no_exit cs : existsb ends_process cs = false -> by_callees cs <> HostExit.
Proof. unfold by_callees. intros ->. destruct (existsb panics cs); discriminate. Qed.

Lemma opaque_field_reach fs meth :
  forallb (fun f => negb (f_exp f) && negb (f_emb f)) fs = true ->
  forall f, In f fs -> field_reach f meth = Recoverable /\ f_emb f = false.
Proof.
  rewrite forallb_forall. intros H f Hf. specialize (H f Hf).
  apply andb_true_iff in H. destruct H as [H1 H2]. rewrite negb_true_iff in H1, H2.
  unfold field_reach. now rewrite H1.
Qed.

Lemma find_field_in n fs f : find_field n fs = Some f -> In f fs.
Proof.
  induction fs as [|g r IH]; simpl; [discriminate|].
  destruct (str_eqb (f_name g) n); [intros H; inversion H; now left|]. intros H; right; now apply IH.
Qed.

(** For every table, every replacement type of opaque shape, every route (any field name, any field
    index) and every method: the call does not end the host. *)
Theorem routes_confined : forall t ty fs r meth,
  type_opaque t ty fs = true -> y_route t ty fs r meth <> HostExit.
Proof.
  intros t ty fs r meth Ho. unfold type_opaque in Ho. apply andb_true_iff in Ho. destruct Ho as [Hf Hm].
  pose proof (opaque_field_reach fs meth Hf) as Hfr.
  assert (Hw : y_wrapper t ty fs meth <> HostExit).
  { unfold y_wrapper. destruct (restricted_def t (ty ++ s "." ++ meth)) as [[res cs]|] eqn:E.
    - apply restricted_def_in in E. rewrite forallb_forall in Hm.
      assert (K : ty ++ s "." ++ meth = (ty ++ s ".") ++ meth) by (now rewrite <- app_assoc).
      rewrite K in E. specialize (Hm _ E). cbv beta iota zeta in Hm.
      rewrite has_prefix_app in Hm. apply andb_true_iff in Hm. destruct Hm as [_ Hm].
      apply by_callees_no_exit. now apply negb_true_iff.
    - unfold promoted.
      assert (Hx : existsb (fun f => f_emb f && outcome_eqb (real_method (f_typ f) meth) HostExit) fs = false).
      { apply not_true_is_false. intros Hx. apply existsb_exists in Hx. destruct Hx as [f [Hin Hx]].
        destruct (Hfr f Hin) as [_ He]. rewrite He in Hx. discriminate. }
      rewrite Hx. discriminate. }
  destruct r; simpl; try exact Hw; try discriminate.
  - destruct (find_field name fs) eqn:E; [|discriminate].
    apply find_field_in in E. destruct (Hfr _ E) as [-> _]. discriminate.
  - destruct (nth_error fs idx) eqn:E; [|discriminate].
    apply nth_error_In in E. destruct (Hfr _ E) as [-> _]. discriminate.
  - destruct (find_field name fs) eqn:E; [|discriminate].
    apply find_field_in in E. destruct (Hfr _ E) as [-> _]. discriminate.
  - assert (Hx : existsb (fun f => outcome_eqb (field_reach f meth) HostExit) fs = false).
    { apply not_true_is_false. intros Hx. apply existsb_exists in Hx. destruct Hx as [f [Hin Hx]].
      destruct (Hfr f Hin) as [Hr _]. rewrite Hr in Hx. discriminate. }
    rewrite Hx. destruct fs; discriminate.
Qed.

Lemma replacements_opaque_live :
  replacements_opaque live sb_restricted_types = true /\ replacements_opaque live_other sb_restricted_types = true
  /\ (1 <=? length sb_restricted_types) = true /\ (1 <=? length (guarded_reals live sb_restricted_types)) = true.
Proof. repeat split; vm_compute; reflexivity. Qed.

(** an embedded (hence exported) real logger with only the Fatal overrides: opaque fails, and the
    field routes reach the real Fatal *)
Definition embedded_shape : list rfield := [(s "Logger", true, true, s "*log.Logger")].
Lemma embedded_refuted :
  type_opaque snapshot (s "logLogger") embedded_shape = false
  /\ y_route snapshot (s "logLogger") embedded_shape (RFieldSel (s "Logger")) (s "Fatalln") = HostExit
  /\ y_route snapshot (s "logLogger") embedded_shape (RReflField 0) (s "Fatal") = HostExit
  /\ y_route snapshot (s "logLogger") embedded_shape RDirect (s "Fatal") = Recoverable
  /\ y_route snapshot (s "logLogger") [(s "l", false, false, s "*log.Logger")] (RFieldSel (s "l")) (s "Fatal") = Recoverable.
Proof. repeat split; vm_compute; reflexivity. Qed.

(* ------------------------------------------------------------------ *)
(** * print builtins: no host stream in any branch of the generators *)
Lemma builtins_host_free_live : builtins_host_free live = true.
Proof. vm_compute. reflexivity. Qed.

Lemma builtins_host_free_refuted :
  builtins_host_free {| t_keys := []; t_bind := []; t_restricted := []; t_extract := []; t_fix := [];
                        t_builtin := [(s "print", [s "fmt.Fprintf"; s "n.interp.stdout"; s "fmt.Print"]);
                                      (s "println", [s "fmt.Fprintf"; s "n.interp.stdout"])] |} = false.
Proof. vm_compute. reflexivity. Qed.

(* ------------------------------------------------------------------ *)
(** * closed world of the replacements; environment defaults of the command *)
Lemma replacements_closed_live : replacements_closed live = true.
Proof. vm_compute. reflexivity. Qed.

Lemma cli_defaults_live : cli_defaults_parsebool sb_cli_env_defaults = true.
Proof. vm_compute. reflexivity. Qed.

(** whatever the value of the variable and the flag: with ParseBool defaults the command opens the
    sandbox exactly when the contract says *)
Lemma cli_on_agrees rows value flagv :
  cli_defaults_parsebool rows = true -> y_cli_on rows value flagv = g_cli_on value flagv.
Proof. unfold y_cli_on, g_cli_on. intros ->. reflexivity. Qed.
