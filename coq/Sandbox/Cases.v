(** Evaluation of the C13 models on the cases written by the harness (correspondence check).
    [*_y]: ids of the cases where the implementation's observed answer differs from Y;
    [*_g]: ids of the cases where the reference's answer differs from G. *)
From Verif Require Import Lib.Str Sandbox.Model.
From Verif Require Import gen.SandboxTables_gen.

Fixpoint list_eqb {A} (e : A -> A -> bool) (a b : list A) : bool :=
  match a, b with
  | [], [] => true
  | x :: a', y :: b' => e x y && list_eqb e a' b'
  | _, _ => false
  end.

Definition out_eqb (a b : out) : bool :=
  match a, b with
  | OStr x, OStr y => str_eqb x y
  | OLook x bx, OLook y by' => str_eqb x y && Bool.eqb bx by'
  | OErrNil, OErrNil => true
  | OUnit, OUnit => true
  | OList x, OList y => list_eqb str_eqb x y
  | _, _ => false
  end.

(** environment sequences: Options.Env, operations, outputs observed from yaegi, outputs of the reference map *)
Definition env_case := (N * list str * list op * list out * list out)%type.
Definition env_mis_y (cs : list env_case) : list N :=
  flat_map (fun '(id, env0, ops, impl, _) =>
    if list_eqb out_eqb (fst (y_run ops env0 [])) impl then [] else [id]) cs.
Definition env_mis_g (cs : list env_case) : list N :=
  flat_map (fun '(id, env0, ops, _, ref) =>
    if list_eqb out_eqb (fst (g_run ops env0 [])) ref then [] else [id]) cs.

(** the keys of stdlib.Symbols at run time against the table regenerated from the source text *)
Definition keys_case := (N * list str)%type.
Definition keys_mis_y (cs : list keys_case) : list N :=
  flat_map (fun '(id, ks) => if list_eqb str_eqb ks (t_keys live) then [] else [id]) cs.
Definition keys_mis_g (cs : list keys_case) : list N := [].

(** import matrix: form, path, did the import (and a use) succeed / should it *)
Definition import_case := (N * import_form * str * bool * bool)%type.
Definition import_mis_y (cs : list import_case) : list N :=
  flat_map (fun '(id, f, p, impl, _) =>
    if Bool.eqb (y_import_ok (t_keys live) (fun _ => false) f p) impl then [] else [id]) cs.
Definition import_mis_g (cs : list import_case) : list N :=
  flat_map (fun '(id, _, p, _, ref) => if Bool.eqb (g_import_ok p) ref then [] else [id]) cs.

(** exit entry points: was fixStdlib applied, entry point, outcome observed in a child process, contract *)
Definition exit_case := (N * bool * entry * outcome * outcome)%type.
Definition exit_mis_y (cs : list exit_case) : list N :=
  flat_map (fun c : exit_case => let '(id, fx, e, impl, _) := c in
    if outcome_eqb (y_exit (if (fx : bool) then live else no_fix live) e) impl then [] else [id]) cs.
Definition exit_mis_g (cs : list exit_case) : list N :=
  flat_map (fun '(id, _, e, _, ref) => if outcome_eqb (g_exit e) ref then [] else [id]) cs.

(** redirected I/O: function, where it was observed to read/write, contract *)
Definition io_case := (N * iofn * sink * sink)%type.
Definition io_mis_y (cs : list io_case) : list N :=
  flat_map (fun '(id, f, impl, _) => if sink_eqb (y_sink live f) impl then [] else [id]) cs.
Definition io_mis_g (cs : list io_case) : list N :=
  flat_map (fun '(id, f, _, ref) => if sink_eqb (g_sink f) ref then [] else [id]) cs.

(** several interpreters in one process: operations, what each script was observed to reach, the
    "interpreter alone" reference, and whether stdlib.Symbols / unrestricted.Symbols were still
    what they were when the process started *)
Definition iso_case := (N * list hop * list robs * list robs * bool)%type.
Definition iso_mis_y (cs : list iso_case) : list N :=
  flat_map (fun c : iso_case => let '(id, ops, impl, _, gsame) := c in
    let st := hinit live_gtable in
    if list_eqb robs_eqb (map (obs_of live) (y_houts use_copies (t_fix live) st ops)) impl
       && Bool.eqb (gtable_eqb (glob (y_hrun use_copies (t_fix live) st ops)) live_gtable) gsame
    then [] else [id]) cs.
Definition iso_mis_g (cs : list iso_case) : list N :=
  flat_map (fun c : iso_case => let '(id, ops, _, ref, _) := c in
    if list_eqb robs_eqb (map (obs_of live) (g_houts (t_fix live) live_gtable [] ops)) ref then [] else [id]) cs.

(** shape of a replacement type as reflect sees it at run time, against the regenerated table *)
Definition shape_case := (N * str * list rfield)%type.
Definition rfield_eqb (a b : rfield) : bool :=
  str_eqb (f_name a) (f_name b) && Bool.eqb (f_emb a) (f_emb b) && Bool.eqb (f_exp a) (f_exp b) && str_eqb (f_typ a) (f_typ b).
Definition shape_mis_y (cs : list shape_case) : list N :=
  flat_map (fun c : shape_case => let '(id, ty, fs) := c in
    match assoc ty sb_restricted_types with
    | Some fs' => if list_eqb rfield_eqb fs fs' then [] else [id]
    | None => [id]
    end) cs.
Definition shape_mis_g (cs : list shape_case) : list N := [].

(** routes from a replacement value to an exit-like method: type, route, method, outcome observed in a
    child process, did the host survive according to the reference (always) *)
Definition route_case := (N * str * route * str * outcome * bool)%type.
Definition route_mis_y (cs : list route_case) : list N :=
  flat_map (fun c : route_case => let '(id, ty, r, m, impl, _) := c in
    if outcome_eqb (y_route live ty (or_nil (assoc ty sb_restricted_types)) r m) impl then [] else [id]) cs.
Definition route_mis_g (cs : list route_case) : list N :=
  flat_map (fun c : route_case => let '(id, _, _, _, _, ref) := c in
    if Bool.eqb g_route_confined ref then [] else [id]) cs.

(** the yaegi command: value of the YAEGI_* variable (None = unset), explicit flag, was the opt-in set loaded *)
Definition cli_case := (N * option str * option bool * bool * bool)%type.
Definition cli_mis_y (cs : list cli_case) : list N :=
  flat_map (fun c : cli_case => let '(id, v, f, impl, _) := c in
    if Bool.eqb (y_cli_on sb_cli_env_defaults v f) impl then [] else [id]) cs.
Definition cli_mis_g (cs : list cli_case) : list N :=
  flat_map (fun c : cli_case => let '(id, v, f, _, ref) := c in
    if Bool.eqb (g_cli_on v f) ref then [] else [id]) cs.
