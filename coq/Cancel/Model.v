(** C09 / C10 — the run-id gate of yaegi as a state machine (definitions only, no proofs).

    Y (mechanism, transcribed from interp/interp.go [EvalWithContext], [stop], [runid], [newFrame],
    [frame.clone]; interp/program.go [Execute]; interp/run.go [Interpreter.run], [runCfg], [call],
    [genFunctionWrapper], [getFunc], [send]/[recv]/[recv2]/[rangeChan]/[_select]):

    - the interpreter carries a generation counter [iid] (bumped by [stop]) and the current
      cancellation channel [idone] (a fresh one per [*WithContext] call, closed by [stop]);
    - every frame carries the generation and the cancellation channel it was created with
      ([newFrame(anc, n, id)] copies [anc.done]); the root frame's generation is overwritten by
      every [Execute] ([interp.frame.setrunid(interp.runid())]) and its channel by every phase
      ([Interpreter.run]);
    - [runCfg] executes one operation at a time while [f.runid() == interp.runid()]; the check and
      the operation are two separate moments (the step hook of the harness sits between them), so a
      thread is either [armed] (check passed, operation in flight) or not;
    - callee and goroutine frames inherit generation and channel of the caller's frame ([call]);
      a function literal clones the frame it is created in ([getFunc]: [fr := f.clone()]) and every
      later call of it starts from the clone; a wrapper handed to the host ([genFunctionWrapper],
      for results of [Eval(name)] and [Symbols]) starts from the root frame as it is at call time;
    - [Execute] runs phases: root statements and package variables in the root frame, then each init
      function and [main] in a new frame created with the generation of the root frame, which
      [Execute] set when it started ([interp.run(n, interp.frame)] -> [newFrame(cf, ..., cf.runid())];
      before the repair of the init-list defect it was the interpreter's CURRENT generation);
    - a blocking channel operation selects on the frame's cancellation channel and ends the
      activation ([return nil]) when it is closed, if the operation was generated cancellable.

    Programs are abstract: a table [F] of function bodies over the instructions below. Data is not
    modelled; whatever depends on data (branches, readiness of channels) is decided by an oracle bit
    supplied with every scheduling decision, so the theorems quantify over all data and all
    channel behaviours as well as over all schedules.

    G (contract): after [stop] every thread performs at most one more operation and then exits
    (C09); a use of an earlier definition yields the operations it yielded before any cancellation
    (C10). G is stated in Props/C09.v, Props/C10.v and Cases.v. *)
From Coq Require Export Bool Arith Lia List NArith.
Export ListNotations.
Open Scope list_scope.

Record frame := mkFrame { fid : nat; fdone : nat }.

Inductive fref := FRoot | FOwn (fr : frame).

Inductive instr :=
| Tick (n : nat)        (* call of a host function with a visible effect *)
| Nop                   (* any other non-blocking operation *)
| Call (f : nat)        (* call of a named interpreted function or method *)
| Go (f : nat)          (* go f() *)
| MkClos (c f : nat)    (* variable c := func literal with body F[f] (getFunc: clones the frame) *)
| CallClos (c : nat)    (* call through the function value held by variable c *)
| GoClos (c : nat)
| Block (canc : bool)   (* channel operation / host call that blocks until the oracle says ready;
                           canc = generated with interp.cancelChan (selects on the frame's done) *)
| Jmp (pc : nat)
| Br (pc : nat)         (* data-dependent branch: oracle bit true -> pc, false -> next *)
| Ret.

(** phases of [Execute]: [PRoot f] runs F[f] in the root frame (root statements, package variables);
    [PFun f] runs F[f] in a new frame (init functions, main). *)
Inductive phase := PRoot (f : nat) | PFun (f : nat).

Record act := mkAct { afr : fref; afn : nat; apc : nat }.

Record thread := mkThread { stack : list act; armed : bool; phases : list phase }.

(** log entry: (thread, Some n) = Tick n executed, (thread, None) = another operation executed *)
Definition event := (nat * option nat)%type.

Record state := mkState {
  iid : nat;                 (* Interpreter.id *)
  idone : nat;               (* Interpreter.done; 0 = the nil channel of an interpreter never used with a context *)
  closed : list nat;         (* closed cancellation channels *)
  rootid : nat;              (* interp.frame.id *)
  rootdone : nat;            (* interp.frame.done *)
  clos : list (nat * (nat * frame));   (* function values: variable -> (body, cloned frame) *)
  threads : list thread;
  log : list event }.

Definition fresh : state := mkState 0 0 [] 0 0 [] [] [].

Inductive action :=
| AStep (t : nat) (b : bool)   (* schedule thread t for one micro-step; b = oracle bit *)
| ABegin                       (* entry of EvalWithContext / ExecuteWithContext / EvalPathWithContext *)
| AStop                        (* the context watcher calls stop() *)
| AExecute (p : list phase)    (* Execute(program) *)
| AHostCall (f : nat)          (* the host calls a wrapper generated on the root frame *)
| AHostClos (c : nat).         (* the host calls a function value created by a function literal *)

Fixpoint upd {A} (n : nat) (x : A) (l : list A) : list A :=
  match l, n with
  | [], _ => []
  | _ :: l', O => x :: l'
  | y :: l', S n' => y :: upd n' x l'
  end.

Fixpoint lookup {A} (c : nat) (l : list (nat * A)) : option A :=
  match l with
  | [] => None
  | (k, v) :: l' => if k =? c then Some v else lookup c l'
  end.

Fixpoint memn (x : nat) (l : list nat) : bool :=
  match l with [] => false | y :: l' => (y =? x) || memn x l' end.

Section Machine.
Variable F : list (list instr).

Definition body (f : nat) : list instr := nth f F [].
Definition fetch (a : act) : option instr := nth_error (body (afn a)) (apc a).

Definition frame_id (st : state) (r : fref) : nat :=
  match r with FRoot => rootid st | FOwn fr => fid fr end.
Definition frame_done (st : state) (r : fref) : nat :=
  match r with FRoot => rootdone st | FOwn fr => fdone fr end.
(** newFrame(f, n, f.runid()) / f.clone(): a new frame object with the current values of f *)
Definition copy_frame (st : state) (r : fref) : frame := mkFrame (frame_id st r) (frame_done st r).

Definition set_threads (st : state) (ts : list thread) : state :=
  mkState (iid st) (idone st) (closed st) (rootid st) (rootdone st) (clos st) ts (log st).
Definition add_log (st : state) (e : event) : state :=
  mkState (iid st) (idone st) (closed st) (rootid st) (rootdone st) (clos st) (threads st) (e :: log st).
Definition set_clos (st : state) (c : list (nat * (nat * frame))) : state :=
  mkState (iid st) (idone st) (closed st) (rootid st) (rootdone st) c (threads st) (log st).
Definition set_rootdone (st : state) (d : nat) : state :=
  mkState (iid st) (idone st) (closed st) (rootid st) d (clos st) (threads st) (log st).

Definition set_thread (st : state) (t : nat) (th : thread) : state :=
  set_threads st (upd t th (threads st)).
Definition spawn (st : state) (a : act) : state :=
  set_threads st (threads st ++ [mkThread [a] false []]).

Definition next (a : act) : act := mkAct (afr a) (afn a) (S (apc a)).
Definition goto (a : act) (pc : nat) : act := mkAct (afr a) (afn a) pc.

(** Interpreter.run(n, cf): cf == nil -> the root frame; else newFrame(cf, ..., cf.runid()) with
    cf = the root frame; in both cases f.done = interp.done. *)
Definition start_phase (st : state) (t : nat) (ph : phase) (rest : list phase) : state :=
  match ph with
  | PRoot f => set_thread (set_rootdone st (idone st)) t (mkThread [mkAct FRoot f 0] false rest)
  | PFun f => set_thread st t (mkThread [mkAct (FOwn (mkFrame (rootid st) (idone st))) f 0] false rest)
  end.

(** the operation in flight is executed (the gate was passed before) *)
Definition exec (st : state) (t : nat) (b : bool) (a : act) (stk : list act) (ph : list phase) (i : instr) : state :=
  let cont := fun (s : list act) => mkThread s false ph in
  let adv := next a :: stk in
  match i with
  | Tick n => set_thread (add_log st (t, Some n)) t (cont adv)
  | Nop => set_thread (add_log st (t, None)) t (cont adv)
  | Call f => set_thread (add_log st (t, None)) t (cont (mkAct (FOwn (copy_frame st (afr a))) f 0 :: adv))
  | Go f => spawn (set_thread (add_log st (t, None)) t (cont adv)) (mkAct (FOwn (copy_frame st (afr a))) f 0)
  | MkClos c f =>
      set_thread (set_clos (add_log st (t, None)) ((c, (f, copy_frame st (afr a))) :: clos st)) t (cont adv)
  | CallClos c =>
      match lookup c (clos st) with
      | Some (f, fr) => set_thread (add_log st (t, None)) t (cont (mkAct (FOwn fr) f 0 :: adv))
      | None => set_thread (add_log st (t, None)) t (cont adv)
      end
  | GoClos c =>
      match lookup c (clos st) with
      | Some (f, fr) => spawn (set_thread (add_log st (t, None)) t (cont adv)) (mkAct (FOwn fr) f 0)
      | None => set_thread (add_log st (t, None)) t (cont adv)
      end
  | Block canc =>
      if b then set_thread (add_log st (t, None)) t (cont adv)
      else if canc && memn (frame_done st (afr a)) (closed st)
           then set_thread (add_log st (t, None)) t (cont stk)       (* return nil: the activation ends *)
           else st                                                  (* still blocked *)
  | Jmp pc => set_thread (add_log st (t, None)) t (cont (goto a pc :: stk))
  | Br pc => set_thread (add_log st (t, None)) t (cont ((if b then goto a pc else next a) :: stk))
  | Ret => set_thread (add_log st (t, None)) t (cont stk)
  end.

(** one scheduling decision for thread t: runCfg's loop
      for exec != nil && f.runid() == interp.runid() { hook; exec = exec(f) } *)
Definition step (st : state) (t : nat) (b : bool) : state :=
  match nth_error (threads st) t with
  | None => st
  | Some th =>
      match stack th with
      | [] => match phases th with
              | [] => st                                 (* the goroutine has exited *)
              | ph :: rest => start_phase st t ph rest
              end
      | a :: stk =>
          match fetch a with
          | None => set_thread st t (mkThread stk false (phases th))            (* exec == nil *)
          | Some i =>
              if armed th then exec st t b a stk (phases th) i
              else if frame_id st (afr a) =? iid st
                   then set_thread st t (mkThread (a :: stk) true (phases th))  (* gate passed *)
                   else set_thread st t (mkThread stk false (phases th))        (* gate failed: runCfg returns *)
          end
      end
  end.

Definition do_action (st : state) (a : action) : state :=
  match a with
  | AStep t b => step st t b
  | ABegin => mkState (iid st) (S (idone st)) (closed st) (rootid st) (rootdone st) (clos st) (threads st) (log st)
  | AStop => mkState (S (iid st)) (idone st) (idone st :: closed st) (rootid st) (rootdone st) (clos st) (threads st) (log st)
  | AExecute p =>
      mkState (iid st) (idone st) (closed st) (iid st) (rootdone st) (clos st)
              (threads st ++ [mkThread [] false p]) (log st)
  | AHostCall f => spawn st (mkAct (FOwn (mkFrame (rootid st) (rootdone st))) f 0)
  | AHostClos c =>
      match lookup c (clos st) with
      | Some (f, fr) => spawn st (mkAct (FOwn fr) f 0)
      | None => st
      end
  end.

Definition run (st : state) (h : list action) : state := fold_left do_action h st.

Definition steps (st : state) (sched : list (nat * bool)) : state :=
  fold_left (fun s tb => step s (fst tb) (snd tb)) sched st.

(** thread t alone, one oracle bit per step *)
Definition solo (st : state) (t : nat) (bs : list bool) : state :=
  fold_left (fun s b => step s t b) bs st.

(** ---------------------------------------------------------------- observations *)

Definition evs (u : nat) (l : list event) : nat :=
  List.length (filter (fun e => fst e =? u) l).
Definition is_tick (e : event) : bool := match snd e with Some _ => true | None => false end.
Definition tks (u : nat) (l : list event) : nat :=
  List.length (filter (fun e => (fst e =? u) && is_tick e) l).
Definition out (st : state) : list (option nat) := map snd (log st).

Definition thread_of (st : state) (u : nat) : thread :=
  nth u (threads st) (mkThread [] false []).
Definition exited (st : state) (u : nat) : bool :=
  match stack (thread_of st u), phases (thread_of st u) with [], [] => true | _, _ => false end.

(** no init function / main is waiting to be started (the side condition C09_gate_partial needed
    before the repair of the init-list defect; kept to describe the regression witness) *)
Definition no_pending (st : state) : bool :=
  forallb (fun th => match phases th with [] => true | _ => false end) (threads st).

(** thread u sits in a blocking operation that cannot see this cancellation: generated
    non-cancellable (a host call such as WaitGroup.Wait, or a channel operation generated before
    the interpreter was ever used with a context), or its frame carries another evaluation's
    cancellation channel (function literals created by an earlier evaluation). *)
Definition stuck (st : state) (u : nat) : bool :=
  let th := thread_of st u in
  match stack th with
  | a :: _ =>
      armed th &&
      match fetch a with
      | Some (Block canc) => negb (canc && memn (frame_done st (afr a)) (closed st))
      | _ => false
      end
  | [] => false
  end.

Definition measure (st : state) (u : nat) : nat :=
  let th := thread_of st u in
  match stack th with
  | [] => 2 * List.length (phases th)
  | _ => List.length (stack th) + 2 * List.length (phases th) + (if armed th then 2 else 0)
  end.

Definition occ (u : nat) (sched : list (nat * bool)) : nat :=
  List.length (filter (fun tb => fst tb =? u) sched).

(** fragment of function bodies used by C10_named_partial: named functions and methods that
    compute, call each other, branch, loop and start goroutines (no function values, nothing
    blocking); S = the set of functions reachable from the use *)
Definition basic_instr (S : list nat) (i : instr) : bool :=
  match i with
  | Tick _ | Nop | Jmp _ | Br _ | Ret => true
  | Call f | Go f => memn f S
  | _ => false
  end.
Definition basic_set (S : list nat) : bool :=
  forallb (fun f => forallb (basic_instr S) (body f)) S.


(** G for C10: what a use does when no evaluation was ever cancelled — the same loop without
    the generation check, on threads stripped of their frames. (The [armed] flag only keeps G in
    lockstep with the two micro-steps of Y; it decides nothing.) *)
Definition gthread := (list (nat * nat) * bool * list phase)%type.

Definition gstep (g : gthread) (b : bool) : gthread * list (option nat) :=
  let '(stk, ar, ph) := g in
  match stk with
  | [] => match ph with
          | [] => (g, [])
          | PRoot f :: rest | PFun f :: rest => (([(f, 0)], false, rest), [])
          end
  | (f, pc) :: stk' =>
      match nth_error (body f) pc with
      | None => ((stk', false, ph), [])
      | Some i =>
          if ar then
            match i with
            | Tick n => (((f, S pc) :: stk', false, ph), [Some n])
            | Nop | Go _ => (((f, S pc) :: stk', false, ph), [None])
            | Call f' => (((f', 0) :: (f, S pc) :: stk', false, ph), [None])
            | Jmp pc' => (((f, pc') :: stk', false, ph), [None])
            | Br pc' => (((f, if b then pc' else S pc) :: stk', false, ph), [None])
            | Ret => ((stk', false, ph), [None])
            | _ => (g, [])
            end
          else ((stk, true, ph), [])
      end
  end.

(** outputs, most recent first (the order of [log]) *)
Fixpoint grun (g : gthread) (bs : list bool) : list (option nat) :=
  match bs with
  | [] => []
  | b :: bs' => grun (fst (gstep g b)) bs' ++ snd (gstep g b)
  end.

Definition erase (th : thread) : gthread :=
  (map (fun a => (afn a, apc a)) (stack th), armed th, phases th).

Definition phase_fn (ph : phase) : nat := match ph with PRoot f | PFun f => f end.

End Machine.

(** ---------------------------------------------------------------- witnesses and sessions *)

(** EvalWithContext(ctx, program with phases p) on a fresh interpreter: thread 0 is the Execute thread *)
Definition session (p : list phase) : list action := [ABegin; AExecute p].

Definition alone (t n : nat) : list action := repeat (AStep t false) n.

(** C09 init-list witness: func init() { for { tick(1) } }; func init() { tick(2); tick(2) };
    func main() { tick(3); tick(3); tick(3) } *)
Definition F_init : list (list instr) :=
  [ [];                                  (* 0: root statements: none *)
    [Tick 1; Jmp 0];                     (* 1: first init *)
    [Tick 2; Tick 2];                    (* 2: second init *)
    [Tick 3; Tick 3; Tick 3] ].          (* 3: main *)
Definition P_init : list phase := [PRoot 0; PFun 1; PFun 2; PFun 3].
Definition H_init : list action := session P_init ++ alone 0 8.

(** the same program without the pending functions: only main, looping *)
Definition P_main_only : list phase := [PRoot 0; PFun 1].

(** C09 root-frame witness (REPL style): top-level statements tick(1); ...; tick(6), cancelled
    after two of them; the host then evaluates "1+1" before the old goroutine is scheduled again *)
Definition F_root : list (list instr) :=
  [ [Tick 1; Tick 2; Tick 3; Tick 4; Tick 5; Tick 6];    (* 0: top-level statements *)
    [Nop] ].                                             (* 1: the expression 1+1 *)
Definition H_root : list action := session [PRoot 0] ++ alone 0 6.
Definition H_root_next : list action := [AStop; AExecute [PRoot 1]] ++ alone 1 4 ++ alone 0 20.

(** C09 expired-context witness: stop() runs before Execute has refreshed the root frame *)
Definition H_expired : list action := [ABegin; AStop; AExecute [PRoot 0]] ++ alone 0 20.

(** C09 stale-channel witness: a function literal created by one evaluation and blocked in a
    channel receive during the next one keeps the first evaluation's cancellation channel *)
Definition F_stale : list (list instr) :=
  [ [MkClos 0 1];          (* 0: var blk = func() { <-ch } *)
    [Block true];          (* 1: body of blk *)
    [CallClos 0] ].        (* 2: blk() *)
Definition H_stale : list action :=
  session [PRoot 0] ++ alone 0 6 ++ session [PRoot 2] ++ alone 1 8.

(** C10 table: earlier definitions and the expressions using them *)
Definition F10 : list (list instr) :=
  [ [Tick 10; Ret];        (* 0: func f *)
    [Tick 11; Ret];        (* 1: method T.M *)
    [Tick 12; Ret];        (* 2: body of the function literal stored in clo *)
    [Tick 13; Ret];        (* 3: method behind the method value mv *)
    [Call 0];              (* 4: f(2) *)
    [Call 1];              (* 5: t0.M(2) *)
    [CallClos 0];          (* 6: clo(2) *)
    [Call 3];              (* 7: mv(2) *)
    [MkClos 0 2];          (* 8: clo = func ... *)
    [Nop; Jmp 0];          (* 9: for {} *)
    [Go 11; Block true];   (* 10: go func() { <-ch }(); <-ch *)
    [Block true];          (* 11 *)
    [Nop];                 (* 12: 1+1 *)
    [Tick 14; Block true; Tick 15; Ret];   (* 13: func cc: tick, rendez-vous on a channel, tick *)
    [Call 13] ].           (* 14: cc() *)

(** ---------------------------------------------------------------- the contracts (G), as stated *)

(** thread u sits in a blocking host call (sync.WaitGroup.Wait, Mutex.Lock, ...): outside C09 *)
Definition in_host_call (F : list (list instr)) (st : state) (u : nat) : bool :=
  let th := thread_of st u in
  match stack th with
  | a :: _ => armed th && match fetch F a with Some (Block false) => true | _ => false end
  | [] => false
  end.

(** C09 as stated: in every reachable state, after stop() and under every schedule and all data,
    every thread performs at most one more operation, and — unless it sits in a host call — exits
    once it has been scheduled often enough *)
Definition C09_contract : Prop :=
  forall F h sched u,
    let s1 := run F fresh h in
    let s2 := steps F (do_action F s1 AStop) sched in
    evs u (log s2) <= evs u (log s1) + 1
    /\ (forall th, nth_error (threads s1) u = Some th -> in_host_call F s1 u = false ->
          List.length (stack th) + 2 * List.length (phases th) + 2 <= occ u sched -> exited s2 u = true).

(** "from then on": also when the host goes on using the interpreter *)
Definition C09_contract_session : Prop :=
  forall F h h' u,
    let s1 := run F fresh h in
    u < List.length (threads s1) ->
    evs u (log (run F s1 (AStop :: h'))) <= evs u (log s1) + 1.

(** ---------------------------------------------------------------- when is a blocking operation cancellable?
    (interp/run.go send, recv, recv2 against rangeChan, _select.) [interp.cancelChan] is false on a
    new interpreter and set by every [*WithContext] entry ([Begin]); it is never reset. The
    generators of send, receive and two-value receive read it when the code is GENERATED (genRun,
    at the Execute / import that loads the code) and then emit either the cancellable form
    (select on the frame's done) or the plain blocking one; range over a channel and select always
    select on done. So the [canc] flag of a [Block] is fixed by the session prefix up to and
    including the evaluation that loaded the code. *)
Inductive construct := KSend | KRecv | KRecv2 | KRange | KSelect.

Definition begun (h : list action) : bool :=
  existsb (fun a => match a with ABegin => true | _ => false end) h.

Definition gen_canc (c : construct) (cancel_chan : bool) : bool :=
  match c with
  | KRange | KSelect => true
  | KSend | KRecv | KRecv2 => cancel_chan
  end.

(** ---------------------------------------------------------------- state generated per statement
    (interp/run.go _select). The case vector of a select statement is built once, when the code of
    the statement is generated; every execution copies it and writes the EXECUTING frame's
    cancellation case into its copy: nothing an execution does is kept by the statement. That is
    what [exec] above transcribes for every blocking operation ([Block] reads [frame_done] of the
    executing frame), and what C10_named_partial and the history model rest on: the behaviour of
    a definition does not depend on which evaluation executed it first. The parameter [once]
    describes the other design (the cancellation case captured at the statement's first execution,
    e.g. under a sync.Once): it is NOT the implementation; it is here so that the dependence is
    stated, and the correspondence exercises it (definitions first executed inside the evaluation
    that is cancelled, then used again). C08's translator tr-capture lists the writes a generated
    closure makes to captured variables; such a capture adds a row for _select there. *)
Record sel_stmt := mkSel { sel_done : option nat }.

(** one execution in a frame whose cancellation channel is [d]: the statement afterwards, and the
    channel the execution selects on *)
Definition sel_exec (once : bool) (s : sel_stmt) (d : nat) : sel_stmt * nat :=
  if once then
    match sel_done s with
    | Some d0 => (s, d0)
    | None => (mkSel (Some d), d)
    end
  else (s, d).

Fixpoint sel_run (once : bool) (s : sel_stmt) (ds : list nat) : list nat :=
  match ds with
  | [] => []
  | d :: ds' => snd (sel_exec once s d) :: sel_run once (fst (sel_exec once s d)) ds'
  end.

(** ---------------------------------------------------------------- the frame slot of a function literal
    (interp/run.go getFunc, as repaired by abe7a69). A function literal has one frame slot.
    Executing the literal stores the new function value there (the clone kept by the value has that
    slot cleared); nothing is written back when a call of the value returns. A statement
    [go func(...) {...}(...)] in a loop executes the literal and then calls what the slot holds.
    Before the repair a returning call set the slot back to what it held when the literal was
    executed — in the end the nil function — and after a cancellation, when every running call
    returns at once, the [go] statement in flight could find the nil function there: the new
    goroutine panicked (reflect.Value.Call: call of nil function) and the host process died. *)
Inductive sev :=
| SLit (g : nat)    (* the loop executes the literal: value number g *)
| SGo               (* the loop executes the go statement *)
| SRet (g : nat).   (* a call of value g returns *)

Record slot_state := mkSlot {
  slot : option nat;                    (* None = nil function *)
  started : list nat;                   (* values called by go statements, latest first *)
  crashed : bool }.                     (* a go statement called the nil function *)

Definition slot_step (s : slot_state) (e : sev) : slot_state :=
  match e with
  | SLit g => mkSlot (Some g) (started s) (crashed s)
  | SGo => match slot s with
           | Some g => mkSlot (slot s) (g :: started s) (crashed s)
           | None => mkSlot (slot s) (started s) true
           end
  | SRet _ => s                         (* no write-back *)
  end.

Definition slot_run (l : list sev) : slot_state := fold_left slot_step l (mkSlot None [] false).

Definition is_ret (e : sev) : bool := match e with SRet _ => true | _ => false end.

(** for i := 1..3 { go func(id int) { for { tick(id) } }(i) }, cancelled between the third literal
    and its go statement; the first goroutine is the first to notice (the former crash witness) *)
Definition slot_witness : list sev := [SLit 1; SGo; SLit 2; SGo; SLit 3; SRet 1; SGo].
