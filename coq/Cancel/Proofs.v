(** C09 / C10 — proofs about the run-id gate machine of Cancel/Model.v. *)
From Verif Require Import Cancel.Model Cancel.Cases.

(** ---------------------------------------------------------------- lists *)

Lemma length_upd {A} n (x : A) l : length (upd n x l) = length l.
Proof. revert n; induction l; intros [|n]; simpl; auto. Qed.

Lemma nth_error_upd_same {A} n (x : A) l : n < length l -> nth_error (upd n x l) n = Some x.
Proof. revert n; induction l; intros [|n]; simpl; intros; try lia; auto. apply IHl; lia. Qed.

Lemma nth_error_upd_other {A} n m (x : A) l : n <> m -> nth_error (upd n x l) m = nth_error l m.
Proof. revert n m; induction l; intros [|n] [|m]; simpl; intros; try congruence; auto. Qed.

Lemma nth_error_lt {A} (l : list A) n x : nth_error l n = Some x -> n < length l.
Proof. intros H; apply nth_error_Some; congruence. Qed.

Lemma Forall_upd {A} (P : A -> Prop) n x l : Forall P l -> P x -> Forall P (upd n x l).
Proof.
  intros H; revert n; induction H; intros [|n] Hx; simpl; auto.
Qed.

Lemma Forall_nth_error {A} (P : A -> Prop) l n x : Forall P l -> nth_error l n = Some x -> P x.
Proof. intros H Hn; rewrite Forall_forall in H; eapply H, nth_error_In; eauto. Qed.

Lemma lookup_In {A} c (l : list (nat * A)) v : lookup c l = Some v -> In (c, v) l.
Proof.
  induction l as [|[k w] l IH]; simpl; [discriminate|].
  destruct (Nat.eqb_spec k c); intros H; [left; congruence|right; auto].
Qed.

Lemma nth_error_app_upd_other {A} t u (x : A) l new y :
  u <> t -> nth_error l u = Some y -> nth_error (upd t x l ++ new) u = Some y.
Proof.
  intros Hne H. rewrite nth_error_app1 by (rewrite length_upd; eapply nth_error_lt; eauto).
  rewrite nth_error_upd_other; auto.
Qed.

Lemma nth_error_app_upd_same {A} t (x : A) l new y :
  nth_error l t = Some y -> nth_error (upd t x l ++ new) t = Some x.
Proof.
  intros H. rewrite nth_error_app1 by (rewrite length_upd; eapply nth_error_lt; eauto).
  apply nth_error_upd_same; eapply nth_error_lt; eauto.
Qed.

(** ---------------------------------------------------------------- what a step leaves alone *)

Ltac destr :=
  repeat match goal with
         | |- context [match ?x with _ => _ end] => destruct x eqn:?
         end.

Section P.
Variable F : list (list instr).

Lemma step_iid st t b : iid (step F st t b) = iid st.
Proof. unfold step, exec, start_phase; destr; reflexivity. Qed.
Lemma step_idone st t b : idone (step F st t b) = idone st.
Proof. unfold step, exec, start_phase; destr; reflexivity. Qed.
Lemma step_closed st t b : closed (step F st t b) = closed st.
Proof. unfold step, exec, start_phase; destr; reflexivity. Qed.
Lemma step_rootid st t b : rootid (step F st t b) = rootid st.
Proof. unfold step, exec, start_phase; destr; reflexivity. Qed.


(** ---------------------------------------------------------------- stale states (after stop) *)

Definition stale_ref (st : state) (r : fref) : Prop :=
  match r with FRoot => True | FOwn fr => fid fr < iid st end.

(** (pending phases are harmless since the repair: their frames take the root frame's generation) *)
Definition stale_thread (st : state) (th : thread) : Prop :=
  Forall (fun a => stale_ref st (afr a)) (stack th).

Definition allstale (st : state) : Prop :=
  rootid st < iid st
  /\ Forall (stale_thread st) (threads st)
  /\ Forall (fun e => fid (snd (snd e)) < iid st) (clos st).

Lemma stale_frame_id st r : rootid st < iid st -> stale_ref st r -> frame_id st r < iid st.
Proof. destruct r; simpl; auto. Qed.

Lemma stale_ref_ext st st' r : iid st' = iid st -> stale_ref st r -> stale_ref st' r.
Proof. intros E; destruct r; simpl; rewrite ?E; auto. Qed.

Lemma stale_thread_ext st st' th : iid st' = iid st -> stale_thread st th -> stale_thread st' th.
Proof.
  intros E H2. eapply Forall_impl; [|exact H2]. intros a; apply stale_ref_ext; auto.
Qed.

Lemma allstale_step st t b : allstale st -> allstale (step F st t b).
Proof.
  intros (Hr & Ht & Hc). unfold step.
  destruct (nth_error (threads st) t) as [th|] eqn:Hth; [|repeat split; auto].
  pose proof (Forall_nth_error _ _ _ _ Ht Hth) as Hst. unfold stale_thread in Hst.
  destruct th as [stk0 ar ph]; simpl in *.
  assert (Hset : forall st' s ph', iid st' = iid st -> rootid st' = rootid st -> clos st' = clos st -> threads st' = threads st ->
             Forall (fun a => stale_ref st (afr a)) s ->
             allstale (set_thread st' t (mkThread s false ph'))).
  { intros st' s ph' E1 E2 E3 E4 Hs. unfold allstale, set_thread; simpl. rewrite E1, E2, E3, E4. repeat split; auto.
    apply Forall_upd.
    - eapply Forall_impl; [|exact Ht]. intros x Hx; apply (stale_thread_ext st); simpl; auto.
    - unfold stale_thread; simpl. eapply Forall_impl; [|exact Hs]. intros x Hx; apply (stale_ref_ext st); simpl; auto. }
  destruct stk0 as [|a stk].
  { (* the next phase starts: root frame, or a frame with the root frame's (stale) generation *)
    destruct ph as [|[f|f] rest]; [repeat split; auto| |]; unfold start_phase; apply Hset; auto;
      repeat constructor; simpl; auto. }
  inversion Hst as [|? ? Ha Hstk]; subst.
  assert (Hcopy : stale_ref st (FOwn (copy_frame st (afr a)))) by (simpl; apply stale_frame_id; auto).
  assert (Hclos : forall c f fr, lookup c (clos st) = Some (f, fr) -> stale_ref st (FOwn fr)).
  { intros c f fr Hl. apply lookup_In in Hl. rewrite Forall_forall in Hc. apply (Hc _ Hl). }
  assert (Hspawn : forall st' a', allstale st' -> iid st' = iid st -> stale_ref st (afr a') -> allstale (spawn st' a')).
  { intros st' a' (A1 & A2 & A3) E Ha'. unfold allstale, spawn; simpl. repeat split; auto.
    apply Forall_app; split; auto. constructor; auto. unfold stale_thread; simpl. constructor; auto.
    apply (stale_ref_ext st); simpl; auto. }
  destruct (fetch F a) as [i|] eqn:Hf.
  2:{ apply Hset; auto. }
  destruct ar.
  - (* armed: execute the operation *)
    unfold exec. destruct i; simpl;
      try (apply Hset; auto; repeat constructor; auto; fail).
    + apply Hspawn; simpl; auto.
    + (* MkClos *) unfold allstale, set_thread, set_clos, add_log; simpl. repeat split; auto.
      all: try (apply Forall_upd; auto; unfold stale_thread; simpl; auto; fail).
      all: try (constructor; auto; simpl; apply stale_frame_id; auto; fail).
    + destruct (lookup c (clos st)) as [[f fr]|] eqn:Hl; apply Hset; auto; constructor; eauto.
    + destruct (lookup c (clos st)) as [[f fr]|] eqn:Hl; [|apply Hset; auto].
      apply Hspawn; simpl; auto. exact (Hclos _ _ _ Hl).
    + destruct b; [apply Hset; auto|].
      destruct (canc && memn (frame_done st (afr a)) (closed st)); [apply Hset; auto|repeat split; auto].
    + destruct b; apply Hset; auto.
  - (* gate *)
    pose proof (stale_frame_id st (afr a) Hr Ha) as Hlt.
    destruct (Nat.eqb_spec (frame_id st (afr a)) (iid st)); [lia|].
    apply Hset; auto.
Qed.


(** ---------------------------------------------------------------- at most one more operation *)

Definition bud (st : state) (u : nat) : nat :=
  match nth_error (threads st) u with Some th => if armed th then 1 else 0 | None => 0 end.

Lemma evs_cons u t x l : evs u ((t, x) :: l) = (if t =? u then 1 else 0) + evs u l.
Proof. unfold evs; simpl. destruct (t =? u); reflexivity. Qed.

Lemma bud_set_thread st t th' u th0 :
  nth_error (threads st) t = Some th0 ->
  bud (set_thread st t th') u = if u =? t then (if armed th' then 1 else 0) else bud st u.
Proof.
  intros H. unfold bud, set_thread; simpl. destruct (Nat.eqb_spec u t) as [->|Hne].
  - rewrite nth_error_upd_same; auto. eapply nth_error_lt; eauto.
  - rewrite nth_error_upd_other; auto.
Qed.

Lemma bud_spawn st a u : bud (spawn st a) u = bud st u.
Proof.
  unfold bud, spawn; simpl. destruct (Nat.lt_ge_cases u (length (threads st))) as [Hlt|Hge].
  - rewrite nth_error_app1; auto.
  - rewrite nth_error_app2; auto. replace (nth_error (threads st) u) with (@None thread) by (symmetry; apply nth_error_None; auto).
    destruct (u - length (threads st)) as [|[|k]]; reflexivity.
Qed.

Lemma step_budget st t b u :
  allstale st -> evs u (log (step F st t b)) + bud (step F st t b) u <= evs u (log st) + bud st u.
Proof.
  intros (Hr & Ht & Hc). unfold step.
  destruct (nth_error (threads st) t) as [th|] eqn:Hth; [|lia].
  pose proof (Forall_nth_error _ _ _ _ Ht Hth) as Hst. unfold stale_thread in Hst.
  destruct th as [stk0 ar ph]; simpl in *.
  assert (Hbt : bud st t = if ar then 1 else 0) by (unfold bud; rewrite Hth; reflexivity).
  assert (Hset0 : forall st' s ph', threads st' = threads st -> log st' = log st ->
             evs u (log (set_thread st' t (mkThread s false ph'))) + bud (set_thread st' t (mkThread s false ph')) u <= evs u (log st) + bud st u).
  { intros st' s ph' E1 E2. assert (Hth' : nth_error (threads st') t = Some (mkThread stk0 ar ph)) by (rewrite E1; auto).
    rewrite (bud_set_thread st' t _ u _ Hth'); simpl. rewrite E2.
    destruct (Nat.eqb_spec u t); subst; [lia|]. unfold bud; rewrite E1. lia. }
  destruct stk0 as [|a stk].
  { destruct ph as [|[f|f] rest]; [lia| |]; unfold start_phase; apply Hset0; auto. }
  inversion Hst as [|? ? Ha Hstk]; subst.
  assert (Hset1 : forall st' s x, ar = true -> threads st' = threads st -> log st' = (t, x) :: log st ->
             evs u (log (set_thread st' t (mkThread s false ph))) + bud (set_thread st' t (mkThread s false ph)) u <= evs u (log st) + bud st u).
  { intros st' s x E E1 E2. assert (Hth' : nth_error (threads st') t = Some (mkThread (a :: stk) true ph)) by (rewrite E1, <- E; auto).
    rewrite (bud_set_thread st' t _ u _ Hth'); simpl. rewrite E2, evs_cons.
    destruct (Nat.eqb_spec u t) as [->|Hne].
    - rewrite Nat.eqb_refl, Hbt, E. lia.
    - destruct (Nat.eqb_spec t u); [congruence|]. unfold bud; rewrite E1. lia. }
  destruct (fetch F a) as [i|] eqn:Hf; [|apply Hset0; auto].
  destruct ar.
  - unfold exec. destruct i; cbv beta iota zeta.
    all: try (eapply Hset1; simpl; auto; fail).
    all: try (rewrite bud_spawn; eapply (Hset1 _ _ None); simpl; auto; fail).
    all: try (destruct (lookup c (clos st)) as [[f fr]|]; [try rewrite bud_spawn|]; eapply (Hset1 _ _ None); simpl; auto; fail).
    all: try (destruct b; eapply Hset1; simpl; auto; fail).
    destruct b; [eapply Hset1; simpl; auto|].
    destruct (canc && memn (frame_done st (afr a)) (closed st)); [eapply Hset1; simpl; auto|lia].
  - pose proof (stale_frame_id st (afr a) Hr Ha) as Hlt.
    destruct (Nat.eqb_spec (frame_id st (afr a)) (iid st)); [lia|]. apply Hset0; auto.
Qed.

Lemma steps_budget st sched u :
  allstale st -> evs u (log (steps F st sched)) + bud (steps F st sched) u <= evs u (log st) + bud st u.
Proof.
  revert st; induction sched as [|[t b] sched IH]; intros st H; simpl; [lia|].
  etransitivity; [apply IH, allstale_step; auto|]. apply step_budget; auto.
Qed.


(** ---------------------------------------------------------------- ... and then the goroutine exits *)

Ltac unf := unfold set_thread, spawn, set_threads, add_log, set_clos, set_rootdone.

Lemma step_thread_other st t b u th :
  u <> t -> nth_error (threads st) u = Some th -> nth_error (threads (step F st t b)) u = Some th.
Proof.
  intros Hne Hu. unfold step, exec, start_phase; destr; unf; simpl; auto;
    try (rewrite nth_error_app1 by (rewrite length_upd; eapply nth_error_lt; eauto));
    rewrite ?nth_error_upd_other by auto; auto.
Qed.

(** after stop() the current cancellation channel is closed, and steps keep it so *)
Definition cur_closed (st : state) : Prop := memn (idone st) (closed st) = true.

Lemma step_rootdone st t b :
  rootdone (step F st t b) = rootdone st \/ rootdone (step F st t b) = idone st.
Proof. unfold step, exec, start_phase; destr; simpl; auto. Qed.

Lemma thread_of_nth st u th : nth_error (threads st) u = Some th -> thread_of st u = th.
Proof. intros H; unfold thread_of; apply nth_error_nth; auto. Qed.

(** a thread that is not stuck stays so when another thread starts a root phase: the root frame
    then carries the current channel, which is closed *)
Lemma stuck_mono st st' u :
  thread_of st' u = thread_of st u -> closed st' = closed st ->
  rootdone st' = rootdone st \/ (rootdone st' = idone st /\ cur_closed st) ->
  stuck F st u = false -> stuck F st' u = false.
Proof.
  intros E1 E3 E2. unfold stuck. rewrite E1, E3.
  destruct (stack (thread_of st u)) as [|a ?]; auto.
  destruct (armed (thread_of st u)); simpl; auto.
  destruct (fetch F a) as [[]|]; auto.
  destruct (afr a) as [|fr]; simpl; auto.
  destruct E2 as [->|[-> Hc]]; auto.
  intros H. apply negb_false_iff, andb_true_iff in H. destruct H as [-> _].
  unfold cur_closed in Hc. rewrite Hc. reflexivity.
Qed.

Lemma measure_ext st st' u : thread_of st' u = thread_of st u -> measure st' u = measure st u.
Proof. intros E; unfold measure; rewrite E; auto. Qed.

Lemma measure_unarmed st u s ph :
  thread_of st u = mkThread s false ph -> measure st u = length s + 2 * length ph.
Proof. intros E; unfold measure; rewrite E; simpl. destruct s; simpl; lia. Qed.

Lemma stuck_unarmed st u s ph : thread_of st u = mkThread s false ph -> stuck F st u = false.
Proof. intros E; unfold stuck; rewrite E; simpl. destruct s; auto. Qed.

Lemma thread_of_set_same st t th' th0 :
  nth_error (threads st) t = Some th0 -> thread_of (set_thread st t th') t = th'.
Proof.
  intros H. apply thread_of_nth. unfold set_thread; simpl. apply nth_error_upd_same. eapply nth_error_lt; eauto.
Qed.

Lemma thread_of_spawn st a u : u < length (threads st) -> thread_of (spawn st a) u = thread_of st u.
Proof. intros H. unfold thread_of, spawn; simpl. apply app_nth1; auto. Qed.

Lemma step_progress st t b u th :
  allstale st -> cur_closed st -> nth_error (threads st) u = Some th -> stuck F st u = false ->
  stuck F (step F st t b) u = false /\
  measure (step F st t b) u <= measure st u - (if t =? u then 1 else 0).
Proof.
  intros Hall Hcc Hu Hns. pose proof Hall as (Hr & Ht & Hc).
  destruct (Nat.eqb_spec t u) as [->|Hne].
  2:{ assert (E : thread_of (step F st t b) u = thread_of st u).
      { rewrite (thread_of_nth _ _ _ Hu). apply thread_of_nth, step_thread_other; auto. }
      split; [|rewrite (measure_ext _ _ _ E); lia].
      apply (stuck_mono st); auto using step_closed.
      destruct (step_rootdone st t b) as [->| ->]; auto. }
  pose proof (Forall_nth_error _ _ _ _ Ht Hu) as Hst. unfold stale_thread in Hst.
  pose proof (thread_of_nth _ _ _ Hu) as Hof.
  unfold step. rewrite Hu.
  destruct th as [stk0 ar ph]; simpl in *.
  assert (Hset : forall st' s ph' th0, nth_error (threads st') u = Some th0 ->
            length s + 2 * length ph' + 1 <= measure st u ->
            stuck F (set_thread st' u (mkThread s false ph')) u = false /\
            measure (set_thread st' u (mkThread s false ph')) u <= measure st u - 1).
  { intros st' s ph' th0 Hth' Hl. pose proof (thread_of_set_same st' u (mkThread s false ph') _ Hth') as E.
    split; [eapply stuck_unarmed; eauto|]. rewrite (measure_unarmed _ _ _ _ E). lia. }
  destruct stk0 as [|a stk].
  { assert (Hm0 : measure st u = 2 * length ph) by (unfold measure; rewrite Hof; reflexivity).
    destruct ph as [|[f|f] rest]; [split; auto; rewrite Hm0; simpl; lia| |];
      unfold start_phase; eapply Hset; unf; simpl; eauto; rewrite Hm0; simpl; lia. }
  inversion Hst as [|? ? Ha Hstk]; subst.
  assert (Hm : measure st u = length stk + 1 + 2 * length ph + (if ar then 2 else 0)) by (unfold measure; rewrite Hof; simpl; lia).
  assert (Hsp : forall st' a', u < length (threads st') ->
            stuck F st' u = false /\ measure st' u <= measure st u - 1 ->
            stuck F (spawn st' a') u = false /\ measure (spawn st' a') u <= measure st u - 1).
  { intros st' a' Hlt [A B]. pose proof (thread_of_spawn st' a' u Hlt) as E.
    split; [apply (stuck_mono st'); auto|rewrite (measure_ext _ _ _ E); auto]. }
  assert (Hlen : u < length (threads st)) by (eapply nth_error_lt; eauto).
  destruct (fetch F a) as [i|] eqn:Hf.
  2:{ eapply Hset; eauto. rewrite Hm. destruct ar; lia. }
  destruct ar.
  - unfold exec. destruct i; cbv beta iota zeta.
    all: try (eapply Hset; simpl; eauto; rewrite Hm; simpl; lia).
    all: try (apply Hsp; [unf; simpl; rewrite length_upd; auto|eapply Hset; simpl; eauto; rewrite Hm; simpl; lia]).
    all: try (destruct (lookup c (clos st)) as [[f fr]|]; eapply Hset; simpl; eauto; rewrite Hm; simpl; lia).
    all: try (destruct (lookup c (clos st)) as [[f fr]|];
              [apply Hsp; [unf; simpl; rewrite length_upd; auto|]|]; eapply Hset; simpl; eauto; rewrite Hm; simpl; lia).
    all: try (destruct b; eapply Hset; simpl; eauto; rewrite Hm; simpl; lia).
    destruct b; [eapply Hset; simpl; eauto; rewrite Hm; simpl; lia|].
    unfold stuck in Hns. rewrite Hof in Hns; simpl in Hns. rewrite Hf in Hns.
    apply negb_false_iff in Hns. rewrite Hns. eapply Hset; simpl; eauto; rewrite Hm; simpl; lia.
  - pose proof (stale_frame_id st (afr a) Hr Ha) as Hlt.
    destruct (Nat.eqb_spec (frame_id st (afr a)) (iid st)); [lia|]. eapply Hset; simpl; eauto; rewrite Hm; simpl; lia.
Qed.

Lemma steps_progress st sched u th :
  allstale st -> cur_closed st -> nth_error (threads st) u = Some th -> stuck F st u = false ->
  measure (steps F st sched) u <= measure st u - occ u sched.
Proof.
  revert st th; induction sched as [|[t b] sched IH]; intros st th Hall Hcc Hu Hns; simpl; [unfold occ; simpl; lia|].
  destruct (step_progress st t b u th Hall Hcc Hu Hns) as [A B].
  assert (exists th', nth_error (threads (step F st t b)) u = Some th') as [th' Hu'].
  { destruct (Nat.eq_dec u t) as [->|Hne]; [|eexists; apply step_thread_other; eauto].
    destruct (nth_error (threads (step F st t b)) t) eqn:E; eauto.
    apply nth_error_None in E. pose proof (nth_error_lt _ _ _ Hu).
    assert (length (threads st) <= length (threads (step F st t b))); [|lia].
    clear. unfold step, exec, start_phase; destr; unf; simpl; rewrite ?app_length, ?length_upd; simpl; lia. }
  assert (Hcc' : cur_closed (step F st t b)) by (unfold cur_closed; rewrite step_idone, step_closed; auto).
  specialize (IH _ _ (allstale_step _ t b Hall) Hcc' Hu' A).
  unfold occ in *; simpl. destruct (t =? u); simpl; lia.
Qed.

Lemma measure_zero_exited st u : measure st u = 0 -> exited st u = true.
Proof.
  unfold measure, exited. destruct (stack (thread_of st u)); [|simpl; lia].
  destruct (phases (thread_of st u)); auto. simpl; lia.
Qed.


(** ---------------------------------------------------------------- every reachable state *)

Definition le_ref (st : state) (r : fref) : Prop :=
  match r with FRoot => True | FOwn fr => fid fr <= iid st end.

Definition inv (st : state) : Prop :=
  rootid st <= iid st
  /\ Forall (fun th => Forall (fun a => le_ref st (afr a)) (stack th)) (threads st)
  /\ Forall (fun e => fid (snd (snd e)) <= iid st) (clos st).

Lemma le_frame_id st r : rootid st <= iid st -> le_ref st r -> frame_id st r <= iid st.
Proof. destruct r; simpl; auto. Qed.

Lemma le_ref_ext st st' r : iid st' = iid st -> le_ref st r -> le_ref st' r.
Proof. intros E; destruct r; simpl; rewrite ?E; auto. Qed.

Lemma le_stack_ext st st' (s : list act) :
  iid st' = iid st -> Forall (fun a => le_ref st (afr a)) s -> Forall (fun a => le_ref st' (afr a)) s.
Proof. intros E H; eapply Forall_impl; [|exact H]. intros a; apply le_ref_ext; auto. Qed.

Lemma inv_step st t b : inv st -> inv (step F st t b).
Proof.
  intros (Hr & Ht & Hc). unfold step.
  destruct (nth_error (threads st) t) as [th|] eqn:Hth; [|repeat split; auto].
  pose proof (Forall_nth_error _ _ _ _ Ht Hth) as Hst.
  destruct th as [stk0 ar ph]; simpl in *.
  assert (Hset : forall st' s ar' ph', iid st' = iid st -> rootid st' = rootid st -> clos st' = clos st -> threads st' = threads st ->
             Forall (fun a => le_ref st (afr a)) s ->
             inv (set_thread st' t (mkThread s ar' ph'))).
  { intros st' s ar' ph' E1 E2 E3 E4 Hs. unfold inv, set_thread; simpl. rewrite E1, E2, E3, E4. repeat split; auto.
    apply Forall_upd; simpl.
    - eapply Forall_impl; [|exact Ht]. intros th; apply le_stack_ext; auto.
    - apply (le_stack_ext st); auto. }
  destruct stk0 as [|a stk].
  { destruct ph as [|[f|f] rest]; [repeat split; auto| |]; unfold start_phase; apply Hset; auto;
      repeat constructor; simpl; auto. }
  inversion Hst as [|? ? Ha Hstk]; subst.
  assert (Hcopy : le_ref st (FOwn (copy_frame st (afr a)))) by (simpl; apply le_frame_id; auto).
  assert (Hclos : forall c f fr, lookup c (clos st) = Some (f, fr) -> le_ref st (FOwn fr)).
  { intros c f fr Hl. apply lookup_In in Hl. rewrite Forall_forall in Hc. apply (Hc _ Hl). }
  assert (Hspawn : forall st' a', inv st' -> iid st' = iid st -> le_ref st (afr a') -> inv (spawn st' a')).
  { intros st' a' (A1 & A2 & A3) E Ha'. unfold inv, spawn; simpl. repeat split; auto.
    apply Forall_app; split; auto. constructor; auto. simpl. constructor; auto.
    destruct (afr a'); simpl in *; auto. rewrite E; auto. }
  destruct (fetch F a) as [i|] eqn:Hf; [|apply Hset; auto].
  destruct ar.
  - unfold exec. destruct i; cbv beta iota zeta.
    all: try (apply Hset; auto; fail).
    all: try (apply Hspawn; simpl; auto; fail).
    + unfold inv; unf; simpl. repeat split; auto.
      * apply Forall_upd; simpl.
        -- eapply Forall_impl; [|exact Ht]. intros th; apply le_stack_ext; auto.
        -- apply (le_stack_ext st); simpl; auto.
    + destruct (lookup c (clos st)) as [[f fr]|] eqn:Hl; apply Hset; auto; constructor; eauto.
    + destruct (lookup c (clos st)) as [[f fr]|] eqn:Hl; [|apply Hset; auto].
      apply Hspawn; simpl; auto. exact (Hclos _ _ _ Hl).
    + destruct b; [apply Hset; auto|].
      destruct (canc && memn (frame_done st (afr a)) (closed st)); [apply Hset; auto|repeat split; auto].
    + destruct b; apply Hset; auto.
  - destruct (frame_id st (afr a) =? iid st); apply Hset; auto.
Qed.

Lemma inv_action st a : inv st -> inv (do_action F st a).
Proof.
  intros H. destruct a; simpl; [apply inv_step; auto|..]; destruct H as (Hr & Ht & Hc); unfold inv; simpl.
  - repeat split; auto.
  - repeat split; [lia| |].
    + eapply Forall_impl; [|exact Ht]. intros th Hth. eapply Forall_impl; [|exact Hth].
      intros a0; unfold le_ref; simpl; destruct (afr a0); auto; lia.
    + eapply Forall_impl; [|exact Hc]. simpl; intros; lia.
  - repeat split; auto. apply Forall_app; split; auto. repeat constructor.
  - repeat split; auto. apply Forall_app; split; auto. repeat constructor; simpl; auto.
  - destruct (lookup c (clos st)) as [[f fr]|] eqn:Hl; simpl; repeat split; auto.
    apply Forall_app; split; auto. constructor; auto. constructor; auto. simpl.
    apply lookup_In in Hl. rewrite Forall_forall in Hc. apply (Hc _ Hl).
Qed.

Lemma inv_fresh : inv fresh.
Proof. repeat split; simpl; auto. Qed.

Lemma inv_run h : inv (run F fresh h).
Proof.
  unfold run. generalize inv_fresh. generalize fresh. induction h as [|a h IH]; simpl; auto.
  intros st H. apply IH, inv_action; auto.
Qed.

Lemma stop_allstale st : inv st -> allstale (do_action F st AStop).
Proof.
  intros (Hr & Ht & Hc). unfold allstale; simpl. repeat split; [lia| |].
  - rewrite Forall_forall in *. intros th Hin. unfold stale_thread.
    specialize (Ht _ Hin). eapply Forall_impl; [|exact Ht].
    intros a; unfold le_ref, stale_ref; simpl; destruct (afr a); auto; lia.
  - eapply Forall_impl; [|exact Hc]. simpl; intros; lia.
Qed.

Lemma stop_cur_closed st : cur_closed (do_action F st AStop).
Proof. unfold cur_closed; simpl. rewrite Nat.eqb_refl; auto. Qed.

(** C09, the gate: in every reachable state, after [stop] every thread performs at most one more
    operation, whatever the schedule and the data. *)
Lemma bud_le_1 st u : bud st u <= 1.
Proof. unfold bud. destruct (nth_error (threads st) u) as [th|]; [destruct (armed th)|]; lia. Qed.

Lemma gate_ops h sched u :
  evs u (log (steps F (do_action F (run F fresh h) AStop) sched)) <= evs u (log (run F fresh h)) + 1.
Proof.
  pose proof (steps_budget _ sched u (stop_allstale _ (inv_run h))) as H.
  pose proof (bud_le_1 (do_action F (run F fresh h) AStop) u). simpl in *. lia.
Qed.

Lemma gate_new_threads h sched u :
  length (threads (run F fresh h)) <= u ->
  evs u (log (steps F (do_action F (run F fresh h) AStop) sched)) <= evs u (log (run F fresh h)).
Proof.
  intros Hu. pose proof (steps_budget _ sched u (stop_allstale _ (inv_run h))) as H.
  assert (bud (do_action F (run F fresh h) AStop) u = 0).
  { unfold bud; simpl. apply nth_error_None in Hu. rewrite Hu. auto. }
  simpl in *. lia.
Qed.

Lemma gate_exits h sched u th :
  nth_error (threads (run F fresh h)) u = Some th ->
  stuck F (do_action F (run F fresh h) AStop) u = false ->
  length (stack th) + 2 * length (phases th) + 2 <= occ u sched ->
  exited (steps F (do_action F (run F fresh h) AStop) sched) u = true.
Proof.
  intros Hu Hns Hocc.
  pose proof (stop_allstale _ (inv_run h)) as Hall.
  assert (Hu' : nth_error (threads (do_action F (run F fresh h) AStop)) u = Some th) by (simpl; auto).
  pose proof (steps_progress _ sched u th Hall (stop_cur_closed _) Hu' Hns) as Hm.
  assert (measure (do_action F (run F fresh h) AStop) u <= length (stack th) + 2 * length (phases th) + 2).
  { unfold measure. rewrite (thread_of_nth _ _ _ Hu'). destruct (stack th); simpl; [lia|]. destruct (armed th); lia. }
  apply measure_zero_exited. lia.
Qed.


(** visible side effects (host ticks) are operations: at most one more tick per thread *)
Lemma step_log st t b : log (step F st t b) = log st \/ exists x, log (step F st t b) = (t, x) :: log st.
Proof. unfold step, exec, start_phase; destr; simpl; eauto. Qed.

Lemma steps_log st sched : exists ext, log (steps F st sched) = ext ++ log st.
Proof.
  revert st; induction sched as [|[t b] sched IH]; intros st; simpl; [exists []; auto|].
  destruct (IH (step F st t b)) as [ext E]. rewrite E.
  destruct (step_log st t b) as [->|[x ->]]; [eauto|]. exists (ext ++ [(t, x)]). rewrite <- app_assoc; auto.
Qed.

Lemma evs_app u a b : evs u (a ++ b) = evs u a + evs u b.
Proof. unfold evs. rewrite filter_app, app_length; auto. Qed.
Lemma tks_app u a b : tks u (a ++ b) = tks u a + tks u b.
Proof. unfold tks. rewrite filter_app, app_length; auto. Qed.
Lemma tks_le_evs u l : tks u l <= evs u l.
Proof.
  unfold tks, evs. induction l as [|e l IH]; simpl; auto.
  destruct (fst e =? u); simpl; [destruct (is_tick e); simpl; lia|auto].
Qed.

Lemma gate_ticks h sched u :
  tks u (log (steps F (do_action F (run F fresh h) AStop) sched)) <= tks u (log (run F fresh h)) + 1.
Proof.
  pose proof (gate_ops h sched u) as H.
  destruct (steps_log (do_action F (run F fresh h) AStop) sched) as [ext E].
  rewrite E in *. simpl in *. rewrite evs_app in H. rewrite tks_app.
  pose proof (tks_le_evs u ext). lia.
Qed.


(** ---------------------------------------------------------------- C10: uses of named functions *)

Definition live_act (S : list nat) (st : state) (a : act) : Prop :=
  frame_id st (afr a) = iid st /\ In (afn a) S.

Definition live (S : list nat) (st : state) (th : thread) : Prop :=
  Forall (live_act S st) (stack th) /\ Forall (fun ph => In (phase_fn ph) S) (phases th).

Lemma memn_In x l : memn x l = true -> In x l.
Proof.
  induction l as [|y l IH]; simpl; [discriminate|].
  destruct (Nat.eqb_spec y x); simpl; auto.
Qed.

Lemma basic_fetch S f pc i :
  basic_set F S = true -> In f S -> nth_error (body F f) pc = Some i -> basic_instr S i = true.
Proof.
  unfold basic_set. rewrite forallb_forall. intros H Hin Hn.
  specialize (H _ Hin). rewrite forallb_forall in H. apply H. eapply nth_error_In; eauto.
Qed.

Lemma live_act_ext S st st' a :
  iid st' = iid st -> rootid st' = rootid st -> live_act S st a -> live_act S st' a.
Proof. intros E1 E2 [A B]; split; auto. destruct (afr a); simpl in *; congruence. Qed.

Lemma follow S st t b th :
  basic_set F S = true -> rootid st = iid st -> nth_error (threads st) t = Some th -> live S st th ->
  exists th', nth_error (threads (step F st t b)) t = Some th'
     /\ erase th' = fst (gstep F (erase th) b)
     /\ live S (step F st t b) th'
     /\ log (step F st t b) = map (fun x => (t, x)) (snd (gstep F (erase th) b)) ++ log st.
Proof.
  intros HS Hroot Hth [Hst Hph]. unfold step. rewrite Hth.
  destruct th as [stk0 ar ph]; simpl in *.
  assert (Hset : forall st' s ar' ph' ev, iid st' = iid st -> rootid st' = rootid st -> threads st' = threads st ->
            log st' = map (fun x => (t, x)) ev ++ log st ->
            Forall (live_act S st) s -> Forall (fun ph => In (phase_fn ph) S) ph' ->
            exists th', nth_error (threads (set_thread st' t (mkThread s ar' ph'))) t = Some th'
              /\ erase th' = (map (fun a => (afn a, apc a)) s, ar', ph')
              /\ live S (set_thread st' t (mkThread s ar' ph')) th'
              /\ log (set_thread st' t (mkThread s ar' ph')) = map (fun x => (t, x)) ev ++ log st).
  { intros st' s ar' ph' ev E1 E2 E3 E4 Hs Hp. exists (mkThread s ar' ph'). unfold set_thread; simpl. repeat split; auto.
    all: try (rewrite E3; apply nth_error_upd_same; eapply nth_error_lt; eauto; fail).
    all: try (simpl; eapply Forall_impl; [|exact Hs]; intros a0; apply live_act_ext; simpl; auto). }
  assert (Hspawn : forall st' a' g ev,
            (exists th', nth_error (threads st') t = Some th' /\ erase th' = g /\ live S st' th' /\ log st' = ev) ->
            exists th', nth_error (threads (spawn st' a')) t = Some th' /\ erase th' = g /\ live S (spawn st' a') th' /\ log (spawn st' a') = ev).
  { intros st' a' g ev (th' & A & B & [C1 C2] & D). exists th'. unfold spawn; simpl. repeat split; auto.
    all: try (rewrite nth_error_app1; auto; eapply nth_error_lt; eauto; fail).
    all: try (eapply Forall_impl; [|exact C1]; intros a0; apply live_act_ext; simpl; auto). }
  destruct stk0 as [|a stk].
  { destruct ph as [|[f|f] rest].
    - exists (mkThread [] ar []). repeat split; auto.
    - inversion Hph; subst. unfold start_phase.
      apply (Hset (set_rootdone st (idone st)) [mkAct FRoot f 0] false rest []); simpl; auto.
      constructor; auto. split; simpl; auto.
    - inversion Hph; subst. unfold start_phase.
      apply (Hset st [mkAct (FOwn (mkFrame (rootid st) (idone st))) f 0] false rest []); simpl; auto.
      constructor; auto. split; simpl; auto. }
  inversion Hst as [|? ? [Ha1 Ha2] Hstk]; subst.
  unfold erase, gstep, fetch; cbn [stack armed phases map afn apc].
  destruct (nth_error (body F (afn a)) (apc a)) as [i|] eqn:Hf.
  2:{ apply (Hset st stk false ph []); simpl; auto. }
  assert (Hnext : live_act S st (next a)) by (split; simpl; auto).
  assert (Hgoto : forall pc, live_act S st (goto a pc)) by (split; simpl; auto).
  destruct ar.
  - pose proof (basic_fetch S _ _ _ HS Ha2 Hf) as Hb.
    unfold exec. destruct i; simpl in Hb; try discriminate; cbv beta iota zeta.
    + apply (Hset (add_log st (t, Some n)) (next a :: stk) false ph [Some n]); simpl; auto.
    + apply (Hset (add_log st (t, None)) (next a :: stk) false ph [None]); simpl; auto.
    + apply memn_In in Hb.
      apply (Hset (add_log st (t, None)) (mkAct (FOwn (copy_frame st (afr a))) f 0 :: next a :: stk) false ph [None]); simpl; auto.
      constructor; auto. split; simpl; auto.
    + apply Hspawn. apply (Hset (add_log st (t, None)) (next a :: stk) false ph [None]); simpl; auto.
    + apply (Hset (add_log st (t, None)) (goto a pc :: stk) false ph [None]); simpl; auto.
    + destruct b; [apply (Hset (add_log st (t, None)) (goto a pc :: stk) false ph [None])
                  |apply (Hset (add_log st (t, None)) (next a :: stk) false ph [None])]; simpl; auto.
    + apply (Hset (add_log st (t, None)) stk false ph [None]); simpl; auto.
  - rewrite Ha1, Nat.eqb_refl. apply (Hset st (a :: stk) true ph []); simpl; auto.
Qed.

Lemma follow_solo_log S bs : forall st t th,
  basic_set F S = true -> rootid st = iid st -> nth_error (threads st) t = Some th -> live S st th ->
  log (solo F st t bs) = map (fun x => (t, x)) (grun F (erase th) bs) ++ log st.
Proof.
  induction bs as [|b bs IH]; intros st t th HS Hroot Hth Hl; simpl; auto.
  destruct (follow S st t b th HS Hroot Hth Hl) as (th' & A & B & C & D).
  rewrite (IH (step F st t b) t th'); auto.
  - rewrite B, D, map_app, app_assoc. auto.
  - rewrite step_rootid, step_iid; auto.
Qed.

Lemma follow_solo S bs st t th :
  basic_set F S = true -> rootid st = iid st -> nth_error (threads st) t = Some th -> live S st th ->
  out (solo F st t bs) = grun F (erase th) bs ++ out st.
Proof.
  intros. unfold out. rewrite (follow_solo_log S bs st t th); auto.
  rewrite map_app, map_map. simpl. rewrite map_id. auto.
Qed.

(** every use of named functions through a later Execute, in every reachable state (any number of
    cancelled evaluations before), performs exactly the operations G prescribes *)
Lemma named_use_log S st p bs :
  basic_set F S = true -> Forall (fun ph => In (phase_fn ph) S) p ->
  log (solo F (do_action F st (AExecute p)) (length (threads st)) bs)
  = map (fun x => (length (threads st), x)) (grun F ([], false, p) bs) ++ log st.
Proof.
  intros HS Hp.
  rewrite (follow_solo_log S bs _ _ (mkThread [] false p)); auto.
  - simpl. rewrite nth_error_app2, Nat.sub_diag; auto.
  - split; simpl; auto.
Qed.

Lemma named_use S h p bs :
  basic_set F S = true -> Forall (fun ph => In (phase_fn ph) S) p ->
  out (solo F (do_action F (run F fresh h) (AExecute p)) (length (threads (run F fresh h))) bs)
  = grun F ([], false, p) bs ++ out (run F fresh h).
Proof.
  intros HS Hp. unfold out. rewrite (named_use_log S); auto.
  rewrite map_app, map_map. simpl. rewrite map_id. auto.
Qed.

End P.

(** ---------------------------------------------------------------- C09: the theorem as one statement *)

Lemma gate_partial F h sched u :
  let s1 := run F fresh h in
  let s2 := steps F (do_action F s1 AStop) sched in
  evs u (log s2) <= evs u (log s1) + 1
  /\ tks u (log s2) <= tks u (log s1) + 1
  /\ (length (threads s1) <= u -> evs u (log s2) <= evs u (log s1))
  /\ (forall th, nth_error (threads s1) u = Some th -> stuck F (do_action F s1 AStop) u = false ->
        length (stack th) + 2 * length (phases th) + 2 <= occ u sched -> exited s2 u = true).
Proof.
  intros s1 s2. repeat split.
  - apply gate_ops; auto.
  - apply gate_ticks; auto.
  - intros; apply gate_new_threads; auto.
  - intros; eapply gate_exits; eauto.
Qed.

(** non-vacuity: the program of the init-list witness with only [main] left; the cancellation finds
    the thread with a tick in flight; exactly that one tick still happens, then the thread exits *)
Lemma gate_partial_inhabited :
  let s1 := run F_init fresh (session P_main_only ++ alone 0 8) in
  let s2 := steps F_init (do_action F_init s1 AStop) (repeat (0, false) 6) in
  stuck F_init (do_action F_init s1 AStop) 0 = false
  /\ tks 0 (log s1) = 1 /\ tks 0 (log s2) = 2 /\ exited s2 0 = true.
Proof. vm_compute. auto. Qed.

(** ---------------------------------------------------------------- C09: regression and refutations *)

(** the init-list witness after the repair (interp.run: newFrame(cf, n, cf.runid())): cancel inside
    the first init() with a second init() and main() pending; the tick in flight still happens,
    the pending functions get the root frame's stale generation and execute nothing, the thread exits *)
Lemma initlist_regression :
  let s1 := run F_init fresh H_init in
  let s2 := steps F_init (do_action F_init s1 AStop) (repeat (0, false) 40) in
  no_pending s1 = false
  /\ ticks_of (new_events s1 s2) = [1]
  /\ evs 0 (log s2) = evs 0 (log s1) + 1
  /\ exited s2 0 = true.
Proof. vm_compute. auto. Qed.

(** REPL style: the cancelled statements run in the root frame, whose generation the next Execute
    overwrites: the old goroutine comes back to life and finishes its statements *)
Lemma rootframe_refuted :
  let s1 := run F_root fresh H_root in
  let s2 := run F_root s1 H_root_next in
  tks 0 (log s1) = 2 /\ ticks_of (new_events s1 s2) = [3; 4; 5; 6]
  /\ (let s2' := run F_root s1 ([AStop] ++ alone 0 20) in ticks_of (new_events s1 s2') = [3]).
Proof. vm_compute. auto. Qed.

Lemma contract_session_refuted : ~ C09_contract_session.
Proof.
  intros H. specialize (H F_root H_root (tl H_root_next) 0). vm_compute in H.
  assert (1 <= 1) as E by lia. specialize (H E). lia.
Qed.

(** a context that has already expired: stop() runs first, Execute then adopts the new generation
    and nothing ever stops the evaluation *)
Lemma expired_refuted :
  ticks_of (new_events (run F_root fresh [ABegin; AStop]) (run F_root fresh H_expired)) = [1; 2; 3; 4; 5; 6].
Proof. vm_compute. auto. Qed.

(** a function literal from an earlier evaluation, blocked on a channel: this cancellation's
    channel is not the one it waits on; it stays blocked however often it is scheduled *)
Lemma stalechan_refuted :
  let s1 := run F_stale fresh H_stale in
  let s2 := steps F_stale (do_action F_stale s1 AStop) (repeat (1, false) 50) in
  no_pending s1 = true /\ in_host_call F_stale s1 1 = false
  /\ stuck F_stale (do_action F_stale s1 AStop) 1 = true /\ exited s2 1 = false.
Proof. vm_compute. auto. Qed.

Lemma contract_exits_refuted : ~ C09_contract.
Proof.
  intros H. destruct (H F_stale H_stale (repeat (1, false) 50) 1) as [_ H2].
  specialize (H2 _ eq_refl). vm_compute in H2.
  assert (4 <= 50) as E by lia. specialize (H2 eq_refl E). discriminate.
Qed.

(** ---------------------------------------------------------------- C10 on histories *)

Lemma firstn_app_exact {A} (a b : list A) : firstn (length (a ++ b) - length b) (a ++ b) = a.
Proof.
  rewrite app_length. replace (length a + length b - length b) with (length a + 0) by lia.
  rewrite firstn_app_2. simpl. apply app_nil_r.
Qed.

Definition S10 : list nat := [0; 1; 3; 4; 5; 7].

Lemma filter_map_same t (G : list (option nat)) :
  filter (fun e : event => fst e =? t) (map (fun x => (t, x)) G) = map (fun x => (t, x)) G.
Proof. induction G; simpl; auto. rewrite Nat.eqb_refl, IHG; auto. Qed.

Lemma use_result st st2 t G ticks :
  log st2 = map (fun x => (t, x)) G ++ log st ->
  list_nat_eqb (ticks_of (map (fun x : option nat => (t, x)) G)) ticks = true ->
  list_nat_eqb (ticks_of (filter (fun e => fst e =? t) (new_events st st2))) ticks = true.
Proof. intros E H. unfold new_events. rewrite E, firstn_app_exact, filter_map_same. exact H. Qed.

Lemma S10_basic : basic_set F10 S10 = true.
Proof. vm_compute. auto. Qed.

Lemma y_use_eval st k :
  In (use_body k) S10 ->
  list_nat_eqb (ticks_of (map (fun x : option nat => (nthreads st, x)) (grun F10 ([], false, [PRoot (use_body k)]) use_bits))) (use_ticks k) = true ->
  snd (y_use st k VEval) = true /\ snd (y_use st k VEvalCtx) = true.
Proof.
  intros Hin Hg. unfold y_use; cbv zeta; simpl snd. split.
  - eapply use_result; [|exact Hg].
    apply (named_use_log F10 S10 st [PRoot (use_body k)] use_bits S10_basic). constructor; auto.
  - eapply use_result; [|exact Hg].
    apply (named_use_log F10 S10 (do_action F10 st ABegin) [PRoot (use_body k)] use_bits S10_basic). constructor; auto.
Qed.

Lemma y_use_named st k v : is_named k v = true -> snd (y_use st k v) = true.
Proof.
  intros Hn.
  assert (H : snd (y_use st k VEval) = true /\ snd (y_use st k VEvalCtx) = true).
  { destruct k; try (destruct v; discriminate); apply y_use_eval; try (simpl; tauto);
      generalize (nthreads st); intros n; vm_compute; reflexivity. }
  destruct v; try (destruct k; discriminate); tauto.
Qed.

(** all histories: every use of a named function, a method or a method value through a later
    Eval / EvalWithContext yields what it yielded before any cancellation *)
Lemma named_partial h : forall st, uses_ok is_named h (y_hist st h).
Proof.
  induction h as [|e h IH]; intros st; [exact I|].
  destruct e as [|k v|c|]; cbn [y_hist uses_ok]; try apply IH.
  pose proof (y_use_named st k v) as H. destruct (y_use st k v) as [st' r]. simpl in H. split; auto.
Qed.

Lemma named_partial_inhabited :
  y_hist start10 [HCancel CBusy; HUse KNamed VEval; HCancel CBlocked; HUse KMethod VEvalCtx; HCancel CExpRan; HUse KMethVal VEval]
  = [true; true; true].
Proof. vm_compute. auto. Qed.

Lemma closure_refuted :
  y_hist start10 [HUse KClosVar VEval; HCancel CBusy; HUse KClosVar VEval; HUse KClosVar VHost; HUse KNamed VEval; HUse KClosVar VEval]
  = [true; false; false; true; false].
Proof. vm_compute. auto. Qed.

Lemma hostheld_refuted :
  y_hist start10 [HUse KNamed VHost; HCancel CBusy; HUse KNamed VHost; HUse KMethod VHost; HUse KNamed VEval; HUse KNamed VHost]
  = [true; false; false; true; true].
Proof. vm_compute. auto. Qed.

Lemma plaineval_chan_refuted :
  y_hist start10 [HUse KChanFn VEval; HCancel CBusy; HUse KChanFn VEval; HUse KChanFn VEvalCtx; HUse KChanFn VEval]
  = [true; false; true; true].
Proof. vm_compute. auto. Qed.

Lemma c10_contract_refuted : ~ C10_contract.
Proof. intros H. specialize (H [HCancel CBusy; HUse KClosVar VEval]). vm_compute in H. discriminate. Qed.

(** ---------------------------------------------------------------- the abandoned Execute *)

(** EvalWithContext returns as soon as stop() has been called; the goroutine of the cancelled
    evaluation is still inside Execute. When the host evaluates again at once, that goroutine has
    not exited: its next scheduling decisions are phase starts, i.e. Execute going on to read
    interpreter state (program.go: interp.scopes[...] for the package variables, the init list)
    that the new evaluation is writing. In Go that is a data race on a map: fatal error, the host
    process dies (region "next-eval-race"). *)
Lemma abandoned_execute_refuted :
  let s1 := run F_init fresh H_init in
  let s2 := run F_init s1 [AStop; AExecute [PRoot 0]] in
  exited s2 0 = false /\ phases (thread_of s2 0) = [PFun 2; PFun 3]
  /\ ticks_of (new_events s1 (run F_init s2 (alone 0 40))) = [1; 2; 2; 3; 3; 3].
Proof. vm_compute. auto. Qed.

(** ---------------------------------------------------------------- cancellability fixed at generation time *)

(** a receive loaded by a plain Eval before the interpreter's first *WithContext call is generated
    non-cancellable: run later under a context and cancelled while blocked, its goroutine is left
    (1 thread alive); the same code loaded after a first *WithContext call, or by EvalWithContext,
    or a range over the channel instead, exits *)
Lemma nocancel_gen_refuted :
  y_outcomes (sess_F false LEval KRecv) (sess_park false LEval) = [(false, [], 1)]
  /\ y_outcomes (sess_F true LEval KRecv) (sess_park true LEval) = [(false, [], 0)]
  /\ y_outcomes (sess_F false LEvalCtx KRecv) (sess_park false LEvalCtx) = [(false, [], 0)]
  /\ y_outcomes (sess_F false LEval KRange) (sess_park false LEval) = [(false, [], 0)].
Proof. vm_compute. auto. Qed.

(** whatever the session, range and select are generated cancellable, and so is everything
    generated after a Begin *)
Lemma gen_canc_sound c h : (c = KRange \/ c = KSelect \/ begun h = true) -> gen_canc c (begun h) = true.
Proof. intros [->|[->|H]]; auto. rewrite H. destruct c; auto. Qed.

(** ---------------------------------------------------------------- state generated per statement *)

(** the implementation's design: every execution selects on its own frame's cancellation channel,
    whatever the statement executed before *)
Lemma select_state_independent s ds : sel_run false s ds = ds.
Proof. revert s; induction ds as [|d ds IH]; intros s; simpl; auto. rewrite IH; auto. Qed.

(** the other design: the first execution's channel is kept; if that execution belonged to the
    evaluation that was cancelled (channel 1, closed), every later execution selects on it *)
Lemma sel_run_once_some d0 ds : sel_run true (mkSel (Some d0)) ds = map (fun _ => d0) ds.
Proof. induction ds as [|x ds IH]; simpl; auto. rewrite IH; auto. Qed.

Lemma select_once_keeps_first ds d : sel_run true (mkSel None) (d :: ds) = d :: map (fun _ => d) ds.
Proof. simpl. rewrite sel_run_once_some. reflexivity. Qed.

Lemma first_executed_when_cancelled :
  y_hist start10 [HCancel CInDef; HUse KChanFn VEvalCtx; HUse KNamed VEval; HUse KChanFn VEvalCtx; HCancel CBusy; HUse KChanFn VEvalCtx]
  = [true; true; true; true].
Proof. vm_compute. reflexivity. Qed.

(** ---------------------------------------------------------------- the slot of a function literal *)

(** regression (finding C09-literal-slot, repaired by abe7a69): the former crash witness starts the
    three literals, in order, and nothing calls the nil function *)
Lemma literal_slot_regression :
  crashed (slot_run slot_witness) = false /\ started (slot_run slot_witness) = [3; 2; 1].
Proof. vm_compute. auto. Qed.

Lemma slot_rets s rets : forallb is_ret rets = true -> fold_left slot_step rets s = s.
Proof.
  revert s; induction rets as [|e rets IH]; intros s H; simpl in *; auto.
  destruct e; simpl in *; try discriminate. apply IH; auto.
Qed.

(** whatever happened before and however many calls return between a literal and its go statement,
    the go statement starts that literal's value *)
Lemma literal_slot_returns_harmless l g rets :
  crashed (slot_run l) = false -> forallb is_ret rets = true ->
  let s := slot_run (l ++ SLit g :: rets ++ [SGo]) in crashed s = false /\ hd_error (started s) = Some g.
Proof.
  intros H Hr. unfold slot_run in *. rewrite fold_left_app. cbn [fold_left].
  rewrite fold_left_app, (slot_rets _ rets Hr).
  destruct (fold_left slot_step l (mkSlot None [] false)); simpl in *. auto.
Qed.
