(** Evaluation of the C09 / C10 models on the cases written by the harness (correspondence check).
    [*_mis_y]: ids of the cases where what the implementation was observed to do is not what
               model Y (Cancel/Model.v) does;
    [*_mis_g]: ids of the cases where the contract G, evaluated here, differs from the verdict of
               the reference (the contract as evaluated by the harness / the behaviour before the
               first cancellation). *)
From Verif Require Import Cancel.Model.

(** ---------------------------------------------------------------- C09 *)

(** what the harness observes of one cancelled evaluation (timing-free):
    o_ret   : EvalWithContext returned the context's error (within the generous real-time bound)
    o_many  : after the release some goroutine executed more than one interpreted operation
    o_after : arguments of the host tick calls made after EvalWithContext had returned, in order
    o_left  : interpreted goroutines still alive at the end (not counting goroutines parked in a
              host call such as WaitGroup.Wait, which no interpreter could interrupt) *)
Record obs := mkObs { o_ret : bool; o_many : bool; o_after : list nat; o_left : nat }.

Definition new_events (st0 st : state) : list event :=
  firstn (List.length (log st) - List.length (log st0)) (log st).

Definition ticks_of (l : list event) : list nat :=
  flat_map (fun e => match snd e with Some n => [n] | None => [] end) (rev l).

Definition outcome (st0 st : state) : bool * list nat * nat :=
  let ev := new_events st0 st in
  (existsb (fun u => 1 <? evs u ev) (seq 0 (List.length (threads st))),
   ticks_of ev,
   List.length (filter (fun u => negb (exited st u)) (seq 0 (List.length (threads st))))).

Fixpoint list_nat_eqb (a b : list nat) : bool :=
  match a, b with
  | [], [] => true
  | x :: a', y :: b' => (x =? y) && list_nat_eqb a' b'
  | _, _ => false
  end.

Definition outcome_eqb (o : obs) (c : bool * list nat * nat) : bool :=
  let '(m, a, l) := c in Bool.eqb (o_many o) m && list_nat_eqb (o_after o) a && (o_left o =? l).

Section C09.
Variable F : list (list instr).

(** states in which thread t0 has passed the gate for its next operation (that is where the step
    hook parks it) after exactly tb ticks; [blocked]: only those where that operation blocks *)
Fixpoint cands (fuel : nat) (st : state) (t0 tb : nat) (blocked : bool) : list state :=
  match fuel with
  | O => []
  | S n =>
      if tb <? tks t0 (log st) then []
      else
        let th := thread_of st t0 in
        let here :=
          armed th && (tks t0 (log st) =? tb) &&
          (negb blocked ||
           match stack th with
           | a :: _ => match fetch F a with Some (Block _) => true | _ => false end
           | [] => false
           end) in
        if here && blocked then [st]
        else (if here then [st] else []) ++ cands n (step F st t0 false) t0 tb blocked
  end.

Definition settle (st : state) (order : list nat) (fuel : nat) : state :=
  fold_left (fun s t => solo F s t (repeat false fuel)) order st.

(** cancel in state st, let the host do [post], then schedule the threads of [order] to quiescence *)
Definition finish (post : list action) (order : list nat) (fuel : nat) (st : state) : bool * list nat * nat :=
  let s1 := do_action F st AStop in
  outcome s1 (settle (run F s1 post) order fuel).

(** how the blocking code of a session was loaded *)
Inductive loader := LEval | LEvalCtx | LEvalPath | LImport.

(** session: (an EvalWithContext of something trivial first, or not); the code
      var ch = make(chan int); func blk() int { <blocking construct c on ch>; return 1 }
    loaded by [ld]; then EvalWithContext(ctx, "blk()"), cancelled while blocked.
    Functions: 0 = the loaded declarations, 1 = blk, 2 = the expression blk(), 3 = something trivial *)
Definition sess_load (first_ctx : bool) (ld : loader) : list action :=
  (if first_ctx then session [PRoot 3] ++ alone 0 4 else [])
  ++ match ld with
     | LEvalCtx => [ABegin; AExecute [PRoot 0]]
     | LEval | LEvalPath | LImport => [AExecute [PRoot 0]]
     end.
Definition sess_t0 (first_ctx : bool) : nat := if first_ctx then 2 else 1.
Definition sess_F (first_ctx : bool) (ld : loader) (c : construct) : list (list instr) :=
  [ [Nop]; [Nop; Block (gen_canc c (begun (sess_load first_ctx ld))); Ret]; [Nop; Call 1]; [Nop] ].

Inductive scen :=
| SPark (pre : list action) (t0 : nat) (p : list phase) (blocked : bool)
        (post : list action) (order : list nat) (tb : nat)
| SExpired (p : list phase)
| SConc (nthreads : nat)
| SConcGen (nthreads : nat)   (* as SConc, but the program was compiled (Compile) before the interpreter's first
                                 *WithContext call: the bodies of its function literals were generated then, with
                                 cancelChan false (Model.gen_canc): their plain send / receive operations do not see
                                 the cancellation and those goroutines may be left *)
| SSess (first_ctx : bool) (ld : loader) (c : construct).

Definition y_outcomes (s : scen) : list (bool * list nat * nat) :=
  match s with
  | SPark pre t0 p blocked post order tb =>
      map (finish post order 400)
          (cands (40 * tb + 300) (run F fresh (pre ++ session p)) t0 tb blocked)
  | SExpired p =>
      (* the race in EvalWithContext: stop() may come before Execute refreshes the root frame
         (everything runs), or at any moment after it and before the first operation has been
         executed: before the phases start (main still gets the new generation and runs), or after
         main's frame was created and before its first gate check (nothing runs), or when the first
         operation is already in flight *)
      let s1 := run F fresh [ABegin; AStop] in
      let s0 := run F fresh [ABegin; AExecute p] in
      outcome s1 (settle (do_action F s1 (AExecute p)) [0] 400)
      :: flat_map (fun n => let st := solo F s0 0 (repeat false n) in
                            match log st with
                            | [] => [finish [] [0] 400 st]
                            | _ => []
                            end) (seq 0 16)
  | SConc _ => []
  | SConcGen _ => []
  | SSess _ _ _ => []
  end.

Definition y_ok0 (s : scen) (o : obs) : bool :=
  match s with
  | SConc n =>
      (* C09_gate_partial / C09_ticks / C09_exits: whatever the schedule *)
      o_ret o && negb (o_many o) && (o_left o =? 0) && (List.length (o_after o) <=? n)
  | SConcGen n =>
      (* the exit clause of C09_gate_partial does not apply to threads stuck in Block false *)
      o_ret o && negb (o_many o) && (o_left o <=? n) && (List.length (o_after o) <=? n)
  | _ => o_ret o && existsb (outcome_eqb o) (y_outcomes s)
  end.

End C09.

(** sessions bring their own function table: the cancellability of blk's blocking operation is
    decided by the session prefix (Model.gen_canc) *)
Definition sess_park (first_ctx : bool) (ld : loader) : scen :=
  SPark (sess_load first_ctx ld ++ alone (sess_t0 first_ctx - 1) 6) (sess_t0 first_ctx) [PRoot 2] true [] [sess_t0 first_ctx] 0.

Definition y_ok (F : list (list instr)) (s : scen) (o : obs) : bool :=
  match s with
  | SSess first ld c => y_ok0 (sess_F first ld c) (sess_park first ld) o
  | _ => y_ok0 F s o
  end.

Section C09g.

(** the contract: the call returns the context's error; nobody executes more than the operation in
    flight; at most one visible effect per goroutine that was running; every goroutine exits *)
Definition g_ok (s : scen) (o : obs) : bool :=
  let n := match s with SPark _ _ _ _ _ _ _ => 1 | SExpired _ => 0 | SConc k => k | SConcGen k => k | SSess _ _ _ => 1 end in
  o_ret o && negb (o_many o) && (o_left o =? 0) && (List.length (o_after o) <=? n).

End C09g.

Definition c09_case := (N * list (list instr) * scen * obs * bool)%type.

Definition c09_mis_y (cs : list c09_case) : list N :=
  flat_map (fun '(id, F, s, o, _) => if y_ok F s o then [] else [id]) cs.
Definition c09_mis_g (cs : list c09_case) : list N :=
  flat_map (fun '(id, F, s, o, ref) => if Bool.eqb (g_ok s o) ref then [] else [id]) cs.

(** ---------------------------------------------------------------- C10 *)

Inductive dkind := KNamed | KMethod | KClosVar | KMethVal | KChanFn.
Inductive via :=
| VEval       (* Eval("f(2)") *)
| VEvalCtx    (* EvalWithContext(background, "f(2)") *)
| VHost.      (* direct call of a function value the host holds (from Eval(name) or Symbols) *)
Inductive ckind :=
| CBusy       (* for {} cancelled after some operations *)
| CBlocked    (* two goroutines blocked on a channel *)
| CExpNot     (* context already expired; the evaluation did not execute anything *)
| CExpRan     (* context already expired; the evaluation ran all the same (stop() came first) *)
| CInDef.     (* the cancelled evaluation calls the earlier definition with the blocking construct and
                 is cancelled while blocked in it (the partner is held back by the host) *)
Inductive hev :=
| HDefine     (* clo = func ... : the variable receives a new function literal *)
| HUse (k : dkind) (v : via)
| HCancel (c : ckind)
| HEvalCtx.   (* an EvalWithContext of something trivial that is not cancelled *)

Definition use_body (k : dkind) : nat :=
  match k with KNamed => 4 | KMethod => 5 | KClosVar => 6 | KMethVal => 7 | KChanFn => 14 end.
Definition host_fn (k : dkind) : nat :=
  match k with KNamed => 0 | KMethod => 1 | KClosVar => 2 | KMethVal => 3 | KChanFn => 13 end.
(** ticks a complete use performs *)
Definition use_ticks (k : dkind) : list nat :=
  match k with KNamed => [10] | KMethod => [11] | KClosVar => [12] | KMethVal => [13] | KChanFn => [14; 15] end.

Definition nthreads (st : state) : nat := List.length (threads st).
Definition quiet (n : nat) : list bool := repeat false n.

(** the channel rendez-vous of KChanFn: the partner arrives later, so the first attempt finds
    the channel not ready (oracle false) and the operation waits; a live wait ends with the
    partner arriving (oracle true) *)
Definition use_bits : list bool := quiet 8 ++ [true] ++ quiet 8.

Definition y_use (st : state) (k : dkind) (v : via) : state * bool :=
  let t := nthreads st in
  let st1 :=
    match v with
    | VEval => do_action F10 st (AExecute [PRoot (use_body k)])
    | VEvalCtx => run F10 st [ABegin; AExecute [PRoot (use_body k)]]
    | VHost => match k with
               | KClosVar => do_action F10 st (AHostClos 0)
               | _ => do_action F10 st (AHostCall (host_fn k))
               end
    end in
  let st2 := solo F10 st1 t use_bits in
  (st2, list_nat_eqb (ticks_of (filter (fun e => fst e =? t) (new_events st st2))) (use_ticks k)).

Definition y_cancel (st : state) (c : ckind) : state :=
  let t := nthreads st in
  match c with
  | CBusy => run F10 st ([ABegin; AExecute [PRoot 9]] ++ alone t 9 ++ [AStop] ++ alone t 4)
  | CBlocked => run F10 st ([ABegin; AExecute [PRoot 10]] ++ alone t 8 ++ alone (S t) 4 ++ [AStop]
                            ++ alone t 4 ++ alone (S t) 4)
  | CExpNot => run F10 st ([ABegin; AExecute [PRoot 12]; AStop] ++ alone t 4)
  | CExpRan => run F10 st ([ABegin; AStop; AExecute [PRoot 12]] ++ alone t 6)
  | CInDef => run F10 st ([ABegin; AExecute [PRoot 14]] ++ alone t 10 ++ [AStop] ++ alone t 6)
  end.

Fixpoint y_hist (st : state) (h : list hev) : list bool :=
  match h with
  | [] => []
  | HDefine :: h' => y_hist (solo F10 (do_action F10 st (AExecute [PRoot 8])) (nthreads st) (quiet 6)) h'
  | HUse k v :: h' => let '(st', r) := y_use st k v in r :: y_hist st' h'
  | HCancel c :: h' => y_hist (y_cancel st c) h'
  | HEvalCtx :: h' => y_hist (run F10 st ([ABegin; AExecute [PRoot 12]] ++ alone (nthreads st) 6)) h'
  end.

(** G: a use behaves as it did before any cancellation *)
Fixpoint g_hist (h : list hev) : list bool :=
  match h with
  | [] => []
  | HUse _ _ :: h' => true :: g_hist h'
  | _ :: h' => g_hist h'
  end.

Fixpoint list_bool_eqb (a b : list bool) : bool :=
  match a, b with
  | [], [] => true
  | x :: a', y :: b' => Bool.eqb x y && list_bool_eqb a' b'
  | _, _ => false
  end.

(** every session starts with the definitions (one Execute that also creates the function literal) *)
Definition start10 : state := solo F10 (do_action F10 fresh (AExecute [PRoot 8])) 0 (quiet 6).

Definition c10_case := (N * list hev * list bool * list bool)%type.
Definition c10_mis_y (cs : list c10_case) : list N :=
  flat_map (fun '(id, h, impl, _) => if list_bool_eqb (y_hist start10 h) impl then [] else [id]) cs.
Definition c10_mis_g (cs : list c10_case) : list N :=
  flat_map (fun '(id, h, _, ref) => if list_bool_eqb (g_hist h) ref then [] else [id]) cs.

(** C10 as stated: whatever the history of redefinitions, uses and cancelled evaluations, every
    use yields what it yielded before the first cancellation *)
Definition C10_contract : Prop := forall h, y_hist start10 h = g_hist h.

Definition is_named (k : dkind) (v : via) : bool :=
  match k, v with
  | (KNamed | KMethod | KMethVal), (VEval | VEvalCtx) => true
  | _, _ => false
  end.

(** r lists the results of the uses of h; every use selected by [sel] is as before *)
Fixpoint uses_ok (sel : dkind -> via -> bool) (h : list hev) (r : list bool) : Prop :=
  match h with
  | [] => True
  | HUse k v :: h' =>
      match r with
      | b :: r' => (sel k v = true -> b = true) /\ uses_ok sel h' r'
      | [] => False
      end
  | _ :: h' => uses_ok sel h' r
  end.
