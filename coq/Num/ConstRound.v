(** C02 — an untyped constant converted to a floating-point destination.
    G: the Go specification rounds the exact constant once to the precision of the destination
       ("x's value is rounded to T's precision"), overflow is a compile-time error.
    Y: typecheck.convertConst uses constant.Float32Val for float32 / complex64 and
       constant.Float64Val for float64 / complex128: one rounding of the exact value (the text of
       those cases is regenerated from the source, see Proofs.convertconst_tie).
    The alternative "round to float64 first, then to float32" ([double32]) is a different function;
    [double_rounding_refuted] gives the witness, [double_agrees_on_float64] one side of the
    characterisation.  IEEE rounding over Q comes from Const/Base.v.  Definitions and two lemmas. *)
From Coq Require Import ZArith QArith List Bool.
From Verif Require Const.Base.
Import ListNotations.

Definition round32 (q : Q) : option Q := Base.round_q 24 128 q.
Definition round64 (q : Q) : option Q := Base.round_q 53 1024 q.

Definition g_const_float (is32 : bool) (q : Q) : option Q := if is32 then round32 q else round64 q.
Definition y_const_float (is32 : bool) (q : Q) : option Q := if is32 then round32 q else round64 q.

(** exact -> float64 -> float32 *)
Definition double32 (q : Q) : option Q := match round64 q with Some r => round32 r | None => None end.

Definition optq_eqb (a b : option Q) : bool :=
  match a, b with
  | Some x, Some y => Qeq_bool x y
  | None, None => true
  | _, _ => false
  end.

(** the constant 16777217.0000000001 lies just above the midpoint of the float32 values 16777216 and
    16777218: rounded once it is 16777218; its float64 rounding is the midpoint itself, which then
    ties to the even neighbour 16777216 *)
Definition q_witness : Q := 167772170000000001 # 10000000000.

Lemma double_rounding_refuted :
  optq_eqb (round32 q_witness) (Some (16777218 # 1)) = true
  /\ optq_eqb (round64 q_witness) (Some (16777217 # 1)) = true
  /\ optq_eqb (double32 q_witness) (Some (16777216 # 1)) = true.
Proof. repeat split; vm_compute; reflexivity. Qed.

(** 1 + 2^-24 + 2^-60, the constant expression 1 + 1.0/(1<<24) + 1.0/(1<<60) *)
Definition q_witness2 : Q := (1152921504606846976 + 68719476736 + 1) # 1152921504606846976.

Lemma double_rounding_refuted2 :
  optq_eqb (round32 q_witness2) (Some (8388609 # 8388608)) = true
  /\ optq_eqb (double32 q_witness2) (Some (1 # 1)) = true.
Proof. repeat split; vm_compute; reflexivity. Qed.

(** where the two agree: on every value that float64 represents exactly (in particular on every
    run-time float64 -> float32 conversion, and on the "ordinary" constants 0.5, 1.5, 2^k ...) *)
Lemma double_agrees_on_float64 q : round64 q = Some q -> double32 q = round32 q.
Proof. intros H. unfold double32. rewrite H. reflexivity. Qed.

(** ... and the two can only differ when the float64 rounding moved the value *)
Lemma double_differs_only_off_float64 q : double32 q <> round32 q -> round64 q <> Some q.
Proof. intros H E. apply H. apply double_agrees_on_float64. exact E. Qed.

Lemma const_float_full b q : y_const_float b q = g_const_float b q.
Proof. reflexivity. Qed.

(** correspondence cases written by the harness: destination is float32?, exact constant,
    value observed from the implementation, value printed by compiled Go (None = not a finite number) *)
Definition const_case := (N * bool * Q * option Q * option Q)%type.

Definition const_mis_y (cs : list const_case) : list N :=
  flat_map (fun '(id, b, q, impl, _) => if optq_eqb (y_const_float b q) impl then [] else [id]) cs.
Definition const_mis_g (cs : list const_case) : list N :=
  flat_map (fun '(id, b, q, _, ref) => if optq_eqb (g_const_float b q) ref then [] else [id]) cs.

(** how many of a list of constants are sensitive to double rounding *)
Definition double_sensitive (qs : list Q) : list Q :=
  filter (fun q => negb (optq_eqb (double32 q) (round32 q))) qs.
