(** C02 — floating point, base definitions: the two IEEE-754 formats of Go (binary32 = float32,
    binary64 = float64) as Flocq [BinarySingleNaN.binary_float] (one NaN: payloads are never
    observed), and the conversion between formats with round-to-nearest-even ([fconv], the
    definition of CompCert's Bconv: a finite number is re-normalised in the target format, zeros,
    infinities and NaN map to themselves).  Definitions only. *)
From Coq Require Import ZArith Bool.
From Flocq Require Import Core.Zaux Core.FLT IEEE754.BinarySingleNaN.
Open Scope Z_scope.

Definition f32 := binary_float 24 128.
Definition f64 := binary_float 53 1024.

Global Instance prec32 : FLX.Prec_gt_0 24 := eq_refl.
Global Instance pmax32 : Prec_lt_emax 24 128 := eq_refl.
Global Instance prec64 : FLX.Prec_gt_0 53 := eq_refl.
Global Instance pmax64 : Prec_lt_emax 53 1024 := eq_refl.

Definition fconv {p e : Z} (p' e' : Z) {H1 : FLX.Prec_gt_0 p'} {H2 : Prec_lt_emax p' e'}
           (x : binary_float p e) : binary_float p' e' :=
  match x with
  | B754_zero s => B754_zero s
  | B754_infinity s => B754_infinity s
  | B754_nan => B754_nan
  | B754_finite s m ex _ => binary_normalize p' e' H1 H2 mode_NE (cond_Zopp s (Zpos m)) ex s
  end.

(** float64(x) for x float32 (exact) and float32(x) for x float64 (one rounding) *)
Definition up (x : f32) : f64 := fconv 53 1024 x.
Definition down (x : f64) : f32 := fconv 24 128 x.

Definition plus32 : f32 -> f32 -> f32 := @Bplus 24 128 _ _ mode_NE.
Definition minus32 : f32 -> f32 -> f32 := @Bminus 24 128 _ _ mode_NE.
Definition mult32 : f32 -> f32 -> f32 := @Bmult 24 128 _ _ mode_NE.
Definition div32 : f32 -> f32 -> f32 := @Bdiv 24 128 _ _ mode_NE.
Definition plus64 : f64 -> f64 -> f64 := @Bplus 53 1024 _ _ mode_NE.
Definition minus64 : f64 -> f64 -> f64 := @Bminus 53 1024 _ _ mode_NE.
Definition mult64 : f64 -> f64 -> f64 := @Bmult 53 1024 _ _ mode_NE.
Definition div64 : f64 -> f64 -> f64 := @Bdiv 53 1024 _ _ mode_NE.
