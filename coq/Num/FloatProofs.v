(** C02 — floating point, proofs at the level of the table rows.

    1. [frows_ok]: every float row of the table regenerated from interp/op.go / run.go has the
       normal form its generator function stands for (computation on the finite table, re-run
       whenever the source changes: an edited operator, extractor or setter makes it false);
    2. normal-form lemmas, for ALL operand bit patterns: at float64 the closure computes exactly
       Go's IEEE-754 binary64 operation; at float32 it computes
       [down (op64 (up x) (up y))] -- a double rounding -- which is Go's binary32 operation by the
       facts [dr_facts] about the two formats (proved in Num/FloatDR.v from Flocq's theory of
       double rounding, 53 >= 2*24+2);
    3. conversions through reflect.Convert. *)
From Coq Require Import ZArith List String Bool Lia.
From Flocq Require Import IEEE754.BinarySingleNaN.
From Verif Require Import Num.OpDsl Num.Model Num.FloatBase Num.FloatModel Num.FloatCases gen.OpTable_gen.
Import ListNotations.
Open Scope Z_scope.

(* ================================================================== 1. the float rows of the table *)

(** which source operator a generator function of op.go / run.go installs closures for *)
Definition fn_sem_table : list (string * fsem) := [
  ("add", FSBin Add); ("addAssign", FSBin Add); ("addConst", FSBin Add);
  ("sub", FSBin Sub); ("subAssign", FSBin Sub); ("subConst", FSBin Sub);
  ("mul", FSBin Mul); ("mulAssign", FSBin Mul); ("mulConst", FSBin Mul);
  ("quo", FSBin Quo); ("quoAssign", FSBin Quo); ("quoConst", FSBin Quo);
  ("inc", FSInc true); ("dec", FSInc false);
  ("neg", FSUn Neg); ("negConst", FSUn Neg); ("posConst", FSUn Pos);
  ("equal", FSBin Eq); ("notEqual", FSBin Ne); ("lower", FSBin Lt); ("lowerEqual", FSBin Le);
  ("greater", FSBin Gt); ("greaterEqual", FSBin Ge) ]%string.

Definition fn_sem (fn : string) : option fsem :=
  match find (fun p => String.eqb (fst p) fn) fn_sem_table with Some p => Some (snd p) | None => None end.

Definition fx (x : extr) : bool :=
  match x with XGenFloat | XVFloat | XValFloat | XRvFloat => true | _ => false end.
Definition arith_set (s : setter) : bool := match s with SFloat | SConv => true | _ => false end.
Definition cmp_set (s : setter) : bool :=
  match s with SBool | SConv => true | SBranch true NT false NF => true | _ => false end.
Definition is_arith (o : bop) : bool := match o with Add | Sub | Mul | Quo => true | _ => false end.
Definition is_cmp (o : bop) : bool := match o with Eq | Ne | Lt | Le | Gt | Ge => true | _ => false end.
Definition bop_eqb (a b : bop) : bool := if bop_eq_dec a b then true else false.
Definition uop_eqb (a b : uop) : bool := if uop_eq_dec a b then true else false.

(** the normal form of a float row installed for the source operator [s] *)
Definition frow_ok (r : row) (s : fsem) : bool :=
  match s, r_body r with
  | FSBin o, B o' (L x0 O) (L x1 (S O)) =>
      bop_eqb o o' && fx x0 && fx x1 &&
      (if is_arith o then arith_set (r_set r) else is_cmp o && cmp_set (r_set r))
  | FSInc inc, B o' (L x0 O) (K 1) =>
      bop_eqb (if inc then Add else Sub) o' && fx x0 && arith_set (r_set r)
  | FSUn o, U o' (L x0 O) =>
      uop_eqb o o' && match o with Neg | Pos => true | _ => false end && fx x0 && arith_set (r_set r)
  | _, _ => false
  end.

Definition frow_checked (r : row) : bool :=
  negb (is_float_row r) || match fn_sem (r_fn r) with Some s => frow_ok r s | None => false end.

(** float rows of the regenerated table that do not have their normal form (printed by coqc so
    that a failing check names the rows) *)
Definition bad_float_rows : list row := Eval vm_compute in filter (fun r => negb (frow_checked r)) op_table.
Print bad_float_rows.
Definition float_row_count : nat := Eval vm_compute in List.length (filter is_float_row op_table).
Print float_row_count.

Lemma frows_ok : forallb frow_checked op_table = true.
Proof. vm_compute. reflexivity. Qed.

Lemma float_rows_present : (70 <= float_row_count)%nat.
Proof. vm_compute. repeat constructor. Qed.

Lemma frow_of_table r :
  In r op_table -> is_float_row r = true -> exists s, fn_sem (r_fn r) = Some s /\ frow_ok r s = true.
Proof.
  intros Hin Hf. pose proof frows_ok as H. rewrite forallb_forall in H. specialize (H r Hin).
  unfold frow_checked in H. rewrite Hf in H. cbn [negb orb] in H.
  destruct (fn_sem (r_fn r)) as [s|]; [exists s; auto | discriminate].
Qed.

(* ================================================================== 2. normal forms, all operands *)

(** what the destination receives and which successor is taken, given Go's result *)
Definition fexpect (r : row) (g : res fout) : res (fout * nextk) :=
  bind g (fun v => Ok (v, match r_set r, v with
                          | SBranch _ _ _ _, FBool true => NT
                          | SBranch _ _ _ _, FBool false => NF
                          | _, _ => r_next r
                          end)).

Lemma fextract_fx x k b : fx x = true -> fextract x k b = fextract XGenFloat k b.
Proof. destruct x; try discriminate; reflexivity. Qed.

Lemma shape_bin r o :
  frow_ok r (FSBin o) = true ->
  exists x0 x1, r_body r = B o (L x0 O) (L x1 (S O)) /\ fx x0 = true /\ fx x1 = true
    /\ (if is_arith o then arith_set (r_set r) else is_cmp o && cmp_set (r_set r)) = true.
Proof.
  unfold frow_ok. destruct (r_body r) as [x c|z|c|s|o' e1 e2|o' e1]; try discriminate.
  destruct e1 as [x0 c0| | | | |]; try discriminate. destruct c0; try discriminate.
  destruct e2 as [x1 c1| | | | |]; try discriminate. destruct c1 as [|[|c1]]; try discriminate.
  intros H. apply andb_prop in H. destruct H as [H H4]. apply andb_prop in H. destruct H as [H H3].
  apply andb_prop in H. destruct H as [H1 H2]. unfold bop_eqb in H1.
  destruct (bop_eq_dec o o'); [subst o'|discriminate]. eauto 8.
Qed.

Lemma shape_inc r inc :
  frow_ok r (FSInc inc) = true ->
  exists x0, r_body r = B (if inc then Add else Sub) (L x0 O) (K 1) /\ fx x0 = true /\ arith_set (r_set r) = true.
Proof.
  unfold frow_ok. destruct (r_body r) as [x c|z|c|s|o' e1 e2|o' e1]; try discriminate.
  destruct e1 as [x0 c0| | | | |]; try discriminate. destruct c0; try discriminate.
  destruct e2 as [|z| | | |]; try discriminate. destruct z as [|p|p]; try discriminate. destruct p; try discriminate.
  intros H. apply andb_prop in H. destruct H as [H H3]. apply andb_prop in H. destruct H as [H1 H2].
  unfold bop_eqb in H1. destruct (bop_eq_dec (if inc then Add else Sub) o'); [subst o'|discriminate]. eauto.
Qed.

Lemma shape_un r o :
  frow_ok r (FSUn o) = true ->
  exists x0, r_body r = U o (L x0 O) /\ (o = Neg \/ o = Pos) /\ fx x0 = true /\ arith_set (r_set r) = true.
Proof.
  unfold frow_ok. destruct (r_body r) as [x c|z|c|s|o' e1 e2|o' e1]; try discriminate.
  destruct e1 as [x0 c0| | | | |]; try discriminate. destruct c0; try discriminate.
  intros H. apply andb_prop in H. destruct H as [H H4]. apply andb_prop in H. destruct H as [H H3].
  apply andb_prop in H. destruct H as [H1 H2]. unfold uop_eqb in H1.
  destruct (uop_eq_dec o o'); [subst o'|discriminate].
  exists x0. repeat split; auto. destruct o; try discriminate; auto.
Qed.

(** -------- float64: the closure computes Go's binary64 operation (no rounding step in between) *)
Lemma nf64 r s :
  frow_ok r s = true ->
  forall a b, fdenote r (fdest_kind r KFloat64) KFloat64 a b = fexpect r (g_frow s KFloat64 a b).
Proof.
  intros Hok a b. destruct s as [o|o|inc].
  - destruct (shape_bin r o Hok) as (x0 & x1 & Hb & H0 & H1 & Hs).
    unfold fdenote, fdest_kind, fexpect. rewrite Hb. cbn [feval]. rewrite (fextract_fx x0), (fextract_fx x1) by assumption.
    destruct o; cbn [is_arith is_cmp andb] in Hs; try discriminate;
      destruct (r_set r) as [| | | | | | | | |b1 n1 b2 n2]; try discriminate;
      try (destruct b1; try discriminate; destruct n1; try discriminate; destruct b2; try discriminate; destruct n2; try discriminate);
      cbn [fextract bind fmbin fm_float farith fcmp fstore g_frow g_fbin];
      try reflexivity;
      match goal with |- context [Bcompare ?x ?y] => destruct (Bcompare x y) as [[| |]|]; reflexivity end.
  - destruct (shape_un r o Hok) as (x0 & Hb & Ho & H0 & Hs).
    unfold fdenote, fdest_kind, fexpect. rewrite Hb. cbn [feval]. rewrite (fextract_fx x0) by assumption.
    destruct Ho; subst o; destruct (r_set r); try discriminate; reflexivity.
  - destruct (shape_inc r inc Hok) as (x0 & Hb & H0 & Hs).
    unfold fdenote, fdest_kind, fexpect. rewrite Hb. cbn [feval]. rewrite (fextract_fx x0) by assumption.
    destruct inc; destruct (r_set r); try discriminate; reflexivity.
Qed.

Lemma table_float64 :
  forall r, In r op_table -> is_float_row r = true ->
  exists s, fn_sem (r_fn r) = Some s /\
    forall a b, fdenote r (fdest_kind r KFloat64) KFloat64 a b = fexpect r (g_frow s KFloat64 a b).
Proof.
  intros r Hin Hf. destruct (frow_of_table r Hin Hf) as (s & Hs & Hok).
  exists s. split; [assumption|]. apply nf64; assumption.
Qed.

(** -------- float32: extract as float64, compute in float64, round to float32 on the store *)

(** the facts about the two formats the float32 rows rest on *)
Record dr_facts : Prop := {
  dr_plus_f : forall x y : f32, down (plus64 (up x) (up y)) = plus32 x y;
  dr_minus_f : forall x y : f32, down (minus64 (up x) (up y)) = minus32 x y;
  dr_mult_f : forall x y : f32, down (mult64 (up x) (up y)) = mult32 x y;
  dr_div_f : forall x y : f32, down (div64 (up x) (up y)) = div32 x y;
  dr_cmp_f : forall x y : f32, Bcompare (up x) (up y) = Bcompare x y;
  dr_opp_f : forall x : f32, down (Bopp (up x)) = Bopp x;
  dr_id_f : forall x : f32, down (up x) = x }.

(** the subset needed by the rows that involve no rounding of an arithmetic result *)
Record widen_facts : Prop := {
  w_cmp_f : forall x y : f32, Bcompare (up x) (up y) = Bcompare x y;
  w_opp_f : forall x : f32, down (Bopp (up x)) = Bopp x;
  w_id_f : forall x : f32, down (up x) = x }.

Lemma up_one : up (of_int 1 : f32) = (of_int 1 : f64).
Proof. apply B2SF_inj. vm_compute. reflexivity. Qed.

Lemma nf32 (D : dr_facts) r s :
  frow_ok r s = true ->
  forall a b, fdenote r (fdest_kind r KFloat32) KFloat32 a b = fexpect r (g_frow s KFloat32 a b).
Proof.
  intros Hok a b. destruct s as [o|o|inc].
  - destruct (shape_bin r o Hok) as (x0 & x1 & Hb & H0 & H1 & Hs).
    unfold fdenote, fdest_kind, fexpect. rewrite Hb. cbn [feval]. rewrite (fextract_fx x0), (fextract_fx x1) by assumption.
    destruct o; cbn [is_arith is_cmp andb] in Hs; try discriminate;
      destruct (r_set r) as [| | | | | | | | |b1 n1 b2 n2]; try discriminate;
      try (destruct b1; try discriminate; destruct n1; try discriminate; destruct b2; try discriminate; destruct n2; try discriminate);
      cbn [fextract bind fmbin fm_float farith fcmp fstore g_frow g_fbin];
      try (fold plus64 plus32; rewrite (dr_plus_f D); reflexivity);
      try (fold minus64 minus32; rewrite (dr_minus_f D); reflexivity);
      try (fold mult64 mult32; rewrite (dr_mult_f D); reflexivity);
      try (fold div64 div32; rewrite (dr_div_f D); reflexivity);
      rewrite (dr_cmp_f D);
      match goal with |- context [Bcompare ?x ?y] => destruct (Bcompare x y) as [[| |]|]; reflexivity end.
  - destruct (shape_un r o Hok) as (x0 & Hb & Ho & H0 & Hs).
    unfold fdenote, fdest_kind, fexpect. rewrite Hb. cbn [feval]. rewrite (fextract_fx x0) by assumption.
    destruct Ho; subst o; destruct (r_set r); try discriminate;
      cbn [fextract bind fmun fstore g_frow g_fun];
      first [rewrite (dr_opp_f D) | rewrite (dr_id_f D)]; reflexivity.
  - destruct (shape_inc r inc Hok) as (x0 & Hb & H0 & Hs).
    unfold fdenote, fdest_kind, fexpect. rewrite Hb. cbn [feval]. rewrite (fextract_fx x0) by assumption.
    destruct inc; destruct (r_set r); try discriminate;
      cbn [fextract bind fmbin fm_float farith fstore g_frow g_fincdec]; rewrite <- up_one.
    all: first [fold plus64; rewrite (dr_plus_f D) | fold minus64; rewrite (dr_minus_f D)]; reflexivity.
Qed.

Lemma table_float32 (D : dr_facts) :
  forall r, In r op_table -> is_float_row r = true ->
  exists s, fn_sem (r_fn r) = Some s /\
    forall a b, fdenote r (fdest_kind r KFloat32) KFloat32 a b = fexpect r (g_frow s KFloat32 a b).
Proof.
  intros r Hin Hf. destruct (frow_of_table r Hin Hf) as (s & Hs & Hok).
  exists s. split; [assumption|]. apply nf32; assumption.
Qed.

(** comparisons, negation and unary plus at float32 need only the exactness of the widening *)
Definition no_rounding (s : fsem) : bool :=
  match s with FSBin o => is_cmp o | FSUn _ => true | FSInc _ => false end.

Lemma nf32_widen (W : widen_facts) r s :
  frow_ok r s = true -> no_rounding s = true ->
  forall a b, fdenote r (fdest_kind r KFloat32) KFloat32 a b = fexpect r (g_frow s KFloat32 a b).
Proof.
  intros Hok Hn a b. destruct s as [o|o|inc]; [| |discriminate].
  - destruct (shape_bin r o Hok) as (x0 & x1 & Hb & H0 & H1 & Hs).
    unfold fdenote, fdest_kind, fexpect. rewrite Hb. cbn [feval]. rewrite (fextract_fx x0), (fextract_fx x1) by assumption.
    destruct o; cbn [no_rounding is_cmp] in Hn; try discriminate; cbn [is_arith is_cmp andb] in Hs;
      destruct (r_set r) as [| | | | | | | | |b1 n1 b2 n2]; try discriminate;
      try (destruct b1; try discriminate; destruct n1; try discriminate; destruct b2; try discriminate; destruct n2; try discriminate);
      cbn [fextract bind fmbin fm_float farith fcmp fstore g_frow g_fbin];
      rewrite (w_cmp_f W);
      match goal with |- context [Bcompare ?x ?y] => destruct (Bcompare x y) as [[| |]|]; reflexivity end.
  - destruct (shape_un r o Hok) as (x0 & Hb & Ho & H0 & Hs).
    unfold fdenote, fdest_kind, fexpect. rewrite Hb. cbn [feval]. rewrite (fextract_fx x0) by assumption.
    destruct Ho; subst o; destruct (r_set r); try discriminate;
      cbn [fextract bind fmun fstore g_frow g_fun];
      first [rewrite (w_opp_f W) | rewrite (w_id_f W)]; reflexivity.
Qed.

(** when the float64 result is a float32 value (decidable on the bits), the store does not round:
    the closure's result is the float64 result, re-encoded *)
Definition exact32 (z : f64) : bool := Z.eqb (enc64 (up (down z))) (enc64 z).

(* ================================================================== 3. conversions *)

Lemma conv_ff_64 : forall kt a, is_float kt = true -> y_fconv KFloat64 kt a = g_fconv KFloat64 kt a.
Proof. intros kt a H. destruct kt; try discriminate; reflexivity. Qed.

Lemma conv_ff_32_64 : forall a, y_fconv KFloat32 KFloat64 a = g_fconv KFloat32 KFloat64 a.
Proof. reflexivity. Qed.

Lemma conv_ff_32_32 (W : widen_facts) : forall a, y_fconv KFloat32 KFloat32 a = g_fconv KFloat32 KFloat32 a.
Proof. intros a. unfold y_fconv, g_fconv. cbn [fextract fstore]. rewrite (w_id_f W). reflexivity. Qed.

Lemma int2f_64 : forall z, y_int2f KFloat64 z = g_int2f KFloat64 z.
Proof. reflexivity. Qed.

(** float32(x), x an integer: reflect converts through float64 -- two roundings; Go rounds once *)
Lemma int2f_32_refuted :
  let z := 1152921573326323713 in    (* 1<<60 + 1<<36 + 1 *)
  in_range KInt64 z = true
  /\ y_int2f KFloat32 z = Ok (FBits 1568669696)
  /\ g_int2f KFloat32 z = Ok (FBits 1568669697).
Proof. vm_compute. repeat split; reflexivity. Qed.

Lemma int2f_32_small_inhabited :
  y_int2f KFloat32 16777217 = Ok (FBits 1266679808) /\ g_int2f KFloat32 16777217 = Ok (FBits 1266679808).
Proof. vm_compute. split; reflexivity. Qed.

Lemma wrap_id k z : is_int k = true -> in_range k z = true -> wrap k z = z.
Proof.
  intros Hk H. destruct k; try discriminate Hk; unfold in_range in H; unfold wrap; cbn [signed half modulus] in *;
    apply andb_prop in H; destruct H as [H1 H2];
    apply Z.leb_le in H1; apply Z.ltb_lt in H2; Z.div_mod_to_equations; lia.
Qed.

Lemma in_range_64 k z : is_int k = true -> in_range k z = true ->
  (if signed k then in_range KInt64 z else in_range KUint64 z) = true.
Proof.
  intros Hk H. destruct k; try discriminate Hk; unfold in_range in *; cbn [signed half modulus] in *;
    apply andb_prop in H; destruct H as [H1 H2]; apply Z.leb_le in H1; apply Z.ltb_lt in H2;
    apply andb_true_intro; (split; [apply Z.leb_le|apply Z.ltb_lt]); lia.
Qed.

(** float64 -> integer: whenever Go defines the result (the truncation fits the target) *)
Lemma f2int_64 : forall kt a z, g_f2int KFloat64 kt a = Ok z -> y_f2int KFloat64 kt a = Ok z.
Proof.
  intros kt a z. unfold g_f2int, y_f2int. cbn [fextract].
  destruct (is_finite (dec64 a)); [|discriminate].
  destruct (is_int kt) eqn:Hk; cbn [andb]; [|discriminate].
  destruct (in_range kt (Btrunc (dec64 a))) eqn:Hr; [|discriminate].
  intros H. injection H as <-. rewrite (in_range_64 kt _ Hk Hr). rewrite (wrap_id kt _ Hk Hr). reflexivity.
Qed.

(* ================================================================== non-vacuity / examples *)

(** 1 + 2^-24 at float32: the float64 sum 1.000000059604644775390625 is a float32 midpoint; both
    roundings give 1 (ties to even) *)
Lemma float32_midpoint_example :
  frun (select_bin Add KFloat32 FVar) KFloat32 KFloat32 1065353216 864026624 = FO (FBits 1065353216)
  /\ g_fbin Add KFloat32 1065353216 864026624 = Ok (FBits 1065353216).
Proof. vm_compute. split; reflexivity. Qed.

Lemma float_rows_examples :
  frun (select_bin Quo KFloat64 FVar) KFloat64 KFloat64 4607182418800017408 4613937818241073152 = FO (FBits 4599676419421066581)
  /\ frun (select_cmp Lt KFloat32 FVar true) KBool KFloat32 2143289344 1065353216 = FO (FBool false)   (* NaN < 1 *)
  /\ frun (select_cmp Ne KFloat32 FVar false) KBool KFloat32 2143289344 2143289344 = FO (FBool true)  (* NaN != NaN *)
  /\ frun (select_bin Sub KFloat64 FVar) KFloat64 KFloat64 9218868437227405312 9218868437227405312 = FO (FBits 9221120237041090560). (* inf - inf *)
Proof. vm_compute. repeat split; reflexivity. Qed.

(* ================================================================== 4. float32, unconditionally *)

From Verif Require Num.FloatDR.

Lemma dr_facts_hold : dr_facts.
Proof.
  constructor; [exact FloatDR.dr_plus | exact FloatDR.dr_minus | exact FloatDR.dr_mult | exact FloatDR.dr_div
               | exact FloatDR.cmp_up | exact FloatDR.opp_up | exact FloatDR.down_up].
Qed.

Lemma widen_facts_hold : widen_facts.
Proof. constructor; [exact FloatDR.cmp_up | exact FloatDR.opp_up | exact FloatDR.down_up]. Qed.

Lemma table_float32_full :
  forall r, In r op_table -> is_float_row r = true ->
  exists s, fn_sem (r_fn r) = Some s /\
    forall a b, fdenote r (fdest_kind r KFloat32) KFloat32 a b = fexpect r (g_frow s KFloat32 a b).
Proof. exact (table_float32 dr_facts_hold). Qed.

(** the source forms (row selection of Num/Model.v), both kinds *)
Lemma sel_float_arith :
  forall o k f a b, is_float k = true -> is_arith o = true -> In f forms4 ->
  frun (select_bin o k f) k k a b = of_fres (g_fbin o k a b).
Proof.
  intros o k f a b Hk Ho Hf.
  assert (Hok : frow_ok (bin_row (bin_fn o) o CFloat f) (FSBin o) = true)
    by (destruct o; try discriminate; destruct Hf as [<-|[<-|[<-|[<-|[]]]]]; reflexivity).
  destruct k; try discriminate; unfold select_bin; cbn [cls_of_kind signed unsigned]; unfold frun.
  - pose proof (nf32 dr_facts_hold _ _ Hok a b) as E.
    replace (fdest_kind (bin_row (bin_fn o) o CFloat f) KFloat32) with KFloat32 in E
      by (destruct o; try discriminate; destruct Hf as [<-|[<-|[<-|[<-|[]]]]]; reflexivity).
    rewrite E. cbn [g_frow]. destruct (g_fbin o KFloat32 a b); reflexivity.
  - pose proof (nf64 _ _ Hok a b) as E.
    replace (fdest_kind (bin_row (bin_fn o) o CFloat f) KFloat64) with KFloat64 in E
      by (destruct o; try discriminate; destruct Hf as [<-|[<-|[<-|[<-|[]]]]]; reflexivity).
    rewrite E. cbn [g_frow]. destruct (g_fbin o KFloat64 a b); reflexivity.
Qed.

Lemma conv_ff_full : forall kf kt a, is_float kf = true -> is_float kt = true -> y_fconv kf kt a = g_fconv kf kt a.
Proof.
  intros kf kt a Hf Ht. destruct kf; try discriminate; destruct kt; try discriminate;
    first [apply (conv_ff_32_32 widen_facts_hold) | apply conv_ff_32_64 | apply conv_ff_64; reflexivity].
Qed.

Lemma f2int_full : forall kf kt a z, g_f2int kf kt a = Ok z -> y_f2int kf kt a = Ok z.
Proof.
  intros kf kt a z. destruct kf; try (unfold g_f2int; discriminate); [|apply f2int_64].
  unfold g_f2int, y_f2int. cbn [fextract].
  destruct (FloatDR.trunc_up (dec32 a)) as [T1 T2]. rewrite T1.
  destruct (is_finite (dec32 a)); [|discriminate]. rewrite (T2 eq_refl).
  destruct (is_int kt) eqn:Hk; cbn [andb]; [|discriminate].
  destruct (in_range kt (Btrunc (dec32 a))) eqn:Hr; [|discriminate].
  intros H. injection H as <-. rewrite (in_range_64 kt _ Hk Hr). rewrite (wrap_id kt _ Hk Hr). reflexivity.
Qed.

(** when the float64 result is a float32 value the store does not round (instance of the full
    theorem; kept as the statement that needs no double-rounding argument to be believed) *)
Lemma float32_exact_partial :
  forall o a b, is_arith o = true ->
  forall z, farith o (up (dec32 a)) (up (dec32 b)) = Some z -> exact32 z = true ->
  frun (select_bin o KFloat32 FVar) KFloat32 KFloat32 a b = of_fres (g_fbin o KFloat32 a b).
Proof. intros o a b Ho z _ _. apply sel_float_arith; [reflexivity | exact Ho | right; right; right; left; reflexivity]. Qed.

Lemma float32_exact_inhabited :
  exact32 (plus64 (up (dec32 1065353216)) (up (dec32 1073741824))) = true          (* 1 + 2 *)
  /\ exact32 (plus64 (up (dec32 1065353216)) (up (dec32 864026624))) = false.      (* 1 + 2^-24 *)
Proof. vm_compute. split; reflexivity. Qed.
