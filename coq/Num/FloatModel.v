(** C02 — floating point: a denotation for the float rows of the operator table.

    Values are BIT PATTERNS (Z): a float64 is its 64-bit IEEE-754 binary64 encoding, a float32 its
    32-bit binary32 encoding (Flocq [Bits.b64_of_bits] / [Bits.bits_of_b64] ...).  NaN payloads are
    never observed: decoding forgets the payload ([Binary.B2BSN]) and encoding always produces the
    canonical quiet NaN (0x7FF8000000000000 / 0x7FC00000); the harness canonicalises what it
    observes in the same way.

    G_float ([g_fbin], [g_fcmp], [g_fneg], [g_fincdec], [g_fconv], [g_int2f], [g_f2int]): Go's
    semantics = the IEEE-754 operation of the operand kind's own format, round to nearest even.

    Y_float ([fdenote]): what the closure of a regenerated table row does: the extractors
    genValueFloat / vFloat / Value.Float() read a float32 operand as float64 (exact widening),
    the expression is evaluated on float64 machine values, and SetFloat / Set(ValueOf(e).Convert(typ))
    on a float32 slot round the float64 result to float32 -- a double rounding.  Definitions only. *)
From Coq Require Import ZArith List String Bool.
From Flocq Require Import IEEE754.BinarySingleNaN.
From Flocq Require IEEE754.Binary IEEE754.Bits.
From Verif Require Import Num.OpDsl Num.FloatBase.
Import ListNotations.
Open Scope Z_scope.

(* ------------------------------------------------------------------ bit patterns *)

Definition nan64 : {x : Binary.binary_float 53 1024 | Binary.is_nan 53 1024 x = true} :=
  exist _ (Binary.B754_nan 53 1024 false 2251799813685248%positive eq_refl) eq_refl.   (* 2^51 *)
Definition nan32 : {x : Binary.binary_float 24 128 | Binary.is_nan 24 128 x = true} :=
  exist _ (Binary.B754_nan 24 128 false 4194304%positive eq_refl) eq_refl.              (* 2^22 *)

Definition dec64 (z : Z) : f64 := Binary.B2BSN 53 1024 (Bits.b64_of_bits z).
Definition dec32 (z : Z) : f32 := Binary.B2BSN 24 128 (Bits.b32_of_bits z).
Definition enc64 (x : f64) : Z := Bits.bits_of_b64 (Binary.BSN2B 53 1024 nan64 x).
Definition enc32 (x : f32) : Z := Bits.bits_of_b32 (Binary.BSN2B 24 128 nan32 x).

(* ------------------------------------------------------------------ operations of one format *)

Section Fmt.
Context {p e : Z} {Hp : FLX.Prec_gt_0 p} {He : Prec_lt_emax p e}.
Notation F := (binary_float p e).

Definition farith (o : bop) (a b : F) : option F :=
  match o with
  | Add => Some (Bplus mode_NE a b) | Sub => Some (Bminus mode_NE a b)
  | Mul => Some (Bmult mode_NE a b) | Quo => Some (Bdiv mode_NE a b)
  | _ => None
  end.

(** comparisons: every ordered comparison with a NaN is false, != is true *)
Definition fcmp (o : bop) (a b : F) : option bool :=
  let c := Bcompare a b in
  match o with
  | Eq => Some (match c with Some Datatypes.Eq => true | _ => false end)
  | Ne => Some (match c with Some Datatypes.Eq => false | _ => true end)
  | Lt => Some (match c with Some Datatypes.Lt => true | _ => false end)
  | Le => Some (match c with Some Datatypes.Lt | Some Datatypes.Eq => true | _ => false end)
  | Gt => Some (match c with Some Datatypes.Gt => true | _ => false end)
  | Ge => Some (match c with Some Datatypes.Gt | Some Datatypes.Eq => true | _ => false end)
  | _ => None
  end.

(** an integer converted to the format (one rounding, to nearest even) *)
Definition of_int (z : Z) : F := binary_normalize p e Hp He mode_NE z 0 false.
End Fmt.

(* ------------------------------------------------------------------ G_float *)

Inductive fout := FBits (z : Z) | FBool (b : bool).

Definition fout_eqb (a b : fout) : bool :=
  match a, b with FBits x, FBits y => x =? y | FBool x, FBool y => Bool.eqb x y | _, _ => false end.

Definition is_float (k : rkind) : bool := match k with KFloat32 | KFloat64 => true | _ => false end.

(** x op y at kind k (+ - * /: bits of the result; comparisons: bool) *)
Definition g_fbin (o : bop) (k : rkind) (a b : Z) : res fout :=
  match k with
  | KFloat64 =>
      match farith o (dec64 a) (dec64 b) with
      | Some r => Ok (FBits (enc64 r))
      | None => match fcmp o (dec64 a) (dec64 b) with Some c => Ok (FBool c) | None => Bad end
      end
  | KFloat32 =>
      match farith o (dec32 a) (dec32 b) with
      | Some r => Ok (FBits (enc32 r))
      | None => match fcmp o (dec32 a) (dec32 b) with Some c => Ok (FBool c) | None => Bad end
      end
  | _ => Bad
  end.

Definition g_fun (o : uop) (k : rkind) (a : Z) : res fout :=
  match o, k with
  | Neg, KFloat64 => Ok (FBits (enc64 (Bopp (dec64 a))))
  | Neg, KFloat32 => Ok (FBits (enc32 (Bopp (dec32 a))))
  | Pos, KFloat64 => Ok (FBits (enc64 (dec64 a)))
  | Pos, KFloat32 => Ok (FBits (enc32 (dec32 a)))
  | _, _ => Bad
  end.

(** x++ / x--: x += 1 with the untyped constant 1 converted to the kind of x *)
Definition g_fincdec (inc : bool) (k : rkind) (a : Z) : res fout :=
  match k with
  | KFloat64 => Ok (FBits (enc64 (if inc then plus64 (dec64 a) (of_int 1) else minus64 (dec64 a) (of_int 1))))
  | KFloat32 => Ok (FBits (enc32 (if inc then plus32 (dec32 a) (of_int 1) else minus32 (dec32 a) (of_int 1))))
  | _ => Bad
  end.

(** conversions between the float kinds: float32(x) rounds once, float64(x) is exact *)
Definition g_fconv (kf kt : rkind) (a : Z) : res fout :=
  match kf, kt with
  | KFloat64, KFloat64 => Ok (FBits (enc64 (dec64 a)))
  | KFloat32, KFloat32 => Ok (FBits (enc32 (dec32 a)))
  | KFloat64, KFloat32 => Ok (FBits (enc32 (down (dec64 a))))
  | KFloat32, KFloat64 => Ok (FBits (enc64 (up (dec32 a))))
  | _, _ => Bad
  end.

(** integer (any integer kind, value z) to float: ONE rounding to the target format *)
Definition g_int2f (kt : rkind) (z : Z) : res fout :=
  match kt with
  | KFloat64 => Ok (FBits (enc64 (of_int z)))
  | KFloat32 => Ok (FBits (enc32 (of_int z)))
  | _ => Bad
  end.

(** float to integer kind kt: truncation toward zero when the truncated value fits the target
    (anything else -- NaN, infinities, out of range -- is implementation-defined in Go: [Bad]) *)
Definition g_f2int (kf kt : rkind) (a : Z) : res Z :=
  let t := match kf with
           | KFloat64 => if is_finite (dec64 a) then Some (Btrunc (dec64 a)) else None
           | KFloat32 => if is_finite (dec32 a) then Some (Btrunc (dec32 a)) else None
           | _ => None
           end in
  match t with
  | Some z => if is_int kt && in_range kt z then Ok z else Bad
  | None => Bad
  end.

(* ------------------------------------------------------------------ Y_float: the rows *)

(** machine values of a float closure: a float64, a bool, an untyped integer constant of the text *)
Inductive fmval := FM (x : f64) | FMB (b : bool) | FMK (z : Z).

(** genValueFloat(c)(f) / vFloat(c.rval) / Value.Float(): the operand as float64 *)
Definition fextract (x : extr) (k : rkind) (bits : Z) : res fmval :=
  match x with
  | XGenFloat | XVFloat | XValFloat | XRvFloat =>
      match k with
      | KFloat64 => Ok (FM (dec64 bits))
      | KFloat32 => Ok (FM (up (dec32 bits)))
      | _ => Bad
      end
  | _ => Bad
  end.

Definition fm_float (m : fmval) : option f64 :=
  match m with FM x => Some x | FMK z => Some (of_int z) | FMB _ => None end.

Definition fmbin (o : bop) (x y : fmval) : res fmval :=
  match fm_float x, fm_float y with
  | Some a, Some b =>
      match farith o a b with
      | Some r => Ok (FM r)
      | None => match fcmp o a b with Some c => Ok (FMB c) | None => Bad end
      end
  | _, _ => Bad
  end.

Definition fmun (o : uop) (x : fmval) : res fmval :=
  match o, x with
  | Neg, FM a => Ok (FM (Bopp a))
  | Pos, FM a => Ok (FM a)
  | _, _ => Bad
  end.

(** value of a closure expression; operand kinds [ka], [kb], operand bits [a], [b] *)
Fixpoint feval (e : ex) (ka kb : rkind) (a b : Z) : res fmval :=
  match e with
  | L x c => match c with O => fextract x ka a | S O => fextract x kb b | _ => Bad end
  | K z => Ok (FMK z)
  | B o e1 e2 => bind (feval e1 ka kb a b) (fun x => bind (feval e2 ka kb a b) (fun y => fmbin o x y))
  | U o e1 => bind (feval e1 ka kb a b) (fun x => fmun o x)
  | _ => Bad
  end.

(** SetFloat(x) / Set(ValueOf(x).Convert(typ)) on a slot of kind [kd]: float32 slots round *)
Definition fstore (s : setter) (kd : rkind) (m : fmval) : res fout :=
  match s, m with
  | (SFloat | SConv), FM x =>
      match kd with
      | KFloat64 => Ok (FBits (enc64 x))
      | KFloat32 => Ok (FBits (enc32 (down x)))
      | _ => match s with SFloat => Pan PReflect | _ => Bad end
      end
  | (SBool | SConv), FMB c => match kd with KBool => Ok (FBool c) | _ => Bad end
  | _, _ => Bad
  end.

(** one execution of the closure of row [r]: operands of kind [k], destination slot of kind [kd] *)
Definition fdenote (r : row) (kd k : rkind) (a b : Z) : res (fout * nextk) :=
  match r_set r with
  | SBranch b1 n1 b2 n2 =>
      bind (feval (r_body r) k k a b) (fun m =>
        match m with
        | FMB c => if c then Ok (FBool b1, n1) else Ok (FBool b2, n2)
        | _ => Bad
        end)
  | s => bind (feval (r_body r) k k a b) (fun m => bind (fstore s kd m) (fun v => Ok (v, r_next r)))
  end.

(** the float rows of a table: rows whose kind list or guard says float *)
Definition is_float_row (r : row) : bool :=
  match r_guard r with
  | GFloat => true
  | _ => existsb is_float (r_kinds r)
  end.

(** kind of the destination slot of a float row for operands of kind k *)
Definition fdest_kind (r : row) (k : rkind) : rkind :=
  match r_body r with
  | B (Eq | Ne | Lt | Le | Gt | Ge) _ _ => KBool
  | _ => k
  end.

(** the operator a row is installed for, read off its generator function name *)
Inductive fsem := FSBin (o : bop) | FSUn (o : uop) | FSInc (inc : bool).

(** Go's meaning of the source form a float row implements *)
Definition g_frow (s : fsem) (k : rkind) (a b : Z) : res fout :=
  match s with
  | FSBin o => g_fbin o k a b
  | FSUn o => g_fun o k a
  | FSInc inc => g_fincdec inc k a
  end.

(* ------------------------------------------------------------------ conversions in yaegi *)

(** run.go convert: dest.Set(value.Convert(typ)).  reflect converts float -> float through
    Value.Float() (float64) and makeFloat (float32(v) for a 4-byte target); integer -> float through
    float64(v.Int()) / float64(v.Uint()) and makeFloat: TWO roundings for a float32 target; float ->
    integer through int64(v.Float()) / uint64(v.Float()) and a store truncated to the target width. *)
Definition y_fconv (kf kt : rkind) (a : Z) : res fout :=
  match fextract XValFloat kf a with
  | Ok m => fstore SConv kt m
  | _ => Bad
  end.

Definition y_int2f (kt : rkind) (z : Z) : res fout := fstore SConv kt (FM (of_int z)).

Definition y_f2int (kf kt : rkind) (a : Z) : res Z :=
  match fextract XValFloat kf a with
  | Ok (FM x) =>
      if is_finite x then
        let t := Btrunc x in
        if is_int kt && (if signed kt then in_range KInt64 t else in_range KUint64 t) then Ok (wrap kt t) else Bad
      else Bad
  | _ => Bad
  end.
