(** C02 — G: what the Go specification prescribes for operators and conversions on the integer
    kinds (int8..int64, int, uint8..uint64, uint, uintptr; int/uint/uintptr 64 bits wide), on
    booleans and on strings.  Operands are the mathematical values of the operands (within the
    range of their kind); results are mathematical values of the result kind.  Definitions only.

    Spec references: "Arithmetic operators", "Integer operators" (truncated division, x / -1
    overflow, shifts: the count is an integer, a negative count panics, shifts behave as if the
    left operand were shifted n times by 1), "Integer overflow" (wrap around), "Comparison
    operators", "Conversions between numeric types" (sign extension / truncation to the size of
    the result type). *)
From Coq Require Import ZArith List String Bool.
From Verif Require Import Num.OpDsl.
Import ListNotations.
Open Scope Z_scope.

(** + - * / % & | ^ &^ at kind k *)
Definition go_arith (o : bop) (k : rkind) (x y : Z) : res Z :=
  match zop o x y with
  | Some z => if is_div o && (y =? 0) then Pan PDivZero else Ok (wrap k z)
  | None => Bad
  end.

(** x << s, x >> s; x of kind k, s the value of a count of any integer kind *)
Definition go_shift (o : bop) (k : rkind) (x s : Z) : res Z :=
  if s <? 0 then Pan PNegShift else
  match o with
  | Shl => Ok (if width k <=? s then 0 else wrap k (Z.shiftl x s))
  | Shr => Ok (if width k <=? s then (if x <? 0 then -1 else 0) else Z.shiftr x s)
  | _ => Bad
  end.

Definition go_cmp (o : bop) (x y : Z) : res bool :=
  match zcmp o x y with Some c => Ok c | None => Bad end.

Definition go_unary (o : uop) (k : rkind) (x : Z) : res Z :=
  match o with
  | Neg => Ok (wrap k (- x))
  | BitNot => Ok (wrap k (Z.lnot x))
  | Pos => Ok x
  | Not => Bad
  end.

Definition go_inc (k : rkind) (x : Z) : Z := wrap k (x + 1).
Definition go_dec (k : rkind) (x : Z) : Z := wrap k (x - 1).

(** T(x) for integer kinds *)
Definition go_conv (kto : rkind) (x : Z) : Z := wrap kto x.

(** strings *)
Definition go_concat (a b : string) : string := a ++ b.
Definition go_scmp (o : bop) (a b : string) : res bool :=
  match scmp o a b with Some c => Ok c | None => Bad end.

(** booleans *)
Definition go_not (b : bool) : bool := negb b.
Definition go_beq (o : bop) (a b : bool) : res bool :=
  match o with Eq => Ok (Bool.eqb a b) | Ne => Ok (negb (Bool.eqb a b)) | _ => Bad end.
