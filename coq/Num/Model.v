(** C02 — the mechanism model Y as a table: [model_table] is the hand-written transcription of the
    generated closures of interp/op.go (per operator function: kind class x operand form) and of
    neg/pos/bitNot/not in interp/run.go, in the row language of Num/OpDsl.v; its denotation is
    [OpDsl.denote].  Num/Proofs.v proves (by computation, on every run) that the table regenerated
    from the source by `vh tr-ops` is this table, function by function and in order.
    [select_*] say which row the compiler (cfg.go) installs for a source form.  Definitions only. *)
From Coq Require Import ZArith List String Bool.
From Verif Require Import Num.OpDsl Num.GoInt.
Import ListNotations.
Open Scope string_scope.
Open Scope Z_scope.

Definition ints := [KInt; KInt8; KInt16; KInt32; KInt64].
Definition uints := [KUint; KUint8; KUint16; KUint32; KUint64; KUintptr].
Definition uints_noptr := [KUint; KUint8; KUint16; KUint32; KUint64].
Definition floats := [KFloat32; KFloat64].
Definition cplxs := [KComplex64; KComplex128].

Inductive cls := CStr | CInt | CUint | CFloat | CCplx.

Definition cls_kinds (c : cls) : list rkind :=
  match c with CStr => [KString] | CInt => ints | CUint => uints | CFloat => floats | CCplx => cplxs end.
(** run-time extractor of the binary operators *)
Definition cls_gen (c : cls) : extr :=
  match c with CStr => XValStr | CInt => XGenInt | CUint => XGenUint | CFloat => XGenFloat | CCplx => XGenCplx end.
(** run-time extractor of the comparison operators and of the left operand of op= *)
Definition cls_gen2 (c : cls) : extr :=
  match c with CStr => XGenStr | CInt => XGenInt | CUint => XGenUint | CFloat => XGenFloat | CCplx => XGenCplx end.
(** constant operand *)
Definition cls_v (c : cls) : extr :=
  match c with CStr => XVStr | CInt => XVInt | CUint => XVUint | CFloat => XVFloat | CCplx => XVCplx end.
Definition cls_rv (c : cls) : extr :=
  match c with CStr => XRvStr | CInt => XRvInt | CUint => XRvUint | CFloat => XRvFloat | CCplx => XRvCplx end.
Definition cls_set (c : cls) : setter :=
  match c with CStr => SString | CInt => SInt | CUint => SUint | CFloat => SFloat | CCplx => SComplex end.
Definition cls_guard (c : cls) : guard :=
  match c with CStr => GStr | CInt => GInt | CUint => GUint | CFloat => GFloat | CCplx => GCplx end.

(** the count of a shift is always read as uint64 *)
Definition opd1_gen (o : bop) (c : cls) : extr := if is_shift o then XGenUint else cls_gen c.
Definition opd1_v (o : bop) (c : cls) : extr := if is_shift o then XVUint else cls_v c.

(* ------------------------------------------------------------------ binary operators: add, sub, ... *)

Definition bin_row (fn : string) (o : bop) (c : cls) (f : form) : row :=
  match f with
  | FIface => mk_row fn (cls_kinds c) "typ:concrete" GNone FIface false DOut SConv false NT
                     (B o (L (cls_gen c) 0) (L (opd1_gen o c) 1))
  | FC0 => mk_row fn (cls_kinds c) "typ:concrete" GNone FC0 false DOut (cls_set c) false NT
                  (B o (L (cls_v c) 0) (L (opd1_gen o c) 1))
  | FC1 => mk_row fn (cls_kinds c) "typ:concrete" GNone FC1 false DOut (cls_set c) false NT
                  (B o (L (cls_gen c) 0) (L (opd1_v o c) 1))
  | _ => mk_row fn (cls_kinds c) "typ:concrete" GNone FVar false DOut (cls_set c) false NT
                (B o (L (cls_gen c) 0) (L (opd1_gen o c) 1))
  end.

Definition forms4 := [FIface; FC0; FC1; FVar].

Definition bin_rows (fn : string) (o : bop) (cs : list cls) : list row :=
  flat_map (fun c => map (bin_row fn o c) forms4) cs.

(* ------------------------------------------------------------------ constant folds: addConst, ... *)

Definition src_row (fn src : string) : row :=
  mk_row fn [] "none" GConst FNone false DRval SSrc false NT (Src src).

Definition fold_row (fn : string) (o : bop) (c : cls) : row :=
  mk_row fn [] "none" (cls_guard c) FFold false DRval (cls_set c) false NT
         (B o (L (cls_v c) 0) (L (opd1_v o c) 1)).

Definition ufold_row (fn : string) (o : uop) (c : cls) : row :=
  mk_row fn [] "none" (cls_guard c) FFold false DRval (cls_set c) false NT (U o (L (cls_rv c) 0)).

Definition binop_src (tok : string) : string :=
  "v := constant.BinaryOp(vConstantValue(v0), token." ++ tok ++ ", vConstantValue(v1)); n.rval.Set(reflect.ValueOf(v))".
Definition intop_src (tok : string) : string :=
  "v := constant.BinaryOp(constant.ToInt(vConstantValue(v0)), token." ++ tok ++ ", constant.ToInt(vConstantValue(v1))); n.rval.Set(reflect.ValueOf(v))".
Definition shift_src (tok : string) : string :=
  "v := constant.Shift(vConstantValue(v0), token." ++ tok ++ ", uint(vUint(v1))); n.rval.Set(reflect.ValueOf(v))".
Definition unop_src (tok : string) : string :=
  "v := constant.UnaryOp(token." ++ tok ++ ", vConstantValue(v0), 0); n.rval.Set(reflect.ValueOf(v))".
Definition quo_src : string :=
  "var operator token.Token; if n.typ.untyped && isInt(n.typ.rtype) { operator = token.QUO_ASSIGN } else { operator = token.QUO }; v := constant.BinaryOp(vConstantValue(v0), operator, vConstantValue(v1)); n.rval.Set(reflect.ValueOf(v))".

Definition fold_rows (fn src : string) (o : bop) (cs : list cls) : list row :=
  src_row fn src :: map (fold_row fn o) cs.
Definition ufold_rows (fn src : string) (o : uop) (cs : list cls) : list row :=
  src_row fn src :: map (ufold_row fn o) cs.

(* ------------------------------------------------------------------ op= : addAssign, ... *)

Definition asg_row (fn : string) (o : bop) (c : cls) (f : form) : row :=
  let l0 := match c with CCplx => XValCplx | _ => cls_gen2 c end in
  let l1 := match f with
            | FC1 => opd1_v o c
            | _ => match c with CCplx => XValCplx | CStr => XValStr | _ => opd1_gen o c end
            end in
  mk_row fn (cls_kinds c) "typ:plain" GNone f false (DOpd 0) (cls_set c) true NT (B o (L l0 0) (L l1 1)).

Definition asg_rows (fn : string) (o : bop) (cs : list cls) : list row :=
  map (fun c => asg_row fn o c FC1) cs ++ map (fun c => asg_row fn o c FVar) cs.

(* ------------------------------------------------------------------ ++ and -- *)

Definition incdec_row (fn : string) (o : bop) (c : cls) : row :=
  let ks := match c with CUint => uints_noptr | _ => cls_kinds c end in   (* no case for uintptr *)
  let l0 := match c with CCplx => XValCplx | _ => cls_gen2 c end in
  mk_row fn ks "typ:plain" GNone FNone false (DOpd 0) (cls_set c) true NT (B o (L l0 0) (K 1)).

Definition incdec_rows (fn : string) (o : bop) : list row :=
  map (incdec_row fn o) [CInt; CUint; CFloat; CCplx].

(* ------------------------------------------------------------------ comparisons *)

(** the value-setting closures use either the output generator (DOutBool) or genValue(n) (DNode) *)
Definition cmp_dest (c : cls) (f : form) : dest :=
  match f, c with
  | FC0, (CStr | CFloat | CCplx) => DOutBool
  | FC1, CStr => DOutBool
  | FVar, (CStr | CCplx) => DOutBool
  | _, _ => DNode
  end.

Definition br := SBranch true NT false NF.

Definition cmp_rows_of (fn : string) (o : bop) (g : guard) (x0 x1 v0 v1 : extr)
           (d : form -> dest) (iface_dest : dest) : list row :=
  [ mk_row fn [] "none" g FIface false iface_dest SConv false NT (B o (L x0 0) (L x1 1));
    mk_row fn [] "none" g FC0 true DOutBool br false NT (B o (L v0 0) (L x1 1));
    mk_row fn [] "none" g FC0 false (d FC0) SBool false NT (B o (L v0 0) (L x1 1));
    mk_row fn [] "none" g FC1 true DOutBool br false NT (B o (L x0 0) (L v1 1));
    mk_row fn [] "none" g FC1 false (d FC1) SBool false NT (B o (L x0 0) (L v1 1));
    mk_row fn [] "none" g FVar true DOutBool br false NT (B o (L x0 0) (L x1 1));
    mk_row fn [] "none" g FVar false (d FVar) SBool false NT (B o (L x0 0) (L x1 1)) ].

Definition cmp_cls_rows (fn : string) (o : bop) (c : cls) : list row :=
  cmp_rows_of fn o (cls_guard c) (cls_gen2 c) (cls_gen2 c) (cls_v c) (cls_v c) (cmp_dest c) DOutBool.

Definition iface_rows (fn : string) (o : bop) (g : guard) (iface_dest : dest) : list row :=
  cmp_rows_of fn o g XValIface XValIface XRvIface XRvIface (fun _ => DNode) iface_dest.

Definition ord_rows (fn : string) (o : bop) : list row :=
  flat_map (cmp_cls_rows fn o) [CStr; CFloat; CUint; CInt].

Definition eq_rows (fn : string) (o : bop) : list row :=
  iface_rows fn o GLinked DNode
  ++ [ mk_row fn [] "none" GIfaceOpd FNone true DOutBool br false NT (B o (L XValIface 0) (L XValIface 1));
       mk_row fn [] "none" GIfaceOpd FNone false DNode SBool false NT (B o (L XValIface 0) (L XValIface 1)) ]
  ++ flat_map (cmp_cls_rows fn o) [CStr; CFloat; CUint; CInt; CCplx]
  ++ iface_rows fn o GDefault DOutBool.

(* ------------------------------------------------------------------ unary operators of run.go *)

Definition un_rows (fn ktag : string) (o : uop) (cs : list cls) : list row :=
  flat_map (fun c =>
    let x := match c with CInt => XValInt | CUint => XValUint | CFloat => XValFloat | _ => XValCplx end in
    [ mk_row fn (cls_kinds c) ktag GNone FIface false DNode SConv false NT (U o (L x 0));
      mk_row fn (cls_kinds c) ktag GNone FVar false DNode (cls_set c) false NT (U o (L x 0)) ]) cs.

Definition not_rows : list row :=
  [ mk_row "not" [] "none" GNone FNone true DNode br false NT (U Not (L XValBool 0));
    mk_row "not" [] "none" GNone FNone false DNode SBool false NT (U Not (L XValBool 0)) ].

(** && and || (run.go land / lor): in branch context (the node has a false successor: condition of
    if / for / case, or left operand of an enclosing && / ||) the closure stores the result in the
    node's frame slot on BOTH paths before branching; the enclosing operator reads that slot, which
    is zeroed only when the frame is created. *)
Definition logic_rows (fn : string) (o : bop) : list row :=
  [ mk_row fn [] "none" GNone FNone true DNode br false NT (B o (L XValBool 0) (L XValBool 1));
    mk_row fn [] "none" GNone FIface false DNode SConv false NT (B o (L XValBool 0) (L XValBool 1));
    mk_row fn [] "none" GNone FVar false DNode SBool false NT (B o (L XValBool 0) (L XValBool 1)) ].

Definition pos_rows : list row :=
  [ mk_row "pos" [] "none" GNone FNone false DNode SSet false NT (L XVal 0) ].

(* ------------------------------------------------------------------ the whole table, per function *)

Definition all5 := [CStr; CInt; CUint; CFloat; CCplx].
Definition num4 := [CInt; CUint; CFloat; CCplx].
Definition int2 := [CInt; CUint].
Definition fold5 := [CStr; CCplx; CFloat; CUint; CInt].
Definition fold4 := [CCplx; CFloat; CUint; CInt].
Definition fold2 := [CUint; CInt].
Definition ufold4 := [CUint; CInt; CFloat; CCplx].

Definition model_fns : list (string * list row) := [
  ("add", bin_rows "add" Add all5);            ("addConst", fold_rows "addConst" (binop_src "ADD") Add fold5);
  ("and", bin_rows "and" And int2);            ("andConst", fold_rows "andConst" (intop_src "AND") And fold2);
  ("andNot", bin_rows "andNot" AndNot int2);   ("andNotConst", fold_rows "andNotConst" (intop_src "AND_NOT") AndNot fold2);
  ("mul", bin_rows "mul" Mul num4);            ("mulConst", fold_rows "mulConst" (binop_src "MUL") Mul fold4);
  ("or", bin_rows "or" Or int2);               ("orConst", fold_rows "orConst" (intop_src "OR") Or fold2);
  ("quo", bin_rows "quo" Quo num4);            ("quoConst", fold_rows "quoConst" quo_src Quo fold4);
  ("rem", bin_rows "rem" Rem int2);            ("remConst", fold_rows "remConst" (intop_src "REM") Rem fold2);
  ("shl", bin_rows "shl" Shl int2);            ("shlConst", fold_rows "shlConst" (shift_src "SHL") Shl fold2);
  ("shr", bin_rows "shr" Shr int2);            ("shrConst", fold_rows "shrConst" (shift_src "SHR") Shr fold2);
  ("sub", bin_rows "sub" Sub num4);            ("subConst", fold_rows "subConst" (binop_src "SUB") Sub fold4);
  ("xor", bin_rows "xor" Xor int2);            ("xorConst", fold_rows "xorConst" (intop_src "XOR") Xor fold2);
  ("addAssign", asg_rows "addAssign" Add all5);
  ("andAssign", asg_rows "andAssign" And int2);
  ("andNotAssign", asg_rows "andNotAssign" AndNot int2);
  ("mulAssign", asg_rows "mulAssign" Mul num4);
  ("orAssign", asg_rows "orAssign" Or int2);
  ("quoAssign", asg_rows "quoAssign" Quo num4);
  ("remAssign", asg_rows "remAssign" Rem int2);
  ("shlAssign", asg_rows "shlAssign" Shl int2);
  ("shrAssign", asg_rows "shrAssign" Shr int2);
  ("subAssign", asg_rows "subAssign" Sub num4);
  ("xorAssign", asg_rows "xorAssign" Xor int2);
  ("dec", incdec_rows "dec" Sub);
  ("inc", incdec_rows "inc" Add);
  ("bitNotConst", ufold_rows "bitNotConst" (unop_src "XOR") BitNot fold2);
  ("negConst", ufold_rows "negConst" (unop_src "SUB") Neg ufold4);
  ("notConst", [src_row "notConst" (unop_src "NOT");
                mk_row "notConst" [] "none" GDefault FFold false DRval SBool false NT (U Not (L XRvBool 0))]);
  ("posConst", ufold_rows "posConst" (unop_src "ADD") Pos ufold4);
  ("equal", eq_rows "equal" Eq);
  ("greater", ord_rows "greater" Gt);
  ("greaterEqual", ord_rows "greaterEqual" Ge);
  ("lower", ord_rows "lower" Lt);
  ("lowerEqual", ord_rows "lowerEqual" Le);
  ("notEqual", eq_rows "notEqual" Ne);
  ("neg", un_rows "neg" "ntyp" Neg num4);
  ("pos", pos_rows);
  ("bitNot", un_rows "bitNot" "typ:concrete" BitNot int2);
  ("not", not_rows);
  ("land", logic_rows "land" LAnd);
  ("lor", logic_rows "lor" LOr)
].

Definition model_table : list row := flat_map snd model_fns.

(** interp/value.go: conversion applied by each extractor per kind case *)
Definition cplx_guard := "n.typ.untyped && n.rval.IsValid() && imag(n.rval.Complex()) == 0".
Definition extr_rows (fn : string) (ci cu cf cc : string) (g : string) : list (string * list rkind * string * string) :=
  [ (fn, ints, ci, ""); (fn, uints, cu, ""); (fn, floats, cf, ""); (fn, cplxs, cc, g) ].
Definition const_row (fn val conv : string) : string * list rkind * string * string :=
  (fn, [], "if c := vConstantValue(v); c != nil { i, _ = constant." ++ val ++ "(constant." ++ conv ++ "(c)) return i }", "const").

Definition model_extr_table : list (string * list rkind * string * string) :=
  extr_rows "genValueInt" "v.Int()" "int64(v.Uint())" "int64(v.Float())" "int64(real(v.Complex()))" cplx_guard
  ++ extr_rows "genValueUint" "uint64(v.Int())" "v.Uint()" "uint64(v.Float())" "uint64(real(v.Complex()))" cplx_guard
  ++ extr_rows "genValueFloat" "float64(v.Int())" "float64(v.Uint())" "v.Float()" "real(v.Complex())" cplx_guard
  ++ extr_rows "vInt" "v.Int()" "int64(v.Uint())" "int64(v.Float())" "int64(real(v.Complex()))" ""
  ++ [const_row "vInt" "Int64Val" "ToInt"]
  ++ extr_rows "vUint" "uint64(v.Int())" "v.Uint()" "uint64(v.Float())" "uint64(real(v.Complex()))" ""
  ++ [const_row "vUint" "Uint64Val" "ToInt"]
  ++ extr_rows "vFloat" "float64(v.Int())" "float64(v.Uint())" "v.Float()" "real(v.Complex())" ""
  ++ [const_row "vFloat" "Float64Val" "ToFloat"].

(** run.go convert: dest.Set(value.Convert(typ)) with typ the frame type of the target *)
Definition model_convert_closure : string :=
  "func(f *frame) bltn { if doConvert { dest(f).Set(value(f).Convert(typ)) } else { dest(f).Set(value(f)) } return next }".
Definition model_convert_typ : string := "n.child[0].typ.frameType()".

(* ------------------------------------------------------------------ decidable equality of rows *)

Definition rkind_eq_dec (a b : rkind) : {a = b} + {a <> b}. Proof. decide equality. Defined.
Definition bop_eq_dec (a b : bop) : {a = b} + {a <> b}. Proof. decide equality. Defined.
Definition uop_eq_dec (a b : uop) : {a = b} + {a <> b}. Proof. decide equality. Defined.
Definition extr_eq_dec (a b : extr) : {a = b} + {a <> b}. Proof. decide equality. Defined.
Definition ex_eq_dec (a b : ex) : {a = b} + {a <> b}.
Proof.
  decide equality; auto using extr_eq_dec, bop_eq_dec, uop_eq_dec, Z.eq_dec, Bool.bool_dec, string_dec, Nat.eq_dec.
Defined.
Definition guard_eq_dec (a b : guard) : {a = b} + {a <> b}. Proof. decide equality. Defined.
Definition form_eq_dec (a b : form) : {a = b} + {a <> b}. Proof. decide equality. Defined.
Definition dest_eq_dec (a b : dest) : {a = b} + {a <> b}. Proof. decide equality; apply Nat.eq_dec. Defined.
Definition nextk_eq_dec (a b : nextk) : {a = b} + {a <> b}. Proof. decide equality. Defined.
Definition setter_eq_dec (a b : setter) : {a = b} + {a <> b}.
Proof. decide equality; auto using nextk_eq_dec, Bool.bool_dec. Defined.
Definition row_eq_dec (a b : row) : {a = b} + {a <> b}.
Proof.
  decide equality; auto using ex_eq_dec, nextk_eq_dec, Bool.bool_dec, setter_eq_dec, dest_eq_dec,
    form_eq_dec, guard_eq_dec, string_dec, (list_eq_dec rkind_eq_dec).
Defined.

Definition rows_eqb (a b : list row) : bool := if list_eq_dec row_eq_dec a b then true else false.

Definition rows_of (fn : string) (t : list row) : list row := filter (fun r => String.eqb (r_fn r) fn) t.

Definition extr_entry_eq_dec (a b : string * list rkind * string * string) : {a = b} + {a <> b}.
Proof. repeat decide equality. Defined.

(* ------------------------------------------------------------------ which row runs for a source form *)

Definition cls_of_kind (k : rkind) : option cls :=
  if signed k then Some CInt else if unsigned k then Some CUint else
  match k with KString => Some CStr | KFloat32 | KFloat64 => Some CFloat | KComplex64 | KComplex128 => Some CCplx | _ => None end.

Definition bin_fn (o : bop) : string :=
  match o with
  | Add => "add" | Sub => "sub" | Mul => "mul" | Quo => "quo" | Rem => "rem" | And => "and" | Or => "or"
  | Xor => "xor" | AndNot => "andNot" | Shl => "shl" | Shr => "shr"
  | Eq => "equal" | Ne => "notEqual" | Lt => "lower" | Le => "lowerEqual" | Gt => "greater" | Ge => "greaterEqual"
  | _ => ""
  end.

(** x op y with result kind k: form FVar (two variables), FC0 / FC1 (constant left / right),
    FIface (interface-typed destination) *)
Definition select_bin (o : bop) (k : rkind) (f : form) : option row :=
  match cls_of_kind k with Some c => Some (bin_row (bin_fn o) o c f) | None => None end.

(** x op= y: FC1 (constant right) or FVar *)
Definition select_asg (o : bop) (k : rkind) (f : form) : option row :=
  match cls_of_kind k with Some c => Some (asg_row (bin_fn o ++ "Assign") o c f) | None => None end.

(** x++ / x--: the generator has no case for uintptr: no closure is installed *)
Definition select_incdec (inc : bool) (k : rkind) : option row :=
  match cls_of_kind k with
  | Some c =>
      let r := if inc then incdec_row "inc" Add c else incdec_row "dec" Sub c in
      if existsb (fun k' => if rkind_eq_dec k k' then true else false) (r_kinds r) then Some r else None
  | None => None
  end.

(** comparison of two operands of kind k; [brn]: used as a branch condition *)
Definition select_cmp (o : bop) (k : rkind) (f : form) (brn : bool) : option row :=
  match cls_of_kind k with
  | Some c => find (fun r => (if form_eq_dec (r_form r) f then true else false) && Bool.eqb (r_br r) brn)
                   (cmp_cls_rows (bin_fn o) o c)
  | None => None
  end.

Definition select_un (o : uop) (k : rkind) (f : form) : option row :=
  match cls_of_kind k, o with
  | Some c, Neg => find (fun r => if form_eq_dec (r_form r) f then true else false) (un_rows "neg" "ntyp" Neg [c])
  | Some c, BitNot => find (fun r => if form_eq_dec (r_form r) f then true else false) (un_rows "bitNot" "typ:concrete" BitNot [c])
  | Some _, Pos => Some (hd (src_row "" "") pos_rows)
  | _, _ => None
  end.

(** the outcome of a statement whose node has no closure: the run loop stops silently *)
Inductive youtcome := YVal (v : value) | YPanic (p : pclass) | YStop | YBad.

Definition run_row (r : option row) (kd : rkind) (a b : value) : youtcome :=
  match r with
  | None => YStop
  | Some r => match denote r kd a b with Ok (v, _) => YVal v | Pan p => YPanic p | Bad => YBad end
  end.

(* ------------------------------------------------------------------ argument copy of call() (run.go) *)

(** A float as far as the argument copy of an interpreted call is concerned: a zero with its sign,
    or any other bit pattern.  call() skips `dest.Set(val)` when reflect.Value.IsZero(val) holds,
    which is true of both zeros, so the parameter keeps its initial value +0. *)
Inductive fval := FZero (negative : bool) | FBits (bits : Z).
Definition y_pass_arg (v : fval) : fval := match v with FZero _ => FZero false | FBits b => FBits b end.
Definition g_pass_arg (v : fval) : fval := v.

(* ------------------------------------------------------------------ r = x op y with r an existing interface variable *)

(** cfg.go (binaryExpr, unaryExpr): when the expression is the right-hand side of a plain assignment
    the node takes the destination's type ([n.typ = dest.typ]).  For %, << and >> the node's type was
    set from the left operand beforehand ([n.typ = c0.typ]) and is overwritten by the interface type;
    the generators rem, shl, shr, neg, bitNot then switch on the kind of that type, find no case for
    reflect.Interface and install no closure: the run loop stops at the statement.  The other
    binary operators reach their [isInterface] rows. *)
Definition ifa_has_closure (o : bop) : bool := match o with Rem | Shl | Shr => false | _ => true end.

Definition select_bin_ifa (o : bop) (k : rkind) : option row :=
  if ifa_has_closure o then select_bin o k FIface else None.

Definition select_un_ifa (o : uop) (k : rkind) : option row :=
  match o with Neg | BitNot => None | _ => select_un o k FVar end.

(* ------------------------------------------------------------------ conversions (run.go convert) *)

(** conversions between integer kinds: dest.Set(value.Convert(typ)); reflect converts through the
    64-bit value of the source *)
Definition y_convert (kto : rkind) (v : value) : res value :=
  match v with
  | VInt kf z => store SConv kto (if signed kf then MI z else MU z)
  | _ => Bad
  end.

(* ------------------------------------------------------------------ typecheck.convertConst *)

(** how an untyped constant is materialised at a basic kind: float32 and the parts of complex64
    through constant.Float32Val (ONE rounding of the exact value), float64 / complex128 through
    constant.Float64Val.  Semantics of the float cases: Num/ConstRound.v [y_const_float]. *)
Definition model_convertconst_cases : list (list rkind * string) := [
  ([KBool], "v = reflect.ValueOf(constant.BoolVal(c))");
  ([KString], "v = reflect.ValueOf(constant.StringVal(c))");
  (ints, "i, _ := constant.Int64Val(constant.ToInt(c)); v = reflect.ValueOf(i).Convert(t)");
  (uints, "i, _ := constant.Uint64Val(constant.ToInt(c)); v = reflect.ValueOf(i).Convert(t)");
  ([KFloat32], "f, _ := constant.Float32Val(constant.ToFloat(c)); v = reflect.ValueOf(f)");
  ([KFloat64], "f, _ := constant.Float64Val(constant.ToFloat(c)); v = reflect.ValueOf(f)");
  ([KComplex64], "r, _ := constant.Float32Val(constant.Real(c)); i, _ := constant.Float32Val(constant.Imag(c)); v = reflect.ValueOf(complex(r, i)).Convert(t)");
  ([KComplex128], "r, _ := constant.Float64Val(constant.Real(c)); i, _ := constant.Float64Val(constant.Imag(c)); v = reflect.ValueOf(complex(r, i)).Convert(t)")
].
