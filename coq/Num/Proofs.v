(** C02 — proofs.  Three layers:
    1. the tie: the table regenerated from interp/op.go, run.go, value.go by `vh tr-ops`
       ([gen.OpTable_gen]) is the hand-written model table, function by function and in order
       (computation on the finite table; re-run whenever the source changes);
    2. normal-form lemmas: for every row shape of the integer / boolean / string families, for ALL
       operand values, the machine semantics of the closure equals Go's operator at the kind;
    3. [rows_ok]: every row of the regenerated table that belongs to such a family has exactly the
       normal form the lemma covers; hence the theorems about every row of the source table. *)
From Coq Require Import ZArith List String Bool Lia.
From Verif Require Import Num.OpDsl Num.GoInt Num.Model gen.OpTable_gen.
Import ListNotations.
Open Scope Z_scope.

(* ================================================================== 1. the tie *)

(** rows of the source table that are not rows of the model, and conversely (printed by coqc so
    that a failing tie names the rows) *)
Definition unexpected_rows : list row :=
  Eval vm_compute in filter (fun r => negb (existsb (fun m => if row_eq_dec r m then true else false) model_table)) op_table.
Definition missing_rows : list row :=
  Eval vm_compute in filter (fun r => negb (existsb (fun m => if row_eq_dec r m then true else false) op_table)) model_table.
Print unexpected_rows.
Print missing_rows.

Definition fns_tie : bool :=
  forallb (fun fn => rows_eqb (rows_of fn op_table) (rows_of fn model_table)) (map fst model_fns).

Lemma table_tie :
  fns_tie = true
  /\ List.length op_table = List.length model_table
  /\ unexpected_rows = [] /\ missing_rows = [].
Proof. repeat split; vm_compute; reflexivity. Qed.

Lemma op_functions_tie :
  forallb (fun fn => existsb (String.eqb fn) (map fst model_fns)) op_functions = true.
Proof. vm_compute. reflexivity. Qed.

Lemma extractors_tie : extr_table = model_extr_table.
Proof. vm_compute. reflexivity. Qed.

Lemma convertconst_tie : convertconst_cases = model_convertconst_cases.
Proof. vm_compute. reflexivity. Qed.

Lemma convert_tie :
  convert_closure = model_convert_closure /\ convert_do = true /\ convert_typ = model_convert_typ.
Proof. repeat split; vm_compute; reflexivity. Qed.

(* ================================================================== 2. arithmetic lemmas *)

Lemma wrap_w64s k z : is_int k = true -> wrap k (w64s z) = wrap k z.
Proof.
  intros H. destruct k; try discriminate H; unfold w64s, wrap; cbn [signed half modulus];
    Z.div_mod_to_equations; lia.
Qed.

Lemma wrap_w64u k z : is_int k = true -> wrap k (w64u z) = wrap k z.
Proof.
  intros H. destruct k; try discriminate H; unfold w64u, wrap; cbn [signed half modulus];
    Z.div_mod_to_equations; lia.
Qed.

Lemma in_range_bounds k z :
  is_int k = true -> in_range k z = true ->
  (signed k = true /\ - half k <= z < half k) \/ (signed k = false /\ 0 <= z < modulus k).
Proof.
  intros H R. unfold in_range in R. destruct (signed k) eqn:S; apply andb_true_iff in R; destruct R as [R1 R2];
    [left|right]; split; auto; split; try (apply Z.leb_le; assumption); apply Z.ltb_lt; assumption.
Qed.

Lemma wrap_id k z : is_int k = true -> in_range k z = true -> wrap k z = z.
Proof.
  intros H R. destruct (in_range_bounds k z H R) as [[S B]|[S B]]; unfold wrap; rewrite S;
    destruct k; try discriminate H; try discriminate S; cbn [half modulus] in *; Z.div_mod_to_equations; lia.
Qed.

Lemma wrap_in_range k z : is_int k = true -> in_range k (wrap k z) = true.
Proof.
  intros H. unfold in_range, wrap.
  destruct k; try discriminate H; cbn [signed half modulus]; apply andb_true_iff; split;
    try apply Z.leb_le; try apply Z.ltb_lt; Z.div_mod_to_equations; lia.
Qed.

Lemma modulus_pow k : is_int k = true -> modulus k = 2 ^ width k.
Proof. intros H; destruct k; try discriminate H; reflexivity. Qed.

Lemma width_bounds k : is_int k = true -> 0 < width k <= 64.
Proof. intros H; destruct k; try discriminate H; cbn; lia. Qed.

Lemma half_modulus k : is_int k = true -> modulus k = 2 * half k /\ 0 < half k.
Proof. intros H; destruct k; try discriminate H; cbn; lia. Qed.

Lemma wrap_multiple k m : is_int k = true -> wrap k (m * modulus k) = 0.
Proof.
  intros H. unfold wrap. destruct k; try discriminate H; cbn [signed half modulus]; Z.div_mod_to_equations; lia.
Qed.

Lemma wrap_0 k : is_int k = true -> wrap k 0 = 0.
Proof. intros H; destruct k; try discriminate H; reflexivity. Qed.

Lemma wrap_m1_signed k : signed k = true -> wrap k (-1) = -1.
Proof. intros H; destruct k; try discriminate H; reflexivity. Qed.

Lemma wrap_shl_big k x s : is_int k = true -> width k <= s -> wrap k (Z.shiftl x s) = 0.
Proof.
  intros H Hs. pose proof (width_bounds k H) as [W0 _].
  rewrite Z.shiftl_mul_pow2 by lia.
  replace s with ((s - width k) + width k) by lia.
  rewrite Z.pow_add_r by lia. rewrite <- (modulus_pow k H).
  rewrite Z.mul_assoc. apply wrap_multiple; assumption.
Qed.

Lemma div_between x d : 0 < d -> (0 <= x -> 0 <= x / d <= x) /\ (x < 0 -> x <= x / d < 0).
Proof. intros Hd; split; intros Hx; Z.div_mod_to_equations; nia. Qed.

Lemma shiftr_in_range k x s : is_int k = true -> in_range k x = true -> 0 <= s -> in_range k (Z.shiftr x s) = true.
Proof.
  intros H R Hs. rewrite Z.shiftr_div_pow2 by assumption.
  assert (Hd : 0 < 2 ^ s) by (apply Z.pow_pos_nonneg; lia).
  destruct (div_between x (2 ^ s) Hd) as [P N].
  destruct (in_range_bounds k x H R) as [[S B]|[S B]]; unfold in_range; rewrite S;
    apply andb_true_iff; split; try apply Z.leb_le; try apply Z.ltb_lt;
    destruct (Z_lt_le_dec x 0); try (specialize (N ltac:(assumption))); try (specialize (P ltac:(assumption))); lia.
Qed.

Lemma shiftr_big k x s :
  is_int k = true -> in_range k x = true -> width k <= s -> Z.shiftr x s = if x <? 0 then -1 else 0.
Proof.
  intros H R Hs. pose proof (width_bounds k H) as [W0 _].
  rewrite Z.shiftr_div_pow2 by lia.
  assert (Hm : modulus k <= 2 ^ s) by (rewrite (modulus_pow k H); apply Z.pow_le_mono_r; lia).
  destruct (half_modulus k H) as [HM HP].
  assert (B : - 2 ^ s <= x < 2 ^ s) by (destruct (in_range_bounds k x H R) as [[S B]|[S B]]; lia).
  destruct (x <? 0) eqn:E; [apply Z.ltb_lt in E | apply Z.ltb_ge in E]; Z.div_mod_to_equations; nia.
Qed.

Lemma count_nonneg_id ks s : is_int ks = true -> in_range ks s = true -> 0 <= s -> w64u s = s.
Proof.
  intros H R Hs. unfold w64u, wrap. cbn [signed modulus].
  apply Z.mod_small. destruct (in_range_bounds ks s H R) as [[S B]|[S B]];
    destruct ks; try discriminate H; cbn [half modulus] in B; lia.
Qed.

Lemma count_negative_big ks s : signed ks = true -> in_range ks s = true -> s < 0 -> 64 <= w64u s.
Proof.
  intros S R Hs. assert (H : is_int ks = true) by (unfold is_int; rewrite S; reflexivity).
  unfold w64u, wrap. cbn [signed modulus].
  destruct (in_range_bounds ks s H R) as [[_ B]|[S' _]]; [|congruence].
  destruct ks; try discriminate S; cbn [half] in B; Z.div_mod_to_equations; lia.
Qed.

(** validation of the reading of Go's shifts: the definition by cases is the mathematical shift *)
Lemma go_shl_math k x s : is_int k = true -> 0 <= s -> go_shift Shl k x s = Ok (wrap k (x * 2 ^ s)).
Proof.
  intros H Hs. unfold go_shift. destruct (s <? 0) eqn:E; [apply Z.ltb_lt in E; lia|].
  f_equal. rewrite <- Z.shiftl_mul_pow2 by assumption.
  destruct (width k <=? s) eqn:W; [apply Z.leb_le in W; symmetry; apply wrap_shl_big; assumption | reflexivity].
Qed.

Lemma go_shr_math k x s : is_int k = true -> in_range k x = true -> 0 <= s -> go_shift Shr k x s = Ok (x / 2 ^ s).
Proof.
  intros H R Hs. unfold go_shift. destruct (s <? 0) eqn:E; [apply Z.ltb_lt in E; lia|].
  f_equal. rewrite <- Z.shiftr_div_pow2 by assumption.
  destruct (width k <=? s) eqn:W; [apply Z.leb_le in W; symmetry; apply shiftr_big with k; assumption | reflexivity].
Qed.

(* ------------------------------------------------------------------ Y's shifts against G's *)

Lemma shl64_s_ok k x s : is_int k = true -> 0 <= s ->
  wrap k (shl64 w64s x s) = (if width k <=? s then 0 else wrap k (Z.shiftl x s)).
Proof.
  intros H Hs. pose proof (width_bounds k H) as [_ W]. unfold shl64.
  destruct (64 <=? s) eqn:E.
  - apply Z.leb_le in E. rewrite wrap_0 by assumption.
    destruct (width k <=? s) eqn:F; [reflexivity | apply Z.leb_gt in F; lia].
  - rewrite wrap_w64s by assumption.
    destruct (width k <=? s) eqn:F; [apply Z.leb_le in F; apply wrap_shl_big; assumption | reflexivity].
Qed.

Lemma shl64_u_ok k x s : is_int k = true -> 0 <= s ->
  wrap k (shl64 w64u x s) = (if width k <=? s then 0 else wrap k (Z.shiftl x s)).
Proof.
  intros H Hs. pose proof (width_bounds k H) as [_ W]. unfold shl64.
  destruct (64 <=? s) eqn:E.
  - apply Z.leb_le in E. rewrite wrap_0 by assumption.
    destruct (width k <=? s) eqn:F; [reflexivity | apply Z.leb_gt in F; lia].
  - rewrite wrap_w64u by assumption.
    destruct (width k <=? s) eqn:F; [apply Z.leb_le in F; apply wrap_shl_big; assumption | reflexivity].
Qed.

Lemma sign_in_range k x : is_int k = true -> in_range k x = true -> wrap k (if x <? 0 then -1 else 0) = if x <? 0 then -1 else 0.
Proof.
  intros H R. destruct (x <? 0) eqn:E; [|apply wrap_0; assumption].
  apply Z.ltb_lt in E. destruct (in_range_bounds k x H R) as [[S B]|[S B]]; [apply wrap_m1_signed; assumption | lia].
Qed.

Lemma shr64_ok k x s : is_int k = true -> in_range k x = true -> 0 <= s ->
  wrap k (shr64 x s) = (if width k <=? s then (if x <? 0 then -1 else 0) else Z.shiftr x s).
Proof.
  intros H R Hs. pose proof (width_bounds k H) as [_ W]. unfold shr64.
  destruct (64 <=? s) eqn:E.
  - apply Z.leb_le in E. rewrite sign_in_range by assumption.
    destruct (width k <=? s) eqn:F; [reflexivity | apply Z.leb_gt in F; lia].
  - rewrite wrap_id by (try assumption; apply shiftr_in_range; assumption).
    destruct (width k <=? s) eqn:F; [apply Z.leb_le in F; apply shiftr_big with k; assumption | reflexivity].
Qed.

(* ================================================================== 2b. normal-form lemmas *)

Definition lift (k : rkind) (g : res Z) : res (value * nextk) :=
  match g with Ok z => Ok (VInt k z, NT) | Pan p => Pan p | Bad => Bad end.

Definition lift_bool (brn : bool) (g : res bool) : res (value * nextk) :=
  match g with
  | Ok c => Ok (VBool c, if brn then (if c then NT else NF) else NT)
  | Pan p => Pan p | Bad => Bad
  end.

Definition int_cls (c : cls) : bool := match c with CInt | CUint => true | _ => false end.
Definition cls_has (c : cls) (k : rkind) : bool := match c with CInt => signed k | CUint => unsigned k | _ => false end.

Lemma cls_kinds_has c k : int_cls c = true -> In k (cls_kinds c) -> cls_has c k = true /\ is_int k = true.
Proof.
  intros Hc Hk. destruct c; try discriminate Hc; cbn in Hk;
    repeat (destruct Hk as [<-|Hk]; [split; reflexivity|]); destruct Hk.
Qed.

Lemma uints_noptr_has k : In k uints_noptr -> unsigned k = true /\ is_int k = true.
Proof. intros Hk; cbn in Hk; repeat (destruct Hk as [<-|Hk]; [split; reflexivity|]); destruct Hk. Qed.

Definition arith (o : bop) : bool :=
  match o with Add | Sub | Mul | Quo | Rem | And | Or | Xor | AndNot => true | _ => false end.
Definition cmpop (o : bop) : bool :=
  match o with Eq | Ne | Lt | Le | Gt | Ge => true | _ => false end.

Lemma arith_zop o x y : arith o = true -> exists z, zop o x y = Some z.
Proof. destruct o; intros H; try discriminate H; eexists; reflexivity. Qed.

Lemma arith_not_shift o : arith o = true -> is_shift o = false.
Proof. destruct o; intros H; try discriminate H; reflexivity. Qed.

(** operand and result evaluation shared by all integer rows *)
Lemma extract_gen_int k z : signed k = true -> extract XGenInt (VInt k z) = Ok (MI z) /\ extract XVInt (VInt k z) = Ok (MI z).
Proof. intros S; cbn; rewrite S; split; reflexivity. Qed.

Lemma extract_gen_uint k z : unsigned k = true -> extract XGenUint (VInt k z) = Ok (MU z) /\ extract XVUint (VInt k z) = Ok (MU z).
Proof. intros S; cbn; rewrite S; destruct k; try discriminate S; split; reflexivity. Qed.

Lemma extract_count x ks s : (x = XGenUint \/ x = XVUint) ->
  is_int ks = true -> in_range ks s = true -> 0 <= s -> extract x (VInt ks s) = Ok (MU s).
Proof.
  intros Hx H R Hs. assert (E : extract x (VInt ks s) = if signed ks then Ok (MU (w64u s)) else if unsigned ks then Ok (MU s) else Bad)
    by (destruct Hx; subst; reflexivity).
  rewrite E. unfold is_int in H. destruct (signed ks) eqn:S.
  - rewrite (count_nonneg_id ks s); auto. unfold is_int; rewrite S; reflexivity.
  - cbn in H. rewrite H. reflexivity.
Qed.

(** a binary integer closure: machine operation at 64 bits, stored into a slot of kind k *)
Definition int_leaf_ok (c : cls) (x : extr) : bool :=
  match c, x with
  | CInt, (XGenInt | XVInt) => true
  | CUint, (XGenUint | XVUint) => true
  | _, _ => false
  end.
Definition int_set_ok (c : cls) (s : setter) : bool :=
  match c, s with
  | CInt, (SInt | SConv) => true
  | CUint, (SUint | SConv) => true
  | _, _ => false
  end.
Definition count_leaf_ok (x : extr) : bool := match x with XGenUint | XVUint => true | _ => false end.

Lemma extract_int_leaf c x k z : int_leaf_ok c x = true -> cls_has c k = true ->
  extract x (VInt k z) = Ok (if signed k then MI z else MU z).
Proof.
  intros L H. destruct c; try discriminate L; cbn in H; destruct x; try discriminate L; cbn; rewrite H;
    destruct k; try discriminate H; reflexivity.
Qed.

Lemma store_int c s k z : int_set_ok c s = true -> cls_has c k = true -> is_int k = true ->
  store s k (if signed k then MI z else MU z) = Ok (VInt k (wrap k z)).
Proof.
  intros L H I. destruct c; try discriminate L; cbn in H; destruct s; try discriminate L; cbn;
    destruct k; try discriminate H; reflexivity.
Qed.

Lemma mbin_arith k o x y : arith o = true -> is_int k = true ->
  bind (mbin o (if signed k then MI x else MU x) (if signed k then MI y else MU y))
       (fun m => match m with MI z | MU z => Ok (wrap k z) | _ => Bad end)
  = go_arith o k x y.
Proof.
  intros A I. unfold mbin. rewrite (arith_not_shift o A).
  destruct (arith_zop o x y A) as [z Hz]. unfold go_arith. rewrite Hz.
  destruct (signed k) eqn:S; unfold arith64; rewrite Hz; destruct (is_div o && (y =? 0)); cbn [bind];
    try reflexivity; [rewrite wrap_w64s | rewrite wrap_w64u]; auto.
Qed.

Definition plain_set (s : setter) : bool := match s with SBranch _ _ _ _ => false | _ => true end.

Lemma denote_plain fn ks kt g f b d s mp nx body kd a b' : plain_set s = true ->
  denote (mk_row fn ks kt g f b d s mp nx body) kd a b'
  = bind (eval body a b') (fun m => bind (store s kd m) (fun v => Ok (v, nx))).
Proof. intros H; destruct s; try discriminate H; reflexivity. Qed.

(** generic statement for every closure  D.Set*(L0 op L1)  of an integer class *)
Lemma bin_shape_arith fn ks kt g f b d s mp body c o x0 x1 k x y :
  body = B o (L x0 0) (L x1 1) ->
  int_cls c = true -> int_leaf_ok c x0 = true -> int_leaf_ok c x1 = true -> int_set_ok c s = true ->
  arith o = true -> cls_has c k = true -> is_int k = true ->
  denote (mk_row fn ks kt g f b d s mp NT body) k (VInt k x) (VInt k y) = lift k (go_arith o k x y).
Proof.
  intros -> Hc L0 L1 Hs A H I.
  rewrite denote_plain by (destruct c, s; try discriminate Hs; reflexivity).
  cbn [eval]. rewrite (extract_int_leaf c x0 k x L0 H), (extract_int_leaf c x1 k y L1 H). cbn [bind].
  rewrite <- (mbin_arith k o x y A I).
  destruct (mbin o (if signed k then MI x else MU x) (if signed k then MI y else MU y)) as [m| |] eqn:E; cbn [bind lift]; try reflexivity.
  assert (Hm : exists z, m = if signed k then MI z else MU z).
  { unfold mbin in E. rewrite (arith_not_shift o A) in E. destruct (arith_zop o x y A) as [z Hz].
    destruct (signed k); unfold arith64 in E; rewrite Hz in E; destruct (is_div o && (y =? 0)); inversion E; eexists; reflexivity. }
  destruct Hm as [z ->]. rewrite (store_int c s k z Hs H I). destruct (signed k); reflexivity.
Qed.

Lemma bin_shape_shift fn ks kt g f b d s mp body c o x0 x1 k kc x n :
  body = B o (L x0 0) (L x1 1) ->
  int_cls c = true -> int_leaf_ok c x0 = true -> count_leaf_ok x1 = true -> int_set_ok c s = true ->
  is_shift o = true -> cls_has c k = true -> is_int k = true -> in_range k x = true ->
  is_int kc = true -> in_range kc n = true -> 0 <= n ->
  denote (mk_row fn ks kt g f b d s mp NT body) k (VInt k x) (VInt kc n) = lift k (go_shift o k x n).
Proof.
  intros -> Hc L0 L1 Hs A H I R Ic Rc Hn.
  rewrite denote_plain by (destruct c, s; try discriminate Hs; reflexivity).
  cbn [eval]. rewrite (extract_int_leaf c x0 k x L0 H).
  rewrite (extract_count x1 kc n) by (auto; destruct x1; try discriminate L1; auto).
  cbn [bind]. unfold go_shift. destruct (n <? 0) eqn:E; [apply Z.ltb_lt in E; lia|].
  unfold mbin. rewrite A.
  destruct o; try discriminate A; destruct (signed k) eqn:S; cbn [shift64 bind lift].
  - rewrite (store_int c s k _ Hs H I) with (z := shl64 w64s x n) || (pose proof (store_int c s k (shl64 w64s x n) Hs H I) as St; rewrite S in St; rewrite St).
    rewrite shl64_s_ok by assumption. reflexivity.
  - pose proof (store_int c s k (shl64 w64u x n) Hs H I) as St; rewrite S in St; rewrite St.
    rewrite shl64_u_ok by assumption. reflexivity.
  - pose proof (store_int c s k (shr64 x n) Hs H I) as St; rewrite S in St; rewrite St.
    rewrite shr64_ok by assumption. reflexivity.
  - pose proof (store_int c s k (shr64 x n) Hs H I) as St; rewrite S in St; rewrite St.
    rewrite shr64_ok by assumption. reflexivity.
Qed.

(** negative count: the closure reads the count as uint64, so it never panics *)
Lemma bin_shape_shift_neg fn ks kt g f b d s mp body c o x0 x1 k kc x n :
  body = B o (L x0 0) (L x1 1) ->
  int_cls c = true -> int_leaf_ok c x0 = true -> count_leaf_ok x1 = true -> int_set_ok c s = true ->
  is_shift o = true -> cls_has c k = true -> is_int k = true -> in_range k x = true ->
  signed kc = true -> in_range kc n = true -> n < 0 ->
  denote (mk_row fn ks kt g f b d s mp NT body) k (VInt k x) (VInt kc n)
  = Ok (VInt k (match o with Shl => 0 | _ => if x <? 0 then -1 else 0 end), NT)
  /\ go_shift o k x n = Pan PNegShift.
Proof.
  intros -> Hc L0 L1 Hs A H I R Sc Rc Hn. split.
  2:{ unfold go_shift. destruct (n <? 0) eqn:E; [reflexivity | apply Z.ltb_ge in E; lia]. }
  rewrite denote_plain by (destruct c, s; try discriminate Hs; reflexivity).
  cbn [eval]. rewrite (extract_int_leaf c x0 k x L0 H).
  assert (E1 : extract x1 (VInt kc n) = Ok (MU (w64u n))) by (destruct x1; try discriminate L1; cbn; rewrite Sc; reflexivity).
  rewrite E1. cbn [bind]. pose proof (count_negative_big kc n Sc Rc Hn) as Big.
  unfold mbin. rewrite A.
  assert (B64 : (64 <=? w64u n) = true) by (apply Z.leb_le; assumption).
  destruct o; try discriminate A; destruct (signed k) eqn:S; cbn [shift64 bind]; unfold shl64, shr64; rewrite B64.
  - pose proof (store_int c s k 0 Hs H I) as St; rewrite S in St; rewrite St. rewrite wrap_0 by assumption. reflexivity.
  - pose proof (store_int c s k 0 Hs H I) as St; rewrite S in St; rewrite St. rewrite wrap_0 by assumption. reflexivity.
  - pose proof (store_int c s k (if x <? 0 then -1 else 0) Hs H I) as St; rewrite S in St; rewrite St.
    rewrite sign_in_range by assumption. reflexivity.
  - pose proof (store_int c s k (if x <? 0 then -1 else 0) Hs H I) as St; rewrite S in St; rewrite St.
    rewrite sign_in_range by assumption. reflexivity.
Qed.

(** ++ / -- :  v.Set*(i + 1) *)
Lemma incdec_shape fn ks kt g f b d s mp c o x0 k x :
  int_cls c = true -> int_leaf_ok c x0 = true -> int_set_ok c s = true ->
  (o = Add \/ o = Sub) -> cls_has c k = true -> is_int k = true ->
  denote (mk_row fn ks kt g f b d s mp NT (B o (L x0 0) (K 1))) k (VInt k x) (VInt k x)
  = Ok (VInt k (wrap k (match o with Add => x + 1 | _ => x - 1 end)), NT).
Proof.
  intros Hc L0 Hs Ho H I.
  rewrite denote_plain by (destruct c, s; try discriminate Hs; reflexivity).
  cbn [eval]. rewrite (extract_int_leaf c x0 k x L0 H). cbn [bind].
  destruct Ho as [-> | ->]; destruct (signed k) eqn:S; cbn [mbin is_shift arith64 zop is_div andb zcmp bind];
    match goal with |- context [store s k (?M (?W ?z))] =>
      pose proof (store_int c s k (W z) Hs H I) as St; rewrite S in St; rewrite St end;
    [rewrite wrap_w64s | rewrite wrap_w64u | rewrite wrap_w64s | rewrite wrap_w64u]; auto.
Qed.

(** comparisons: no wrapping is involved, the operands are read at full width *)
Lemma cmp_shape fn ks kt g f d mp body c o x0 x1 k x y :
  body = B o (L x0 0) (L x1 1) ->
  int_cls c = true -> int_leaf_ok c x0 = true -> int_leaf_ok c x1 = true ->
  cmpop o = true -> cls_has c k = true ->
  forall s brn, (s = SBool \/ s = SConv) /\ brn = false \/ s = SBranch true NT false NF /\ brn = true ->
  denote (mk_row fn ks kt g f brn d s mp NT body) KBool (VInt k x) (VInt k y) = lift_bool brn (go_cmp o x y).
Proof.
  intros -> Hc L0 L1 Co H s brn Hs.
  assert (Ev : eval (B o (L x0 0) (L x1 1)) (VInt k x) (VInt k y) = match zcmp o x y with Some c => Ok (MB c) | None => Bad end).
  { cbn [eval]. rewrite (extract_int_leaf c x0 k x L0 H), (extract_int_leaf c x1 k y L1 H). cbn [bind].
    destruct o; try discriminate Co; destruct (signed k); reflexivity. }
  unfold go_cmp. destruct Hs as [[Hs ->] | [-> ->]].
  - rewrite denote_plain by (destruct Hs; subst; reflexivity). rewrite Ev.
    destruct (zcmp o x y); cbn [bind lift_bool]; [destruct Hs; subst; reflexivity | reflexivity].
  - unfold denote; cbn [r_set r_body]. rewrite Ev.
    destruct (zcmp o x y) as [[|]|]; reflexivity.
Qed.

(** unary - and ^ through reflect accessors *)
Lemma un_shape fn ks kt g f b d s mp c o x0 k x y :
  int_cls c = true -> (c = CInt /\ x0 = XValInt \/ c = CUint /\ x0 = XValUint) -> int_set_ok c s = true ->
  (o = Neg \/ o = BitNot) -> cls_has c k = true -> is_int k = true ->
  denote (mk_row fn ks kt g f b d s mp NT (U o (L x0 0))) k (VInt k x) y = lift k (go_unary o k x).
Proof.
  intros Hc Hx Hs Ho H I.
  rewrite denote_plain by (destruct c, s; try discriminate Hs; reflexivity).
  cbn [eval].
  assert (E : extract x0 (VInt k x) = Ok (if signed k then MI x else MU x)).
  { destruct Hx as [[-> ->] | [-> ->]]; cbn in H; cbn; rewrite H; destruct k; try discriminate H; reflexivity. }
  rewrite E. cbn [bind].
  destruct Ho as [-> | ->]; destruct (signed k) eqn:S; cbn [mun bind go_unary lift];
    match goal with |- context [store s k (?M (?W ?z))] =>
      pose proof (store_int c s k (W z) Hs H I) as St; rewrite S in St; rewrite St end;
    [rewrite wrap_w64s | rewrite wrap_w64u | rewrite wrap_w64s | rewrite wrap_w64u]; auto.
Qed.

(* ================================================================== 3. the rows of the source table *)

(** which operator a generator function implements *)
Definition fn_op (fn : string) : option bop :=
  find (fun o => String.eqb (bin_fn o) fn) [Add; Sub; Mul; Quo; Rem; And; Or; Xor; AndNot; Shl; Shr; Eq; Ne; Lt; Le; Gt; Ge].
Definition asg_op (fn : string) : option bop :=
  find (fun o => String.eqb (bin_fn o ++ "Assign") fn) [Add; Sub; Mul; Quo; Rem; And; Or; Xor; AndNot; Shl; Shr].
Definition fold_op (fn : string) : option bop :=
  find (fun o => String.eqb (bin_fn o ++ "Const") fn) [Add; Sub; Mul; Quo; Rem; And; Or; Xor; AndNot; Shl; Shr].

Definition kinds_cls (ks : list rkind) : option cls :=
  if list_eq_dec rkind_eq_dec ks ints then Some CInt
  else if list_eq_dec rkind_eq_dec ks uints then Some CUint
  else if list_eq_dec rkind_eq_dec ks uints_noptr then Some CUint
  else None.

Definition guard_cls (g : guard) : option cls :=
  match g with GInt => Some CInt | GUint => Some CUint | _ => None end.

Definition leaf_of (e : ex) : option extr := match e with L x _ => Some x | _ => None end.

(** shape check: the row is  D.Set*(L x0 0 `o` L x1 1)  with leaves and setter of class c *)
Definition bin_shape_ok (c : cls) (o : bop) (r : row) : bool :=
  match r_body r with
  | B o' (L x0 O) (L x1 (S O)) =>
      (if bop_eq_dec o o' then true else false) && int_leaf_ok c x0
      && (if is_shift o then count_leaf_ok x1 else int_leaf_ok c x1)
      && int_set_ok c (r_set r) && (match r_next r with NT => true | NF => false end)
  | _ => false
  end.

Definition is_bin_fn (r : row) : option (bop * cls) :=
  match fn_op (r_fn r), kinds_cls (r_kinds r) with
  | Some o, Some c => if arith o || is_shift o then Some (o, c) else None
  | _, _ => None
  end.
Definition is_asg_fn (r : row) : option (bop * cls) :=
  match asg_op (r_fn r), kinds_cls (r_kinds r) with
  | Some o, Some c => Some (o, c)
  | _, _ => None
  end.
Definition is_fold_fn (r : row) : option (bop * cls) :=
  match fold_op (r_fn r), guard_cls (r_guard r) with
  | Some o, Some c => Some (o, c)
  | _, _ => None
  end.
Definition is_cmp_fn (r : row) : option (bop * cls) :=
  match fn_op (r_fn r), guard_cls (r_guard r) with
  | Some o, Some c => if cmpop o then Some (o, c) else None
  | _, _ => None
  end.
Definition is_incdec_fn (r : row) : option (bop * cls) :=
  match kinds_cls (r_kinds r) with
  | Some c => if String.eqb (r_fn r) "inc" then Some (Add, c) else if String.eqb (r_fn r) "dec" then Some (Sub, c) else None
  | None => None
  end.
Definition is_un_fn (r : row) : option (uop * cls) :=
  match kinds_cls (r_kinds r) with
  | Some c => if String.eqb (r_fn r) "neg" then Some (Neg, c) else if String.eqb (r_fn r) "bitNot" then Some (BitNot, c) else None
  | None => None
  end.

Definition cmp_shape_ok (c : cls) (o : bop) (r : row) : bool :=
  match r_body r with
  | B o' (L x0 O) (L x1 (S O)) =>
      (if bop_eq_dec o o' then true else false) && int_leaf_ok c x0 && int_leaf_ok c x1
      && (match r_next r with NT => true | NF => false end)
      && (if r_br r then (if setter_eq_dec (r_set r) (SBranch true NT false NF) then true else false)
          else match r_set r with SBool | SConv => true | _ => false end)
  | _ => false
  end.

Definition incdec_shape_ok (c : cls) (o : bop) (r : row) : bool :=
  match r_body r with
  | B o' (L x0 O) (K 1) =>
      (if bop_eq_dec o o' then true else false) && int_leaf_ok c x0 && int_set_ok c (r_set r)
      && (match r_next r with NT => true | NF => false end)
  | _ => false
  end.

Definition un_shape_ok (c : cls) (o : uop) (r : row) : bool :=
  match r_body r with
  | U o' (L x0 O) =>
      (if uop_eq_dec o o' then true else false)
      && (match c, x0 with CInt, XValInt | CUint, XValUint => true | _, _ => false end)
      && int_set_ok c (r_set r) && (match r_next r with NT => true | NF => false end)
  | _ => false
  end.

(** every row of an integer family has the normal form of its family *)
Definition row_ok (r : row) : bool :=
  (match is_bin_fn r with Some (o, c) => bin_shape_ok c o r | None => true end)
  && (match is_asg_fn r with Some (o, c) => bin_shape_ok c o r | None => true end)
  && (match is_fold_fn r with Some (o, c) => bin_shape_ok c o r | None => true end)
  && (match is_cmp_fn r with Some (o, c) => cmp_shape_ok c o r | None => true end)
  && (match is_incdec_fn r with Some (o, c) => incdec_shape_ok c o r | None => true end)
  && (match is_un_fn r with Some (o, c) => un_shape_ok c o r | None => true end).

Definition bad_rows : list row := Eval vm_compute in filter (fun r => negb (row_ok r)) op_table.
Print bad_rows.

Lemma rows_ok : forallb row_ok op_table = true.
Proof. vm_compute. reflexivity. Qed.

(** the families are not empty: how many rows of the source table each theorem covers *)
Definition family_sizes : list nat :=
  map (fun p : row -> bool => List.length (filter p op_table))
      [ (fun r => match is_bin_fn r with Some _ => true | None => false end);
        (fun r => match is_asg_fn r with Some _ => true | None => false end);
        (fun r => match is_fold_fn r with Some _ => true | None => false end);
        (fun r => match is_cmp_fn r with Some _ => true | None => false end);
        (fun r => match is_incdec_fn r with Some _ => true | None => false end);
        (fun r => match is_un_fn r with Some _ => true | None => false end) ].

Lemma family_sizes_val : family_sizes = [88; 44; 22; 84; 4; 8]%nat.
Proof. vm_compute. reflexivity. Qed.

Lemma row_ok_of r : In r op_table -> row_ok r = true.
Proof. intros H. exact (proj1 (forallb_forall row_ok op_table) rows_ok r H). Qed.

Lemma kinds_cls_has ks c k : kinds_cls ks = Some c -> In k ks -> int_cls c = true /\ cls_has c k = true /\ is_int k = true.
Proof.
  unfold kinds_cls. intros H Hk.
  destruct (list_eq_dec rkind_eq_dec ks ints) as [->|_]; [inversion H; subst; split; [reflexivity|apply (cls_kinds_has CInt k); auto]|].
  destruct (list_eq_dec rkind_eq_dec ks uints) as [->|_]; [inversion H; subst; split; [reflexivity|apply (cls_kinds_has CUint k); auto]|].
  destruct (list_eq_dec rkind_eq_dec ks uints_noptr) as [->|_]; [inversion H; subst; split; [reflexivity|apply uints_noptr_has; auto]|].
  discriminate H.
Qed.

Lemma guard_cls_int g c : guard_cls g = Some c -> int_cls c = true.
Proof. destruct g; intros H; inversion H; reflexivity. Qed.

Lemma row_ok_parts r : row_ok r = true ->
  (match is_bin_fn r with Some (o, c) => bin_shape_ok c o r | None => true end) = true
  /\ (match is_asg_fn r with Some (o, c) => bin_shape_ok c o r | None => true end) = true
  /\ (match is_fold_fn r with Some (o, c) => bin_shape_ok c o r | None => true end) = true
  /\ (match is_cmp_fn r with Some (o, c) => cmp_shape_ok c o r | None => true end) = true
  /\ (match is_incdec_fn r with Some (o, c) => incdec_shape_ok c o r | None => true end) = true
  /\ (match is_un_fn r with Some (o, c) => un_shape_ok c o r | None => true end) = true.
Proof.
  unfold row_ok. intros H. repeat (apply andb_true_iff in H; destruct H as [H ?]). repeat split; assumption.
Qed.

Ltac split_ok H :=
  apply row_ok_parts in H; destruct H as (Kbin & Kasg & Kfold & Kcmp & Kincdec & Kun).

Lemma bin_shape_inv c o r : bin_shape_ok c o r = true ->
  exists x0 x1, r_body r = B o (L x0 0) (L x1 1) /\ int_leaf_ok c x0 = true
    /\ (if is_shift o then count_leaf_ok x1 else int_leaf_ok c x1) = true
    /\ int_set_ok c (r_set r) = true /\ r_next r = NT.
Proof.
  unfold bin_shape_ok. destruct (r_body r) as [| | | |o' [x0 [|n0]| | | | |] [x1 [|[|n1]]| | | | |] |]; try discriminate.
  intros H. repeat (apply andb_true_iff in H; destruct H as [H ?]).
  destruct (bop_eq_dec o o') as [<-|]; [|discriminate]. destruct (r_next r); [|discriminate].
  exists x0, x1. repeat split; auto.
Qed.

(** arithmetic and bitwise operators: every integer row of add, sub, mul, quo, rem, and, or, xor, andNot *)
Lemma table_arith r o c : In r op_table -> is_bin_fn r = Some (o, c) -> arith o = true ->
  forall k x y, In k (r_kinds r) ->
    denote r k (VInt k x) (VInt k y) = lift k (go_arith o k x y).
Proof.
  intros Hin Hf A k x y Hk. pose proof (row_ok_of r Hin) as Ok. split_ok Ok.
  rewrite Hf in Kbin. destruct (bin_shape_inv c o r Kbin) as (x0 & x1 & Hb & L0 & L1 & Hs & Hn).
  rewrite (arith_not_shift o A) in L1.
  unfold is_bin_fn in Hf. destruct (fn_op (r_fn r)); [|discriminate]. destruct (kinds_cls (r_kinds r)) eqn:Kc; [|discriminate].
  destruct (arith b || is_shift b); inversion Hf; subst.
  destruct (kinds_cls_has _ _ k Kc Hk) as (Hc & H & I).
  destruct r; cbn in *. subst. eapply bin_shape_arith; eauto.
Qed.

Lemma table_shift r o c : In r op_table -> is_bin_fn r = Some (o, c) -> is_shift o = true ->
  forall k kc x n, In k (r_kinds r) -> in_range k x = true -> is_int kc = true -> in_range kc n = true -> 0 <= n ->
    denote r k (VInt k x) (VInt kc n) = lift k (go_shift o k x n).
Proof.
  intros Hin Hf A k kc x n Hk R Ic Rc Hn. pose proof (row_ok_of r Hin) as Ok. split_ok Ok.
  rewrite Hf in Kbin. destruct (bin_shape_inv c o r Kbin) as (x0 & x1 & Hb & L0 & L1 & Hs & Hnx).
  rewrite A in L1.
  unfold is_bin_fn in Hf. destruct (fn_op (r_fn r)); [|discriminate]. destruct (kinds_cls (r_kinds r)) eqn:Kc; [|discriminate].
  destruct (arith b || is_shift b); inversion Hf; subst.
  destruct (kinds_cls_has _ _ k Kc Hk) as (Hc & H & I).
  destruct r; cbn in *. subst. eapply bin_shape_shift; eauto.
Qed.

Lemma table_shift_neg r o c : In r op_table -> is_bin_fn r = Some (o, c) -> is_shift o = true ->
  forall k kc x n, In k (r_kinds r) -> in_range k x = true -> signed kc = true -> in_range kc n = true -> n < 0 ->
    (exists z, denote r k (VInt k x) (VInt kc n) = Ok (VInt k z, NT)) /\ go_shift o k x n = Pan PNegShift.
Proof.
  intros Hin Hf A k kc x n Hk R Sc Rc Hn. pose proof (row_ok_of r Hin) as Ok. split_ok Ok.
  rewrite Hf in Kbin. destruct (bin_shape_inv c o r Kbin) as (x0 & x1 & Hb & L0 & L1 & Hs & Hnx).
  rewrite A in L1.
  unfold is_bin_fn in Hf. destruct (fn_op (r_fn r)); [|discriminate]. destruct (kinds_cls (r_kinds r)) eqn:Kc; [|discriminate].
  destruct (arith b || is_shift b); inversion Hf; subst.
  destruct (kinds_cls_has _ _ k Kc Hk) as (Hc & H & I).
  destruct r; cbn in *. subst.
  edestruct (bin_shape_shift_neg r_fn r_kinds r_ktag r_guard r_form r_br r_dest r_set r_map _ c o x0 x1 k kc x n eq_refl) as [D G]; eauto.
Qed.

(** op= *)
Lemma table_assign r o c : In r op_table -> is_asg_fn r = Some (o, c) -> arith o = true ->
  forall k x y, In k (r_kinds r) ->
    denote r k (VInt k x) (VInt k y) = lift k (go_arith o k x y).
Proof.
  intros Hin Hf A k x y Hk. pose proof (row_ok_of r Hin) as Ok. split_ok Ok.
  rewrite Hf in Kasg. destruct (bin_shape_inv c o r Kasg) as (x0 & x1 & Hb & L0 & L1 & Hs & Hn).
  rewrite (arith_not_shift o A) in L1.
  unfold is_asg_fn in Hf. destruct (asg_op (r_fn r)); [|discriminate]. destruct (kinds_cls (r_kinds r)) eqn:Kc; [|discriminate].
  inversion Hf; subst.
  destruct (kinds_cls_has _ _ k Kc Hk) as (Hc & H & I).
  destruct r; cbn in *. subst. eapply bin_shape_arith; eauto.
Qed.

Lemma table_assign_shift r o c : In r op_table -> is_asg_fn r = Some (o, c) -> is_shift o = true ->
  forall k kc x n, In k (r_kinds r) -> in_range k x = true -> is_int kc = true -> in_range kc n = true -> 0 <= n ->
    denote r k (VInt k x) (VInt kc n) = lift k (go_shift o k x n).
Proof.
  intros Hin Hf A k kc x n Hk R Ic Rc Hn. pose proof (row_ok_of r Hin) as Ok. split_ok Ok.
  rewrite Hf in Kasg. destruct (bin_shape_inv c o r Kasg) as (x0 & x1 & Hb & L0 & L1 & Hs & Hnx).
  rewrite A in L1.
  unfold is_asg_fn in Hf. destruct (asg_op (r_fn r)); [|discriminate]. destruct (kinds_cls (r_kinds r)) eqn:Kc; [|discriminate].
  inversion Hf; subst.
  destruct (kinds_cls_has _ _ k Kc Hk) as (Hc & H & I).
  destruct r; cbn in *. subst. eapply bin_shape_shift; eauto.
Qed.

(** typed constant folding (addConst ... on two typed constant operands of kind k) *)
Lemma table_fold r o c : In r op_table -> is_fold_fn r = Some (o, c) -> arith o = true ->
  forall k x y, cls_has c k = true -> is_int k = true ->
    denote r k (VInt k x) (VInt k y) = lift k (go_arith o k x y).
Proof.
  intros Hin Hf A k x y H I. pose proof (row_ok_of r Hin) as Ok. split_ok Ok.
  rewrite Hf in Kfold. destruct (bin_shape_inv c o r Kfold) as (x0 & x1 & Hb & L0 & L1 & Hs & Hn).
  rewrite (arith_not_shift o A) in L1.
  unfold is_fold_fn in Hf. destruct (fold_op (r_fn r)); [|discriminate]. destruct (guard_cls (r_guard r)) eqn:Gc; [|discriminate].
  inversion Hf; subst. pose proof (guard_cls_int _ _ Gc) as Hc.
  destruct r; cbn in *. subst. eapply bin_shape_arith; eauto.
Qed.

(** comparisons *)
Lemma table_cmp r o c : In r op_table -> is_cmp_fn r = Some (o, c) ->
  forall k x y, cls_has c k = true ->
    denote r KBool (VInt k x) (VInt k y) = lift_bool (r_br r) (go_cmp o x y).
Proof.
  intros Hin Hf k x y H. pose proof (row_ok_of r Hin) as Ok. split_ok Ok.
  rewrite Hf in Kcmp. unfold is_cmp_fn in Hf.
  destruct (fn_op (r_fn r)); [|discriminate]. destruct (guard_cls (r_guard r)) eqn:Gc; [|discriminate].
  destruct (cmpop b) eqn:Co; inversion Hf; subst. pose proof (guard_cls_int _ _ Gc) as Hc.
  unfold cmp_shape_ok in Kcmp.
  destruct r as [fn ks kt g f brn d s mp nx body]; cbn in *.
  destruct body as [| | | |o' [x0 [|n0]| | | | |] [x1 [|[|n1]]| | | | |] |]; try discriminate.
  repeat (apply andb_true_iff in Kcmp; destruct Kcmp as [Kcmp ?]).
  destruct (bop_eq_dec o o') as [<-|]; [|discriminate]. destruct nx; [|discriminate].
  eapply cmp_shape; eauto.
  destruct brn.
  - right. destruct (setter_eq_dec s (SBranch true NT false NF)); [auto|discriminate].
  - left. destruct s; try discriminate; auto.
Qed.

(** ++ and -- *)
Lemma table_incdec r o c : In r op_table -> is_incdec_fn r = Some (o, c) ->
  forall k x, In k (r_kinds r) ->
    denote r k (VInt k x) (VInt k x) = Ok (VInt k (match o with Add => go_inc k x | _ => go_dec k x end), NT).
Proof.
  intros Hin Hf k x Hk. pose proof (row_ok_of r Hin) as Ok. split_ok Ok.
  rewrite Hf in Kincdec. unfold is_incdec_fn in Hf. destruct (kinds_cls (r_kinds r)) eqn:Kc; [|discriminate].
  destruct (kinds_cls_has _ _ k Kc Hk) as (Hc & H & I).
  assert (Ho : (o = Add \/ o = Sub) /\ c0 = c).
  { destruct (String.eqb (r_fn r) "inc"); [inversion Hf; auto|]. destruct (String.eqb (r_fn r) "dec"); inversion Hf; auto. }
  destruct Ho as [Ho ->]. unfold incdec_shape_ok in Kincdec.
  destruct r as [fn ks kt g f brn d s mp nx body]; cbn in *.
  destruct body as [| | | |o' [x0 [|n0]| | | | |] [|z| | | |] |]; try discriminate.
  destruct z as [|[| |]|]; try discriminate.
  repeat (apply andb_true_iff in Kincdec; destruct Kincdec as [Kincdec ?]).
  destruct (bop_eq_dec o o') as [<-|]; [|discriminate]. destruct nx; [|discriminate].
  rewrite (incdec_shape fn ks kt g f brn d s mp c o x0 k x); auto.
  destruct Ho as [-> | ->]; reflexivity.
Qed.

(** unary - and ^ *)
Lemma table_unary r o c : In r op_table -> is_un_fn r = Some (o, c) ->
  forall k x y, In k (r_kinds r) ->
    denote r k (VInt k x) y = lift k (go_unary o k x).
Proof.
  intros Hin Hf k x y Hk. pose proof (row_ok_of r Hin) as Ok. split_ok Ok.
  rewrite Hf in Kun. unfold is_un_fn in Hf. destruct (kinds_cls (r_kinds r)) eqn:Kc; [|discriminate].
  destruct (kinds_cls_has _ _ k Kc Hk) as (Hc & H & I).
  assert (Ho : (o = Neg \/ o = BitNot) /\ c0 = c).
  { destruct (String.eqb (r_fn r) "neg"); [inversion Hf; auto|]. destruct (String.eqb (r_fn r) "bitNot"); inversion Hf; auto. }
  destruct Ho as [Ho ->]. unfold un_shape_ok in Kun.
  destruct r as [fn ks kt g f brn d s mp nx body]; cbn in *.
  destruct body as [| | | | |o' [x0 [|n0]| | | | |]]; try discriminate.
  repeat (apply andb_true_iff in Kun; destruct Kun as [Kun ?]).
  destruct (uop_eq_dec o o') as [<-|]; [|discriminate]. destruct nx; [|discriminate].
  eapply un_shape; eauto.
  destruct c; try discriminate; destruct x0; try discriminate; auto.
Qed.

(* ================================================================== 4. statement level: source forms *)

Definition of_g (k : rkind) (g : res Z) : youtcome :=
  match g with Ok z => YVal (VInt k z) | Pan p => YPanic p | Bad => YBad end.
Definition of_gb (g : res bool) : youtcome :=
  match g with Ok c => YVal (VBool c) | Pan p => YPanic p | Bad => YBad end.

Lemma run_lift r k a b g : denote r k a b = lift k g -> run_row (Some r) k a b = of_g k g.
Proof. unfold run_row; intros ->; destruct g; reflexivity. Qed.

Lemma run_lift_bool r a b brn g : denote r KBool a b = lift_bool brn g -> run_row (Some r) KBool a b = of_gb g.
Proof. unfold run_row; intros ->; destruct g; reflexivity. Qed.

Lemma is_int_cls k : is_int k = true -> exists c, cls_of_kind k = Some c /\ int_cls c = true /\ cls_has c k = true.
Proof.
  unfold is_int, cls_of_kind. destruct (signed k) eqn:S; [exists CInt; auto|].
  destruct (unsigned k) eqn:U; [exists CUint; auto|discriminate].
Qed.

Definition forms4b (f : form) : bool := match f with FIface | FC0 | FC1 | FVar => true | _ => false end.

Lemma bin_row_leaves o c f : int_cls c = true ->
  exists x0 x1 s, bin_row (bin_fn o) o c f = mk_row (bin_fn o) (cls_kinds c) "typ:concrete" GNone (match f with FIface => FIface | FC0 => FC0 | FC1 => FC1 | _ => FVar end) false DOut s false NT (B o (L x0 0) (L x1 1))
    /\ int_leaf_ok c x0 = true /\ (if is_shift o then count_leaf_ok x1 else int_leaf_ok c x1) = true /\ int_set_ok c s = true.
Proof.
  intros Hc. unfold bin_row, opd1_gen, opd1_v.
  destruct c; try discriminate Hc; destruct f; destruct (is_shift o); do 3 eexists; (split; [reflexivity|]); auto.
Qed.

Lemma sel_arith o k f x y : is_int k = true -> arith o = true ->
  run_row (select_bin o k f) k (VInt k x) (VInt k y) = of_g k (go_arith o k x y).
Proof.
  intros I A. destruct (is_int_cls k I) as (c & Hc & Ic & H). unfold select_bin. rewrite Hc.
  destruct (bin_row_leaves o c f Ic) as (x0 & x1 & s & -> & L0 & L1 & Hs).
  rewrite (arith_not_shift o A) in L1.
  apply run_lift. eapply bin_shape_arith; eauto.
Qed.

Lemma sel_shift o k kc f x n : is_int k = true -> is_shift o = true -> in_range k x = true ->
  is_int kc = true -> in_range kc n = true -> 0 <= n ->
  run_row (select_bin o k f) k (VInt k x) (VInt kc n) = of_g k (go_shift o k x n).
Proof.
  intros I A R Ic Rc Hn. destruct (is_int_cls k I) as (c & Hc & Icl & H). unfold select_bin. rewrite Hc.
  destruct (bin_row_leaves o c f Icl) as (x0 & x1 & s & -> & L0 & L1 & Hs).
  rewrite A in L1.
  apply run_lift. eapply bin_shape_shift; eauto.
Qed.

Lemma sel_shift_neg o k kc f x n : is_int k = true -> is_shift o = true -> in_range k x = true ->
  signed kc = true -> in_range kc n = true -> n < 0 ->
  run_row (select_bin o k f) k (VInt k x) (VInt kc n) = YVal (VInt k (match o with Shl => 0 | _ => if x <? 0 then -1 else 0 end))
  /\ of_g k (go_shift o k x n) = YPanic PNegShift.
Proof.
  intros I A R Sc Rc Hn. destruct (is_int_cls k I) as (c & Hc & Icl & H). unfold select_bin. rewrite Hc.
  destruct (bin_row_leaves o c f Icl) as (x0 & x1 & s & -> & L0 & L1 & Hs).
  rewrite A in L1.
  edestruct (bin_shape_shift_neg (bin_fn o) (cls_kinds c) "typ:concrete"%string GNone (match f with FIface => FIface | FC0 => FC0 | FC1 => FC1 | _ => FVar end) false DOut s false _ c o x0 x1 k kc x n eq_refl) as [D G]; eauto.
  unfold run_row. rewrite D, G. split; reflexivity.
Qed.

Lemma asg_row_leaves o c f : int_cls c = true ->
  exists x0 x1 s, asg_row (bin_fn o ++ "Assign") o c f = mk_row (bin_fn o ++ "Assign") (cls_kinds c) "typ:plain" GNone f false (DOpd 0) s true NT (B o (L x0 0) (L x1 1))
    /\ int_leaf_ok c x0 = true /\ (if is_shift o then count_leaf_ok x1 else int_leaf_ok c x1) = true /\ int_set_ok c s = true.
Proof.
  intros Hc. unfold asg_row, opd1_gen, opd1_v.
  destruct c; try discriminate Hc; destruct f; destruct (is_shift o); do 3 eexists; (split; [reflexivity|]); auto.
Qed.

Lemma sel_assign o k f x y : is_int k = true -> arith o = true ->
  run_row (select_asg o k f) k (VInt k x) (VInt k y) = of_g k (go_arith o k x y).
Proof.
  intros I A. destruct (is_int_cls k I) as (c & Hc & Ic & H). unfold select_asg. rewrite Hc.
  destruct (asg_row_leaves o c f Ic) as (x0 & x1 & s & -> & L0 & L1 & Hs).
  rewrite (arith_not_shift o A) in L1.
  apply run_lift. eapply bin_shape_arith; eauto.
Qed.

Lemma sel_assign_shift o k kc f x n : is_int k = true -> is_shift o = true -> in_range k x = true ->
  is_int kc = true -> in_range kc n = true -> 0 <= n ->
  run_row (select_asg o k f) k (VInt k x) (VInt kc n) = of_g k (go_shift o k x n).
Proof.
  intros I A R Ic Rc Hn. destruct (is_int_cls k I) as (c & Hc & Icl & H). unfold select_asg. rewrite Hc.
  destruct (asg_row_leaves o c f Icl) as (x0 & x1 & s & -> & L0 & L1 & Hs).
  rewrite A in L1.
  apply run_lift. eapply bin_shape_shift; eauto.
Qed.

Lemma select_incdec_some inc k : is_int k = true -> k <> KUintptr ->
  select_incdec inc k = Some (incdec_row (if inc then "inc" else "dec")%string (if inc then Add else Sub) (if signed k then CInt else CUint)).
Proof. intros I N; destruct k; try discriminate I; try congruence; destruct inc; reflexivity. Qed.

Lemma incdec_row_leaves fn o c : int_cls c = true ->
  exists ks x0 s, incdec_row fn o c = mk_row fn ks "typ:plain" GNone FNone false (DOpd 0) s true NT (B o (L x0 0) (K 1))
    /\ int_leaf_ok c x0 = true /\ int_set_ok c s = true.
Proof. intros Hc; destruct c; try discriminate Hc; do 3 eexists; (split; [reflexivity|]); auto. Qed.

Lemma sel_incdec inc k x : is_int k = true -> k <> KUintptr ->
  run_row (select_incdec inc k) k (VInt k x) (VInt k x) = YVal (VInt k (if inc then go_inc k x else go_dec k x)).
Proof.
  intros I N. rewrite (select_incdec_some inc k I N).
  assert (Hc : int_cls (if signed k then CInt else CUint) = true) by (destruct (signed k); reflexivity).
  assert (H : cls_has (if signed k then CInt else CUint) k = true)
    by (unfold is_int in I; destruct (signed k) eqn:S; cbn; [assumption | cbn in I; assumption]).
  destruct (incdec_row_leaves (if inc then "inc" else "dec")%string (if inc then Add else Sub) _ Hc) as (ks & x0 & s & -> & L0 & Hs).
  unfold run_row. rewrite (incdec_shape _ ks _ _ _ _ _ s _ _ (if inc then Add else Sub) x0 k x Hc L0 Hs); auto.
  - destruct inc; reflexivity.
  - destruct inc; auto.
Qed.

Lemma sel_incdec_uintptr inc x :
  run_row (select_incdec inc KUintptr) KUintptr (VInt KUintptr x) (VInt KUintptr x) = YStop.
Proof. destruct inc; reflexivity. Qed.

Lemma no_uintptr_incdec : forall r, In r op_table -> (r_fn r = "inc" \/ r_fn r = "dec")%string -> ~ In KUintptr (r_kinds r).
Proof.
  assert (H : forallb (fun r => negb (String.eqb (r_fn r) "inc" || String.eqb (r_fn r) "dec")
                                || negb (existsb (fun k => if rkind_eq_dec k KUintptr then true else false) (r_kinds r))) op_table = true)
    by (vm_compute; reflexivity).
  intros r Hin Hfn Hk. pose proof (proj1 (forallb_forall _ _) H r Hin) as Hr. cbn beta in Hr.
  assert (E : (String.eqb (r_fn r) "inc" || String.eqb (r_fn r) "dec")%string = true)
    by (destruct Hfn as [-> | ->]; reflexivity).
  rewrite E in Hr. cbn in Hr. apply negb_true_iff in Hr.
  assert (X : existsb (fun k => if rkind_eq_dec k KUintptr then true else false) (r_kinds r) = true).
  { apply existsb_exists. exists KUintptr. split; [assumption|]. destruct (rkind_eq_dec KUintptr KUintptr); congruence. }
  congruence.
Qed.

Lemma sel_cmp o k f brn x y : is_int k = true -> cmpop o = true -> forms4b f = true -> (f = FIface -> brn = false) ->
  run_row (select_cmp o k f brn) KBool (VInt k x) (VInt k y) = of_gb (go_cmp o x y).
Proof.
  intros I Co Ff Fi. destruct (is_int_cls k I) as (c & Hc & Ic & H). unfold select_cmp. rewrite Hc.
  destruct c; try discriminate Ic; destruct f; try discriminate Ff; destruct brn;
    try (specialize (Fi eq_refl); discriminate Fi);
    cbn -[bin_fn run_row go_cmp of_gb]; first [ apply run_lift_bool with (brn := true); eapply cmp_shape; eauto 7; fail
          | apply run_lift_bool with (brn := false); eapply cmp_shape; eauto 7 ].
Qed.

Lemma sel_unary o k f x y : is_int k = true -> (o = Neg \/ o = BitNot) -> (f = FIface \/ f = FVar) ->
  run_row (select_un o k f) k (VInt k x) y = of_g k (go_unary o k x).
Proof.
  intros I Ho Hf. destruct (is_int_cls k I) as (c & Hc & Ic & H). unfold select_un. rewrite Hc.
  destruct c; try discriminate Ic; destruct Ho as [-> | ->]; destruct Hf as [-> | ->];
    cbn [un_rows flat_map app find r_form form_eq_dec cls_kinds cls_set];
    apply run_lift; eapply un_shape; eauto.
Qed.

Lemma conv_int kf kto x : is_int kf = true -> is_int kto = true ->
  y_convert kto (VInt kf x) = Ok (VInt kto (go_conv kto x)).
Proof. intros If It. unfold y_convert, store, go_conv. rewrite It. destruct (signed kf); reflexivity. Qed.

(** strings and booleans *)
Lemma string_concat f a b : forms4b f = true ->
  run_row (select_bin Add KString f) KString (VStr a) (VStr b) = YVal (VStr (go_concat a b)).
Proof. intros Ff; destruct f; try discriminate Ff; reflexivity. Qed.

Lemma string_concat_assign f a b : (f = FC1 \/ f = FVar) ->
  run_row (select_asg Add KString f) KString (VStr a) (VStr b) = YVal (VStr (go_concat a b)).
Proof. intros [-> | ->]; reflexivity. Qed.

Lemma string_cmp o f brn a b : cmpop o = true -> forms4b f = true -> (f = FIface -> brn = false) ->
  run_row (select_cmp o KString f brn) KBool (VStr a) (VStr b) = of_gb (go_scmp o a b).
Proof.
  intros Co Ff Fi. unfold go_scmp.
  destruct o; try discriminate Co; destruct f; try discriminate Ff; destruct brn;
    try (specialize (Fi eq_refl); discriminate Fi); cbn;
    try (match goal with |- context [if ?c then _ else _] => destruct c end); reflexivity.
Qed.

Lemma bool_not (brn : bool) b y :
  run_row (nth_error not_rows (if brn then 0%nat else 1%nat)) KBool (VBool b) y = YVal (VBool (go_not b)).
Proof. destruct brn, b; reflexivity. Qed.

Lemma bool_eq o f brn a b : (o = Eq \/ o = Ne) -> forms4b f = true -> (f = FIface -> brn = false) ->
  run_row (find (fun r => (if form_eq_dec (r_form r) f then true else false) && Bool.eqb (r_br r) brn)
                (iface_rows (bin_fn o) o GDefault DOutBool)) KBool (VBool a) (VBool b)
  = of_gb (go_beq o a b).
Proof.
  intros [-> | ->] Ff Fi; destruct f; try discriminate Ff; destruct brn;
    try (specialize (Fi eq_refl); discriminate Fi); destruct a, b; reflexivity.
Qed.

(* ================================================================== 5. witnesses *)

Definition shl_int_var : row := bin_row "shl" Shl CInt FVar.
Definition shr_int_var : row := bin_row "shr" Shr CInt FVar.

Lemma shift_negcount_refuted :
  In shl_int_var op_table /\ In shr_int_var op_table
  /\ denote shl_int_var KInt8 (VInt KInt8 5) (VInt KInt (-1)) = Ok (VInt KInt8 0, NT)
  /\ go_shift Shl KInt8 5 (-1) = Pan PNegShift
  /\ denote shr_int_var KInt8 (VInt KInt8 (-5)) (VInt KInt (-1)) = Ok (VInt KInt8 (-1), NT)
  /\ go_shift Shr KInt8 (-5) (-1) = Pan PNegShift.
Proof.
  repeat split; try (vm_compute; reflexivity);
    apply (existsb_exists (fun m => if row_eq_dec _ m then true else false)) || idtac.
  - assert (E : existsb (fun m => if row_eq_dec shl_int_var m then true else false) op_table = true) by (vm_compute; reflexivity).
    apply existsb_exists in E. destruct E as (m & Hm & E). destruct (row_eq_dec shl_int_var m); [subst; assumption|discriminate].
  - assert (E : existsb (fun m => if row_eq_dec shr_int_var m then true else false) op_table = true) by (vm_compute; reflexivity).
    apply existsb_exists in E. destruct E as (m & Hm & E). destruct (row_eq_dec shr_int_var m); [subst; assumption|discriminate].
Qed.

Lemma shift_side_inhabited :
  run_row (select_bin Shl KInt8 FVar) KInt8 (VInt KInt8 3) (VInt KUint 6) = YVal (VInt KInt8 (-64))
  /\ of_g KInt8 (go_shift Shl KInt8 3 6) = YVal (VInt KInt8 (-64))
  /\ run_row (select_bin Shr KInt64 FC1) KInt64 (VInt KInt64 (-9223372036854775808)) (VInt KUint8 200) = YVal (VInt KInt64 (-1)).
Proof. repeat split; vm_compute; reflexivity. Qed.

Lemma arith_inhabited :
  run_row (select_bin Mul KInt8 FVar) KInt8 (VInt KInt8 100) (VInt KInt8 3) = YVal (VInt KInt8 44)
  /\ run_row (select_bin Quo KInt8 FC0) KInt8 (VInt KInt8 (-128)) (VInt KInt8 (-1)) = YVal (VInt KInt8 (-128))
  /\ run_row (select_bin Quo KUint16 FIface) KUint16 (VInt KUint16 7) (VInt KUint16 0) = YPanic PDivZero
  /\ run_row (select_bin AndNot KUint8 FC1) KUint8 (VInt KUint8 255) (VInt KUint8 15) = YVal (VInt KUint8 240)
  /\ run_row (select_un BitNot KUint8 FVar) KUint8 (VInt KUint8 200) (VInt KUint8 0) = YVal (VInt KUint8 55)
  /\ run_row (select_incdec true KUint8) KUint8 (VInt KUint8 255) (VInt KUint8 255) = YVal (VInt KUint8 0)
  /\ y_convert KInt8 (VInt KUint8 200) = Ok (VInt KInt8 (-56)).
Proof. repeat split; vm_compute; reflexivity. Qed.

Lemma incdec_uintptr_refuted :
  run_row (select_incdec true KUintptr) KUintptr (VInt KUintptr 5) (VInt KUintptr 5) = YStop
  /\ go_inc KUintptr 5 = 6
  /\ in_range KUintptr 5 = true.
Proof. repeat split; vm_compute; reflexivity. Qed.

(** the property at full strength on the integer fragment (spelled out again in Props/C02.v) *)
Definition full_statement : Prop :=
  (forall o k f x y, is_int k = true -> arith o = true ->
      run_row (select_bin o k f) k (VInt k x) (VInt k y) = of_g k (go_arith o k x y))
  /\ (forall o k kc f x n, is_int k = true -> is_shift o = true -> in_range k x = true ->
        is_int kc = true -> in_range kc n = true ->
        run_row (select_bin o k f) k (VInt k x) (VInt kc n) = of_g k (go_shift o k x n))
  /\ (forall inc k x, is_int k = true ->
        run_row (select_incdec inc k) k (VInt k x) (VInt k x) = YVal (VInt k (if inc then go_inc k x else go_dec k x))).

Lemma statement_refuted : ~ full_statement.
Proof.
  intros (_ & _ & H). specialize (H true KUintptr 5 eq_refl). vm_compute in H. discriminate H.
Qed.

(** argument copy: agrees with Go except on negative zero *)
Lemma pass_arg_partial v : v <> FZero true -> y_pass_arg v = g_pass_arg v.
Proof. destruct v as [[|]|b]; intros H; try reflexivity. congruence. Qed.

Lemma negzero_arg_refuted : y_pass_arg (FZero true) = FZero false /\ g_pass_arg (FZero true) = FZero true.
Proof. split; reflexivity. Qed.

(** r = x op y, r an existing interface variable *)
Lemma sel_arith_ifa o k x y : is_int k = true -> arith o = true -> o <> Rem ->
  run_row (select_bin_ifa o k) k (VInt k x) (VInt k y) = of_g k (go_arith o k x y).
Proof.
  intros I A N. unfold select_bin_ifa.
  assert (H : ifa_has_closure o = true) by (destruct o; try reflexivity; try discriminate A; congruence).
  rewrite H. apply sel_arith; assumption.
Qed.

Lemma iface_assign_refuted :
  run_row (select_bin_ifa Rem KInt) KInt (VInt KInt 7) (VInt KInt 3) = YStop
  /\ of_g KInt (go_arith Rem KInt 7 3) = YVal (VInt KInt 1)
  /\ run_row (select_bin_ifa Shl KInt) KInt (VInt KInt 1) (VInt KUint 3) = YStop
  /\ of_g KInt (go_shift Shl KInt 1 3) = YVal (VInt KInt 8)
  /\ run_row (select_un_ifa Neg KInt8) KInt8 (VInt KInt8 5) (VInt KInt8 5) = YStop
  /\ of_g KInt8 (go_unary Neg KInt8 5) = YVal (VInt KInt8 (-5))
  /\ run_row (select_bin_ifa Add KInt8) KInt8 (VInt KInt8 100) (VInt KInt8 100) = YVal (VInt KInt8 (-56)).
Proof. repeat split; vm_compute; reflexivity. Qed.

(** && and ||: value, and in branch context the slot is written on both paths *)
Definition go_logic (o : bop) (a b : bool) : bool := match o with LAnd => a && b | _ => a || b end.

Lemma logic_rows_full fn o r a b : (o = LAnd \/ o = LOr) -> In r (logic_rows fn o) ->
  denote r KBool (VBool a) (VBool b) = lift_bool (r_br r) (Ok (go_logic o a b)).
Proof.
  intros Ho Hin. cbn in Hin. destruct Hin as [<-|[<-|[<-|[]]]]; destruct Ho as [-> | ->]; destruct a, b; reflexivity.
Qed.

(** the frame slot after one execution of a branch-context row is the value of the expression,
    whatever it held before: a later false evaluation cannot leave a stale true *)
Lemma logic_branch_stores_both_paths :
  forallb (fun r => negb ((String.eqb (r_fn r) "land" || String.eqb (r_fn r) "lor" || String.eqb (r_fn r) "not") && r_br r)
                    || (if setter_eq_dec (r_set r) (SBranch true NT false NF) then true else false)) op_table = true.
Proof. vm_compute. reflexivity. Qed.

Lemma logic_rows_in_table :
  forallb (fun m => existsb (fun r => if row_eq_dec r m then true else false) op_table)
          (logic_rows "land" LAnd ++ logic_rows "lor" LOr) = true.
Proof. vm_compute. reflexivity. Qed.
