(** C02 — floating point: evaluation of Y_float and G_float on the cases written by the harness
    (harness/c02_float.go).  A case: id, source form, operand kind, second kind (target of a
    conversion), operand bit patterns (or integer value for integer operands), what real yaegi
    produced and what compiled Go produced (result bits with NaN canonicalised, or a bool, or the
    integer value for float -> integer conversions). *)
From Coq Require Import ZArith List String Bool.
From Verif Require Import Num.OpDsl Num.Model Num.FloatBase Num.FloatModel.
Import ListNotations.
Open Scope Z_scope.

Inductive fckind :=
| FCBin (o : bop) (f : form)                (* r = x op y; f = FIface: var r interface{} = x op y *)
| FCAsg (o : bop) (f : form)                (* x op= y *)
| FCCmp (o : bop) (f : form) (brn : bool)   (* comparison, as a value or as a branch condition *)
| FCUn (o : uop) (f : form)                 (* -x *)
| FCIncDec (inc : bool)                     (* x++ x-- *)
| FCConvFF                                  (* kc(x), x of float kind k, kc a float kind *)
| FCConvIF                                  (* kc(x), x of integer kind k (a = its value), kc a float kind *)
| FCConvFI.                                 (* kc(x), x of float kind k, kc an integer kind; result = integer value *)

Inductive fobs := FO (o : fout) | FOOther.

Definition fobs_eqb (a b : fobs) : bool :=
  match a, b with FO x, FO y => fout_eqb x y | _, _ => false end.

Definition frun (r : option row) (kd k : rkind) (a b : Z) : fobs :=
  match r with
  | Some r => match fdenote r kd k a b with Ok (v, _) => FO v | _ => FOOther end
  | None => FOOther
  end.

Definition of_fres (r : res fout) : fobs := match r with Ok v => FO v | _ => FOOther end.
Definition of_zres (r : res Z) : fobs := match r with Ok z => FO (FBits z) | _ => FOOther end.

Definition fy_pred (c : fckind) (k kc : rkind) (a b : Z) : fobs :=
  match c with
  | FCBin o f => frun (select_bin o k f) k k a b
  | FCAsg o f => frun (select_asg o k f) k k a b
  | FCCmp o f brn => frun (select_cmp o k f brn) KBool k a b
  | FCUn o f => frun (select_un o k f) k k a b
  | FCIncDec inc => frun (select_incdec inc k) k k a a
  | FCConvFF => of_fres (y_fconv k kc a)
  | FCConvIF => if is_int k && in_range k a then of_fres (y_int2f kc a) else FOOther
  | FCConvFI => of_zres (y_f2int k kc a)
  end.

Definition fg_pred (c : fckind) (k kc : rkind) (a b : Z) : fobs :=
  match c with
  | FCBin o _ | FCAsg o _ | FCCmp o _ _ => of_fres (g_fbin o k a b)
  | FCUn o _ => of_fres (g_fun o k a)
  | FCIncDec inc => of_fres (g_fincdec inc k a)
  | FCConvFF => of_fres (g_fconv k kc a)
  | FCConvIF => if is_int k && in_range k a then of_fres (g_int2f kc a) else FOOther
  | FCConvFI => of_zres (g_f2int k kc a)
  end.

Definition float_case := (N * fckind * rkind * rkind * Z * Z * fobs * fobs)%type.

Definition float_mis_y (cs : list float_case) : list N :=
  flat_map (fun '(id, c, k, kc, a, b, impl, _) => if fobs_eqb (fy_pred c k kc a b) impl then [] else [id]) cs.
Definition float_mis_g (cs : list float_case) : list N :=
  flat_map (fun '(id, c, k, kc, a, b, _, ref) => if fobs_eqb (fg_pred c k kc a b) ref then [] else [id]) cs.
